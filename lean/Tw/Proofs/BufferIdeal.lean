import Tw.Model.Buffer
import Tw.Proofs.Buffer

/-!
The *ideal* semantics of the buffer abstraction — what property C19 says in words — and the proof
that the model of the code (`Tw.Model.Buffer`: memory + separate counter, copies written back on
release, set_len/narrowing in the destructors) refines it for **every** operation sequence.

In the ideal semantics there is no memory and no counter: a view is its capacity and the *log* of
the bytes committed through it, in order; committing appends to the log (never beyond the
capacity); releasing a nested view appends the child's log to the parent's; releasing the outermost
view appends its log to the vector's contents (or makes it the slice reference's contents).
-/
namespace Tw.Buffer
set_option linter.unusedSimpArgs false
set_option linter.unusedVariables false

structure IView where
  cap : Nat
  log : List UInt8
  deriving Repr

def IView.room (v : IView) : Nat := v.cap - v.log.length

/-- commit the fitting prefix of `bs`; `.cap` when something was cut off -/
def IView.commit (v : IView) (bs : List UInt8) : IView × Res :=
  ({ v with log := v.log ++ bs.take v.room }, if bs.length ≤ v.room then .ok else .cap)

/-- a nested view is released -/
def IView.absorb (p c : IView) : IView := { p with log := p.log ++ c.log }

/-- ideal container: for the vectors `cap` and `data` are capacity and contents; for a slice only
its length `cap` is tracked (its bytes beyond the committed prefix are whatever was there); for a
slice reference `data` is the slice -/
structure IStore where
  kind : Kind
  cap : Nat
  data : List UInt8
  deriving Repr

def IStore.room (s : IStore) : Nat :=
  match s.kind with
  | .vec | .arr | .raw => s.cap - s.data.length
  | .slice | .sref => s.cap

def IStore.release (s : IStore) (v : IView) : IStore :=
  match s.kind with
  | .vec | .arr | .raw => { s with data := s.data ++ v.log }
  | .slice => s
  | .sref => { s with cap := v.log.length, data := v.log }

structure ISess where
  store : IStore
  stack : List IView
  rdr : Rdr

def iUnwindFrom (st : IStore) (c : IView) : List IView → IStore
  | [] => st.release c
  | p :: rest => iUnwindFrom st (p.absorb c) rest

def iUnwindStack (st : IStore) : List IView → IStore
  | [] => st
  | c :: rest => iUnwindFrom st c rest

namespace ISess

def unwind (s : ISess) : ISess := { s with store := iUnwindStack s.store s.stack, stack := [] }

def pop (s : ISess) : ISess :=
  match s.stack with
  | [] => s
  | [v] => { s with store := s.store.release v, stack := [] }
  | c :: p :: rest => { s with stack := p.absorb c :: rest }

/-- room a new view gets -/
def baseRoom (s : ISess) : Nat :=
  match s.stack with
  | [] => s.store.room
  | p :: _ => p.room

def onTop (s : ISess) (f : IView → IView × Res) (okR capR : Resp) : ISess × Resp :=
  match s.stack with
  | [] => (s, .badOp)
  | v :: rest =>
    match f v with
    | (v', .ok) => ({ s with stack := v' :: rest }, okR)
    | (v', .cap) => ({ s with stack := v' :: rest }, capR)
    | (v', .panic) => (unwind { s with stack := v' :: rest }, .panic)

/-- a capped view has capacity `min(room, c₁, c₂, …)` -/
def openView (s : ISess) (caps : List Nat) : ISess :=
  { s with stack := { cap := caps.foldl min s.baseRoom, log := [] } :: s.stack }

/-- opening fails (panic) only for a caller-owned counter that already counted something -/
def canOpen (s : ISess) : Bool :=
  !(s.stack.isEmpty && (s.store.kind == .raw) && !s.store.data.isEmpty)

/-- a caller-owned `BufferRef` cannot be capped -/
def rawCapped (s : ISess) (caps : List Nat) : Bool :=
  s.stack.isEmpty && (s.store.kind == .raw) && !caps.isEmpty

def readTop (s : ISess) : ISess × Resp :=
  match s.stack with
  | [] => (s, .badOp)
  | v :: rest =>
    let x := s.rdr.read v.room
    let s1 : ISess := { s with rdr := x.next }
    match x.ret with
    | .panic => (unwind s1, .panic)
    | .err => (s1.pop, .readErr)
    | .ok k =>
      if k ≤ v.room then
        -- exactly the `k` bytes the reader delivered are committed
        let v2 : IView := { v with log := v.log ++ x.wrote.take k }
        (pop { s1 with stack := v2 :: rest }, .readOk v2.log)
      else (unwind s1, .panic)

def step (s : ISess) : Op → ISess × Resp
  | .write bs => s.onTop (·.commit bs) (.wrote true) (.wrote false)
  | .extendRep b n => s.onTop (·.commit (List.replicate n b)) (.wrote true) (.wrote false)
  | .extendPanic bs =>
    s.onTop (fun v => match v.commit bs with
      | (v', .ok) => (v', .panic)
      | r => r) (.wrote true) (.wrote false)
  | .advance n fill =>
    s.onTop (fun v => if n ≤ v.room then ({ v with log := v.log ++ List.replicate n fill }, .ok)
      else (v, .panic)) .done .done
  | .remaining =>
    match s.stack with
    | [] => (s, .badOp)
    | v :: _ => (s, .num v.room)
  | .openV caps =>
    if s.rawCapped caps then (s, .badOp)
    else if s.canOpen then (s.openView caps, .opened)
    else (s.unwind, .panic)
  | .init =>
    match s.stack with
    | [] => (s, .badOp)
    | v :: _ => (s.pop, .closed (some v.log))
  | .drop =>
    match s.stack with
    | [] => (s, .badOp)
    | _ :: _ => (s.pop, .closed none)
  | .setr r => ({ s with rdr := r }, .done)
  | .read caps =>
    if s.rawCapped caps then (s, .badOp)
    else if s.canOpen then (s.openView caps).readTop
    else (s.unwind, .panic)

def run (s : ISess) : List Op → ISess × List Resp
  | [] => (s, [])
  | op :: ops =>
    let (s1, r) := s.step op
    let (s2, rs) := run s1 ops
    (s2, r :: rs)

end ISess

/-- the ideal counterpart of a fresh container -/
def IStore.fresh (k : Kind) (cap : Nat) (old : List UInt8) : IStore :=
  match k with
  | .vec | .arr => { kind := k, cap := cap, data := old }
  | .slice | .raw => { kind := k, cap := old.length, data := [] }
  | .sref => { kind := k, cap := old.length, data := old }

def ISess.fresh (st : IStore) : ISess := { store := st, stack := [], rdr := .empty }

/-! ### readers never claim, within the buffer, bytes they did not store -/

theorem overlay_length (a b : List UInt8) : (overlay a b).length = max a.length b.length := by
  simp [overlay]; omega

theorem Rdr.read_sound (r : Rdr) : ∀ (n : Nat), (r.read n).wrote.length ≤ n ∧
    ∀ k, (r.read n).ret = .ok k → k ≤ (r.read n).wrote.length ∨ n < k := by
  induction r with
  | slice bs => intro n; simp [Rdr.read]; omega
  | file bs => intro n; simp [Rdr.read]; omega
  | rep b => intro n; simp [Rdr.read]
  | empty => intro n; simp [Rdr.read]
  | liar c f => intro n; simp [Rdr.read]; omega
  | fail f => intro n; simp [Rdr.read]
  | take limit r ih =>
    intro n
    unfold Rdr.read
    by_cases hl : limit = 0
    · simp [hl]
    · rw [if_neg hl]
      obtain ⟨h1, h2⟩ := ih (min n limit)
      dsimp only
      cases hr : (r.read (min n limit)).ret with
      | ok k =>
        dsimp only
        have := h2 k hr
        by_cases hk : k ≤ limit
        · rw [if_pos hk]
          dsimp only
          refine ⟨by omega, ?_⟩
          intro k' hk'
          simp only [RdRet.ok.injEq] at hk'
          subst hk'; omega
        · rw [if_neg hk]
          dsimp only
          exact ⟨by omega, by intro k' hk'; cases hk'⟩
      | err => exact ⟨by dsimp only; omega, by intro k' hk'; cases hk'⟩
      | panic => exact ⟨by dsimp only; omega, by intro k' hk'; cases hk'⟩
  | bufr cap buffered r ih =>
    intro n
    unfold Rdr.read
    split
    · exact ih n
    · split
      · obtain ⟨h1, h2⟩ := ih cap
        dsimp only
        cases hr : (r.read cap).ret with
        | ok k =>
          dsimp only
          split
          · refine ⟨by simp; omega, ?_⟩
            intro k' hk'
            simp only [RdRet.ok.injEq] at hk'
            subst hk'
            left
            simp
          · exact ⟨by simp, by intro k' hk'; cases hk'⟩
        | err => exact ⟨by simp, by intro k' hk'; cases hk'⟩
        | panic => exact ⟨by simp, by intro k' hk'; cases hk'⟩
      · refine ⟨by simp; omega, ?_⟩
        intro k' hk'
        simp only [RdRet.ok.injEq] at hk'
        subst hk'
        left
        simp
  | chain a b done iha ihb =>
    intro n
    unfold Rdr.read
    cases done with
    | true => simpa using ihb n
    | false =>
      simp only [Bool.false_eq_true, if_false]
      obtain ⟨a1, a2⟩ := iha n
      obtain ⟨b1, b2⟩ := ihb n
      split
      · rename_i heq
        by_cases hn : n ≠ 0
        · rw [if_pos hn]
          dsimp only
          rw [overlay_length]
          refine ⟨by omega, ?_⟩
          intro k hk
          have := b2 k hk
          omega
        · rw [if_neg hn]
          exact ⟨a1, by intro k hk; simp only [RdRet.ok.injEq] at hk; omega⟩
      · rename_i r' hne
        exact ⟨a1, a2⟩

/-! ### the abstraction relation -/

/-- a model view represents an ideal view: invariant, same capacity, initialised bytes = log -/
def VRel (v : View) (i : IView) : Prop := v.Wf ∧ v.mem.length = i.cap ∧ v.done = i.log

theorem VRel.init_eq {v : View} {i : IView} (h : VRel v i) : v.init = i.log.length := by
  rw [← h.2.2, View.done_length h.1]

theorem VRel.room_eq {v : View} {i : IView} (h : VRel v i) : v.room = i.room := by
  simp only [View.room, IView.room, h.init_eq, h.2.1]

def SRel (s : Store) (i : IStore) : Prop :=
  s.Wf ∧ s.kind = i.kind ∧
  match s.kind with
  | .vec | .arr | .raw => s.buf.length = i.cap ∧ s.contents = i.data ∧ s.len = i.data.length
  | .slice => s.buf.length = i.cap
  | .sref => s.buf.length = i.cap ∧ s.buf = i.data

theorem SRel.room_eq {s : Store} {i : IStore} (h : SRel s i) : s.room = i.room := by
  obtain ⟨hw, hk, hm⟩ := h
  unfold Store.room IStore.room
  rw [← hk]
  cases hkk : s.kind <;> simp only [hkk] at hm ⊢
  · omega
  · omega
  · have := hw.2 (Or.inl hkk); omega
  · have := hw.2 (Or.inr hkk); omega
  · omega

def stackRel : List View → List IView → Prop
  | [], [] => True
  | v :: vs, i :: is => VRel v i ∧ stackRel vs is
  | _, _ => False

def Rel (s : Sess) (i : ISess) : Prop :=
  s.Wf ∧ SRel s.store i.store ∧ stackRel s.stack i.stack ∧ s.rdr = i.rdr

theorem release_rel {s : Store} {i : IStore} {v : View} {iv : IView} (hs : SRel s i) (hv : VRel v iv)
    (hf : v.mem.length ≤ s.room) : SRel (s.release v) (i.release iv) := by
  obtain ⟨hw, hk, hm⟩ := hs
  obtain ⟨vw, vc, vd⟩ := hv
  refine ⟨Store.release_wf hw vw hf, ?_, ?_⟩
  · cases hkk : s.kind <;> simp [Store.release, IStore.release, hkk, ← hk]
  · cases hkk : s.kind
    · obtain ⟨r1, r2, r3, r4⟩ := Store.release_vec hw vw hf (Or.inl hkk)
      simp only [hkk] at hm
      rw [r4, hkk]
      simp only [IStore.release, ← hk, hkk]
      refine ⟨by omega, by rw [r1, hm.2.1, vd], ?_⟩
      rw [r2, hm.2.2, VRel.init_eq ⟨vw, vc, vd⟩]
      simp
    · obtain ⟨r1, r2, r3, r4⟩ := Store.release_vec hw vw hf (Or.inr (Or.inl hkk))
      simp only [hkk] at hm
      rw [r4, hkk]
      simp only [IStore.release, ← hk, hkk]
      refine ⟨by omega, by rw [r1, hm.2.1, vd], ?_⟩
      rw [r2, hm.2.2, VRel.init_eq ⟨vw, vc, vd⟩]
      simp
    · obtain ⟨r1, r2, r3, r4⟩ := Store.release_slice hw vw hf hkk
      simp only [hkk] at hm
      rw [r4, hkk]
      simp only [IStore.release, ← hk, hkk]
      simpa [Store.contents, hkk, r4] using r2.trans (by simp [Store.contents, hkk, hm])
    · obtain ⟨r1, r2, r3⟩ := Store.release_sref hw vw hf hkk
      simp only [hkk] at hm
      rw [r3, hkk]
      simp only [IStore.release, ← hk, hkk]
      have : (s.release v).buf = v.done := by simpa [Store.contents, r3, hkk] using r1
      rw [this, vd]; simp
    · obtain ⟨r1, r2, r3, r4⟩ := Store.release_vec hw vw hf (Or.inr (Or.inr hkk))
      simp only [hkk] at hm
      rw [r4, hkk]
      simp only [IStore.release, ← hk, hkk]
      refine ⟨by omega, by rw [r1, hm.2.1, vd], ?_⟩
      rw [r2, hm.2.2, VRel.init_eq ⟨vw, vc, vd⟩]
      simp

theorem writeBack_rel {p c : View} {ip ic : IView} (hp : VRel p ip) (hc : VRel c ic) (hf : c.Fits p) :
    VRel (p.writeBack c) (ip.absorb ic) :=
  ⟨View.writeBack_wf hp.1 hc.1 hf, (View.writeBack_cap hp.1 hf).trans hp.2.1, by
    rw [View.writeBack_done hp.1 hc.1 hf, hp.2.2, hc.2.2]; rfl⟩

theorem unwindFrom_rel (st : Store) (ist : IStore) (hs : SRel st ist) :
    ∀ (rest : List View) (irest : List IView) (c : View) (ic : IView),
    stackOk st.room (c :: rest) → stackRel (c :: rest) (ic :: irest) →
    SRel (unwindFrom st c rest) (iUnwindFrom ist ic irest)
  | [], [], c, ic, hok, hr => release_rel hs hr.1 hok.2
  | p :: rest, ip :: irest, c, ic, hok, hr =>
    unwindFrom_rel st ist hs rest irest _ _ (stackOk_pop hok) ⟨writeBack_rel hr.2.1 hr.1 hok.2.1, hr.2.2⟩
  | [], _ :: _, c, ic, hok, hr => hr.2.elim
  | _ :: _, [], c, ic, hok, hr => hr.2.elim

theorem unwindStack_rel (st : Store) (vs : List View) : ∀ (ist : IStore) (ivs : List IView),
    SRel st ist → stackOk st.room vs → stackRel vs ivs →
    SRel (unwindStack st vs) (iUnwindStack ist ivs) := by
  intro ist ivs hs hok hr
  match vs, ivs, hr with
  | [], [], hr => exact hs
  | c :: rest, ic :: irest, hr => exact unwindFrom_rel st ist hs rest irest c ic hok hr

namespace Rel

theorem unwind {s : Sess} {i : ISess} (h : Rel s i) : Rel s.unwind i.unwind :=
  ⟨Sess.unwind_wf h.1, unwindStack_rel _ _ _ _ h.2.1 h.1.2 h.2.2.1, trivial, h.2.2.2⟩

theorem pop {s : Sess} {i : ISess} (h : Rel s i) : Rel s.pop i.pop := by
  obtain ⟨hw, hs, hr, hd⟩ := h
  refine ⟨Sess.pop_wf hw, ?_⟩
  obtain ⟨store, stack, rdr⟩ := s
  obtain ⟨istore, istack, irdr⟩ := i
  simp only at hs hr hd
  match stack, istack, hr with
  | [], [], hr => exact ⟨hs, trivial, hd⟩
  | [v], [iv], hr => exact ⟨release_rel hs hr.1 hw.2.2, trivial, hd⟩
  | c :: p :: rest, ic :: ip :: irest, hr =>
    exact ⟨hs, ⟨writeBack_rel hr.2.1 hr.1 hw.2.2.1, hr.2.2⟩, hd⟩

/-- a change of the innermost view that is matched by the ideal view -/
theorem onTop {s : Sess} {i : ISess} (h : Rel s i) (f : View → View × Res) (g : IView → IView × Res)
    (hfg : ∀ v iv, VRel v iv → VRel (f v).1 (g iv).1 ∧ (f v).1.mem.length = v.mem.length ∧ (f v).2 = (g iv).2)
    (okR capR : Resp) :
    Rel (s.onTop f okR capR).1 (i.onTop g okR capR).1 ∧ (s.onTop f okR capR).2 = (i.onTop g okR capR).2 := by
  obtain ⟨hw, hs, hr, hd⟩ := h
  obtain ⟨store, stack, rdr⟩ := s
  obtain ⟨istore, istack, irdr⟩ := i
  simp only at hs hr hd
  match stack, istack, hr with
  | [], [], hr => exact ⟨⟨hw, hs, trivial, hd⟩, rfl⟩
  | v :: rest, iv :: irest, hr =>
    obtain ⟨h1, h2, h3⟩ := hfg v iv hr.1
    simp only [Sess.onTop, ISess.onTop]
    generalize f v = r at h1 h2 h3
    generalize g iv = ir at h1 h3
    obtain ⟨v', res⟩ := r
    obtain ⟨iv', ires⟩ := ir
    simp only at h1 h2 h3
    subst h3
    have key : Rel ⟨store, v' :: rest, rdr⟩ ⟨istore, iv' :: irest, irdr⟩ :=
      ⟨⟨hw.1, stackOk_update hw.2 h1.1 (Nat.le_of_eq h2)⟩, hs, ⟨h1, hr.2⟩, hd⟩
    cases res
    · exact ⟨key, rfl⟩
    · exact ⟨key, rfl⟩
    · exact ⟨key.unwind, rfl⟩

theorem rawCapped_eq {s : Sess} {i : ISess} (h : Rel s i) (caps : List Nat) :
    s.rawCapped caps = i.rawCapped caps := by
  obtain ⟨hw, hs, hr, hd⟩ := h
  obtain ⟨store, stack, rdr⟩ := s
  obtain ⟨istore, istack, irdr⟩ := i
  simp only at hs hr hd
  have hk : store.kind = istore.kind := hs.2.1
  match stack, istack, hr with
  | [], [], hr => simp [Sess.rawCapped, ISess.rawCapped, hk]
  | v :: rest, iv :: irest, hr => simp [Sess.rawCapped, ISess.rawCapped]

/-- the model can make a new view exactly when the ideal semantics can -/
theorem base_eq {s : Sess} {i : ISess} (h : Rel s i) :
    (i.canOpen = true → ∃ b, s.base = some b ∧ b.mem.length = i.baseRoom) ∧
    (i.canOpen = false → s.base = none) := by
  obtain ⟨hw, hs, hr, hd⟩ := h
  obtain ⟨store, stack, rdr⟩ := s
  obtain ⟨istore, istack, irdr⟩ := i
  simp only at hs hr hd
  match stack, istack, hr with
  | [], [], hr =>
    have hk : store.kind = istore.kind := hs.2.1
    have hlen : store.kind = .raw → store.len = istore.data.length := by
      intro hraw
      have := hs.2.2
      simp only [hraw] at this
      exact this.2.2
    constructor
    · intro hc
      have hco : store.canOpen := by
        intro ⟨hraw, hne⟩
        simp [ISess.canOpen, ← hk, hraw] at hc
        rw [hlen hraw, hc] at hne
        exact hne rfl
      refine ⟨_, by simp only [Sess.base]; exact Store.top_eq hs.1 hco, ?_⟩
      simp only [ISess.baseRoom, ← hs.room_eq, Store.room, List.length_drop]
    · intro hc
      simp only [Sess.base]
      apply Store.top_none
      intro hco
      apply hco
      simp [ISess.canOpen, ← hk] at hc
      refine ⟨hc.1, ?_⟩
      rw [hlen hc.1]
      intro h0
      exact hc.2 (List.eq_nil_of_length_eq_zero h0)
  | v :: rest, iv :: irest, hr =>
    constructor
    · intro _
      refine ⟨_, by simp only [Sess.base]; exact View.child_eq hr.1.1, ?_⟩
      simp only [ISess.baseRoom, ← hr.1.room_eq, View.room, List.length_drop]
    · intro hc
      simp [ISess.canOpen] at hc

theorem openView_fail {s : Sess} {i : ISess} (h : Rel s i) (caps : List Nat) (hc : i.canOpen = false) :
    (s.openView caps).2 = false ∧ Rel (s.openView caps).1 i.unwind := by
  have hb := (base_eq h).2 hc
  unfold Sess.openView
  rw [hb]
  exact ⟨rfl, h.unwind⟩

theorem openView {s : Sess} {i : ISess} (h : Rel s i) (caps : List Nat) (hc : i.canOpen = true) :
    (s.openView caps).2 = true ∧ Rel (s.openView caps).1 (i.openView caps) := by
  obtain ⟨b, hb, hlen⟩ := (base_eq h).1 hc
  obtain ⟨hok, h0⟩ := Sess.base_wf h.1 hb
  have hle := View.foldl_min_le caps b.mem.length
  have e : s.openView caps =
      ({ s with stack := { mem := b.mem.take (caps.foldl min b.mem.length), init := 0 } :: s.stack }, true) := by
    unfold Sess.openView
    rw [hb]
    simp only
    rw [View.capAll_eq caps b h0]
  rw [e]
  refine ⟨rfl, ⟨h.1.1, ?_⟩, h.2.1, ⟨⟨?_, ?_, ?_⟩, h.2.2.1⟩, h.2.2.2⟩
  · exact stackOk_update hok (by simp [View.Wf]) (by simp only [List.length_take]; omega)
  · simp [View.Wf]
  · simp only [List.length_take, hlen] at *; omega
  · simp [View.done]

theorem readTop {s : Sess} {i : ISess} (h : Rel s i) :
    Rel s.readTop.1 i.readTop.1 ∧ s.readTop.2 = i.readTop.2 := by
  obtain ⟨hw, hs, hr, hd⟩ := h
  obtain ⟨store, stack, rdr⟩ := s
  obtain ⟨istore, istack, irdr⟩ := i
  simp only at hs hr hd
  subst hd
  match stack, istack, hr with
  | [], [], hr => exact ⟨⟨hw, hs, trivial, rfl⟩, rfl⟩
  | v :: rest, iv :: irest, hr =>
    obtain ⟨hv, hrest⟩ := hr
    have hroom : v.mem.length - v.init = iv.room := hv.room_eq
    simp only [Sess.readTop, ISess.readTop, hroom]
    obtain ⟨s1, s2⟩ := Rdr.read_sound rdr iv.room
    generalize rdr.read iv.room = x at s1 s2
    have hp : VRel (v.poke x.wrote) iv :=
      ⟨View.poke_wf hv.1 _, (View.poke_cap hv.1 _).trans hv.2.1, (View.poke_done hv.1 _).trans hv.2.2⟩
    have key1 : Rel ⟨store, v.poke x.wrote :: rest, x.next⟩ ⟨istore, iv :: irest, x.next⟩ :=
      ⟨⟨hw.1, stackOk_update hw.2 hp.1 (Nat.le_of_eq (View.poke_cap hv.1 _))⟩, hs, ⟨hp, hrest⟩, rfl⟩
    cases hret : x.ret with
    | panic => exact ⟨key1.unwind, rfl⟩
    | err => exact ⟨key1.pop, rfl⟩
    | ok k =>
      simp only
      rw [View.advance_eq]
      have hproom : (v.poke x.wrote).room = iv.room := hp.room_eq
      by_cases hk : k ≤ iv.room
      · rw [if_pos ⟨by omega, hp.1⟩, if_pos hk]
        have hkw : k ≤ x.wrote.length := by
          rcases s2 k hret with h' | h' <;> omega
        have hv2w : View.Wf { v.poke x.wrote with init := (v.poke x.wrote).init + k } := by
          have h1 : (v.poke x.wrote).init ≤ (v.poke x.wrote).mem.length := hp.1
          have h2 : (v.poke x.wrote).mem.length - (v.poke x.wrote).init = iv.room := hproom
          show (v.poke x.wrote).init + k ≤ (v.poke x.wrote).mem.length
          omega
        have hdone : View.done { v.poke x.wrote with init := (v.poke x.wrote).init + k } =
            iv.log ++ x.wrote.take k := by
          rw [← hv.2.2]
          have hwl : x.wrote.length ≤ v.mem.length - v.init := by omega
          have hvw : v.init ≤ v.mem.length := hv.1
          simp only [View.done, View.poke, List.take_of_length_le hwl, splice]
          list_ext
        simp only
        rw [View.initialized_eq hv2w]
        simp only
        have hv2 : VRel { v.poke x.wrote with init := (v.poke x.wrote).init + k }
            { iv with log := iv.log ++ x.wrote.take k } := ⟨hv2w, hp.2.1, hdone⟩
        have key2 : Rel ⟨store, { v.poke x.wrote with init := (v.poke x.wrote).init + k } :: rest, x.next⟩
            ⟨istore, { iv with log := iv.log ++ x.wrote.take k } :: irest, x.next⟩ :=
          ⟨⟨hw.1, stackOk_update hw.2 hv2w (Nat.le_of_eq (View.poke_cap hv.1 _))⟩, hs, ⟨hv2, hrest⟩, rfl⟩
        exact ⟨key2.pop, by rw [hdone]⟩
      · rw [if_neg (by omega), if_neg hk]
        exact ⟨key1.unwind, rfl⟩

end Rel

theorem extend_rel {v : View} {iv : IView} (hv : VRel v iv) (bs : List UInt8) :
    VRel (v.extend bs).1 (iv.commit bs).1 ∧ (v.extend bs).1.mem.length = v.mem.length ∧
    (v.extend bs).2 = (iv.commit bs).2 := by
  refine ⟨⟨View.extend_wf hv.1 bs, (View.extend_cap hv.1 bs).trans hv.2.1, ?_⟩, View.extend_cap hv.1 bs, ?_⟩
  · rw [View.extend_done hv.1, hv.2.2, hv.room_eq]; rfl
  · rw [View.extend_res hv.1, hv.room_eq]; rfl

theorem commit_rep (iv : IView) (b : UInt8) (n : Nat) :
    iv.commit (List.replicate (min n (iv.room + 1)) b) = iv.commit (List.replicate n b) := by
  simp only [IView.commit, List.take_replicate, List.length_replicate]
  have e1 : min iv.room (min n (iv.room + 1)) = min iv.room n := by omega
  rw [e1]
  by_cases h : n ≤ iv.room
  · rw [if_pos (by omega), if_pos h]
  · rw [if_neg (by omega), if_neg h]

/-- **Simulation**: one operation of the model is matched by the ideal semantics, with the same
response. -/
theorem step_rel {s : Sess} {i : ISess} (h : Rel s i) (op : Op) :
    Rel (s.step op).1 (i.step op).1 ∧ (s.step op).2 = (i.step op).2 := by
  cases op with
  | write bs => exact h.onTop _ _ (fun v iv hv => extend_rel hv bs) _ _
  | extendRep b n =>
    refine h.onTop _ _ (fun v iv hv => ?_) _ _
    have e : v.mem.length - v.init = iv.room := hv.room_eq
    simp only [e, ← commit_rep iv b n]
    exact extend_rel hv _
  | extendPanic bs =>
    refine h.onTop _ _ (fun v iv hv => ?_) _ _
    obtain ⟨h1, h2, h3⟩ := extend_rel hv bs
    generalize v.extend bs = r at h1 h2 h3
    generalize iv.commit bs = ir at h1 h3
    obtain ⟨v', res⟩ := r
    obtain ⟨iv', ires⟩ := ir
    simp only at h1 h2 h3
    subst h3
    cases res <;> exact ⟨h1, h2, rfl⟩
  | advance n fill =>
    refine h.onTop _ _ (fun v iv hv => ?_) _ _
    have e : v.mem.length - v.init = iv.room := hv.room_eq
    have hvw : v.init ≤ v.mem.length := hv.1
    have hp := View.poke_wf hv.1 (List.replicate (min n iv.room) fill)
    have hpc := View.poke_cap hv.1 (List.replicate (min n iv.room) fill)
    have hpd := View.poke_done hv.1 (List.replicate (min n iv.room) fill)
    simp only [e]
    rw [View.advance_eq]
    have hproom : (v.poke (List.replicate (min n iv.room) fill)).room = iv.room := by
      simp only [View.room, hpc, View.poke_init]; exact e
    by_cases hn : n ≤ iv.room
    · rw [if_pos ⟨by omega, hp⟩, if_pos hn]
      refine ⟨⟨?_, hpc.trans hv.2.1, ?_⟩, hpc, rfl⟩
      · show (v.poke _).init + n ≤ (v.poke _).mem.length
        rw [hpc, View.poke_init]; omega
      · rw [← hv.2.2]
        simp only [View.done, View.poke, splice, Nat.min_eq_left hn, e, List.take_replicate, Nat.min_self]
        list_ext
    · rw [if_neg (by omega), if_neg hn]
      exact ⟨⟨hp, hpc.trans hv.2.1, hpd.trans hv.2.2⟩, hpc, rfl⟩
  | remaining =>
    obtain ⟨hw, hs, hr, hd⟩ := h
    obtain ⟨store, stack, rdr⟩ := s
    obtain ⟨istore, istack, irdr⟩ := i
    simp only at hs hr hd
    match stack, istack, hr with
    | [], [], hr => exact ⟨⟨hw, hs, trivial, hd⟩, rfl⟩
    | v :: rest, iv :: irest, hr =>
      simp only [Sess.step, ISess.step, View.remaining_eq hr.1.1, hr.1.room_eq]
      exact ⟨⟨hw, hs, hr, hd⟩, trivial⟩
  | openV caps =>
    simp only [Sess.step, ISess.step, h.rawCapped_eq caps]
    split
    · exact ⟨h, rfl⟩
    · cases hc : i.canOpen with
      | true =>
        obtain ⟨h1, h2⟩ := h.openView caps hc
        generalize s.openView caps = r at h1 h2
        obtain ⟨s', b⟩ := r
        simp only at h1 h2
        subst h1
        exact ⟨h2, rfl⟩
      | false =>
        obtain ⟨h1, h2⟩ := h.openView_fail caps hc
        generalize s.openView caps = r at h1 h2
        obtain ⟨s', b⟩ := r
        simp only at h1 h2
        subst h1
        exact ⟨h2, rfl⟩
  | init =>
    have hpop := h.pop
    obtain ⟨hw, hs, hr, hd⟩ := h
    obtain ⟨store, stack, rdr⟩ := s
    obtain ⟨istore, istack, irdr⟩ := i
    simp only at hs hr hd
    match stack, istack, hr with
    | [], [], hr => exact ⟨⟨hw, hs, trivial, hd⟩, rfl⟩
    | v :: rest, iv :: irest, hr =>
      simp only [Sess.step, ISess.step, View.initialized_eq hr.1.1, hr.1.2.2]
      exact ⟨hpop, trivial⟩
  | drop =>
    have hpop := h.pop
    obtain ⟨hw, hs, hr, hd⟩ := h
    obtain ⟨store, stack, rdr⟩ := s
    obtain ⟨istore, istack, irdr⟩ := i
    simp only at hs hr hd
    match stack, istack, hr with
    | [], [], hr => exact ⟨⟨hw, hs, trivial, hd⟩, rfl⟩
    | v :: rest, iv :: irest, hr => exact ⟨hpop, rfl⟩
  | setr r => exact ⟨⟨Sess.wf_congr h.1 rfl rfl, h.2.1, h.2.2.1, rfl⟩, rfl⟩
  | read caps =>
    simp only [Sess.step, ISess.step, h.rawCapped_eq caps]
    split
    · exact ⟨h, rfl⟩
    · cases hc : i.canOpen with
      | true =>
        obtain ⟨h1, h2⟩ := h.openView caps hc
        generalize s.openView caps = r at h1 h2
        obtain ⟨s', b⟩ := r
        simp only at h1 h2
        subst h1
        exact h2.readTop
      | false =>
        obtain ⟨h1, h2⟩ := h.openView_fail caps hc
        generalize s.openView caps = r at h1 h2
        obtain ⟨s', b⟩ := r
        simp only at h1 h2
        subst h1
        exact ⟨h2, rfl⟩

/-- … and therefore every operation sequence. -/
theorem run_rel (ops : List Op) : ∀ {s : Sess} {i : ISess}, Rel s i →
    Rel (s.run ops).1 (i.run ops).1 ∧ (s.run ops).2 = (i.run ops).2 := by
  induction ops with
  | nil => intro s i h; exact ⟨h, rfl⟩
  | cons op ops ih =>
    intro s i h
    obtain ⟨h1, h2⟩ := step_rel h op
    obtain ⟨h3, h4⟩ := ih h1
    simp only [Sess.run, ISess.run]
    exact ⟨h3, by rw [h2, h4]⟩

/-! ### the ideal container keeps its kind and (except for a slice reference) its capacity -/

def IStore.Same (a b : IStore) : Prop := a.kind = b.kind ∧ (b.kind ≠ .sref → a.cap = b.cap)

theorem IStore.Same.rfl' (a : IStore) : a.Same a := ⟨rfl, fun _ => rfl⟩

theorem IStore.Same.trans {a b c : IStore} (h1 : a.Same b) (h2 : b.Same c) : a.Same c :=
  ⟨h1.1.trans h2.1, fun hc => (h1.2 (by rw [h2.1]; exact hc)).trans (h2.2 hc)⟩

theorem IStore.release_same (s : IStore) (v : IView) : (s.release v).Same s := by
  unfold IStore.release IStore.Same
  cases hk : s.kind <;> simp [hk]

theorem iUnwindFrom_same (st : IStore) : ∀ (rest : List IView) (c : IView), (iUnwindFrom st c rest).Same st
  | [], c => IStore.release_same _ _
  | p :: rest, c => iUnwindFrom_same st rest _

theorem iUnwindStack_same (st : IStore) (vs : List IView) : (iUnwindStack st vs).Same st := by
  cases vs with
  | nil => exact IStore.Same.rfl' _
  | cons c rest => exact iUnwindFrom_same st rest c

namespace ISess

theorem unwind_same (s : ISess) : s.unwind.store.Same s.store := iUnwindStack_same _ _

theorem pop_same (s : ISess) : s.pop.store.Same s.store := by
  unfold pop
  split
  · exact IStore.Same.rfl' _
  · exact IStore.release_same _ _
  · exact IStore.Same.rfl' _

theorem onTop_same (s : ISess) (f : IView → IView × Res) (a b : Resp) : (s.onTop f a b).1.store.Same s.store := by
  unfold onTop
  split
  · exact IStore.Same.rfl' _
  · split
    · exact IStore.Same.rfl' _
    · exact IStore.Same.rfl' _
    · exact unwind_same _

theorem readTop_same (s : ISess) : s.readTop.1.store.Same s.store := by
  unfold readTop
  split
  · exact IStore.Same.rfl' _
  · dsimp only
    split
    · exact unwind_same _
    · exact pop_same _
    · split
      · exact pop_same _
      · exact unwind_same _

theorem step_same (s : ISess) (op : Op) : (s.step op).1.store.Same s.store := by
  cases op <;> simp only [step]
  case write => exact onTop_same _ _ _ _
  case extendRep => exact onTop_same _ _ _ _
  case extendPanic => exact onTop_same _ _ _ _
  case advance => exact onTop_same _ _ _ _
  case remaining => split <;> exact IStore.Same.rfl' _
  case openV =>
    split
    · exact IStore.Same.rfl' _
    · split
      · exact IStore.Same.rfl' _
      · exact unwind_same _
  case init => split <;> first | exact IStore.Same.rfl' _ | exact pop_same _
  case drop => split <;> first | exact IStore.Same.rfl' _ | exact pop_same _
  case setr => exact IStore.Same.rfl' _
  case read caps =>
    split
    · exact IStore.Same.rfl' _
    · split
      · exact readTop_same (s.openView caps)
      · exact unwind_same _

theorem run_same (ops : List Op) : ∀ (s : ISess), (s.run ops).1.store.Same s.store := by
  induction ops with
  | nil => intro s; exact IStore.Same.rfl' _
  | cons op ops ih =>
    intro s
    simp only [run]
    exact (ih _).trans (step_same s op)

end ISess

theorem stackRel_zip : ∀ {vs : List View} {is : List IView}, stackRel vs is →
    vs.length = is.length ∧ ∀ p ∈ List.zip vs is, VRel p.1 p.2
  | [], [], _ => ⟨rfl, by simp⟩
  | v :: vs, i :: is, h => by
    obtain ⟨h1, h2⟩ := stackRel_zip h.2
    refine ⟨by simp [h1], ?_⟩
    intro p hp
    simp only [List.zip_cons_cons, List.mem_cons] at hp
    rcases hp with e | hp
    · subst e; exact h.1
    · exact h2 p hp
  | [], _ :: _, h => h.elim
  | _ :: _, [], h => h.elim

theorem fresh_rel (k : Kind) (cap : Nat) (old : List UInt8) (junk : UInt8) (h : old.length ≤ cap) :
    Rel (Sess.fresh (Store.fresh k cap old junk)) (ISess.fresh (IStore.fresh k cap old)) := by
  refine ⟨Sess.fresh_wf _ (Store.fresh_wf k cap old junk (fun _ => h)), ⟨Store.fresh_wf k cap old junk (fun _ => h), ?_, ?_⟩, trivial, rfl⟩
  · cases k <;> rfl
  · cases k <;> simp [Sess.fresh, ISess.fresh, Store.fresh, IStore.fresh, Store.contents] <;> omega

end Tw.Buffer
