import Tw.Proofs.SnapRef2

/-! C09: the model of the C++ reference's `CreateDelta` produces a `RefDelta`. -/
namespace Tw.Snap

theorem refUpdates_eq (objSize : Nat → Option Nat) (from_ : Items) : ∀ (to : Items),
    (∀ p ∈ to, lenAgree (mfind p.1 from_) p.2.length = true) → SizesOk objSize to →
    writeUpdates objSize (refChanged from_ to) = some (refUpdates objSize from_ to).1 ∧
    (refUpdates objSize from_ to).2 = (refChanged from_ to).length := by
  intro to
  induction to with
  | nil => intro _ _; simp [refChanged, refUpdates, writeUpdates]
  | cons q r ih =>
    obtain ⟨k, d⟩ := q
    intro hag hok
    obtain ⟨h1, h2⟩ := ih (fun p hp => hag p (by simp [hp])) (fun p hp => hok p (by simp [hp]))
    have hk := hag (k, d) (by simp)
    have hokk := hok (k, d) (by simp)
    simp only [refChanged, refUpdates]
    cases hf : mfind k from_ with
    | none =>
      simp only [writeUpdates, h1, List.length_cons, h2]
      cases ho : objSize (keyType k) with
      | some sz =>
        simp only [ho, szOk] at hokk
        simp at hokk
        simp [hokk]
      | none => simp
    | some f =>
      simp only [hf, lenAgree] at hk
      simp at hk
      simp only
      split
      · exact ⟨h1, h2⟩
      · simp only [writeUpdates, h1, List.length_cons, h2]
        have hl : (List.zipWith wrapSub d f).length = d.length := by simp [hk]
        cases ho : objSize (keyType k) with
        | some sz =>
          simp only [ho, szOk] at hokk
          simp at hokk
          simp [hokk, hl]
        | none => simp [hl]

theorem writeUpdates_length_ge (objSize : Nat → Option Nat) : ∀ (m : Items) (u : List Int),
    writeUpdates objSize m = some u → m.length ≤ u.length := by
  intro m
  induction m with
  | nil => intro u h; simp
  | cons p r ih =>
    obtain ⟨k, d⟩ := p
    intro u h
    simp only [writeUpdates] at h
    cases hr : writeUpdates objSize r with
    | none => simp [hr] at h
    | some rest =>
      have := ih rest hr
      simp only [hr] at h
      cases ho : objSize (keyType k) with
      | some sz =>
        simp only [ho] at h
        split at h
        · cases h
        · injection h with h; subst h; simp; omega
      | none =>
        simp only [ho] at h
        injection h with h; subst h; simp; omega

/-- C09, reference deltas: what `CSnapshotDelta::CreateDelta` writes for `a → b` (both given to the
reference builder in ascending unsigned key order; the empty output stands for the empty delta) is
read by `Delta::read_from_ints` without warning, and the delta read is a `RefDelta a b`. -/
theorem refCreateDelta_refDelta (objSize : Nat → Option Nat) {a b : RawSnap} (ha : a.WF) (hb : b.WF)
    (hag : SizesAgree a b) (hok : SizesOk objSize b.items) :
    ∃ d, readDelta objSize (.ints
        (if (refCreateDelta objSize (unsignedOrder a.items) (unsignedOrder b.items)).isEmpty then [0, 0, 0]
         else refCreateDelta objSize (unsignedOrder a.items) (unsignedOrder b.items))) = .ok (d, []) ∧
      RefDelta a b d := by
  obtain ⟨haS, haI, haN, haZ⟩ := ha
  obtain ⟨hbS, hbI, hbN, hbZ⟩ := hb
  -- facts about the two orders
  have hagU : ∀ p ∈ unsignedOrder b.items, lenAgree (mfind p.1 (unsignedOrder a.items)) p.2.length = true := by
    intro p hp
    rw [mfind_unsignedOrder]
    exact hag p (mem_unsignedOrder.mp hp)
  have hokU : SizesOk objSize (unsignedOrder b.items) := fun p hp => hok p (mem_unsignedOrder.mp hp)
  obtain ⟨hw, hcount⟩ := refUpdates_eq objSize (unsignedOrder a.items) (unsignedOrder b.items) hagU hokU
  obtain ⟨hc1, hc2, hc3, hc4⟩ := refChanged_spec (unsignedOrder a.items) (unsignedOrder b.items) hagU
  -- abbreviations
  generalize hdel : ((unsignedOrder a.items).filter (fun p => (mfind p.1 (unsignedOrder b.items)).isNone)).map Prod.fst = del
  generalize hch : refChanged (unsignedOrder a.items) (unsignedOrder b.items) = ch at hw hcount hc1 hc2 hc3 hc4
  generalize hu : (refUpdates objSize (unsignedOrder a.items) (unsignedOrder b.items)).1 = u at hw
  -- the integers read
  have hrd : (if (refCreateDelta objSize (unsignedOrder a.items) (unsignedOrder b.items)).isEmpty then [0, 0, 0]
         else refCreateDelta objSize (unsignedOrder a.items) (unsignedOrder b.items))
      = (del.length : Int) :: (ch.length : Int) :: 0 :: (del ++ u) := by
    unfold refCreateDelta
    simp only [hdel, hcount, hu]
    by_cases he : del.isEmpty ∧ ch.length = 0
    · obtain ⟨e1, e2⟩ := he
      have e1' : del = [] := by simpa using e1
      have e2' : ch = [] := by simpa using e2
      have e3 : u = [] := by
        rw [e2'] at hw
        simp [writeUpdates] at hw
        exact hw
      simp [e1', e2', e3]
    · simp only [he, if_false]
      simp
  rw [hrd]
  -- membership in `del`
  have hdelmem : ∀ x, x ∈ del ↔ ((mfind x a.items).isSome ∧ mfind x b.items = none) := by
    intro x
    rw [← hdel, List.mem_map]
    constructor
    · rintro ⟨p, hp, rfl⟩
      rw [List.mem_filter, mfind_unsignedOrder] at hp
      refine ⟨?_, by simpa using hp.2⟩
      rw [mfind_isSome_iff_mem_keys]; exact mem_keys_of_mem (mem_unsignedOrder.mp hp.1)
    · rintro ⟨h1, h2⟩
      obtain ⟨v, hv⟩ := Option.isSome_iff_exists.mp h1
      refine ⟨(x, v), ?_, rfl⟩
      rw [List.mem_filter, mfind_unsignedOrder]
      exact ⟨mem_unsignedOrder.mpr (mem_of_mfind hv), by simp [h2]⟩
  have hdelnd : del.Nodup := by
    rw [← hdel]
    exact (nodup_keys_unsignedOrder haS).sublist (List.Sublist.map _ List.filter_sublist)
  have hdelI : ∀ k ∈ del, I32 k := by
    intro k hk
    rw [← hdel] at hk
    obtain ⟨p, hp, rfl⟩ := List.mem_map.mp hk
    exact (haI p (mem_unsignedOrder.mp (List.mem_filter.mp hp).1)).1
  have hdellen : del.length ≤ 1024 := by
    rw [← hdel, List.length_map]
    have := List.length_filter_le (fun p => (mfind p.1 (unsignedOrder b.items)).isNone) (unsignedOrder a.items)
    rw [unsignedOrder_length, maxItems_eq] at *
    omega
  -- the keys read
  obtain ⟨hks1, hks2, hks3⟩ := foldl_sinsert_spec del [] (by simp [SortedSet])
  have hklen := hks3 hdelnd (by simp)
  -- the changed items
  have hchnd : (ch.map Prod.fst).Nodup := (nodup_keys_unsignedOrder hbS).sublist hc2
  have hchlen : ch.length ≤ 1024 := by
    have := hc2.length_le
    simp only [List.length_map, unsignedOrder_length] at this
    rw [maxItems_eq] at hbN; omega
  have hchdata : dataLen ch < 2147483648 := by
    rw [unsignedOrder_dataLen] at hc3
    unfold RawSnap.size serializedSize at hbZ
    rw [maxSize_eq] at hbZ; omega
  have hchI : ∀ p ∈ ch, I32 p.1 ∧ (∀ x ∈ p.2, I32 x) ∧
      p.1 ∉ del.foldl (fun a k => sinsert k a) [] ∧ mfind p.1 ([] : Items) = none := by
    intro p hp
    obtain ⟨d', hd', hcd, _⟩ := hc1 p hp
    have hmb := mem_unsignedOrder.mp hd'
    refine ⟨(hbI _ hmb).1, ?_, ?_, by simp [mfind]⟩
    · cases hf : mfind p.1 (unsignedOrder a.items) with
      | none =>
        rw [hf] at hcd
        simp [createItemDelta] at hcd
        rw [← hcd]; exact (hbI _ hmb).2
      | some f =>
        rw [hf] at hcd
        simp only [createItemDelta] at hcd
        split at hcd
        · cases hcd
        · simp at hcd
          rw [← hcd]; exact zipWith_wrapSub_I32 d' f
    · intro hmem
      rw [hks2] at hmem
      simp at hmem
      have := ((hdelmem p.1).mp hmem).2
      rw [mfind_of_mem hbS hmb] at this
      cases this
  have hfuel : ch.length ≤ (enc false u).size :=
    Nat.le_trans (writeUpdates_length_ge objSize ch u hw) (enc_size_ge false u)
  have hru := readUpdates_enc_gen false objSize (del.foldl (fun a k => sinsert k a) []) ch u (enc false u).size
    [] 0 0 [] hw hfuel hchnd hchI (by omega)
  obtain ⟨hus, huf⟩ := foldl_minsert_spec ch [] sorted_nil hchnd
  refine ⟨⟨del.foldl (fun a k => sinsert k a) [], ch.foldl (fun m p => minsert p.1 p.2 m) []⟩, ?_, ?_⟩
  · -- reading
    have h1 : I32 (del.length : Int) := natCast_I32 (by omega)
    have h2 : I32 (ch.length : Int) := natCast_I32 (by omega)
    have h3 : I32 (0 : Int) := by decide
    have hnn1 : ¬ ((del.length : Int) < 0) := by omega
    have hnn2 : ¬ ((ch.length : Int) < 0) := by omega
    have hk := readKeys_enc_gen false del [] u [] hdelI
    have e : Src.ints ((del.length : Int) :: (ch.length : Int) :: 0 :: (del ++ u))
        = enc false ((del.length : Int) :: (ch.length : Int) :: 0 :: (del ++ u)) := by simp [enc]
    rw [e]
    unfold readDelta
    simp only [enc_readInt false h1, enc_readInt false h2, enc_readInt false h3, hnn1, hnn2, if_false,
      Int.toNat_natCast]
    rw [hk]
    simp only [hru]
    simp [hklen]
  · -- it is a reference delta
    refine ⟨?_, hus, ?_, ?_⟩
    · apply sortedSet_ext hks1
      · show SortedSet (List.map Prod.fst (List.filter _ a.items))
        unfold SortedSet
        exact List.Pairwise.sublist (List.Sublist.map _ List.filter_sublist) haS
      · intro x
        rw [hks2, List.mem_map]
        simp only [List.not_mem_nil, false_or]
        rw [hdelmem]
        constructor
        · rintro ⟨h1, h2⟩
          obtain ⟨v, hv⟩ := Option.isSome_iff_exists.mp h1
          exact ⟨(x, v), by rw [List.mem_filter]; exact ⟨mem_of_mfind hv, by simp [h2]⟩, rfl⟩
        · rintro ⟨p, hp, rfl⟩
          rw [List.mem_filter] at hp
          refine ⟨?_, by simpa using hp.2⟩
          rw [mfind_isSome_iff_mem_keys]; exact mem_keys_of_mem hp.1
    · intro p hp
      obtain ⟨pk, pv⟩ := p
      have hp' : (pk, pv) ∈ ch.foldl (fun m p => minsert p.1 p.2 m) [] := hp
      have hfind := mfind_of_mem hus hp'
      rw [huf] at hfind
      simp only [mfind, Option.or_none] at hfind
      have hpm := mem_of_mfind hfind
      obtain ⟨d', hd', hcd, _⟩ := hc1 (pk, pv) hpm
      refine ⟨d', mfind_of_mem hbS (mem_unsignedOrder.mp hd'), ?_⟩
      rw [← mfind_unsignedOrder]; exact hcd
    · intro p hp hnone
      show mfind p.1 a.items = some p.2
      rw [huf] at hnone
      simp only [mfind, Option.or_none] at hnone
      rw [mfind_eq_none_iff] at hnone
      have := hc4 p.1 p.2 (mem_unsignedOrder.mpr (by obtain ⟨pk, pv⟩ := p; exact hp)) hnone (hbI p hp).2
        (by
          intro f hf
          rw [mfind_unsignedOrder] at hf
          exact (haI _ (mem_of_mfind hf)).2)
      rw [← mfind_unsignedOrder]; exact this
end Tw.Snap
