import Tw.Model.Conn6
import Tw.Proofs.Conn

/-!
# Lemmas about the 0.6 connection model: every permitted call succeeds, keeps the packet
invariant and emits only valid datagrams (C04); helper facts for C02/C03.
-/
namespace Tw.Conn6
open Tw.Conn Tw.Time

theorem cfg_ok : cfg.Ok := by
  intro n h
  simp [Cfg.accepts, cfg] at h
  simp [cfg]
  omega

theorem TOKEN_NONE_eq : TOKEN_NONE = 0xffffffff := by decide
theorem TOKEN_RESERVED_eq : TOKEN_RESERVED = 0 := by decide

/-- the packet invariant of the connection: the online state satisfies `Online.Inv` -/
def Conn.Inv (c : Conn) : Prop := ∀ t o, c.state = .online t o → o.Inv cfg

/-- a call returned, kept the invariant, and everything it sent is valid -/
def Good (r : Res) : Prop :=
  ∃ c' out, r = .ok (c', out) ∧ c'.Inv ∧ ∀ p ∈ out.sent, p.valid = true

theorem Conn.new_inv : Conn.new.Inv := by
  intro t o h; simp [Conn.new] at h

theorem inv_of_not_online {c : Conn} (h : c.state.isOnline = false) : c.Inv := by
  intro t o hs; rw [hs] at h; simp [State.isOnline] at h

theorem inv_online {t : Option Nat} {o : Online} {s : Timeout} (h : o.Inv cfg) : Conn.Inv ⟨.online t o, s⟩ := by
  intro t' o' hs
  simp at hs
  rw [← hs.2]; exact h

theorem chunks_wire (ack : Nat) (t : Option Nat) (rr : Bool) (n : Nat) (cs : List Chunk)
    (h : chunksSize cs ≤ maxPayload + 3) : (Packet.chunks ack t rr n cs).wireSize ≤ maxPacketSize := by
  have h1 : Tw.Gen.Conn.P6.HEADER_SIZE = 3 := rfl
  have h2 : Tw.Gen.Conn.P6.TOKEN_SIZE = 4 := rfl
  rw [maxPacketSize_eq]; rw [maxPayload_eq] at h
  cases t <;> simp [Packet.wireSize, h1, h2] <;> omega

theorem ofFlushed_valid (t : Option Nat) {f : Flushed} (h : f.Valid cfg) : (ofFlushed t f).valid = true := by
  have hw := chunks_wire f.ack t f.requestResend f.numChunks f.chunks h.size
  have h4 : f.numChunks ≠ 0 ∨ f.requestResend = true := h.nonempty
  unfold ofFlushed Packet.valid
  simp only [Bool.and_eq_true, decide_eq_true_eq, Bool.or_eq_true, List.all_eq_true]
  exact ⟨⟨⟨⟨hw, h.num⟩, h.cnt⟩, h.data⟩, h4⟩

theorem valid_wire {p : Packet} (h : p.valid = true) : p.wireSize ≤ maxPacketSize := by
  cases p with
  | connless d =>
    simp only [Packet.valid, decide_eq_true_eq] at h
    have h1 : Tw.Gen.Conn.P6.HEADER_SIZE = 3 := rfl
    have h2 : Tw.Gen.Conn.P6.PADDING_SIZE_CONNLESS = 3 := rfl
    have h3 : Tw.Gen.Conn.P6.connlessMax + 6 ≤ 1400 := by decide
    rw [maxPacketSize_eq]
    simp only [Packet.wireSize, h1, h2]; omega
  | control ack t c => simpa [Packet.valid] using h
  | chunks ack t rr n cs =>
    simp only [Packet.valid, Bool.and_eq_true, decide_eq_true_eq] at h
    exact h.1.1.1.1

theorem emit_ok {ps : List Packet} (h : ∀ p ∈ ps, p.valid = true) : emit ps = .ok ps := by
  unfold emit
  rw [if_pos]
  rw [List.all_eq_true]
  intro p hp
  exact decide_eq_true (valid_wire (h p hp))

theorem emit_flushed (t : Option Nat) {fl : List Flushed} (h : ∀ f ∈ fl, f.Valid cfg) :
    emit (fl.map (ofFlushed t)) = .ok (fl.map (ofFlushed t)) ∧
      ∀ p ∈ fl.map (ofFlushed t), p.valid = true := by
  have hv : ∀ p ∈ fl.map (ofFlushed t), p.valid = true := by
    intro p hp
    obtain ⟨f, hf, rfl⟩ := List.mem_map.mp hp
    exact ofFlushed_valid t (h f hf)
  exact ⟨emit_ok hv, hv⟩

/-- a control packet other than an over-long close fits the buffer -/
theorem control_valid (ack : Nat) (t : Option Nat) (ctl : Control)
    (h : ∀ r, ctl = .close r → r.length ≤ 127) : (Packet.control ack t ctl).valid = true := by
  have h1 : Tw.Gen.Conn.P6.HEADER_SIZE = 3 := rfl
  have h2 : Tw.Gen.Conn.P6.TOKEN_SIZE = 4 := rfl
  simp only [Packet.valid, decide_eq_true_eq]
  rw [maxPacketSize_eq]
  cases ctl with
  | close r => have := h r rfl; cases t <;> simp [Packet.wireSize, h1, h2] <;> omega
  | keepAlive => cases t <;> simp [Packet.wireSize, h1, h2]
  | connect => cases t <;> simp [Packet.wireSize, h1, h2]
  | connectAccept => cases t <;> simp [Packet.wireSize, h1, h2]
  | accept => cases t <;> simp [Packet.wireSize, h1, h2]

theorem controlPacket_ok (st : State) (ctl : Control) (hs : st ≠ .disconnected) :
    ∃ ack t, controlPacket st ctl = .ok (.control ack t ctl) := by
  cases st with
  | disconnected => exact absurd rfl hs
  | unconnected => exact ⟨_, _, rfl⟩
  | connecting => exact ⟨_, _, rfl⟩
  | pending t => exact ⟨_, _, rfl⟩
  | online t o => exact ⟨_, _, rfl⟩

theorem sendControl_ok (st : State) (ctl : Control) (hs : st ≠ .disconnected)
    (h : ∀ r, ctl = .close r → r.length ≤ 127) :
    ∃ p, sendControl st ctl = .ok [p] ∧ p.valid = true := by
  obtain ⟨ack, t, he⟩ := controlPacket_ok st ctl hs
  refine ⟨.control ack t ctl, ?_, control_valid ack t ctl h⟩
  unfold sendControl
  rw [he]
  exact emit_ok (by intro p hp; simp at hp; subst hp; exact control_valid ack t ctl h)

/-! ## every permitted call is `Good` -/

theorem good_same {c : Conn} (h : c.Inv) : Good (.ok (c, {})) :=
  ⟨c, {}, rfl, h, by simp⟩

theorem inv_state_eq {c c' : Conn} (h : c.Inv) (hs : c'.state = c.state) : c'.Inv := by
  intro t o hst; exact h t o (hs ▸ hst)

theorem tickAction_good (env : Env) {c : Conn} (h : c.Inv) : Good (tickAction env c) := by
  obtain ⟨st, snd⟩ := c
  cases st with
  | unconnected => exact good_same h
  | disconnected => exact good_same h
  | connecting =>
    obtain ⟨p, he, hv⟩ := sendControl_ok .connecting .connect (by simp) (by simp)
    simp only [tickAction, he]
    exact ⟨_, _, rfl, inv_of_not_online rfl, by simpa using hv⟩
  | pending t =>
    obtain ⟨p, he, hv⟩ := sendControl_ok (.pending t) .connectAccept (by simp) (by simp)
    simp only [tickAction, he]
    exact ⟨_, _, rfl, inv_of_not_online rfl, by simpa using hv⟩
  | online t o =>
    have ho : o.Inv cfg := h t o rfl
    simp only [tickAction]
    split
    · obtain ⟨he, hv⟩ := emit_flushed t (Online.flush_valid ho)
      simp only [he]
      exact ⟨_, _, rfl, inv_online (Online.flush_inv ho), hv⟩
    · obtain ⟨p, he, hv⟩ := sendControl_ok (.online t o) .keepAlive (by simp) (by simp)
      simp only [he]
      exact ⟨_, _, rfl, inv_online ho, by simpa using hv⟩

theorem connect_good (env : Env) {c : Conn} (hp : permitted env c .connect = true) : Good (connect env c) := by
  obtain ⟨st, snd⟩ := c
  simp [permitted] at hp
  subst hp
  simp only [connect]
  exact tickAction_good env (inv_of_not_online rfl)

theorem disconnect_good (env : Env) {c : Conn} (r : Bytes) (hp : permitted env c (.disconnect r) = true) :
    Good (disconnect env c r) := by
  obtain ⟨st, snd⟩ := c
  simp only [permitted, Bool.and_eq_true, bne_iff_ne, ne_eq, decide_eq_true_eq] at hp
  obtain ⟨⟨hd, hnul⟩, hlen⟩ := hp
  have hlen' : r.length ≤ 127 := hlen
  obtain ⟨p, he, hv⟩ := sendControl_ok st (.close r) hd (by intro r' hr; injection hr with hr; subst hr; exact hlen')
  have hany : r.any (· == 0) = false := by
    rw [List.any_eq_false]
    intro x hx
    have := List.all_eq_true.mp hnul x hx
    simpa using this
  cases st with
  | disconnected => exact absurd rfl hd
  | unconnected => simp only [disconnect, hany, he]; exact ⟨_, _, rfl, inv_of_not_online rfl, by simpa using hv⟩
  | connecting => simp only [disconnect, hany, he]; exact ⟨_, _, rfl, inv_of_not_online rfl, by simpa using hv⟩
  | pending t => simp only [disconnect, hany, he]; exact ⟨_, _, rfl, inv_of_not_online rfl, by simpa using hv⟩
  | online t o => simp only [disconnect, hany, he]; exact ⟨_, _, rfl, inv_of_not_online rfl, by simpa using hv⟩

theorem online_of_isOnline {st : State} (h : st.isOnline = true) : ∃ t o, st = .online t o := by
  cases st <;> simp [State.isOnline] at h
  exact ⟨_, _, rfl⟩

theorem flush_good (env : Env) {c : Conn} (h : c.Inv) (hp : permitted env c .flush = true) : Good (flush env c) := by
  obtain ⟨st, snd⟩ := c
  obtain ⟨t, o, rfl⟩ := online_of_isOnline (by simpa [permitted] using hp)
  have ho : o.Inv cfg := h t o rfl
  obtain ⟨he, hv⟩ := emit_flushed t (Online.flush_valid ho)
  simp only [flush, he]
  exact ⟨_, _, rfl, inv_online (Online.flush_inv ho), hv⟩

theorem send_good (env : Env) {c : Conn} (h : c.Inv) (d : Bytes) (v : Bool)
    (hp : permitted env c (.send d v) = true) : Good (step env c (.send d v)) := by
  obtain ⟨st, snd⟩ := c
  obtain ⟨t, o, rfl⟩ := online_of_isOnline (by simpa [permitted] using hp)
  have ho : o.Inv cfg := h t o rfl
  simp only [step, send]
  cases hs : o.send cfg env.now d v with
  | error e => exact absurd hs (Online.send_ne_error cfg_ok ho _ _ _ e)
  | ok res =>
    obtain ⟨o1, r, fl⟩ := res
    obtain ⟨hinv, hfl⟩ := Online.send_inv cfg_ok ho _ _ _ hs
    obtain ⟨he, hv⟩ := emit_flushed t hfl
    simp only [he]
    exact ⟨_, _, rfl, inv_online hinv, hv⟩

theorem sendConnless_good (env : Env) {c : Conn} (h : c.Inv) (d : Bytes)
    (hp : permitted env c (.sendConnless d) = true) : Good (step env c (.sendConnless d)) := by
  obtain ⟨st, snd⟩ := c
  obtain ⟨t, o, rfl⟩ := online_of_isOnline (by simpa [permitted] using hp)
  have ho : o.Inv cfg := h t o rfl
  simp only [step, sendConnless]
  by_cases hl : d.length > Tw.Gen.Conn.P6.connlessMax
  · rw [if_pos hl]
    exact ⟨_, _, rfl, inv_online ho, by simp⟩
  · rw [if_neg hl]
    have hv : ∀ p ∈ [Packet.connless d], p.valid = true := by
      intro p hp; simp at hp; subst hp
      simp only [Packet.valid, decide_eq_true_eq]; omega
    rw [emit_ok hv]
    exact ⟨_, _, rfl, inv_online ho, hv⟩

theorem resendConn_good (env : Env) (t : Option Nat) {o : Online} (ho : o.Inv cfg) (snd : Timeout) :
    Good (resendConn env t o snd) := by
  obtain ⟨o', send', fl, he, hinv, hfl, _⟩ := Online.resend_spec cfg_ok ho env.now snd
  obtain ⟨he2, hv⟩ := emit_flushed t hfl
  simp only [resendConn, he, he2]
  exact ⟨_, _, rfl, inv_online hinv, hv⟩

theorem tick_good (env : Env) {c : Conn} (h : c.Inv) : Good (tick env c) := by
  obtain ⟨st, snd⟩ := c
  have rest : Good (if snd.triggered env.now = true then tickAction env ⟨st, .inactive⟩ else .ok (⟨st, snd⟩, {})) := by
    split
    · exact tickAction_good env (inv_state_eq h rfl)
    · exact good_same h
  cases st with
  | online t o =>
    simp only [tick]
    split
    · exact resendConn_good env t (h t o rfl) snd
    · exact rest
  | unconnected => simpa [tick] using rest
  | connecting => simpa [tick] using rest
  | pending t => simpa [tick] using rest
  | disconnected => simpa [tick] using rest

theorem feedBody_good (env : Env) {c : Conn} (h : c.Inv) (token : Option Nat) (p : Packet)
    (hwf : p.wf = true) (hd : (tokenRandom env.draws).isSome = true) : Good (feedBody env c token p) := by
  obtain ⟨st, snd⟩ := c
  cases p with
  | connless d => exact ⟨_, _, rfl, h, by simp⟩
  | chunks ack tk rr n cs =>
    simp only [Packet.wf, Bool.and_eq_true, decide_eq_true_eq] at hwf
    have key : ∀ (t : Option Nat) (o : Online), o.Inv cfg →
        Good (match o.receive cfg env.now snd rr cs with
          | .error e => .error e
          | .ok (o1, send1, fl, evs) =>
            match emit (fl.map (ofFlushed t)) with
            | .error e => .error e
            | .ok ps => .ok (⟨.online t o1, send1⟩, { sent := ps, events := evs })) := by
      intro t o ho
      obtain ⟨o', send', fl, evs, he, hinv, hfl, _⟩ := Online.receive_spec cfg_ok ho env.now snd rr cs hwf.2
      obtain ⟨he2, hv⟩ := emit_flushed t hfl
      simp only [he, he2]
      exact ⟨_, _, rfl, inv_online hinv, hv⟩
    cases st with
    | online t o => exact key t o (h t o rfl)
    | pending t => exact key t .new (Online.new_inv cfg)
    | unconnected => exact good_same h
    | connecting => exact good_same h
    | disconnected => exact good_same h
  | control ack tk ctl =>
    cases ctl with
    | keepAlive => exact good_same h
    | accept => exact good_same h
    | close r => exact ⟨_, _, rfl, inv_of_not_online rfl, by simp⟩
    | connect =>
      cases st with
      | unconnected =>
        cases token with
        | none => exact tickAction_good env (c := ⟨.pending none, snd⟩) (inv_of_not_online rfl)
        | some t0 =>
          simp only [feedBody]
          split
          · obtain ⟨nt, hnt⟩ := Option.isSome_iff_exists.mp hd
            simp only [hnt]
            exact tickAction_good env (c := ⟨.pending (some nt), snd⟩) (inv_of_not_online rfl)
          · exact good_same h
      | online t o => exact good_same h
      | pending t => exact good_same h
      | connecting => exact good_same h
      | disconnected => exact good_same h
    | connectAccept =>
      cases st with
      | connecting =>
        obtain ⟨p, he, hv⟩ := sendControl_ok (.online token .new) .accept (by simp) (by simp)
        simp only [feedBody, he]
        exact ⟨_, _, rfl, inv_online (Online.new_inv cfg), by simpa using hv⟩
      | online t o => exact good_same h
      | pending t => exact good_same h
      | unconnected => exact good_same h
      | disconnected => exact good_same h

theorem feed_good (env : Env) {c : Conn} (h : c.Inv) (rd : Option Bool → Option Packet)
    (hp : permitted env c (.feed rd) = true) : Good (feed env c rd) := by
  simp only [permitted, List.all_cons, List.all_nil, Bool.and_true, Bool.and_eq_true] at hp
  obtain ⟨⟨hn, hf, ht⟩, hd⟩ := hp
  have hwf : ∀ hint p, rd hint = some p → p.wf = true := by
    intro hint p hr
    rcases hint with _ | _ | _
    · rw [hr] at hn; simpa using hn
    · rw [hr] at hf; simpa using hf
    · rw [hr] at ht; simpa using ht
  unfold feed
  cases hr : rd c.hint with
  | none => exact ⟨_, _, rfl, h, by simp⟩
  | some p =>
    have hpw := hwf _ _ hr
    simp only
    cases hta : p.tokenAck? with
    | none => exact feedBody_good env h none p hpw hd
    | some ta =>
      obtain ⟨token, ack⟩ := ta
      simp only
      split
      · exact ⟨_, _, rfl, h, by simp⟩
      · have hack : ack < seqMod := by
          cases p with
          | connless d => simp [Packet.tokenAck?] at hta
          | control a t ctl =>
            simp [Packet.tokenAck?] at hta
            simp only [Packet.wf, decide_eq_true_eq] at hpw
            omega
          | chunks a t rr n cs =>
            simp [Packet.tokenAck?] at hta
            simp only [Packet.wf, Bool.and_eq_true, decide_eq_true_eq] at hpw
            omega
        obtain ⟨st, snd⟩ := c
        cases st with
        | online t o =>
          obtain ⟨he, hinv⟩ := Online.feedAck_spec (h t o rfl) hack
          simp only [he]
          exact feedBody_good env (inv_online hinv) token p hpw hd
        | unconnected => exact feedBody_good env h token p hpw hd
        | connecting => exact feedBody_good env h token p hpw hd
        | pending t => exact feedBody_good env h token p hpw hd
        | disconnected => exact feedBody_good env h token p hpw hd

/-- C04, one step: a permitted call on a connection satisfying the packet invariant returns,
keeps the invariant, and every datagram it hands to the send callback is valid -/
theorem step_good (env : Env) {c : Conn} (h : c.Inv) (op : Op) (hp : permitted env c op = true) :
    Good (step env c op) := by
  cases op with
  | connect => exact connect_good env hp
  | disconnect r => exact disconnect_good env r hp
  | flush => exact flush_good env h hp
  | send d v => exact send_good env h d v hp
  | sendConnless d => exact sendConnless_good env h d hp
  | tick => exact tick_good env h
  | feed rd => exact feed_good env h rd hp

/-- C04 over whole schedules -/
theorem run_good : ∀ (sched : List (Env × Op)) (c : Conn), c.Inv → runPermitted c sched = true →
    ∃ c' outs, run c sched = .ok (c', outs) ∧ c'.Inv ∧ ∀ out ∈ outs, ∀ p ∈ out.sent, p.valid = true := by
  intro sched
  induction sched with
  | nil => intro c h _; exact ⟨c, [], rfl, h, by simp⟩
  | cons eo rest ih =>
    intro c h hp
    obtain ⟨env, op⟩ := eo
    simp only [runPermitted, Bool.and_eq_true] at hp
    obtain ⟨c1, out, he, hinv, hv⟩ := step_good env h op hp.1
    have hp2 := hp.2
    rw [he] at hp2
    obtain ⟨c2, outs, he2, hinv2, hv2⟩ := ih c1 hinv hp2
    refine ⟨c2, out :: outs, ?_, hinv2, ?_⟩
    · simp only [run, he, he2]
    · intro o ho
      rcases List.mem_cons.mp ho with rfl | ho
      · exact hv
      · exact hv2 o ho

end Tw.Conn6

/-! ## C02: no call hangs; in every non-idle state the send timer is armed -/
namespace Tw.Conn6
open Tw.Conn Tw.Time

/-- the send timer is active in every state in which the connection has something to wait for -/
def Armed (c : Conn) : Prop :=
  match c.state with
  | .connecting | .pending _ | .online _ _ => c.send.isActive = true
  | _ => True

/-- the call cannot hang, and if it returns it keeps the timer armed -/
def Keeps (c : Conn) (r : Res) : Prop :=
  NoHang r ∧ ∀ c' out, r = .ok (c', out) → Armed c → Armed c'

theorem after_active (now d : Nat) : (Timeout.after now d).isActive = true := rfl

theorem nohang_err {α : Type} {x : Except Fail α} {e : Fail} (h : NoHang x) (hx : x = .error e) : e ≠ .hang := by
  intro he; subst he; exact h hx

theorem keeps_error (c : Conn) {e : Fail} (h : e ≠ .hang) : Keeps c (.error e) :=
  ⟨by unfold NoHang; intro he; injection he with he; exact h he, by intro _ _ h; cases h⟩

theorem keeps_panic (c : Conn) (site : String) : Keeps c (.error (.panic site)) :=
  keeps_error c (by simp)

theorem keeps_ok_armed (c : Conn) {c1 : Conn} (out : Out) (h : Armed c1) : Keeps c (.ok (c1, out)) := by
  refine ⟨by simp [NoHang], ?_⟩
  intro c' out' he _
  injection he with he; injection he with he _; rw [← he]; exact h

theorem keeps_ok_of (c : Conn) {c1 : Conn} (out : Out) (h : Armed c → Armed c1) : Keeps c (.ok (c1, out)) := by
  refine ⟨by simp [NoHang], ?_⟩
  intro c' out' he ha
  injection he with he; injection he with he _; rw [← he]; exact h ha

theorem keeps_same (c : Conn) (out : Out) : Keeps c (.ok (c, out)) := keeps_ok_of c out id

theorem emit_nohang (ps : List Packet) : NoHang (emit ps) := by
  unfold NoHang emit; split <;> simp

theorem sendControl_nohang (st : State) (ctl : Control) : NoHang (sendControl st ctl) := by
  unfold sendControl controlPacket
  cases st <;> simp only <;> first | exact emit_nohang _ | simp [NoHang]

/-- `tick_action` arms the timer in every state that needs it -/
theorem tickAction_keeps (env : Env) (c c0 : Conn) : Keeps c0 (tickAction env c) := by
  obtain ⟨st, snd⟩ := c
  cases st with
  | unconnected => exact keeps_ok_armed _ _ (by simp [Armed])
  | disconnected => exact keeps_ok_armed _ _ (by simp [Armed])
  | connecting =>
    simp only [tickAction]
    cases hx : sendControl .connecting .connect with
    | error e => exact keeps_error _ (nohang_err (sendControl_nohang _ _) hx)
    | ok ps => exact keeps_ok_armed _ _ (by simp [Armed, after_active])
  | pending t =>
    simp only [tickAction]
    cases hx : sendControl (.pending t) .connectAccept with
    | error e => exact keeps_error _ (nohang_err (sendControl_nohang _ _) hx)
    | ok ps => exact keeps_ok_armed _ _ (by simp [Armed, after_active])
  | online t o =>
    simp only [tickAction]
    split
    · cases hx : emit (o.flush.2.map (ofFlushed t)) with
      | error e => exact keeps_error _ (nohang_err (emit_nohang _) hx)
      | ok ps => exact keeps_ok_armed _ _ (by simp [Armed, after_active])
    · cases hx : sendControl (.online t o) .keepAlive with
      | error e => exact keeps_error _ (nohang_err (sendControl_nohang _ _) hx)
      | ok ps => exact keeps_ok_armed _ _ (by simp [Armed, after_active])

theorem connect_keeps (env : Env) (c : Conn) : Keeps c (connect env c) := by
  obtain ⟨st, snd⟩ := c
  cases st with
  | unconnected => simp only [connect]; exact tickAction_keeps env _ _
  | connecting => exact keeps_panic _ _
  | pending t => exact keeps_panic _ _
  | online t o => exact keeps_panic _ _
  | disconnected => exact keeps_panic _ _

theorem disconnect_keeps (env : Env) (c : Conn) (r : Bytes) : Keeps c (disconnect env c r) := by
  obtain ⟨st, snd⟩ := c
  have key : ∀ st' : State, Keeps ⟨st, snd⟩
      (if r.any (· == 0) = true then .error (.panic "disconnect: reason must not contain NULs")
       else match sendControl st' (.close r) with
        | .error e => .error e
        | .ok ps => .ok (⟨.disconnected, snd⟩, { sent := ps })) := by
    intro st'
    split
    · exact keeps_panic _ _
    · cases hx : sendControl st' (.close r) with
      | error e => exact keeps_error _ (nohang_err (sendControl_nohang _ _) hx)
      | ok ps => exact keeps_ok_armed _ _ (by simp [Armed])
  cases st with
  | disconnected => exact keeps_panic _ _
  | unconnected => exact key _
  | connecting => exact key _
  | pending t => exact key _
  | online t o => exact key _

theorem flush_keeps (env : Env) (c : Conn) : Keeps c (flush env c) := by
  obtain ⟨st, snd⟩ := c
  cases st with
  | online t o =>
    simp only [flush]
    cases hx : emit (o.flush.2.map (ofFlushed t)) with
    | error e => exact keeps_error _ (nohang_err (emit_nohang _) hx)
    | ok ps => exact keeps_ok_armed _ _ (by simp [Armed, after_active])
  | unconnected => exact keeps_panic _ _
  | connecting => exact keeps_panic _ _
  | pending t => exact keeps_panic _ _
  | disconnected => exact keeps_panic _ _

theorem send_keeps (env : Env) (c : Conn) (d : Bytes) (v : Bool) : Keeps c (step env c (.send d v)) := by
  obtain ⟨st, snd⟩ := c
  cases st with
  | online t o =>
    simp only [step, send]
    cases hr : o.send cfg env.now d v with
    | error e => exact keeps_error _ (nohang_err (send_nohang _ _ _ _ _) hr)
    | ok r =>
      obtain ⟨o1, res, fl⟩ := r
      simp only
      cases hq : emit (fl.map (ofFlushed t)) with
      | error e => exact keeps_error _ (nohang_err (emit_nohang _) hq)
      | ok ps => exact keeps_ok_of _ _ (by intro ha; simpa [Armed] using ha)
  | unconnected => exact keeps_panic _ _
  | connecting => exact keeps_panic _ _
  | pending t => exact keeps_panic _ _
  | disconnected => exact keeps_panic _ _

theorem sendConnless_keeps (env : Env) (c : Conn) (d : Bytes) : Keeps c (step env c (.sendConnless d)) := by
  obtain ⟨st, snd⟩ := c
  cases st with
  | online t o =>
    simp only [step, sendConnless]
    by_cases hl : d.length > Tw.Gen.Conn.P6.connlessMax
    · rw [if_pos hl]
      exact keeps_ok_armed _ _ (by simp [Armed, after_active])
    · rw [if_neg hl]
      cases hq : emit [Packet.connless d] with
      | error e => exact keeps_error _ (nohang_err (emit_nohang _) hq)
      | ok ps => exact keeps_ok_armed _ _ (by simp [Armed, after_active])
  | unconnected => exact keeps_panic _ _
  | connecting => exact keeps_panic _ _
  | pending t => exact keeps_panic _ _
  | disconnected => exact keeps_panic _ _

theorem resendConn_keeps (env : Env) (c0 : Conn) (t : Option Nat) (o : Online) (snd : Timeout)
    (hst : Armed c0 → snd.isActive = true) : Keeps c0 (resendConn env t o snd) := by
  obtain ⟨h1, h2⟩ := resend_nohang cfg env.now o snd
  simp only [resendConn]
  cases hr : o.resend cfg env.now snd with
  | error e => exact keeps_error _ (nohang_err h1 hr)
  | ok r =>
    obtain ⟨o1, s1, fl⟩ := r
    simp only
    cases hq : emit (fl.map (ofFlushed t)) with
    | error e => exact keeps_error _ (nohang_err (emit_nohang _) hq)
    | ok ps => exact keeps_ok_of _ _ (by intro ha; simpa [Armed] using h2 o1 s1 fl hr (hst ha))

theorem tick_keeps (env : Env) (c : Conn) : Keeps c (tick env c) := by
  obtain ⟨st, snd⟩ := c
  have rest : Keeps ⟨st, snd⟩ (if snd.triggered env.now = true then tickAction env ⟨st, .inactive⟩ else .ok (⟨st, snd⟩, {})) := by
    split
    · exact tickAction_keeps env _ _
    · exact keeps_same _ _
  cases st with
  | online t o =>
    simp only [tick]
    split
    · exact resendConn_keeps env ⟨.online t o, snd⟩ t o snd (by intro h; simpa [Armed] using h)
    · exact rest
  | unconnected => simpa [tick] using rest
  | connecting => simpa [tick] using rest
  | pending t => simpa [tick] using rest
  | disconnected => simpa [tick] using rest

theorem feedBody_keeps (env : Env) (c : Conn) (token : Option Nat) (p : Packet) : Keeps c (feedBody env c token p) := by
  obtain ⟨st, snd⟩ := c
  cases p with
  | connless d => exact keeps_same _ _
  | chunks ack tk rr n cs =>
    have key : ∀ (t : Option Nat) (o : Online), (Armed ⟨st, snd⟩ → snd.isActive = true) →
        Keeps ⟨st, snd⟩ (match o.receive cfg env.now snd rr cs with
          | .error e => .error e
          | .ok (o1, send1, fl, evs) =>
            match emit (fl.map (ofFlushed t)) with
            | .error e => .error e
            | .ok ps => .ok (⟨.online t o1, send1⟩, { sent := ps, events := evs })) := by
      intro t o hst
      obtain ⟨h1, h2⟩ := receive_nohang cfg env.now o snd rr cs
      cases hr : o.receive cfg env.now snd rr cs with
      | error e => exact keeps_error _ (nohang_err h1 hr)
      | ok r =>
        obtain ⟨o1, s1, fl, evs⟩ := r
        simp only
        cases hq : emit (fl.map (ofFlushed t)) with
        | error e => exact keeps_error _ (nohang_err (emit_nohang _) hq)
        | ok ps => exact keeps_ok_of _ _ (by intro ha; simpa [Armed] using h2 o1 s1 fl evs hr (hst ha))
    cases st with
    | online t o => exact key t o (by intro h; simpa [Armed] using h)
    | pending t => exact key t .new (by intro h; simpa [Armed] using h)
    | unconnected => exact keeps_same _ _
    | connecting => exact keeps_same _ _
    | disconnected => exact keeps_same _ _
  | control ack tk ctl =>
    cases ctl with
    | keepAlive => exact keeps_same _ _
    | accept => exact keeps_same _ _
    | close r => exact keeps_ok_armed _ _ (by simp [Armed])
    | connect =>
      cases st with
      | unconnected =>
        cases token with
        | none => simp only [feedBody]; exact tickAction_keeps env _ _
        | some t0 =>
          simp only [feedBody]
          split
          · split
            · exact keeps_panic _ _
            · exact tickAction_keeps env _ _
          · exact keeps_same _ _
      | online t o => exact keeps_same _ _
      | pending t => exact keeps_same _ _
      | connecting => exact keeps_same _ _
      | disconnected => exact keeps_same _ _
    | connectAccept =>
      cases st with
      | connecting =>
        simp only [feedBody]
        cases he : sendControl (.online token .new) .accept with
        | error e => exact keeps_error _ (nohang_err (sendControl_nohang _ _) he)
        | ok ps => exact keeps_ok_of _ _ (by intro ha; simpa [Armed] using ha)
      | online t o => exact keeps_same _ _
      | pending t => exact keeps_same _ _
      | unconnected => exact keeps_same _ _
      | disconnected => exact keeps_same _ _

theorem keeps_of_state_eq {c c1 : Conn} {r : Res} (h : Keeps c1 r) (h2 : Armed c → Armed c1) : Keeps c r :=
  ⟨h.1, fun c' out he ha => h.2 c' out he (h2 ha)⟩

theorem feed_keeps (env : Env) (c : Conn) (rd : Option Bool → Option Packet) : Keeps c (feed env c rd) := by
  unfold feed
  cases hr : rd c.hint with
  | none => exact keeps_same _ _
  | some p =>
    simp only
    cases hta : p.tokenAck? with
    | none => exact feedBody_keeps env c none p
    | some ta =>
      obtain ⟨token, ack⟩ := ta
      simp only
      split
      · exact keeps_same _ _
      · obtain ⟨st, snd⟩ := c
        cases st with
        | online t o =>
          simp only
          cases he : o.feedAck ack with
          | error e => exact keeps_error _ (nohang_err (feedAck_nohang _ _) he)
          | ok o1 =>
            exact keeps_of_state_eq (feedBody_keeps env ⟨.online t o1, snd⟩ token p) (by intro h; simpa [Armed] using h)
        | unconnected => exact feedBody_keeps env _ token p
        | connecting => exact feedBody_keeps env _ token p
        | pending t => exact feedBody_keeps env _ token p
        | disconnected => exact feedBody_keeps env _ token p

theorem step_keeps (env : Env) (c : Conn) (op : Op) : Keeps c (step env c op) := by
  cases op with
  | connect => exact connect_keeps env c
  | disconnect r => exact disconnect_keeps env c r
  | flush => exact flush_keeps env c
  | send d v => exact send_keeps env c d v
  | sendConnless d => exact sendConnless_keeps env c d
  | tick => exact tick_keeps env c
  | feed rd => exact feed_keeps env c rd

/-- over whole schedules: no hang, and the timer is armed in the state reached -/
theorem run_keeps : ∀ (sched : List (Env × Op)) (c : Conn), Armed c →
    NoHang (run c sched) ∧ ∀ c' outs, run c sched = .ok (c', outs) → Armed c' := by
  intro sched
  induction sched with
  | nil =>
    intro c ha
    refine ⟨by simp [NoHang, run], ?_⟩
    intro c' outs h; simp [run] at h; rw [← h.1]; exact ha
  | cons eo rest ih =>
    intro c ha
    obtain ⟨env, op⟩ := eo
    obtain ⟨h1, h2⟩ := step_keeps env c op
    simp only [run]
    cases hs : step env c op with
    | error e =>
      refine ⟨?_, by intro _ _ h; cases h⟩
      have := nohang_err h1 hs
      unfold NoHang; intro h; injection h with h; exact this h
    | ok r =>
      obtain ⟨c1, out⟩ := r
      obtain ⟨h3, h4⟩ := ih c1 (h2 c1 out hs ha)
      simp only
      cases hr : run c1 rest with
      | error e =>
        refine ⟨?_, by intro _ _ h; cases h⟩
        have := nohang_err h3 hr
        unfold NoHang; intro h; injection h with h; exact this h
      | ok r2 =>
        obtain ⟨c2, outs⟩ := r2
        refine ⟨by simp [NoHang], ?_⟩
        intro c' outs' h
        injection h with h; injection h with h _; rw [← h]
        exact h4 c2 outs hr

theorem min_active_ne (x : Nat) (t : Timeout) : Timeout.min (.active x) t ≠ .inactive := by
  cases t with
  | inactive => simp [Timeout.min, Timeout.le]
  | active y =>
    simp only [Timeout.min, Timeout.le]
    by_cases h : x ≤ y <;> simp [h]

/-- an armed timer means a finite deadline in every non-idle state -/
theorem armed_needsTick {c : Conn} (h : Armed c) (hn : c.state ≠ .unconnected ∧ c.state ≠ .disconnected) :
    c.needsTick ≠ .inactive := by
  obtain ⟨st, snd⟩ := c
  cases st with
  | unconnected => exact absurd rfl hn.1
  | disconnected => exact absurd rfl hn.2
  | connecting =>
    simp only [Armed] at h
    cases snd with
    | inactive => simp [Timeout.isActive] at h
    | active x => exact min_active_ne x _
  | pending t =>
    simp only [Armed] at h
    cases snd with
    | inactive => simp [Timeout.isActive] at h
    | active x => exact min_active_ne x _
  | online t o =>
    simp only [Armed] at h
    cases snd with
    | inactive => simp [Timeout.isActive] at h
    | active x => exact min_active_ne x _

end Tw.Conn6
