import Tw.Model.Conn6
import Tw.Proofs.Conn

/-!
# Lemmas about the 0.6 connection model: every permitted call succeeds, keeps the packet
invariant and emits only valid datagrams (C04); helper facts for C02/C03.
-/
namespace Tw.Conn6
open Tw.Conn Tw.Time

theorem cfg_ok : cfg.Ok := by
  intro n h
  simp [Cfg.accepts, cfg] at h
  simp [cfg]
  omega

theorem TOKEN_NONE_eq : TOKEN_NONE = 0xffffffff := by decide
theorem TOKEN_RESERVED_eq : TOKEN_RESERVED = 0 := by decide

/-- the packet invariant of the connection: the online state satisfies `Online.Inv` -/
def Conn.Inv (c : Conn) : Prop := ∀ t o, c.state = .online t o → o.Inv cfg

/-- a call returned, kept the invariant, and everything it sent is valid -/
def Good (r : Res) : Prop :=
  ∃ c' out, r = .ok (c', out) ∧ c'.Inv ∧ ∀ p ∈ out.sent, p.valid = true

theorem Conn.new_inv : Conn.new.Inv := by
  intro t o h; simp [Conn.new] at h

theorem inv_of_not_online {c : Conn} (h : c.state.isOnline = false) : c.Inv := by
  intro t o hs; rw [hs] at h; simp [State.isOnline] at h

theorem inv_online {t : Option Nat} {o : Online} {s : Timeout} (h : o.Inv cfg) : Conn.Inv ⟨.online t o, s⟩ := by
  intro t' o' hs
  simp at hs
  rw [← hs.2]; exact h

theorem chunks_wire (ack : Nat) (t : Option Nat) (rr : Bool) (n : Nat) (cs : List Chunk)
    (h : chunksSize cs ≤ maxPayload + 3) : (Packet.chunks ack t rr n cs).wireSize ≤ maxPacketSize := by
  have h1 : Tw.Gen.Conn.P6.HEADER_SIZE = 3 := rfl
  have h2 : Tw.Gen.Conn.P6.TOKEN_SIZE = 4 := rfl
  rw [maxPacketSize_eq]; rw [maxPayload_eq] at h
  cases t <;> simp [Packet.wireSize, h1, h2] <;> omega

theorem ofFlushed_valid (t : Option Nat) {f : Flushed} (h : f.Valid cfg) : (ofFlushed t f).valid = true := by
  have hw := chunks_wire f.ack t f.requestResend f.numChunks f.chunks h.size
  have h4 : f.numChunks ≠ 0 ∨ f.requestResend = true := h.nonempty
  unfold ofFlushed Packet.valid
  simp only [Bool.and_eq_true, decide_eq_true_eq, Bool.or_eq_true, List.all_eq_true]
  exact ⟨⟨⟨⟨hw, h.num⟩, h.cnt⟩, h.data⟩, h4⟩

theorem valid_wire {p : Packet} (h : p.valid = true) : p.wireSize ≤ maxPacketSize := by
  cases p with
  | connless d =>
    simp only [Packet.valid, decide_eq_true_eq] at h
    have h1 : Tw.Gen.Conn.P6.HEADER_SIZE = 3 := rfl
    have h2 : Tw.Gen.Conn.P6.PADDING_SIZE_CONNLESS = 3 := rfl
    have h3 : Tw.Gen.Conn.P6.connlessMax + 6 ≤ 1400 := by decide
    rw [maxPacketSize_eq]
    simp only [Packet.wireSize, h1, h2]; omega
  | control ack t c => simpa [Packet.valid] using h
  | chunks ack t rr n cs =>
    simp only [Packet.valid, Bool.and_eq_true, decide_eq_true_eq] at h
    exact h.1.1.1.1

theorem emit_ok {ps : List Packet} (h : ∀ p ∈ ps, p.valid = true) : emit ps = .ok ps := by
  unfold emit
  rw [if_pos]
  rw [List.all_eq_true]
  intro p hp
  exact decide_eq_true (valid_wire (h p hp))

theorem emit_flushed (t : Option Nat) {fl : List Flushed} (h : ∀ f ∈ fl, f.Valid cfg) :
    emit (fl.map (ofFlushed t)) = .ok (fl.map (ofFlushed t)) ∧
      ∀ p ∈ fl.map (ofFlushed t), p.valid = true := by
  have hv : ∀ p ∈ fl.map (ofFlushed t), p.valid = true := by
    intro p hp
    obtain ⟨f, hf, rfl⟩ := List.mem_map.mp hp
    exact ofFlushed_valid t (h f hf)
  exact ⟨emit_ok hv, hv⟩

/-- a control packet other than an over-long close fits the buffer -/
theorem control_valid (ack : Nat) (t : Option Nat) (ctl : Control)
    (h : ∀ r, ctl = .close r → r.length ≤ 127) : (Packet.control ack t ctl).valid = true := by
  have h1 : Tw.Gen.Conn.P6.HEADER_SIZE = 3 := rfl
  have h2 : Tw.Gen.Conn.P6.TOKEN_SIZE = 4 := rfl
  simp only [Packet.valid, decide_eq_true_eq]
  rw [maxPacketSize_eq]
  cases ctl with
  | close r => have := h r rfl; cases t <;> simp [Packet.wireSize, h1, h2] <;> omega
  | keepAlive => cases t <;> simp [Packet.wireSize, h1, h2]
  | connect => cases t <;> simp [Packet.wireSize, h1, h2]
  | connectAccept => cases t <;> simp [Packet.wireSize, h1, h2]
  | accept => cases t <;> simp [Packet.wireSize, h1, h2]

theorem controlPacket_ok (st : State) (ctl : Control) (hs : st ≠ .disconnected) :
    ∃ ack t, controlPacket st ctl = .ok (.control ack t ctl) := by
  cases st with
  | disconnected => exact absurd rfl hs
  | unconnected => exact ⟨_, _, rfl⟩
  | connecting => exact ⟨_, _, rfl⟩
  | pending t => exact ⟨_, _, rfl⟩
  | online t o => exact ⟨_, _, rfl⟩

theorem sendControl_ok (st : State) (ctl : Control) (hs : st ≠ .disconnected)
    (h : ∀ r, ctl = .close r → r.length ≤ 127) :
    ∃ p, sendControl st ctl = .ok [p] ∧ p.valid = true := by
  obtain ⟨ack, t, he⟩ := controlPacket_ok st ctl hs
  refine ⟨.control ack t ctl, ?_, control_valid ack t ctl h⟩
  unfold sendControl
  rw [he]
  exact emit_ok (by intro p hp; simp at hp; subst hp; exact control_valid ack t ctl h)

/-! ## every permitted call is `Good` -/

theorem good_same {c : Conn} (h : c.Inv) : Good (.ok (c, {})) :=
  ⟨c, {}, rfl, h, by simp⟩

theorem inv_state_eq {c c' : Conn} (h : c.Inv) (hs : c'.state = c.state) : c'.Inv := by
  intro t o hst; exact h t o (hs ▸ hst)

theorem tickAction_good (env : Env) {c : Conn} (h : c.Inv) : Good (tickAction env c) := by
  obtain ⟨st, snd⟩ := c
  cases st with
  | unconnected => exact good_same h
  | disconnected => exact good_same h
  | connecting =>
    obtain ⟨p, he, hv⟩ := sendControl_ok .connecting .connect (by simp) (by simp)
    simp only [tickAction, he]
    exact ⟨_, _, rfl, inv_of_not_online rfl, by simpa using hv⟩
  | pending t =>
    obtain ⟨p, he, hv⟩ := sendControl_ok (.pending t) .connectAccept (by simp) (by simp)
    simp only [tickAction, he]
    exact ⟨_, _, rfl, inv_of_not_online rfl, by simpa using hv⟩
  | online t o =>
    have ho : o.Inv cfg := h t o rfl
    simp only [tickAction]
    split
    · obtain ⟨he, hv⟩ := emit_flushed t (Online.flush_valid ho)
      simp only [he]
      exact ⟨_, _, rfl, inv_online (Online.flush_inv ho), hv⟩
    · obtain ⟨p, he, hv⟩ := sendControl_ok (.online t o) .keepAlive (by simp) (by simp)
      simp only [he]
      exact ⟨_, _, rfl, inv_online ho, by simpa using hv⟩

theorem connect_good (env : Env) {c : Conn} (hp : permitted env c .connect = true) : Good (connect env c) := by
  obtain ⟨st, snd⟩ := c
  simp [permitted] at hp
  subst hp
  simp only [connect]
  exact tickAction_good env (inv_of_not_online rfl)

theorem disconnect_good (env : Env) {c : Conn} (r : Bytes) (hp : permitted env c (.disconnect r) = true) :
    Good (disconnect env c r) := by
  obtain ⟨st, snd⟩ := c
  simp only [permitted, Bool.and_eq_true, bne_iff_ne, ne_eq, decide_eq_true_eq] at hp
  obtain ⟨⟨hd, hnul⟩, hlen⟩ := hp
  have hlen' : r.length ≤ 127 := hlen
  obtain ⟨p, he, hv⟩ := sendControl_ok st (.close r) hd (by intro r' hr; injection hr with hr; subst hr; exact hlen')
  have hany : r.any (· == 0) = false := by
    rw [List.any_eq_false]
    intro x hx
    have := List.all_eq_true.mp hnul x hx
    simpa using this
  cases st with
  | disconnected => exact absurd rfl hd
  | unconnected => simp only [disconnect, hany, he]; exact ⟨_, _, rfl, inv_of_not_online rfl, by simpa using hv⟩
  | connecting => simp only [disconnect, hany, he]; exact ⟨_, _, rfl, inv_of_not_online rfl, by simpa using hv⟩
  | pending t => simp only [disconnect, hany, he]; exact ⟨_, _, rfl, inv_of_not_online rfl, by simpa using hv⟩
  | online t o => simp only [disconnect, hany, he]; exact ⟨_, _, rfl, inv_of_not_online rfl, by simpa using hv⟩

theorem online_of_isOnline {st : State} (h : st.isOnline = true) : ∃ t o, st = .online t o := by
  cases st <;> simp [State.isOnline] at h
  exact ⟨_, _, rfl⟩

theorem flush_good (env : Env) {c : Conn} (h : c.Inv) (hp : permitted env c .flush = true) : Good (flush env c) := by
  obtain ⟨st, snd⟩ := c
  obtain ⟨t, o, rfl⟩ := online_of_isOnline (by simpa [permitted] using hp)
  have ho : o.Inv cfg := h t o rfl
  obtain ⟨he, hv⟩ := emit_flushed t (Online.flush_valid ho)
  simp only [flush, he]
  exact ⟨_, _, rfl, inv_online (Online.flush_inv ho), hv⟩

theorem send_good (env : Env) {c : Conn} (h : c.Inv) (d : Bytes) (v : Bool)
    (hp : permitted env c (.send d v) = true) : Good (step env c (.send d v)) := by
  obtain ⟨st, snd⟩ := c
  obtain ⟨t, o, rfl⟩ := online_of_isOnline (by simpa [permitted] using hp)
  have ho : o.Inv cfg := h t o rfl
  simp only [step, send]
  cases hs : o.send cfg env.now d v with
  | error e => exact absurd hs (Online.send_ne_error cfg_ok ho _ _ _ e)
  | ok res =>
    obtain ⟨o1, r, fl⟩ := res
    obtain ⟨hinv, hfl⟩ := Online.send_inv cfg_ok ho _ _ _ hs
    obtain ⟨he, hv⟩ := emit_flushed t hfl
    simp only [he]
    exact ⟨_, _, rfl, inv_online hinv, hv⟩

theorem sendConnless_good (env : Env) {c : Conn} (h : c.Inv) (d : Bytes)
    (hp : permitted env c (.sendConnless d) = true) : Good (step env c (.sendConnless d)) := by
  obtain ⟨st, snd⟩ := c
  obtain ⟨t, o, rfl⟩ := online_of_isOnline (by simpa [permitted] using hp)
  have ho : o.Inv cfg := h t o rfl
  simp only [step, sendConnless]
  by_cases hl : d.length > Tw.Gen.Conn.P6.connlessMax
  · rw [if_pos hl]
    exact ⟨_, _, rfl, inv_online ho, by simp⟩
  · rw [if_neg hl]
    have hv : ∀ p ∈ [Packet.connless d], p.valid = true := by
      intro p hp; simp at hp; subst hp
      simp only [Packet.valid, decide_eq_true_eq]; omega
    rw [emit_ok hv]
    exact ⟨_, _, rfl, inv_online ho, hv⟩

theorem resendConn_good (env : Env) (t : Option Nat) {o : Online} (ho : o.Inv cfg) (snd : Timeout) :
    Good (resendConn env t o snd) := by
  obtain ⟨o', send', fl, he, hinv, hfl, _⟩ := Online.resend_spec cfg_ok ho env.now snd
  obtain ⟨he2, hv⟩ := emit_flushed t hfl
  simp only [resendConn, he, he2]
  exact ⟨_, _, rfl, inv_online hinv, hv⟩

theorem tick_good (env : Env) {c : Conn} (h : c.Inv) : Good (tick env c) := by
  obtain ⟨st, snd⟩ := c
  have rest : Good (if snd.triggered env.now = true then tickAction env ⟨st, .inactive⟩ else .ok (⟨st, snd⟩, {})) := by
    split
    · exact tickAction_good env (inv_state_eq h rfl)
    · exact good_same h
  cases st with
  | online t o =>
    simp only [tick]
    split
    · exact resendConn_good env t (h t o rfl) snd
    · exact rest
  | unconnected => simpa [tick] using rest
  | connecting => simpa [tick] using rest
  | pending t => simpa [tick] using rest
  | disconnected => simpa [tick] using rest

theorem feedBody_good (env : Env) {c : Conn} (h : c.Inv) (token : Option Nat) (p : Packet)
    (hwf : p.wf = true) (hd : (tokenRandom env.draws).isSome = true) : Good (feedBody env c token p) := by
  obtain ⟨st, snd⟩ := c
  cases p with
  | connless d => exact ⟨_, _, rfl, h, by simp⟩
  | chunks ack tk rr n cs =>
    simp only [Packet.wf, Bool.and_eq_true, decide_eq_true_eq] at hwf
    have key : ∀ (t : Option Nat) (o : Online), o.Inv cfg →
        Good (match o.receive cfg env.now snd rr cs with
          | .error e => .error e
          | .ok (o1, send1, fl, evs) =>
            match emit (fl.map (ofFlushed t)) with
            | .error e => .error e
            | .ok ps => .ok (⟨.online t o1, send1⟩, { sent := ps, events := evs })) := by
      intro t o ho
      obtain ⟨o', send', fl, evs, he, hinv, hfl, _⟩ := Online.receive_spec cfg_ok ho env.now snd rr cs hwf.2
      obtain ⟨he2, hv⟩ := emit_flushed t hfl
      simp only [he, he2]
      exact ⟨_, _, rfl, inv_online hinv, hv⟩
    cases st with
    | online t o => exact key t o (h t o rfl)
    | pending t => exact key t .new (Online.new_inv cfg)
    | unconnected => exact good_same h
    | connecting => exact good_same h
    | disconnected => exact good_same h
  | control ack tk ctl =>
    cases ctl with
    | keepAlive => exact good_same h
    | accept => exact good_same h
    | close r => exact ⟨_, _, rfl, inv_of_not_online rfl, by simp⟩
    | connect =>
      cases st with
      | unconnected =>
        cases token with
        | none => exact tickAction_good env (c := ⟨.pending none, snd⟩) (inv_of_not_online rfl)
        | some t0 =>
          simp only [feedBody]
          split
          · obtain ⟨nt, hnt⟩ := Option.isSome_iff_exists.mp hd
            simp only [hnt]
            exact tickAction_good env (c := ⟨.pending (some nt), snd⟩) (inv_of_not_online rfl)
          · exact good_same h
      | online t o => exact good_same h
      | pending t => exact good_same h
      | connecting => exact good_same h
      | disconnected => exact good_same h
    | connectAccept =>
      cases st with
      | connecting =>
        obtain ⟨p, he, hv⟩ := sendControl_ok (.online token .new) .accept (by simp) (by simp)
        simp only [feedBody, he]
        exact ⟨_, _, rfl, inv_online (Online.new_inv cfg), by simpa using hv⟩
      | online t o => exact good_same h
      | pending t => exact good_same h
      | unconnected => exact good_same h
      | disconnected => exact good_same h

theorem feed_good (env : Env) {c : Conn} (h : c.Inv) (rd : Option Bool → Option Packet)
    (hp : permitted env c (.feed rd) = true) : Good (feed env c rd) := by
  simp only [permitted, List.all_cons, List.all_nil, Bool.and_true, Bool.and_eq_true] at hp
  obtain ⟨⟨hn, hf, ht⟩, hd⟩ := hp
  have hwf : ∀ hint p, rd hint = some p → p.wf = true := by
    intro hint p hr
    rcases hint with _ | _ | _
    · rw [hr] at hn; simpa using hn
    · rw [hr] at hf; simpa using hf
    · rw [hr] at ht; simpa using ht
  unfold feed
  cases hr : rd c.hint with
  | none => exact ⟨_, _, rfl, h, by simp⟩
  | some p =>
    have hpw := hwf _ _ hr
    simp only
    cases hta : p.tokenAck? with
    | none => exact feedBody_good env h none p hpw hd
    | some ta =>
      obtain ⟨token, ack⟩ := ta
      simp only
      split
      · exact ⟨_, _, rfl, h, by simp⟩
      · have hack : ack < seqMod := by
          cases p with
          | connless d => simp [Packet.tokenAck?] at hta
          | control a t ctl =>
            simp [Packet.tokenAck?] at hta
            simp only [Packet.wf, decide_eq_true_eq] at hpw
            omega
          | chunks a t rr n cs =>
            simp [Packet.tokenAck?] at hta
            simp only [Packet.wf, Bool.and_eq_true, decide_eq_true_eq] at hpw
            omega
        obtain ⟨st, snd⟩ := c
        cases st with
        | online t o =>
          obtain ⟨he, hinv⟩ := Online.feedAck_spec (h t o rfl) hack
          simp only [he]
          exact feedBody_good env (inv_online hinv) token p hpw hd
        | unconnected => exact feedBody_good env h token p hpw hd
        | connecting => exact feedBody_good env h token p hpw hd
        | pending t => exact feedBody_good env h token p hpw hd
        | disconnected => exact feedBody_good env h token p hpw hd

/-- C04, one step: a permitted call on a connection satisfying the packet invariant returns,
keeps the invariant, and every datagram it hands to the send callback is valid -/
theorem step_good (env : Env) {c : Conn} (h : c.Inv) (op : Op) (hp : permitted env c op = true) :
    Good (step env c op) := by
  cases op with
  | connect => exact connect_good env hp
  | disconnect r => exact disconnect_good env r hp
  | flush => exact flush_good env h hp
  | send d v => exact send_good env h d v hp
  | sendConnless d => exact sendConnless_good env h d hp
  | tick => exact tick_good env h
  | feed rd => exact feed_good env h rd hp

/-- C04 over whole schedules -/
theorem run_good : ∀ (sched : List (Env × Op)) (c : Conn), c.Inv → runPermitted c sched = true →
    ∃ c' outs, run c sched = .ok (c', outs) ∧ c'.Inv ∧ ∀ out ∈ outs, ∀ p ∈ out.sent, p.valid = true := by
  intro sched
  induction sched with
  | nil => intro c h _; exact ⟨c, [], rfl, h, by simp⟩
  | cons eo rest ih =>
    intro c h hp
    obtain ⟨env, op⟩ := eo
    simp only [runPermitted, Bool.and_eq_true] at hp
    obtain ⟨c1, out, he, hinv, hv⟩ := step_good env h op hp.1
    have hp2 := hp.2
    rw [he] at hp2
    obtain ⟨c2, outs, he2, hinv2, hv2⟩ := ih c1 hinv hp2
    refine ⟨c2, out :: outs, ?_, hinv2, ?_⟩
    · simp only [run, he, he2]
    · intro o ho
      rcases List.mem_cons.mp ho with rfl | ho
      · exact hv
      · exact hv2 o ho

end Tw.Conn6
