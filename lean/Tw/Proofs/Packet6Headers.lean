import Tw.Model.Packet6
import Tw.Proofs.PacketBits

/-! Header codecs of protocol.rs (0.6): arithmetic forms of pack/unpack (from the extracted masks via the
generic bit-field lemmas) and the round trips. -/
namespace Tw.Packet6
open Tw.Packet Tw.PacketBits

/-- unfold the extracted literals of protocol.rs -/
macro "gen6" : tactic => `(tactic| simp only [
  Tw.Gen.Packet6.PacketHeaderPacked_unpack_warn_0, Tw.Gen.Packet6.PacketHeaderPacked_unpack_warn_2,
  Tw.Gen.Packet6.PacketHeaderPacked_unpack_warn_4, Tw.Gen.Packet6.PacketHeaderPacked_unpack_warn_5,
  Tw.Gen.Packet6.PacketHeaderPacked_unpack_warn_6, Tw.Gen.Packet6.PacketHeaderPacked_unpack_warn_7,
  Tw.Gen.Packet6.PacketHeader_pack_2, Tw.Gen.Packet6.PacketHeader_pack_3,
  Tw.Gen.Packet6.ChunkHeaderPacked_unpack_warn_0, Tw.Gen.Packet6.ChunkHeaderPacked_unpack_warn_2,
  Tw.Gen.Packet6.ChunkHeaderPacked_unpack_warn_3, Tw.Gen.Packet6.ChunkHeaderPacked_unpack_warn_4,
  Tw.Gen.Packet6.ChunkHeaderPacked_unpack_warn_5, Tw.Gen.Packet6.ChunkHeaderPacked_unpack_warn_6,
  Tw.Gen.Packet6.ChunkHeader_pack_2, Tw.Gen.Packet6.ChunkHeader_pack_3, Tw.Gen.Packet6.ChunkHeader_pack_4,
  Tw.Gen.Packet6.ChunkHeader_pack_5, Tw.Gen.Packet6.ChunkHeader_pack_6,
  Tw.Gen.Packet6.ChunkHeaderVitalPacked_unpack_warn_0, Tw.Gen.Packet6.ChunkHeaderVitalPacked_unpack_warn_1,
  Tw.Gen.Packet6.ChunkHeaderVitalPacked_unpack_warn_2, Tw.Gen.Packet6.ChunkHeaderVitalPacked_unpack_warn_3,
  Tw.Gen.Packet6.ChunkHeaderVitalPacked_unpack_warn_4, Tw.Gen.Packet6.ChunkHeaderVitalPacked_unpack_warn_5,
  Tw.Gen.Packet6.ChunkHeaderVitalPacked_unpack_warn_6, Tw.Gen.Packet6.ChunkHeaderVitalPacked_unpack_warn_7,
  Tw.Gen.Packet6.ChunkHeaderVital_pack_1, Tw.Gen.Packet6.ChunkHeaderVital_pack_2,
  Tw.Gen.Packet6.ChunkHeaderVital_pack_3, Tw.Gen.Packet6.ChunkHeaderVital_pack_4,
  Tw.Gen.Packet6.PACKET_FLAGS_BITS, Tw.Gen.Packet6.SEQUENCE_BITS, Tw.Gen.Packet6.CHUNK_FLAGS_BITS,
  Tw.Gen.Packet6.CHUNK_SIZE_BITS] at *)

/-- masks and shifts as arithmetic -/
macro "bits_arith" : tactic => `(tactic| simp only [and_3, and_12, and_15, and_32, and_48, and_60, and_63,
  and_192, and_240, and_255, and_768, and_960, and_1008, and_4032, Nat.shiftRight_eq_div_pow,
  Nat.shiftLeft_eq, Nat.reducePow] at *)

theorem ph_pack_eq (h : PacketHeader) (hf : h.flags < 16) (ha : h.ack < 1024) :
    h.pack = some (h.flags * 16 + h.ack / 256, h.ack % 256, h.numChunks) := by
  unfold PacketHeader.pack
  gen6
  bits_arith
  have h1 : ¬ (h.flags / 16 ≠ 0 ∨ h.ack / 1024 ≠ 0) := by omega
  rw [if_neg h1]
  have e1 : h.flags * 16 % 256 = h.flags * 16 := by omega
  have e2 : h.ack / 256 % 256 = h.ack / 256 := by omega
  rw [e1, e2, or_eq_add _ _ 4 (by omega) (by omega)]

theorem ph_unpack_eq (b0 b1 b2 : Nat) (h1 : b1 < 256) :
    PacketHeader.unpackWarn b0 b1 b2 =
      ({ flags := b0 / 16 % 16, ack := b0 % 4 * 256 + b1, numChunks := b2 },
       if b0 / 32 % 2 = 0 ∧ b0 / 4 % 4 ≠ 0 then [.packetHeaderPadding] else []) := by
  unfold PacketHeader.unpackWarn
  gen6
  bits_arith
  rw [or_eq_add _ _ 8 (by omega) (by omega)]
  have e : b0 / 16 % 16 * 16 / 16 = b0 / 16 % 16 := by omega
  have c1 : (b0 / 32 % 2 * 32 = 0) = (b0 / 32 % 2 = 0) := by apply propext; omega
  have c2 : (b0 / 4 % 4 * 4 ≠ 0) = (b0 / 4 % 4 ≠ 0) := by apply propext; omega
  simp only [e, c1, c2]

/-- `unpack (pack h) = (h, [])` for every in-range field tuple -/
theorem ph_unpack_pack (h : PacketHeader) (hf : h.flags < 16) (ha : h.ack < 1024) :
    ∃ b0 b1 b2, h.pack = some (b0, b1, b2) ∧ b0 < 256 ∧ b1 < 256 ∧
      PacketHeader.unpackWarn b0 b1 b2 = (h, []) := by
  refine ⟨_, _, _, ph_pack_eq h hf ha, by omega, by omega, ?_⟩
  rw [ph_unpack_eq _ _ _ (by omega)]
  have e1 : (h.flags * 16 + h.ack / 256) / 16 % 16 = h.flags := by omega
  have e2 : (h.flags * 16 + h.ack / 256) % 4 * 256 + h.ack % 256 = h.ack := by omega
  have e3 : ¬ ((h.flags * 16 + h.ack / 256) / 32 % 2 = 0 ∧ (h.flags * 16 + h.ack / 256) / 4 % 4 ≠ 0) := by omega
  rw [e1, e2, if_neg e3]

/-- `pack (unpack b) = b` up to the two padding bits, for every byte pattern -/
theorem ph_pack_unpack (b0 b1 b2 : Nat) (h1 : b1 < 256) :
    (PacketHeader.unpackWarn b0 b1 b2).1.pack = some (b0 &&& 243, b1, b2) := by
  rw [ph_unpack_eq _ _ _ h1, ph_pack_eq _ (by simp only; omega) (by simp only; omega), and_243]
  simp only [Option.some.injEq, Prod.mk.injEq, and_true]
  omega

theorem ch_pack_eq (h : ChunkHeader) (hf : h.flags < 4) (hs : h.size < 1024) :
    chunkHeaderPack h = some (h.flags * 64 + h.size / 16, h.size % 16) := by
  unfold chunkHeaderPack
  gen6
  bits_arith
  have h1 : ¬ (h.flags / 4 ≠ 0 ∨ h.size / 1024 ≠ 0) := by omega
  rw [if_neg h1]
  have e1 : h.flags % 4 * 64 % 256 = h.flags * 64 := by omega
  have e2 : h.size / 16 % 64 * 16 / 16 % 256 = h.size / 16 := by omega
  have e3 : h.size % 16 % 256 = h.size % 16 := by omega
  rw [e1, e2, e3, or_eq_add _ _ 6 (by omega) (by omega)]

theorem ch_unpack_eq (b0 b1 : Nat) :
    chunkHeaderUnpackWarn b0 b1 =
      ({ flags := b0 / 64 % 4, size := b0 % 64 * 16 + b1 % 16 },
       if b1 / 16 % 16 ≠ 0 then [.chunkHeaderPadding] else []) := by
  unfold chunkHeaderUnpackWarn
  gen6
  bits_arith
  rw [or_eq_add _ _ 4 (by omega) (by omega)]
  have e : b0 / 64 % 4 * 64 / 64 = b0 / 64 % 4 := by omega
  have c1 : (b1 / 16 % 16 * 16 ≠ 0) = (b1 / 16 % 16 ≠ 0) := by apply propext; omega
  simp only [e, c1]

theorem ch_unpack_pack (h : ChunkHeader) (hf : h.flags < 4) (hs : h.size < 1024) :
    ∃ b0 b1, chunkHeaderPack h = some (b0, b1) ∧ b0 < 256 ∧ b1 < 256 ∧
      chunkHeaderUnpackWarn b0 b1 = (h, []) := by
  refine ⟨_, _, ch_pack_eq h hf hs, by omega, by omega, ?_⟩
  rw [ch_unpack_eq]
  have e1 : (h.flags * 64 + h.size / 16) / 64 % 4 = h.flags := by omega
  have e2 : (h.flags * 64 + h.size / 16) % 64 * 16 + h.size % 16 % 16 = h.size := by omega
  have e3 : ¬ (h.size % 16 / 16 % 16 ≠ 0) := by omega
  rw [e1, e2, if_neg e3]

theorem ch_pack_unpack (b0 b1 : Nat) (h0 : b0 < 256) :
    chunkHeaderPack (chunkHeaderUnpackWarn b0 b1).1 = some (b0, b1 &&& 15) := by
  rw [ch_unpack_eq, ch_pack_eq _ (by simp only; omega) (by simp only; omega), and_15]
  simp only [Option.some.injEq, Prod.mk.injEq]
  omega

theorem chv_pack_eq (v : ChunkHeaderVital) (hf : v.h.flags < 4) (hs : v.h.size < 1024)
    (hq : v.sequence < 1024) :
    chunkHeaderVitalPack v =
      some (v.h.flags * 64 + v.h.size / 16, v.sequence / 256 * 64 + v.sequence / 64 % 4 * 16 + v.h.size % 16,
            v.sequence % 256) := by
  unfold chunkHeaderVitalPack
  rw [ch_pack_eq _ hf hs]
  gen6
  bits_arith
  have h1 : ¬ (v.sequence / 1024 ≠ 0) := by omega
  rw [if_neg h1]
  have e2 : v.sequence / 64 % 16 * 64 / 4 % 256 = (v.sequence / 256 * 4 + v.sequence / 64 % 4) * 16 := by omega
  have e3 : v.sequence % 256 % 256 = v.sequence % 256 := by omega
  have e4 : v.h.size % 16 % 16 = v.h.size % 16 := by omega
  rw [e2, e3, e4, Nat.or_comm, or_eq_add _ _ 4 (by omega) (by omega)]
  simp only [Option.some.injEq, Prod.mk.injEq, and_true, true_and]
  omega

theorem chv_unpack_eq (b0 b1 b2 : Nat) (h2 : b2 < 256) :
    chunkHeaderVitalUnpackWarn b0 b1 b2 =
      ({ h := { flags := b0 / 64 % 4, size := b0 % 64 * 16 + b1 % 16 },
         sequence := (b1 / 16 % 16 * 64) ||| b2 },
       if b1 / 16 % 4 ≠ b2 / 64 % 4 then [.chunkHeaderSequence] else []) := by
  unfold chunkHeaderVitalUnpackWarn
  rw [ch_unpack_eq]
  gen6
  bits_arith
  have e1 : b1 / 16 % 4 * 16 / 16 = b1 / 16 % 4 := by omega
  have e2 : b2 / 64 % 4 * 64 / 64 = b2 / 64 % 4 := by omega
  have e3 : ¬ (b1 % 16 / 16 % 16 ≠ 0) := by omega
  have e4 : b1 % 16 % 16 = b1 % 16 := by omega
  have e5 : b1 / 16 % 16 * 16 * 4 = b1 / 16 % 16 * 64 := by omega
  have e6 : b2 % 256 = b2 := by omega
  simp only [e1, e2, if_neg e3, e4, e5, e6, List.append_nil]

theorem or_overlap (A C D : Nat) (hC : C < 4) (hD : D < 64) :
    (A * 256 + C * 64) ||| (C * 64 + D) = A * 256 + C * 64 + D := by
  have h1 : A * 256 + C * 64 = A * 256 ||| C * 64 := (or_eq_add _ _ 8 (by omega) (by omega)).symm
  have h2 : C * 64 + D = C * 64 ||| D := (or_eq_add _ _ 6 (by omega) (by omega)).symm
  have h3 : A * 256 + C * 64 + D = (A * 256 ||| C * 64) ||| D := by
    rw [← h1]; exact (or_eq_add _ _ 6 (by omega) (by omega)).symm
  rw [h3, h1, h2, Nat.or_assoc, ← Nat.or_assoc (C * 64) (C * 64) D, Nat.or_self, Nat.or_assoc]

/-- on canonical patterns (the two sequence bits stored twice agree) the or is a sum -/
theorem chv_seq_canonical (b1 b2 : Nat) (h2 : b2 < 256) (hc : b1 / 16 % 4 = b2 / 64 % 4) :
    (b1 / 16 % 16 * 64) ||| b2 = b1 / 64 % 4 * 256 + b2 := by
  have e : b1 / 16 % 16 * 64 = b1 / 64 % 4 * 256 + b2 / 64 % 4 * 64 := by omega
  have e' : b2 / 64 % 4 * 64 + b2 % 64 = b2 := by omega
  calc b1 / 16 % 16 * 64 ||| b2
      = (b1 / 64 % 4 * 256 + b2 / 64 % 4 * 64) ||| (b2 / 64 % 4 * 64 + b2 % 64) := by rw [e, e']
    _ = b1 / 64 % 4 * 256 + b2 / 64 % 4 * 64 + b2 % 64 := or_overlap _ _ _ (by omega) (by omega)
    _ = b1 / 64 % 4 * 256 + b2 := by omega

theorem chv_unpack_pack (v : ChunkHeaderVital) (hf : v.h.flags < 4) (hs : v.h.size < 1024)
    (hq : v.sequence < 1024) :
    ∃ b0 b1 b2, chunkHeaderVitalPack v = some (b0, b1, b2) ∧ b0 < 256 ∧ b1 < 256 ∧ b2 < 256 ∧
      chunkHeaderVitalUnpackWarn b0 b1 b2 = (v, []) := by
  refine ⟨_, _, _, chv_pack_eq v hf hs hq, by omega, by omega, by omega, ?_⟩
  rw [chv_unpack_eq _ _ _ (by omega), chv_seq_canonical _ _ (by omega) (by omega)]
  have e1 : (v.h.flags * 64 + v.h.size / 16) / 64 % 4 = v.h.flags := by omega
  have e2 : (v.h.flags * 64 + v.h.size / 16) % 64 * 16 +
      (v.sequence / 256 * 64 + v.sequence / 64 % 4 * 16 + v.h.size % 16) % 16 = v.h.size := by omega
  have e3 : (v.sequence / 256 * 64 + v.sequence / 64 % 4 * 16 + v.h.size % 16) / 64 % 4 * 256 +
      v.sequence % 256 = v.sequence := by omega
  have e4 : ¬ ((v.sequence / 256 * 64 + v.sequence / 64 % 4 * 16 + v.h.size % 16) / 16 % 4 ≠
      v.sequence % 256 / 64 % 4) := by omega
  rw [e1, e2, e3, if_neg e4]

/-- `pack (unpack b) = b` for every canonical byte pattern of a vital chunk header -/
theorem chv_pack_unpack_canonical (b0 b1 b2 : Nat) (h0 : b0 < 256) (h1 : b1 < 256) (h2 : b2 < 256)
    (hc : b1 / 16 % 4 = b2 / 64 % 4) :
    chunkHeaderVitalPack (chunkHeaderVitalUnpackWarn b0 b1 b2).1 = some (b0, b1, b2) := by
  rw [chv_unpack_eq _ _ _ h2, chv_seq_canonical _ _ h2 hc,
    chv_pack_eq _ (by simp only; omega) (by simp only; omega) (by simp only; omega)]
  simp only [Option.some.injEq, Prod.mk.injEq]
  omega

end Tw.Packet6
