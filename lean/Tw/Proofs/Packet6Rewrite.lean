import Tw.Model.Packet6
import Tw.Proofs.Packet6Write

/-! What the 0.6 reader accepts is `Valid`, hence can be written again and is read back unchanged. -/
namespace Tw.Packet6
open Tw.Packet Tw.PacketBits

theorem controlValue_valid (payload : List UInt8) (src : Src) (off : Nat) (c : Control) (loc : Option Loc)
    (hr : controlValue payload src off = .ok (c, loc)) :
    ∀ m, c = .close m → m.length ≤ Tw.Gen.Packet6.CTRLMSG_CLOSE_REASON_LENGTH ∧ ∀ b ∈ m, b ≠ 0 := by
  unfold controlValue at hr
  split at hr
  · simp at hr
  · rename_i c0 pl
    dsimp only at hr
    split at hr
    · simp only [Except.ok.injEq, Prod.mk.injEq] at hr; obtain ⟨rfl, _⟩ := hr; intro m hm; cases hm
    · split at hr
      · simp only [Except.ok.injEq, Prod.mk.injEq] at hr; obtain ⟨rfl, _⟩ := hr; intro m hm; cases hm
      · split at hr
        · simp only [Except.ok.injEq, Prod.mk.injEq] at hr; obtain ⟨rfl, _⟩ := hr; intro m hm; cases hm
        · split at hr
          · simp only [Except.ok.injEq, Prod.mk.injEq] at hr; obtain ⟨rfl, _⟩ := hr; intro m hm; cases hm
          · split at hr
            · simp only [Except.ok.injEq, Prod.mk.injEq] at hr
              obtain ⟨rfl, _⟩ := hr
              intro m hm
              simp only [Control.close.injEq] at hm
              subst hm
              refine ⟨?_, ?_⟩
              · simp only [List.length_take]; omega
              · intro b hb
                have hsub : List.take (min (nulPos pl) Tw.Gen.Packet6.CTRLMSG_CLOSE_REASON_LENGTH) pl =
                    List.take (min (nulPos pl) Tw.Gen.Packet6.CTRLMSG_CLOSE_REASON_LENGTH) (List.take (nulPos pl) pl) := by
                  rw [List.take_take]
                  congr 1
                  omega
                rw [hsub] at hb
                exact take_nulPos_nonzero pl b (List.mem_of_mem_take hb)
            · simp at hr

theorem readBodyWith_valid (h : PacketHeader) (ha : h.ack < 1024) (hn : h.numChunks < 256) (wh : List Warning)
    (payload : List UInt8) (hlen : payload.length ≤ Tw.Gen.Packet6.READ_PAYLOAD_LIMIT) (src : Src)
    (scratch : List UInt8) (b : Bool) (r : ReadOk)
    (hr : readBodyWith h wh payload src scratch b = .ok r) : Valid r.pkt := by
  have hL : Tw.Gen.Packet6.READ_PAYLOAD_LIMIT = 1397 := by decide
  have hT : Tw.Gen.Packet6.TOKEN_SIZE = 4 := by decide
  unfold readBodyWith at hr
  split at hr
  · simp at hr
  · rename_i htok
    dsimp only at hr
    split at hr
    · split at hr
      · simp at hr
      · rename_i c loc hrc
        simp only [Except.ok.injEq] at hr
        subst hr
        have hv := controlValue_valid _ _ _ _ _ hrc
        cases c <;> simp only [Valid] <;> first | exact ha | exact ⟨ha, hv _ rfl⟩
    · simp only [Except.ok.injEq] at hr
      subst hr
      cases b with
      | false =>
        simp only [Valid, Bool.false_eq_true, if_false, Option.isSome_none]
        exact ⟨ha, hn, by omega⟩
      | true =>
        simp only [true_and, Nat.not_lt] at htok
        simp only [Valid, if_true, Option.isSome_some, List.length_take]
        exact ⟨ha, hn, by omega⟩

theorem readBody_valid (h : PacketHeader) (ha : h.ack < 1024) (hn : h.numChunks < 256) (wh : List Warning)
    (payload : List UInt8) (src : Src) (scratch : List UInt8) (hint : Option Bool) (r : ReadOk)
    (hr : readBody h wh payload src scratch hint = .ok r) : Valid r.pkt := by
  unfold readBody at hr
  split at hr
  · simp at hr
  · rename_i hlen
    exact readBodyWith_valid h ha hn wh payload (by omega) src scratch _ r hr

theorem readConnless_valid (bytes payload0 : List UInt8) (wh : List Warning) (r : ReadOk)
    (hlen : payload0.length + 3 ≤ Tw.Gen.Packet6.MAX_PACKETSIZE)
    (hr : readConnless bytes payload0 wh = .ok r) : Valid r.pkt := by
  have hM : Tw.Gen.Packet6.MAX_PACKETSIZE = 1400 := by decide
  have hC : Tw.Gen.Packet6.CONNLESS_WRITE_LIMIT = 1394 := by decide
  have hP : Tw.Gen.Packet6.PADDING_SIZE_CONNLESS = 3 := by decide
  unfold readConnless at hr
  split at hr
  · simp at hr
  · simp only [Except.ok.injEq] at hr
    subst hr
    simp only [Valid, List.length_drop]
    omega

theorem lift_eq_ok {x : Except (ReadError × List Warning) ReadOk} {r : ReadOk} (h : ReadResult.lift x = .ok r) :
    x = .ok r := by
  cases x with
  | ok r' => simpa [ReadResult.lift] using h
  | error e => cases e; simp [ReadResult.lift] at h

/-- the three ways `read` can succeed -/
theorem read_ok_cases (t : Huffman.Table) (bytes : List UInt8) (hint : Option Bool) (buffer : Option Nat)
    (r : ReadOk) (hr : read t bytes hint buffer = .ok r) :
    ∃ b0 b1 b2 payload0, bytes = b0 :: b1 :: b2 :: payload0 ∧ bytes.length ≤ Tw.Gen.Packet6.MAX_PACKETSIZE ∧
      (readConnless bytes payload0 (PacketHeader.unpackWarn b0.toNat b1.toNat b2.toNat).2 = .ok r ∨
       readBody (PacketHeader.unpackWarn b0.toNat b1.toNat b2.toNat).1
         (PacketHeader.unpackWarn b0.toNat b1.toNat b2.toNat).2 payload0 .input [] hint = .ok r ∨
       ∃ cap s, buffer = some cap ∧ Tw.Gen.Packet6.MAX_PACKETSIZE ≤ cap ∧ decompress t bytes cap = .ok s ∧
         Tw.Gen.Packet6.HEADER_SIZE ≤ s.length ∧
         readBody (PacketHeader.unpackWarn b0.toNat b1.toNat b2.toNat).1
           (PacketHeader.unpackWarn b0.toNat b1.toNat b2.toNat).2 (s.drop Tw.Gen.Packet6.HEADER_SIZE) .scratch s hint = .ok r) := by
  cases buffer with
  | none =>
    unfold read at hr
    simp only [Bool.false_eq_true, if_false] at hr
    split at hr
    · simp at hr
    · rename_i hlen
      split at hr
      · rename_i b0 b1 b2 payload0
        refine ⟨b0, b1, b2, payload0, rfl, by omega, ?_⟩
        split at hr
        · exact Or.inl (lift_eq_ok hr)
        · split at hr
          · simp at hr
          · exact Or.inr (Or.inl (lift_eq_ok hr))
      · simp at hr
  | some cap =>
    by_cases hcap : cap < Tw.Gen.Packet6.MAX_PACKETSIZE
    · unfold read at hr
      simp [hcap] at hr
    · unfold read at hr
      simp only [hcap, decide_false, Bool.false_eq_true, if_false] at hr
      split at hr
      · simp at hr
      · rename_i hlen
        split at hr
        · rename_i b0 b1 b2 payload0
          refine ⟨b0, b1, b2, payload0, rfl, by omega, ?_⟩
          split at hr
          · exact Or.inl (lift_eq_ok hr)
          · split at hr
            · split at hr
              · rename_i s hd
                split at hr
                · simp at hr
                · rename_i hs3
                  exact Or.inr (Or.inr ⟨cap, s, rfl, by omega, hd, by omega, lift_eq_ok hr⟩)
              · simp at hr
              · simp at hr
              · simp at hr
            · exact Or.inr (Or.inl (lift_eq_ok hr))
        · simp at hr

/-- everything the 0.6 reader accepts is a `Valid` packet value -/
theorem read_valid (t : Huffman.Table) (bytes : List UInt8) (hint : Option Bool) (buffer : Option Nat)
    (r : ReadOk) (hr : read t bytes hint buffer = .ok r) : Valid r.pkt := by
  obtain ⟨b0, b1, b2, payload0, hb, hlen, hcase⟩ := read_ok_cases t bytes hint buffer r hr
  have hbb := unpack_flags_lt b0.toNat b1.toNat b2.toNat (UInt8.toNat_lt b1)
  have hnc : (PacketHeader.unpackWarn b0.toNat b1.toNat b2.toNat).1.numChunks < 256 := by
    rw [ph_unpack_eq _ _ _ (UInt8.toNat_lt b1)]
    exact UInt8.toNat_lt b2
  rcases hcase with h | h | ⟨cap, s, _, _, _, _, h⟩
  · refine readConnless_valid _ _ _ r ?_ h
    rw [hb] at hlen
    simp only [List.length_cons] at hlen
    omega
  · exact readBody_valid _ hbb.2 hnc _ _ _ _ _ r h
  · exact readBody_valid _ hbb.2 hnc _ _ _ _ _ r h

/-- **re-writability (0.6)**: whatever `Packet::read` accepts — for any byte string, any hint, any
warnings — can be written out again, and the written bytes are read back (told the value's token
mode) as the same value. -/
theorem read_rewritable (t : Huffman.Table) (hrt : HuffmanRoundTrip t) (bytes : List UInt8)
    (hint : Option Bool) (buffer : Option Nat) (r : ReadOk) (hr : read t bytes hint buffer = .ok r)
    (cap scap : Nat) (hcap : Tw.Gen.Packet6.MAX_PACKETSIZE ≤ cap) (hs : Tw.Gen.Packet6.MAX_PACKETSIZE ≤ scap) :
    ∃ bs, write t r.pkt cap = .ok bs ∧ bs.length ≤ Tw.Gen.Packet6.MAX_PACKETSIZE ∧
      ∃ r', read t bs (some r.pkt.hasToken) (some scap) = .ok r' ∧ r'.pkt = r.pkt ∧
        r'.warns = expectedWarnings r.pkt :=
  write_read_roundtrip t hrt r.pkt (read_valid t bytes hint buffer r hr) cap scap hcap hs

end Tw.Packet6
