import Tw.Model.ServerBrowse

/-! Helper lemmas for C18 (server-info parsing and merging). -/
namespace Tw.ServerBrowse
open Tw.Gen.Browse

/-! ### Totality: the two shift sites are the only panic sites, and the guards exclude them -/

theorem shl1_ok {site : String} {n : Nat} (h : n < RECEIVED_BITS) : shl1 site n = .ok (1 <<< n) := by
  unfold shl1
  have : ¬ n ≥ RECEIVED_BITS := by omega
  simp [this]

theorem parseClients_no_panic (hs : SLOT_SKIP_FROM ≤ RECEIVED_BITS) (ri : Reader Int) (ver : Version) :
    ∀ (fuel j : Nat) (bs : List UInt8) (acc : List ClientInfo) (recv : Nat) (s : String),
      parseClients ri ver fuel j bs acc recv ≠ .panic s := by
  intro fuel
  induction fuel with
  | zero => intro j bs acc recv s; simp [parseClients]
  | succ fuel ih =>
    intro j bs acc recv s
    unfold parseClients
    cases readClient ri ver bs with
    | stop => simp
    | fail => simp
    | client c rest =>
      simp only
      by_cases hv : ver = .v664
      · simp only [hv, if_true]
        by_cases hj : j ≥ SLOT_SKIP_FROM
        · simp only [hj, if_true]; exact hv ▸ ih _ _ _ _ _
        · simp only [hj, if_false]
          have hj' : j < RECEIVED_BITS := by omega
          rw [shl1_ok hj']
          exact hv ▸ ih _ _ _ _ _
      · simp only [hv, if_false]; exact ih _ _ _ _ _

theorem parseHeadMore_bound {ri : Reader Int} {token : Int} {bs : List UInt8} {info : ServerInfo} {n : Nat}
    {rest : List UInt8} (h : parseHeadMore ri token bs = some (info, n, rest)) :
    n < PACKET_NO_REJECT_FROM := by
  unfold parseHeadMore at h
  cases hr : ri bs with
  | none => simp [hr] at h
  | some p =>
    obtain ⟨packetNo, bs'⟩ := p
    simp only [hr, Option.bind_eq_bind, Option.bind_some] at h
    split at h
    · simp at h
    · rename_i hc
      simp only [Option.pure_def, Option.some.injEq, Prod.mk.injEq] at h
      omega

theorem parseBody_no_panic (hs : SLOT_SKIP_FROM ≤ RECEIVED_BITS) (ri : Reader Int) (ver : Version)
    (info : ServerInfo) (packetNo offset : Nat) (bs : List UInt8) (hp : packetNo < RECEIVED_BITS) (s : String) :
    parseBody ri ver info packetNo offset bs ≠ .panic s := by
  unfold parseBody
  simp only
  generalize (if ver.hasExtraInfo = true then
      match readStr bs with
      | some (_, bs) => some bs
      | none => none
    else some bs) = ae
  cases ae with
  | none => simp
  | some bs' =>
    simp only
    have hr : (if ver = Version.v6Ex then shl1 "1 << packet_no" packetNo else Outcome.ok 0)
        = .ok (if ver = Version.v6Ex then 1 <<< packetNo else 0) := by
      by_cases hv : ver = .v6Ex
      · simp only [hv, if_true]; exact shl1_ok hp
      · simp only [hv, if_false]
    rw [hr]
    simp only
    have hc := parseClients_no_panic hs ri ver (bs'.length + 1) offset bs' []
      (if ver = Version.v6Ex then 1 <<< packetNo else 0)
    generalize parseClients ri ver (bs'.length + 1) offset bs' []
      (if ver = Version.v6Ex then 1 <<< packetNo else 0) = pc at hc
    cases pc with
    | panic s' => exact absurd rfl (hc s')
    | ok r =>
      cases r with
      | none => simp
      | some p => simp

theorem parseServerInfo_no_panic (hp : PACKET_NO_REJECT_FROM ≤ RECEIVED_BITS) (hs : SLOT_SKIP_FROM ≤ RECEIVED_BITS)
    (ri : Reader Int) (rv : Received) (bs : List UInt8) (s : String) :
    parseServerInfo ri rv bs ≠ .panic s := by
  unfold parseServerInfo
  cases ri bs with
  | none => simp
  | some p =>
    obtain ⟨token, bs1⟩ := p
    simp only
    cases rv with
    | normal ver =>
      simp only
      cases parseHeadNormal ri ver token bs1 with
      | none => simp
      | some q =>
        obtain ⟨info, offset, bs2⟩ := q
        simp only
        exact parseBody_no_panic hs ri ver info 0 offset bs2 (by decide) s
    | v6ExMore =>
      simp only
      cases hh : parseHeadMore ri token bs1 with
      | none => simp
      | some q =>
        obtain ⟨info, n, bs2⟩ := q
        simp only
        have := parseHeadMore_bound hh
        exact parseBody_no_panic hs ri .v6Ex info n 0 bs2 (by omega) s

theorem splitAtChecked_ok {site : String} {bs : List UInt8} {n : Nat} (h : n ≤ bs.length) :
    splitAtChecked site bs n = .ok (bs.take n, bs.drop n) := by
  simp [splitAtChecked, h]

theorem parseResponse_no_panic (data : List UInt8) (site : String) : parseResponse data ≠ .panic site := by
  unfold parseResponse
  cases data with
  | nil => simp
  | cons first rest =>
    simp only
    have h8 : TOKEN_7.length = 8 := by decide
    have h14 : HEADER_LEN = 14 := by decide
    by_cases h04 : first.toNat = 0x04
    · simp only [h04, if_true]
      by_cases hl : (first :: rest).length < TOKEN_7.length
      · rw [if_pos hl]; simp
      · rw [if_neg hl]
        rw [splitAtChecked_ok (by omega)]
        simp
    · simp only [h04, if_false]
      by_cases h21 : first.toNat = 0x21
      · simp only [h21, if_true]
        by_cases hl : (first :: rest).length < 17
        · rw [if_pos hl]; simp
        · rw [if_neg hl]
          rw [splitAtChecked_ok (by omega)]
          simp
      · simp only [h21, if_false]
        by_cases hl : (first :: rest).length < HEADER_LEN
        · rw [if_pos hl]; simp
        · rw [if_neg hl]
          by_cases hc : first.toNat &&& PACKETFLAG_CONNLESS = 0
          · simp [hc]
          · simp only [hc, if_false]
            rw [splitAtChecked_ok (by omega)]
            simp

end Tw.ServerBrowse
