import Tw.Model.ServerBrowse

/-! Helper lemmas for C18 (server-info parsing and merging). -/
namespace Tw.ServerBrowse
open Tw.Gen.Browse

/-! ### Totality: the two shift sites are the only panic sites, and the guards exclude them -/

theorem shl1_ok {site : String} {n : Nat} (h : n < RECEIVED_BITS) : shl1 site n = .ok (1 <<< n) := by
  unfold shl1
  have : ¬ n ≥ RECEIVED_BITS := by omega
  simp [this]

theorem parseClients_no_panic (hs : SLOT_SKIP_FROM ≤ RECEIVED_BITS) (ri : Reader Int) (ver : Version) :
    ∀ (fuel j : Nat) (bs : List UInt8) (acc : List ClientInfo) (recv : Nat) (s : String),
      parseClients ri ver fuel j bs acc recv ≠ .panic s := by
  intro fuel
  induction fuel with
  | zero => intro j bs acc recv s; simp [parseClients]
  | succ fuel ih =>
    intro j bs acc recv s
    unfold parseClients
    cases readClient ri ver bs with
    | stop => simp
    | fail => simp
    | client c rest =>
      simp only
      by_cases hv : ver = .v664
      · simp only [hv, if_true]
        by_cases hj : j ≥ SLOT_SKIP_FROM
        · simp only [hj, if_true]; exact hv ▸ ih _ _ _ _ _
        · simp only [hj, if_false]
          have hj' : j < RECEIVED_BITS := by omega
          rw [shl1_ok hj']
          exact hv ▸ ih _ _ _ _ _
      · simp only [hv, if_false]; exact ih _ _ _ _ _

theorem parseHeadMore_bound {ri : Reader Int} {token : Int} {bs : List UInt8} {info : ServerInfo} {n : Nat}
    {rest : List UInt8} (h : parseHeadMore ri token bs = some (info, n, rest)) :
    n < PACKET_NO_REJECT_FROM := by
  unfold parseHeadMore at h
  cases hr : ri bs with
  | none => simp [hr] at h
  | some p =>
    obtain ⟨packetNo, bs'⟩ := p
    simp only [hr, Option.bind_eq_bind, Option.bind_some] at h
    split at h
    · simp at h
    · rename_i hc
      simp only [Option.pure_def, Option.some.injEq, Prod.mk.injEq] at h
      omega

theorem parseBody_no_panic (hs : SLOT_SKIP_FROM ≤ RECEIVED_BITS) (ri : Reader Int) (ver : Version)
    (info : ServerInfo) (packetNo offset : Nat) (bs : List UInt8) (hp : packetNo < RECEIVED_BITS) (s : String) :
    parseBody ri ver info packetNo offset bs ≠ .panic s := by
  unfold parseBody
  generalize skipExtra ver bs = ae
  cases ae with
  | none => simp
  | some bs' =>
    simp only
    have hr : (if ver = Version.v6Ex then shl1 "1 << packet_no" packetNo else Outcome.ok 0)
        = .ok (if ver = Version.v6Ex then 1 <<< packetNo else 0) := by
      by_cases hv : ver = .v6Ex
      · simp only [hv, if_true]; exact shl1_ok hp
      · simp only [hv, if_false]
    rw [hr]
    simp only
    have hc := parseClients_no_panic hs ri ver (bs'.length + 1) offset bs' []
      (if ver = Version.v6Ex then 1 <<< packetNo else 0)
    generalize parseClients ri ver (bs'.length + 1) offset bs' []
      (if ver = Version.v6Ex then 1 <<< packetNo else 0) = pc at hc
    cases pc with
    | panic s' => exact absurd rfl (hc s')
    | ok r =>
      cases r with
      | none => simp
      | some p => simp

theorem parseServerInfo_no_panic (hp : PACKET_NO_REJECT_FROM ≤ RECEIVED_BITS) (hs : SLOT_SKIP_FROM ≤ RECEIVED_BITS)
    (ri : Reader Int) (rv : Received) (bs : List UInt8) (s : String) :
    parseServerInfo ri rv bs ≠ .panic s := by
  unfold parseServerInfo
  cases ri bs with
  | none => simp
  | some p =>
    obtain ⟨token, bs1⟩ := p
    simp only
    cases rv with
    | normal ver =>
      simp only
      cases parseHeadNormal ri ver token bs1 with
      | none => simp
      | some q =>
        obtain ⟨info, offset, bs2⟩ := q
        simp only
        exact parseBody_no_panic hs ri ver info 0 offset bs2 (by decide) s
    | v6ExMore =>
      simp only
      cases hh : parseHeadMore ri token bs1 with
      | none => simp
      | some q =>
        obtain ⟨info, n, bs2⟩ := q
        simp only
        have := parseHeadMore_bound hh
        exact parseBody_no_panic hs ri .v6Ex info n 0 bs2 (by omega) s

theorem splitAtChecked_ok {site : String} {bs : List UInt8} {n : Nat} (h : n ≤ bs.length) :
    splitAtChecked site bs n = .ok (bs.take n, bs.drop n) := by
  simp [splitAtChecked, h]

theorem parseResponse_no_panic (data : List UInt8) (site : String) : parseResponse data ≠ .panic site := by
  unfold parseResponse
  cases data with
  | nil => simp
  | cons first rest =>
    simp only
    have h8 : TOKEN_7.length = 8 := by decide
    have h14 : HEADER_LEN = 14 := by decide
    by_cases h04 : first.toNat = 0x04
    · simp only [h04, if_true]
      by_cases hl : (first :: rest).length < TOKEN_7.length
      · rw [if_pos hl]; simp
      · rw [if_neg hl]
        rw [splitAtChecked_ok (by omega)]
        simp
    · simp only [h04, if_false]
      by_cases h21 : first.toNat = 0x21
      · simp only [h21, if_true]
        by_cases hl : (first :: rest).length < 17
        · rw [if_pos hl]; simp
        · rw [if_neg hl]
          rw [splitAtChecked_ok (by omega)]
          simp
      · simp only [h21, if_false]
        by_cases hl : (first :: rest).length < HEADER_LEN
        · rw [if_pos hl]; simp
        · rw [if_neg hl]
          by_cases hc : first.toNat &&& PACKETFLAG_CONNLESS = 0
          · simp [hc]
          · simp only [hc, if_false]
            rw [splitAtChecked_ok (by omega)]
            simp

/-! ### The fuel of the client loop suffices: every iteration consumes at least one byte -/

/-- a reader never returns more input than it was given -/
def Consuming {α : Type} (r : Reader α) : Prop := ∀ bs a rest, r bs = some (a, rest) → rest.length ≤ bs.length

theorem readString_length : ∀ (bs s rest : List UInt8), Tw.Packer.readString bs = some (s, rest) → rest.length < bs.length
  | [], _, _, h => by simp [Tw.Packer.readString] at h
  | b :: bs, s, rest, h => by
    unfold Tw.Packer.readString at h
    by_cases hb : b = 0
    · simp [hb] at h; simp [← h.2]
    · simp only [hb, if_false] at h
      cases hr : Tw.Packer.readString bs with
      | none => simp [hr] at h
      | some p =>
        obtain ⟨s', rest'⟩ := p
        simp only [hr, Option.some.injEq, Prod.mk.injEq] at h
        have := readString_length bs s' rest' hr
        simp only [List.length_cons]
        rw [← h.2]; omega

theorem readStr_length {bs s rest : List UInt8} (h : readStr bs = some (s, rest)) : rest.length < bs.length := by
  unfold readStr at h
  cases hr : Tw.Packer.readString bs with
  | none => simp [hr] at h
  | some p =>
    obtain ⟨s', rest'⟩ := p
    simp only [hr] at h
    split at h
    · simp only [Option.some.injEq, Prod.mk.injEq] at h
      rw [← h.2]; exact readString_length _ _ _ hr
    · simp at h

theorem readStr_consuming : Consuming readStr := fun _ _ _ h => Nat.le_of_lt (readStr_length h)

theorem readIntV5_consuming : Consuming readIntV5 := by
  intro bs v rest h
  unfold readIntV5 at h
  cases hr : Tw.Packer.readString bs with
  | none => simp [hr] at h
  | some p =>
    obtain ⟨s', rest'⟩ := p
    simp only [hr] at h
    split at h
    · split at h
      · simp only [Option.some.injEq, Prod.mk.injEq] at h
        rw [← h.2]; exact Nat.le_of_lt (readString_length _ _ _ hr)
      · simp at h
    · simp at h

theorem readTail_length : ∀ (n acc : Nat) (src : UInt8) (len : Nat) (rest : List UInt8) (ws : List Tw.Packer.Warning)
    (r : Tw.Packer.TailResult), Tw.Packer.readTail n acc src len rest ws = some r → r.2.2.2.1.length ≤ rest.length
  | 0, _, _, _, _, _, r, h => by
    simp only [Tw.Packer.readTail, Option.some.injEq] at h; rw [← h]; exact Nat.le_refl _
  | n + 1, acc, src, len, rest, ws, r, h => by
    unfold Tw.Packer.readTail at h
    split at h
    · simp only [Option.some.injEq] at h; rw [← h]; exact Nat.le_refl _
    · cases rest with
      | nil => simp at h
      | cons b rest' =>
        simp only at h
        have := readTail_length n _ _ _ _ _ r h
        simp only [List.length_cons]; omega

theorem readIntV7_consuming : Consuming readIntV7 := by
  intro bs v rest h
  unfold readIntV7 at h
  cases hr : Tw.Packer.readInt bs with
  | none => simp [hr] at h
  | some p =>
    obtain ⟨v', rest', ws⟩ := p
    simp only [hr, Option.some.injEq, Prod.mk.injEq] at h
    rw [← h.2]
    unfold Tw.Packer.readInt at hr
    cases bs with
    | nil => simp at hr
    | cons b0 t =>
      simp only at hr
      cases ht : Tw.Packer.readTail 4 (b0.toNat % 64) b0 1 t [] with
      | none => simp [ht] at hr
      | some r =>
        obtain ⟨acc, src, len, rest'', ws'⟩ := r
        simp only [ht, Option.some.injEq, Prod.mk.injEq] at hr
        have := readTail_length _ _ _ _ _ _ _ ht
        simp only at this
        rw [← hr.2.1]
        simp only [List.length_cons]; omega

theorem InfoKind.reader_consuming (k : InfoKind) : Consuming k.reader := by
  cases k <;> first | exact readIntV5_consuming | exact readIntV7_consuming

theorem consuming_andThen {α β : Type} {r : Reader α} {f : α → Reader β} (hr : Consuming r)
    (hf : ∀ a, Consuming (f a)) : Consuming (r.andThen f) := by
  intro bs b rest h
  unfold Reader.andThen at h
  cases h1 : r bs with
  | none => simp [h1] at h
  | some p =>
    obtain ⟨a, mid⟩ := p
    simp only [h1] at h
    have := hr _ _ _ h1
    have := hf a _ _ _ h
    omega

theorem consuming_ret {α : Type} (a : α) : Consuming (Reader.ret a) := by
  intro bs b rest h
  simp only [Reader.ret, Option.some.injEq, Prod.mk.injEq] at h
  rw [← h.2]; exact Nat.le_refl _

theorem consuming_ite {α : Type} {c : Prop} [Decidable c] {r1 r2 : Reader α} (h1 : Consuming r1) (h2 : Consuming r2) :
    Consuming (if c then r1 else r2) := by
  split <;> assumption

theorem readClientTail_consuming {ri : Reader Int} (hri : Consuming ri) (ver : Version) (name : List UInt8) :
    Consuming (readClientTail ri ver name) := by
  unfold readClientTail
  refine consuming_andThen (consuming_ite ?_ (consuming_ret _)) (fun p => ?_)
  · exact consuming_andThen readStr_consuming fun _ => consuming_andThen hri fun _ => consuming_ret _
  · obtain ⟨clan, country⟩ := p
    refine consuming_andThen hri fun _ => consuming_andThen ?_ fun _ => consuming_andThen ?_ fun _ => consuming_ret _
    · exact consuming_ite (consuming_ite hri (consuming_andThen hri fun _ => consuming_ret _)) (consuming_ret _)
    · exact consuming_ite (consuming_andThen readStr_consuming fun _ => consuming_ret _) (consuming_ret _)

theorem readClient_length {ri : Reader Int} (hri : Consuming ri) {ver : Version} {bs rest : List UInt8} {c : ClientInfo}
    (h : readClient ri ver bs = .client c rest) : rest.length < bs.length := by
  unfold readClient at h
  cases h1 : readStr bs with
  | none => simp [h1] at h
  | some p =>
    obtain ⟨name, mid⟩ := p
    simp only [h1] at h
    cases h2 : readClientTail ri ver name mid with
    | none => simp [h2] at h
    | some q =>
      obtain ⟨c', rest'⟩ := q
      simp only [h2, ClientRead.client.injEq] at h
      have := readStr_length h1
      have := readClientTail_consuming hri ver name _ _ _ h2
      rw [← h.2]; omega

/-- more fuel than bytes changes nothing: the loop ends by running out of input, never of fuel -/
theorem parseClients_fuel {ri : Reader Int} (hri : Consuming ri) (ver : Version) :
    ∀ (fuel₁ fuel₂ j : Nat) (bs : List UInt8) (acc : List ClientInfo) (recv : Nat),
      bs.length < fuel₁ → bs.length < fuel₂ →
      parseClients ri ver fuel₁ j bs acc recv = parseClients ri ver fuel₂ j bs acc recv := by
  intro fuel₁
  induction fuel₁ with
  | zero => intro _ _ _ _ _ h; omega
  | succ f1 ih =>
    intro fuel₂ j bs acc recv h1 h2
    cases fuel₂ with
    | zero => omega
    | succ f2 =>
      unfold parseClients
      cases hc : readClient ri ver bs with
      | stop => rfl
      | fail => rfl
      | client c rest =>
        have hl := readClient_length hri hc
        simp only
        have e := fun j' acc' recv' => ih f2 j' rest acc' recv' (by omega) (by omega)
        split
        · split
          · exact e _ _ _
          · cases shl1 "1 << j" j with
            | panic s => rfl
            | ok bit => exact e _ _ _
        · exact e _ _ _

/-! ### What the count sanity check guarantees -/

/-- counts of an info are sane: `0 ≤ players ≤ clients ≤ max_clients`, `0 ≤ max_players ≤
max_clients`, and `max_clients` within the version's maximum -/
def CountsSane (i : ServerInfo) : Prop :=
  0 ≤ i.numPlayers ∧ i.numPlayers ≤ i.numClients ∧ i.numClients ≤ i.maxClients ∧
  0 ≤ i.maxPlayers ∧ i.maxPlayers ≤ i.maxClients ∧
  ∀ m, i.infoVersion.maxClients = some m → i.maxClients ≤ (m : Int)

theorem checkHead_sane {ver : Version} {token : Int} {h : RawHead} {info : ServerInfo} {off : Nat}
    (hc : checkHead ver token h = some (info, off)) : CountsSane info ∧ info.infoVersion = ver ∧ info.clients = [] := by
  unfold checkHead at hc
  split at hc
  · simp at hc
  · rename_i hsane
    split at hc
    · simp at hc
    · simp only [Option.some.injEq, Prod.mk.injEq] at hc
      rw [← hc.1]
      have hx : ¬ ver.exceedsMax h.maxClients = true := fun e => hsane (by simp [e])
      refine ⟨⟨?_, ?_, ?_, ?_, ?_, ?_⟩, rfl, rfl⟩
      · show 0 ≤ h.numPlayers; omega
      · show h.numPlayers ≤ h.numClients; omega
      · show h.numClients ≤ h.maxClients; omega
      · show 0 ≤ h.maxPlayers; omega
      · show h.maxPlayers ≤ h.maxClients; omega
      · intro m hm
        show h.maxClients ≤ (m : Int)
        have hm' : ver.maxClients = some m := hm
        simp only [Version.exceedsMax, hm', decide_eq_true_eq] at hx
        omega

theorem parseBody_info {ri : Reader Int} {ver : Version} {info : ServerInfo} {packetNo offset : Nat} {bs : List UInt8}
    {p : PartialInfo} (h : parseBody ri ver info packetNo offset bs = .ok (some p)) :
    ∃ cs, p.info = { info with clients := cs } := by
  unfold parseBody at h
  split at h
  · simp at h
  · split at h
    · simp at h
    · split at h
      · simp at h
      · simp at h
      · rename_i clients recv _
        simp only [Outcome.ok.injEq, Option.some.injEq] at h
        exact ⟨clients, by rw [← h]⟩

theorem parseServerInfo_sane {ri : Reader Int} {rv : Received} {bs : List UInt8} {p : PartialInfo}
    (h : parseServerInfo ri rv bs = .ok (some p)) : CountsSane p.info ∧ p.info.infoVersion = rv.version := by
  unfold parseServerInfo at h
  cases h0 : ri bs with
  | none => simp [h0] at h
  | some q =>
    obtain ⟨token, bs1⟩ := q
    simp only [h0] at h
    cases rv with
    | normal ver =>
      simp only at h
      unfold parseHeadNormal at h
      cases h1 : readHead ri ver bs1 with
      | none => simp [h1] at h
      | some q1 =>
        obtain ⟨raw, bs2⟩ := q1
        simp only [h1] at h
        cases h2 : checkHead ver token raw with
        | none => simp [h2] at h
        | some q2 =>
          obtain ⟨info, off⟩ := q2
          simp only [h2] at h
          obtain ⟨cs, hp⟩ := parseBody_info h
          have := checkHead_sane h2
          rw [hp]
          exact ⟨this.1, this.2.1⟩
    | v6ExMore =>
      simp only at h
      cases h1 : parseHeadMore ri token bs1 with
      | none => simp [h1] at h
      | some q1 =>
        obtain ⟨info, n, bs2⟩ := q1
        simp only [h1] at h
        obtain ⟨cs, hp⟩ := parseBody_info h
        have hinfo : info = { infoVersion := .v6Ex, token := token } := by
          unfold parseHeadMore at h1
          cases hr : ri bs1 with
          | none => simp [hr] at h1
          | some pr =>
            obtain ⟨pn, bs'⟩ := pr
            simp only [hr, Option.bind_eq_bind, Option.bind_some] at h1
            split at h1
            · simp at h1
            · simp only [Option.pure_def, Option.some.injEq, Prod.mk.injEq] at h1
              exact h1.1.symm
        rw [hp, hinfo]
        refine ⟨⟨Int.le_refl 0, Int.le_refl 0, Int.le_refl 0, Int.le_refl 0, Int.le_refl 0, ?_⟩, rfl⟩
        intro m hm
        have : Version.v6Ex.maxClients = none := by decide
        have hm' : Version.v6Ex.maxClients = some m := hm
        rw [this] at hm'
        cases hm'

end Tw.ServerBrowse
