import Tw.Proofs.SnapWire

/-! Wire forms of a raw snapshot: `readFromInts (writeInts s) = s`, also through bytes. -/
namespace Tw.Snap
open Tw.Packer (readInt writeInt inI32)

/-! ### adding a list of items one by one -/

/-- `add_item` for each item in order (errors as `read_from_ints` reports them) -/
def addAll : Items → RawSnap → Res RawSnap
  | [], s => .ok s
  | (k, d) :: r, s =>
    match s.addItem k d with
    | .error e => .err e.toError
    | .ok s' => addAll r s'

theorem mfind_append {α : Type} (k : Int) (l1 l2 : List (Int × α)) :
    mfind k (l1 ++ l2) = (mfind k l1).or (mfind k l2) := by
  induction l1 with
  | nil => simp [mfind]
  | cons p r ih =>
    obtain ⟨k', v⟩ := p
    by_cases hk : k = k'
    · simp [mfind, hk]
    · simp [mfind, hk, ih]

theorem mfind_filter_key {α : Type} (Q : Int → Bool) (k : Int) (m : List (Int × α)) :
    mfind k (m.filter (fun p => Q p.1)) = if Q k then mfind k m else none := by
  induction m with
  | nil => simp [mfind]
  | cons p r ih =>
    obtain ⟨k', v⟩ := p
    by_cases hq : Q k' = true
    · simp only [List.filter_cons, hq, if_true, mfind]
      by_cases hk : k = k'
      · subst hk; simp [hq]
      · simp only [hk, if_false, ih]
    · simp only [List.filter_cons, hq, mfind]
      by_cases hk : k = k'
      · subst hk; simp [hq, ih]
      · simp [hk, ih]

theorem mfind_unsignedOrder (k : Int) (m : Items) : mfind k (unsignedOrder m) = mfind k m := by
  unfold unsignedOrder
  rw [mfind_append, mfind_filter_key (fun k => decide (0 ≤ k)), mfind_filter_key (fun k => decide (k < 0))]
  by_cases h : 0 ≤ k
  · have : ¬ k < 0 := by omega
    simp [h, this]
  · have : k < 0 := by omega
    simp [h, this]

theorem nodup_keys_unsignedOrder {m : Items} (h : Sorted m) : ((unsignedOrder m).map Prod.fst).Nodup := by
  unfold unsignedOrder
  rw [List.map_append, List.nodup_append]
  unfold Sorted at h
  have hnd : (m.map Prod.fst).Nodup := h.imp (fun hab => by omega)
  refine ⟨hnd.sublist (List.Sublist.map _ List.filter_sublist),
    hnd.sublist (List.Sublist.map _ List.filter_sublist), ?_⟩
  intro a ha b hb
  obtain ⟨p, hp, rfl⟩ := List.mem_map.mp ha
  obtain ⟨q, hq, rfl⟩ := List.mem_map.mp hb
  have h1 := (List.mem_filter.mp hp).2
  have h2 := (List.mem_filter.mp hq).2
  simp at h1 h2
  omega

theorem mem_unsignedOrder {m : Items} {p : Int × List Int} : p ∈ unsignedOrder m ↔ p ∈ m := by
  unfold unsignedOrder
  simp only [List.mem_append, List.mem_filter, decide_eq_true_eq]
  constructor
  · rintro (h | h) <;> exact h.1
  · intro h
    by_cases hp : 0 ≤ p.1
    · exact Or.inl ⟨h, hp⟩
    · exact Or.inr ⟨h, by omega⟩

theorem addAll_spec (S : Items) (hS : Sorted S) (hlim : Limits S) :
    ∀ (l : Items) (s0 : RawSnap), Sorted s0.items →
      (∀ k v, mfind k s0.items = some v → mfind k S = some v) →
      (∀ p ∈ l, mfind p.1 S = some p.2) → (∀ p ∈ l, mfind p.1 s0.items = none) →
      (l.map Prod.fst).Nodup →
      ∃ r, addAll l s0 = .ok r ∧ Sorted r.items ∧
        ∀ k, mfind k r.items = (mfind k l).or (mfind k s0.items) := by
  intro l
  induction l with
  | nil => intro s0 hs _ _ _ _; exact ⟨s0, rfl, hs, by intro k; simp [mfind]⟩
  | cons p l ih =>
    obtain ⟨k0, d0⟩ := p
    intro s0 hs hsub hl hnew hnd
    have hk0 : mfind k0 s0.items = none := hnew (k0, d0) (by simp)
    have hsub' : ∀ k v, mfind k (minsert k0 d0 s0.items) = some v → mfind k S = some v := by
      intro k v hv
      rw [mfind_minsert] at hv
      by_cases hkk : k = k0
      · rw [if_pos hkk] at hv
        injection hv with hv
        rw [hkk, ← hv]
        exact hl (k0, d0) (by simp)
      · rw [if_neg hkk] at hv
        exact hsub k v hv
    have hvc := vacantCheck_none (v := d0) hs hk0 hS (fun k v hv => ⟨v, hsub' k v hv, rfl⟩) hlim
    simp only [List.map_cons, List.nodup_cons] at hnd
    have hnew' : ∀ p ∈ l, mfind p.1 (minsert k0 d0 s0.items) = none := by
      intro p hp
      have hne : p.1 ≠ k0 := by
        intro e
        apply hnd.1
        rw [← e]
        exact mem_keys_of_mem hp
      rw [mfind_minsert, if_neg hne]
      exact hnew p (by simp [hp])
    obtain ⟨r, hr, hrs, hrf⟩ := ih ⟨minsert k0 d0 s0.items⟩ (sorted_minsert hs) hsub'
      (fun p hp => hl p (by simp [hp])) hnew' hnd.2
    refine ⟨r, ?_, hrs, ?_⟩
    · simp only [addAll, RawSnap.addItem, hk0, hvc, hr]
    · intro k
      rw [hrf k, mfind_minsert]
      by_cases hkk : k = k0
      · subst hkk
        have : mfind k l = none := by
          rw [mfind_eq_none_iff]; exact hnd.1
        simp [mfind, this]
      · simp [mfind, hkk]

/-- adding the items of a well-formed snapshot in wire order to an empty one rebuilds it -/
theorem addAll_unsignedOrder {s : RawSnap} (h : s.WF) : addAll (unsignedOrder s.items) RawSnap.empty = .ok s := by
  obtain ⟨hS, _, hN, hZ⟩ := h
  obtain ⟨r, hr, hrs, hrf⟩ := addAll_spec s.items hS ⟨hN, hZ⟩ (unsignedOrder s.items) RawSnap.empty
    sorted_nil (by intro k v h; simp [RawSnap.empty, mfind] at h)
    (fun p hp => mfind_of_mem hS (by cases p; exact mem_unsignedOrder.mp hp))
    (by intro p _; simp [RawSnap.empty, mfind]) (nodup_keys_unsignedOrder hS)
  rw [hr]
  congr 1
  cases r with
  | mk items =>
    cases s with
    | mk sitems =>
      congr 1
      apply sorted_ext hrs hS
      intro k
      rw [hrf k, mfind_unsignedOrder]
      simp [RawSnap.empty, mfind]

/-! ### the offset loop of `read_from_ints` on a well-formed layout -/

theorem offsetsOf_length (o : Nat) (m : Items) : (offsetsOf o m).length = m.length := by
  induction m generalizing o with
  | nil => rfl
  | cons p r ih => obtain ⟨k, d⟩ := p; simp [offsetsOf, ih]

theorem flatItems_cons (k : Int) (d : List Int) (r : Items) : flatItems ((k, d) :: r) = k :: d ++ flatItems r := by
  simp [flatItems]

theorem flatItems_length (m : Items) : (flatItems m).length = m.length + dataLen m := by
  induction m with
  | nil => simp [flatItems, dataLen]
  | cons p r ih =>
    obtain ⟨k, d⟩ := p
    rw [flatItems_cons, dataLen_cons]
    simp [ih]; omega

theorem addAt_slice (pre : List Int) (k : Int) (d post : List Int) (s : RawSnap) :
    addAt (pre ++ k :: d ++ post) pre.length (pre.length + 1 + d.length) s =
      match s.addItem k d with
      | .error e => .err e.toError
      | .ok s' => .ok s' := by
  unfold addAt
  have h1 : (pre ++ k :: d ++ post)[pre.length]? = some k := by
    simp [List.getElem?_append_right]
  have h2 : ¬ (pre.length + 1 + d.length > (pre ++ k :: d ++ post).length ∨ pre.length + 1 + d.length < pre.length + 1) := by
    simp; omega
  have h3 : (List.drop (pre.length + 1) (pre ++ k :: d ++ post)).take (pre.length + 1 + d.length - (pre.length + 1)) = d := by
    have : pre ++ k :: d ++ post = (pre ++ [k]) ++ (d ++ post) := by simp
    rw [this, List.drop_left' (by simp)]
    have : pre.length + 1 + d.length - (pre.length + 1) = d.length := by omega
    rw [this, List.take_left' rfl]
  rw [h1]
  simp only [h2, if_false, h3]
  cases s.addItem k d <;> rfl

theorem readItemsLoop_layout : ∀ (r : Items) (pre : List Int) (k : Int) (d : List Int) (s : RawSnap),
    readItemsLoop (pre ++ k :: d ++ flatItems r) (pre ++ k :: d ++ flatItems r).length
      (offsetsOf (4 * (pre.length + 1 + d.length)) r) pre.length s = addAll ((k, d) :: r) s := by
  intro r
  induction r with
  | nil =>
    intro pre k d s
    have hlen : (pre ++ k :: d ++ flatItems []).length = pre.length + 1 + d.length := by
      simp [flatItems]; omega
    have hnot : ¬ (pre ++ k :: d ++ flatItems []).length ≤ pre.length := by omega
    simp only [offsetsOf, readItemsLoop, hnot, if_false]
    rw [hlen, addAt_slice]
    simp only [addAll]
  | cons q r ih =>
    obtain ⟨k', d'⟩ := q
    intro pre k d s
    have hlen : (pre ++ k :: d ++ flatItems ((k', d') :: r)).length
        = pre.length + 1 + d.length + (1 + d'.length + (flatItems r).length) := by
      simp [flatItems_cons]; omega
    simp only [offsetsOf, readItemsLoop]
    have h1 : ¬ (((4 * (pre.length + 1 + d.length) : Nat) : Int) < 0) := by omega
    have h2 : ¬ (((4 * (pre.length + 1 + d.length) : Nat) : Int) % 4 ≠ 0) := by omega
    have h3 : ((4 * (pre.length + 1 + d.length) : Nat) : Int).toNat / 4 = pre.length + 1 + d.length := by
      rw [Int.toNat_natCast]; omega
    simp only [h1, h2, if_false, h3]
    have h4 : ¬ (pre.length + 1 + d.length ≤ pre.length) := by omega
    have h5 : ¬ (pre.length + 1 + d.length > (pre ++ k :: d ++ flatItems ((k', d') :: r)).length) := by omega
    simp only [h4, h5, if_false, addAt_slice]
    simp only [addAll]
    cases ha : s.addItem k d with
    | error e => rfl
    | ok s' =>
      simp only []
      have e1 : pre ++ k :: d ++ flatItems ((k', d') :: r) = (pre ++ k :: d) ++ k' :: d' ++ flatItems r := by
        simp [flatItems_cons]
      have e2 : pre.length + 1 + d.length = (pre ++ k :: d).length := by simp; omega
      have e3 : 4 * (pre.length + 1 + d.length) + 4 * (d'.length + 1) = 4 * ((pre ++ k :: d).length + 1 + d'.length) := by
        simp; omega
      rw [e3, e2, e1]
      exact ih (pre ++ k :: d) k' d' s'

/-! ### `read_from_ints ∘ write_to_ints` -/

theorem unsignedOrder_length (m : Items) : (unsignedOrder m).length = m.length := by
  unfold unsignedOrder
  rw [List.length_append]
  induction m with
  | nil => rfl
  | cons p r ih =>
    simp only [List.filter_cons]
    by_cases h : 0 ≤ p.1
    · have : ¬ p.1 < 0 := by omega
      simp [h, this]; omega
    · have : p.1 < 0 := by omega
      simp [h, this]; omega

theorem unsignedOrder_dataLen (m : Items) : dataLen (unsignedOrder m) = dataLen m := by
  unfold unsignedOrder dataLen
  rw [List.map_append, List.sum_append]
  induction m with
  | nil => rfl
  | cons p r ih =>
    simp only [List.filter_cons]
    by_cases h : 0 ≤ p.1
    · have : ¬ p.1 < 0 := by omega
      simp [h, this]; omega
    · have : p.1 < 0 := by omega
      simp [h, this]; omega

/-- the integers `write_impl` emits for a well-formed snapshot -/
def wireInts (s : RawSnap) : List Int :=
  (((dataLen s.items + s.items.length) * 4 : Nat) : Int) :: (s.items.length : Int) ::
    (offsetsOf 0 (unsignedOrder s.items) ++ flatItems (unsignedOrder s.items))

theorem wireInts_length (s : RawSnap) : (wireInts s).length = 2 + s.items.length + s.items.length + dataLen s.items := by
  simp [wireInts, offsetsOf_length, flatItems_length, unsignedOrder_length, unsignedOrder_dataLen]; omega

theorem writeInts_of_WF {s : RawSnap} (h : s.WF) : s.writeInts = some (wireInts s) := by
  obtain ⟨_, _, hN, hZ⟩ := h
  unfold RawSnap.writeInts
  have h1 : ¬ s.items.length > maxItems := by omega
  simp only [h1, if_false]
  have hl := wireInts_length s
  unfold wireInts at hl
  unfold RawSnap.size serializedSize at hZ
  have h2 : ¬ (4 * ((((dataLen s.items + s.items.length) * 4 : Nat) : Int) :: (s.items.length : Int) ::
      (offsetsOf 0 (unsignedOrder s.items) ++ flatItems (unsignedOrder s.items))).length > maxSize) := by
    rw [hl]; omega
  simp only [h2, if_false]
  rfl

/-- C10/C11: a well-formed raw snapshot written to its integer form and read back is the same
snapshot, and the reader emits no warning. -/
theorem readFromInts_wireInts {s : RawSnap} (h : s.WF) : RawSnap.readFromInts (wireInts s) = .ok (s, []) := by
  have hall := addAll_unsignedOrder h
  unfold RawSnap.readFromInts wireInts
  have h1 : ¬ (((dataLen s.items + s.items.length) * 4 : Nat) : Int) < 0 := by omega
  have h2 : ¬ ((s.items.length : Nat) : Int) < 0 := by omega
  simp only [h1, h2, if_false, Int.toNat_natCast]
  have hbl : (offsetsOf 0 (unsignedOrder s.items) ++ flatItems (unsignedOrder s.items)).length
      = s.items.length + (s.items.length + dataLen s.items) := by
    simp [offsetsOf_length, flatItems_length, unsignedOrder_length, unsignedOrder_dataLen]
  have h3 : ¬ ((offsetsOf 0 (unsignedOrder s.items) ++ flatItems (unsignedOrder s.items)).length < s.items.length) := by
    omega
  have h4 : ¬ ((((dataLen s.items + s.items.length) * 4 : Nat) : Int) % 4 ≠ 0) := by omega
  have h5 : (dataLen s.items + s.items.length) * 4 / 4 = dataLen s.items + s.items.length := by omega
  simp only [h3, h4, if_false, h5]
  have h6 : ¬ (s.items.length + (dataLen s.items + s.items.length) >
      (offsetsOf 0 (unsignedOrder s.items) ++ flatItems (unsignedOrder s.items)).length) := by omega
  have h7 : ¬ (s.items.length + (dataLen s.items + s.items.length) <
      (offsetsOf 0 (unsignedOrder s.items) ++ flatItems (unsignedOrder s.items)).length) := by omega
  simp only [h6, h7, if_false]
  have htake : List.take s.items.length (offsetsOf 0 (unsignedOrder s.items) ++ flatItems (unsignedOrder s.items))
      = offsetsOf 0 (unsignedOrder s.items) := by
    rw [List.take_left' (by simp [offsetsOf_length, unsignedOrder_length])]
  have hdrop : List.take (dataLen s.items + s.items.length)
      (List.drop s.items.length (offsetsOf 0 (unsignedOrder s.items) ++ flatItems (unsignedOrder s.items)))
      = flatItems (unsignedOrder s.items) := by
    rw [List.drop_left' (by simp [offsetsOf_length, unsignedOrder_length])]
    rw [List.take_of_length_le (by simp [flatItems_length, unsignedOrder_length, unsignedOrder_dataLen]; omega)]
  rw [htake, hdrop]
  cases hord : unsignedOrder s.items with
  | nil =>
    have hn : s.items.length = 0 := by rw [← unsignedOrder_length, hord]; rfl
    have hd : dataLen s.items = 0 := by rw [← unsignedOrder_dataLen, hord]; rfl
    have : s = RawSnap.empty := by
      cases s with
      | mk items => simp at hn; simp [RawSnap.empty, hn]
    simp [offsetsOf, hn, hd, this, RawSnap.empty, dataLen]
  | cons p r =>
    obtain ⟨k, d⟩ := p
    simp only [offsetsOf]
    have hz1 : ¬ (((0 : Nat) : Int) < 0) := by omega
    have hz2 : ¬ (((0 : Nat) : Int) % 4 ≠ 0) := by omega
    have hz3 : ¬ (((0 : Nat) : Int).toNat / 4 ≠ 0) := by simp
    simp only [hz1, hz2, hz3, if_false]
    have hlen : dataLen s.items + s.items.length = (([] : List Int) ++ k :: d ++ flatItems r).length := by
      rw [← unsignedOrder_length, ← unsignedOrder_dataLen, hord]
      simp [dataLen_cons, flatItems_length]; omega
    have hloop := readItemsLoop_layout r [] k d RawSnap.empty
    simp only [List.nil_append, List.length_nil, Nat.zero_add] at hloop hlen
    rw [flatItems_cons, hlen]
    have e : 0 + 4 * (d.length + 1) = 4 * (1 + d.length) := by omega
    rw [e, hloop, ← hord, hall]

/-! ### bytes -/

theorem decodeInts_packInts : ∀ (xs : List Int) (fuel : Nat), xs.length ≤ fuel → (∀ x ∈ xs, I32 x) →
    decodeInts fuel (packInts xs) = (xs, []) := by
  intro xs
  induction xs with
  | nil => intro fuel _ _; cases fuel <;> simp [decodeInts, packInts]
  | cons x xs ih =>
    intro fuel hf hI
    cases fuel with
    | zero => simp at hf
    | succ fuel =>
      have hx := hI x (by simp)
      rw [packInts_cons]
      have hne : writeInt x ++ packInts xs ≠ [] := by
        have := (Tw.Packer.writeInt_length x).1
        cases h : writeInt x with
        | nil => simp [h] at this
        | cons a b => simp
      cases hb : writeInt x ++ packInts xs with
      | nil => exact absurd hb hne
      | cons b0 bs =>
        simp only [decodeInts]
        rw [← hb, Tw.Packer.readInt_writeInt x (inI32_of_I32 hx)]
        simp only [ih fuel (by simp at hf; omega) (fun y hy => hI y (by simp [hy]))]
        simp

theorem offsetsOf_I32 (o : Nat) (m : Items) (h : o + 4 * (m.length + dataLen m) < 2147483648) :
    ∀ x ∈ offsetsOf o m, I32 x := by
  induction m generalizing o with
  | nil => simp [offsetsOf]
  | cons p r ih =>
    obtain ⟨k, d⟩ := p
    rw [dataLen_cons] at h
    simp only [List.length_cons] at h
    intro x hx
    simp only [offsetsOf, List.mem_cons] at hx
    rcases hx with rfl | hx
    · unfold I32; omega
    · exact ih (o + 4 * (d.length + 1)) (by omega) x hx

theorem wireInts_I32 {s : RawSnap} (h : s.WF) : ∀ x ∈ wireInts s, I32 x := by
  obtain ⟨_, hI, hN, hZ⟩ := h
  unfold RawSnap.size serializedSize at hZ
  rw [maxSize_eq] at hZ
  rw [maxItems_eq] at hN
  intro x hx
  simp only [wireInts, List.mem_cons, List.mem_append] at hx
  rcases hx with rfl | rfl | hx | hx
  · unfold I32; omega
  · unfold I32; omega
  · exact offsetsOf_I32 0 _ (by rw [unsignedOrder_length, unsignedOrder_dataLen]; omega) x hx
  · simp only [flatItems, List.mem_flatMap] at hx
    obtain ⟨p, hp, hx⟩ := hx
    have := hI p (mem_unsignedOrder.mp hp)
    simp at hx
    rcases hx with rfl | hx
    · exact this.1
    · exact this.2 x hx

/-- … and the same through the byte form (`RawSnap::write` / `RawSnap::read`). -/
theorem readBytes_wireInts {s : RawSnap} (h : s.WF) :
    RawSnap.readBytes (packInts (wireInts s)) = .ok (s, []) := by
  unfold RawSnap.readBytes
  have hf : (wireInts s).length ≤ (packInts (wireInts s)).length := by
    have := enc_size_ge true (wireInts s)
    simpa [enc, Src.size] using this
  rw [decodeInts_packInts (wireInts s) _ hf (wireInts_I32 h)]
  simp only [readFromInts_wireInts h]
  simp

end Tw.Snap
