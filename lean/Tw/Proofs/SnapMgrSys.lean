/-
C13: the invariant of the whole exchange and its preservation by every event.
-/
import Tw.Proofs.SnapMgr

namespace Tw.SnapMgr
open Tw.SnapXfer

variable {S D : Type} {ops : Ops S D} {P : S → Prop}

/-- A recorded `delta_chunks` call is what the glue makes of two of the sender's snapshots. -/
def XferOk (ops : Ops S D) (sent : List (Int × S)) (x : Xfer) : Prop :=
  inI32 x.base ∧
  ∃ s baseSnap, (x.tick, s) ∈ sent ∧
    ((x.base = -1 ∧ baseSnap = ops.empty) ∨ (0 ≤ x.base ∧ (x.base, baseSnap) ∈ sent)) ∧
    x.crc = ops.crc s ∧
    ((x.bytes ≠ [] ∧ ∃ d, ops.create baseSnap s = some d ∧ ops.write d = some x.bytes) ∨
     (x.bytes = [] ∧ ops.same baseSnap s = true))

theorem XferOk.mono {sent : List (Int × S)} {x : Xfer} (h : XferOk ops sent x) (p : Int × S) :
    XferOk ops (p :: sent) x := by
  obtain ⟨h1, s, b, h3, h4, h5⟩ := h
  refine ⟨h1, s, b, List.mem_cons_of_mem _ h3, ?_, h5⟩
  rcases h4 with h | ⟨h, h'⟩
  · exact Or.inl h
  · exact Or.inr ⟨h, List.mem_cons_of_mem _ h'⟩

/-- The invariant of the exchange. -/
structure Good (ops : Ops S D) (y : Sys S) : Prop where
  sentFun : Functional y.sent
  sentI32 : ∀ p, p ∈ y.sent → inI32 p.1
  senderStored : ∀ s, s ∈ y.sender.snaps → (s.tick, s.snap) ∈ y.sent
  senderDelta : ∀ t, y.sender.deltaTick = some t →
    0 ≤ t ∧ ∃ d, y.sender.snaps.getLast? = some d ∧ d.tick = t
  xfersOk : ∀ x, x ∈ y.xfers → XferOk ops y.sent x
  xfersUniq : UniqueTicks y.xfers
  msgsOk : ∀ m, m ∈ y.msgs → ∃ x, x ∈ y.xfers ∧ ∃ ms, x.chunks = .ok ms ∧ m ∈ ms
  recvOk : RecvOk y.xfers y.client.receiver
  clientStored : ∀ s, s ∈ y.client.storage.snaps → (s.tick, s.snap) ∈ y.sent

theorem good_init : Good ops ({} : Sys S) where
  sentFun := by intro p hp; cases hp
  sentI32 := by intro p hp; cases hp
  senderStored := by intro s hs; cases hs
  senderDelta := by intro t ht; cases ht
  xfersOk := by intro x hx; cases hx
  xfersUniq := by intro x hx; cases hx
  msgsOk := by intro m hm; cases hm
  recvOk := recvOk_of_current_none rfl
  clientStored := by intro s hs; cases hs

theorem RecvOk.mono {xfers : List Xfer} {r : Receiver} (h : RecvOk xfers r) (x : Xfer) :
    RecvOk (x :: xfers) r := by
  intro c hc
  obtain ⟨x', h1, h2⟩ := h c hc
  exact ⟨x', List.mem_cons_of_mem _ h1, h2⟩

/-! ### delivery of a snapshot message -/

theorem deliver_safe (laws : LawsOn ops P) {y : Sys S} (hg : Good ops y)
    (hsP : ∀ p, p ∈ y.sent → P p.2) {m : Msg} (hm : m ∈ y.msgs) :
    Good ops { y with client := (y.client.step ops m).1 } ∧
      Obs.ok y.sent (.delivered m.tick (y.client.step ops m).2.1 y.client.ackTick
        (y.client.step ops m).1.ackTick) := by
  obtain ⟨x, hx, ms, hms, hmm⟩ := hg.msgsOk m hm
  obtain ⟨hb, s, baseSnap, hs, hbase, hcrc, hform⟩ := hg.xfersOk x hx
  have hPs : P s := hsP _ hs
  have hPb : P baseSnap := by
    rcases hbase with ⟨_, h⟩ | ⟨_, h⟩
    · rw [h]; exact laws.empty
    · exact hsP _ h
  have htick : m.tick = x.tick := (deltaChunks_form' hms).tick_eq m hmm
  obtain ⟨hr', hdel⟩ := recv_step_safe hg.xfersUniq hg.recvOk hx hb hms hmm
  have mk : ∀ (c : Manager S), RecvOk y.xfers c.receiver →
      (∀ s', s' ∈ c.storage.snaps → (s'.tick, s'.snap) ∈ y.sent) → Good ops { y with client := c } :=
    fun c h1 h2 => { hg with recvOk := h1, clientStored := h2 }
  rcases hstep : y.client.receiver.step m with ⟨r', res, ws⟩
  rw [hstep] at hr' hdel
  simp only at hr' hdel
  cases res with
  | error e =>
    simp only [Manager.step, hstep]
    exact ⟨mk _ hr' hg.clientStored, Or.inl rfl⟩
  | ok od =>
    cases od with
    | none =>
      simp only [Manager.step, hstep]
      exact ⟨mk _ hr' hg.clientStored, rfl⟩
    | some dd =>
      have hdd := hdel dd rfl
      subst hdd
      -- the delta the manager hands to the storage, and the checksum it passes along
      have key : ∃ (dl : D) (crc : Option Int),
          Manager.addDelta ops y.client.storage (delivery x.tick x.base x.crc x.bytes) =
            (match y.client.storage.addDelta ops crc x.base x.tick dl with
              | (st', .error e, w) => (st', .error (.storage e), w)
              | (st', .ok s, w) => (st', .ok s, w)) ∧
          ops.apply baseSnap dl = .ok s ∧ (∀ c, crc = some c → c = ops.crc s) := by
        rcases hform with ⟨hne, d, hcreate, hwrite⟩ | ⟨hempty, hsame⟩
        · refine ⟨d, some x.crc, ?_, laws.apply_create _ _ _ hPb hPs hcreate, fun c hc => by injection hc with hc; rw [← hc, hcrc]⟩
          simp only [Manager.addDelta, delivery, hne, if_false, laws.read_write _ _ _ _ hPb hPs hcreate hwrite, Option.map_some]
          try rfl
        · refine ⟨ops.clear, none, ?_, laws.same_clear _ _ hPb hPs hsame, fun c hc => by cases hc⟩
          simp only [Manager.addDelta, delivery, hempty, if_true, Option.map_none]
          try rfl
      obtain ⟨dl, crc, hmgr, happly, hcrc'⟩ := key
      obtain ⟨f1, f2, f3⟩ := addDelta_safe (ops := ops) hg.sentFun (st := y.client.storage)
        hg.clientStored hs hbase happly hcrc'
      simp only [Manager.step, hstep, hmgr]
      rcases hres : y.client.storage.addDelta ops crc x.base x.tick dl with ⟨st', r2, w⟩
      rw [hres] at f1 f2 f3
      simp only at f1 f2 f3
      cases r2 with
      | error e =>
        simp only
        exact ⟨mk _ hr' f1, f3 e rfl⟩
      | ok s' =>
        obtain ⟨e1, e2⟩ := f2 s' rfl
        subst e1
        simp only
        refine ⟨mk _ hr' f1, ?_, ?_⟩
        · rw [htick]; exact hs
        · rw [htick]; exact e2

/-! ### acknowledgements, reset -/

theorem setDeltaTick_safe {y : Sys S} (hg : Good ops y) (v : Int) :
    Good ops { y with sender := (y.sender.setDeltaTick v).1 } := by
  have mk : ∀ (st : Storage S), (∀ s, s ∈ st.snaps → (s.tick, s.snap) ∈ y.sent) →
      (∀ t, st.deltaTick = some t → 0 ≤ t ∧ ∃ d, st.snaps.getLast? = some d ∧ d.tick = t) →
      Good ops { y with sender := st } :=
    fun st h1 h2 => { hg with senderStored := h1, senderDelta := h2 }
  have hkept : ∀ s, s ∈ keepFrom y.sender.snaps v → (s.tick, s.snap) ∈ y.sent :=
    fun s h => hg.senderStored s (keepFrom_subset _ _ s h)
  unfold Storage.setDeltaTick
  by_cases hneg : v < 0
  · simp only [hneg, if_true]
    exact mk _ hg.senderStored (by intro t ht; cases ht)
  · simp only [hneg, if_false]
    cases hlast : (keepFrom y.sender.snaps v).getLast? with
    | none => exact mk _ hkept (by intro t ht; cases ht)
    | some d =>
      simp only
      by_cases hd : d.tick = v
      · simp only [hd, if_true]
        refine mk _ hkept ?_
        intro t ht
        simp only [Option.some.injEq] at ht
        subst ht
        exact ⟨by omega, d, hlast, hd⟩
      · simp only [hd, if_false]
        exact mk _ hkept (by intro t ht; cases ht)

theorem reset_safe {y : Sys S} (hg : Good ops y) : Good ops { y with client := y.client.reset } :=
  { hg with
    recvOk := recvOk_of_current_none rfl
    clientStored := by intro s hs; cases hs }

/-! ### the sender builds and sends a snapshot -/

theorem send_safe (laws : LawsOn ops P) {y : Sys S} (hg : Good ops y)
    (hsP : ∀ p, p ∈ y.sent → P p.2) {tick : Int} {snap : S} (hPsnap : P snap)
    (hi : inI32 tick) (hnew : ∀ p, p ∈ y.sent → p.1 < tick)
    {st' : Storage S} {x : Xfer} {ms : List Msg}
    (h : sendSnap ops y.sender tick snap = .ok (st', x, ms)) :
    Good ops { y with sender := st', msgs := y.msgs ++ ms, sent := (tick, snap) :: y.sent,
                      xfers := x :: y.xfers } := by
  -- the base the sender diffed against
  have hbase : (y.sender.deltaTick.getD (-1) = -1 ∧
        y.sender.baseOf ops ({ tick := tick, snap := snap } :: y.sender.snaps) = ops.empty) ∨
      (0 ≤ y.sender.deltaTick.getD (-1) ∧
        (y.sender.deltaTick.getD (-1),
          y.sender.baseOf ops ({ tick := tick, snap := snap } :: y.sender.snaps)) ∈ y.sent) := by
    cases hdt : y.sender.deltaTick with
    | none => left; simp [Storage.baseOf, hdt]
    | some t =>
      right
      obtain ⟨h0, d0, hlast, hdtick⟩ := hg.senderDelta t hdt
      have hl : (({ tick := tick, snap := snap } : Stored S) :: y.sender.snaps).getLast? = some d0 := by
        rw [List.getLast?_cons, hlast]; rfl
      have hmem := hg.senderStored d0 (List.mem_of_getLast? hlast)
      simp only [Storage.baseOf, hdt, hl, Option.getD_some]
      exact ⟨h0, hdtick ▸ hmem⟩
  have hPbase : P (y.sender.baseOf ops ({ tick := tick, snap := snap } :: y.sender.snaps)) := by
    rcases hbase with ⟨_, h⟩ | ⟨_, h⟩
    · rw [h]; exact laws.empty
    · exact hsP _ h
  have hbI32 : inI32 (y.sender.deltaTick.getD (-1)) := by
    rcases hbase with ⟨h, _⟩ | ⟨_, h⟩
    · rw [h]; decide
    · exact hg.sentI32 _ h
  -- everything after the choice of the bytes
  have finish : ∀ (bytes : List UInt8) (ms' : List Msg),
      deltaChunks tick (y.sender.deltaTick.getD (-1)) bytes (ops.crc snap) = .ok ms' →
      ((bytes ≠ [] ∧ ∃ d, ops.create (y.sender.baseOf ops ({ tick := tick, snap := snap } :: y.sender.snaps)) snap = some d ∧
          ops.write d = some bytes) ∨
        (bytes = [] ∧ ops.same (y.sender.baseOf ops ({ tick := tick, snap := snap } :: y.sender.snaps)) snap = true)) →
      Good ops { y with sender := { y.sender with snaps := { tick := tick, snap := snap } :: y.sender.snaps },
                        msgs := y.msgs ++ ms', sent := (tick, snap) :: y.sent,
                        xfers := { tick := tick, base := y.sender.deltaTick.getD (-1), bytes := bytes,
                                   crc := ops.crc snap } :: y.xfers } := by
    intro bytes ms' hchunks hform
    have hxok : XferOk ops ((tick, snap) :: y.sent)
        { tick := tick, base := y.sender.deltaTick.getD (-1), bytes := bytes, crc := ops.crc snap } := by
      refine ⟨hbI32, snap, _, List.mem_cons_self, ?_, rfl, hform⟩
      rcases hbase with h | ⟨h, h'⟩
      · exact Or.inl h
      · exact Or.inr ⟨h, List.mem_cons_of_mem _ h'⟩
    constructor
    · -- sentFun
      intro p hp q hq hpq
      rcases List.mem_cons.mp hp with rfl | hp' <;> rcases List.mem_cons.mp hq with rfl | hq'
      · rfl
      · have := hnew q hq'; simp only at hpq; omega
      · have := hnew p hp'; simp only at hpq; omega
      · exact hg.sentFun p hp' q hq' hpq
    · intro p hp
      rcases List.mem_cons.mp hp with rfl | hp'
      · exact hi
      · exact hg.sentI32 p hp'
    · intro s hs
      rcases List.mem_cons.mp hs with rfl | hs'
      · exact List.mem_cons_self
      · exact List.mem_cons_of_mem _ (hg.senderStored s hs')
    · intro t ht
      obtain ⟨h0, d0, hlast, hdtick⟩ := hg.senderDelta t ht
      refine ⟨h0, d0, ?_, hdtick⟩
      simp only
      rw [List.getLast?_cons, hlast]; rfl
    · intro x' hx'
      rcases List.mem_cons.mp hx' with rfl | hx''
      · exact hxok
      · exact (hg.xfersOk x' hx'').mono _
    · intro a ha b hb hab
      have oldlt : ∀ x', x' ∈ y.xfers → x'.tick < tick := by
        intro x' hx'
        obtain ⟨_, s, _, hs, _⟩ := hg.xfersOk x' hx'
        exact hnew _ hs
      rcases List.mem_cons.mp ha with rfl | ha' <;> rcases List.mem_cons.mp hb with rfl | hb'
      · rfl
      · have := oldlt b hb'; simp only at hab; omega
      · have := oldlt a ha'; simp only at hab; omega
      · exact hg.xfersUniq a ha' b hb' hab
    · intro m hm
      rcases List.mem_append.mp hm with hm' | hm'
      · obtain ⟨x', hx', r⟩ := hg.msgsOk m hm'
        exact ⟨x', List.mem_cons_of_mem _ hx', r⟩
      · exact ⟨_, List.mem_cons_self, ms', hchunks, hm'⟩
    · exact hg.recvOk.mono _
    · intro s hs
      exact List.mem_cons_of_mem _ (hg.clientStored s hs)
  unfold sendSnap Storage.addSnap at h
  simp only at h
  cases hcreate : ops.create (y.sender.baseOf ops ({ tick := tick, snap := snap } :: y.sender.snaps)) snap with
  | none => simp [hcreate] at h
  | some d =>
    simp only [hcreate] at h
    by_cases hcond : (ops.emptyWhenSame &&
        ops.same (y.sender.baseOf ops ({ tick := tick, snap := snap } :: y.sender.snaps)) snap) = true
    · rw [if_pos hcond] at h
      cases hchunks : deltaChunks tick (y.sender.deltaTick.getD (-1)) [] (ops.crc snap) with
      | panic e => simp [hchunks] at h
      | ok ms' =>
        simp only [hchunks, Outcome.ok.injEq, Prod.mk.injEq] at h
        obtain ⟨rfl, rfl, rfl⟩ := h
        exact finish [] ms' hchunks (Or.inr ⟨rfl, by simp only [Bool.and_eq_true] at hcond; exact hcond.2⟩)
    · rw [if_neg hcond] at h
      cases hwrite : ops.write d with
      | none => simp [hwrite] at h
      | some bytes =>
        simp only [hwrite] at h
        cases hchunks : deltaChunks tick (y.sender.deltaTick.getD (-1)) bytes (ops.crc snap) with
        | panic e => simp [hchunks] at h
        | ok ms' =>
          simp only [hchunks, Outcome.ok.injEq, Prod.mk.injEq] at h
          obtain ⟨rfl, rfl, rfl⟩ := h
          exact finish bytes ms' hchunks (Or.inl ⟨laws.write_nonempty _ _ _ _ hPbase hPsnap hcreate hwrite, d, hcreate, hwrite⟩)

/-! ### whole histories -/

theorem Obs.ok_mono {sent : List (Int × S)} {o : Obs S} (h : Obs.ok sent o) (p : Int × S) :
    Obs.ok (p :: sent) o := by
  cases o with
  | quiet => trivial
  | delivered t res a b =>
    cases res with
    | error e => exact h
    | ok od =>
      cases od with
      | none => exact h
      | some s => exact ⟨List.mem_cons_of_mem _ h.1, h.2⟩

/-- the invariant together with "every snapshot the sender built satisfies `P`" -/
def GoodP (ops : Ops S D) (P : S → Prop) (y : Sys S) : Prop :=
  Good ops y ∧ ∀ p, p ∈ y.sent → P p.2

/-- the newest tick the sender has used after the event -/
def nextLast {S : Type} (last : Option Int) : Ev S → Option Int
  | .send t _ => some t
  | _ => last

/-- One event from a good state: the next state is good, `sent` only grows (by a snapshot with a
newer tick), and the observation passes the C13 verdict. -/
theorem step_safe (laws : LawsOn ops P) {y : Sys S} (hg : GoodP ops P y) {last : Option Int}
    (hlast : ∀ p, p ∈ y.sent → ∃ l, last = some l ∧ p.1 ≤ l) (e : Ev S) (rest : List (Ev S))
    (hs : sendsOk last (e :: rest)) (hPe : ∀ t s, e = .send t s → P s)
    {y' : Sys S} {o : Obs S} (h : y.step ops e = .ok (y', o)) :
    GoodP ops P y' ∧ Obs.ok y'.sent o ∧ (∀ o', Obs.ok y.sent o' → Obs.ok y'.sent o') ∧
      sendsOk (nextLast last e) rest ∧ ∀ p, p ∈ y'.sent → ∃ l, nextLast last e = some l ∧ p.1 ≤ l := by
  cases e with
  | send tick snap =>
    obtain ⟨hi, hgt, hrest⟩ := hs
    simp only [Sys.step] at h
    cases hsend : sendSnap ops y.sender tick snap with
    | panic s => simp [hsend] at h
    | ok r =>
      obtain ⟨st', x, ms⟩ := r
      simp only [hsend, Outcome.ok.injEq, Prod.mk.injEq] at h
      obtain ⟨rfl, rfl⟩ := h
      have hnew : ∀ p, p ∈ y.sent → p.1 < tick := by
        intro p hp
        obtain ⟨l, hl, hle⟩ := hlast p hp
        have := hgt l hl; omega
      have hsP' : ∀ p, p ∈ (tick, snap) :: y.sent → P p.2 := by
        intro p hp
        rcases List.mem_cons.mp hp with rfl | hp'
        · exact hPe _ _ rfl
        · exact hg.2 p hp'
      refine ⟨⟨send_safe laws hg.1 hg.2 (hPe _ _ rfl) hi hnew hsend, hsP'⟩, trivial,
        fun o' ho' => Obs.ok_mono ho' _, hrest, ?_⟩
      intro p hp
      rcases List.mem_cons.mp hp with rfl | hp'
      · exact ⟨_, rfl, Int.le_refl _⟩
      · exact ⟨_, rfl, Int.le_of_lt (hnew p hp')⟩
  | deliver i =>
    simp only [Sys.step] at h
    cases hm : y.msgs[i]? with
    | none =>
      simp only [hm, Outcome.ok.injEq, Prod.mk.injEq] at h
      obtain ⟨rfl, rfl⟩ := h
      exact ⟨hg, trivial, fun _ h => h, hs, hlast⟩
    | some m =>
      simp only [hm, Outcome.ok.injEq, Prod.mk.injEq] at h
      obtain ⟨rfl, rfl⟩ := h
      obtain ⟨g, ob⟩ := deliver_safe laws hg.1 hg.2 (List.mem_of_getElem? hm)
      exact ⟨⟨g, hg.2⟩, ob, fun _ h => h, hs, hlast⟩
  | ack =>
    simp only [Sys.step, Outcome.ok.injEq, Prod.mk.injEq] at h
    obtain ⟨rfl, rfl⟩ := h
    exact ⟨⟨{ hg.1 with }, hg.2⟩, trivial, fun _ h => h, hs, hlast⟩
  | deliverAck j =>
    simp only [Sys.step] at h
    cases hv : y.acks[j]? with
    | none =>
      simp only [hv, Outcome.ok.injEq, Prod.mk.injEq] at h
      obtain ⟨rfl, rfl⟩ := h
      exact ⟨hg, trivial, fun _ h => h, hs, hlast⟩
    | some v =>
      simp only [hv, Outcome.ok.injEq, Prod.mk.injEq] at h
      obtain ⟨rfl, rfl⟩ := h
      exact ⟨⟨setDeltaTick_safe hg.1 v, hg.2⟩, trivial, fun _ h => h, hs, hlast⟩
  | forgedAck v =>
    simp only [Sys.step, Outcome.ok.injEq, Prod.mk.injEq] at h
    obtain ⟨rfl, rfl⟩ := h
    exact ⟨⟨setDeltaTick_safe hg.1 v, hg.2⟩, trivial, fun _ h => h, hs, hlast⟩
  | clientReset =>
    simp only [Sys.step, Outcome.ok.injEq, Prod.mk.injEq] at h
    obtain ⟨rfl, rfl⟩ := h
    exact ⟨⟨reset_safe hg.1, hg.2⟩, trivial, fun _ h => h, hs, hlast⟩

theorem run_safe (laws : LawsOn ops P) : ∀ (evs : List (Ev S)) (y : Sys S) (last : Option Int),
    GoodP ops P y → (∀ p, p ∈ y.sent → ∃ l, last = some l ∧ p.1 ≤ l) → sendsOk last evs →
    (∀ e, e ∈ evs → ∀ t s, e = .send t s → P s) →
    ∀ y' obs, Sys.run ops y evs = .ok (y', obs) →
      GoodP ops P y' ∧ (∀ o, o ∈ obs → Obs.ok y'.sent o) ∧ (∀ o', Obs.ok y.sent o' → Obs.ok y'.sent o') := by
  intro evs
  induction evs with
  | nil =>
    intro y last hg _ _ _ y' obs h
    simp only [Sys.run, Outcome.ok.injEq, Prod.mk.injEq] at h
    obtain ⟨rfl, rfl⟩ := h
    exact ⟨hg, fun o ho => by simp at ho, fun _ h => h⟩
  | cons e rest ih =>
    intro y last hg hlast hs hPevs y' obs h
    simp only [Sys.run] at h
    cases hstep : y.step ops e with
    | panic s => simp [hstep] at h
    | ok r1 =>
      obtain ⟨y1, o1⟩ := r1
      simp only [hstep] at h
      cases hrun : Sys.run ops y1 rest with
      | panic s => simp [hrun] at h
      | ok r2 =>
        obtain ⟨y2, os⟩ := r2
        simp only [hrun, Outcome.ok.injEq, Prod.mk.injEq] at h
        obtain ⟨rfl, rfl⟩ := h
        obtain ⟨g1, ob1, mono1, hs', hlast'⟩ :=
          step_safe laws hg hlast e rest hs (hPevs e List.mem_cons_self) hstep
        obtain ⟨g2, obs2, mono2⟩ := ih y1 (nextLast last e) g1 hlast' hs'
          (fun e' he' => hPevs e' (List.mem_cons_of_mem _ he')) y2 os hrun
        refine ⟨g2, ?_, fun o' h => mono2 o' (mono1 o' h)⟩
        intro o ho
        rcases List.mem_cons.mp ho with rfl | ho'
        · exact mono2 _ ob1
        · exact obs2 o ho'

/-! ### histories with the builder and the free list (`SysB`) -/

theorem ObsB.ok_of_mono {sent sent' : List (Int × S)}
    (mono : ∀ o', Obs.ok sent o' → Obs.ok sent' o') {o : ObsB S} (h : ObsB.ok sent o) : ObsB.ok sent' o := by
  cases o with
  | obs o => exact mono o h
  | builderError e => trivial

/-- the invariant of `SysB`: `GoodP` and every snapshot on the free list satisfies `P` -/
def GoodB (ops : Ops S D) (P : S → Prop) (y : SysB S) : Prop :=
  GoodP ops P y.sys ∧ ∀ s, s ∈ y.free → P s

/-- the builder keeps `P`: what it makes from a seed with `P` has `P` (for this event's items) -/
def BuildKeeps {I : Type} (b : BuildOps S I) (P : S → Prop) : EvB S I → Prop
  | .sendItems _ items => ∀ seed s, P seed → b.build seed items = .ok (.ok s) → P s
  | .other (.send _ s) => P s
  | .other _ => True

theorem stepB_safe {I : Type} (laws : LawsOn ops P) (b : BuildOps S I) (hdef : P b.default)
    {y : SysB S} (hg : GoodB ops P y)
    {last : Option Int} (hlast : ∀ p, p ∈ y.sys.sent → ∃ l, last = some l ∧ p.1 ≤ l)
    (e : EvB S I) (rest : List (EvB S I)) (hs : sendsOkB last (e :: rest)) (hbk : BuildKeeps b P e)
    {y' : SysB S} {o : ObsB S} (h : y.step ops b e = .ok (y', o)) :
    GoodB ops P y' ∧ ObsB.ok y'.sys.sent o ∧ (∀ o', Obs.ok y.sys.sent o' → Obs.ok y'.sys.sent o') ∧
      ∃ last', sendsOkB last' rest ∧ ∀ p, p ∈ y'.sys.sent → ∃ l, last' = some l ∧ p.1 ≤ l := by
  obtain ⟨hgp, hfree⟩ := hg
  have hdrop : ∀ s, s ∈ y.free.dropLast → P s := fun s hs => hfree s (List.dropLast_subset _ hs)
  -- a send of a ready-made snapshot, shared by the two send cases
  have send_case : ∀ (tick : Int) (snap : S) (sys' : Sys S) (o' : Obs S),
      P snap → inI32 tick → (∀ l, last = some l → l < tick) →
      y.sys.step ops (.send tick snap) = .ok (sys', o') →
      GoodP ops P sys' ∧ Obs.ok sys'.sent o' ∧ (∀ o'', Obs.ok y.sys.sent o'' → Obs.ok sys'.sent o'') ∧
        ∀ p, p ∈ sys'.sent → ∃ l, some tick = some l ∧ p.1 ≤ l := by
    intro tick snap sys' o' hPs hi hgt hstep
    obtain ⟨g, ob, mono, _, hb⟩ := step_safe laws hgp hlast (.send tick snap) [] ⟨hi, hgt, trivial⟩
      (fun t s he => by injection he with _ h2; subst h2; exact hPs) hstep
    exact ⟨g, ob, mono, hb⟩
  -- the seed of `new_builder()` satisfies `P`
  have hseed : P (y.seed b) := by
    unfold SysB.seed
    cases hh : y.sys.sender.snaps.head? with
    | some n =>
      have hn : n ∈ y.sys.sender.snaps := by
        cases hl : y.sys.sender.snaps with
        | nil => rw [hl] at hh; cases hh
        | cons x r => rw [hl] at hh; simp at hh; subst hh; exact List.mem_cons_self
      exact hgp.2 _ (hgp.1.senderStored n hn)
    | none =>
      simp only
      cases hl : y.free.getLast? with
      | none => exact hdef
      | some s => exact hfree s (List.mem_of_getLast? hl)
  cases e with
  | sendItems tick items =>
    obtain ⟨hi, hgt, hrest⟩ := hs
    simp only [SysB.step] at h
    cases hb : b.build (y.seed b) items with
    | panic s => simp [hb] at h
    | ok r =>
      cases r with
      | error e =>
        simp only [hb, Outcome.ok.injEq, Prod.mk.injEq] at h
        obtain ⟨rfl, rfl⟩ := h
        refine ⟨⟨hgp, hdrop⟩, trivial, fun _ h => h, some tick, hrest, ?_⟩
        intro p hp
        obtain ⟨l, hl, hle⟩ := hlast p hp
        have := hgt l hl
        exact ⟨tick, rfl, by omega⟩
      | ok snap =>
        simp only [hb] at h
        cases hstep : y.sys.step ops (.send tick snap) with
        | panic s => simp [hstep] at h
        | ok r2 =>
          obtain ⟨sys', o'⟩ := r2
          simp only [hstep, Outcome.ok.injEq, Prod.mk.injEq] at h
          obtain ⟨rfl, rfl⟩ := h
          obtain ⟨g, ob, mono, hb'⟩ := send_case tick snap sys' o' (hbk _ _ hseed hb) hi hgt hstep
          exact ⟨⟨g, hdrop⟩, ob, mono, some tick, hrest, hb'⟩
  | other e =>
    simp only [SysB.step] at h
    cases hstep : y.sys.step ops e with
    | panic s => simp [hstep] at h
    | ok r2 =>
      obtain ⟨sys', o'⟩ := r2
      simp only [hstep, Outcome.ok.injEq, Prod.mk.injEq] at h
      obtain ⟨rfl, rfl⟩ := h
      -- what an acknowledgement drains goes to the free list; it was stored, hence sent
      have hdr : ∀ v s, s ∈ y.sys.sender.drainedBy v → P s := by
        intro v s hs
        unfold Storage.drainedBy at hs
        by_cases hv : v < 0
        · simp [hv] at hs
        · simp only [hv, if_false] at hs
          obtain ⟨x, hx, rfl⟩ := List.mem_map.mp hs
          exact hgp.2 _ (hgp.1.senderStored x (List.mem_of_mem_drop hx))
      cases e with
      | send tick snap =>
        obtain ⟨hi, hgt, hrest⟩ := hs
        obtain ⟨g, ob, mono, hb'⟩ := send_case tick snap sys' o' hbk hi hgt hstep
        refine ⟨⟨g, ?_⟩, ob, mono, some tick, hrest, hb'⟩
        intro s hs; exact hfree s (by simpa using hs)
      | deliver i =>
        obtain ⟨g, ob, mono, _, hb'⟩ := step_safe laws hgp hlast (.deliver i) [] trivial
          (fun t s he => by cases he) hstep
        refine ⟨⟨g, ?_⟩, ob, mono, last, hs, hb'⟩
        intro s hs; exact hfree s (by simpa using hs)
      | ack =>
        obtain ⟨g, ob, mono, _, hb'⟩ := step_safe laws hgp hlast .ack [] trivial
          (fun t s he => by cases he) hstep
        refine ⟨⟨g, ?_⟩, ob, mono, last, hs, hb'⟩
        intro s hs; exact hfree s (by simpa using hs)
      | deliverAck j =>
        obtain ⟨g, ob, mono, _, hb'⟩ := step_safe laws hgp hlast (.deliverAck j) [] trivial
          (fun t s he => by cases he) hstep
        refine ⟨⟨g, ?_⟩, ob, mono, last, hs, hb'⟩
        intro s hs
        rcases List.mem_append.mp hs with h1 | h1
        · exact hfree s h1
        · cases hv : y.sys.acks[j]? with
          | none => simp [hv] at h1
          | some v => simp only [hv] at h1; exact hdr v s h1
      | forgedAck v =>
        obtain ⟨g, ob, mono, _, hb'⟩ := step_safe laws hgp hlast (.forgedAck v) [] trivial
          (fun t s he => by cases he) hstep
        refine ⟨⟨g, ?_⟩, ob, mono, last, hs, hb'⟩
        intro s hs
        rcases List.mem_append.mp hs with h1 | h1
        · exact hfree s h1
        · exact hdr v s h1
      | clientReset =>
        obtain ⟨g, ob, mono, _, hb'⟩ := step_safe laws hgp hlast .clientReset [] trivial
          (fun t s he => by cases he) hstep
        refine ⟨⟨g, ?_⟩, ob, mono, last, hs, hb'⟩
        intro s hs; exact hfree s (by simpa using hs)

theorem runB_safe {I : Type} (laws : LawsOn ops P) (b : BuildOps S I) (hdef : P b.default) :
    ∀ (evs : List (EvB S I)) (y : SysB S) (last : Option Int),
    GoodB ops P y → (∀ p, p ∈ y.sys.sent → ∃ l, last = some l ∧ p.1 ≤ l) → sendsOkB last evs →
    (∀ e, e ∈ evs → BuildKeeps b P e) →
    ∀ y' obs, SysB.run ops b y evs = .ok (y', obs) →
      GoodB ops P y' ∧ (∀ o, o ∈ obs → ObsB.ok y'.sys.sent o) ∧
        (∀ o', Obs.ok y.sys.sent o' → Obs.ok y'.sys.sent o') := by
  intro evs
  induction evs with
  | nil =>
    intro y last hg _ _ _ y' obs h
    simp only [SysB.run, Outcome.ok.injEq, Prod.mk.injEq] at h
    obtain ⟨rfl, rfl⟩ := h
    exact ⟨hg, fun o ho => by simp at ho, fun _ h => h⟩
  | cons e rest ih =>
    intro y last hg hlast hs hbk y' obs h
    simp only [SysB.run] at h
    cases hstep : y.step ops b e with
    | panic s => simp [hstep] at h
    | ok r1 =>
      obtain ⟨y1, o1⟩ := r1
      simp only [hstep] at h
      cases hrun : SysB.run ops b y1 rest with
      | panic s => simp [hrun] at h
      | ok r2 =>
        obtain ⟨y2, os⟩ := r2
        simp only [hrun, Outcome.ok.injEq, Prod.mk.injEq] at h
        obtain ⟨rfl, rfl⟩ := h
        obtain ⟨g1, ob1, mono1, last', hs', hlast'⟩ :=
          stepB_safe laws b hdef hg hlast e rest hs (hbk e List.mem_cons_self) hstep
        obtain ⟨g2, obs2, mono2⟩ := ih y1 last' g1 hlast' hs'
          (fun e' he' => hbk e' (List.mem_cons_of_mem _ he')) y2 os hrun
        refine ⟨g2, ?_, fun o' h => mono2 o' (mono1 o' h)⟩
        intro o ho
        rcases List.mem_cons.mp ho with rfl | ho'
        · exact ObsB.ok_of_mono mono2 ob1
        · exact obs2 o ho'

theorem goodB_init (laws : LawsOn ops P) : GoodB ops P ({} : SysB S) :=
  ⟨⟨good_init, by intro p hp; cases hp⟩, by intro s hs; cases hs⟩

end Tw.SnapMgr
