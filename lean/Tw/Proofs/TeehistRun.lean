import Tw.Proofs.TeehistParse

/-! The buffered reader (`parseLoop`, `Reader.read`, `runItems`) computes the reference semantics
(`interp ∘ parseAll`) for every read schedule. -/
namespace Tw.Teehistorian
open Tw.Packer

/-! ### The refill loop -/

/-- `Vec` invariant: `len ≤ capacity`. -/
def Buffer.wf (b : Buffer) : Prop := b.len ≤ b.cap

/-- The bytes the reader has not consumed yet: buffered ones, then those the callback still holds. -/
def logical (b : Buffer) (c : Cb) : List UInt8 := b.unread ++ c.rem

theorem bufferSize_pos : 0 < Gen.Teehistorian.BUFFER_SIZE := by decide

theorem makeRoom_unread (b : Buffer) : b.makeRoom.unread = b.unread := by
  unfold Buffer.makeRoom; split
  · rfl
  · split <;> rfl

theorem makeRoom_space (b : Buffer) (h : b.wf) : b.makeRoom.len < b.makeRoom.cap := by
  unfold Buffer.wf at h
  unfold Buffer.makeRoom
  split
  · omega
  · rename_i heq
    have heq : b.len = b.cap := by omega
    split
    · rename_i ho
      simp only [Buffer.len] at heq ⊢
      omega
    · simp only [Buffer.len] at heq ⊢
      have := bufferSize_pos
      by_cases hlt : b.offset + b.unread.length < Gen.Teehistorian.BUFFER_SIZE <;>
        simp only [hlt, if_true, if_false] <;> omega

theorem readMore_eof {b : Buffer} {c : Cb} (h : readMore b c = .eof) : c.rem = [] := by
  unfold readMore Cb.read at h
  cases hds : c.ds with
  | cons e ds' =>
    rw [hds] at h
    cases e with
    | fail => simp at h
    | size d =>
      simp only at h
      by_cases hc : c.strictEof = true ∧ d ≠ 0 ∧ c.rem.isEmpty = true
      · cases hrem : c.rem with
        | nil => rfl
        | cons x xs => rw [hrem] at hc; simp at hc
      · simp only [hc, if_false] at h
        simp at h
  | nil =>
    rw [hds] at h
    simp only at h
    cases hrem : c.rem with
    | nil => rfl
    | cons x xs => rw [hrem] at h; simp at h

theorem readMore_more {b b' : Buffer} {c c' : Cb} (hw : b.wf) (h : readMore b c = .more b' c') :
    logical b' c' = logical b c ∧ b'.wf ∧ c'.measure < c.measure ∧ (c.noFail → c'.noFail) := by
  have hsp := makeRoom_space b hw
  have hun := makeRoom_unread b
  unfold readMore Cb.read at h
  cases hds : c.ds with
  | cons e ds' =>
    rw [hds] at h
    cases e with
    | fail => simp at h
    | size d =>
      simp only at h
      by_cases hc : c.strictEof = true ∧ d ≠ 0 ∧ c.rem.isEmpty = true
      · simp [hc] at h
      · simp only [hc, if_false, More.more.injEq] at h
        obtain ⟨rfl, rfl⟩ := h
        refine ⟨?_, ?_, ?_, ?_⟩
        · simp only [logical, hun, List.append_assoc, List.take_append_drop]
        · simp only [Buffer.wf, Buffer.len, List.length_append, List.length_take] at hsp ⊢
          omega
        · simp only [Cb.measure, hds, List.length_cons, List.length_drop]; omega
        · intro hnf
          simp only [Cb.noFail, hds, List.mem_cons, not_or] at hnf ⊢
          exact hnf.2
  | nil =>
    rw [hds] at h
    simp only at h
    cases hrem : c.rem with
    | nil => rw [hrem] at h; simp at h
    | cons x xs =>
      rw [hrem] at h
      simp only [List.isEmpty_cons, Bool.false_eq_true, if_false, More.more.injEq] at h
      obtain ⟨rfl, rfl⟩ := h
      refine ⟨?_, ?_, ?_, ?_⟩
      · simp only [logical, hun, hrem, List.append_assoc, List.take_append_drop]
      · simp only [Buffer.wf, Buffer.len, List.length_append, List.length_take] at hsp ⊢
        omega
      · simp only [Cb.measure, hrem, List.length_drop, List.length_cons, List.length_nil, Buffer.len] at hsp ⊢
        omega
      · intro _; simp [Cb.noFail]

theorem readMore_fail {b : Buffer} {c : Cb} (h : readMore b c = .fail) : ¬ c.noFail := by
  unfold readMore Cb.read at h
  cases hds : c.ds with
  | cons e ds' =>
    rw [hds] at h
    cases e with
    | fail => simp [Cb.noFail, hds]
    | size d =>
      simp only at h
      by_cases hc : c.strictEof = true ∧ d ≠ 0 ∧ c.rem.isEmpty = true
      · simp [hc] at h
      · simp only [hc, if_false] at h; simp at h
  | nil =>
    rw [hds] at h
    simp only at h
    cases hrem : c.rem with
    | nil => rw [hrem] at h; simp at h
    | cons x xs => rw [hrem] at h; simp at h

/-- The refill loop returns what the parser returns on the *whole* remaining stream, whatever the
read schedule; on success the remaining stream is exactly the parser's rest.  The only other
possibility is that the callback fails. -/
theorem parseLoop_spec {α : Type} {p : Parser α} (hp : Good p) :
    ∀ (fuel : Nat) (b : Buffer) (c : Cb), b.wf → c.measure < fuel →
      parseLoop p fuel b c = .cbErr ∨
      ((∀ x rest, p (logical b c) = .ok x rest →
        ∃ b' c', parseLoop p fuel b c = .ok x b' c' ∧ logical b' c' = rest ∧ b'.wf) ∧
      (∀ e, p (logical b c) = .err e → parseLoop p fuel b c = .err (.item e)) ∧
      (p (logical b c) = .needMore → parseLoop p fuel b c = .err .unexpectedEnd)) := by
  intro fuel
  induction fuel with
  | zero => intro b c _ h; omega
  | succ fuel ih =>
    intro b c hw hm
    unfold parseLoop
    cases hpu : p b.unread with
    | ok x r =>
      have hext := ((hp b.unread).1 x r hpu).2 c.rem
      obtain ⟨pre, hpre⟩ := ((hp b.unread).1 x r hpu).1
      refine Or.inr ⟨?_, ?_, ?_⟩
      · intro x' rest' h
        unfold logical at h
        rw [hext] at h
        simp only [PR.ok.injEq] at h
        obtain ⟨rfl, rfl⟩ := h
        refine ⟨_, _, rfl, rfl, ?_⟩
        simp only [Buffer.wf, Buffer.len] at hw ⊢
        rw [hpre] at hw ⊢
        simp only [List.length_append] at hw ⊢
        omega
      · intro e h; unfold logical at h; rw [hext] at h; simp at h
      · intro h; unfold logical at h; rw [hext] at h; simp at h
    | err e =>
      have hext := (hp b.unread).2 e hpu c.rem
      refine Or.inr ⟨?_, ?_, ?_⟩
      · intro x' rest' h; unfold logical at h; rw [hext] at h; simp at h
      · intro e' h
        unfold logical at h; rw [hext] at h
        simp only [PR.err.injEq] at h
        simp [h]
      · intro h; unfold logical at h; rw [hext] at h; simp at h
    | needMore =>
      simp only
      cases hrm : readMore b c with
      | fail => exact Or.inl rfl
      | eof =>
        have hr := readMore_eof hrm
        have hl : logical b c = b.unread := by simp [logical, hr]
        refine Or.inr ⟨?_, ?_, ?_⟩
        · intro x rest h; rw [hl, hpu] at h; simp at h
        · intro e h; rw [hl, hpu] at h; simp at h
        · intro _; rfl
      | more b' c' =>
        obtain ⟨hl, hw', hm', _⟩ := readMore_more hw hrm
        simp only
        rw [← hl]
        exact ih b' c' hw' (by omega)

/-- A callback that never fails: the loop does not end in a callback error, and the callback it
hands back never fails either. -/
theorem parseLoop_noFail {α : Type} (p : Parser α) :
    ∀ (fuel : Nat) (b : Buffer) (c : Cb), b.wf → c.noFail →
      parseLoop p fuel b c ≠ .cbErr ∧ ∀ x b' c', parseLoop p fuel b c = .ok x b' c' → c'.noFail := by
  intro fuel
  induction fuel with
  | zero => intro b c _ _; simp [parseLoop]
  | succ fuel ih =>
    intro b c hw hnf
    unfold parseLoop
    cases hpu : p b.unread with
    | ok x r =>
      refine ⟨by simp, ?_⟩
      intro x' b' c' h
      simp only [LoopRes.ok.injEq] at h
      rw [← h.2.2]; exact hnf
    | err e => simp
    | needMore =>
      simp only
      cases hrm : readMore b c with
      | fail => exact absurd hnf (readMore_fail hrm)
      | eof => simp
      | more b1 c1 =>
        obtain ⟨_, hw', _, hnf'⟩ := readMore_more hw hrm
        exact ih b1 c1 hw' (hnf' hnf)

/-! ### Records of a stream: independence of the fuel -/

theorem parseRest_finish (s : List UInt8) : parseRest .finish s = .ok .finish s := rfl

theorem parseAll_fuel (hasEx : Bool) : ∀ (f1 f2 : Nat) (s : List UInt8), s.length < f1 → s.length < f2 →
    parseAll hasEx f1 s = parseAll hasEx f2 s := by
  intro f1
  induction f1 with
  | zero => intro f2 s h; omega
  | succ f1 ih =>
    intro f2 s h1 h2
    cases f2 with
    | zero => omega
    | succ f2 =>
      unfold parseAll
      cases hk : parseKind hasEx s with
      | needMore => rfl
      | err e => rfl
      | ok k rest =>
        have hlt := parseKind_consumes hk
        simp only
        cases hr : parseRest k rest with
        | needMore => rfl
        | err e => rfl
        | ok it rest' =>
          have hle := (good_parseRest k).rest_le hr
          simp only
          split
          · rfl
          · rw [ih f2 rest' (by omega) (by omega)]

/-- The records of a stream, with the canonical fuel. -/
def recsOf (hasEx : Bool) (s : List UInt8) : List Rec × Tail := parseAll hasEx (s.length + 1) s

/-- The records of a stream whose first item id has been read already. -/
def recsAfter (hasEx : Bool) (k : Kind) (s : List UInt8) : List Rec × Tail :=
  parseAfterKind hasEx (s.length + 1) k s

theorem recsOf_needMore {hasEx : Bool} {s : List UInt8} (h : parseKind hasEx s = .needMore) :
    recsOf hasEx s = ([], .kindEnd) := by
  unfold recsOf parseAll; rw [h]

theorem recsOf_err {hasEx : Bool} {s : List UInt8} {e : ItemErr} (h : parseKind hasEx s = .err e) :
    recsOf hasEx s = ([], .kindErr e) := by
  unfold recsOf parseAll; rw [h]

theorem recsOf_ok {hasEx : Bool} {s rest : List UInt8} {k : Kind} (h : parseKind hasEx s = .ok k rest) :
    recsOf hasEx s = recsAfter hasEx k rest := by
  have hlt := parseKind_consumes h
  unfold recsOf recsAfter parseAll parseAfterKind
  rw [h]
  simp only
  cases hr : parseRest k rest with
  | needMore => rfl
  | err e => rfl
  | ok it rest' =>
    have hle := (good_parseRest k).rest_le hr
    simp only
    split
    · rfl
    · rw [parseAll_fuel hasEx s.length (rest.length + 1) rest' (by omega) (by omega)]

theorem recsAfter_needMore {hasEx : Bool} {k : Kind} {s : List UInt8} (h : parseRest k s = .needMore) :
    recsAfter hasEx k s = ([], .restEnd k) := by
  unfold recsAfter parseAfterKind; rw [h]

theorem recsAfter_err {hasEx : Bool} {k : Kind} {s : List UInt8} {e : ItemErr} (h : parseRest k s = .err e) :
    recsAfter hasEx k s = ([], .restErr k e) := by
  unfold recsAfter parseAfterKind; rw [h]

theorem recsAfter_ok {hasEx : Bool} {k : Kind} {s rest : List UInt8} {it : FItem}
    (h : parseRest k s = .ok it rest) :
    ∃ rs t, recsAfter hasEx k s = (⟨k, it⟩ :: rs, t) ∧ (k ≠ .finish → (rs, t) = recsOf hasEx rest) := by
  have hle := (good_parseRest k).rest_le h
  unfold recsAfter parseAfterKind
  rw [h]
  simp only
  by_cases hk : k = .finish
  · simp only [hk, if_true]
    exact ⟨[], .afterFinish, rfl, fun hne => absurd rfl hne⟩
  · simp only [hk, if_false]
    refine ⟨_, _, rfl, fun _ => ?_⟩
    unfold recsOf
    rw [parseAll_fuel hasEx (s.length + 1) (rest.length + 1) rest (by omega) (by omega)]

theorem parseAll_length (hasEx : Bool) : ∀ (f : Nat) (s : List UInt8), (parseAll hasEx f s).1.length ≤ s.length := by
  intro f
  induction f with
  | zero => intro s; simp [parseAll]
  | succ f ih =>
    intro s
    unfold parseAll
    cases hk : parseKind hasEx s with
    | needMore => simp
    | err e => simp
    | ok k rest =>
      have hlt := parseKind_consumes hk
      simp only
      cases hr : parseRest k rest with
      | needMore => simp
      | err e => simp
      | ok it rest' =>
        have hle := (good_parseRest k).rest_le hr
        simp only
        split
        · simp; omega
        · have := ih rest'
          simp only [List.length_cons]; omega

/-! ### The reader at the level of records -/

/-- `Reader.pre`/`Reader.post` never look at `nextKind`. -/
def Reader.norm (rd : Reader) : Reader := { rd with nextKind := none }

inductive VK where
  | kind (k : Kind)
  | fail (e : Err)
  | fuel

/-- The item id the next `read` call works on. -/
def viewKind : List Rec × Tail → VK
  | (r :: _, _) => .kind r.kind
  | ([], .restEnd k) => .kind k
  | ([], .restErr k _) => .kind k
  | ([], .kindEnd) => .fail .unexpectedEnd
  | ([], .kindErr e) => .fail (.item e)
  | ([], .afterFinish) => .fuel
  | ([], .outOfFuel) => .fuel

inductive RecRes where
  | item (it : Item) (rd : Reader) (v : List Rec × Tail)
  | finished (rd : Reader)
  | err (e : Err) (rd : Reader)
  | outOfFuel

/-- One `Reader::read` call on a stream given as records. -/
def recRead (_cfg : Cfg) (rd : Reader) (v : List Rec × Tail) : RecRes :=
  match viewKind v with
  | .fail e => .err e rd.norm
  | .fuel => .outOfFuel
  | .kind k =>
    match rd.norm.pre k with
    | .emit it rd' => .item it rd' v
    | .err e => .err e rd.norm
    | .proceed =>
      match v with
      | (r :: rs, t) =>
        match rd.norm.post r.item with
        | .item it rd' => .item it rd' (rs, t)
        | .finished rd' => .finished rd'
        | .err e rd' => .err e rd'
      | ([], .restErr _ e) => .err (.item e) rd.norm
      | ([], _) => .err .unexpectedEnd rd.norm

def recRun (cfg : Cfg) : Nat → Reader → List Rec × Tail → Output
  | 0, rd, _ => ⟨[], .outOfFuel, rd.access⟩
  | fuel + 1, rd, v =>
    match recRead cfg rd v with
    | .item it rd' v' => (recRun cfg fuel rd' v').cons it
    | .finished rd' => ⟨[], .finished, rd'.access⟩
    | .err e rd' => ⟨[], .err e, rd'.access⟩
    | .outOfFuel => ⟨[], .outOfFuel, rd.access⟩

/-- The records the reader is going to see, given its look-ahead. -/
def viewOf (hasEx : Bool) (rd : Reader) (s : List UInt8) : List Rec × Tail :=
  match rd.nextKind with
  | none => recsOf hasEx s
  | some k => recsAfter hasEx k s

theorem viewKind_recsAfter (hasEx : Bool) (k : Kind) (s : List UInt8) :
    viewKind (recsAfter hasEx k s) = .kind k := by
  cases hr : parseRest k s with
  | needMore => rw [recsAfter_needMore hr]; rfl
  | err e => rw [recsAfter_err hr]; rfl
  | ok it rest =>
    obtain ⟨rs, t, h, _⟩ := recsAfter_ok (hasEx := hasEx) hr
    rw [h]; rfl

theorem pre_emit_nextKind {rd rd' : Reader} {k : Kind} {it : Item} (h : rd.pre k = .emit it rd') :
    rd'.nextKind = some k := by
  unfold Reader.pre at h
  split at h
  · simp only [Pre.emit.injEq] at h; obtain ⟨_, rfl⟩ := h; rfl
  · split at h
    · split at h
      · split at h
        · simp at h
        · simp only [Pre.emit.injEq] at h; obtain ⟨_, rfl⟩ := h; rfl
      · simp at h
    · split at h
      · simp only [Pre.emit.injEq] at h; obtain ⟨_, rfl⟩ := h; rfl
      · simp at h

theorem post_nextKind {rd : Reader} {fit : FItem} :
    (∀ it rd', rd.post fit = .item it rd' → rd'.nextKind = rd.nextKind) := by
  intro it rd' h
  unfold Reader.post at h
  cases fit <;> simp only at h <;> (repeat' split at h) <;>
    first
      | (simp at h; done)
      | (simp only [Post.item.injEq] at h; obtain ⟨_, rfl⟩ := h; rfl)

theorem cidsEnd_norm (rd : Reader) : rd.norm.access = rd.access := rfl

/-- `readWithKind` and the record-level step agree — unless the callback fails. -/
theorem readWithKind_lockstep (cfg : Cfg) (rd : Reader) (k : Kind) (b : Buffer) (c : Cb) (hw : b.wf)
    (hn : rd.nextKind = none) :
    let v := recsAfter cfg.hasEx k (logical b c)
    Reader.readWithKind cfg rd k b c = .cbErr rd ∨
    match Reader.readWithKind cfg rd k b c, recRead cfg rd v with
    | .item it rd' b' c', .item it2 rd2 v' =>
        it = it2 ∧ rd' = rd2 ∧ b'.wf ∧ v' = viewOf cfg.hasEx rd' (logical b' c') ∧ (c.noFail → c'.noFail)
    | .finished rd', .finished rd2 => rd' = rd2
    | .err e rd', .err e2 rd2 => e = e2 ∧ rd' = rd2
    | _, _ => False := by
  intro v
  have hnorm : rd.norm = rd := by cases rd; simp only [Reader.norm]; simp at hn; simp [hn]
  have hvk : viewKind v = .kind k := viewKind_recsAfter _ _ _
  unfold Reader.readWithKind recRead
  rw [hvk, hnorm]
  simp only
  cases hpre : rd.pre k with
  | emit it rd' =>
    right
    simp only
    refine ⟨by trivial, by trivial, hw, ?_, fun h => h⟩
    unfold viewOf
    rw [pre_emit_nextKind hpre]
  | err e => right; simp
  | proceed =>
    simp only
    have hnf := parseLoop_noFail (parseRest k) (c.measure + 1) b c hw
    rcases parseLoop_spec (good_parseRest k) (c.measure + 1) b c hw (by omega) with hcb | ⟨hok, herr, hnm⟩
    · left; rw [hcb]
    · right
      cases hr : parseRest k (logical b c) with
      | needMore =>
        rw [hnm hr]
        have hv : v = ([], .restEnd k) := recsAfter_needMore hr
        rw [hv]; simp
      | err e =>
        rw [herr e hr]
        have hv : v = ([], .restErr k e) := recsAfter_err hr
        rw [hv]; simp
      | ok fit rest =>
        obtain ⟨b', c', hpl, hl', hw'⟩ := hok fit rest hr
        rw [hpl]
        obtain ⟨rs, t, hv, hrest⟩ := recsAfter_ok (hasEx := cfg.hasEx) hr
        have hv' : v = (⟨k, fit⟩ :: rs, t) := hv
        rw [hv']
        simp only
        cases hpost : rd.post fit with
        | item it rd' =>
          simp only
          refine ⟨by trivial, by trivial, hw', ?_, fun h => (hnf h).2 _ _ _ hpl⟩
          have hnk : rd'.nextKind = none := by rw [post_nextKind it rd' hpost, hn]
          unfold viewOf
          rw [hnk, hl']
          simp only
          apply hrest
          intro hk
          subst hk
          have : fit = .finish := by
            have := parseRest_finish (logical b c)
            rw [this] at hr; simp only [PR.ok.injEq] at hr; exact hr.1.symm
          subst this
          simp [Reader.post] at hpost
        | finished rd' => simp
        | err e rd' => simp

theorem recRead_norm (cfg : Cfg) (rd : Reader) (v : List Rec × Tail) :
    recRead cfg rd.norm v = recRead cfg rd v := rfl

theorem Output.cons_items (it : Item) (o : Output) : (o.cons it).items = it :: o.items := rfl
theorem Output.cons_final (it : Item) (o : Output) : (o.cons it).final = o.final := rfl

/-- The buffered reader and the record-level reader produce the same output, call by call — or
the callback fails, and then the items read so far are a prefix. -/
theorem runItems_vs_recRun (cfg : Cfg) : ∀ (F : Nat) (rd : Reader) (b : Buffer) (c : Cb), b.wf →
    runItems cfg F rd b c = recRun cfg F rd (viewOf cfg.hasEx rd (logical b c)) ∨
    ((runItems cfg F rd b c).final = .cbErr ∧ ¬ c.noFail ∧
      (runItems cfg F rd b c).items <+: (recRun cfg F rd (viewOf cfg.hasEx rd (logical b c))).items) := by
  intro F
  induction F with
  | zero => intro rd b c _; left; rfl
  | succ F ih =>
    intro rd b c hw
    -- both sides, from the point where the item kind is known
    have key : ∀ (k : Kind) (b1 : Buffer) (c1 : Cb), b1.wf → (c.noFail → c1.noFail) →
        recsAfter cfg.hasEx k (logical b1 c1) = viewOf cfg.hasEx rd (logical b c) →
        Reader.read cfg rd b c = Reader.readWithKind cfg rd.norm k b1 c1 →
        runItems cfg (F + 1) rd b c = recRun cfg (F + 1) rd (viewOf cfg.hasEx rd (logical b c)) ∨
        ((runItems cfg (F + 1) rd b c).final = .cbErr ∧ ¬ c.noFail ∧
          (runItems cfg (F + 1) rd b c).items <+: (recRun cfg (F + 1) rd (viewOf cfg.hasEx rd (logical b c))).items) := by
      intro k b1 c1 hw1 hnf1 hv hread
      have hfail := parseLoop_noFail (parseRest k) (c1.measure + 1) b1 c1 hw1
      unfold runItems recRun
      rw [hread]
      rcases readWithKind_lockstep cfg rd.norm k b1 c1 hw1 rfl with hcb | hls
      · -- the callback failed while the item was being read
        right
        rw [hcb]
        refine ⟨rfl, ?_, List.nil_prefix⟩
        intro hnf
        -- a callback that never fails cannot make `readWithKind` fail
        unfold Reader.readWithKind at hcb
        cases hpre : rd.norm.pre k with
        | emit it rd' => rw [hpre] at hcb; simp at hcb
        | err e => rw [hpre] at hcb; simp at hcb
        | proceed =>
          rw [hpre] at hcb
          simp only at hcb
          cases hpl : parseLoop (parseRest k) (c1.measure + 1) b1 c1 with
          | cbErr => exact (hfail (hnf1 hnf)).1 hpl
          | err e => rw [hpl] at hcb; simp at hcb
          | outOfFuel => rw [hpl] at hcb; simp at hcb
          | ok fit b2 c2 =>
            rw [hpl] at hcb
            simp only at hcb
            cases hpost : rd.norm.post fit <;> rw [hpost] at hcb <;> simp at hcb
      · rw [hv, recRead_norm] at hls
        cases h1 : Reader.readWithKind cfg rd.norm k b1 c1 <;>
          cases h2 : recRead cfg rd (viewOf cfg.hasEx rd (logical b c)) <;>
          rw [h1, h2] at hls <;> simp only at hls
        · obtain ⟨rfl, rfl, hw', rfl, hnf'⟩ := hls
          simp only
          rcases ih _ _ _ hw' with heq | ⟨hf, hnn, hpre⟩
          · left
            rw [heq]
          · right
            refine ⟨by rw [Output.cons_final]; exact hf, fun hnf => hnn (hnf' (hnf1 hnf)), ?_⟩
            simp only [Output.cons_items]
            exact (List.prefix_cons_inj _).mpr hpre
        · subst hls; left; rfl
        · obtain ⟨rfl, rfl⟩ := hls; left; rfl
    cases hnk : rd.nextKind with
    | some k =>
      have hv : recsAfter cfg.hasEx k (logical b c) = viewOf cfg.hasEx rd (logical b c) := by
        unfold viewOf; rw [hnk]
      exact key k b c hw (fun h => h) hv (by unfold Reader.read; rw [hnk]; rfl)
    | none =>
      have hvo : viewOf cfg.hasEx rd (logical b c) = recsOf cfg.hasEx (logical b c) := by
        unfold viewOf; rw [hnk]
      have hnf0 := parseLoop_noFail (parseKind cfg.hasEx) (c.measure + 1) b c hw
      rcases parseLoop_spec (good_parseKind cfg.hasEx) (c.measure + 1) b c hw (by omega) with hcb | ⟨hok, herr, hnm⟩
      · right
        unfold runItems Reader.read
        rw [hnk]
        simp only [hcb]
        exact ⟨by trivial, fun hnf => (hnf0 hnf).1 hcb, List.nil_prefix⟩
      · cases hk : parseKind cfg.hasEx (logical b c) with
        | needMore =>
          left
          unfold runItems recRun Reader.read
          rw [hnk]
          simp only [hnm hk]
          rw [hvo, recsOf_needMore hk]
          rfl
        | err e =>
          left
          unfold runItems recRun Reader.read
          rw [hnk]
          simp only [herr e hk]
          rw [hvo, recsOf_err hk]
          rfl
        | ok k rest =>
          obtain ⟨b', c', hpl, hl', hw'⟩ := hok k rest hk
          have hv : recsAfter cfg.hasEx k (logical b' c') = viewOf cfg.hasEx rd (logical b c) := by
            rw [hvo, recsOf_ok hk, hl']
          exact key k b' c' hw' (fun h => (hnf0 h).2 _ _ _ hpl) hv (by
            unfold Reader.read; rw [hnk]; simp only [hpl]; rfl)

/-- With a callback that never fails the two agree exactly. -/
theorem runItems_eq_recRun (cfg : Cfg) (F : Nat) (rd : Reader) (b : Buffer) (c : Cb) (hw : b.wf)
    (hnf : c.noFail) :
    runItems cfg F rd b c = recRun cfg F rd (viewOf cfg.hasEx rd (logical b c)) := by
  rcases runItems_vs_recRun cfg F rd b c hw with h | ⟨_, hn, _⟩
  · exact h
  · exact absurd hnf hn

end Tw.Teehistorian
