import Tw.Proofs.ConnFairH7
import Tw.Proofs.ConnRole7

/-!
# 0.7: from a reachable world with one connecting side to a quiescent one

The composed statement for the shapes the handshake passes through (`open_progress7_x`), then the
reachable-world invariants that show that no other shape occurs when exactly one side has called
`connect` and nobody has disconnected.
-/
namespace Tw.NetSim.P7
open Tw.Conn Tw.Conn7 Tw.Time Tw.NetSim

/-- the conclusion: at most six rounds of the fair suffix end with `a` online and told `Ready`,
everything handed over and acknowledged, all queues empty -/
def Opened (draws : List Nat) (w : World proto7) : Prop :=
  ∃ k, k ≤ 6 ∧ ∃ s', fairRoundsT draws () k (FairState.start w) = some s' ∧ s'.w.quiescentH ∧
    (∃ o t c s, s'.w.a.conn = ⟨.online o t c, s⟩) ∧ Event.ready ∈ s'.w.a.events

theorem opened_of_fh (draws : List Nat) {w : World proto7} {j : Nat} (hj : j ≤ 2) {s1 : FairState proto7}
    {ownA ownB : Nat} {La : List (DgH × Nat)}
    (e1 : fairRoundsT draws () j (FairState.start w) = some s1)
    (hF : OnlineFH gface7 ((ownA, ownB), true) ((ownB, ownA), false) s1 La) (hr : Event.ready ∈ s1.w.a.events) :
    Opened draws w := by
  obtain ⟨s', La', e4, hq, hF'⟩ := fair_progressH gface7 Conn7.cfg_ok sim7 loct7 draws () hF
  refine ⟨j + 4, by omega, s', ?_, hq, ?_, ?_⟩
  · exact fairRoundsT_then e1 e4
  · obtain ⟨o, _, h2⟩ := hF'.on.ca
    obtain ⟨s, hs⟩ := h2 rfl
    exact ⟨ownA, ownB, o, s, hs⟩
  · obtain ⟨ev, hev⟩ := fairRoundsT_events 4 e4 .a
    have : s'.w.a.events = s1.w.a.events ++ ev := hev
    rw [this]; exact List.mem_append_left _ hr

/-- the shapes the handshake passes through, with matching tokens -/
inductive Shape (w : World proto7) : Prop where
  | tok (ownA : Nat) (sa : Timeout) (ha : w.a.conn = ⟨.token ownA, sa⟩) (hA : ownA ≠ TOKEN_NONE)
      (hb : (∃ sb, w.b.conn = ⟨.unconnected, sb⟩) ∨
        (∃ ownB sb, w.b.conn = ⟨.pendingConnect ownB, sb⟩ ∧ ownB ≠ TOKEN_NONE))
  | cng (ownA ownB : Nat) (sa : Timeout) (ha : w.a.conn = ⟨.connecting ownA ownB, sa⟩) (hA : ownA ≠ TOKEN_NONE)
      (hb : (∃ sb, w.b.conn = ⟨.pendingConnect ownB, sb⟩) ∨ (∃ sb, w.b.conn = ⟨.pending ownB ownA, sb⟩))
  | onl (ownA ownB : Nat) (c : Online) (sa : Timeout) (ha : w.a.conn = ⟨.online ownA ownB c, sa⟩)
      (hr : Event.ready ∈ w.a.events)
      (hb : (∃ sb, w.b.conn = ⟨.pending ownB ownA, sb⟩) ∨ (∃ cb sb, w.b.conn = ⟨.online ownB ownA cb, sb⟩))

theorem opened_of_shape (draws : List Nat) (nt : Nat) (hnt : tokenRandom draws = some nt) (w : World proto7)
    (hW : WInv proto7 core Conn7.cfg w) (hT : TInv Timed w) (h : Shape w) : Opened draws w := by
  cases h with
  | tok ownA sa ha hA hb =>
    obtain ⟨s1, ownB, sa', pre, d, e1, hW1, hT1, ha1, hb1, hcb1, hout1, hpre1, hfresh1, hev1⟩ :=
      token_round7 draws nt hnt w ownA hA hW hT sa ha hb
    obtain ⟨s2, e2, hF, hrd⟩ := connect_round7 draws s1 ownA ownB hA hW1 hT1 sa' ha1 (Or.inl hb1) hcb1 pre _ hout1 hpre1
      (by intro sn hsn; simp at hsn; subst hsn; exact ⟨rfl, rfl, hfresh1⟩)
    exact opened_of_fh draws (j := 2) (by omega) (fairRoundsT_two e1 e2) hF hrd
  | cng ownA ownB sa ha hA hb =>
    obtain ⟨s2, e2, hF, hrd⟩ := connect_round7 draws (FairState.start w) ownA ownB hA hW hT sa ha hb rfl w.a.out []
      (by simp [FairState.start]) rfl (by simp)
    exact opened_of_fh draws (j := 1) (by omega) (fairRoundsT_one e2) hF hrd
  | onl ownA ownB c sa ha hr hb =>
    have hWH : OnlineWH gface7 ((ownA, ownB), true) ((ownB, ownA), false) w := by
      refine ⟨hW, hT, ⟨c, Or.inl ⟨_, ha⟩, fun _ => ⟨_, ha⟩⟩, ?_, rfl, rfl⟩
      rcases hb with ⟨sb, hb⟩ | ⟨cb, sb, hb⟩
      · exact ⟨.new, Or.inr ⟨rfl, _, hb⟩, fun h => by cases h⟩
      · exact ⟨cb, Or.inl ⟨_, hb⟩, fun h => by cases h⟩
    exact opened_of_fh draws (j := 0) (by omega) rfl (OnlineFH.start hWH) hr

/-- in a world reached by a schedule in which `a` has called `connect` and `b` has not, with nobody
disconnected, the two connections are in one of the handshake's shapes, with matching tokens -/
theorem shape_of_reachable (sched : List (Move proto7)) (w : World proto7)
    (hrun : NetSim.run (World.init proto7) sched = some w)
    (hca : connects .a sched = true) (hcb : connects .b sched = false)
    (hda : w.a.conn.state ≠ .disconnected) (hdb : w.b.conn.state ≠ .disconnected) : Shape w := by
  have hg := agree7_run sched _ w agree7_init hrun
  have hj := j_run sched false false _ w j_init hrun
  rw [hca, hcb] at hj
  obtain ⟨ra1, ra2, ra3⟩ := hj.ra rfl
  obtain ⟨rb1, rb2⟩ := hj.rb rfl
  have x1 := hj.x1
  have x3 := hj.x3
  have eta_a : w.a.conn = ⟨w.a.conn.state, w.a.conn.send⟩ := rfl
  have eta_b : w.b.conn = ⟨w.b.conn.state, w.b.conn.send⟩ := rfl
  cases hsa : w.a.conn.state with
  | unconnected => rw [hsa] at ra1; simp [tag] at ra1
  | pendingConnect o => rw [hsa] at ra1; simp [tag] at ra1
  | pending o t => rw [hsa] at ra1; simp [tag] at ra1
  | disconnected => exact absurd hsa hda
  | token ownA =>
    have hA : ownA ≠ TOKEN_NONE := hj.oa ownA (by rw [hsa]; rfl)
    have ta : tag w.a.conn.state = 1 := by rw [hsa]; rfl
    rw [hsa] at eta_a
    cases hsb : w.b.conn.state with
    | unconnected => rw [hsb] at eta_b; exact .tok ownA _ eta_a hA (Or.inl ⟨_, eta_b⟩)
    | pendingConnect ownB =>
      rw [hsb] at eta_b
      exact .tok ownA _ eta_a hA (Or.inr ⟨ownB, _, eta_b, hj.ob ownB (by rw [hsb]; rfl)⟩)
    | token o => rw [hsb] at rb1; simp [tag] at rb1
    | connecting o t => rw [hsb] at rb1; simp [tag] at rb1
    | pending o t => have := x1 (by rw [hsb]; rfl); omega
    | online o t c => have := rb2 (by rw [hsb]; rfl); omega
    | disconnected => exact absurd hsb hdb
  | connecting ownA tB =>
    have hA : ownA ≠ TOKEN_NONE := hj.oa ownA (by rw [hsa]; rfl)
    have ta : tag w.a.conn.state = 2 := by rw [hsa]; rfl
    rw [hsa] at eta_a
    cases hsb : w.b.conn.state with
    | unconnected => exact absurd (by rw [hsb]; rfl) (x3 ta)
    | pendingConnect ownB =>
      have e : tB = ownB := hg.1.agree hg.2 (by rw [hsa]; rfl) (by rw [hsb]; rfl)
      subst e
      rw [hsb] at eta_b
      exact .cng ownA tB _ eta_a hA (Or.inl ⟨_, eta_b⟩)
    | pending ownB tA =>
      have e : tB = ownB := hg.1.agree hg.2 (by rw [hsa]; rfl) (by rw [hsb]; rfl)
      have e' : tA = ownA := hg.2.agree hg.1 (by rw [hsb]; rfl) (by rw [hsa]; rfl)
      subst e e'
      rw [hsb] at eta_b
      exact .cng tA tB _ eta_a hA (Or.inr ⟨_, eta_b⟩)
    | token o => rw [hsb] at rb1; simp [tag] at rb1
    | connecting o t => rw [hsb] at rb1; simp [tag] at rb1
    | online o t c => have := rb2 (by rw [hsb]; rfl); omega
    | disconnected => exact absurd hsb hdb
  | online ownA tB c =>
    have ta : tag w.a.conn.state = 5 := by rw [hsa]; rfl
    have hr := ra2 ta
    have hb := ra3 ta
    rw [hsa] at eta_a
    cases hsb : w.b.conn.state with
    | pending ownB tA =>
      have e : tB = ownB := hg.1.agree hg.2 (by rw [hsa]; rfl) (by rw [hsb]; rfl)
      have e' : tA = ownA := hg.2.agree hg.1 (by rw [hsb]; rfl) (by rw [hsa]; rfl)
      subst e e'
      rw [hsb] at eta_b
      exact .onl tA tB c _ eta_a hr (Or.inl ⟨_, eta_b⟩)
    | online ownB tA cb =>
      have e : tB = ownB := hg.1.agree hg.2 (by rw [hsa]; rfl) (by rw [hsb]; rfl)
      have e' : tA = ownA := hg.2.agree hg.1 (by rw [hsb]; rfl) (by rw [hsa]; rfl)
      subst e e'
      rw [hsb] at eta_b
      exact .onl tA tB c _ eta_a hr (Or.inr ⟨_, _, eta_b⟩)
    | unconnected => rw [hsb] at hb; simp [tag] at hb
    | pendingConnect o => rw [hsb] at hb; simp [tag] at hb
    | token o => rw [hsb] at hb; simp [tag] at hb
    | connecting o t => rw [hsb] at hb; simp [tag] at hb
    | disconnected => exact absurd hsb hdb

/-- **C02 (c), 0.7, handshake included, from every reachable world with one connecting side**: in
every world reachable by an admissible schedule from `World.init` in which `a` has called `connect`,
`b` has not, and neither is disconnected, at most six rounds of the fair suffix (ticks at the
reported deadlines, every datagram delivered; `b` can draw a token from `draws`) end with `a` online
and told `Ready`, everything handed over and acknowledged on both sides, and all queues empty.  No
exclusion for D23 (`PendingConnect` has no timer) is needed: the connector retransmits. -/
theorem open_progress7 (draws : List Nat) (nt : Nat) (hnt : tokenRandom draws = some nt)
    (sched : List (Move proto7)) (w : World proto7)
    (hadm : admissible (World.init proto7) sched = true)
    (hrun : NetSim.run (World.init proto7) sched = some w)
    (hca : connects .a sched = true) (hcb : connects .b sched = false)
    (hda : w.a.conn.state ≠ .disconnected) (hdb : w.b.conn.state ≠ .disconnected) :
    ∃ k, k ≤ 6 ∧ ∃ s', fairRoundsT draws () k (FairState.start w) = some s' ∧ s'.w.quiescentH ∧
      (∃ o t c s, s'.w.a.conn = ⟨.online o t c, s⟩) ∧ Event.ready ∈ s'.w.a.events :=
  opened_of_shape draws nt hnt w (run_inv sim7 sched _ w (init_inv sim7) hadm hrun)
    (run_loct loct7 sched _ w (init_loct loct7) hrun) (shape_of_reachable sched w hrun hca hcb hda hdb)

/-- **the connector is told `Ready` (0.7)**: in a world reached by a schedule in which `a` has called
`connect`, if `a` is online it has `Ready` among its events, and `b` is pending or online -/
theorem ready_of_connector7 (sched : List (Move proto7)) (w : World proto7)
    (hrun : NetSim.run (World.init proto7) sched = some w) (hca : connects .a sched = true)
    {o t : Nat} {c : Online} (h : w.a.conn.state = .online o t c) :
    Event.ready ∈ w.a.events ∧ (tag w.b.conn.state = 4 ∨ tag w.b.conn.state = 5 ∨ tag w.b.conn.state = 6) := by
  have hj := j_run sched false false _ w j_init hrun
  rw [hca] at hj
  obtain ⟨_, ra2, ra3⟩ := hj.ra rfl
  have ta : tag w.a.conn.state = 5 := by rw [h]; rfl
  exact ⟨ra2 ta, ra3 ta⟩

/-- **`Ready` exactly once (0.7)**: a connector that is online has been told `Ready` exactly once -/
theorem ready_exactly_once7 (sched : List (Move proto7)) (w : World proto7)
    (hrun : NetSim.run (World.init proto7) sched = some w) (hca : connects .a sched = true)
    {o t : Nat} {c : Online} (h : w.a.conn.state = .online o t c) : readyCount w.a.events = 1 := by
  have hm := (ready_of_connector7 sched w hrun hca h).1
  have hne := readyCount_pos_of_mem hm
  have hh := run_hs hs7 sched _ w init_hs hrun
  rcases hh.1.1 with h0 | ⟨h, _⟩
  · exact absurd h0 hne
  · exact h

/-! non-vacuity: (1) `a` has just called `connect`, `b` is untouched: six rounds, `a` online and told
`Ready` once, `b` pending (0.7 acceptors, too, go online with the first chunk packet); (2) `a` is
online with an unflushed vital chunk, `b` still pending: four rounds, both online, chunk delivered;
(3) `b` answered the token request but its answer was lost (the D23 situation): `a` retransmits. -/
def exA : List (Move proto7) := [.call .a [5] .connect]
def exB : List (Move proto7) :=
  [.call .a [5] .connect, .deliver .b 0 [9] (), .deliver .a 0 [] (), .deliver .b 1 [] (), .deliver .a 1 [] (),
    .call .a [] (.send [7] true)]
def exC : List (Move proto7) := [.call .a [5] .connect, .deliver .b 0 [9] ()]

example : admissible (World.init proto7) exA = true ∧ admissible (World.init proto7) exB = true ∧
    admissible (World.init proto7) exC = true := by decide +kernel
example : (connects .a exA, connects .b exA, connects .a exB, connects .b exB, connects .a exC, connects .b exC) =
    (true, false, true, false, true, false) := by decide +kernel
example : ((NetSim.run (World.init proto7) exA).map fun w => (tag w.a.conn.state, tag w.b.conn.state)) = some (1, 0) := by
  decide +kernel
example : (((NetSim.run (World.init proto7) exA).bind fun w =>
    fairRoundsT (P := proto7) [9] () 6 (FairState.start w)).map fun s =>
    (tag s.w.a.conn.state, readyCount s.w.a.events, tag s.w.b.conn.state)) = some (5, 1, 4) := by decide +kernel
example : ((NetSim.run (World.init proto7) exB).map fun w =>
    (tag w.a.conn.state, tag w.b.conn.state, w.settled)) = some (5, 4, false) := by decide +kernel
example : (((NetSim.run (World.init proto7) exB).bind fun w =>
    fairRoundsT (P := proto7) [] () 4 (FairState.start w)).map fun s =>
    (s.w.settled, readyCount s.w.a.events, s.w.b.deliveredVital)) = some (true, 1, [[7]]) := by decide +kernel
example : ((NetSim.run (World.init proto7) exC).map fun w => (tag w.a.conn.state, tag w.b.conn.state)) = some (1, 3) := by
  decide +kernel
example : (((NetSim.run (World.init proto7) exC).bind fun w =>
    fairRoundsT (P := proto7) [] () 6 (FairState.start w)).map fun s =>
    (tag s.w.a.conn.state, readyCount s.w.a.events, tag s.w.b.conn.state)) = some (5, 1, 4) := by decide +kernel

end Tw.NetSim.P7
