import Tw.Proofs.ConnFairH7

/-!
# 0.7: from a reachable world with one connecting side to a quiescent one

The composed statement for the shapes the handshake passes through (`open_progress7_x`), then the
reachable-world invariants that show that no other shape occurs when exactly one side has called
`connect` and nobody has disconnected.
-/
namespace Tw.NetSim.P7
open Tw.Conn Tw.Conn7 Tw.Time Tw.NetSim

/-- the conclusion: at most six rounds of the fair suffix end with `a` online and told `Ready`,
everything handed over and acknowledged, all queues empty -/
def Opened (draws : List Nat) (w : World proto7) : Prop :=
  ∃ k, k ≤ 6 ∧ ∃ s', fairRoundsT draws () k (FairState.start w) = some s' ∧ s'.w.quiescentH ∧
    (∃ o t c s, s'.w.a.conn = ⟨.online o t c, s⟩) ∧ Event.ready ∈ s'.w.a.events

theorem opened_of_fh (draws : List Nat) {w : World proto7} {j : Nat} (hj : j ≤ 2) {s1 : FairState proto7}
    {ownA ownB : Nat} {La : List (DgH × Nat)}
    (e1 : fairRoundsT draws () j (FairState.start w) = some s1)
    (hF : OnlineFH gface7 ((ownA, ownB), true) ((ownB, ownA), false) s1 La) (hr : Event.ready ∈ s1.w.a.events) :
    Opened draws w := by
  obtain ⟨s', La', e4, hq, hF'⟩ := fair_progressH gface7 Conn7.cfg_ok sim7 loct7 draws () hF
  refine ⟨j + 4, by omega, s', ?_, hq, ?_, ?_⟩
  · exact fairRoundsT_then e1 e4
  · obtain ⟨o, _, h2⟩ := hF'.on.ca
    obtain ⟨s, hs⟩ := h2 rfl
    exact ⟨ownA, ownB, o, s, hs⟩
  · obtain ⟨ev, hev⟩ := fairRoundsT_events 4 e4 .a
    have : s'.w.a.events = s1.w.a.events ++ ev := hev
    rw [this]; exact List.mem_append_left _ hr

/-- the shapes the handshake passes through, with matching tokens -/
inductive Shape (w : World proto7) : Prop where
  | tok (ownA : Nat) (sa : Timeout) (ha : w.a.conn = ⟨.token ownA, sa⟩) (hA : ownA ≠ TOKEN_NONE)
      (hb : (∃ sb, w.b.conn = ⟨.unconnected, sb⟩) ∨
        (∃ ownB sb, w.b.conn = ⟨.pendingConnect ownB, sb⟩ ∧ ownB ≠ TOKEN_NONE))
  | cng (ownA ownB : Nat) (sa : Timeout) (ha : w.a.conn = ⟨.connecting ownA ownB, sa⟩) (hA : ownA ≠ TOKEN_NONE)
      (hb : (∃ sb, w.b.conn = ⟨.pendingConnect ownB, sb⟩) ∨ (∃ sb, w.b.conn = ⟨.pending ownB ownA, sb⟩))
  | onl (ownA ownB : Nat) (c : Online) (sa : Timeout) (ha : w.a.conn = ⟨.online ownA ownB c, sa⟩)
      (hr : Event.ready ∈ w.a.events)
      (hb : (∃ sb, w.b.conn = ⟨.pending ownB ownA, sb⟩) ∨ (∃ cb sb, w.b.conn = ⟨.online ownB ownA cb, sb⟩))

theorem opened_of_shape (draws : List Nat) (nt : Nat) (hnt : tokenRandom draws = some nt) (w : World proto7)
    (hW : WInv proto7 core Conn7.cfg w) (hT : TInv Timed w) (h : Shape w) : Opened draws w := by
  cases h with
  | tok ownA sa ha hA hb =>
    obtain ⟨s1, ownB, sa', pre, d, e1, hW1, hT1, ha1, hb1, hcb1, hout1, hpre1, hfresh1, hev1⟩ :=
      token_round7 draws nt hnt w ownA hA hW hT sa ha hb
    obtain ⟨s2, e2, hF, hrd⟩ := connect_round7 draws s1 ownA ownB hA hW1 hT1 sa' ha1 (Or.inl hb1) hcb1 pre _ hout1 hpre1
      (by intro sn hsn; simp at hsn; subst hsn; exact ⟨rfl, rfl, hfresh1⟩)
    exact opened_of_fh draws (j := 2) (by omega) (fairRoundsT_two e1 e2) hF hrd
  | cng ownA ownB sa ha hA hb =>
    obtain ⟨s2, e2, hF, hrd⟩ := connect_round7 draws (FairState.start w) ownA ownB hA hW hT sa ha hb rfl w.a.out []
      (by simp [FairState.start]) rfl (by simp)
    exact opened_of_fh draws (j := 1) (by omega) (fairRoundsT_one e2) hF hrd
  | onl ownA ownB c sa ha hr hb =>
    have hWH : OnlineWH gface7 ((ownA, ownB), true) ((ownB, ownA), false) w := by
      refine ⟨hW, hT, ⟨c, Or.inl ⟨_, ha⟩, fun _ => ⟨_, ha⟩⟩, ?_, rfl, rfl⟩
      rcases hb with ⟨sb, hb⟩ | ⟨cb, sb, hb⟩
      · exact ⟨.new, Or.inr ⟨rfl, _, hb⟩, fun h => by cases h⟩
      · exact ⟨cb, Or.inl ⟨_, hb⟩, fun h => by cases h⟩
    exact opened_of_fh draws (j := 0) (by omega) rfl (OnlineFH.start hWH) hr

end Tw.NetSim.P7
