import Tw.Model.Snap

/-! Sorted association lists: `minsert` / `mfind` / `Sorted` (model of `BTreeMap<i32, _>`). -/
namespace Tw.Snap

variable {α : Type}

theorem sorted_nil : Sorted ([] : List (Int × α)) := by simp [Sorted]

theorem sorted_cons {k : Int} {v : α} {m : List (Int × α)} :
    Sorted ((k, v) :: m) ↔ (∀ p ∈ m, k < p.1) ∧ Sorted m := by
  simp [Sorted, List.pairwise_cons]

theorem mfind_none_of_lt {k : Int} {m : List (Int × α)} (h : ∀ p ∈ m, k < p.1) : mfind k m = none := by
  induction m with
  | nil => rfl
  | cons p r ih =>
    obtain ⟨k', v'⟩ := p
    have h1 : k < k' := h (k', v') (by simp)
    have h2 : k ≠ k' := by omega
    simp [mfind, h2]
    exact ih (fun p hp => h p (by simp [hp]))

theorem mem_of_mfind {k : Int} {v : α} {m : List (Int × α)} (h : mfind k m = some v) : (k, v) ∈ m := by
  induction m with
  | nil => simp [mfind] at h
  | cons p r ih =>
    obtain ⟨k', v'⟩ := p
    by_cases hk : k = k'
    · subst hk
      simp [mfind] at h
      simp [h]
    · simp [mfind, hk] at h
      simp [ih h]

theorem mfind_of_mem {k : Int} {v : α} {m : List (Int × α)} (hs : Sorted m) (h : (k, v) ∈ m) :
    mfind k m = some v := by
  induction m with
  | nil => simp at h
  | cons p r ih =>
    obtain ⟨k', v'⟩ := p
    rw [sorted_cons] at hs
    simp at h
    rcases h with h | h
    · obtain ⟨rfl, rfl⟩ := h
      simp [mfind]
    · have := hs.1 (k, v) h
      have hk : k ≠ k' := by simp at this; omega
      simp [mfind, hk]
      exact ih hs.2 h

theorem mfind_isSome_iff_mem_keys {k : Int} {m : List (Int × α)} :
    (mfind k m).isSome ↔ k ∈ m.map Prod.fst := by
  induction m with
  | nil => simp [mfind]
  | cons p r ih =>
    obtain ⟨k', v'⟩ := p
    by_cases hk : k = k'
    · simp [mfind, hk]
    · simp [mfind, hk, ih]

theorem mfind_eq_none_iff {k : Int} {m : List (Int × α)} :
    mfind k m = none ↔ k ∉ m.map Prod.fst := by
  rw [← mfind_isSome_iff_mem_keys]
  cases mfind k m <;> simp

theorem mfind_minsert (k k' : Int) (v : α) (m : List (Int × α)) :
    mfind k' (minsert k v m) = if k' = k then some v else mfind k' m := by
  induction m with
  | nil => simp [minsert, mfind]
  | cons p r ih =>
    obtain ⟨k2, v2⟩ := p
    simp only [minsert]
    split
    · simp [mfind]
    · split
      · subst_vars
        simp only [mfind]
        split <;> simp_all
      · rename_i h1 h2
        simp only [mfind, ih]
        by_cases e1 : k' = k2
        · subst e1
          have : ¬ k' = k := fun e => h2 e.symm
          simp [this]
        · simp [e1]

theorem mem_minsert {k : Int} {v : α} {m : List (Int × α)} {p : Int × α} (h : p ∈ minsert k v m) :
    p = (k, v) ∨ p ∈ m := by
  induction m with
  | nil => simp [minsert] at h; simp [h]
  | cons q r ih =>
    obtain ⟨k2, v2⟩ := q
    simp only [minsert] at h
    split at h
    · simp at h; rcases h with h | h | h <;> simp [h]
    · split at h
      · simp at h; rcases h with h | h <;> simp [h]
      · simp at h
        rcases h with h | h
        · simp [h]
        · rcases ih h with h | h <;> simp [h]

theorem sorted_minsert {k : Int} {v : α} {m : List (Int × α)} (hs : Sorted m) : Sorted (minsert k v m) := by
  induction m with
  | nil => simp [minsert, Sorted]
  | cons q r ih =>
    obtain ⟨k2, v2⟩ := q
    rw [sorted_cons] at hs
    simp only [minsert]
    split
    · rw [sorted_cons, sorted_cons]
      refine ⟨?_, hs⟩
      intro p hp
      simp at hp
      rcases hp with rfl | hp
      · assumption
      · have := hs.1 p hp; omega
    · split
      · subst_vars
        rw [sorted_cons]; exact hs
      · rw [sorted_cons]
        refine ⟨?_, ih hs.2⟩
        intro p hp
        rcases mem_minsert hp with rfl | hp
        · simp; omega
        · exact hs.1 p hp

/-- Two sorted maps with the same lookups are equal. -/
theorem sorted_ext {m1 m2 : List (Int × α)} (h1 : Sorted m1) (h2 : Sorted m2)
    (h : ∀ k, mfind k m1 = mfind k m2) : m1 = m2 := by
  induction m1 generalizing m2 with
  | nil =>
    cases m2 with
    | nil => rfl
    | cons q r =>
      have := h q.1
      simp [mfind] at this
  | cons p r1 ih =>
    obtain ⟨k1, v1⟩ := p
    cases m2 with
    | nil =>
      have := h k1
      simp [mfind] at this
    | cons q r2 =>
      obtain ⟨k2, v2⟩ := q
      rw [sorted_cons] at h1 h2
      have ha := h k1
      have hb := h k2
      simp only [mfind] at ha hb
      have hk : k1 = k2 := by
        by_cases hk : k1 = k2
        · exact hk
        · exfalso
          have hk' : ¬ k2 = k1 := fun e => hk e.symm
          simp [hk, hk'] at ha hb
          have m1 := mem_of_mfind ha.symm
          have m2 := mem_of_mfind hb
          have := h2.1 _ m1
          have := h1.1 _ m2
          simp at *
          omega
      subst hk
      simp at ha
      subst ha
      congr 1
      apply ih h1.2 h2.2
      intro k
      by_cases hk : k = k1
      · subst hk
        rw [mfind_none_of_lt h1.1, mfind_none_of_lt h2.1]
      · have := h k
        simpa [mfind, hk] using this

theorem length_minsert_of_none {k : Int} {v : α} {m : List (Int × α)} (h : mfind k m = none) :
    (minsert k v m).length = m.length + 1 := by
  induction m with
  | nil => simp [minsert]
  | cons q r ih =>
    obtain ⟨k2, v2⟩ := q
    have hk : k ≠ k2 := by intro e; simp [mfind, e] at h
    simp [mfind, hk] at h
    simp only [minsert]
    split
    · simp
    · simp [ih h]

theorem dataLen_cons (k : Int) (d : List Int) (m : Items) : dataLen ((k, d) :: m) = d.length + dataLen m := by
  simp [dataLen]

theorem dataLen_minsert_of_none {k : Int} {v : List Int} {m : Items} (h : mfind k m = none) :
    dataLen (minsert k v m) = dataLen m + v.length := by
  induction m with
  | nil => simp [minsert, dataLen]
  | cons q r ih =>
    obtain ⟨k2, v2⟩ := q
    have hk : k ≠ k2 := by intro e; simp [mfind, e] at h
    simp [mfind, hk] at h
    simp only [minsert]
    split
    · simp [dataLen_cons]; omega
    · simp [dataLen_cons, ih h]; omega

/-- `m1` is a sub-map of `m2` up to the lengths of the values. -/
def SubLen (m1 m2 : Items) : Prop :=
  ∀ k v, mfind k m1 = some v → ∃ v', mfind k m2 = some v' ∧ v.length = v'.length

theorem subLen_bounds {m1 m2 : Items} (h1 : Sorted m1) (h2 : Sorted m2) (h : SubLen m1 m2) :
    m1.length ≤ m2.length ∧ dataLen m1 ≤ dataLen m2 := by
  induction m2 generalizing m1 with
  | nil =>
    cases m1 with
    | nil => simp
    | cons p r =>
      obtain ⟨v', hv, _⟩ := h p.1 p.2 (by simp [mfind])
      simp [mfind] at hv
  | cons q r2 ih =>
    obtain ⟨k2, v2⟩ := q
    rw [sorted_cons] at h2
    cases m1 with
    | nil => simp [dataLen]
    | cons p r1 =>
      obtain ⟨k1, v1⟩ := p
      rw [sorted_cons] at h1
      by_cases hk : k1 = k2
      · subst hk
        -- heads agree: compare the tails
        have hsub : SubLen r1 r2 := by
          intro k v hv
          have hmem := mem_of_mfind hv
          have hlt := h1.1 _ hmem
          have hne : k ≠ k1 := by simp at hlt; omega
          obtain ⟨v', hv', hl⟩ := h k v (by simp [mfind, hne, hv])
          simp [mfind, hne] at hv'
          exact ⟨v', hv', hl⟩
        obtain ⟨v', hv', hl⟩ := h k1 v1 (by simp [mfind])
        simp [mfind] at hv'
        subst hv'
        have := ih h1.2 h2.2 hsub
        simp [dataLen_cons]
        omega
      · -- the head of `m2` does not occur in `m1`
        have hsub : SubLen ((k1, v1) :: r1) r2 := by
          intro k v hv
          obtain ⟨v', hv', hl⟩ := h k v hv
          have hne : k ≠ k2 := by
            intro e
            subst e
            -- k2 ∈ m1, so k2 ≥ k1; and k1 ∈ m2 so k1 ≥ k2
            obtain ⟨w, hw, _⟩ := h k1 v1 (by simp [mfind])
            simp only [mfind, hk] at hw
            have hm := mem_of_mfind hw
            have hlt := h2.1 _ hm
            have hm1 := mem_of_mfind hv
            simp at hm1
            rcases hm1 with hm1 | hm1
            · exact hk hm1.1.symm
            · have := h1.1 _ hm1
              simp at this hlt
              omega
          simp [mfind, hne] at hv'
          exact ⟨v', hv', hl⟩
        have := ih (m1 := (k1, v1) :: r1) (by rw [sorted_cons]; exact h1) h2.2 hsub
        simp [dataLen_cons] at this ⊢
        omega

end Tw.Snap
