import Tw.Proofs.DemoTotal
import Tw.Proofs.SnapChain

/-! For typed objects (sizes fixed by the type) the high-level writer cannot panic: the builders of
consecutive snapshots form a `Chain` (Proofs/SnapChain.lean), so UUID types keep their numbers and
`Delta::create` sees agreeing sizes; the tick marker is always written with a larger tick; payload
limits are checked before the low-level writer is called. -/
namespace Tw.DemoHl
open Tw.Demo Tw.Snap

/-- objects whose number of fields is the one fixed for their `(type, id)`, ordinal types in range -/
def Typed (size : TypeId → Nat → Nat) (items : List Item) : Prop :=
  ∀ it ∈ items, it.data.length = size it.tid it.id ∧
    ∀ o, it.tid = .ordinal o → 0 < o ∧ o < offsetExt

/-- the object-size table of the protocol agrees with the sizes: it only knows ordinal types in
range and gives their size -/
def ObjSizeAgrees (size : TypeId → Nat → Nat) (objSize : Nat → Option Nat) : Prop :=
  ∀ t n, objSize t = some n → 0 < t ∧ t < offsetExt ∧ ∀ id, size (.ordinal t) id = n

/-- the invariant of the reachable writer states for typed histories -/
structure DemoWriter.Inv3 (size : TypeId → Nat → Nat) (w : DemoWriter) : Prop where
  inv2 : w.Inv2
  chain : ∃ a : Builder, Chain size Builder.new a ∧ a.snap = w.snap
  tick : ∀ p, w.inner.prevTick = some p → p ≤ w.lastTick

theorem new_inv3 (size : TypeId → Nat → Nat) (a : HeaderArgs) (w : DemoWriter) (h : DemoWriter.new a = some w) :
    w.Inv3 size := by
  refine ⟨new_inv2 a w h, ?_, ?_⟩
  all_goals
    unfold DemoWriter.new at h
    match hw : Writer.new a, h with
    | some iw, h =>
      simp only [Option.some.injEq] at h
      subst h
      first
        | exact ⟨Builder.new, Chain.refl _, rfl⟩
        | (intro p hp
           unfold Writer.new at hw
           match he : encodeHeader a, hw with
           | some bs, hw =>
             simp only [Option.some.injEq] at hw
             subst hw
             simp at hp)

theorem chain_trans {size : TypeId → Nat → Nat} {a b c : Builder} (h1 : Chain size a b) (h2 : Chain size b c) :
    Chain size a c := by
  induction h2 with
  | refl => exact h1
  | tail _ hs ih => exact Chain.tail ih hs

/-- the `add_item` loop on typed valid objects: never a panic, and the builders stay on the chain -/
theorem addItems_chain (size : TypeId → Nat → Nat) (items : List Item) (hv : ∀ it ∈ items, it.valid)
    (hty : Typed size items) : ∀ (b0 b : Builder), Chain size b0 b → b.Inv →
      (∃ b', addItems b items = .ok b' ∧ Chain size b0 b') ∨ (∃ e, addItems b items = .err e) := by
  induction items with
  | nil => intro b0 b hc _; exact Or.inl ⟨b, rfl, hc⟩
  | cons it rest ih =>
    intro b0 b hc hb
    obtain ⟨hvt, hid, hd⟩ := hv it (by simp)
    obtain ⟨hlen, hord⟩ := hty it (by simp)
    simp only [addItems]
    cases ha : b.addItem it.tid it.id it.data with
    | none =>
      -- impossible: ordinal in range, next type id in range
      exfalso
      obtain ⟨hnr1, _⟩ := hb.next_range
      cases htid : it.tid with
      | ordinal o =>
        rw [htid] at ha
        have := hord o htid
        simp [Builder.addItem, this] at ha
        cases hadd : b.snap.raw.addItem (keyOf o it.id) it.data <;> simp [hadd] at ha
      | uuid u =>
        rw [htid] at ha
        simp only [Builder.addItem] at ha
        cases hf : mfind u b.snap.ext with
        | some t =>
          simp only [hf] at ha
          cases hadd : b.snap.raw.addItem (keyOf t it.id) it.data <;> simp [hadd] at ha
        | none =>
          simp only [hf, hnr1, not_true_eq_false, if_false] at ha
          split at ha
          · cases ha
          · cases h1 : b.snap.raw.addItem (keyOf typeIdEx b.nextTypeId) (uuidToData u) with
            | error e => simp [h1] at ha
            | ok raw1 =>
              simp only [h1] at ha
              cases h2 : raw1.addItem (keyOf b.nextTypeId it.id) it.data <;> simp [h2] at ha
    | some p =>
      obtain ⟨b1, r⟩ := p
      cases r with
      | some e => exact Or.inr ⟨e, rfl⟩
      | none =>
        simp only
        have hstep : Step size b b1 := Step.add hvt hid hd hlen ha
        exact ih (fun i hi => hv i (by simp [hi])) (fun i hi => hty i (by simp [hi])) b0 b1
          (Chain.tail hc hstep) (Builder.addItem_inv hb hvt hid hd ha)

theorem writeBytes_no_panic {s : RawSnap} (h : s.WF) (cap : Nat) : s.writeBytes cap ≠ .panic := by
  have hw := writeInts_of_WF h
  unfold RawSnap.writeInts at hw
  unfold RawSnap.writeBytes
  split at hw
  · cases hw
  · rename_i h1
    simp only [h1, if_false]
    simp only [] at hw
    split at hw
    · cases hw
    · rename_i h2
      simp only [h2, if_false]
      split <;> simp

theorem sizesOk_of_sized {size : TypeId → Nat → Nat} {objSize : Nat → Option Nat} (ho : ObjSizeAgrees size objSize)
    {s : Snap} (hs : Sized size s) : SizesOk objSize s.raw.items := by
  intro p hp
  unfold szOk
  cases h : objSize (keyType p.1) with
  | none => rfl
  | some n =>
    obtain ⟨h0, h1, hsz⟩ := ho _ _ h
    have := (hs p hp).1 h0 h1
    simp only [beq_iff_eq]
    rw [this, hsz]

theorem writeData_ok_of_fits (w : Writer) (k : DataKind) (bs : Bytes) (h : fitsChunk bs) :
    ∃ w', w.writeData k bs = (w', .ok) ∧ w'.prevTick = w.prevTick := by
  obtain ⟨h1, h2⟩ := h
  obtain ⟨hdr, hh⟩ := data_header_writes k (Tw.Huffman.compress table false bs).length
  have hc1 : (Tw.Huffman.compress table false bs).length ≤ Tw.Gen.Demo.MAX_SNAPSHOT_SIZE := by
    simp [Tw.Gen.Demo.MAX_SNAPSHOT_SIZE]; omega
  have hc2 : ¬ (Tw.Huffman.compress table false bs).length > 65535 := by omega
  have n1 : ¬ bs.length > Tw.Gen.Demo.MAX_SNAPSHOT_SIZE := by omega
  refine ⟨{ w with file := w.file ++ hdr ++ Tw.Huffman.compress table false bs }, ?_, rfl⟩
  unfold Writer.writeData Tw.Huffman.compressInto
  simp only [n1, if_false, hc1, if_true, hc2, hh]

/-- **`write_snap` cannot panic on typed objects**, and an accepted call keeps the invariant. -/
theorem writeSnap_typed (size : TypeId → Nat → Nat) (objSize : Nat → Option Nat) (ho : ObjSizeAgrees size objSize)
    (w : DemoWriter) (hinv : w.Inv3 size) (tick : Int) (items : List Item) (hv : ∀ it ∈ items, it.valid)
    (hty : Typed size items) :
    (∀ s, (w.writeSnap objSize tick items).2 ≠ .panic s) ∧
    ((w.writeSnap objSize tick items).2 = .ok → (w.writeSnap objSize tick items).1.Inv3 size) := by
  obtain ⟨a, hca, hsa⟩ := hinv.chain
  have hb0 := hinv.inv2.inv.builder
  have hcb : Chain size a w.builder := by
    apply Chain.tail (Chain.refl a)
    apply Step.recycle
    rw [hsa]; exact hb0
  unfold DemoWriter.writeSnap
  split
  · exact ⟨by simp, by simp⟩
  · rename_i hlt
    simp only [hb0]
    rcases addItems_chain size items hv hty a w.builder hcb hinv.inv2.inv.binv with ⟨b, hadd, hchain⟩ | ⟨e, hadd⟩
    · simp only [hadd]
      obtain ⟨hai, has, _⟩ := chain_inv hca Builder.new_inv (sized_new size)
      obtain ⟨hbi, hbs, hle⟩ := chain_inv hchain hai has
      have hag : SizesAgree w.snap.raw b.snap.raw := by
        rw [← hsa]; exact sizesAgree_of_sized hai hbi has hbs hle
      -- the payload
      have hpay : ∀ s, snapPayload objSize (w.isKeyframe tick) w.snap b.snap ≠ .panic s := by
        intro s
        unfold snapPayload
        split
        · have := writeBytes_no_panic hbi.ok.raw_wf Tw.Gen.Demo.MAX_SNAPSHOT_SIZE
          cases hwb : b.snap.raw.writeBytes Tw.Gen.Demo.MAX_SNAPSHOT_SIZE with
          | ok bs => simp
          | capacity => simp
          | panic => exact absurd hwb this
        · cases hd : createDelta w.snap.raw b.snap.raw with
          | none => exact absurd hag ((createDelta_eq_none_iff _ _).mp hd)
          | some d =>
            simp only
            obtain ⟨_, hlens⟩ := createDelta_WF hinv.inv2.inv.sok.raw_wf hbi.ok.raw_wf hd
            have hok := sizesOk_of_lens objSize hlens (sizesOk_of_sized ho hbs)
            obtain ⟨u, hu, _⟩ := writeUpdates_of_sizesOk objSize d.updated hok
            simp only [Delta.writeInts, hu]
            split <;> simp
      obtain ⟨b', hrec, hb'inv, _, _⟩ := Builder.recycle_inv hbi
      have hnb : nextBuilder b.snap = some b' := hrec
      cases hp : snapPayload objSize (w.isKeyframe tick) w.snap b.snap with
      | panic s => exact absurd hp (hpay s)
      | tooLarge => simp
      | ok bs =>
        simp only
        split
        · exact ⟨by simp, by simp⟩
        · rename_i hfit
          have hfit' : fitsChunk bs := Decidable.not_not.mp hfit
          obtain ⟨hdr, hwt⟩ := writeTick_accepts w.inner (w.isKeyframe tick) tick
            (fun p hp => by have := hinv.tick p hp; omega)
          obtain ⟨inner2, hwd, hpt⟩ := writeData_ok_of_fits
            { file := w.inner.file ++ hdr, prevTick := some tick }
            (if w.isKeyframe tick then .snapshot else .delta) bs hfit'
          simp only [hwt, hwd, hnb]
          refine ⟨by simp, fun _ => ?_⟩
          refine ⟨⟨⟨hrec, hb'inv, hbi.ok⟩, recycle_clean hbi hrec⟩, ⟨b, chain_trans hca hchain, rfl⟩, ?_⟩
          intro p hp
          simp only at hp
          rw [hpt] at hp
          injection hp with hp
          simp only; omega
    · simp only [hadd]
      exact ⟨by simp, by simp⟩


theorem writeMsg_preserves_inv3 (size : TypeId → Nat → Nat) (w w' : DemoWriter) (msg : Bytes)
    (hinv : w.Inv3 size) (h : w.writeMsg msg = (w', .ok)) : w'.Inv3 size := by
  obtain ⟨hsn, hbu, hlt, _, _⟩ := msg_step huffmanRoundTrip (fun _ => none) w w' msg h
  have hi := writeMsg_preserves_inv w w' msg hinv.inv2.inv h
  refine ⟨⟨hi, by rw [hbu]; exact hinv.inv2.clean⟩, by rw [hsn]; exact hinv.chain, ?_⟩
  -- the tick marker state of the low-level writer is untouched by a message
  unfold DemoWriter.writeMsg at h
  split at h
  · cases h
  · split at h
    · cases h
    split at h
    · cases h
    · rename_i inner' hwm
      cases h
      simp only [Writer.writeMessage] at hwm
      split at hwm
      · cases hwm
      · split at hwm
        · cases hwm
        · obtain ⟨_, _, _, _, hp, _⟩ := writeData_ok huffmanRoundTrip _ _ .message (by decide) _ hwm
          intro p hpp
          simp only at hpp ⊢
          rw [hp] at hpp
          exact hinv.tick p hpp

def Op.typed (size : TypeId → Nat → Nat) : Op → Prop
  | .snap _ items => Typed size items
  | .msg _ => True

/-- **No call of a typed history panics.** -/
theorem run_no_panic (size : TypeId → Nat → Nat) (objSize : Nat → Option Nat) (ho : ObjSizeAgrees size objSize) :
    ∀ (ops : List Op) (w w' : DemoWriter) (rs : List HResult), w.Inv3 size → (∀ op ∈ ops, op.valid) →
      (∀ op ∈ ops, op.typed size) → w.run objSize ops = (w', rs) → ∀ r ∈ rs, ∀ s, r ≠ .panic s := by
  intro ops
  induction ops with
  | nil =>
    intro w w' rs _ _ _ hrun r hr
    simp only [DemoWriter.run, Prod.mk.injEq] at hrun
    rw [← hrun.2] at hr; simp at hr
  | cons op rest ih =>
    intro w w' rs hinv hval hty hrun
    have hvalr : ∀ op ∈ rest, op.valid := fun o ho => hval o (by simp [ho])
    have htyr : ∀ op ∈ rest, op.typed size := fun o ho => hty o (by simp [ho])
    cases op with
    | snap t items =>
      obtain ⟨_, hvi⟩ : Tw.Packer.inI32 t ∧ ∀ it ∈ items, it.valid := hval (.snap t items) (by simp)
      have htyi : Typed size items := hty (.snap t items) (by simp)
      obtain ⟨hnp, hok⟩ := writeSnap_typed size objSize ho w hinv t items hvi htyi
      simp only [DemoWriter.run] at hrun
      cases hws : w.writeSnap objSize t items with
      | mk w1 r =>
        rw [hws] at hnp hok
        cases hrr : DemoWriter.run objSize w1 rest with
        | mk w2 rs' =>
          simp only [hws, hrr, Prod.mk.injEq] at hrun
          obtain ⟨_, h2⟩ := hrun
          subst h2
          have hinv1 : w1.Inv3 size := by
            cases r with
            | ok => exact hok rfl
            | err e =>
              have := writeSnap_err_unchanged objSize w w1 hinv.inv2.inv t items e hws
              rw [this]; exact hinv
            | panic s => exact absurd rfl (hnp s)
          intro r' hr' s
          rcases List.mem_cons.mp hr' with rfl | hr''
          · exact hnp s
          · exact ih w1 w2 rs' hinv1 hvalr htyr hrr r' hr'' s
    | msg bytes =>
      simp only [DemoWriter.run] at hrun
      cases hws : w.writeMsg bytes with
      | mk w1 r =>
        cases hrr : DemoWriter.run objSize w1 rest with
        | mk w2 rs' =>
          simp only [hws, hrr, Prod.mk.injEq] at hrun
          obtain ⟨_, h2⟩ := hrun
          subst h2
          have hnp : ∀ s, r ≠ .panic s := by
            intro s
            have := writeMsg_no_panic w bytes s
            rw [hws] at this; exact this
          have hinv1 : w1.Inv3 size := by
            cases r with
            | ok => exact writeMsg_preserves_inv3 size w w1 bytes hinv hws
            | err e =>
              have := writeMsg_err_unchanged w w1 bytes e hws
              rw [this]; exact hinv
            | panic s => exact absurd rfl (hnp s)
          intro r' hr' s
          rcases List.mem_cons.mp hr' with rfl | hr''
          · exact hnp s
          · exact ih w1 w2 rs' hinv1 hvalr htyr hrr r' hr'' s

/-- **The typed-level round trip for typed objects, without a no-panic hypothesis.** -/
theorem typed_roundtrip_no_panic (size : TypeId → Nat → Nat) (objSize : Nat → Option Nat)
    (ho : ObjSizeAgrees size objSize) (a : HeaderArgs) (w0 w : DemoWriter) (ops : List Op)
    (rs : List HResult) (ha : a.wf) (hnew : DemoWriter.new a = some w0) (hval : ∀ op ∈ ops, op.valid)
    (hty : ∀ op ∈ ops, op.typed size) (hrun : w0.run objSize ops = (w, rs)) :
    (∀ r ∈ rs, ∀ s, r ≠ .panic s) ∧
    ∃ cs, readFileHl objSize w.inner.file = some (a.info, cs, [], none)
      ∧ chunksAgree cs (expectedChunks ops rs) := by
  have hnp := run_no_panic size objSize ho ops w0 w rs (new_inv3 size a w0 hnew) hval hty hrun
  exact ⟨hnp, typed_roundtrip objSize a w0 w ops rs ha hnew hval hrun hnp⟩

theorem mem_of_lookup {l : List (Nat × Nat)} {t n : Nat} (h : l.lookup t = some n) : (t, n) ∈ l := by
  induction l with
  | nil => simp [List.lookup] at h
  | cons p r ih =>
    obtain ⟨k, v⟩ := p
    simp only [List.lookup] at h
    split at h
    · rename_i heq
      have : t = k := by simpa using heq
      injection h with h
      subst this h; simp
    · exact List.mem_cons_of_mem _ (ih h)

/-- the DDNet object-size table agrees with any size function that follows it on the ordinal types -/
theorem ddnet_objSizeAgrees (size : TypeId → Nat → Nat)
    (h : ∀ t n, (t, n) ∈ Tw.Gen.Demo.ddnet_obj_sizes → ∀ id, size (.ordinal t) id = n) :
    ObjSizeAgrees size ddnetObjSize := by
  intro t n hl
  have hmem : (t, n) ∈ Tw.Gen.Demo.ddnet_obj_sizes := by
    unfold ddnetObjSize at hl
    exact mem_of_lookup hl
  refine ⟨?_, ?_, h t n hmem⟩
  · have : ∀ p ∈ Tw.Gen.Demo.ddnet_obj_sizes, 0 < p.1 := by decide
    exact this _ hmem
  · have : ∀ p ∈ Tw.Gen.Demo.ddnet_obj_sizes, p.1 < 16384 := by decide
    exact this _ hmem

end Tw.DemoHl
