import Tw.Model.NetFault

/-!
Lemmas about the endpoint under send faults (`Model/NetFault.lean`): a call that does not run
`Connection::resend` ends in the state of the infallible call, whatever `send` answered.
-/
namespace Tw.Net
open Tw.Conn Tw.Conn6 Tw.Time

theorem applyFaults_no_cut (cut : Nat → Bool) (hc : ∀ a, cut a = false) :
    ∀ (l : List (Nat × Packet)) (f : Arms), (applyFaults cut l f []).dead = [] := by
  intro l
  induction l with
  | nil => intro f; simp [applyFaults]
  | cons e rest ih =>
    intro f
    obtain ⟨a, p⟩ := e
    simp only [applyFaults, List.contains_nil, Bool.false_eq_true, if_false, hc, Bool.and_false]
    split <;> simp [ih]

theorem patchDead_nil (ps : Peers) : patchDead ps [] = ps := by
  simp [patchDead]

/-- a call that does not run `resend`: the state after the call is the infallible call's, whatever
the callback answered -/
theorem stepF_state (env : Env) (net net' : Net) (arms arms' : Arms) (op : Op) (r : Ret) (o : Out)
    (x : List (Nat × Packet)) (hc : ∀ a, fromResend env net op a = false)
    (h : stepF env net arms op = .ok (net', r, o, x, arms')) :
    ∃ o0, step env net op = .ok (net', r, o0) := by
  unfold stepF at h
  split at h
  · cases h
  · rename_i net1 r1 o1 hs
    simp only [Except.ok.injEq, Prod.mk.injEq] at h
    obtain ⟨h1, h2, _⟩ := h
    rw [applyFaults_no_cut _ hc, patchDead_nil] at h1
    exact ⟨o1, by rw [hs, ← h1, ← h2]⟩

/-- `disconnect`, `reject`, `ignore` (and every call but `tick` / `feed`) never run `resend` -/
theorem fromResend_close (env : Env) (net : Net) (pid : Nat) (reason : Bytes) (a : Nat) :
    fromResend env net (.disconnect pid reason) a = false ∧
    fromResend env net (.reject pid reason) a = false ∧
    fromResend env net (.ignore pid) a = false := by
  simp [fromResend]

end Tw.Net
