/-
C13: the receiver is safe under arbitrary interleavings of consistent transfers (part A), and the
invariant of the whole exchange (part B).
-/
import Tw.Model.SnapMgr
import Tw.Proofs.SnapXfer
import Tw.Proofs.SnapXferSeq

namespace Tw.SnapMgr
open Tw.SnapXfer

/-! ### Part A — `DeltaReceiver` never hands out anything but what the sender cut up -/

/-- the messages of a transfer -/
def Xfer.chunks (x : Xfer) : Outcome (List Msg) := deltaChunks x.tick x.base x.bytes x.crc

/-- If the receiver is in the middle of a transfer, it is one of the sender's transfers and the
parts it holds are true parts of it. -/
def RecvOk (xfers : List Xfer) (r : Receiver) : Prop :=
  ∀ c, r.current = some c → ∃ x, x ∈ xfers ∧ x.tick = c.tick ∧ 2 ≤ numParts x.bytes.length ∧
    numParts x.bytes.length ≤ maxParts ∧ ∃ seen, Mid x.tick x.base x.crc x.bytes seen r

def UniqueTicks (xfers : List Xfer) : Prop :=
  ∀ x, x ∈ xfers → ∀ x', x' ∈ xfers → x.tick = x'.tick → x = x'

theorem deltaChunks_form' {tick base crc : Int} {data : List UInt8} {msgs : List Msg}
    (h : deltaChunks tick base data crc = .ok msgs) : Form tick base crc data msgs := by
  unfold deltaChunks at h
  by_cases hn' : numParts data.length ≤ 2147483647
  swap
  · simp [hn'] at h
  simp only [hn', not_true_eq_false, if_false] at h
  by_cases h0 : numParts data.length = 0
  · simp only [h0, if_true] at h
    have hd : data = [] := List.eq_nil_of_length_eq_zero ((numParts_eq_zero _).mp h0)
    injection h with h
    exact .empty hd h.symm
  · simp only [h0, if_false] at h
    by_cases h1 : numParts data.length = 1
    · simp only [h1, if_true] at h
      injection h with h
      exact .single h1 h.symm
    · simp only [h1, if_false] at h
      injection h with h
      exact .multi (by omega) h.symm

theorem fresh_of_canReceive {r : Receiver} {t : Int} (hc : r.canReceive t = true)
    (hne : ∀ c, r.current = some c → c.tick ≠ t) : Fresh r t := by
  intro n hn
  unfold Receiver.canReceive at hc
  unfold Receiver.newest at hn
  cases hcur : r.current with
  | some c =>
    have := hne c hcur
    simp [hcur] at hc hn; omega
  | none => simp [hcur] at hc hn; simp [hn] at hc; omega

theorem step_part_too_many {tick base crc : Int} {data : List UInt8} {k : Nat} (r : Receiver)
    (hn : ¬ numParts data.length ≤ maxParts) :
    (r.step (partMsg tick base crc data k)).1 = r ∧
      ∃ e, (r.step (partMsg tick base crc data k)).2.1 = .error e := by
  have h1 : ¬ ((numParts data.length : Nat) : Int) ≤ (maxParts : Nat) := by
    intro h; apply hn; exact_mod_cast h
  by_cases hc : r.canReceive tick = true
  · simp [Receiver.step, partMsg, Receiver.snap, hc, h1]
  · simp [Receiver.step, partMsg, Receiver.snap, hc]

theorem recvOk_of_current_none {xfers : List Xfer} {r : Receiver} (h : r.current = none) :
    RecvOk xfers r := by
  intro c hc; rw [h] at hc; cases hc

/-- One message of one of the sender's transfers, in any receiver state that satisfies `RecvOk`:
`RecvOk` is preserved, and a delivery carries exactly the transfer's base tick, tick, data and
checksum. -/
theorem recv_step_safe {xfers : List Xfer} (huniq : UniqueTicks xfers) {r : Receiver}
    (hr : RecvOk xfers r) {x : Xfer} (hx : x ∈ xfers) (hb : inI32 x.base)
    {ms : List Msg} (hms : x.chunks = .ok ms) {m : Msg} (hm : m ∈ ms) :
    RecvOk xfers (r.step m).1 ∧
      ∀ d, (r.step m).2.1 = .ok (some d) → d = delivery x.tick x.base x.crc x.bytes := by
  have hform := deltaChunks_form' hms
  cases hform with
  | empty hd hmsgs =>
    rw [hmsgs] at hm
    have hm' : m = .empty x.tick (wrapSub x.tick x.base) := by simpa using hm
    subst hm'
    by_cases hc : r.canReceive x.tick = true
    · simp only [Receiver.step, Receiver.snapEmpty, hc, not_true_eq_false, if_false]
      refine ⟨recvOk_of_current_none rfl, ?_⟩
      intro d hd'
      simp only [Except.ok.injEq, Option.some.injEq] at hd'
      rw [← hd', wrapSub_wrapSub _ _ hb]
      simp [delivery, hd]
    · simp only [Receiver.step, Receiver.snapEmpty, hc]
      exact ⟨hr, fun d hd => by simp at hd⟩
  | single h1 hmsgs =>
    have hne : x.bytes ≠ [] := by
      intro e
      have : numParts x.bytes.length = 0 := (numParts_eq_zero _).mpr (by rw [e]; rfl)
      omega
    rw [hmsgs] at hm
    have hm' : m = .single x.tick (wrapSub x.tick x.base) x.crc x.bytes := by simpa using hm
    subst hm'
    by_cases hc : r.canReceive x.tick = true
    · simp only [Receiver.step, Receiver.snapSingle, hc, not_true_eq_false, if_false]
      refine ⟨recvOk_of_current_none rfl, ?_⟩
      intro d hd
      simp only [Except.ok.injEq, Option.some.injEq] at hd
      rw [← hd, wrapSub_wrapSub _ _ hb]
      simp [delivery, hne]
    · simp only [Receiver.step, Receiver.snapSingle, hc]
      exact ⟨hr, fun d hd => by simp at hd⟩
  | multi h2 hmsgs =>
    have hne : x.bytes ≠ [] := by
      intro e
      have : numParts x.bytes.length = 0 := (numParts_eq_zero _).mpr (by rw [e]; rfl)
      omega
    rw [hmsgs] at hm
    obtain ⟨k, hk, rfl⟩ := List.mem_map.mp hm
    have hk := List.mem_range.mp hk
    by_cases hn : numParts x.bytes.length ≤ maxParts
    swap
    · obtain ⟨h1, e, h2'⟩ := step_part_too_many (tick := x.tick) (base := x.base) (crc := x.crc) (k := k) r hn
      rw [h1]
      exact ⟨hr, fun d hd => by rw [h2'] at hd; cases hd⟩
    by_cases hc : r.canReceive x.tick = true
    swap
    · have := step_of_not_canReceive r (partMsg x.tick x.base x.crc x.bytes k) (by simpa [partMsg_tick] using hc)
      rw [this]
      exact ⟨hr, fun d hd => by simp at hd⟩
    -- the transfer the receiver is working on, if it is this one
    by_cases hsame : ∃ c, r.current = some c ∧ c.tick = x.tick
    · obtain ⟨c, hcur, hct⟩ := hsame
      obtain ⟨x', hx', hxt, _, _, seen, hmid⟩ := hr c hcur
      have hxx : x' = x := huniq x' hx' x hx (by omega)
      subst hxx
      by_cases hs : seen k
      · rw [step_mid_dup hb hn hmid hk hs]
        exact ⟨hr, fun d hd => by simp at hd⟩
      · by_cases hall : ∀ i, i < numParts x'.bytes.length → (i = k ∨ seen i)
        · rw [step_mid_last hb hn hmid hk hs hall]
          refine ⟨recvOk_of_current_none rfl, ?_⟩
          intro d hd
          simp only [Except.ok.injEq, Option.some.injEq] at hd
          rw [← hd]; simp [delivery, hne]
        · rw [step_mid_new hb hn hmid hk hs hall]
          refine ⟨?_, fun d hd => by simp at hd⟩
          intro c' hc'
          have hins := hmid.insert hk
          have : c' = curOf x'.tick x'.base x'.crc x'.bytes := by
            have := hins.cur; simp only at hc' this; rw [this] at hc'; injection hc' with h; exact h.symm
          subst this
          exact ⟨x', hx', rfl, h2, hn, _, hins⟩
    · -- a new transfer starts (dropping whatever was in progress)
      have hf : Fresh r x.tick := fresh_of_canReceive hc (fun c hcur hct => hsame ⟨c, hcur, hct⟩)
      rw [step_fresh_part hb hn hk hf]
      have hmid := startOf_mid (tick := x.tick) (base := x.base) (crc := x.crc) (data := x.bytes) (r := r)
      have hinc : ¬ ∀ i, i < numParts x.bytes.length → (i = k ∨ False) := by
        intro h
        rcases h (if k = 0 then 1 else 0) (by split <;> omega) with h | h
        · split at h <;> omega
        · exact h
      rw [step_mid_new hb hn hmid hk (fun h => h) hinc]
      refine ⟨?_, fun d hd => by simp at hd⟩
      intro c' hc'
      have hins := hmid.insert hk
      have : c' = curOf x.tick x.base x.crc x.bytes := by
        have := hins.cur; simp only at hc' this; rw [this] at hc'; injection hc' with h; exact h.symm
      subst this
      exact ⟨x, hx, rfl, h2, hn, _, hins⟩

/-! ### Part B — the receiving storage only ever holds the sender's snapshots -/

/-- What the protocol layer needs from the snapshot layer: these are the statements of C09
(applying a created delta reproduces the target) and C10 (a written delta reads back), plus the
fact that a written delta is never zero bytes long (it starts with a three-integer header), and
that the cleared delta of a `SnapEmpty` means "same as base". -/
structure Laws {S D : Type} (ops : Ops S D) : Prop where
  apply_create : ∀ a b d, ops.create a b = some d → ops.apply a d = .ok b
  read_write : ∀ d bs, ops.write d = some bs → ops.read bs = .ok d
  write_nonempty : ∀ d bs, ops.write d = some bs → bs ≠ []
  /-- "same as base": applying the cleared delta (`SnapEmpty`) to a snapshot gives any snapshot the
  sender considers the same -/
  same_clear : ∀ a b, ops.same a b = true → ops.apply a ops.clear = .ok b

/-- The same laws, required only on the snapshots that satisfy `P` (the snapshots the sender
actually builds) and on the deltas created between them.  This is what an executable snapshot
layer over plain values can satisfy. -/
structure LawsOn {S D : Type} (ops : Ops S D) (P : S → Prop) : Prop where
  empty : P ops.empty
  apply_create : ∀ a b d, P a → P b → ops.create a b = some d → ops.apply a d = .ok b
  read_write : ∀ a b d bs, P a → P b → ops.create a b = some d → ops.write d = some bs →
    ops.read bs = .ok d
  write_nonempty : ∀ a b d bs, P a → P b → ops.create a b = some d → ops.write d = some bs → bs ≠ []
  same_clear : ∀ a b, P a → P b → ops.same a b = true → ops.apply a ops.clear = .ok b

theorem Laws.on {S D : Type} {ops : Ops S D} (l : Laws ops) : LawsOn ops (fun _ => True) where
  empty := trivial
  apply_create := fun a b d _ _ h => l.apply_create a b d h
  read_write := fun _ _ d bs _ _ _ h => l.read_write d bs h
  write_nonempty := fun _ _ d bs _ _ _ h => l.write_nonempty d bs h
  same_clear := fun a b _ _ h => l.same_clear a b h

/-- `sent` maps each tick to one snapshot -/
def Functional {S : Type} (sent : List (Int × S)) : Prop :=
  ∀ p, p ∈ sent → ∀ q, q ∈ sent → p.1 = q.1 → p = q

theorem keepFrom_subset {S : Type} (snaps : List (Stored S)) (t : Int) :
    ∀ s, s ∈ keepFrom snaps t → s ∈ snaps :=
  fun _ hs => (List.takeWhile_prefix _).subset hs

section
variable {S D : Type} {ops : Ops S D} {sent : List (Int × S)}

theorem finishDelta_safe {st : Storage S}
    (hst : ∀ s', s' ∈ st.snaps → (s'.tick, s'.snap) ∈ sent)
    {tick : Int} {s base : S} {d : D} {crc : Option Int} (hs : (tick, s) ∈ sent)
    (happly : ops.apply base d = .ok s) (hcrc : ∀ c, crc = some c → c = ops.crc s)
    (w : Bool) :
    (∀ s', s' ∈ (st.finishDelta ops crc tick base d w).1.snaps → (s'.tick, s'.snap) ∈ sent) ∧
    (st.finishDelta ops crc tick base d w).2.1 = .ok s ∧
    (st.finishDelta ops crc tick base d w).1.ackTick = some tick := by
  have hmemb : ∀ s', s' ∈ (if (({ tick := tick, snap := s } : Stored S) :: st.snaps).length > maxStored
        then (({ tick := tick, snap := s } : Stored S) :: st.snaps).dropLast
        else ({ tick := tick, snap := s } : Stored S) :: st.snaps) → (s'.tick, s'.snap) ∈ sent := by
    intro s' hs'
    have hmem : s' ∈ ({ tick := tick, snap := s } : Stored S) :: st.snaps := by
      split at hs'
      · exact List.dropLast_subset _ hs'
      · exact hs'
    rcases List.mem_cons.mp hmem with h | h
    · subst h; exact hs
    · exact hst s' h
  unfold Storage.finishDelta
  rw [happly]
  cases crc with
  | none =>
    simp only [Bool.false_eq_true, if_false, and_self, and_true]
    exact hmemb
  | some c =>
    have hc := hcrc c rfl
    subst hc
    simp only [ne_eq, not_true_eq_false, decide_false, Bool.false_eq_true, if_false, and_self, and_true]
    exact hmemb

/-- `Storage::add_delta` with the delta of one of the sender's transfers: whatever it stores is the
sender's snapshot for that tick; success sets `ack_tick`, failure leaves it or clears it. -/
theorem addDelta_safe (hfun : Functional sent) {st : Storage S}
    (hst : ∀ s', s' ∈ st.snaps → (s'.tick, s'.snap) ∈ sent)
    {tick base : Int} {s baseSnap : S} {d : D} {crc : Option Int} (hs : (tick, s) ∈ sent)
    (hbase : (base = -1 ∧ baseSnap = ops.empty) ∨ (0 ≤ base ∧ (base, baseSnap) ∈ sent))
    (happly : ops.apply baseSnap d = .ok s) (hcrc : ∀ c, crc = some c → c = ops.crc s) :
    (∀ s', s' ∈ (st.addDelta ops crc base tick d).1.snaps → (s'.tick, s'.snap) ∈ sent) ∧
    (∀ s', (st.addDelta ops crc base tick d).2.1 = .ok s' →
      s' = s ∧ (st.addDelta ops crc base tick d).1.ackTick = some tick) ∧
    (∀ e, (st.addDelta ops crc base tick d).2.1 = .error e →
      (st.addDelta ops crc base tick d).1.ackTick = st.ackTick ∨
      (st.addDelta ops crc base tick d).1.ackTick = none) := by
  unfold Storage.addDelta
  by_cases h1 : st.newestTick ≥ tick
  · simp only [h1, if_true]
    exact ⟨hst, fun s' h => by simp at h, fun _ _ => by simp⟩
  simp only [h1, if_false]
  by_cases hge : base ≥ 0
  · simp only [hge, if_true]
    have hb : 0 ≤ base ∧ (base, baseSnap) ∈ sent := by
      rcases hbase with ⟨h, _⟩ | h
      · omega
      · exact h
    have hkept : ∀ s', s' ∈ keepFrom st.snaps base → (s'.tick, s'.snap) ∈ sent :=
      fun s' h => hst s' (keepFrom_subset _ _ s' h)
    cases hlast : (keepFrom st.snaps base).getLast? with
    | none => exact ⟨hkept, fun s' h => by simp at h, fun _ _ => Or.inr rfl⟩
    | some d0 =>
      simp only
      by_cases htick : d0.tick = base
      · simp only [htick, if_true]
        have hd0 := hkept d0 (List.mem_of_getLast? hlast)
        have : d0.snap = baseSnap := by
          have := hfun _ hd0 _ hb.2 htick
          exact congrArg Prod.snd this
        rw [this]
        obtain ⟨f1, f2, f3⟩ := finishDelta_safe (ops := ops) (sent := sent)
          (st := { st with snaps := keepFrom st.snaps base }) hkept hs happly hcrc false
        refine ⟨f1, ?_, ?_⟩
        · intro s' h; rw [f2] at h; injection h with h; exact ⟨h.symm, f3⟩
        · intro e h; rw [f2] at h; cases h
      · simp only [htick, if_false]
        exact ⟨hkept, fun s' h => by simp at h, fun _ _ => by simp⟩
  · simp only [hge, if_false]
    have hb : baseSnap = ops.empty := by
      rcases hbase with ⟨_, h⟩ | ⟨h, _⟩
      · exact h
      · omega
    subst hb
    obtain ⟨f1, f2, f3⟩ := finishDelta_safe (ops := ops) (sent := sent) hst hs happly hcrc
      (decide (base ≠ -1))
    refine ⟨f1, ?_, ?_⟩
    · intro s' h; rw [f2] at h; injection h with h; exact ⟨h.symm, f3⟩
    · intro e h; rw [f2] at h; cases h

end

end Tw.SnapMgr
