import Tw.Model.PacketCommon
import Tw.Proofs.PacketIter

/-! Chunk list → bytes → chunk iterator returns the list, with no warning (generic part). -/
namespace Tw.Packet

/-- what the round trip needs from a protocol's chunk header encoding `hdr data vital` -/
structure ChunkEnc (c : ChunkCodec) (hdr : List UInt8 → Option (Nat × Bool) → List UInt8)
    (ok : List UInt8 → Option (Nat × Bool) → Prop) : Prop where
  hread : ∀ d v rest, ok d v → ∃ h, c.readHeader (hdr d v ++ (d ++ rest)) = some (h, v.map Prod.fst, []) ∧
    h.size = d.length ∧ (∀ q r, v = some (q, r) → decide (h.flags &&& c.resendFlag ≠ 0) = r)
  hlen : ∀ d v, (hdr d v).length = c.hdrLen v.isSome
  hpos : ∀ b, 0 < c.hdrLen b

def encodeChunks (hdr : List UInt8 → Option (Nat × Bool) → List UInt8)
    (cs : List (List UInt8 × Option (Nat × Bool))) : List UInt8 :=
  cs.flatMap fun x => hdr x.1 x.2 ++ x.1

theorem Iter.next_encoded (c : ChunkCodec) (hdr) (ok) (H : ChunkEnc c hdr ok) (d : List UInt8)
    (v : Option (Nat × Bool)) (rest : List UInt8) (hok : ok d v) (it : Iter)
    (hdat : it.data = hdr d v ++ (d ++ rest)) :
    ∃ off, it.next c = (some { data := d, vital := v, off := off }, [],
      { it with data := rest, numRemaining := it.numRemaining - 1 }) := by
  obtain ⟨h, hr, hsz, hres⟩ := H.hread d v rest hok
  have hl := H.hlen d v
  have hp := H.hpos v.isSome
  unfold Iter.next
  have hne : it.data ≠ [] := by
    rw [hdat]
    intro hnil
    have := congrArg List.length hnil
    simp only [List.length_append, List.length_nil] at this
    omega
  cases hd : it.data with
  | nil => exact absurd hd hne
  | cons b bs =>
    simp only
    rw [← hd, hdat, hr]
    simp only [Option.isSome_map]
    have hdrop : List.drop (c.hdrLen v.isSome) (hdr d v ++ (d ++ rest)) = d ++ rest := by
      rw [← hl]; exact List.drop_left' rfl
    rw [hdrop]
    have hnlt : ¬ (d ++ rest).length < h.size := by simp [hsz]
    rw [if_neg hnlt, hsz, List.take_left' rfl, List.drop_left' rfl]
    refine ⟨it.pos + c.hdrLen v.isSome, ?_⟩
    congr 2
    · cases v with
      | none => rfl
      | some qr =>
        obtain ⟨q, r⟩ := qr
        simp only [Option.map_some]
        rw [hres q r rfl]

/-- iterating the encoding of a chunk list returns the list and no warning -/
theorem Iter.drain_encoded (c : ChunkCodec) (hdr) (ok) (H : ChunkEnc c hdr ok) :
    ∀ (cs : List (List UInt8 × Option (Nat × Bool))), (∀ x ∈ cs, ok x.1 x.2) →
    ∀ (it : Iter), it.data = encodeChunks hdr cs → it.numRemaining = cs.length → it.checked = false →
    ∀ fuel, it.data.length < fuel →
      ((Iter.drainFuel c fuel it).1.map fun ch => (ch.data, ch.vital)) = cs ∧
      (Iter.drainFuel c fuel it).2.1 = [] ∧ (Iter.drainFuel c fuel it).2.2.2 = false := by
  intro cs
  induction cs with
  | nil =>
    intro _ it hdat hnum hchk fuel hfuel
    cases fuel with
    | zero => omega
    | succ n =>
      simp only [encodeChunks, List.flatMap_nil] at hdat
      unfold Iter.drainFuel Iter.next
      simp [hdat, hchk, hnum]
  | cons x xs ih =>
    intro hok it hdat hnum hchk fuel hfuel
    cases fuel with
    | zero => omega
    | succ n =>
      have hdat' : it.data = hdr x.1 x.2 ++ (x.1 ++ encodeChunks hdr xs) := by
        rw [hdat]; simp [encodeChunks]
      obtain ⟨off, hnext⟩ := Iter.next_encoded c hdr ok H x.1 x.2 (encodeChunks hdr xs) (hok x (by simp)) it hdat'
      unfold Iter.drainFuel
      rw [hnext]
      simp only
      have hlen : (encodeChunks hdr xs).length < n := by
        have : it.data.length = (hdr x.1 x.2).length + (x.1.length + (encodeChunks hdr xs).length) := by
          rw [hdat']; simp
        have hp := H.hpos x.2.isSome
        rw [H.hlen] at this
        omega
      obtain ⟨h1, h2, h3⟩ := ih (fun y hy => hok y (by simp [hy]))
        { it with data := encodeChunks hdr xs, numRemaining := it.numRemaining - 1 } rfl
        (by simp only [hnum, List.length_cons]; omega) hchk n hlen
      refine ⟨?_, ?_, h3⟩
      · simp only [List.map_cons, h1]
      · simp only [h2, List.append_nil]

end Tw.Packet
