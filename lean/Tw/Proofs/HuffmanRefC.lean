import Tw.Proofs.HuffmanDec
import Tw.Model.HuffmanRef

/-! `CHuffman::Compress` (model `refCompress`) is byte-identical to `compress_bug` (model
`compress t true`) for well-formed tables. -/
namespace Tw.Huffman

theorem natBits_add (a b v : Nat) : natBits (a + b) v = natBits a v ++ natBits b (v / 2 ^ a) := by
  induction a generalizing v with
  | zero => simp [natBits]
  | succ a ih =>
    have : a + 1 + b = (a + b) + 1 := by omega
    rw [this]
    simp only [natBits, ih, List.cons_append, Nat.div_div_eq_div_mul, Nat.pow_succ]
    rw [Nat.mul_comm 2 (2 ^ a)]

theorem natBits_self (L : List Bool) : natBits L.length (bitsToNat L) = L := by
  simpa using natBits_bitsToNat L.length L (Nat.le_refl _)

theorem packGo_pend (B : List Bool) (P : List Bool) :
    ∀ Q : List Bool, Q.length + P.length < 8 →
      packGo (P ++ B) Q.length (bitsToNat Q) = packGo B (Q.length + P.length) (bitsToNat (Q ++ P)) := by
  induction P with
  | nil => intro Q _; simp
  | cons p P ih =>
    intro Q h
    simp only [List.length_cons] at h
    have hk : ¬ Q.length ≥ 7 := by omega
    simp only [List.cons_append, packGo, hk, if_false]
    rw [← bitsToNat_snoc]
    have := ih (Q ++ [p]) (by simp; omega)
    simp only [List.length_append, List.length_cons, List.length_nil, List.append_assoc,
      List.cons_append, List.nil_append] at this
    rw [this]
    simp only [List.length_cons]
    congr 1
    omega

theorem packBits_pend (P B : List Bool) (h : P.length < 8) :
    packBits (P ++ B) = packGo B P.length (bitsToNat P) := by
  have := packGo_pend B P [] (by simpa using h)
  simpa [packBits, bitsToNat] using this

theorem packBits_chunk (c rest : List Bool) (h : c.length = 8) :
    packBits (c ++ rest) = UInt8.ofNat (bitsToNat c) :: packBits rest := by
  rcases List.eq_nil_or_concat c with rfl | ⟨c', l, rfl⟩
  · simp at h
  · simp only [List.concat_eq_append, List.length_append, List.length_cons, List.length_nil] at h ⊢
    have h7 : c'.length = 7 := by omega
    rw [List.append_assoc, packBits_pend c' _ (by omega), h7]
    simp only [List.cons_append, List.nil_append, packGo, ge_iff_le, Nat.le_refl, if_true]
    rw [bitsToNat_snoc, h7]
    rfl

theorem packBits_small (P : List Bool) (h0 : 0 < P.length) (h : P.length < 8) :
    packBits P = [UInt8.ofNat (bitsToNat P)] := by
  have := packBits_pend P [] h
  rw [List.append_nil] at this
  rw [this]
  simp only [packGo]
  rw [if_neg (by omega)]

theorem refWrite_spec (fuel : Nat) :
    ∀ (V n : Nat) (out : List UInt8), V < 2 ^ n → n / 8 ≤ fuel →
      ∃ P' out', refWrite fuel V n out = (bitsToNat P', P'.length, out') ∧ P'.length = n % 8 ∧
        ∀ B, out'.reverse ++ packBits (P' ++ B) = out.reverse ++ packBits (natBits n V ++ B) := by
  induction fuel with
  | zero =>
    intro V n out hV hf
    have hn : n < 8 := by omega
    refine ⟨natBits n V, out, ?_, by simp; omega, fun B => rfl⟩
    simp [refWrite, bitsToNat_natBits, Nat.mod_eq_of_lt hV]
  | succ f ih =>
    intro V n out hV hf
    by_cases hn : n ≥ 8
    · simp only [refWrite, hn, if_true]
      have hV' : V / 256 < 2 ^ (n - 8) := by
        have : 2 ^ n = 2 ^ (n - 8) * 256 := by
          rw [show (256 : Nat) = 2 ^ 8 by rfl, ← Nat.pow_add]; congr 1; omega
        rw [this] at hV
        exact Nat.div_lt_of_lt_mul (by rw [Nat.mul_comm]; exact hV)
      obtain ⟨P', out', h1, h2, h3⟩ := ih (V / 256) (n - 8) (UInt8.ofNat (V % 256) :: out) hV'
        (by omega)
      refine ⟨P', out', h1, by omega, ?_⟩
      intro B
      have hn8 : 8 + (n - 8) = n := by omega
      have hsplit : natBits n V = natBits 8 V ++ natBits (n - 8) (V / 2 ^ 8) := by
        have := natBits_add 8 (n - 8) V
        rwa [hn8] at this
      rw [h3 B, hsplit, List.append_assoc, packBits_chunk (natBits 8 V) _ (natBits_length 8 V),
        bitsToNat_natBits]
      simp
    · have hn' : n < 8 := by omega
      refine ⟨natBits n V, out, ?_, by simp; omega, fun B => rfl⟩
      simp [refWrite, hn, bitsToNat_natBits, Nat.mod_eq_of_lt hV]

theorem bitsToNat_codeBits (t : Table) (s : Nat) (h : symBits t s < 2 ^ symLen t s) :
    bitsToNat (codeBits t s) = symBits t s := by
  simp only [codeBits, codeBitsF, bitsToNat_natBits]
  exact Nat.mod_eq_of_lt h

theorem refCompressGo_spec (t : Table) (ss : List Nat) :
    ∀ (P : List Bool) (out : List UInt8), P.length < 8 →
      (∀ s ∈ ss, symLen t s ≤ 24 ∧ symBits t s < 2 ^ symLen t s) →
      ∃ P' out', refCompressGo t ss (bitsToNat P) P.length out = (bitsToNat P', out') ∧
        P'.length = (P.length + (ss.flatMap (codeBits t)).length) % 8 ∧
        out'.reverse ++ packBits P' = out.reverse ++ packBits (P ++ ss.flatMap (codeBits t)) := by
  induction ss with
  | nil =>
    intro P out hP _
    exact ⟨P, out, by simp [refCompressGo], by simp; omega, by simp⟩
  | cons s ss ih =>
    intro P out hP hs
    obtain ⟨hl, hb⟩ := hs s (by simp)
    have hcode := bitsToNat_codeBits t s hb
    have hPlt := bitsToNat_lt P
    -- the loaded word
    have hV : (bitsToNat P ||| (symBits t s <<< P.length)) % TWO32 = bitsToNat (P ++ codeBits t s) := by
      rw [Nat.or_comm, ← Nat.shiftLeft_add_eq_or_of_lt hPlt, Nat.shiftLeft_eq, bitsToNat_append,
        hcode, Nat.add_comm, Nat.mul_comm]
      apply Nat.mod_eq_of_lt
      have h1 : 2 ^ P.length * symBits t s < 2 ^ P.length * 2 ^ symLen t s :=
        Nat.mul_lt_mul_of_pos_left hb (Nat.two_pow_pos _)
      rw [← Nat.pow_add] at h1
      have h2 : 2 ^ (P.length + symLen t s) ≤ 2 ^ 31 := Nat.pow_le_pow_right (by decide) (by omega)
      have h3 : bitsToNat P < 2 ^ 7 := Nat.lt_of_lt_of_le hPlt (Nat.pow_le_pow_right (by decide) (by omega))
      simp only [TWO32]
      omega
    have hlen : (P ++ codeBits t s).length = P.length + symLen t s := by simp [codeBits_length]
    have hVlt := bitsToNat_lt (P ++ codeBits t s)
    rw [hlen] at hVlt
    obtain ⟨P1, out1, h1, h2, h3⟩ := refWrite_spec 8 (bitsToNat (P ++ codeBits t s))
      (P.length + symLen t s) out hVlt (by omega)
    have hP1 : P1.length < 8 := by omega
    obtain ⟨P', out', h4, h5, h6⟩ := ih P1 out1 hP1 (fun s' hs' => hs s' (by simp [hs']))
    refine ⟨P', out', ?_, ?_, ?_⟩
    · simp only [refCompressGo, hV, h1, h4]
    · rw [h5, h2]
      simp only [List.flatMap_cons, List.length_append, codeBits_length]
      omega
    · rw [h6, h3]
      have : natBits (P.length + symLen t s) (bitsToNat (P ++ codeBits t s)) = P ++ codeBits t s := by
        rw [← hlen]; exact natBits_self _
      rw [this]
      simp

theorem refCompress_eq_compress_bug (t : Table) (h : WellFormed t) (xs : List UInt8) :
    refCompress t xs = compress t true xs := by
  have hs : ∀ s ∈ xs.map (·.toNat) ++ [EOF], symLen t s ≤ 24 ∧ symBits t s < 2 ^ symLen t s := by
    intro s hs
    have hlt : s < NUM_SYMBOLS := by
      simp only [List.mem_append, List.mem_map, List.mem_singleton] at hs
      rcases hs with ⟨x, _, rfl⟩ | rfl
      · have := x.toNat_lt; simp [NUM_SYMBOLS]; omega
      · decide
    exact ⟨(h.leaf hlt).2.1, (h.leaf hlt).2.2.1⟩
  obtain ⟨P', out', h1, h2, h3⟩ := refCompressGo_spec t _ [] [] (by simp) hs
  simp only [bitsToNat, List.length_nil, Nat.zero_add, List.reverse_nil, List.nil_append] at h1 h2 h3
  have hP' : P'.length < 8 := by omega
  have hlt : bitsToNat P' < 256 :=
    Nat.lt_of_lt_of_le (bitsToNat_lt P') (Nat.pow_le_pow_right (by decide) (by omega) : 2 ^ P'.length ≤ 2 ^ 8)
  simp only [refCompress, h1, compress, streamBits, Nat.mod_eq_of_lt hlt, List.reverse_cons, true_and]
  by_cases h0 : P'.length = 0
  · have : P' = [] := List.length_eq_zero_iff.mp h0
    subst this
    have : (List.flatMap (codeBits t) (List.map (fun x => x.toNat) xs ++ [EOF])).length % 8 = 0 := by omega
    rw [if_pos this, ← h3]
    simp [packBits, packGo, bitsToNat]
  · have : ¬ (List.flatMap (codeBits t) (List.map (fun x => x.toNat) xs ++ [EOF])).length % 8 = 0 := by omega
    rw [if_neg this, ← h3, packBits_small P' (by omega) hP']
    simp

end Tw.Huffman
