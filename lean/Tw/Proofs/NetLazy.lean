import Tw.Proofs.NetPending

/-! Lazily consumed results (`ReceivePacket` dropped half-way, `Tick` not polled). -/
namespace Tw.Net
open Tw.Conn
open Tw.Conn6 (Env Packet)

/-- a partly consumed call that is not an unpolled `Tick`: same state, same return value, same
datagrams and warnings as the drained call; the events are a prefix of the drained call's -/
theorem stepLazy_spec {env : Env} {net net1 : Net} {op : Op} {pull : Option Nat} {r : Ret} {o' : Out}
    (hnt : ¬ (∃ (_ : op = Op.tick), pull = some 0))
    (h : stepLazy env net op pull = .ok (net1, r, o')) :
    ∃ o, step env net op = .ok (net1, r, o) ∧ o'.sent = o.sent ∧ o'.warns = o.warns ∧
      ∃ k, o'.events = o.events.take k := by
  have plain : step env net op = .ok (net1, r, o') →
      ∃ o, step env net op = .ok (net1, r, o) ∧ o'.sent = o.sent ∧ o'.warns = o.warns ∧
        ∃ k, o'.events = o.events.take k :=
    fun h => ⟨o', h, rfl, rfl, o'.events.length, by simp⟩
  cases op with
  | feed a rd =>
    cases pull with
    | none => exact plain h
    | some k =>
      simp only [stepLazy] at h
      cases hs : step env net (.feed a rd) with
      | error f => simp [hs] at h
      | ok v =>
        obtain ⟨n, r0, o⟩ := v
        simp only [hs, Except.ok.injEq, Prod.mk.injEq] at h
        obtain ⟨h1, h2, h3⟩ := h
        subst h1 h2 h3
        exact ⟨o, rfl, rfl, rfl, k, rfl⟩
  | tick =>
    cases pull with
    | none => exact plain h
    | some k =>
      cases k with
      | zero => exact absurd ⟨rfl, rfl⟩ hnt
      | succ k => exact plain h
  | connect a => cases pull <;> exact plain h
  | accept p => cases pull <;> exact plain h
  | reject p x => cases pull <;> exact plain h
  | disconnect p x => cases pull <;> exact plain h
  | ignore p => cases pull <;> exact plain h
  | send p d v => cases pull <;> exact plain h
  | flush p => cases pull <;> exact plain h
  | sendConnless a d => cases pull <;> exact plain h

theorem drainedHist_cons {env : Env} {op : Op} {pull : Option Nat} (h : LHistory)
    (hnt : ¬ (∃ (_ : op = Op.tick), pull = some 0)) :
    drainedHist ((env, op, pull) :: h) = (env, op) :: drainedHist h := by
  cases op <;> try rfl
  cases pull with
  | none => rfl
  | some k =>
    cases k with
    | zero => exact absurd ⟨rfl, rfl⟩ hnt
    | succ k => rfl

/-- **Lazily consumed histories.**  Consuming results only partly changes nothing but what the
application gets to see: the endpoint ends in the same state as on the drained history (unpolled
`Tick`s removed), it sends the same datagrams and raises the same warnings, and the events the
application pulled are a sub-sequence (per call: a prefix) of the drained run's events. -/
theorem runLazy_drained (lh : LHistory) : ∀ (net net' : Net) (outs' : List (Ret × Out)),
    runLazy net lh = .ok (net', outs') →
    ∃ outs, run net (drainedHist lh) = .ok (net', outs) ∧ allSent outs' = allSent outs ∧
      allWarns outs' = allWarns outs ∧ (allEvents outs').Sublist (allEvents outs) := by
  induction lh with
  | nil =>
    intro net net' outs' h
    simp [runLazy] at h
    obtain ⟨h1, h2⟩ := h
    subst h1 h2
    exact ⟨[], by simp [drainedHist, run], rfl, rfl, by simp [allEvents]⟩
  | cons x xs ih =>
    obtain ⟨env, op, pull⟩ := x
    intro net net' outs' h
    simp only [runLazy] at h
    cases hs : stepLazy env net op pull with
    | error f => simp [hs] at h
    | ok v =>
      obtain ⟨net1, r, o'⟩ := v
      simp only [hs] at h
      cases hrest : runLazy net1 xs with
      | error f => simp [hrest] at h
      | ok w =>
        obtain ⟨net2, outs2⟩ := w
        simp only [hrest, Except.ok.injEq, Prod.mk.injEq] at h
        obtain ⟨h1, h2⟩ := h
        subst h1 h2
        obtain ⟨outs, hr, hsent, hwarn, hev⟩ := ih net1 net2 outs2 hrest
        by_cases hnt : ∃ (_ : op = Op.tick), pull = some 0
        · obtain ⟨hop, hp⟩ := hnt
          subst hop hp
          simp only [stepLazy, Except.ok.injEq, Prod.mk.injEq] at hs
          obtain ⟨h1, h2, h3⟩ := hs
          subst h1 h2 h3
          refine ⟨outs, by simpa [drainedHist] using hr, ?_, ?_, ?_⟩
          · simpa [allSent] using hsent
          · simpa [allWarns] using hwarn
          · simpa [allEvents] using hev
        · obtain ⟨o, hstep, hs1, hs2, k, hs3⟩ := stepLazy_spec hnt hs
          refine ⟨(r, o) :: outs, ?_, ?_, ?_, ?_⟩
          · rw [drainedHist_cons xs hnt]
            simp only [run, hstep, hr]
          · simp only [allSent, List.flatMap_cons] at hsent ⊢; rw [hs1, hsent]
          · simp only [allWarns, List.flatMap_cons] at hwarn ⊢; rw [hs2, hwarn]
          · simp only [allEvents, List.flatMap_cons] at hev ⊢
            rw [hs3]
            exact List.Sublist.append (List.take_sublist k o.events) hev

end Tw.Net
