import Tw.Model.Huffman

/-! Helper lemmas about the Huffman model (`Tw.Model.Huffman`): bit lists, packing, the round trip. -/
namespace Tw.Huffman

/-! ### bit lists -/

@[simp] theorem natBits_length (k n : Nat) : (natBits k n).length = k := by
  induction k generalizing n with
  | zero => simp [natBits]
  | succ k ih => simp [natBits, ih]

theorem bitsToNat_lt (bs : List Bool) : bitsToNat bs < 2 ^ bs.length := by
  induction bs with
  | nil => simp [bitsToNat]
  | cons b bs ih =>
    simp only [bitsToNat, List.length_cons, Nat.pow_succ]
    split <;> omega

theorem bitsToNat_append (p q : List Bool) :
    bitsToNat (p ++ q) = bitsToNat p + 2 ^ p.length * bitsToNat q := by
  induction p with
  | nil => simp [bitsToNat]
  | cons b p ih =>
    simp only [List.cons_append, bitsToNat, ih, List.length_cons, Nat.pow_succ]
    rw [Nat.mul_add, Nat.mul_comm (2 ^ p.length) 2, Nat.mul_assoc]
    omega

theorem natBits_zero (k : Nat) : natBits k 0 = List.replicate k false := by
  induction k with
  | zero => simp [natBits]
  | succ k ih => simp [natBits, ih, List.replicate_succ]

theorem natBits_bitsToNat (k : Nat) (bs : List Bool) (h : bs.length ≤ k) :
    natBits k (bitsToNat bs) = bs ++ List.replicate (k - bs.length) false := by
  induction bs generalizing k with
  | nil => simp [bitsToNat, natBits_zero]
  | cons b bs ih =>
    cases k with
    | zero => simp at h
    | succ k =>
      simp only [List.length_cons, Nat.succ_le_succ_iff] at h
      have h1 : ((if b then 1 else 0) + 2 * bitsToNat bs) / 2 = bitsToNat bs := by
        split <;> omega
      have h2 : (((if b then 1 else 0) + 2 * bitsToNat bs) % 2 == 1) = b := by
        cases b <;> simp <;> omega
      have h3 : k + 1 - (bs.length + 1) = k - bs.length := by omega
      simp only [bitsToNat, natBits, h1, h2, ih k h, List.length_cons, List.cons_append, h3]

theorem bitsToNat_natBits (k n : Nat) : bitsToNat (natBits k n) = n % 2 ^ k := by
  induction k generalizing n with
  | zero => simp [natBits, bitsToNat, Nat.mod_one]
  | succ k ih =>
    simp only [natBits, bitsToNat, ih, Nat.pow_succ]
    have : n % (2 ^ k * 2) = n % 2 + 2 * (n / 2 % 2 ^ k) := by
      rw [Nat.mul_comm, Nat.mod_mul]
    rw [this]
    rcases Nat.mod_two_eq_zero_or_one n with h | h <;> simp [h]

/-! ### packing -/

theorem byteBits_ofNat (n : Nat) (h : n < 256) : byteBits (UInt8.ofNat n) = natBits 8 n := by
  simp [byteBits, UInt8.toNat_ofNat', Nat.mod_eq_of_lt h]

theorem bitsToNat_snoc (p : List Bool) (b : Bool) :
    bitsToNat (p ++ [b]) = bitsToNat p + (if b then 2 ^ p.length else 0) := by
  rw [bitsToNat_append]
  cases b <;> simp [bitsToNat]

theorem packGo_bits (bs pend : List Bool) (k : Nat) (hk : pend.length = k) (h8 : k < 8) :
    (packGo bs k (bitsToNat pend)).flatMap byteBits
      = pend ++ bs ++ List.replicate ((8 - (k + bs.length) % 8) % 8) false := by
  induction bs generalizing pend k with
  | nil =>
    simp only [packGo, List.length_nil, Nat.add_zero, List.append_nil]
    split
    · next h0 =>
      subst h0
      have : pend = [] := List.length_eq_zero_iff.mp hk
      simp [this]
    · next h0 =>
      have hlt := bitsToNat_lt pend
      have : bitsToNat pend < 256 := by
        have : 2 ^ pend.length ≤ 2 ^ 8 := Nat.pow_le_pow_right (by decide) (by omega)
        omega
      simp only [List.flatMap_cons, List.flatMap_nil, List.append_nil, byteBits_ofNat _ this]
      rw [natBits_bitsToNat 8 pend (by omega)]
      congr 2
      omega
  | cons b bs ih =>
    simp only [packGo]
    rw [← hk, ← bitsToNat_snoc]
    split
    · next h7 =>
      have hlen : (pend ++ [b]).length = 8 := by simp; omega
      have hlt := bitsToNat_lt (pend ++ [b])
      rw [hlen] at hlt
      simp only [List.flatMap_cons, byteBits_ofNat _ hlt]
      rw [natBits_bitsToNat 8 _ (by omega)]
      have := ih [] 0 rfl (by decide)
      simp only [bitsToNat] at this
      rw [this, hlen]
      have h3 : (8 - (pend.length + (bs.length + 1)) % 8) % 8 = (8 - (0 + bs.length) % 8) % 8 := by
        omega
      simp only [List.length_cons, Nat.sub_self, List.replicate_zero, List.append_nil,
        List.nil_append, List.append_assoc, List.cons_append, h3]
    · next h7 =>
      have := ih (pend ++ [b]) (pend.length + 1) (by simp) (by omega)
      rw [this]
      have h3 : pend.length + 1 + bs.length = pend.length + (bs.length + 1) := by omega
      simp only [List.append_assoc, List.cons_append, List.nil_append, List.length_cons, h3]

theorem packBits_bits (bs : List Bool) :
    (packBits bs).flatMap byteBits = bs ++ List.replicate ((8 - bs.length % 8) % 8) false := by
  have := packGo_bits bs [] 0 rfl (by decide)
  simpa [packBits, bitsToNat] using this

theorem packGo_length (bs : List Bool) (k acc : Nat) (h8 : k < 8) :
    (packGo bs k acc).length = (k + bs.length + 7) / 8 := by
  induction bs generalizing k acc with
  | nil =>
    simp only [packGo, List.length_nil]
    split <;> simp <;> omega
  | cons b bs ih =>
    simp only [packGo, List.length_cons]
    split
    · rw [List.length_cons, ih 0 0 (by decide)]; omega
    · rw [ih (k + 1) _ (by omega)]; omega

theorem packBits_length (bs : List Bool) : (packBits bs).length = (bs.length + 7) / 8 := by
  simp [packBits, packGo_length bs 0 0 (by decide)]

/-! ### lengths -/

theorem codeBits_length (t : Table) (s : Nat) : (codeBits t s).length = symLen t s := by
  simp [codeBits, codeBitsF, symLen]

theorem flatMap_codeBits_length (t : Table) (ss : List Nat) :
    (ss.flatMap (codeBits t)).length = (ss.map (symLen t)).sum := by
  induction ss with
  | nil => simp
  | cons s ss ih => simp [codeBits_length, ih]

theorem streamBits_length (t : Table) (xs : List UInt8) :
    (streamBits t xs).length = compressedBitLen t xs := by
  simp [streamBits, compressedBitLen, codeBits_length, Function.comp_def]

theorem compress_length_false (t : Table) (xs : List UInt8) :
    (compress t false xs).length = compressedLen t xs := by
  simp [compress, compressedLen, packBits_length, streamBits_length]

theorem compress_length_true (t : Table) (xs : List UInt8) :
    (compress t true xs).length = compressedLenBug t xs := by
  simp only [compress, compressedLenBug, List.length_append, packBits_length, streamBits_length,
    true_and]
  split <;> simp <;> omega

theorem compressedLen_le_bug (t : Table) (xs : List UInt8) :
    compressedLen t xs ≤ compressedLenBug t xs ∧ compressedLenBug t xs ≤ compressedLen t xs + 1 := by
  simp only [compressedLen, compressedLenBug]; omega

end Tw.Huffman
