/-
C12: the invariant carried along an arbitrary admissible message sequence, and what it implies
for every single message of the sequence.
-/
import Tw.Proofs.SnapXfer
import Mathlib.Data.List.Induction

namespace Tw.SnapXfer

/-- what the receiver hands out for the transfer -/
def delivery (tick base crc : Int) (data : List UInt8) : Received :=
  { deltaTick := base, tick := tick, dataCrc := if data = [] then none else some (data, crc) }

/-- the three message forms `delta_chunks` chooses between -/
inductive Form (tick base crc : Int) (data : List UInt8) (msgs : List Msg) : Prop
  | empty (h : data = []) (hm : msgs = [.empty tick (wrapSub tick base)])
  | single (h : numParts data.length = 1) (hm : msgs = [.single tick (wrapSub tick base) crc data])
  | multi (h : 2 ≤ numParts data.length)
      (hm : msgs = (List.range (numParts data.length)).map (partMsg tick base crc data))

theorem deltaChunks_form {tick base crc : Int} {data : List UInt8} {msgs : List Msg}
    (hlen : data.length ≤ maxParts * partSize) (h : deltaChunks tick base data crc = .ok msgs) :
    Form tick base crc data msgs := by
  have hn := numParts_le _ hlen
  have hn' : numParts data.length ≤ 2147483647 := by unfold maxParts at hn; omega
  unfold deltaChunks at h
  simp only [hn', not_true_eq_false, if_false] at h
  by_cases h0 : numParts data.length = 0
  · simp only [h0, if_true] at h
    have hd : data = [] := by
      have := (numParts_eq_zero _).mp h0
      exact List.eq_nil_of_length_eq_zero this
    injection h with h
    exact .empty hd h.symm
  · simp only [h0, if_false] at h
    by_cases h1 : numParts data.length = 1
    · simp only [h1, if_true] at h
      injection h with h
      exact .single h1 h.symm
    · simp only [h1, if_false] at h
      injection h with h
      exact .multi (by omega) h.symm

theorem partMsg_inj {tick base crc : Int} {data : List UInt8} {i j : Nat}
    (h : partMsg tick base crc data i = partMsg tick base crc data j) : i = j := by
  unfold partMsg at h
  injection h with _ _ _ h4
  exact_mod_cast h4

theorem partMsg_tick (tick base crc : Int) (data : List UInt8) (i : Nat) :
    (partMsg tick base crc data i).tick = tick := rfl

theorem Form.tick_eq {tick base crc : Int} {data : List UInt8} {msgs : List Msg}
    (hf : Form tick base crc data msgs) : ∀ x, x ∈ msgs → x.tick = tick := by
  intro x hx
  cases hf with
  | empty _ hm => subst hm; simp at hx; subst hx; rfl
  | single _ hm => subst hm; simp at hx; subst hx; rfl
  | multi _ hm =>
    subst hm
    obtain ⟨i, _, rfl⟩ := List.mem_map.mp hx
    rfl

theorem Mid.congr {tick base crc : Int} {data : List UInt8} {seen seen' : Nat → Prop} {r : Receiver}
    (hm : Mid tick base crc data seen r) (h : ∀ i, seen' i ↔ seen i) : Mid tick base crc data seen' r where
  cur := hm.cur
  len := hm.len
  got := fun i hi => hm.got i ((h i).mp hi)
  free := fun i hi => hm.free i (fun hs => hi ((h i).mpr hs))

/-- part `i` of the transfer occurs in `pre` -/
def seenIn (tick base crc : Int) (data : List UInt8) (pre : List Msg) (i : Nat) : Prop :=
  i < numParts data.length ∧ partMsg tick base crc data i ∈ pre

/-- The state of the receiver after the admissible messages `pre`, started in `r0`. -/
structure Inv (r0 : Receiver) (tick base crc : Int) (data : List UInt8) (msgs pre : List Msg)
    (r : Receiver) : Prop where
  newest : newestSeen r0 pre = r.newest
  state :
    ((∀ x, x ∈ msgs → x ∉ pre) ∧ r = r0) ∨
    ((∃ x, x ∈ msgs ∧ x ∈ pre) ∧ ¬ SeenAll msgs pre ∧
      Mid tick base crc data (seenIn tick base crc data pre) r) ∨
    (SeenAll msgs pre ∧ r.current = none ∧ r.previousTick = some tick)

/-- The five things that can happen to a message `m` arriving after `pre` in state `r`. -/
inductive Class (msgs : List Msg) (d : Received) (pre : List Msg) (m : Msg) (r : Receiver) : Prop
  | older (h : m ∉ msgs) (hs : r.step m = (r, .error .oldDelta, []))
  | after (h : m ∈ msgs) (hall : SeenAll msgs pre) (hs : r.step m = (r, .error .oldDelta, []))
  | dup (h : m ∈ msgs) (hall : ¬ SeenAll msgs pre) (hp : m ∈ pre)
      (hs : r.step m = (r, .error .duplicatePart, []))
  | part (h : m ∈ msgs) (hp : m ∉ pre) (hall : ¬ SeenAll msgs (pre ++ [m]))
      (hs : (r.step m).2 = (.ok none, []))
  | last (h : m ∈ msgs) (hp : m ∉ pre) (hall : SeenAll msgs (pre ++ [m]))
      (hs : (r.step m).2 = (.ok (some d), []))

theorem SeenAll.snoc {msgs pre : List Msg} (h : SeenAll msgs pre) (m : Msg) : SeenAll msgs (pre ++ [m]) :=
  fun x hx => List.mem_append_left _ (h x hx)

section
variable {r0 r : Receiver} {tick base crc : Int} {data : List UInt8} {msgs pre : List Msg} {m : Msg}

theorem Inv.newest_le (hf : Fresh r0 tick) (hinv : Inv r0 tick base crc data msgs pre r) :
    ∀ t, r.newest = some t → t ≤ tick := by
  intro t ht
  rcases hinv.state with ⟨_, rfl⟩ | ⟨_, _, hm⟩ | ⟨_, hc, hp⟩
  · exact Int.le_of_lt (hf t ht)
  · simp [Receiver.newest, hm.cur, curOf] at ht; omega
  · simp [Receiver.newest, hc, hp] at ht; omega

theorem inv_step_older (hform : Form tick base crc data msgs) (hf : Fresh r0 tick)
    (hinv : Inv r0 tick base crc data msgs pre r) {t : Int}
    (ht : newestSeen r0 pre = some t) (hlt : m.tick < t) :
    Inv r0 tick base crc data msgs (pre ++ [m]) (r.step m).1 ∧ Class msgs (delivery tick base crc data) pre m r := by
  have hrn : r.newest = some t := hinv.newest ▸ ht
  have hstep := older_rejected r m t hrn hlt
  have hle := hinv.newest_le hf t hrn
  have hne : ∀ x, x.tick = tick → x ≠ m := by
    intro x hx e; subst e; omega
  have hnotin : m ∉ msgs := fun h => hne m (hform.tick_eq m h) rfl
  have hmem : ∀ x, x.tick = tick → (x ∈ pre ++ [m] ↔ x ∈ pre) := by
    intro x hx
    simp only [List.mem_append, List.mem_singleton]
    constructor
    · rintro (h | h)
      · exact h
      · exact (hne x hx h).elim
    · exact Or.inl
  refine ⟨?_, .older hnotin hstep⟩
  rw [hstep]
  constructor
  · rw [newestSeen_snoc, ht, hrn]
    simp only [optMax]
    congr 1; omega
  · rcases hinv.state with ⟨h1, h2⟩ | ⟨h1, h2, h3⟩ | ⟨h1, h2, h3⟩
    · exact Or.inl ⟨fun x hx h => h1 x hx ((hmem x (hform.tick_eq x hx)).mp h), h2⟩
    · refine Or.inr (Or.inl ⟨?_, ?_, ?_⟩)
      · obtain ⟨x, hx, hxp⟩ := h1
        exact ⟨x, hx, List.mem_append_left _ hxp⟩
      · intro hall
        exact h2 (fun x hx => (hmem x (hform.tick_eq x hx)).mp (hall x hx))
      · apply h3.congr
        intro i
        unfold seenIn
        rw [hmem _ (partMsg_tick tick base crc data i)]
    · exact Or.inr (Or.inr ⟨h1.snoc m, h2, h3⟩)

theorem optMax_self (t : Int) : optMax (some t) t = some t := by simp [optMax]

theorem inv_step_done (hform : Form tick base crc data msgs)
    (hinv : Inv r0 tick base crc data msgs pre r) (hm : m ∈ msgs)
    (hall : SeenAll msgs pre) (hc : r.current = none) (hp : r.previousTick = some tick) :
    Inv r0 tick base crc data msgs (pre ++ [m]) (r.step m).1 ∧ Class msgs (delivery tick base crc data) pre m r := by
  have ht := hform.tick_eq m hm
  have hstep := step_done r m tick hc hp (by omega)
  refine ⟨?_, .after hm hall hstep⟩
  rw [hstep]
  constructor
  · rw [newestSeen_snoc, hinv.newest, ht]
    simp [Receiver.newest, hc, hp, optMax]
  · exact Or.inr (Or.inr ⟨hall.snoc m, hc, hp⟩)

/-- a transfer that consists of one message (`SnapEmpty` or `SnapSingle`) -/
theorem inv_step_oneshot (hf : Fresh r0 tick) (hmsgs : msgs = [m]) (htick : m.tick = tick)
    (hinv : Inv r0 tick base crc data msgs pre r0) (hnone : ∀ x, x ∈ msgs → x ∉ pre)
    {r' : Receiver} (hs : r0.step m = (r', .ok (some (delivery tick base crc data)), []))
    (hc : r'.current = none) (hp : r'.previousTick = some tick) :
    Inv r0 tick base crc data msgs (pre ++ [m]) (r0.step m).1 ∧ Class msgs (delivery tick base crc data) pre m r0 := by
  have hm : m ∈ msgs := by simp [hmsgs]
  have hall : SeenAll msgs (pre ++ [m]) := by
    intro x hx; rw [hmsgs] at hx; simp at hx; subst hx; simp
  refine ⟨?_, .last hm (hnone m hm) hall (by rw [hs])⟩
  rw [hs]
  constructor
  · rw [newestSeen_snoc, hinv.newest, htick, hf.optMax]
    simp [Receiver.newest, hc, hp]
  · exact Or.inr (Or.inr ⟨hall, hc, hp⟩)

theorem seenIn_snoc_part {k : Nat} (hk : k < numParts data.length) (i : Nat) :
    seenIn tick base crc data (pre ++ [partMsg tick base crc data k]) i ↔
      (i = k ∨ seenIn tick base crc data pre i) := by
  unfold seenIn
  simp only [List.mem_append, List.mem_singleton]
  constructor
  · rintro ⟨hi, h | h⟩
    · exact Or.inr ⟨hi, h⟩
    · exact Or.inl (partMsg_inj h)
  · rintro (h | ⟨hi, h⟩)
    · subst h; exact ⟨hk, Or.inr rfl⟩
    · exact ⟨hi, Or.inl h⟩

theorem seenAll_multi_iff {l : List Msg}
    (hm : msgs = (List.range (numParts data.length)).map (partMsg tick base crc data)) :
    SeenAll msgs l ↔ ∀ i, i < numParts data.length → seenIn tick base crc data l i := by
  subst hm
  unfold SeenAll seenIn
  constructor
  · intro h i hi
    exact ⟨hi, h _ (List.mem_map.mpr ⟨i, List.mem_range.mpr hi, rfl⟩)⟩
  · intro h x hx
    obtain ⟨i, hi, rfl⟩ := List.mem_map.mp hx
    exact (h i (List.mem_range.mp hi)).2

/-- a part of a multi-part transfer arriving while the transfer is in progress (or starting it) -/
theorem inv_step_part (hb : inI32 base) (hn : numParts data.length ≤ maxParts)
    (h2 : 2 ≤ numParts data.length)
    (hmsgs : msgs = (List.range (numParts data.length)).map (partMsg tick base crc data))
    {k : Nat} (hk : k < numParts data.length)
    (hnew : newestSeen r0 (pre ++ [partMsg tick base crc data k]) = some tick)
    {r1 : Receiver} (hstep1 : r.step (partMsg tick base crc data k) = r1.step (partMsg tick base crc data k))
    (hmid : Mid tick base crc data (seenIn tick base crc data pre) r1)
    (hnotall : ¬ SeenAll msgs pre) :
    Inv r0 tick base crc data msgs (pre ++ [partMsg tick base crc data k]) (r.step (partMsg tick base crc data k)).1 ∧
      Class msgs (delivery tick base crc data) pre (partMsg tick base crc data k) r1 := by
  have hmem : partMsg tick base crc data k ∈ msgs := by
    rw [hmsgs]; exact List.mem_map.mpr ⟨k, List.mem_range.mpr hk, rfl⟩
  have hdata : data ≠ [] := by
    intro e; subst e
    have : numParts ([] : List UInt8).length = 0 := (numParts_eq_zero _).mpr rfl
    omega
  by_cases hs : seenIn tick base crc data pre k
  · -- a repetition
    have hstep := step_mid_dup hb hn hmid hk hs
    refine ⟨?_, .dup hmem hnotall hs.2 hstep⟩
    rw [hstep1, hstep]
    have hiff : ∀ i, seenIn tick base crc data (pre ++ [partMsg tick base crc data k]) i ↔
        seenIn tick base crc data pre i := by
      intro i; rw [seenIn_snoc_part hk]
      constructor
      · rintro (h | h)
        · subst h; exact hs
        · exact h
      · exact Or.inr
    constructor
    · rw [hnew]; simp [Receiver.newest, hmid.cur, curOf]
    · refine Or.inr (Or.inl ⟨⟨_, hmem, by simp⟩, ?_, hmid.congr hiff⟩)
      rw [seenAll_multi_iff hmsgs] at hnotall ⊢
      intro h; exact hnotall (fun i hi => (hiff i).mp (h i hi))
  · have hnotin : partMsg tick base crc data k ∉ pre := fun h => hs ⟨hk, h⟩
    by_cases hall : ∀ i, i < numParts data.length → (i = k ∨ seenIn tick base crc data pre i)
    · -- the last missing part
      have hstep := step_mid_last hb hn hmid hk hs hall
      have hall' : SeenAll msgs (pre ++ [partMsg tick base crc data k]) := by
        rw [seenAll_multi_iff hmsgs]
        intro i hi; exact (seenIn_snoc_part hk i).mpr (hall i hi)
      refine ⟨?_, .last hmem hnotin hall' ?_⟩
      · rw [hstep1, hstep]
        constructor
        · rw [hnew]; simp [Receiver.newest]
        · exact Or.inr (Or.inr ⟨hall', rfl, rfl⟩)
      · rw [hstep]; simp [delivery, hdata]
    · -- a new part, more to come
      have hstep := step_mid_new hb hn hmid hk hs hall
      have hnall' : ¬ SeenAll msgs (pre ++ [partMsg tick base crc data k]) := by
        rw [seenAll_multi_iff hmsgs]
        intro h; exact hall (fun i hi => (seenIn_snoc_part hk i).mp (h i hi))
      refine ⟨?_, .part hmem hnotin hnall' (by rw [hstep])⟩
      rw [hstep1, hstep]
      constructor
      · rw [hnew]; simp [Receiver.newest, hmid.cur, curOf]
      · refine Or.inr (Or.inl ⟨⟨_, hmem, by simp⟩, hnall', ?_⟩)
        exact (hmid.insert hk).congr (seenIn_snoc_part hk)

/-- One admissible message: the invariant is preserved and the message is classified. -/
theorem inv_step (hb : inI32 base) (hlen : data.length ≤ maxParts * partSize)
    (hform : Form tick base crc data msgs) (hf : Fresh r0 tick)
    (hinv : Inv r0 tick base crc data msgs pre r)
    (hadm : m ∈ msgs ∨ ∃ t, newestSeen r0 pre = some t ∧ m.tick < t) :
    Inv r0 tick base crc data msgs (pre ++ [m]) (r.step m).1 ∧
      Class msgs (delivery tick base crc data) pre m r := by
  have hn := numParts_le _ hlen
  rcases hadm with hm | ⟨t, ht, hlt⟩
  swap
  · exact inv_step_older hform hf hinv ht hlt
  rcases hinv.state with ⟨hnone, rfl⟩ | ⟨hsome, hnotall, hmid⟩ | ⟨hall, hc, hp⟩
  · -- nothing of the transfer has arrived yet
    cases hform with
    | empty hd hmsgs =>
      have hmm : m = .empty tick (wrapSub tick base) := by rw [hmsgs] at hm; simpa using hm
      subst hmm
      refine inv_step_oneshot hf hmsgs rfl hinv hnone
        (r' := { r with parts := [], current := none, previousTick := some tick }) ?_ rfl rfl
      rw [step_fresh_empty hb hf]; simp [delivery, hd]
    | single h1 hmsgs =>
      have hmm : m = .single tick (wrapSub tick base) crc data := by rw [hmsgs] at hm; simpa using hm
      subst hmm
      have hd : data ≠ [] := by
        intro e; subst e
        have : numParts ([] : List UInt8).length = 0 := (numParts_eq_zero _).mpr rfl
        omega
      refine inv_step_oneshot hf hmsgs rfl hinv hnone
        (r' := { r with parts := [], current := none, previousTick := some tick }) ?_ rfl rfl
      rw [step_fresh_single hb hf]; simp [delivery, hd]
    | multi h2 hmsgs =>
      obtain ⟨k, hk, rfl⟩ : ∃ k, k < numParts data.length ∧ partMsg tick base crc data k = m := by
        rw [hmsgs] at hm
        obtain ⟨k, hk, e⟩ := List.mem_map.mp hm
        exact ⟨k, List.mem_range.mp hk, e⟩
      have hnew : newestSeen r (pre ++ [partMsg tick base crc data k]) = some tick := by
        rw [newestSeen_snoc, hinv.newest, partMsg_tick, hf.optMax]
      have hnotall : ¬ SeenAll msgs pre := fun h => hnone _ hm (h _ hm)
      have hmid : Mid tick base crc data (seenIn tick base crc data pre) (startOf tick base crc data r) := by
        apply startOf_mid.congr
        intro i
        constructor
        · rintro ⟨hi, h⟩
          exact hnone _ (by rw [hmsgs]; exact List.mem_map.mpr ⟨i, List.mem_range.mpr hi, rfl⟩) h
        · exact False.elim
      have hstep1 := step_fresh_part (crc := crc) hb hn hk hf
      obtain ⟨hi, hcl⟩ := inv_step_part hb hn h2 hmsgs hk hnew hstep1 hmid hnotall
      refine ⟨hi, ?_⟩
      cases hcl with
      | older h _ => exact (h hm).elim
      | after _ hall _ => exact (hnotall hall).elim
      | dup _ _ hp _ => exact (hnone _ hm hp).elim
      | part h hp hall hs => exact .part h hp hall (by rw [hstep1]; exact hs)
      | last h hp hall hs => exact .last h hp hall (by rw [hstep1]; exact hs)
  · -- the transfer is in progress: only the multi-part form has such a state
    cases hform with
    | empty hd hmsgs =>
      exfalso; apply hnotall
      obtain ⟨x, hx, hxp⟩ := hsome
      intro y hy; rw [hmsgs] at hx hy; simp at hx hy; subst hx hy; exact hxp
    | single h1 hmsgs =>
      exfalso; apply hnotall
      obtain ⟨x, hx, hxp⟩ := hsome
      intro y hy; rw [hmsgs] at hx hy; simp at hx hy; subst hx hy; exact hxp
    | multi h2 hmsgs =>
      obtain ⟨k, hk, rfl⟩ : ∃ k, k < numParts data.length ∧ partMsg tick base crc data k = m := by
        rw [hmsgs] at hm
        obtain ⟨k, hk, e⟩ := List.mem_map.mp hm
        exact ⟨k, List.mem_range.mp hk, e⟩
      have hnew : newestSeen r0 (pre ++ [partMsg tick base crc data k]) = some tick := by
        rw [newestSeen_snoc, hinv.newest, partMsg_tick]
        simp [Receiver.newest, hmid.cur, curOf, optMax]
      exact inv_step_part hb hn h2 hmsgs hk hnew rfl hmid hnotall
  · exact inv_step_done hform hinv hm hall hc hp

theorem inv_init : Inv r0 tick base crc data msgs [] r0 where
  newest := rfl
  state := Or.inl ⟨fun _ _ h => by simp at h, rfl⟩

/-- The invariant holds after every prefix of an admissible sequence. -/
theorem inv_after (hb : inI32 base) (hlen : data.length ≤ maxParts * partSize)
    (hform : Form tick base crc data msgs) (hf : Fresh r0 tick) :
    ∀ (pre post : List Msg), Admissible r0 msgs (pre ++ post) →
      Inv r0 tick base crc data msgs pre (r0.after pre) := by
  intro pre
  induction pre using List.reverseRecOn with
  | nil => intro _ _; exact inv_init
  | append_singleton pre m ih =>
    intro post hadm
    have hinv := ih (m :: post) (by simpa using hadm)
    have := (inv_step hb hlen hform hf hinv (hadm pre m post (by simp))).1
    rw [after_snoc]; exact this

/-- Every message of an admissible sequence is classified (in the state the receiver is in when
the message arrives). -/
theorem classify (hb : inI32 base) (hlen : data.length ≤ maxParts * partSize)
    (hform : Form tick base crc data msgs) (hf : Fresh r0 tick)
    {ms : List Msg} (hadm : Admissible r0 msgs ms) (post : List Msg) (hsplit : ms = pre ++ m :: post) :
    Class msgs (delivery tick base crc data) pre m (r0.after pre) := by
  subst hsplit
  have hinv := inv_after hb hlen hform hf pre (m :: post) hadm
  exact (inv_step hb hlen hform hf hinv (hadm pre m post rfl)).2

end

/-- a result that hands out a snapshot delta -/
def isDelivery (x : Result × List Warning) : Bool :=
  match x.1 with
  | .ok (some _) => true
  | _ => false

theorem Class.seenAll_step {msgs pre : List Msg} {d : Received} {m : Msg} {r : Receiver}
    (hc : Class msgs d pre m r) :
    (SeenAll msgs pre → SeenAll msgs (pre ++ [m]) ∧ isDelivery (r.step m).2 = false) ∧
    (¬ SeenAll msgs pre → SeenAll msgs (pre ++ [m]) → (r.step m).2 = (.ok (some d), [])) ∧
    (¬ SeenAll msgs pre → ¬ SeenAll msgs (pre ++ [m]) → isDelivery (r.step m).2 = false) := by
  cases hc with
  | older h hs =>
    have hback : SeenAll msgs (pre ++ [m]) → SeenAll msgs pre := by
      intro hall x hx
      have := hall x hx
      simp only [List.mem_append, List.mem_singleton] at this
      rcases this with h' | h'
      · exact h'
      · subst h'; exact (h hx).elim
    refine ⟨fun hall => ⟨hall.snoc m, by rw [hs]; rfl⟩, fun hn ha => (hn (hback ha)).elim, fun _ _ => by rw [hs]; rfl⟩
  | after h hall hs =>
    exact ⟨fun hall => ⟨hall.snoc m, by rw [hs]; rfl⟩, fun hn _ => (hn hall).elim, fun _ _ => by rw [hs]; rfl⟩
  | dup h hall hp hs =>
    exact ⟨fun ha => (hall ha).elim, fun _ ha => by
      exfalso; apply hall
      intro x hx
      have := ha x hx
      simp only [List.mem_append, List.mem_singleton] at this
      rcases this with h' | h'
      · exact h'
      · subst h'; exact hp, fun _ _ => by rw [hs]; rfl⟩
  | part h hp hall hs =>
    exact ⟨fun ha => (hall (ha.snoc m)).elim, fun _ ha => (hall ha).elim, fun _ _ => by rw [hs]; rfl⟩
  | last h hp hall hs =>
    exact ⟨fun ha => (hp (ha m h)).elim, fun _ _ => hs, fun _ hn => (hn hall).elim⟩

section
variable {r0 : Receiver} {tick base crc : Int} {data : List UInt8} {msgs : List Msg}

/-- Exactly once: the number of deliveries among the results of an admissible sequence is one if
every message of the transfer has arrived, and zero otherwise. -/
theorem deliveries (hb : inI32 base) (hlen : data.length ≤ maxParts * partSize)
    (hform : Form tick base crc data msgs) (hf : Fresh r0 tick) :
    ∀ (pre post : List Msg), Admissible r0 msgs (pre ++ post) →
      (SeenAll msgs pre → (r0.run pre).countP isDelivery = 1) ∧
      (¬ SeenAll msgs pre → (r0.run pre).countP isDelivery = 0) := by
  intro pre
  induction pre using List.reverseRecOn with
  | nil => intro _ _; exact ⟨fun _ => by
      exfalso
      cases hform with
      | empty _ hm => subst hm; rename_i h; simpa using h _ (List.mem_singleton.mpr rfl)
      | single _ hm => subst hm; rename_i h; simpa using h _ (List.mem_singleton.mpr rfl)
      | multi h2 hm =>
        subst hm; rename_i h
        have := h (partMsg tick base crc data 0) (List.mem_map.mpr ⟨0, List.mem_range.mpr (by omega), rfl⟩)
        simp at this, fun _ => rfl⟩
  | append_singleton pre m ih =>
    intro post hadm
    have hadm' : Admissible r0 msgs (pre ++ m :: post) := by simpa using hadm
    obtain ⟨ih1, ih0⟩ := ih (m :: post) hadm'
    have hcl := classify hb hlen hform hf hadm' post rfl
    obtain ⟨c1, c2, c3⟩ := hcl.seenAll_step
    rw [run_snoc, List.countP_append]
    by_cases hall : SeenAll msgs pre
    · obtain ⟨ha, hd⟩ := c1 hall
      refine ⟨fun _ => ?_, fun hn => (hn ha).elim⟩
      rw [ih1 hall]; simp [hd]
    · by_cases hall' : SeenAll msgs (pre ++ [m])
      · refine ⟨fun _ => ?_, fun hn => (hn hall').elim⟩
        rw [ih0 hall, c2 hall hall']; simp [isDelivery]
      · refine ⟨fun ha => (hall' ha).elim, fun _ => ?_⟩
        rw [ih0 hall]; simp [c3 hall hall']

end

/-! ### a newer tick abandons the transfer -/

/-- passes the argument checks of `DeltaReceiver::snap` -/
def Msg.wellFormed : Msg → Prop
  | .snap _ _ n p _ _ => 0 ≤ n ∧ n ≤ (maxParts : Int) ∧ 0 ≤ p ∧ p < n
  | _ => True

/-- a step either leaves the newest known tick alone or raises it to the message's tick -/
theorem step_newest (r : Receiver) (m : Msg) :
    (r.step m).1.newest = r.newest ∨
      (r.canReceive m.tick = true ∧ (r.step m).1.newest = some m.tick) := by
  cases m with
  | empty t dt =>
    simp only [Receiver.step, Receiver.snapEmpty, Msg.tick]
    by_cases hc : r.canReceive t = true
    · right; simp [hc, Receiver.newest]
    · left; simp [hc]
  | single t dt c d =>
    simp only [Receiver.step, Receiver.snapSingle, Msg.tick]
    by_cases hc : r.canReceive t = true
    · right; simp [hc, Receiver.newest]
    · left; simp [hc]
  | snap t dt n p c d =>
    simp only [Receiver.step, Receiver.snap, Msg.tick]
    by_cases hc : r.canReceive t = true
    swap
    · left; simp [hc]
    by_cases h1 : (0 ≤ n ∧ n ≤ (maxParts : Int))
    swap
    · left; simp [hc, h1]
    by_cases h2 : (0 ≤ p ∧ p < n)
    swap
    · left; simp [hc, h1, h2]
    right
    refine ⟨hc, ?_⟩
    have he : (r.enter t dt n c).1.current = some (r.enter t dt n c).2 ∧ (r.enter t dt n c).2.tick = t := by
      unfold Receiver.enter
      cases hcur : r.current with
      | none => simp
      | some c0 =>
        by_cases hct : c0.tick = t
        · simp [hct, hcur]
        · simp [hct]
    obtain ⟨he1, he2⟩ := he
    generalize r.enter t dt n c = e at he1 he2 ⊢
    obtain ⟨r', cur⟩ := e
    simp only at he1 he2 ⊢
    by_cases hcon : r'.parts.contains p.toNat = true
    · simp [hc, h1, h2, hcon, Receiver.newest, he1, he2]
    · by_cases hcnt : ((r'.parts.insert p.toNat d).count : Int) = cur.numParts
      · simp [hc, h1, h2, hcon, hcnt, Receiver.newest, he2]
      · simp [hc, h1, h2, hcon, hcnt, Receiver.newest, he1, he2]

theorem canReceive_newest_le (r : Receiver) (t : Int) (h : r.canReceive t = true) :
    ∀ n, r.newest = some n → n ≤ t := by
  intro n hn
  unfold Receiver.canReceive at h
  unfold Receiver.newest at hn
  cases hcur : r.current with
  | some c => simp [hcur] at h hn; omega
  | none => simp [hcur] at h hn; simp [hn] at h; omega

/-- the newest known tick never decreases -/
theorem newest_mono (r : Receiver) (ms : List Msg) (t : Int) (h : r.newest = some t) :
    ∃ t', (r.after ms).newest = some t' ∧ t ≤ t' := by
  induction ms generalizing r t with
  | nil => exact ⟨t, h, Int.le_refl _⟩
  | cons m ms ih =>
    rcases step_newest r m with h1 | ⟨hc, h1⟩
    · exact ih (r.step m).1 t (h1.trans h)
    · obtain ⟨t', ht', hle⟩ := ih (r.step m).1 m.tick h1
      exact ⟨t', ht', Int.le_trans (canReceive_newest_le r _ hc t h) hle⟩

/-- a well-formed message of a receivable tick makes that tick the newest known one -/
theorem step_newest_of_accept (r : Receiver) (m : Msg) (hc : r.canReceive m.tick = true)
    (hwf : m.wellFormed) : (r.step m).1.newest = some m.tick := by
  cases m with
  | empty t dt =>
    simp only [Msg.tick] at hc
    simp [Receiver.step, Receiver.snapEmpty, Msg.tick, hc, Receiver.newest]
  | single t dt c d =>
    simp only [Msg.tick] at hc
    simp [Receiver.step, Receiver.snapSingle, Msg.tick, hc, Receiver.newest]
  | snap t dt n p c d =>
    simp only [Msg.tick] at hc
    obtain ⟨w1, w2, w3, w4⟩ := hwf
    have h1 : (0 ≤ n ∧ n ≤ (maxParts : Int)) := ⟨w1, w2⟩
    have h2 : (0 ≤ p ∧ p < n) := ⟨w3, w4⟩
    simp only [Receiver.step, Receiver.snap, Msg.tick]
    have he : (r.enter t dt n c).1.current = some (r.enter t dt n c).2 ∧ (r.enter t dt n c).2.tick = t := by
      unfold Receiver.enter
      cases hcur : r.current with
      | none => simp
      | some c0 =>
        by_cases hct : c0.tick = t
        · simp [hct, hcur]
        · simp [hct]
    obtain ⟨he1, he2⟩ := he
    generalize r.enter t dt n c = e at he1 he2 ⊢
    obtain ⟨r', cur⟩ := e
    simp only at he1 he2 ⊢
    by_cases hcon : r'.parts.contains p.toNat = true
    · simp [hc, h1, h2, hcon, Receiver.newest, he1, he2]
    · by_cases hcnt : ((r'.parts.insert p.toNat d).count : Int) = cur.numParts
      · simp [hc, h1, h2, hcon, hcnt, Receiver.newest, he2]
      · simp [hc, h1, h2, hcon, hcnt, Receiver.newest, he1, he2]

/-- Once a tick newer than `tick` is known, every message of `tick` or older is refused, whatever
else arrives in between: an abandoned transfer is never continued. -/
theorem refused_after_newer (r : Receiver) (t tick : Int) (hn : r.newest = some t) (hlt : tick < t)
    (pre : List Msg) (x : Msg) (hx : x.tick ≤ tick) :
    (r.after pre).step x = (r.after pre, .error .oldDelta, []) := by
  obtain ⟨t', ht', hle⟩ := newest_mono r pre t hn
  exact older_rejected _ x t' ht' (by omega)

theorem admissible_of_all_mem (r : Receiver) (msgs ms : List Msg) (h : ∀ m, m ∈ ms → m ∈ msgs) :
    Admissible r msgs ms := by
  intro pre m post hs
  left; apply h; rw [hs]; simp

/-- The classification, spelled out as the five clauses of the C12 statement. -/
theorem Class.verdict {msgs pre : List Msg} {d : Received} {m : Msg} {r : Receiver}
    (hc : Class msgs d pre m r) :
    (m ∉ msgs → r.step m = (r, .error .oldDelta, [])) ∧
    (m ∈ msgs → SeenAll msgs pre → r.step m = (r, .error .oldDelta, [])) ∧
    (m ∈ msgs → ¬ SeenAll msgs pre → m ∈ pre → r.step m = (r, .error .duplicatePart, [])) ∧
    (m ∈ msgs → m ∉ pre → ¬ SeenAll msgs (pre ++ [m]) → (r.step m).2 = (.ok none, [])) ∧
    (m ∈ msgs → m ∉ pre → SeenAll msgs (pre ++ [m]) → (r.step m).2 = (.ok (some d), [])) := by
  cases hc with
  | older h hs =>
    exact ⟨fun _ => hs, fun h' => (h h').elim, fun h' => (h h').elim, fun h' => (h h').elim, fun h' => (h h').elim⟩
  | after h hall hs =>
    exact ⟨fun h' => (h' h).elim, fun _ _ => hs, fun _ hn => (hn hall).elim,
      fun _ _ hn => (hn (hall.snoc m)).elim, fun _ hp _ => (hp (hall m h)).elim⟩
  | dup h hall hp hs =>
    exact ⟨fun h' => (h' h).elim, fun _ ha => (hall ha).elim, fun _ _ _ => hs,
      fun _ hp' => (hp' hp).elim, fun _ hp' => (hp' hp).elim⟩
  | part h hp hall hs =>
    exact ⟨fun h' => (h' h).elim, fun _ ha => (hall (ha.snoc m)).elim, fun _ _ hp' => (hp hp').elim,
      fun _ _ _ => hs, fun _ _ ha => (hall ha).elim⟩
  | last h hp hall hs =>
    exact ⟨fun h' => (h' h).elim, fun _ ha => (hp (ha m h)).elim, fun _ _ hp' => (hp hp').elim,
      fun _ _ hn => (hn hall).elim, fun _ _ _ => hs⟩

end Tw.SnapXfer
