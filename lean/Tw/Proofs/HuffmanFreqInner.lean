import Tw.Proofs.HuffmanFreq
import Tw.Proofs.HuffmanDec

/-! Every table `fromFrequencies` returns has 513 entries and inner nodes whose children have smaller
indices and differ — enough for the decoder's termination and capacity theorems (`ChildLt`). -/
namespace Tw.Huffman

theorem insertDesc_perm (x : Freq) (l : List Freq) : (insertDesc x l).Perm (x :: l) := by
  induction l with
  | nil => exact List.Perm.refl _
  | cons y ys ih =>
    simp only [insertDesc]
    split
    · exact (List.Perm.cons y ih).trans (List.Perm.swap x y ys)
    · exact List.Perm.refl _

theorem foldl_insert_perm (l : List Freq) :
    ∀ acc, (l.foldl (fun acc x => insertDesc x acc) acc).Perm (acc ++ l) := by
  induction l with
  | nil => intro acc; simp
  | cons x l ih =>
    intro acc
    simp only [List.foldl_cons]
    refine (ih _).trans ?_
    refine (List.Perm.append_right l (insertDesc_perm x acc)).trans ?_
    exact (List.perm_middle (a := x) (l₁ := acc) (l₂ := l)).symm

theorem sortDesc_perm (l : List Freq) : (sortDesc l).Perm l := by
  simpa [sortDesc] using foldl_insert_perm l []

/-- every node except the root is a child of an inner node -/
def Covered (nodes : Table) : Prop :=
  ∀ j, j < nodes.size → j = nodes.size - 1 ∨
    (∃ i, NUM_SYMBOLS ≤ i ∧ i < nodes.size ∧ ((node nodes i).1 = j ∨ (node nodes i).2 = j))

/-- the inner-node condition of `WellFormed` for all nodes created so far -/
def InnerBelow (nodes : Table) : Prop :=
  ∀ i, NUM_SYMBOLS ≤ i → i < nodes.size →
    (node nodes i).1 < i ∧ (node nodes i).2 < i ∧ (node nodes i).1 ≠ (node nodes i).2

structure BInv (fs : List Freq) (nodes : Table) : Prop where
  size_ge : NUM_SYMBOLS ≤ nodes.size
  idx_lt : ∀ x ∈ fs, x.nodeIdx < nodes.size
  nodup : (fs.map (·.nodeIdx)).Nodup
  inner : InnerBelow nodes
  count : fs.length + nodes.size = 514
  nonempty : 1 ≤ fs.length
  covered : ∀ j, j < nodes.size → (∃ x ∈ fs, x.nodeIdx = j) ∨
    (∃ i, NUM_SYMBOLS ≤ i ∧ i < nodes.size ∧ ((node nodes i).1 = j ∨ (node nodes i).2 = j))

theorem buildTree_inv (fuel : Nat) :
    ∀ (fs : List Freq) (nodes : Table), BInv fs nodes → fs.length ≤ fuel + 1 →
      (buildTree fuel fs nodes).size = 513 ∧ InnerBelow (buildTree fuel fs nodes)
        ∧ Covered (buildTree fuel fs nodes) := by
  have hcov : ∀ (fs : List Freq) (nodes : Table), BInv fs nodes → fs.length ≤ 1 → Covered nodes := by
    intro fs nodes h hl j hj
    have hc := h.count; have hn := h.nonempty
    have hsz : nodes.size = 513 := by omega
    obtain ⟨x, hx⟩ : ∃ x, fs = [x] := by
      match fs, hl, hn with
      | [x], _, _ => exact ⟨x, rfl⟩
    subst hx
    -- the root can only be the single remaining element
    have hroot : x.nodeIdx = 512 := by
      rcases h.covered 512 (by omega) with ⟨y, hy, e⟩ | ⟨i, i1, i2, i3⟩
      · simp only [List.mem_singleton] at hy; subst hy; exact e
      · have := h.inner i i1 i2
        rcases i3 with e | e <;> omega
    rcases h.covered j hj with ⟨y, hy, e⟩ | hch
    · simp only [List.mem_singleton] at hy; subst hy
      left; omega
    · right; exact hch
  induction fuel with
  | zero =>
    intro fs nodes h hf
    have := h.count; have := h.nonempty
    simp only [buildTree]
    exact ⟨by omega, h.inner, hcov fs nodes h (by omega)⟩
  | succ f ih =>
    intro fs nodes h hf
    by_cases hlen : fs.length ≤ 1
    · have := h.count; have := h.nonempty
      rw [buildTree]; simp only [hlen, if_true]
      exact ⟨by omega, h.inner, hcov fs nodes h hlen⟩
    · have hperm := sortDesc_perm fs
      have hslen : (sortDesc fs).reverse.length = fs.length := by
        rw [List.length_reverse, hperm.length_eq]
      -- the two rarest
      obtain ⟨f1, f2, restRev, hrev⟩ : ∃ f1 f2 restRev, (sortDesc fs).reverse = f1 :: f2 :: restRev := by
        match hm : (sortDesc fs).reverse with
        | [] => rw [hm] at hslen; simp at hslen; omega
        | [_] => rw [hm] at hslen; simp at hslen; omega
        | f1 :: f2 :: r => exact ⟨f1, f2, r, rfl⟩
      rw [buildTree_step f fs nodes f1 f2 restRev hlen hrev]
      have hperm2 : (f1 :: f2 :: restRev).Perm fs := by
        rw [← hrev]; exact (List.reverse_perm _).trans hperm
      have hnd : ((f1 :: f2 :: restRev).map (·.nodeIdx)).Nodup :=
        ((hperm2.map (·.nodeIdx)).nodup_iff).mpr h.nodup
      have hmem : ∀ x ∈ f1 :: f2 :: restRev, x.nodeIdx < nodes.size :=
        fun x hx => h.idx_lt x ((hperm2.mem_iff).mp hx)
      have hl2 : (f1 :: f2 :: restRev).length = fs.length := hperm2.length_eq
      simp only [List.map_cons, List.nodup_cons, List.mem_cons, List.mem_map, not_or] at hnd
      obtain ⟨⟨hne, hf1r⟩, hf2r, hrest⟩ := hnd
      have h1 := hmem f1 (by simp)
      have h2 := hmem f2 (by simp)
      apply ih
      · constructor
        · simp only [Array.size_push]; have := h.size_ge; omega
        · intro x hx
          simp only [List.mem_append, List.mem_reverse, List.mem_singleton] at hx
          simp only [Array.size_push]
          rcases hx with hx | rfl
          · have := hmem x (by simp [hx]); omega
          · simp
        · simp only [List.map_append, List.map_reverse, List.map_cons, List.map_nil]
          rw [List.nodup_append]
          refine ⟨(List.reverse_perm _).nodup_iff.mpr hrest, by simp, ?_⟩
          intro a ha b hb
          simp only [List.mem_reverse, List.mem_map] at ha
          simp only [List.mem_singleton] at hb
          obtain ⟨x, hx, rfl⟩ := ha
          have := hmem x (by simp [hx])
          omega
        · intro i hi1 hi2
          simp only [Array.size_push] at hi2
          rw [node_push]
          by_cases hi : i = nodes.size
          · simp only [hi, if_true]
            exact ⟨h1, h2, hne⟩
          · simp only [hi, if_false]
            exact h.inner i hi1 (by omega)
        · simp only [List.length_append, List.length_reverse, List.length_singleton, Array.size_push]
          have := h.count
          simp only [List.length_cons] at hl2
          omega
        · simp
        · intro j hj
          simp only [Array.size_push] at hj
          by_cases hjs : j = nodes.size
          · left
            refine ⟨⟨if f1.frequency + f2.frequency > U32_MAX then U32_MAX else f1.frequency + f2.frequency,
              nodes.size⟩, ?_, hjs.symm⟩
            simp
          · rcases h.covered j (by omega) with ⟨x, hx, e⟩ | ⟨i, i1, i2, i3⟩
            · have hx' := (hperm2.mem_iff).mpr hx
              simp only [List.mem_cons] at hx'
              rcases hx' with rfl | rfl | hx'
              · right
                refine ⟨nodes.size, h.size_ge, by simp, ?_⟩
                rw [node_push]; simp [e]
              · right
                refine ⟨nodes.size, h.size_ge, by simp, ?_⟩
                rw [node_push]; simp [e]
              · left
                exact ⟨x, by simp [hx'], e⟩
            · right
              refine ⟨i, i1, by simp only [Array.size_push]; omega, ?_⟩
              rw [node_push]
              have : i ≠ nodes.size := by omega
              simp only [this, if_false]
              exact i3
      · simp only [List.length_append, List.length_reverse, List.length_singleton]
        simp only [List.length_cons] at hl2
        omega

/-! ### the traversal only writes leaves -/

theorem descend_ok_lt (nodes : Table) (fuel : Nat) :
    ∀ (stack : List Nat) (top : Nat) (st : List Nat) (tp : Nat),
      descend nodes fuel stack top = .ok st tp → tp < NUM_SYMBOLS := by
  induction fuel with
  | zero => intro stack top st tp h; simp [descend] at h
  | succ f ih =>
    intro stack top st tp h
    simp only [descend] at h
    split at h
    · split at h
      · cases h
      · split at h
        · cases h
        · exact ih _ _ _ _ h
    · cases h; omega

theorem node_set_ne (nodes : Table) (j i : Nat) (v : Nat × Nat) (h : j ≠ i) :
    node (nodes.set! j v) i = node nodes i := by
  simp only [node, Array.set!_eq_setIfInBounds, Array.getD_eq_getD_getElem?,
    Array.getElem?_setIfInBounds_ne h]

theorem dfs_inner (fuel : Nat) :
    ∀ (nodes : Table) (stack : List Nat) (bits : Nat) (first : Bool) (t : Table),
      dfs nodes fuel stack bits first = .ok t →
      t.size = nodes.size ∧ ∀ i, NUM_SYMBOLS ≤ i → node t i = node nodes i := by
  induction fuel with
  | zero => intro nodes stack bits first t h; simp [dfs] at h
  | succ f ih =>
    intro nodes stack bits first t h
    -- what `assign` does
    have hassign : ∀ (stack : List Nat) (top bits : Nat),
        (match descend nodes 32 stack top with
          | .panic s => FreqResult.panic s
          | .diverge => .diverge
          | .ok stack top =>
            if bits ≥ 2 ^ 24 then .panic "to_node: bits >> 24 == 0"
            else if top ≥ nodes.size then .panic "nodes[top]: index out of bounds"
            else dfs (nodes.set! top (stack.length * 256 + bits / 65536, bits % 65536)) f stack bits false)
          = .ok t →
        t.size = nodes.size ∧ ∀ i, NUM_SYMBOLS ≤ i → node t i = node nodes i := by
      intro stack top bits ha
      cases hd : descend nodes 32 stack top with
      | panic s => rw [hd] at ha; cases ha
      | diverge => rw [hd] at ha; cases ha
      | ok st tp =>
        rw [hd] at ha
        simp only at ha
        have htp := descend_ok_lt nodes 32 stack top st tp hd
        split at ha
        · cases ha
        · split at ha
          · cases ha
          · obtain ⟨s1, s2⟩ := ih _ _ _ _ _ ha
            refine ⟨by rw [s1, Array.set!_eq_setIfInBounds, Array.size_setIfInBounds], ?_⟩
            intro i hi
            rw [s2 i hi, node_set_ne _ _ _ _ (by omega)]
    rw [dfs.eq_def] at h; simp only at h
    cases first with
    | true => simp only [if_true] at h; exact hassign _ _ _ h
    | false =>
      simp only [Bool.false_eq_true, if_false] at h
      cases stack with
      | nil => simp only at h; cases h; exact ⟨rfl, fun _ _ => rfl⟩
      | cons tp st =>
        simp only at h
        split at h
        · exact ih _ _ _ _ _ h
        · split at h
          · cases h
          · exact hassign _ _ _ h

/-- every table `from_frequencies` returns has 513 entries and well-formed inner nodes -/
theorem fromFrequencies_inner (f : List Nat) (t : Table) (h : fromFrequencies f = .ok t) :
    t.size = NUM_NODES ∧ ChildLt t := by
  simp only [fromFrequencies] at h
  split at h
  · cases h
  · next hlen =>
    have hlen' : f.length = 256 := by omega
    -- the initial forest
    have hinit : BInv ((f.zipIdx.map fun ((x, i) : Nat × Nat) => (⟨x, i⟩ : Freq)) ++ [⟨1, EOF⟩])
        (Array.replicate NUM_SYMBOLS (65535, 65535)) := by
      have hidx : (f.zipIdx.map fun ((x, i) : Nat × Nat) => (⟨x, i⟩ : Freq)).map (·.nodeIdx)
          = List.range' 0 256 := by
        rw [List.map_map, ← hlen', ← List.zipIdx_map_snd 0 f]
        rfl
      constructor
      · simp [NUM_SYMBOLS]
      · intro x hx
        simp only [List.mem_append, List.mem_singleton] at hx
        simp only [Array.size_replicate, NUM_SYMBOLS]
        rcases hx with hx | rfl
        · have : x.nodeIdx ∈ List.range' 0 256 := by
            rw [← hidx]; exact List.mem_map_of_mem hx
          simp only [List.mem_range'_1] at this
          omega
        · decide
      · rw [List.map_append, hidx, List.nodup_append]
        refine ⟨List.nodup_range' 1, by simp, ?_⟩
        intro a ha b hb
        simp only [List.mem_range'_1] at ha
        simp only [List.map_cons, List.map_nil, List.mem_singleton, EOF] at hb
        omega
      · intro i hi1 hi2
        simp only [Array.size_replicate] at hi2
        omega
      · simp [hlen', NUM_SYMBOLS]
      · simp
      · intro j hj
        simp only [Array.size_replicate, NUM_SYMBOLS] at hj
        left
        by_cases hj6 : j = 256
        · exact ⟨⟨1, EOF⟩, by simp, by simp [EOF, hj6]⟩
        · have : j ∈ List.range' 0 256 := by simp only [List.mem_range'_1]; omega
          rw [← hidx] at this
          simp only [List.mem_map] at this
          obtain ⟨x, hx, e⟩ := this
          exact ⟨x, by simp only [List.mem_append]; left; exact List.mem_map.mpr hx, e⟩
    have hb := buildTree_inv _ _ _ hinit (Nat.le_succ _)
    revert h
    generalize buildTree _ _ (Array.replicate NUM_SYMBOLS (65535, 65535)) = T at hb
    intro h
    obtain ⟨hT1, hT2, _hT3⟩ := hb
    cases hd : dfs T 4096 [] 0 true with
    | panic s => rw [hd] at h; cases h
    | diverge => rw [hd] at h; cases h
    | ok t' =>
      rw [hd] at h
      simp only at h
      split at h
      · next hsz =>
        cases h
        obtain ⟨d1, d2⟩ := dfs_inner _ _ _ _ _ _ hd
        refine ⟨hsz, ?_⟩
        intro i hi1 hi2 b
        have := hT2 i hi1 (by rw [hT1]; exact hi2)
        rw [← d2 i hi1] at this
        cases b
        · simp only [child, childF]; exact this.1
        · simp only [child, childF]; exact this.2.1
      · cases h

end Tw.Huffman
