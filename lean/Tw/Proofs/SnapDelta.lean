import Tw.Proofs.SnapMap

/-! C09: applying a delta (the one `createDelta` computes, or any delta the reference may
produce) to the old snapshot yields the new one. -/
namespace Tw.Snap

/-! ### 32-bit arithmetic -/

theorem wrap_I32 (v : Int) : I32 (wrap v) := by
  unfold I32 wrap; split <;> omega

theorem wrap_of_I32 {v : Int} (h : I32 v) : wrap v = v := by
  unfold I32 at h; unfold wrap; split <;> omega

theorem wrapAdd_wrapSub (a : Int) {b : Int} (h : I32 b) : wrapAdd a (wrapSub b a) = b := by
  unfold I32 at h; unfold wrapAdd wrapSub wrap
  split <;> split <;> omega

theorem zip_add_sub (f v : List Int) (hl : f.length = v.length) (hv : ∀ x ∈ v, I32 x) :
    List.zipWith wrapAdd f (List.zipWith wrapSub v f) = v := by
  induction f generalizing v with
  | nil => cases v <;> simp_all
  | cons a f ih =>
    cases v with
    | nil => simp at hl
    | cons b v =>
      simp at hl
      simp only [List.zipWith_cons_cons]
      rw [wrapAdd_wrapSub a (hv b (by simp)), ih v hl (fun x hx => hv x (by simp [hx]))]

/-- the item difference, applied to the old item, gives the new item -/
theorem applyItemDelta_createItemDelta {fo : Option (List Int)} {v diff : List Int}
    (h : createItemDelta fo v = some diff) (hv : ∀ x ∈ v, I32 x) :
    applyItemDelta fo diff = some v ∧ diff.length = v.length := by
  cases fo with
  | none =>
    simp [createItemDelta] at h
    subst h
    simp [applyItemDelta]
  | some f =>
    simp only [createItemDelta] at h
    split at h
    · simp at h
    · rename_i hl
      simp at hl h
      subst h
      simp [applyItemDelta, hl, zip_add_sub f v hl hv]

/-! ### the limit checks pass for a sub-map of a snapshot within the limits -/

def Limits (m : Items) : Prop := m.length ≤ maxItems ∧ serializedSize m.length (dataLen m) ≤ maxSize

theorem vacantCheck_none {m B : Items} {k : Int} {v : List Int} (hm : Sorted m) (hk : mfind k m = none)
    (hB : Sorted B) (hsub : SubLen (minsert k v m) B) (hlim : Limits B) :
    vacantCheck m v.length = none := by
  have hb := subLen_bounds (sorted_minsert (k := k) (v := v) hm) hB hsub
  rw [length_minsert_of_none hk, dataLen_minsert_of_none hk] at hb
  unfold Limits serializedSize at hlim
  unfold vacantCheck serializedSize
  have h1 : ¬ (m.length + 1 > maxItems) := by omega
  have h2 : ¬ (4 * (2 + (m.length + 1) + (m.length + 1) + (dataLen m + v.length)) > maxSize) := by omega
  simp [h1, h2]

/-! ### first loop of `read_with_delta` -/

theorem copyUndeleted_spec (A : Items) (hA : Sorted A) (hlim : Limits A) (deleted : List Int) :
    ∀ (r out : Items) (n : Nat), Sorted r → Sorted out →
      (∀ p ∈ r, mfind p.1 A = some p.2) →
      (∀ k v, mfind k out = some v → mfind k A = some v) →
      (∀ p ∈ r, mfind p.1 out = none) →
      ∃ out', copyUndeleted deleted r out n =
          .ok (out', n + (r.filter (fun p => deleted.contains p.1)).length) ∧
        Sorted out' ∧
        ∀ k, mfind k out' = if deleted.contains k = true then mfind k out else (mfind k r).or (mfind k out) := by
  intro r
  induction r with
  | nil =>
    intro out n _ ho _ _ _
    exact ⟨out, by simp [copyUndeleted], ho, by intro k; simp [mfind]⟩
  | cons p r ih =>
    obtain ⟨k0, d0⟩ := p
    intro out n hr ho hrA hoA hro
    rw [sorted_cons] at hr
    have hk0out : mfind k0 out = none := hro (k0, d0) (by simp)
    have hk0r : mfind k0 r = none := mfind_none_of_lt hr.1
    by_cases hdel : deleted.contains k0 = true
    · -- deleted: skip
      obtain ⟨out', he, hs, hf⟩ := ih out (n + 1) hr.2 ho (fun p hp => hrA p (by simp [hp])) hoA
        (fun p hp => hro p (by simp [hp]))
      refine ⟨out', ?_, hs, ?_⟩
      · have hlen : n + (List.filter (fun p => deleted.contains p.1) ((k0, d0) :: r)).length
            = n + 1 + (List.filter (fun p => deleted.contains p.1) r).length := by
          rw [List.filter_cons]; simp only [hdel, if_true, List.length_cons]; omega
        rw [hlen]
        simp only [copyUndeleted, hdel, if_true, he]
      · intro k
        rw [hf k]
        by_cases hk : deleted.contains k = true
        · rw [if_pos hk, if_pos hk]
        · have hne : k ≠ k0 := by intro e; subst e; exact hk hdel
          rw [if_neg hk, if_neg hk]
          simp only [mfind, if_neg hne]
    · -- kept: the entry is vacant, the limits hold because `out ∪ {k0}` is a sub-map of `A`
      have hoA' : ∀ k v, mfind k (minsert k0 d0 out) = some v → mfind k A = some v := by
        intro k v hv
        rw [mfind_minsert] at hv
        by_cases hkk : k = k0
        · rw [if_pos hkk] at hv
          injection hv with hv
          rw [hkk, ← hv]
          exact hrA (k0, d0) (by simp)
        · rw [if_neg hkk] at hv
          exact hoA k v hv
      have hsub : SubLen (minsert k0 d0 out) A := fun k v hv => ⟨v, hoA' k v hv, rfl⟩
      have hvc := vacantCheck_none (v := d0) ho hk0out hA hsub hlim
      have hro' : ∀ p ∈ r, mfind p.1 (minsert k0 d0 out) = none := by
        intro p hp
        have := hr.1 p hp
        have hne : p.1 ≠ k0 := by omega
        rw [mfind_minsert, if_neg hne]
        exact hro p (by simp [hp])
      obtain ⟨out', he, hs, hf⟩ := ih (minsert k0 d0 out) n hr.2 (sorted_minsert ho)
        (fun p hp => hrA p (by simp [hp])) hoA' hro'
      refine ⟨out', ?_, hs, ?_⟩
      · have hlen : n + (List.filter (fun p => deleted.contains p.1) ((k0, d0) :: r)).length
            = n + (List.filter (fun p => deleted.contains p.1) r).length := by
          rw [List.filter_cons]; simp only [hdel]; rfl
        rw [hlen]
        simp only [copyUndeleted, hdel, hk0out, hvc, he]
        rfl
      · intro k
        rw [hf k, mfind_minsert]
        by_cases hk : deleted.contains k = true
        · have hne : k ≠ k0 := by intro e; subst e; exact hdel hk
          rw [if_pos hk, if_pos hk, if_neg hne]
        · rw [if_neg hk, if_neg hk]
          by_cases hkk : k = k0
          · subst hkk
            simp only [mfind, if_true, hk0r, Option.none_or, Option.some_or]
          · simp only [mfind, if_neg hkk]

/-! ### second loop of `read_with_delta` -/

theorem applyUpdates_spec (A B : Items) (hB : Sorted B) (hlim : Limits B)
    (hBv : ∀ p ∈ B, ∀ x ∈ p.2, I32 x) :
    ∀ (upd out : Items), Sorted upd → Sorted out →
      (∀ p ∈ upd, ∃ v, mfind p.1 B = some v ∧ createItemDelta (mfind p.1 A) v = some p.2) →
      SubLen out B →
      ∃ out', applyUpdates A upd out = .ok out' ∧ Sorted out' ∧
        ∀ k, mfind k out' = if (mfind k upd).isSome then mfind k B else mfind k out := by
  intro upd
  induction upd with
  | nil =>
    intro out _ ho _ _
    exact ⟨out, by simp [applyUpdates], ho, by intro k; simp [mfind]⟩
  | cons p r ih =>
    obtain ⟨k0, diff⟩ := p
    intro out hu ho hspec hsub
    rw [sorted_cons] at hu
    obtain ⟨v, hvB, hcd⟩ := hspec (k0, diff) (by simp)
    have hvI : ∀ x ∈ v, I32 x := hBv (k0, v) (mem_of_mfind hvB)
    obtain ⟨hap, hlen⟩ := applyItemDelta_createItemDelta hcd hvI
    have hap : applyItemDelta (mfind k0 A) diff = some v := hap
    have hlen : diff.length = v.length := hlen
    have hsub' : SubLen (minsert k0 v out) B := by
      intro k w hw
      rw [mfind_minsert] at hw
      by_cases hkk : k = k0
      · rw [if_pos hkk] at hw
        injection hw with hw
        rw [hkk, ← hw]
        exact ⟨v, hvB, rfl⟩
      · rw [if_neg hkk] at hw
        exact hsub k w hw
    obtain ⟨out', he, hs, hf⟩ := ih (minsert k0 v out) hu.2 (sorted_minsert ho)
      (fun p hp => hspec p (by simp [hp])) hsub'
    have hk0r : mfind k0 r = none := mfind_none_of_lt hu.1
    refine ⟨out', ?_, hs, ?_⟩
    · cases hold : mfind k0 out with
      | some old =>
        obtain ⟨v', hv', hl⟩ := hsub k0 old hold
        rw [hvB] at hv'
        simp at hv'; subst hv'
        have : ¬ diff.length ≠ old.length := by omega
        simp only [applyUpdates, hold, this, if_false, hap, he]
      | none =>
        have hvc := vacantCheck_none (v := v) ho hold hB hsub' hlim
        rw [← hlen] at hvc
        simp only [applyUpdates, hold, hvc, hap, he]
    · intro k
      rw [hf k, mfind_minsert]
      by_cases hkk : k = k0
      · subst hkk
        simp [mfind, hk0r, hvB]
      · simp [mfind, hkk]

/-! ### `RefDelta` ⟹ applying gives the target -/

theorem mem_keys_of_mem {α : Type} {m : List (Int × α)} {p : Int × α} (h : p ∈ m) : p.1 ∈ m.map Prod.fst :=
  List.mem_map.mpr ⟨p, h, rfl⟩

theorem applyDelta_of_refDelta {a b : RawSnap} {d : Delta} (ha : a.WF) (hb : b.WF)
    (hagree : SizesAgree a b) (hd : RefDelta a b d) : applyDelta a d = .ok (b, []) := by
  obtain ⟨haS, haI, haN, haZ⟩ := ha
  obtain ⟨hbS, hbI, hbN, hbZ⟩ := hb
  obtain ⟨hdel, hdS, hdU, hdO⟩ := hd
  have hlimA : Limits a.items := ⟨haN, haZ⟩
  have hlimB : Limits b.items := ⟨hbN, hbZ⟩
  -- k ∈ deleted ↔ k is a key of `a` that `b` lacks
  have hcont : ∀ k, k ∈ d.deleted ↔ ((mfind k a.items).isSome ∧ mfind k b.items = none) := by
    intro k
    rw [hdel, List.mem_map]
    constructor
    · rintro ⟨p, hp, rfl⟩
      rw [List.mem_filter] at hp
      refine ⟨?_, by simpa using hp.2⟩
      rw [mfind_isSome_iff_mem_keys]; exact mem_keys_of_mem hp.1
    · rintro ⟨h1, h2⟩
      rw [Option.isSome_iff_exists] at h1
      obtain ⟨v, hv⟩ := h1
      exact ⟨(k, v), by rw [List.mem_filter]; exact ⟨mem_of_mfind hv, by simp [h2]⟩, rfl⟩
  obtain ⟨out1, he1, hs1, hf1⟩ := copyUndeleted_spec a.items haS hlimA d.deleted a.items [] 0 haS sorted_nil
    (fun p hp => mfind_of_mem haS (by cases p; exact hp)) (by intro k v h; simp [mfind] at h)
    (by intro p _; simp [mfind])
  have hf1' : ∀ k, mfind k out1 = if k ∈ d.deleted then none else mfind k a.items := by
    intro k
    rw [hf1 k]
    simp [mfind, List.contains_iff_mem]
  -- the count of deletions equals the number of deleted keys: no `UnknownDelete`
  have hcount : (a.items.filter (fun p => d.deleted.contains p.1)).length = d.deleted.length := by
    have : d.deleted.length = (a.items.filter (fun p => (mfind p.1 b.items).isNone)).length := by
      rw [hdel, List.length_map]
    rw [this]
    congr 1
    apply List.filter_congr
    intro p hp
    have hsome : (mfind p.1 a.items).isSome := by
      rw [mfind_isSome_iff_mem_keys]; exact mem_keys_of_mem hp
    have h1 := hcont p.1
    simp only [hsome, true_and] at h1
    cases hm : mfind p.1 b.items with
    | none =>
      have : p.1 ∈ d.deleted := h1.mpr hm
      simp [List.contains_iff_mem, this]
    | some w =>
      have : ¬ p.1 ∈ d.deleted := by
        intro hmem
        have := h1.mp hmem
        rw [hm] at this; simp at this
      simp [List.contains_iff_mem, this]
  -- `out1` is a sub-map (with equal lengths) of `b`
  have hsub1 : SubLen out1 b.items := by
    intro k v hv
    rw [hf1' k] at hv
    by_cases hc : k ∈ d.deleted
    · simp [hc] at hv
    · simp only [hc, if_false] at hv
      have hnc : ¬ ((mfind k a.items).isSome ∧ mfind k b.items = none) := fun h => hc ((hcont k).mpr h)
      rw [hv] at hnc
      simp at hnc
      obtain ⟨w, hw⟩ := Option.ne_none_iff_exists'.mp hnc
      have hmem := mem_of_mfind hw
      have := hagree (k, w) hmem
      simp [hv, lenAgree] at this
      exact ⟨w, hw, this⟩
  obtain ⟨out2, he2, hs2, hf2⟩ := applyUpdates_spec a.items b.items hbS hlimB (fun p hp => (hbI p hp).2)
    d.updated out1 hdS hs1 hdU hsub1
  have hfinal : out2 = b.items := by
    apply sorted_ext hs2 hbS
    intro k
    rw [hf2 k]
    cases hu : mfind k d.updated with
    | some x => simp
    | none =>
      simp only [Option.isSome_none]
      rw [hf1' k]
      cases hkb : mfind k b.items with
      | some vb =>
        -- unchanged item: it is in `a` with the same data and not deleted
        have hmem := mem_of_mfind hkb
        have h4 := hdO (k, vb) hmem hu
        have hc : ¬ k ∈ d.deleted := by
          rw [hcont k]; simp [hkb]
        simp only [hc, if_false]
        exact h4
      | none =>
        by_cases hc : k ∈ d.deleted
        · simp [hc]
        · simp only [hc, if_false]
          have hnc : ¬ ((mfind k a.items).isSome ∧ mfind k b.items = none) := fun h => hc ((hcont k).mpr h)
          simp [hkb] at hnc
          exact hnc
  unfold applyDelta
  rw [he1]
  simp only [Nat.zero_add, hcount]
  rw [he2, hfinal]
  simp

/-! ### `createDelta` -/

theorem createItemDelta_isSome_iff (fo : Option (List Int)) (v : List Int) :
    (createItemDelta fo v).isSome ↔ lenAgree fo v.length = true := by
  cases fo with
  | none => simp [createItemDelta, lenAgree]
  | some f =>
    simp only [createItemDelta, lenAgree]
    split <;> simp_all

theorem createUpdates_spec (A : Items) :
    ∀ r : Items, (∀ p ∈ r, lenAgree (mfind p.1 A) p.2.length = true) →
      ∃ u, createUpdates A r = some u ∧ u.map Prod.fst = r.map Prod.fst ∧
        ∀ p ∈ u, ∃ d, (p.1, d) ∈ r ∧ createItemDelta (mfind p.1 A) d = some p.2 := by
  intro r
  induction r with
  | nil => intro _; exact ⟨[], rfl, rfl, by simp⟩
  | cons q r ih =>
    obtain ⟨k, d⟩ := q
    intro h
    obtain ⟨u, hu, hk, hs⟩ := ih (fun p hp => h p (by simp [hp]))
    have h0 := h (k, d) (by simp)
    rw [← createItemDelta_isSome_iff] at h0
    obtain ⟨x, hx⟩ := Option.isSome_iff_exists.mp h0
    refine ⟨(k, x) :: u, by simp only [createUpdates, hx, hu], by simp [hk], ?_⟩
    intro p hp
    simp at hp
    rcases hp with rfl | hp
    · exact ⟨d, by simp, hx⟩
    · obtain ⟨d', hd', hc⟩ := hs p hp
      exact ⟨d', by simp [hd'], hc⟩

theorem createUpdates_none_of_not_agree (A : Items) :
    ∀ r : Items, ¬ (∀ p ∈ r, lenAgree (mfind p.1 A) p.2.length = true) → createUpdates A r = none := by
  intro r
  induction r with
  | nil => intro h; exact absurd (by simp) h
  | cons q r ih =>
    obtain ⟨k, d⟩ := q
    intro h
    by_cases h0 : lenAgree (mfind k A) d.length = true
    · have hr : ¬ (∀ p ∈ r, lenAgree (mfind p.1 A) p.2.length = true) := by
        intro hr
        apply h
        intro p hp
        simp at hp
        rcases hp with rfl | hp
        · exact h0
        · exact hr p hp
      simp only [createUpdates, ih hr]
      split <;> rfl
    · rw [← createItemDelta_isSome_iff] at h0
      simp at h0
      simp only [createUpdates, h0]

/-- Without agreeing sizes `Delta::create` panics (D15); with them it does not. -/
theorem createDelta_eq_none_iff (a b : RawSnap) : createDelta a b = none ↔ ¬ SizesAgree a b := by
  unfold SizesAgree createDelta
  constructor
  · intro h hag
    obtain ⟨u, hu, _⟩ := createUpdates_spec a.items b.items hag
    rw [hu] at h
    simp at h
  · intro h
    rw [createUpdates_none_of_not_agree a.items b.items h]

theorem createDelta_refDelta {a b : RawSnap} (hb : Sorted b.items) (hag : SizesAgree a b) :
    ∃ d, createDelta a b = some d ∧ RefDelta a b d ∧ d.updated.map Prod.fst = b.items.map Prod.fst := by
  obtain ⟨u, hu, hk, hs⟩ := createUpdates_spec a.items b.items hag
  refine ⟨⟨_, u⟩, by simp only [createDelta, hu], ⟨rfl, ?_, ?_, ?_⟩, hk⟩
  · unfold Sorted; rw [hk]; exact hb
  · intro p hp
    obtain ⟨d, hd, hc⟩ := hs p hp
    exact ⟨d, mfind_of_mem hb hd, hc⟩
  · intro p hp hnone
    exfalso
    rw [mfind_eq_none_iff] at hnone
    apply hnone
    show p.1 ∈ u.map Prod.fst
    rw [hk]
    exact mem_keys_of_mem hp

/-- C09, core: the delta computed from `a` to `b`, applied to `a`, gives `b` without warning. -/
theorem applyDelta_createDelta {a b : RawSnap} (ha : a.WF) (hb : b.WF) (hag : SizesAgree a b) :
    ∃ d, createDelta a b = some d ∧ applyDelta a d = .ok (b, []) := by
  obtain ⟨d, hd, hr, _⟩ := createDelta_refDelta hb.1 hag
  exact ⟨d, hd, applyDelta_of_refDelta ha hb hag hr⟩

end Tw.Snap
