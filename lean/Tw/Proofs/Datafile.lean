import Tw.Model.Datafile

/-! Helper lemmas about the datafile reader model (`Tw.Model.Datafile`): the header
arithmetic cannot overflow, `check` establishes the bounds invariant `Inv`, `check` cannot panic
on what `Reader.new` hands to it, and the accessors consume `Inv`. -/
namespace Tw.Datafile

/-! ### arithmetic helpers -/

theorem inI32_iff (v : Int) : inI32 v = true ↔ (-2147483648 ≤ v ∧ v ≤ 2147483647) := by
  simp [inI32]

theorem subI32_some {a b : Int} (h1 : -2147483648 ≤ a - b) (h2 : a - b ≤ 2147483647) :
    subI32 a b = some (a - b) := by
  have : inI32 (a - b) = true := (inI32_iff _).2 ⟨h1, h2⟩
  simp [subI32, this]

theorem addI32_some {a b : Int} (h1 : -2147483648 ≤ a + b) (h2 : a + b ≤ 2147483647) :
    addI32 a b = some (a + b) := by
  have : inI32 (a + b) = true := (inI32_iff _).2 ⟨h1, h2⟩
  simp [addI32, this]

theorem mulI32_some {a b : Int} (h1 : -2147483648 ≤ a * b) (h2 : a * b ≤ 2147483647) :
    mulI32 a b = some (a * b) := by
  have : inI32 (a * b) = true := (inI32_iff _).2 ⟨h1, h2⟩
  simp [mulI32, this]

theorem subI32_eq_some {a b d : Int} (h : subI32 a b = some d) : d = a - b := by
  unfold subI32 at h; split at h <;> simp_all

theorem addI32_eq_some {a b d : Int} (h : addI32 a b = some d) :
    d = a + b ∧ -2147483648 ≤ a + b ∧ a + b ≤ 2147483647 := by
  unfold addI32 at h
  split at h
  · rename_i hh
    have := (inI32_iff _).1 hh
    simp at h; omega
  · simp at h

theorem asUsize_nonneg {v : Int} (h : 0 ≤ v) : asUsize v = v.toNat := by
  unfold asUsize; split <;> first | omega | rfl

/-! ### byte/word views -/

theorem wordsOfBytes_length : ∀ (bs : List UInt8), (wordsOfBytes bs).length = bs.length / 4
  | [] => by simp [wordsOfBytes]
  | [_] => by simp [wordsOfBytes]
  | [_, _] => by simp [wordsOfBytes]
  | [_, _, _] => by simp [wordsOfBytes]
  | _ :: _ :: _ :: _ :: rest => by
    simp only [wordsOfBytes, List.length_cons, wordsOfBytes_length rest]; omega

theorem typesOfWords_length : ∀ (ws : List Int), (typesOfWords ws).length = ws.length / 3
  | [] => by simp [typesOfWords]
  | [_] => by simp [typesOfWords]
  | [_, _] => by simp [typesOfWords]
  | _ :: _ :: _ :: rest => by
    simp only [typesOfWords, List.length_cons, typesOfWords_length rest]; omega

theorem readExact_some {n : Nat} {rest a b : List UInt8} (h : readExact n rest = some (a, b)) :
    a.length = n ∧ rest = a ++ b := by
  unfold readExact at h
  split at h
  · simp at h
  · simp at h
    obtain ⟨rfl, rfl⟩ := h
    constructor
    · simp; omega
    · simp

end Tw.Datafile

namespace Tw.Datafile

/-! ### header -/

theorem Header.read_no_panic (bytes : List UInt8) (s : String) : Header.read bytes ≠ .panic s := by
  unfold Header.read
  simp only
  repeat' split
  all_goals simp

theorem Header.read_ok {bytes : List UInt8} {h : Header} (hh : Header.read bytes = .ok h) :
    h.checkRest = true ∧ (h.version = 3 ∨ h.version = 4) ∧ headerSize ≤ bytes.length := by
  unfold Header.read at hh
  simp only at hh
  split at hh
  · simp at hh
  · split at hh
    · simp at hh
    · rename_i hv
      split at hh
      · simp at hh
      · rename_i hn
        split at hh
        · rename_i hr
          cases hh
          refine ⟨hr, ?_, ?_⟩
          · unfold Header.checkVersion at hv
            split at hv
            · simp at hv
            · split at hv
              · simp at hv
              · rename_i h2
                omega
          · simp [headerSize] at hn ⊢
            omega
        · simp at hh

/-- the sum `calculate_total_size` forms -/
def Header.total (h : Header) : Int :=
  36 + 12 * h.numItemTypes + 4 * h.numItems + 4 * h.numData
    + (if h.version ≥ 4 then 4 * h.numData else 0) + h.sizeItems + h.sizeData

theorem Header.checkRest_iff (h : Header) : h.checkRest = true ↔
    (0 ≤ h.size ∧ 0 ≤ h.swaplen ∧ 0 ≤ h.numItemTypes ∧ 0 ≤ h.numItems ∧ 0 ≤ h.numData
      ∧ 0 ≤ h.sizeItems ∧ 0 ≤ h.sizeData ∧ h.sizeItems % 4 = 0) := by
  simp [Header.checkRest, and_assoc]

theorem Header.sizeField_ok (h : Header) (total : Int) (crude : Bool) (hnd : 0 ≤ h.numData)
    (h36 : 36 + 4 * h.numData ≤ total) (hmax : total ≤ 2147483647) :
    h.sizeField total crude = .ok (if crude then total - 16 - 4 * h.numData else total - 16) := by
  unfold Header.sizeField
  rw [subI32_some (by omega) (by omega)]
  cases crude
  · simp
  · simp only [if_true]
    rw [mulI32_some (by omega) (by omega)]
    simp only
    rw [subI32_some (by omega) (by omega)]

theorem Header.swaplenField_ok (h : Header) (total : Int) (crude : Bool) (hnd : 0 ≤ h.numData)
    (hsd : 0 ≤ h.sizeData)
    (h36 : 36 + 4 * h.numData + h.sizeData ≤ total) (hmax : total ≤ 2147483647) :
    h.swaplenField total crude
      = .ok ((if crude then total - 16 - 4 * h.numData else total - 16) - h.sizeData) := by
  unfold Header.swaplenField
  rw [Header.sizeField_ok h total crude hnd (by omega) hmax]
  simp only
  cases crude
  · simp only [Bool.false_eq_true, if_false]; rw [subI32_some (by omega) (by omega)]
  · simp only [if_true]; rw [subI32_some (by omega) (by omega)]

/-- `check_size_and_swaplen` on a header that passed `HeaderRest::check`: an error or a result
whose expected size is the (below 2 GiB) total; never a panic. -/
theorem Header.checkSizeAndSwaplen_cases (h : Header) (hr : h.checkRest = true) :
    h.checkSizeAndSwaplen = .err .malformedHeader
      ∨ ∃ hc, h.checkSizeAndSwaplen = .ok hc ∧ hc.expectedSize = h.total ∧ h.total ≤ 2147483647 := by
  obtain ⟨_, _, hnit, hni, hnd, hsi, hsd, _⟩ := (Header.checkRest_iff h).1 hr
  have htot : h.totalSize = (if h.total ≤ 2147483647 then .ok h.total else .err .malformedHeader) := by
    unfold Header.totalSize Header.total
    rw [if_neg (by omega)]
  unfold Header.checkSizeAndSwaplen
  rw [htot]
  by_cases hmax : h.total ≤ 2147483647
  · rw [if_pos hmax]
    have h36 : 36 + 4 * h.numData + h.sizeData ≤ h.total := by
      unfold Header.total; split <;> omega
    simp only
    rw [Header.sizeField_ok h h.total false hnd (by omega) hmax,
      Header.sizeField_ok h h.total true hnd (by omega) hmax,
      Header.swaplenField_ok h h.total false hnd hsd h36 hmax,
      Header.swaplenField_ok h h.total true hnd hsd h36 hmax]
    simp only [Bool.false_eq_true, if_false, if_true]
    split
    · exact Or.inl rfl
    · split
      · exact Or.inl rfl
      · exact Or.inr ⟨_, rfl, rfl, hmax⟩
  · rw [if_neg hmax]; left; rfl

end Tw.Datafile

namespace Tw.Datafile

/-! ### `item_header` -/

theorem itemHeader_ok {r : Reader} {i : Nat} {o : Int} (ho : r.itemOffsets[i]? = some o)
    (h0 : 0 ≤ o) (h4 : o.toNat % 4 = 0) (hlen : o.toNat / 4 + 2 ≤ r.itemsRaw.length) :
    ∃ a b, r.itemHeader i = .ok (a, b) ∧ r.itemsRaw[o.toNat / 4]? = some a
      ∧ r.itemsRaw[o.toNat / 4 + 1]? = some b := by
  have h1 : o.toNat / 4 < r.itemsRaw.length := by omega
  have h2 : o.toNat / 4 + 1 < r.itemsRaw.length := by omega
  refine ⟨r.itemsRaw[o.toNat / 4], r.itemsRaw[o.toNat / 4 + 1], ?_, ?_, ?_⟩
  · unfold Reader.itemHeader
    rw [ho]
    simp only
    rw [if_neg (by omega), if_neg (by omega), if_neg (by omega)]
    rw [List.drop_eq_getElem_cons h1, List.drop_eq_getElem_cons h2]
  · exact List.getElem?_eq_getElem h1
  · exact List.getElem?_eq_getElem h2

/-- what `check` establishes about item `i` -/
def ItemOk (r : Reader) (i : Nat) : Prop :=
  ∃ o a size, r.itemOffsets[i]? = some o ∧ 0 ≤ o ∧ o.toNat % 4 = 0
    ∧ r.itemHeader i = .ok (a, size) ∧ r.itemsRaw[o.toNat / 4]? = some a
    ∧ 0 ≤ size ∧ size.toNat % 4 = 0
    ∧ o.toNat + 8 + size.toNat ≤ 4 * r.itemsRaw.length

/-! ### first block: the type table -/

def TypeOk (numItems : Int) (t : ItemType) : Prop :=
  0 ≤ t.typeId ∧ t.typeId < 65536 ∧ 0 ≤ t.start ∧ 0 ≤ t.num ∧ t.start + t.num ≤ numItems

theorem checkTypes_no_panic (numItems : Int) (hn : numItems ≤ 2147483647) :
    ∀ (ts : List ItemType) (expected : Int) (prev : Option Int) (seen : List Int) (s : String),
      0 ≤ expected → expected ≤ numItems → checkTypes numItems ts expected prev seen ≠ .panic s := by
  intro ts
  induction ts with
  | nil => intro expected prev seen s _ _; unfold checkTypes; split <;> simp
  | cons t ts ih =>
    intro expected prev seen s h0 h1
    unfold checkTypes
    split; · simp
    split; · simp
    split; · simp
    rename_i hstart
    split; · simp
    rename_i hnum
    have hstart : t.start = expected := by simpa using hstart
    rw [subI32_some (by omega) (by omega)]
    simp only
    split; · simp
    rename_i hle
    rw [addI32_some (by omega) (by omega)]
    simp only
    split; · simp
    exact ih _ _ _ s (by omega) (by omega)

theorem checkTypes_ok (numItems : Int) :
    ∀ (ts : List ItemType) (expected : Int) (prev : Option Int) (seen : List Int),
      0 ≤ expected → checkTypes numItems ts expected prev seen = .ok () →
      ∀ t ∈ ts, TypeOk numItems t := by
  intro ts
  induction ts with
  | nil => intro _ _ _ _ _ t ht; cases ht
  | cons t ts ih =>
    intro expected prev seen h0 hok
    unfold checkTypes at hok
    split at hok; · simp at hok
    rename_i hid
    split at hok; · simp at hok
    split at hok; · simp at hok
    rename_i hstart
    split at hok; · simp at hok
    rename_i hnum
    have hstart : t.start = expected := by simpa using hstart
    split at hok; · simp at hok
    rename_i d hd
    have hd := subI32_eq_some hd
    split at hok; · simp at hok
    rename_i hle
    split at hok; · simp at hok
    rename_i e' he
    have he := addI32_eq_some he
    split at hok; · simp at hok
    intro t' ht'
    cases ht' with
    | head =>
      have hid : 0 ≤ t.typeId ∧ t.typeId < 65536 := by simpa using hid
      exact ⟨hid.1, hid.2, by omega, by omega, by omega⟩
    | tail _ hmem => exact ih _ _ _ (by omega) hok t' hmem

end Tw.Datafile

namespace Tw.Datafile

/-! ### second block: item offsets and sizes -/

theorem checkItems_no_panic (r : Reader) (hsi : 0 ≤ r.sizeItems)
    (hraw : 4 * r.itemsRaw.length = r.sizeItems.toNat) :
    ∀ (n i offset : Nat) (s : String), offset % 4 = 0 → i + n ≤ r.itemOffsets.length →
      checkItems r n i offset ≠ .panic s := by
  intro n
  induction n with
  | zero => intro i offset s _ _; unfold checkItems; split <;> simp
  | succ n ih =>
    intro i offset s h4 hlen
    unfold checkItems
    have hi : i < r.itemOffsets.length := by omega
    rw [List.getElem?_eq_getElem hi]
    simp only
    split; · simp
    rename_i hneg
    split; · simp
    rename_i hoff
    split; · simp
    rename_i hend
    rw [asUsize_nonneg hsi] at hend
    have hneg : 0 ≤ r.itemOffsets[i] := by omega
    rw [asUsize_nonneg hneg] at hoff
    have hoff : offset = r.itemOffsets[i].toNat := by simpa using hoff
    obtain ⟨a, b, hh, _, _⟩ := itemHeader_ok (r := r) (i := i) (List.getElem?_eq_getElem hi) hneg
      (by omega) (by omega)
    rw [hh]
    simp only
    split; · simp
    rename_i hsz
    split; · simp
    rename_i hsz4
    split; · simp
    exact ih _ _ s (by omega) (by omega)

theorem checkItems_ok (r : Reader) (hsi : 0 ≤ r.sizeItems)
    (hraw : 4 * r.itemsRaw.length = r.sizeItems.toNat) :
    ∀ (n i offset : Nat), checkItems r n i offset = .ok () →
      ∀ k, i ≤ k → k < i + n → ItemOk r k := by
  intro n
  induction n with
  | zero => intro i offset _ k h1 h2; omega
  | succ n ih =>
    intro i offset hok k hk1 hk2
    unfold checkItems at hok
    split at hok; · simp at hok
    rename_i o ho
    split at hok; · simp at hok
    rename_i hneg
    split at hok; · simp at hok
    rename_i hoff
    split at hok; · simp at hok
    rename_i hend
    split at hok
    · simp at hok
    · simp at hok
    · rename_i a size hh
      split at hok; · simp at hok
      rename_i hsz
      split at hok; · simp at hok
      rename_i hsz4
      split at hok; · simp at hok
      rename_i hend2
      have hneg : 0 ≤ o := by omega
      rw [asUsize_nonneg hsi] at hend hend2
      rw [asUsize_nonneg hneg] at hoff
      have hoff : offset = o.toNat := by simpa using hoff
      have hsz : 0 ≤ size := by omega
      rw [asUsize_nonneg hsz] at hsz4 hend2 hok
      by_cases hki : k = i
      · subst hki
        -- the header words come from `items_raw`
        have h4 : o.toNat % 4 = 0 := by
          -- otherwise `item_header` would have panicked
          unfold Reader.itemHeader at hh
          rw [ho] at hh
          simp only at hh
          split at hh; · simp at hh
          split at hh; · simp at hh
          rename_i h; omega
        obtain ⟨a', b', hh', ha', _⟩ := itemHeader_ok (r := r) (i := k) ho hneg h4 (by omega)
        rw [hh] at hh'
        cases hh'
        exact ⟨o, a, size, ho, hneg, h4, hh, ha', hsz, by omega, by omega⟩
      · exact ih _ _ hok k (by omega) (by omega)

end Tw.Datafile

namespace Tw.Datafile

/-! ### third block: data offsets -/

/-- what `check` establishes about data block `k` -/
def DataOk (r : Reader) (k : Nat) : Prop :=
  ∃ off, r.dataOffsets[k]? = some off ∧ 0 ≤ off ∧ off ≤ r.sizeData
    ∧ (∀ off', r.dataOffsets[k + 1]? = some off' → off ≤ off')
    ∧ (∀ uds, r.uncompSizes = some uds → ∃ u, uds[k]? = some u ∧ 0 ≤ u)

theorem udsCheck_no_panic (r : Reader) (i : Nat) (s : String)
    (h : ∀ uds, r.uncompSizes = some uds → i < uds.length) :
    udsCheck r i ≠ some (.panic s) := by
  unfold udsCheck
  split
  · rename_i uds hu
    rw [List.getElem?_eq_getElem (h uds hu)]
    simp only
    split <;> simp
  · simp

theorem udsCheck_none {r : Reader} {i : Nat} (h : udsCheck r i = none) :
    ∀ uds, r.uncompSizes = some uds → ∃ u, uds[i]? = some u ∧ 0 ≤ u := by
  intro uds hu
  unfold udsCheck at h
  rw [hu] at h
  simp only at h
  split at h
  · simp at h
  · rename_i u hu'
    split at h
    · simp at h
    · exact ⟨u, hu', by omega⟩

theorem checkData_no_panic (r : Reader) :
    ∀ (n i : Nat) (prev : Int) (s : String), i + n ≤ r.dataOffsets.length →
      (∀ uds, r.uncompSizes = some uds → i + n ≤ uds.length) →
      checkData r n i prev ≠ .panic s := by
  intro n
  induction n with
  | zero => intro i prev s _ _; unfold checkData; simp
  | succ n ih =>
    intro i prev s hlen hu
    unfold checkData
    split
    · rename_i o ho
      intro hc
      subst hc
      exact udsCheck_no_panic r i s (fun uds h => by have := hu uds h; omega) ho
    · have hi : i < r.dataOffsets.length := by omega
      rw [List.getElem?_eq_getElem hi]
      simp only
      split; · simp
      split; · simp
      exact ih _ _ s (by omega) (fun uds h => by have := hu uds h; omega)

theorem checkData_ok (r : Reader) :
    ∀ (n i : Nat) (prev : Int), i + n = r.dataOffsets.length → checkData r n i prev = .ok () →
      (∀ off, r.dataOffsets[i]? = some off → prev ≤ off) ∧ ∀ k, i ≤ k → k < i + n → DataOk r k := by
  intro n
  induction n with
  | zero =>
    intro i prev hlen _
    refine ⟨?_, fun k h1 h2 => by omega⟩
    intro off hoff
    have : i < r.dataOffsets.length := by
      have := (List.getElem?_eq_some_iff.1 hoff).1; exact this
    omega
  | succ n ih =>
    intro i prev hlen hok
    unfold checkData at hok
    split at hok
    · rename_i o ho
      subst hok
      -- `udsCheck` never yields `ok`
      unfold udsCheck at ho
      split at ho
      · split at ho
        · simp at ho
        · split at ho <;> simp at ho
      · simp at ho
    · rename_i hu
      split at hok; · simp at hok
      rename_i off hoff
      split at hok; · simp at hok
      rename_i hrange
      split at hok; · simp at hok
      rename_i hprev
      obtain ⟨ih1, ih2⟩ := ih (i + 1) off (by omega) hok
      refine ⟨?_, ?_⟩
      · intro off' hoff'
        rw [hoff] at hoff'
        cases hoff'
        omega
      · intro k hk1 hk2
        by_cases hki : k = i
        · subst hki
          exact ⟨off, hoff, by omega, by omega, ih1, udsCheck_none hu⟩
        · exact ih2 k (by omega) (by omega)

end Tw.Datafile

namespace Tw.Datafile

/-! ### fourth block: type ids of the items -/

theorem checkTypeItems_no_panic (r : Reader) (typeId : Int) :
    ∀ (n k : Nat) (s : String), (∀ j, k ≤ j → j < k + n → ItemOk r j) →
      checkTypeItems r typeId n k ≠ .panic s := by
  intro n
  induction n with
  | zero => intro k s _; unfold checkTypeItems; simp
  | succ n ih =>
    intro k s hall
    unfold checkTypeItems
    obtain ⟨o, a, size, _, _, _, hh, _⟩ := hall k (by omega) (by omega)
    rw [hh]
    simp only
    split; · simp
    exact ih _ s (fun j h1 h2 => hall j (by omega) (by omega))

/-- the type id stored in an item header word, `ItemHeader::type_id()` -/
def headerTypeId (w : Int) : Int := (w % 4294967296) / 65536

theorem checkTypeItems_ok (r : Reader) (typeId : Int) :
    ∀ (n k : Nat), checkTypeItems r typeId n k = .ok () →
      ∀ j, k ≤ j → j < k + n → ∃ w size, r.itemHeader j = .ok (w, size)
        ∧ headerTypeId w = typeId % 65536 := by
  intro n
  induction n with
  | zero => intro k _ j h1 h2; omega
  | succ n ih =>
    intro k hok j h1 h2
    unfold checkTypeItems at hok
    split at hok
    · simp at hok
    · simp at hok
    · rename_i w size hh
      split at hok; · simp at hok
      rename_i hty
      by_cases hjk : j = k
      · subst hjk
        exact ⟨w, size, hh, by simpa [headerTypeId] using hty⟩
      · exact ih _ hok j (by omega) (by omega)

theorem checkTypeIds_no_panic (r : Reader) (numItems : Int) (hn : numItems ≤ 2147483647)
    (hitems : ∀ j, j < numItems.toNat → ItemOk r j) :
    ∀ (ts : List ItemType) (s : String), (∀ t ∈ ts, TypeOk numItems t) →
      checkTypeIds r ts ≠ .panic s := by
  intro ts
  induction ts with
  | nil => intro s _; unfold checkTypeIds; simp
  | cons t ts ih =>
    intro s hall
    obtain ⟨_, _, h3, h4, h5⟩ := hall t (List.mem_cons_self ..)
    unfold checkTypeIds
    rw [addI32_some (by omega) (by omega)]
    simp only
    rw [asUsize_nonneg (by omega : 0 ≤ t.start + t.num), asUsize_nonneg h3]
    split
    · exact ih s (fun t' ht' => hall t' (List.mem_cons_of_mem _ ht'))
    · simp
    · rename_i s' hx
      exact absurd hx (checkTypeItems_no_panic r t.typeId _ _ s'
        (fun j h1 h2 => hitems j (by omega)))

theorem checkTypeIds_ok (r : Reader) :
    ∀ (ts : List ItemType), checkTypeIds r ts = .ok () →
      ∀ t ∈ ts, 0 ≤ t.start → 0 ≤ t.num → ∀ j, t.start.toNat ≤ j → j < t.start.toNat + t.num.toNat →
        ∃ w size, r.itemHeader j = .ok (w, size) ∧ headerTypeId w = t.typeId % 65536 := by
  intro ts
  induction ts with
  | nil => intro _ t ht; cases ht
  | cons t ts ih =>
    intro hok
    unfold checkTypeIds at hok
    split at hok; · simp at hok
    rename_i e he
    have he := addI32_eq_some he
    split at hok
    · rename_i hti
      intro t' ht' h3 h4 j h1 h2
      cases ht' with
      | head =>
        rw [he.1, asUsize_nonneg (by omega : 0 ≤ t.start + t.num), asUsize_nonneg h3] at hti
        exact checkTypeItems_ok r t.typeId _ _ hti j h1 (by omega)
      | tail _ hmem => exact ih hok t' hmem h3 h4 j h1 h2
    · simp at hok
    · simp at hok

end Tw.Datafile

namespace Tw.Datafile

/-! ### `check` as a whole -/

/-- what `Reader::new` guarantees about the tables before it calls `check` -/
structure Shape (r : Reader) : Prop where
  nit : 0 ≤ r.numItemTypes
  ni : 0 ≤ r.numItems
  niMax : r.numItems ≤ 2147483647
  nd : 0 ≤ r.numData
  si : 0 ≤ r.sizeItems
  sd : 0 ≤ r.sizeData
  sdMax : r.sizeData ≤ 2147483647
  typesLen : r.itemTypes.length = r.numItemTypes.toNat
  offsLen : r.itemOffsets.length = r.numItems.toNat
  doffsLen : r.dataOffsets.length = r.numData.toNat
  udsLen : ∀ uds, r.uncompSizes = some uds → uds.length = r.numData.toNat
  rawLen : 4 * r.itemsRaw.length = r.sizeItems.toNat
  udsVersion : r.uncompSizes.isSome = r.version.hasCompressedData

/-- the bounds invariant `check` establishes and the accessors consume -/
structure Inv (r : Reader) : Prop extends Shape r where
  types : ∀ t ∈ r.itemTypes, TypeOk r.numItems t
  items : ∀ k, k < r.numItems.toNat → ItemOk r k
  datas : ∀ k, k < r.numData.toNat → DataOk r k
  typeIds : ∀ t ∈ r.itemTypes, ∀ j, t.start.toNat ≤ j → j < t.start.toNat + t.num.toNat →
    ∃ w size, r.itemHeader j = .ok (w, size) ∧ headerTypeId w = t.typeId % 65536

theorem check_no_panic {r : Reader} (sh : Shape r) (s : String) : r.check ≠ .panic s := by
  unfold Reader.check
  split
  · rename_i h1
    split
    · rename_i h2
      split
      · exact checkTypeIds_no_panic r r.numItems sh.niMax
          (fun j hj => checkItems_ok r sh.si sh.rawLen _ _ _ h2 j (by omega)
            (by rw [asUsize_nonneg sh.ni]; omega)) _ s
          (checkTypes_ok r.numItems _ _ _ _ (by omega) h1)
      · simp
      · rename_i s' hx
        exact absurd hx (checkData_no_panic r _ _ _ s'
          (by rw [asUsize_nonneg sh.nd, sh.doffsLen]; omega)
          (fun uds hu => by rw [asUsize_nonneg sh.nd, sh.udsLen uds hu]; omega))
    · simp
    · rename_i s' hx
      exact absurd hx (checkItems_no_panic r sh.si sh.rawLen _ _ _ s' (by omega)
        (by rw [asUsize_nonneg sh.ni, sh.offsLen]; omega))
  · simp
  · rename_i s' hx
    exact absurd hx (checkTypes_no_panic r.numItems sh.niMax _ _ _ _ s' (by omega) sh.ni)

theorem check_ok_inv {r : Reader} (sh : Shape r) (hok : r.check = .ok ()) : Inv r := by
  unfold Reader.check at hok
  split at hok
  · rename_i h1
    split at hok
    · rename_i h2
      split at hok
      · rename_i h3
        exact
          { toShape := sh
            types := checkTypes_ok r.numItems _ _ _ _ (by omega) h1
            items := fun k hk => checkItems_ok r sh.si sh.rawLen _ _ _ h2 k (by omega)
              (by rw [asUsize_nonneg sh.ni]; omega)
            datas := fun k hk => (checkData_ok r _ _ _
              (by rw [asUsize_nonneg sh.nd, sh.doffsLen]; omega) h3).2 k (by omega)
              (by rw [asUsize_nonneg sh.nd]; omega)
            typeIds := fun t ht j h1' h2' =>
              have tok := checkTypes_ok r.numItems _ _ _ _ (by omega) h1 t ht
              checkTypeIds_ok r _ hok t ht tok.2.2.1 tok.2.2.2.1 j h1' h2' }
      · simp at hok
      · simp at hok
    · simp at hok
    · simp at hok
  · simp at hok
  · simp at hok

end Tw.Datafile

namespace Tw.Datafile

/-! ### `Reader::new` -/

theorem readUds_some {c : Bool} {n : Nat} {rest : List UInt8} {u : Option (List UInt8)}
    {rest' : List UInt8} (h : readUds c n rest = some (u, rest')) :
    u.isSome = c ∧ (∀ b, u = some b → b.length = n) ∧ rest.length = (if c then n else 0) + rest'.length := by
  unfold readUds at h
  cases c
  · simp at h
    obtain ⟨rfl, rfl⟩ := h
    simp
  · simp only [if_true] at h
    split at h
    · simp at h
    · rename_i b r hb
      simp at h
      obtain ⟨rfl, rfl⟩ := h
      obtain ⟨h1, h2⟩ := readExact_some hb
      refine ⟨rfl, ?_, ?_⟩
      · intro b' hb'; cases hb'; exact h1
      · rw [h2]; simp [h1]

/-- `Reader::new` never panics; what it accepts satisfies the bounds invariant and its data
section is present in the file. -/
theorem new_spec (bytes : List UInt8) :
    (∃ e, Reader.new bytes = .err e)
      ∨ ∃ r, Reader.new bytes = .ok r ∧ Inv r ∧ r.sizeData.toNat ≤ r.dataRegion.length := by
  unfold Reader.new
  split
  · rename_i s hh; exact absurd hh (Header.read_no_panic bytes s)
  · exact Or.inl ⟨_, rfl⟩
  · rename_i h hh
    obtain ⟨hr, hv, hlen⟩ := Header.read_ok hh
    obtain ⟨_, _, hnit, hni, hnd, hsi, hsd, hsi4⟩ := (Header.checkRest_iff h).1 hr
    rcases Header.checkSizeAndSwaplen_cases h hr with hc | ⟨hc, hce, hexp, hmax⟩
    · rw [hc]; exact Or.inl ⟨_, rfl⟩
    · rw [hce]
      simp only
      rw [if_neg (by omega)]
      have htot : h.total = 36 + 12 * h.numItemTypes + 4 * h.numItems + 4 * h.numData
          + (if h.version ≥ 4 then 4 * h.numData else 0) + h.sizeItems + h.sizeData := rfl
      split; · exact Or.inl ⟨_, rfl⟩
      rename_i tb rest1 h1
      split; · exact Or.inl ⟨_, rfl⟩
      rename_i iob rest2 h2
      split; · exact Or.inl ⟨_, rfl⟩
      rename_i dob rest3 h3
      split; · exact Or.inl ⟨_, rfl⟩
      rename_i udb rest4 h4
      rw [if_neg (by rw [asUsize_nonneg hsi]; omega)]
      split; · exact Or.inl ⟨_, rfl⟩
      rename_i ib rest5 h5
      split; · exact Or.inl ⟨_, rfl⟩
      rename_i hfs
      obtain ⟨l1, e1⟩ := readExact_some h1
      obtain ⟨l2, e2⟩ := readExact_some h2
      obtain ⟨l3, e3⟩ := readExact_some h3
      obtain ⟨u1, u2, u3⟩ := readUds_some h4
      obtain ⟨l5, e5⟩ := readExact_some h5
      rw [asUsize_nonneg hnit] at l1
      rw [asUsize_nonneg hni] at l2
      rw [asUsize_nonneg hnd] at l3 u2 u3
      rw [asUsize_nonneg hsi] at l5
      have hd : (bytes.drop headerSize).length = bytes.length - 36 := by simp [headerSize]
      have e1' := congrArg List.length e1
      have e2' := congrArg List.length e2
      have e3' := congrArg List.length e3
      have e5' := congrArg List.length e5
      simp only [List.length_append] at e1' e2' e3' e5'
      have sh : Shape
          { version := if h.version = 3 then Version.v3 else if hc.crude = true then Version.v4crude else Version.v4,
            numItemTypes := h.numItemTypes, numItems := h.numItems, numData := h.numData,
            sizeItems := h.sizeItems, sizeData := h.sizeData,
            itemTypes := typesOfWords (wordsOfBytes tb), itemOffsets := wordsOfBytes iob,
            dataOffsets := wordsOfBytes dob, uncompSizes := Option.map wordsOfBytes udb,
            itemsRaw := wordsOfBytes ib, dataRegion := rest5 } :=
        { nit := hnit, ni := hni, niMax := by simp only; split at htot <;> omega, nd := hnd,
          si := hsi, sd := hsd, sdMax := by simp only; split at htot <;> omega
          typesLen := by simp only [typesOfWords_length, wordsOfBytes_length]; omega
          offsLen := by simp only [wordsOfBytes_length]; omega
          doffsLen := by simp only [wordsOfBytes_length]; omega
          udsLen := by
            intro uds hu
            cases udb with
            | none => simp at hu
            | some b =>
              simp at hu
              subst hu
              simp only [wordsOfBytes_length]
              have := u2 b rfl
              omega
          rawLen := by simp only [wordsOfBytes_length]; omega
          udsVersion := by
            simp only [Option.isSome_map]
            exact u1 }
      split
      · rename_i hck
        refine Or.inr ⟨_, rfl, check_ok_inv sh hck, ?_⟩
        simp only
        -- the whole file is at least `expected_size` long
        have hfs : hc.expectedSize.toNat ≤ bytes.length := by omega
        rw [hexp] at hfs
        have hvc : (if h.version = 3 then Version.v3 else if hc.crude = true then Version.v4crude else Version.v4).hasCompressedData
            = decide (h.version ≥ 4) := by
          rcases hv with hv | hv
          · rw [hv]; simp [Version.hasCompressedData]
          · rw [hv]; cases hc.crude <;> simp [Version.hasCompressedData]
        rw [hvc] at u3
        split at htot <;> simp_all <;> omega
      · exact Or.inl ⟨_, rfl⟩
      · rename_i s hck
        exact absurd hck (check_no_panic sh s)

end Tw.Datafile

namespace Tw.Datafile

/-! ### accessors under the invariant -/

/-- an item view that lies inside `items_raw` -/
def ViewOk (r : Reader) (v : ItemView) : Prop :=
  v.off + v.len ≤ r.itemsRaw.length ∧ v.data = (r.itemsRaw.drop v.off).take v.len
    ∧ v.data.length = v.len ∧ v.typeId < 65536 ∧ v.id < 65536

theorem item_ok {r : Reader} (inv : Inv r) {k : Nat} (hk : k < r.numItems.toNat) :
    ∃ v, r.item k = .ok v ∧ ViewOk r v := by
  obtain ⟨o, a, size, ho, h0, h4, hh, _, hsz, hsz4, hend⟩ := inv.items k hk
  unfold Reader.item
  rw [hh]
  simp only
  rw [ho]
  simp only
  rw [if_neg (by omega), if_neg (by omega), if_neg (by omega), if_neg (by omega), if_neg (by omega),
    if_neg (by omega), if_neg (by omega)]
  refine ⟨_, rfl, ?_, rfl, ?_, ?_, ?_⟩
  · simp only; omega
  · simp only [List.length_take, List.length_drop]; omega
  · simp only
    have : (a % 4294967296).toNat < 4294967296 := by omega
    omega
  · simp only; omega

theorem itemTypeIndicesIn_ok (numItems : Int) :
    ∀ (ts : List ItemType) (typeId : Nat), (∀ t ∈ ts, TypeOk numItems t) →
      ∃ a b, itemTypeIndicesIn ts typeId = .ok (a, b) ∧ a ≤ b ∧ b ≤ numItems.toNat
        ∧ ((a, b) = (0, 0) ∨ ∃ t ∈ ts, (t.typeId % 65536).toNat = typeId ∧ a = t.start.toNat
              ∧ b = t.start.toNat + t.num.toNat) := by
  intro ts
  induction ts with
  | nil => intro typeId _; exact ⟨0, 0, rfl, by omega, by omega, Or.inl rfl⟩
  | cons t ts ih =>
    intro typeId hall
    obtain ⟨_, _, h3, h4, h5⟩ := hall t (List.mem_cons_self ..)
    unfold itemTypeIndicesIn
    split
    · rename_i heq
      rw [if_neg (by omega), if_neg (by omega)]
      exact ⟨_, _, rfl, by omega, by omega, Or.inr ⟨t, List.mem_cons_self .., heq, rfl, rfl⟩⟩
    · obtain ⟨a, b, e, h1, h2, h3'⟩ := ih typeId (fun t' ht' => hall t' (List.mem_cons_of_mem _ ht'))
      refine ⟨a, b, e, h1, h2, ?_⟩
      rcases h3' with h | ⟨t', ht', hh⟩
      · exact Or.inl h
      · exact Or.inr ⟨t', List.mem_cons_of_mem _ ht', hh⟩

theorem itemType_ok {r : Reader} (inv : Inv r) {k : Nat} (hk : k < r.numItemTypes.toNat) :
    ∃ t, r.itemType k = .ok t ∧ t < 65536 := by
  have hk' : k < r.itemTypes.length := by rw [inv.typesLen]; exact hk
  obtain ⟨h1, h2, _⟩ := inv.types _ (List.getElem_mem hk')
  unfold Reader.itemType
  rw [List.getElem?_eq_getElem hk']
  simp only
  rw [if_neg (by omega)]
  exact ⟨_, rfl, by omega⟩

theorem findItemFrom_ok {r : Reader} (inv : Inv r) (itemId : Nat) :
    ∀ (n k : Nat), k + n ≤ r.numItems.toNat →
      ∃ res, findItemFrom r itemId n k = .ok res ∧ ∀ v, res = some v → ViewOk r v ∧ v.id = itemId := by
  intro n
  induction n with
  | zero => intro k _; exact ⟨none, rfl, fun v h => by cases h⟩
  | succ n ih =>
    intro k hk
    obtain ⟨v, hv, hvok⟩ := item_ok inv (k := k) (by omega)
    unfold findItemFrom
    rw [hv]
    simp only
    split
    · rename_i hid
      exact ⟨some v, rfl, fun v' h => by cases h; exact ⟨hvok, hid⟩⟩
    · exact ih (k + 1) (by omega)

theorem findItem_ok {r : Reader} (inv : Inv r) (typeId itemId : Nat) :
    ∃ res, r.findItem typeId itemId = .ok res ∧ ∀ v, res = some v → ViewOk r v ∧ v.id = itemId := by
  obtain ⟨a, b, e, h1, h2, _⟩ := itemTypeIndicesIn_ok r.numItems r.itemTypes typeId inv.types
  unfold Reader.findItem Reader.itemTypeIndices
  rw [e]
  exact findItemFrom_ok inv itemId _ _ (by omega)

theorem dataSizeFile_ok {r : Reader} (inv : Inv r) {k : Nat} (hk : k < r.numData.toNat) :
    ∃ off n, r.dataOffsets[k]? = some off ∧ 0 ≤ off ∧ r.dataSizeFile k = .ok n
      ∧ off.toNat + n ≤ r.sizeData.toNat := by
  obtain ⟨off, hoff, h0, h1, hnext, _⟩ := inv.datas k hk
  have hlen := inv.doffsLen
  unfold Reader.dataSizeFile
  rw [hoff]
  simp only
  rw [if_neg (by omega)]
  by_cases hlast : k < r.dataOffsets.length - 1
  · rw [if_pos hlast]
    have hk1 : k + 1 < r.dataOffsets.length := by omega
    obtain ⟨off', hoff', h0', h1', _⟩ := inv.datas (k + 1) (by omega)
    rw [hoff']
    simp only
    have := hnext off' hoff'
    rw [asUsize_nonneg h0, asUsize_nonneg h0']
    rw [if_pos (by omega)]
    exact ⟨off, _, rfl, h0, rfl, by omega⟩
  · rw [if_neg hlast]
    simp only
    rw [asUsize_nonneg h0, asUsize_nonneg inv.sd]
    rw [if_pos (by omega)]
    exact ⟨off, _, rfl, h0, rfl, by omega⟩

/-- `read_data` under the invariant and zlib's contract: no panic; version 3 returns exactly the
stored bytes, which lie inside the data section; version 4 returns as many bytes as the size
table says. -/
theorem readData_ok {r : Reader} (inv : Inv r) (inflate : Nat → List UInt8 → Option (List UInt8))
    (hz : ∀ n src out, inflate n src = some out → out.length ≤ n)
    {k : Nat} (hk : k < r.numData.toNat) :
    (∃ e, r.readData inflate k = .err e)
      ∨ ∃ out, r.readData inflate k = .ok out
          ∧ (r.uncompSizes = none → ∃ off n, r.dataOffsets[k]? = some off ∧ 0 ≤ off
                ∧ off.toNat + n ≤ r.sizeData.toNat ∧ out = (r.dataRegion.drop off.toNat).take n
                ∧ out.length = n)
          ∧ (∀ uds, r.uncompSizes = some uds → ∃ u, uds[k]? = some u ∧ 0 ≤ u ∧ out.length = u.toNat) := by
  obtain ⟨off, n, hoff, h0, hsz, hend⟩ := dataSizeFile_ok inv hk
  obtain ⟨_, hoff', _, h1, _, huds⟩ := inv.datas k hk
  rw [hoff] at hoff'
  cases hoff'
  unfold Reader.readData
  rw [hsz]
  simp only
  rw [hoff]
  simp only
  have hmod : (off % 4294967296).toNat = off.toNat := by
    have := inv.sdMax
    omega
  rw [hmod]
  by_cases hraw : ((r.dataRegion.drop off.toNat).take n).length ≠ n
  · rw [if_pos hraw]; exact Or.inl ⟨_, rfl⟩
  · rw [if_neg hraw]
    have hraw : ((r.dataRegion.drop off.toNat).take n).length = n := by omega
    cases huc : r.uncompSizes with
    | none =>
      simp only
      exact Or.inr ⟨_, rfl, fun _ => ⟨off, n, rfl, h0, hend, rfl, hraw⟩, fun uds h => by cases h⟩
    | some uds =>
      obtain ⟨u, hu, hu0⟩ := huds uds huc
      simp only
      rw [hu]
      simp only
      rw [asUsize_nonneg hu0]
      cases hinf : inflate u.toNat ((r.dataRegion.drop off.toNat).take n) with
      | none => exact Or.inl ⟨_, rfl⟩
      | some out =>
        have := hz _ _ _ hinf
        simp only
        rw [if_neg (by omega)]
        split
        · rename_i hlen
          refine Or.inr ⟨out, rfl, (fun h => by cases h), ?_⟩
          intro uds' h'
          cases h'
          exact ⟨u, hu, hu0, hlen⟩
        · exact Or.inl ⟨_, rfl⟩

end Tw.Datafile

namespace Tw.Datafile

theorem itemTypeIndices_ok {r : Reader} (inv : Inv r) (typeId : Nat) :
    ∃ a b, r.itemTypeIndices typeId = .ok (a, b) ∧ a ≤ b ∧ b ≤ r.numItems.toNat := by
  obtain ⟨a, b, e, h1, h2, _⟩ := itemTypeIndicesIn_ok r.numItems r.itemTypes typeId inv.types
  exact ⟨a, b, e, h1, h2⟩

/-- every item inside the range `item_type_indices(type_id)` returns carries that type id -/
theorem item_of_type_range {r : Reader} (inv : Inv r) {typeId a b k : Nat}
    (hr : r.itemTypeIndices typeId = .ok (a, b)) (hk1 : a ≤ k) (hk2 : k < b) :
    ∃ v, r.item k = .ok v ∧ ViewOk r v ∧ v.typeId = typeId := by
  obtain ⟨a', b', e, h1, h2, h3⟩ := itemTypeIndicesIn_ok r.numItems r.itemTypes typeId inv.types
  unfold Reader.itemTypeIndices at hr
  rw [e] at hr
  cases hr
  rcases h3 with h0 | ⟨t, ht, hty, ha, hb⟩
  · cases h0; omega
  · obtain ⟨w, size, hh, hw⟩ := inv.typeIds t ht k (by omega) (by omega)
    obtain ⟨v, hv, hvok⟩ := item_ok inv (k := k) (by omega)
    refine ⟨v, hv, hvok, ?_⟩
    unfold Reader.item at hv
    rw [hh] at hv
    simp only at hv
    repeat (split at hv; · simp at hv)
    cases hv
    simp only
    unfold headerTypeId at hw
    rw [← hty]
    have : 0 ≤ w % 4294967296 := by omega
    omega

end Tw.Datafile

namespace Tw.Datafile

/-! ### the file-backed reader (`datafile/src/file.rs`) -/

theorem readUds_suffix {c : Bool} {n : Nat} {rest : List UInt8} {u : Option (List UInt8)}
    {rest' : List UInt8} (h : readUds c n rest = some (u, rest')) : ∃ pre, rest = pre ++ rest' := by
  unfold readUds at h
  split at h
  · split at h
    · cases h
    · rename_i b r hb
      cases h
      exact ⟨b, (readExact_some hb).2⟩
  · cases h; exact ⟨[], rfl⟩

/-- an accepted file has a complete header and ends with the reader's data region -/
theorem new_ok_suffix {bytes : List UInt8} {r : Reader} (h : Reader.new bytes = .ok r) :
    headerSize ≤ bytes.length ∧ ∃ pre, bytes = pre ++ r.dataRegion := by
  unfold Reader.new at h
  split at h
  · cases h
  · cases h
  · rename_i hd hread
    obtain ⟨_, _, hlen⟩ := Header.read_ok hread
    refine ⟨hlen, ?_⟩
    split at h
    · cases h
    · cases h
    · split at h
      · cases h
      · simp only at h
        split at h; · cases h
        rename_i tb rest1 h1
        split at h; · cases h
        rename_i iob rest2 h2
        split at h; · cases h
        rename_i dob rest3 h3
        split at h; · cases h
        rename_i udb rest4 h4
        split at h; · cases h
        split at h; · cases h
        rename_i ib rest5 h5
        split at h; · cases h
        split at h
        · cases h
          obtain ⟨p4, e4⟩ := readUds_suffix h4
          refine ⟨bytes.take headerSize ++ tb ++ iob ++ dob ++ p4 ++ ib, ?_⟩
          have e0 : bytes = bytes.take headerSize ++ bytes.drop headerSize := (List.take_append_drop _ _).symm
          rw [(readExact_some h1).2, (readExact_some h2).2, (readExact_some h3).2, e4,
            (readExact_some h5).2] at e0
          simp only [List.append_assoc] at e0 ⊢
          exact e0
        · cases h
        · cases h

/-- **Opening a datafile that is embedded in a larger file** (`Reader::new(file)` with the file
positioned at `start`) behaves exactly like opening the bytes from `start` on by themselves: same
acceptance, same tables, same data region; the `unwrap` in `ensure_filesize` cannot fail. -/
theorem fileOpen_eq (file : List UInt8) (start : Nat) :
    fileOpen file start = Reader.new (file.drop start) := by
  unfold fileOpen
  cases h : Reader.new (file.drop start) with
  | panic s => rfl
  | err e => rfl
  | ok r =>
    obtain ⟨hlen, pre, hpre⟩ := new_ok_suffix h
    simp only
    have hs : ¬ file.length < start := by
      simp only [List.length_drop, headerSize] at hlen; omega
    rw [if_neg hs]
    have hsb : (file.drop start).length - r.dataRegion.length = pre.length := by
      rw [hpre]; simp
    rw [hsb]
    have hd : file.drop (start + pre.length) = r.dataRegion := by
      rw [← List.drop_drop, hpre]; exact List.drop_left' rfl
    rw [hd]

end Tw.Datafile

namespace Tw.Datafile

/-! ### callbacks that fail -/

/-- with callbacks that never fail, `newCb` is `new` -/
theorem newCb_never (bytes : List UInt8) : Reader.newCb bytes (fun _ => false) = Reader.new bytes := by
  unfold Reader.newCb Reader.new
  simp

/-- a failing callback can only turn the result into the callback's error -/
theorem newCb_cases (bytes : List UInt8) (fails : Nat → Bool) :
    Reader.newCb bytes fails = Reader.new bytes ∨ Reader.newCb bytes fails = .err .callback := by
  unfold Reader.newCb Reader.new
  by_cases h0 : fails 0 = true
  · right; rw [if_pos h0]
  · rw [if_neg h0]
    split
    · left; rfl
    · left; rfl
    · rename_i h hread
      split
      · left; rfl
      · left; rfl
      · rename_i hc hcheck
        split
        · left; rfl
        · simp only
          by_cases h1 : fails 1 = true
          · right; rw [if_pos h1]
          · rw [if_neg h1]
            split
            · left; rfl
            · by_cases h2 : fails 2 = true
              · right; rw [if_pos h2]
              · rw [if_neg h2]
                split
                · left; rfl
                · by_cases h3 : fails 3 = true
                  · right; rw [if_pos h3]
                  · rw [if_neg h3]
                    split
                    · left; rfl
                    · generalize (if h.version = 3 then Version.v3 else if hc.crude = true then Version.v4crude
                        else Version.v4) = ver
                      by_cases h4 : (ver.hasCompressedData && fails 4) = true
                      · right; rw [if_pos h4]
                      · rw [if_neg h4]
                        split
                        · left; rfl
                        · by_cases hal : asUsize h.sizeItems % 4 ≠ 0
                          · left; rw [if_pos hal, if_pos hal]
                          · rw [if_neg hal, if_neg hal]
                            by_cases h5 : fails (if ver.hasCompressedData = true then 5 else 4) = true
                            · right; rw [if_pos h5]
                            · rw [if_neg h5]
                              split
                              · left; rfl
                              · by_cases h6 : fails ((if ver.hasCompressedData = true then 5 else 4) + 1) = true
                                · right; rw [if_pos h6]
                                · rw [if_neg h6]
                                  by_cases h7 : fails ((if ver.hasCompressedData = true then 5 else 4) + 2) = true
                                  · right; rw [if_pos h7]
                                  · rw [if_neg h7]; left; rfl

theorem newCb_never_panics (bytes : List UInt8) (fails : Nat → Bool) (s : String) :
    Reader.newCb bytes fails ≠ .panic s := by
  rcases newCb_cases bytes fails with h | h
  · rw [h]
    rcases new_spec bytes with ⟨e, he⟩ | ⟨r, hr, _⟩
    · rw [he]; simp
    · rw [hr]; simp
  · rw [h]; simp

/-- `read_data` with failing callbacks: the same result or the callback's error -/
theorem readDataCb_cases (r : Reader) (inflate : Nat → List UInt8 → Option (List UInt8)) (index : Nat)
    (failSeek failAlloc : Bool) :
    r.readDataCb inflate index failSeek failAlloc = r.readData inflate index
      ∨ r.readDataCb inflate index failSeek failAlloc = .err .callback := by
  unfold Reader.readDataCb Reader.readData
  cases failSeek <;> cases failAlloc <;> simp <;>
    (repeat' split) <;> simp_all

theorem readDataCb_never (r : Reader) (inflate : Nat → List UInt8 → Option (List UInt8)) (index : Nat) :
    r.readDataCb inflate index false false = r.readData inflate index := by
  unfold Reader.readDataCb Reader.readData
  simp

end Tw.Datafile

namespace Tw.Datafile

theorem firstFailure_no_panic : ∀ (l : List (Outcome Unit)), (∀ o ∈ l, ∀ s, o ≠ .panic s) →
    ∀ s, firstFailure l ≠ .panic s
  | [], _, s => by simp [firstFailure]
  | .ok () :: rest, h, s => by
    simp only [firstFailure]
    exact firstFailure_no_panic rest (fun o ho => h o (List.mem_cons_of_mem _ ho)) s
  | .err e :: _, _, s => by simp [firstFailure]
  | .panic s' :: _, h, s => absurd rfl (h _ (List.mem_cons_self ..) s')

/-- `debug_dump` on an accepted file never panics (for a zlib that honours its contract) -/
theorem debugDump_no_panic {r : Reader} (inv : Inv r) (inflate : Nat → List UInt8 → Option (List UInt8))
    (hz : ∀ n src out, inflate n src = some out → out.length ≤ n) (s : String) :
    r.debugDump inflate ≠ .panic s := by
  unfold Reader.debugDump
  apply firstFailure_no_panic
  intro o ho s'
  rcases List.mem_append.1 ho with h | h
  · simp only [List.mem_flatMap, List.mem_range] at h
    obtain ⟨i, hi, ho⟩ := h
    obtain ⟨t, ht, _⟩ := itemType_ok inv hi
    rw [ht] at ho
    simp only at ho
    obtain ⟨a, b, hab, _, hb⟩ := itemTypeIndices_ok inv t
    rw [hab] at ho
    simp only [List.mem_map, List.mem_range] at ho
    obtain ⟨j, hj, rfl⟩ := ho
    obtain ⟨v, hv, _⟩ := item_ok inv (k := a + j) (by omega)
    rw [hv]; simp [Outcome.void]
  · simp only [List.mem_map, List.mem_range] at h
    obtain ⟨i, hi, rfl⟩ := h
    rcases readData_ok inv inflate hz hi with ⟨e, he⟩ | ⟨out, ho', _⟩
    · rw [he]; simp [Outcome.void]
    · rw [ho']; simp [Outcome.void]

end Tw.Datafile
