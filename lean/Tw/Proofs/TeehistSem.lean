import Tw.Proofs.TeehistInterp

/-! Semantic facts about the reference semantics `interp`: totality, shape of parsed records. -/
namespace Tw.Teehistorian
open Tw.Packer

/-! ### Parsed records are well formed -/

theorem andThen_ok {α β : Type} {p : Parser α} {f : α → Parser β} {s r : List UInt8} {y : β}
    (h : (p.andThen f) s = .ok y r) : ∃ x r1, p s = .ok x r1 ∧ f x r1 = .ok y r := by
  unfold Parser.andThen at h
  cases hp : p s with
  | needMore => rw [hp] at h; simp [PR.bind] at h
  | err e => rw [hp] at h; simp [PR.bind] at h
  | ok x r1 => rw [hp] at h; exact ⟨x, r1, rfl, h⟩

theorem pure_ok {α : Type} {x y : α} {s r : List UInt8} (h : Parser.pure x s = .ok y r) : y = x := by
  simp only [Parser.pure, PR.ok.injEq] at h; exact h.1.symm

/-- The item a record kind decodes to has the matching constructor (and carries the client id of
the kind; a tick skip carries a non-negative `dt`). -/
def itemMatches : Kind → FItem → Prop
  | .playerDiff c, .playerDiff c' _ _ => c' = c
  | .finish, .finish => True
  | .tickSkip, .tickSkip dt => 0 ≤ dt
  | .playerNew c, .playerNew c' _ _ => c' = c
  | .playerOld c, .playerOld c' => c' = c
  | .inputDiff, .inputDiff _ _ => True
  | .inputNew, .inputNew _ _ => True
  | .message, .other _ => True
  | .join, .other _ => True
  | .drop, .other _ => True
  | .consoleCommand, .other _ => True
  | .ex, .other _ => True
  | _, _ => False

theorem decodeExPayload_other {uuid data s r : List UInt8} {it : FItem}
    (h : decodeExPayload uuid data s = .ok it r) : ∃ o, it = .other o := by
  unfold decodeExPayload at h
  split at h
  · split at h
    · simp only [PR.ok.injEq] at h; exact ⟨_, h.1.symm⟩
    · simp at h
    · simp at h
  · simp only [PR.ok.injEq] at h; exact ⟨_, h.1.symm⟩

theorem parseRest_matches {k : Kind} {s r : List UInt8} {it : FItem} (h : parseRest k s = .ok it r) :
    itemMatches k it := by
  cases k with
  | playerDiff c =>
    obtain ⟨_, _, _, h⟩ := andThen_ok h
    obtain ⟨_, _, _, h⟩ := andThen_ok h
    rw [pure_ok h]; simp [itemMatches]
  | finish => rw [pure_ok h]; simp [itemMatches]
  | tickSkip =>
    obtain ⟨dt, _, _, h⟩ := andThen_ok h
    by_cases hd : dt < 0
    · simp [hd, Parser.fail] at h
    · simp only [hd, if_false] at h
      rw [pure_ok h]; simp only [itemMatches]; omega
  | playerNew c =>
    obtain ⟨_, _, _, h⟩ := andThen_ok h
    obtain ⟨_, _, _, h⟩ := andThen_ok h
    rw [pure_ok h]; simp [itemMatches]
  | playerOld c => rw [pure_ok h]; simp [itemMatches]
  | inputDiff =>
    obtain ⟨_, _, _, h⟩ := andThen_ok h
    obtain ⟨_, _, _, h⟩ := andThen_ok h
    rw [pure_ok h]; simp [itemMatches]
  | inputNew =>
    obtain ⟨_, _, _, h⟩ := andThen_ok h
    obtain ⟨_, _, _, h⟩ := andThen_ok h
    rw [pure_ok h]; simp [itemMatches]
  | message =>
    obtain ⟨_, _, _, h⟩ := andThen_ok h
    obtain ⟨_, _, _, h⟩ := andThen_ok h
    rw [pure_ok h]; simp [itemMatches]
  | join =>
    obtain ⟨_, _, _, h⟩ := andThen_ok h
    rw [pure_ok h]; simp [itemMatches]
  | drop =>
    obtain ⟨_, _, _, h⟩ := andThen_ok h
    obtain ⟨_, _, _, h⟩ := andThen_ok h
    rw [pure_ok h]; simp [itemMatches]
  | consoleCommand =>
    obtain ⟨_, _, _, h⟩ := andThen_ok h
    obtain ⟨_, _, _, h⟩ := andThen_ok h
    obtain ⟨_, _, _, h⟩ := andThen_ok h
    obtain ⟨n, _, _, h⟩ := andThen_ok h
    by_cases hn : n < 0
    · simp [hn, Parser.fail] at h
    · simp only [hn, if_false] at h
      obtain ⟨_, _, _, h⟩ := andThen_ok h
      rw [pure_ok h]; simp [itemMatches]
  | ex =>
    obtain ⟨_, _, _, h⟩ := andThen_ok h
    obtain ⟨_, _, _, h⟩ := andThen_ok h
    obtain ⟨o, rfl⟩ := decodeExPayload_other h
    simp [itemMatches]

def RecWf (r : Rec) : Prop := itemMatches r.kind r.item

/-- `parseAll` only produces well-formed records, never runs out of its fuel, and reports
`afterFinish` only behind a `Finish` record. -/
def EndsProperly : List Rec → Tail → Prop
  | [], t => t ≠ .afterFinish ∧ t ≠ .outOfFuel
  | r :: rs, t => r.item = .finish ∨ EndsProperly rs t

theorem parseAll_wf (hasEx : Bool) : ∀ (f : Nat) (s : List UInt8), s.length < f →
    (∀ r ∈ (parseAll hasEx f s).1, RecWf r) ∧ EndsProperly (parseAll hasEx f s).1 (parseAll hasEx f s).2 := by
  intro f
  induction f with
  | zero => intro s h; omega
  | succ f ih =>
    intro s hf
    unfold parseAll
    cases hk : parseKind hasEx s with
    | needMore => simp [EndsProperly]
    | err e => simp [EndsProperly]
    | ok k rest =>
      have hlt := parseKind_consumes hk
      simp only
      cases hr : parseRest k rest with
      | needMore => simp [EndsProperly]
      | err e => simp [EndsProperly]
      | ok it rest' =>
        have hle := (good_parseRest k).rest_le hr
        have hm := parseRest_matches hr
        simp only
        by_cases hfin : k = .finish
        · subst hfin
          simp only [if_true]
          have : it = .finish := by
            rw [parseRest_finish] at hr; simp only [PR.ok.injEq] at hr; exact hr.1.symm
          subst this
          refine ⟨?_, Or.inl rfl⟩
          intro r hr'
          simp only [List.mem_singleton] at hr'
          subst hr'; exact hm
        · simp only [hfin, if_false]
          obtain ⟨h1, h2⟩ := ih rest' (by omega)
          refine ⟨?_, Or.inr h2⟩
          intro r hr'
          simp only [List.mem_cons] at hr'
          cases hr' with
          | inl h => subst h; exact hm
          | inr h => exact h1 r h

/-! ### Totality -/

theorem post_finish (rd : Reader) : ∃ rd', rd.post .finish = .finished rd' := by
  simp [Reader.post, FItem.cid]

theorem interp_total (cfg : Cfg) : ∀ (rs : List Rec) (t : Tail) (rd : Reader), EndsProperly rs t →
    (interp cfg rd rs t).final ≠ .outOfFuel := by
  intro rs
  induction rs with
  | nil =>
    intro t rd h
    obtain ⟨h1, h2⟩ := h
    unfold interp
    cases t with
    | afterFinish => exact absurd rfl h1
    | outOfFuel => exact absurd rfl h2
    | kindEnd => simp
    | kindErr e => simp
    | restEnd k =>
      have hps := preAll_phase 4 rd k (by have := phase_le rd k; omega)
      cases hp : preAll 4 rd k with
      | mk its pe =>
        rw [hp] at hps
        cases pe with
        | stuck => exact absurd rfl hps.1
        | err e rd2 => simp [hp]
        | ready rd2 => simp [hp]
    | restErr k e =>
      have hps := preAll_phase 4 rd k (by have := phase_le rd k; omega)
      cases hp : preAll 4 rd k with
      | mk its pe =>
        rw [hp] at hps
        cases pe with
        | stuck => exact absurd rfl hps.1
        | err e rd2 => simp [hp]
        | ready rd2 => simp [hp]
  | cons r rs ih =>
    intro t rd h
    unfold interp
    have hps := preAll_phase 4 rd r.kind (by have := phase_le rd r.kind; omega)
    cases hp : preAll 4 rd r.kind with
    | mk its pe =>
      rw [hp] at hps
      cases pe with
      | stuck => exact absurd rfl hps.1
      | err e rd2 => simp
      | ready rd2 =>
        simp only
        cases hpost : rd2.post r.item with
        | finished rd3 => simp
        | err e rd3 => simp
        | item it rd3 =>
          simp only
          cases h with
          | inl hfin =>
            obtain ⟨rd', hf⟩ := post_finish rd2
            rw [hfin, hf] at hpost; simp at hpost
          | inr h => exact ih t rd3 h

theorem runWhole_final (cfg : Cfg) (s : List UInt8) : (runWhole cfg s).final ≠ .outOfFuel := by
  unfold runWhole
  exact interp_total cfg _ _ _ (parseAll_wf cfg.hasEx (s.length + 1) s (by omega)).2

theorem interp_not_cbErr (cfg : Cfg) : ∀ (rs : List Rec) (t : Tail) (rd : Reader),
    (interp cfg rd rs t).final ≠ .cbErr := by
  intro rs
  induction rs with
  | nil =>
    intro t rd
    unfold interp
    cases t <;> simp <;> (split <;> simp)
  | cons r rs ih =>
    intro t rd
    unfold interp
    cases hp : preAll 4 rd r.kind with
    | mk its pe =>
      cases pe with
      | stuck => simp
      | err e rd2 => simp
      | ready rd2 =>
        simp only
        cases hpost : rd2.post r.item with
        | finished rd3 => simp
        | err e rd3 => simp
        | item it rd3 => simp only; exact ih t rd3

theorem runWhole_not_cbErr (cfg : Cfg) (s : List UInt8) : (runWhole cfg s).final ≠ .cbErr :=
  interp_not_cbErr cfg _ _ _

/-! ### The legacy tables (before the repair of finding D18) -/

/-- `PLAYER_NEW`/`INPUT_NEW` records asked for table slot `cid`. -/
def cidOk (n : Nat) : FItem → Bool
  | .playerNew c _ _ => decide (c.toNat < n)
  | .inputNew c _ => decide (c.toNat < n)
  | _ => true

/-- No record asks for a table slot beyond `n`. -/
def CidsBelow (n : Nat) (rs : List Rec) : Prop := ∀ r ∈ rs, cidOk n r.item = true

instance (n : Nat) (rs : List Rec) : Decidable (CidsBelow n rs) := by unfold CidsBelow; infer_instance

theorem Legacy.post_of_cidOk {slots : Nat} {it : FItem} (h : cidOk slots it = true) (rd : Reader) :
    Legacy.post slots rd it = some (rd.post it) := by
  unfold Legacy.post
  cases hs : Legacy.slotOf it with
  | none => rfl
  | some c =>
    simp only
    have hc : c < slots := by
      unfold Legacy.slotOf at hs
      cases it <;> simp only [cidOk, decide_eq_true_eq] at h <;> simp at hs
      all_goals (obtain ⟨_, rfl⟩ := hs; exact h)
    rw [if_neg (by omega)]

/-- Below the table bound the old reader behaved exactly as the repaired one does. -/
theorem Legacy.interp_of_below (slots : Nat) (cfg : Cfg) : ∀ (rs : List Rec) (t : Tail) (rd : Reader),
    CidsBelow slots rs → Legacy.interp slots cfg rd rs t = some (Teehistorian.interp cfg rd rs t) := by
  intro rs
  induction rs with
  | nil => intro t rd _; rfl
  | cons r rs ih =>
    intro t rd h
    unfold Legacy.interp Teehistorian.interp
    cases hp : preAll 4 rd r.kind with
    | mk its pe =>
      cases pe with
      | stuck => rfl
      | err e rd2 => rfl
      | ready rd2 =>
        simp only
        rw [Legacy.post_of_cidOk (h r (List.mem_cons_self ..))]
        cases hpost : rd2.post r.item with
        | finished rd3 => rfl
        | err e rd3 => rfl
        | item it rd3 =>
          simp only
          rw [ih t rd3 (fun r' hr' => h r' (List.mem_cons_of_mem _ hr'))]

/-- The old reader ran out of table slots as soon as the first record it processed asked for a
slot beyond the bound. -/
theorem Legacy.interp_none_of_first {slots : Nat} {cfg : Cfg} {rd rd' : Reader} {r : Rec} {rs : List Rec}
    {t : Tail} {its : List Item} (hp : preAll 4 rd r.kind = (its, .ready rd'))
    (hs : ∃ c, Legacy.slotOf r.item = some c ∧ slots ≤ c) :
    Legacy.interp slots cfg rd (r :: rs) t = none := by
  obtain ⟨c, hc, hle⟩ := hs
  unfold Legacy.interp
  rw [hp]
  simp only [Legacy.post, hc]
  rw [if_pos hle]

end Tw.Teehistorian
