/-
C13 / D25: along a chain of builders in which each one continues the previous snapshot
(`recycle`, what `Storage::new_builder` hands out since the repair of D25), the raw type number of a
UUID type never changes.  If the size of an item is determined by its type (as for every protocol
object), any two snapshots of the chain therefore have agreeing raw item sizes, and `Delta::create`
between them cannot panic.
-/
import Tw.Proofs.SnapExt
import Tw.Proofs.SnapWire
import Tw.Proofs.SnapDelta

namespace Tw.Snap

/-- every non-registry item has the size the application fixed for its `(type, id)` -/
def Sized (size : TypeId → Nat → Nat) (s : Snap) : Prop :=
  ∀ p, p ∈ s.raw.items →
    (0 < keyType p.1 → keyType p.1 < offsetExt → p.2.length = size (.ordinal (keyType p.1)) (keyId p.1)) ∧
    (∀ u, mfind u s.ext = some (keyType p.1) → p.2.length = size (.uuid u) (keyId p.1))

/-- `b` knows every UUID type of `a` under the same number -/
def ExtLe (a b : Snap) : Prop := ∀ u t, mfind u a.ext = some t → mfind u b.ext = some t

theorem sizesAgree_of_sized {size : TypeId → Nat → Nat} {a b : Builder} (ha : a.Inv) (hb : b.Inv)
    (hsa : Sized size a.snap) (hsb : Sized size b.snap) (hle : ExtLe a.snap b.snap) :
    SizesAgree a.snap.raw b.snap.raw := by
  intro p hp
  cases hf : mfind p.1 a.snap.raw.items with
  | none => rfl
  | some da =>
    have hmem : (p.1, da) ∈ a.snap.raw.items := mem_of_mfind hf
    simp only [lenAgree, beq_iff_eq]
    by_cases h0 : keyType p.1 = typeIdEx
    · obtain ⟨u, _, hda⟩ := ha.ok.reg_ext (p.1, da) hmem h0
      obtain ⟨u', _, hdb⟩ := hb.ok.reg_ext p hp h0
      simp only at hda
      rw [hda, hdb]; simp [uuidToData]
    · by_cases h1 : keyType p.1 < offsetExt
      · have hpos : 0 < keyType p.1 := by rw [typeIdEx_eq] at h0; omega
        rw [((hsa _ hmem).1 hpos h1), ((hsb p hp).1 hpos h1)]
      · rcases ha.types (p.1, da) hmem with h | ⟨u, hu⟩
        · exact (h1 h).elim
        · simp only at hu
          rw [(hsa _ hmem).2 u hu, (hsb p hp).2 u (hle u _ hu)]

theorem sized_minsert {size : TypeId → Nat → Nat} {m : Items} {ext : List (Int × Nat)} {k : Int}
    {d : List Int} (hs : Sized size ⟨⟨m⟩, ext⟩)
    (h1 : 0 < keyType k → keyType k < offsetExt → d.length = size (.ordinal (keyType k)) (keyId k))
    (h2 : ∀ u, mfind u ext = some (keyType k) → d.length = size (.uuid u) (keyId k)) :
    Sized size ⟨⟨minsert k d m⟩, ext⟩ := by
  intro p hp
  rcases mem_minsert hp with rfl | hp'
  · exact ⟨h1, h2⟩
  · exact hs p hp'

theorem sized_ext_insert {size : TypeId → Nat → Nat} {raw : RawSnap} {ext : List (Int × Nat)} {u : Int}
    {t : Nat} (hs : Sized size ⟨raw, ext⟩) (hfresh : ∀ p, p ∈ raw.items → keyType p.1 ≠ t) :
    Sized size ⟨raw, minsert u t ext⟩ := by
  intro p hp
  refine ⟨(hs p hp).1, ?_⟩
  intro u' hu'
  simp only [mfind_minsert] at hu'
  split at hu'
  · injection hu' with hu'
    exact (hfresh p hp hu'.symm).elim
  · exact (hs p hp).2 u' hu'

theorem extLe_refl (a : Snap) : ExtLe a a := fun _ _ h => h

theorem extLe_trans {a b c : Snap} (h1 : ExtLe a b) (h2 : ExtLe b c) : ExtLe a c :=
  fun u t h => h2 u t (h1 u t h)

/-- one `add_item` whose data has the size of its type -/
theorem addItem_sized {size : TypeId → Nat → Nat} {b b' : Builder} {tid : TypeId} {id : Nat}
    {data : List Int} {r : Option BuilderError} (hb : b.Inv) (hs : Sized size b.snap)
    (hid : id < 65536) (hlen : data.length = size tid id)
    (h : b.addItem tid id data = some (b', r)) :
    Sized size b'.snap ∧ ExtLe b.snap b'.snap := by
  obtain ⟨hnr1, hnr2⟩ := hb.next_range
  rw [offsetExt_eq] at hnr1
  have hsb : Sized size ⟨⟨b.snap.raw.items⟩, b.snap.ext⟩ := hs
  cases tid with
  | ordinal o =>
    simp only [Builder.addItem] at h
    by_cases ho : (0 < o ∧ o < offsetExt)
    rotate_left
    · simp [ho] at h
    simp only [ho, not_true_eq_false, if_false] at h
    have ho' : o < 65536 := by have := ho.2; rw [offsetExt_eq] at this; omega
    cases hadd : b.snap.raw.addItem (keyOf o id) data with
    | error e =>
      simp only [hadd, Option.some.injEq, Prod.mk.injEq] at h
      obtain ⟨rfl, _⟩ := h
      exact ⟨hs, extLe_refl _⟩
    | ok raw =>
      simp only [hadd, Option.some.injEq, Prod.mk.injEq] at h
      obtain ⟨rfl, _⟩ := h
      obtain ⟨hitems, _⟩ := addItem_ok hadd
      refine ⟨?_, extLe_refl _⟩
      have hkt : keyType (keyOf o id) = o := keyType_keyOf ho' hid
      have hki : keyId (keyOf o id) = id := keyId_keyOf ho' hid
      have : Sized size ⟨⟨minsert (keyOf o id) data b.snap.raw.items⟩, b.snap.ext⟩ := by
        apply sized_minsert hsb
        · intro _ _; rw [hkt, hki]; exact hlen
        · intro u hu
          rw [hkt] at hu
          have := (hb.ext_range u o hu).1
          omega
      intro p hp
      simp only at hp
      rw [hitems] at hp
      exact this p hp
  | uuid u =>
    simp only [Builder.addItem] at h
    cases hf : mfind u b.snap.ext with
    | some t =>
      simp only [hf] at h
      have ht : t < 65536 := (hb.ok.ext_reg u t hf).2.1
      have hkt : keyType (keyOf t id) = t := keyType_keyOf ht hid
      have hki : keyId (keyOf t id) = id := keyId_keyOf ht hid
      cases hadd : b.snap.raw.addItem (keyOf t id) data with
      | error e =>
        simp only [hadd, Option.some.injEq, Prod.mk.injEq] at h
        obtain ⟨rfl, _⟩ := h
        exact ⟨hs, extLe_refl _⟩
      | ok raw =>
        simp only [hadd, Option.some.injEq, Prod.mk.injEq] at h
        obtain ⟨rfl, _⟩ := h
        obtain ⟨hitems, _⟩ := addItem_ok hadd
        refine ⟨?_, extLe_refl _⟩
        have : Sized size ⟨⟨minsert (keyOf t id) data b.snap.raw.items⟩, b.snap.ext⟩ := by
          apply sized_minsert hsb
          · intro _ hlt; rw [hkt] at hlt
            have := (hb.ext_range u t hf).1; omega
          · intro u' hu'
            rw [hkt] at hu'
            have : u' = u := by
              obtain ⟨a1, _, a2⟩ := hb.ok.ext_reg u' t hu'
              obtain ⟨a3, _, a4⟩ := hb.ok.ext_reg u t hf
              rw [a2] at a4
              exact uuidToData_inj a1 a3 (Option.some.inj a4)
            rw [this, hki]; exact hlen
        intro p hp
        simp only at hp
        rw [hitems] at hp
        exact this p hp
    | none =>
      simp only [hf] at h
      by_cases h1 : offsetExt ≤ b.nextTypeId
      rotate_left
      · simp [h1] at h
      simp only [h1, not_true_eq_false, if_false] at h
      by_cases h2 : b.nextTypeId < 32768
      rotate_left
      · simp only [h2, not_false_eq_true, if_true, Option.some.injEq, Prod.mk.injEq] at h
        obtain ⟨rfl, _⟩ := h
        exact ⟨hs, extLe_refl _⟩
      simp only [h2, not_true_eq_false, if_false] at h
      have ht : b.nextTypeId < 65536 := by omega
      -- no existing item has the fresh type number
      have hfresh : ∀ p, p ∈ b.snap.raw.items → keyType p.1 ≠ b.nextTypeId := by
        intro p hp e
        rcases hb.types p hp with hlt | ⟨u', hu'⟩
        · rw [offsetExt_eq] at hlt; omega
        · have := (hb.ext_range u' _ hu').2; omega
      have hle : ExtLe b.snap ⟨b.snap.raw, minsert u b.nextTypeId b.snap.ext⟩ := by
        intro u' t' hu'
        simp only [mfind_minsert]
        split
        · rename_i e; subst e; rw [hf] at hu'; cases hu'
        · exact hu'
      cases hadd1 : b.snap.raw.addItem (keyOf typeIdEx b.nextTypeId) (uuidToData u) with
      | error e =>
        simp only [hadd1, Option.some.injEq, Prod.mk.injEq] at h
        obtain ⟨rfl, _⟩ := h
        exact ⟨hs, extLe_refl _⟩
      | ok raw1 =>
        simp only [hadd1] at h
        obtain ⟨hitems1, _⟩ := addItem_ok hadd1
        have hk0 : keyType (keyOf typeIdEx b.nextTypeId) = typeIdEx :=
          keyType_keyOf (by rw [typeIdEx_eq]; omega) ht
        -- the snapshot with the registry item and the new mapping
        have hs1 : Sized size ⟨⟨minsert (keyOf typeIdEx b.nextTypeId) (uuidToData u) b.snap.raw.items⟩,
            minsert u b.nextTypeId b.snap.ext⟩ := by
          apply sized_minsert (sized_ext_insert hsb hfresh)
          · intro hpos _; rw [hk0, typeIdEx_eq] at hpos; omega
          · intro u' hu'
            rw [hk0, typeIdEx_eq] at hu'
            simp only [mfind_minsert] at hu'
            split at hu'
            · simp only [Option.some.injEq] at hu'; omega
            · have := (hb.ext_range u' 0 hu').1; rw [offsetExt_eq] at this; omega
        have hs1' : Sized size ⟨raw1, minsert u b.nextTypeId b.snap.ext⟩ := by
          intro p hp
          simp only at hp
          rw [hitems1] at hp
          exact hs1 p hp
        have hle1 : ExtLe b.snap ⟨raw1, minsert u b.nextTypeId b.snap.ext⟩ := hle
        cases hadd2 : raw1.addItem (keyOf b.nextTypeId id) data with
        | error e =>
          simp only [hadd2, Option.some.injEq, Prod.mk.injEq] at h
          obtain ⟨rfl, _⟩ := h
          exact ⟨hs1', hle1⟩
        | ok raw2 =>
          simp only [hadd2, Option.some.injEq, Prod.mk.injEq] at h
          obtain ⟨rfl, _⟩ := h
          obtain ⟨hitems2, _⟩ := addItem_ok hadd2
          refine ⟨?_, hle1⟩
          have hkt : keyType (keyOf b.nextTypeId id) = b.nextTypeId := keyType_keyOf ht hid
          have hki : keyId (keyOf b.nextTypeId id) = id := keyId_keyOf ht hid
          have hs1'' : Sized size ⟨⟨raw1.items⟩, minsert u b.nextTypeId b.snap.ext⟩ := hs1'
          have : Sized size ⟨⟨minsert (keyOf b.nextTypeId id) data raw1.items⟩,
              minsert u b.nextTypeId b.snap.ext⟩ := by
            apply sized_minsert hs1''
            · intro _ hlt; rw [hkt] at hlt; omega
            · intro u' hu'
              rw [hkt] at hu'
              simp only [mfind_minsert] at hu'
              split at hu'
              · rename_i e; rw [e, hki]; exact hlen
              · have := (hb.ext_range u' _ hu').2; omega
          intro p hp
          simp only at hp
          rw [hitems2] at hp
          exact this p hp

/-! ### `recycle` -/

theorem recycleAdd_items : ∀ (ext : List (Int × Nat)) (raw raw' : RawSnap),
    recycleAdd ext raw = some raw' →
    ∀ p, p ∈ raw'.items → p ∈ raw.items ∨ ∃ q, q ∈ ext ∧ p.1 = keyOf typeIdEx q.2 := by
  intro ext
  induction ext with
  | nil =>
    intro raw raw' h p hp
    simp only [recycleAdd, Option.some.injEq] at h
    subst h; exact Or.inl hp
  | cons q r ih =>
    obtain ⟨u, t⟩ := q
    intro raw raw' h p hp
    simp only [recycleAdd] at h
    cases hadd : raw.addItem (keyOf typeIdEx t) (uuidToData u) with
    | error e => simp [hadd] at h
    | ok raw1 =>
      simp only [hadd] at h
      obtain ⟨hitems, _⟩ := addItem_ok hadd
      rcases ih raw1 raw' h p hp with h1 | ⟨q, hq, hk⟩
      · rw [hitems] at h1
        rcases mem_minsert h1 with h2 | h2
        · exact Or.inr ⟨(u, t), List.mem_cons_self, by rw [h2]⟩
        · exact Or.inl h2
      · exact Or.inr ⟨q, List.mem_cons_of_mem _ hq, hk⟩

/-- `recycle` keeps the numbering and leaves only registry items -/
theorem recycle_sized {size : TypeId → Nat → Nat} {b b' : Builder} (hb : b.Inv)
    (h : b.snap.recycle = some b') :
    b'.Inv ∧ Sized size b'.snap ∧ ExtLe b.snap b'.snap := by
  obtain ⟨b'', h1, hinv, hext, _⟩ := Builder.recycle_inv hb
  rw [h] at h1
  injection h1 with h1
  subst h1
  refine ⟨hinv, ?_, fun u t hu => by rw [hext]; exact hu⟩
  -- every item of the recycled snapshot is a registry item
  have hreg : ∀ p, p ∈ b'.snap.raw.items → keyType p.1 = typeIdEx := by
    intro p hp
    unfold Snap.recycle at h
    cases hn : recycleNext b.snap.raw.items offsetExt with
    | none => simp [hn] at h
    | some n =>
      simp only [hn] at h
      cases hr : recycleAdd b.snap.ext RawSnap.empty with
      | none => simp [hr] at h
      | some raw =>
        simp only [hr, Option.some.injEq] at h
        subst h
        rcases recycleAdd_items _ _ _ hr p hp with h0 | ⟨q, hq, hk⟩
        · simp [RawSnap.empty] at h0
        · have hm : mfind q.1 b.snap.ext = some q.2 := mfind_of_mem hb.ok.ext_sorted hq
          have hlt : q.2 < 65536 := (hb.ok.ext_reg q.1 q.2 hm).2.1
          rw [hk]
          exact keyType_keyOf (by rw [typeIdEx_eq]; omega) hlt
  intro p hp
  have h0 := hreg p hp
  rw [typeIdEx_eq] at h0
  refine ⟨fun hpos _ => by omega, ?_⟩
  intro u hu
  rw [h0] at hu
  have := (hinv.ext_range u 0 hu).1
  rw [offsetExt_eq] at this
  omega

/-! ### chains of builders -/

/-- one step of the application: an item whose size is the size of its type, or continuing with
the recycled snapshot -/
inductive Step (size : TypeId → Nat → Nat) : Builder → Builder → Prop
  | add {b b' : Builder} {tid : TypeId} {id : Nat} {data : List Int} {r : Option BuilderError} :
      tid.Valid → id < 65536 → (∀ x ∈ data, I32 x) → data.length = size tid id →
      b.addItem tid id data = some (b', r) → Step size b b'
  | recycle {b b' : Builder} : b.snap.recycle = some b' → Step size b b'

inductive Chain (size : TypeId → Nat → Nat) : Builder → Builder → Prop
  | refl (b : Builder) : Chain size b b
  | tail {a b c : Builder} : Chain size a b → Step size b c → Chain size a c

theorem chain_inv {size : TypeId → Nat → Nat} {a b : Builder} (h : Chain size a b) (ha : a.Inv)
    (hs : Sized size a.snap) : b.Inv ∧ Sized size b.snap ∧ ExtLe a.snap b.snap := by
  induction h with
  | refl => exact ⟨ha, hs, extLe_refl _⟩
  | tail _ hstep ih =>
    obtain ⟨hbi, hbs, hle⟩ := ih
    cases hstep with
    | add htid hid hd hlen hadd =>
      obtain ⟨s', le'⟩ := addItem_sized hbi hbs hid hlen hadd
      exact ⟨Builder.addItem_inv hbi htid hid hd hadd, s', extLe_trans hle le'⟩
    | recycle hr =>
      obtain ⟨i', s', le'⟩ := recycle_sized (size := size) hbi hr
      exact ⟨i', s', extLe_trans hle le'⟩

theorem sized_new (size : TypeId → Nat → Nat) : Sized size Builder.new.snap := by
  intro p hp; simp [Builder.new, Snap.empty, RawSnap.empty] at hp

/-- Any two snapshots along a chain of builders that starts with `Builder::new()` have agreeing
raw item sizes, so `Delta::create` from the earlier to the later one does not panic. -/
theorem chain_create {size : TypeId → Nat → Nat} {a b : Builder} (h0 : Chain size Builder.new a)
    (h1 : Chain size a b) :
    SizesAgree a.snap.raw b.snap.raw ∧ ∃ d, createDelta a.snap.raw b.snap.raw = some d := by
  obtain ⟨hai, has, _⟩ := chain_inv h0 Builder.new_inv (sized_new size)
  obtain ⟨hbi, hbs, hle⟩ := chain_inv h1 hai has
  have hag := sizesAgree_of_sized hai hbi has hbs hle
  refine ⟨hag, ?_⟩
  cases hc : createDelta a.snap.raw b.snap.raw with
  | some d => exact ⟨d, rfl⟩
  | none => exact absurd hag ((createDelta_eq_none_iff _ _).mp hc)

end Tw.Snap
