import Tw.Model.Conn6
import Tw.Model.Conn7
import Tw.Proofs.Conn

/-!
# The sequence-range invariant: every ack and every sequence number the connection stores or sends
is below `SEQUENCE_MODULUS`

Independent of the packet invariant `Online.Inv`: it holds for the result of every call that
returns, from every state that satisfies it (no API precondition needed).  Together with
`Packet.valid` it is the packet writer's full precondition (`Props/C04`, composition with C05).
-/
namespace Tw.Conn
open Tw.Time

def Chunk.seqOk (c : Chunk) : Prop := ∀ s r, c.vital = some (s, r) → s < seqMod

structure Online.SeqInv (o : Online) : Prop where
  ack : o.ack < seqMod
  seq : o.sequence < seqMod
  pk : ∀ c ∈ o.packet.chunks, c.seqOk
  pnv : ∀ c ∈ o.packetNonvital.chunks, c.seqOk
  rq : ∀ c ∈ o.resendQueue, c.seq < seqMod

def Flushed.SeqOk (f : Flushed) : Prop := f.ack < seqMod ∧ ∀ c ∈ f.chunks, c.seqOk

theorem seqNext_lt (a : Nat) : seqNext a < seqMod := Nat.mod_lt _ (by decide)

theorem Online.new_seqInv : Online.new.SeqInv := by
  refine ⟨by decide, by decide, ?_, ?_, ?_⟩ <;> intro c hc <;> simp [Online.new, PacketContents.empty] at hc

theorem Online.flush_seq {o : Online} (h : o.SeqInv) : o.flush.1.SeqInv ∧ ∀ f ∈ o.flush.2, f.SeqOk := by
  unfold Online.flush
  split
  · exact ⟨h, by simp⟩
  · refine ⟨⟨h.ack, h.seq, ?_, ?_, h.rq⟩, ?_⟩
    · intro c hc; simp [PacketContents.empty] at hc
    · intro c hc; simp [PacketContents.empty] at hc
    · intro f hf; simp at hf; subst hf; exact ⟨h.ack, h.pk⟩

theorem writeChunk_chunks {cfg : Cfg} {p p' : PacketContents} {d : Bytes} {v : Option (Nat × Bool)}
    (h : p.writeChunk cfg d v = .ok p') : p'.chunks = p.chunks ++ [⟨v, d⟩] := by
  unfold PacketContents.writeChunk at h
  split at h
  · cases h
  · split at h
    · cases h
    · split at h
      · cases h
      · injection h with h; rw [← h]

theorem mem_append_chunk {cs : List Chunk} {c0 : Chunk} (h : ∀ c ∈ cs, c.seqOk) (h0 : c0.seqOk) :
    ∀ c ∈ cs ++ [c0], c.seqOk := by
  intro c hc
  rcases List.mem_append.mp hc with hc | hc
  · exact h c hc
  · simp at hc; subst hc; exact h0

theorem Online.queue_seq {cfg : Cfg} {now : Nat} {o o' : Online} {d : Bytes} {v : Bool}
    (he : o.queue cfg now d v = .ok o') (h : o.SeqInv) : o'.SeqInv := by
  unfold Online.queue at he
  cases v with
  | true =>
    simp only [if_true] at he
    split at he
    · cases he
    · cases hw : o.packet.writeChunk cfg d (some (seqNext o.sequence, false)) with
      | error e => rw [hw] at he; cases he
      | ok p =>
        rw [hw] at he
        injection he with he
        subst he
        refine ⟨h.ack, seqNext_lt _, ?_, h.pnv, ?_⟩
        · simp only [writeChunk_chunks hw]
          exact mem_append_chunk h.pk (by intro s r hv; simp at hv; rw [← hv.1]; exact seqNext_lt _)
        · intro c hc
          simp at hc
          rcases hc with hc | hc
          · subst hc; exact seqNext_lt _
          · exact h.rq c hc
  | false =>
    simp only [Bool.false_eq_true, if_false] at he
    cases hw : o.packetNonvital.writeChunk cfg d none with
    | error e => rw [hw] at he; cases he
    | ok pn =>
      rw [hw] at he
      simp only at he
      cases hw2 : o.packet.writeChunk cfg d none with
      | error e => rw [hw2] at he; cases he
      | ok p =>
        rw [hw2] at he
        injection he with he
        subst he
        refine ⟨h.ack, h.seq, ?_, ?_, h.rq⟩
        · simp only [writeChunk_chunks hw2]
          exact mem_append_chunk h.pk (by intro s r hv; simp at hv)
        · simp only [writeChunk_chunks hw]
          exact mem_append_chunk h.pnv (by intro s r hv; simp at hv)

theorem Online.send_seq {cfg : Cfg} {now : Nat} {o o' : Online} {d : Bytes} {v : Bool} {r : SendRes} {fl : List Flushed}
    (he : o.send cfg now d v = .ok (o', r, fl)) (h : o.SeqInv) : o'.SeqInv ∧ ∀ f ∈ fl, f.SeqOk := by
  unfold Online.send at he
  split at he
  · injection he with he; injection he with h1 h2; injection h2 with h2 h3
    subst h1 h3; exact ⟨h, by simp⟩
  · simp only at he
    cases hq : (if (!o.packet.canFit d.length v) = true then o.flush else (o, [])).1.queue cfg now d v with
    | error e => rw [hq] at he; cases he
    | ok o2 =>
      rw [hq] at he
      injection he with he; injection he with h1 h2; injection h2 with h2 h3
      subst h1 h3
      by_cases hf : (!o.packet.canFit d.length v) = true
      · simp only [hf, if_true] at hq ⊢
        exact ⟨Online.queue_seq hq (Online.flush_seq h).1, (Online.flush_seq h).2⟩
      · simp only [hf] at hq ⊢
        exact ⟨Online.queue_seq hq h, by simp⟩

theorem resendLoop_seq {cfg : Cfg} (now : Nat) :
    ∀ (todo : List ResendChunk) (o : Online) (send : Timeout) (acc : List Flushed),
      o.SeqInv → (∀ c ∈ todo, c.seq < seqMod) → (∀ f ∈ acc, f.SeqOk) →
      ∀ o' send' fl, resendLoop cfg now todo o send acc = .ok (o', send', fl) →
        o'.SeqInv ∧ ∀ f ∈ fl, f.SeqOk := by
  intro todo
  induction todo with
  | nil =>
    intro o send acc h _ hacc o' send' fl he
    simp only [resendLoop] at he
    injection he with he; injection he with h1 h2; injection h2 with h2 h3
    subst h1 h3; exact ⟨h, hacc⟩
  | cons c rest ih =>
    intro o send acc h htodo hacc o' send' fl he
    unfold resendLoop at he
    simp only at he
    have h1 : (if o.packet.canFit c.data.length true = true then o else o.flush.1).SeqInv := by
      split
      · exact h
      · exact (Online.flush_seq h).1
    cases hw : (if o.packet.canFit c.data.length true = true then o else o.flush.1).packet.writeChunk cfg c.data
        (some (c.seq, true)) with
    | error e => rw [hw] at he; cases he
    | ok p =>
      rw [hw] at he
      simp only at he
      refine ih { (if o.packet.canFit c.data.length true = true then o else o.flush.1) with packet := p } _ _
        ⟨h1.ack, h1.seq, ?_, h1.pnv, h1.rq⟩ (fun c' hc' => htodo c' (by simp [hc'])) ?_ o' send' fl he
      · simp only [writeChunk_chunks hw]
        exact mem_append_chunk h1.pk (by intro s r hv; simp at hv; rw [← hv.1]; exact htodo c (by simp))
      · split
        · exact hacc
        · intro f hf
          rcases List.mem_append.mp hf with hf | hf
          · exact hacc f hf
          · exact (Online.flush_seq h).2 f hf

theorem Online.resend_seq {cfg : Cfg} {now : Nat} {o o' : Online} {send send' : Timeout} {fl : List Flushed}
    (he : o.resend cfg now send = .ok (o', send', fl)) (h : o.SeqInv) : o'.SeqInv ∧ ∀ f ∈ fl, f.SeqOk := by
  unfold Online.resend at he
  split at he
  · injection he with he; injection he with h1 h2; injection h2 with h2 h3
    subst h1 h3; exact ⟨h, by simp⟩
  · have hrq : ∀ c ∈ (o.resendStart now).resendQueue, c.seq < seqMod := by
      intro c hc
      simp only [Online.resendStart, List.mem_map] at hc
      obtain ⟨c0, hc0, rfl⟩ := hc
      exact h.rq c0 hc0
    have hs : (o.resendStart now).SeqInv := ⟨h.ack, h.seq, h.pnv, h.pnv, hrq⟩
    exact resendLoop_seq now _ _ send [] hs
      (fun c hc => hrq c (List.mem_reverse.mp hc)) (by simp) o' send' fl he

theorem Online.ackChunks_seq {o : Online} (h : o.SeqInv) (a : Nat) : (o.ackChunks a).SeqInv := by
  unfold Online.ackChunks
  split
  · exact ⟨h.ack, h.seq, h.pk, h.pnv, fun c hc => h.rq c (List.mem_of_mem_take hc)⟩
  · exact h

theorem Online.feedAck_seq {o o' : Online} {a : Nat} (he : o.feedAck a = .ok o') (h : o.SeqInv) : o'.SeqInv := by
  unfold Online.feedAck at he
  split at he
  · cases he
  · injection he with he; subst he; exact Online.ackChunks_seq h a

theorem receiveEager_lt (cs : List Chunk) : ∀ (ack : Nat) (rr : Bool), ack < seqMod → (receiveEager ack rr cs).1 < seqMod := by
  induction cs with
  | nil => intro ack rr h; exact h
  | cons c cs ih =>
    intro ack rr h
    unfold receiveEager
    cases hv : c.vital with
    | none => exact ih ack rr h
    | some v =>
      obtain ⟨s, r⟩ := v
      simp only
      apply ih
      rw [seqUpdate_accept_fst]
      split
      · rename_i hs; rw [← hs]; exact seqNext_lt _
      · exact h

theorem Online.receive_seq {cfg : Cfg} {now : Nat} {o o' : Online} {send send' : Timeout} {rr : Bool} {cs : List Chunk}
    {fl : List Flushed} {evs : List Event}
    (he : o.receive cfg now send rr cs = .ok (o', send', fl, evs)) (h : o.SeqInv) :
    o'.SeqInv ∧ ∀ f ∈ fl, f.SeqOk := by
  unfold Online.receive at he
  have fin : ∀ (o2 : Online) (s2 : Timeout) (fl2 : List Flushed), o2.SeqInv → (∀ f ∈ fl2, f.SeqOk) →
      (if (!chunksSeqOk cs) = true then (Except.error (Fail.panic "Sequence::from_u16(sequence)") : Except Fail _)
       else
        match receiveEager o2.ack o2.requestResend cs with
        | (a, rr') => .ok ({ o2 with ack := a, requestResend := rr' }, s2, fl2, receiveLazy o2.ack cs)) =
        .ok (o', send', fl, evs) → o'.SeqInv ∧ ∀ f ∈ fl, f.SeqOk := by
    intro o2 s2 fl2 h2 hfl hq
    split at hq
    · cases hq
    · injection hq with hq; injection hq with e1 e2; injection e2 with e2 e3; injection e3 with e3 e4
      subst e1 e3
      exact ⟨⟨receiveEager_lt cs _ _ h2.ack, h2.seq, h2.pk, h2.pnv, h2.rq⟩, hfl⟩
  cases rr with
  | false =>
    simp only [Bool.false_eq_true, if_false] at he
    exact fin o send [] h (by simp) he
  | true =>
    simp only [if_true] at he
    cases hr : o.resend cfg now send with
    | error e => rw [hr] at he; cases he
    | ok r =>
      obtain ⟨o2, s2, fl2⟩ := r
      rw [hr] at he
      simp only at he
      obtain ⟨a, b⟩ := Online.resend_seq hr h
      exact fin o2 s2 fl2 a b he

end Tw.Conn

/-! ## 0.6 -/
namespace Tw.Conn6
open Tw.Conn Tw.Time

def Packet.seqOk : Packet → Prop
  | .connless _ => True
  | .control ack _ _ => ack < seqMod
  | .chunks ack _ _ _ cs => ack < seqMod ∧ ∀ c ∈ cs, c.seqOk

def Conn.SeqInv (c : Conn) : Prop := ∀ t o, c.state = .online t o → o.SeqInv

/-- if the call returns, the range invariant is kept and everything sent respects it -/
def SeqKeeps (c : Conn) (r : Res) : Prop :=
  ∀ c' out, r = .ok (c', out) → c.SeqInv → c'.SeqInv ∧ ∀ p ∈ out.sent, p.seqOk

theorem emit_eq {ps ps' : List Packet} (h : emit ps = .ok ps') : ps' = ps := by
  unfold emit at h; split at h
  · injection h with h; exact h.symm
  · cases h

theorem ofFlushed_seq (t : Option Nat) {f : Flushed} (h : f.SeqOk) : (ofFlushed t f).seqOk := h

theorem emit_flushed_seq (t : Option Nat) {fl : List Flushed} (hfl : ∀ f ∈ fl, f.SeqOk) {ps : List Packet}
    (h : emit (fl.map (ofFlushed t)) = .ok ps) : ∀ p ∈ ps, p.seqOk := by
  rw [emit_eq h]
  intro p hp
  obtain ⟨f, hf, rfl⟩ := List.mem_map.mp hp
  exact ofFlushed_seq t (hfl f hf)

theorem sendControl_seq {st : State} {ctl : Control} {ps : List Packet} (h : sendControl st ctl = .ok ps)
    (hs : ∀ t o, st = .online t o → o.ack < seqMod) : ∀ p ∈ ps, p.seqOk := by
  unfold sendControl controlPacket at h
  cases st with
  | disconnected => cases h
  | unconnected => simp only at h; rw [emit_eq h]; intro p hp; simp at hp; subst hp; exact (by decide : 0 < seqMod)
  | connecting => simp only at h; rw [emit_eq h]; intro p hp; simp at hp; subst hp; exact (by decide : 0 < seqMod)
  | pending t => simp only at h; rw [emit_eq h]; intro p hp; simp at hp; subst hp; exact (by decide : 0 < seqMod)
  | online t o => simp only at h; rw [emit_eq h]; intro p hp; simp at hp; subst hp; exact hs t o rfl

theorem inv_online_seq {t : Option Nat} {o : Online} {s : Timeout} (h : o.SeqInv) : Conn.SeqInv ⟨.online t o, s⟩ := by
  intro t' o' hs; simp at hs; rw [← hs.2]; exact h

theorem inv_not_online_seq {st : State} {s : Timeout} (h : st.isOnline = false) : Conn.SeqInv ⟨st, s⟩ := by
  intro t o hs; simp at hs; rw [hs] at h; simp [State.isOnline] at h

theorem seqKeeps_same (c : Conn) (out : Out) (ho : out.sent = []) : SeqKeeps c (.ok (c, out)) := by
  intro c' out' he h
  injection he with he; injection he with h1 h2
  subst h1 h2
  exact ⟨h, by rw [ho]; simp⟩

theorem seqKeeps_error (c : Conn) (e : Fail) : SeqKeeps c (.error e) := by intro _ _ h; cases h

theorem tickAction_seq (env : Env) (c c0 : Conn) (hc : c0.SeqInv → c.SeqInv) : SeqKeeps c0 (tickAction env c) := by
  obtain ⟨st, snd⟩ := c
  intro c' out he h0
  have h := hc h0
  cases st with
  | unconnected => simp [tickAction] at he; rw [← he.1, ← he.2]; exact ⟨h, by simp⟩
  | disconnected => simp [tickAction] at he; rw [← he.1, ← he.2]; exact ⟨h, by simp⟩
  | connecting =>
    simp only [tickAction] at he
    cases hx : sendControl .connecting .connect with
    | error e => rw [hx] at he; cases he
    | ok ps =>
      rw [hx] at he; injection he with he; injection he with h1 h2; subst h1 h2
      exact ⟨inv_not_online_seq rfl, sendControl_seq hx (by intro t o hh; cases hh)⟩
  | pending t =>
    simp only [tickAction] at he
    cases hx : sendControl (.pending t) .connectAccept with
    | error e => rw [hx] at he; cases he
    | ok ps =>
      rw [hx] at he; injection he with he; injection he with h1 h2; subst h1 h2
      exact ⟨inv_not_online_seq rfl, sendControl_seq hx (by intro t o hh; cases hh)⟩
  | online t o =>
    have ho := h t o rfl
    simp only [tickAction] at he
    split at he
    · cases hx : emit (o.flush.2.map (ofFlushed t)) with
      | error e => rw [hx] at he; cases he
      | ok ps =>
        rw [hx] at he; injection he with he; injection he with h1 h2; subst h1 h2
        exact ⟨inv_online_seq (Online.flush_seq ho).1, emit_flushed_seq t (Online.flush_seq ho).2 hx⟩
    · cases hx : sendControl (.online t o) .keepAlive with
      | error e => rw [hx] at he; cases he
      | ok ps =>
        rw [hx] at he; injection he with he; injection he with h1 h2; subst h1 h2
        exact ⟨inv_online_seq ho, sendControl_seq hx (by intro t' o' hh; injection hh with _ h2; rw [← h2]; exact ho.ack)⟩

theorem connect_seq (env : Env) (c : Conn) : SeqKeeps c (connect env c) := by
  obtain ⟨st, snd⟩ := c
  cases st with
  | unconnected => simp only [connect]; exact tickAction_seq env _ _ (fun _ => inv_not_online_seq rfl)
  | connecting => exact seqKeeps_error _ _
  | pending t => exact seqKeeps_error _ _
  | online t o => exact seqKeeps_error _ _
  | disconnected => exact seqKeeps_error _ _

theorem disconnect_seq (env : Env) (c : Conn) (r : Bytes) : SeqKeeps c (disconnect env c r) := by
  obtain ⟨st, snd⟩ := c
  have key : ∀ st' : State, st' = st → SeqKeeps ⟨st, snd⟩
      (if r.any (· == 0) = true then .error (.panic "disconnect: reason must not contain NULs")
       else match sendControl st' (.close r) with
        | .error e => .error e
        | .ok ps => .ok (⟨.disconnected, snd⟩, { sent := ps })) := by
    intro st' hst c' out he h
    split at he
    · cases he
    · cases hx : sendControl st' (.close r) with
      | error e => rw [hx] at he; cases he
      | ok ps =>
        rw [hx] at he; injection he with he; injection he with h1 h2; subst h1 h2
        exact ⟨inv_not_online_seq rfl, sendControl_seq hx (by intro t o hh; subst hst; exact (h t o hh).ack)⟩
  cases st with
  | disconnected => exact seqKeeps_error _ _
  | unconnected => exact key _ rfl
  | connecting => exact key _ rfl
  | pending t => exact key _ rfl
  | online t o => exact key _ rfl

theorem flush_seq (env : Env) (c : Conn) : SeqKeeps c (flush env c) := by
  obtain ⟨st, snd⟩ := c
  cases st with
  | online t o =>
    intro c' out he h
    have ho := h t o rfl
    simp only [flush] at he
    cases hx : emit (o.flush.2.map (ofFlushed t)) with
    | error e => rw [hx] at he; cases he
    | ok ps =>
      rw [hx] at he; injection he with he; injection he with h1 h2; subst h1 h2
      exact ⟨inv_online_seq (Online.flush_seq ho).1, emit_flushed_seq t (Online.flush_seq ho).2 hx⟩
  | unconnected => exact seqKeeps_error _ _
  | connecting => exact seqKeeps_error _ _
  | pending t => exact seqKeeps_error _ _
  | disconnected => exact seqKeeps_error _ _

theorem send_seq (env : Env) (c : Conn) (d : Bytes) (v : Bool) : SeqKeeps c (step env c (.send d v)) := by
  obtain ⟨st, snd⟩ := c
  cases st with
  | online t o =>
    intro c' out he h
    have ho := h t o rfl
    simp only [step, send] at he
    cases hr : o.send cfg env.now d v with
    | error e => rw [hr] at he; cases he
    | ok r =>
      obtain ⟨o1, res, fl⟩ := r
      rw [hr] at he
      simp only at he
      cases hx : emit (fl.map (ofFlushed t)) with
      | error e => rw [hx] at he; cases he
      | ok ps =>
        rw [hx] at he; injection he with he; injection he with h1 h2; subst h1 h2
        obtain ⟨a, b⟩ := Online.send_seq hr ho
        exact ⟨inv_online_seq a, emit_flushed_seq t b hx⟩
  | unconnected => exact seqKeeps_error _ _
  | connecting => exact seqKeeps_error _ _
  | pending t => exact seqKeeps_error _ _
  | disconnected => exact seqKeeps_error _ _

theorem sendConnless_seq (env : Env) (c : Conn) (d : Bytes) : SeqKeeps c (step env c (.sendConnless d)) := by
  obtain ⟨st, snd⟩ := c
  cases st with
  | online t o =>
    intro c' out he h
    have ho := h t o rfl
    simp only [step, sendConnless] at he
    by_cases hl : d.length > Tw.Gen.Conn.P6.connlessMax
    · rw [if_pos hl] at he
      injection he with he; injection he with h1 h2; subst h1 h2
      exact ⟨inv_online_seq ho, by simp⟩
    · rw [if_neg hl] at he
      cases hx : emit [Packet.connless d] with
      | error e => rw [hx] at he; cases he
      | ok ps =>
        rw [hx] at he; injection he with he; injection he with h1 h2; subst h1 h2
        refine ⟨inv_online_seq ho, ?_⟩
        rw [emit_eq hx]; intro p hp; simp at hp; subst hp; trivial
  | unconnected => exact seqKeeps_error _ _
  | connecting => exact seqKeeps_error _ _
  | pending t => exact seqKeeps_error _ _
  | disconnected => exact seqKeeps_error _ _

theorem resendConn_seq (env : Env) (c0 : Conn) (t : Option Nat) (o : Online) (snd : Timeout) (ho : c0.SeqInv → o.SeqInv) :
    SeqKeeps c0 (resendConn env t o snd) := by
  intro c' out he h
  simp only [resendConn] at he
  cases hr : o.resend cfg env.now snd with
  | error e => rw [hr] at he; cases he
  | ok r =>
    obtain ⟨o1, s1, fl⟩ := r
    rw [hr] at he
    simp only at he
    cases hx : emit (fl.map (ofFlushed t)) with
    | error e => rw [hx] at he; cases he
    | ok ps =>
      rw [hx] at he; injection he with he; injection he with h1 h2; subst h1 h2
      obtain ⟨a, b⟩ := Online.resend_seq hr (ho h)
      exact ⟨inv_online_seq a, emit_flushed_seq t b hx⟩

theorem tick_seq (env : Env) (c : Conn) : SeqKeeps c (tick env c) := by
  obtain ⟨st, snd⟩ := c
  have rest : SeqKeeps ⟨st, snd⟩ (if snd.triggered env.now = true then tickAction env ⟨st, .inactive⟩ else .ok (⟨st, snd⟩, {})) := by
    split
    · exact tickAction_seq env _ _ (fun h t o hs => h t o hs)
    · exact seqKeeps_same _ _ rfl
  cases st with
  | online t o =>
    simp only [tick]
    split
    · exact resendConn_seq env _ t o snd (fun h => h t o rfl)
    · exact rest
  | unconnected => simpa [tick] using rest
  | connecting => simpa [tick] using rest
  | pending t => simpa [tick] using rest
  | disconnected => simpa [tick] using rest

theorem feedBody_seq (env : Env) (c : Conn) (token : Option Nat) (p : Packet) : SeqKeeps c (feedBody env c token p) := by
  obtain ⟨st, snd⟩ := c
  cases p with
  | connless d => exact seqKeeps_same _ _ rfl
  | chunks ack tk rr n cs =>
    have key : ∀ (t : Option Nat) (o : Online), (Conn.SeqInv ⟨st, snd⟩ → o.SeqInv) →
        SeqKeeps ⟨st, snd⟩ (match o.receive cfg env.now snd rr cs with
          | .error e => .error e
          | .ok (o1, send1, fl, evs) =>
            match emit (fl.map (ofFlushed t)) with
            | .error e => .error e
            | .ok ps => .ok (⟨.online t o1, send1⟩, { sent := ps, events := evs })) := by
      intro t o ho c' out he h
      cases hr : o.receive cfg env.now snd rr cs with
      | error e => rw [hr] at he; cases he
      | ok r =>
        obtain ⟨o1, s1, fl, evs⟩ := r
        rw [hr] at he
        simp only at he
        cases hx : emit (fl.map (ofFlushed t)) with
        | error e => rw [hx] at he; cases he
        | ok ps =>
          rw [hx] at he; injection he with he; injection he with h1 h2; subst h1 h2
          obtain ⟨a, b⟩ := Online.receive_seq hr (ho h)
          exact ⟨inv_online_seq a, emit_flushed_seq t b hx⟩
    cases st with
    | online t o => exact key t o (fun h => h t o rfl)
    | pending t => exact key t .new (fun _ => Online.new_seqInv)
    | unconnected => exact seqKeeps_same _ _ rfl
    | connecting => exact seqKeeps_same _ _ rfl
    | disconnected => exact seqKeeps_same _ _ rfl
  | control ack tk ctl =>
    cases ctl with
    | keepAlive => exact seqKeeps_same _ _ rfl
    | accept => exact seqKeeps_same _ _ rfl
    | close r =>
      intro c' out he h
      simp only [feedBody] at he
      injection he with he; injection he with h1 h2; subst h1 h2
      exact ⟨inv_not_online_seq rfl, by simp⟩
    | connect =>
      cases st with
      | unconnected =>
        cases token with
        | none => simp only [feedBody]; exact tickAction_seq env _ _ (fun _ => inv_not_online_seq rfl)
        | some t0 =>
          simp only [feedBody]
          split
          · split
            · exact seqKeeps_error _ _
            · exact tickAction_seq env _ _ (fun _ => inv_not_online_seq rfl)
          · exact seqKeeps_same _ _ rfl
      | online t o => exact seqKeeps_same _ _ rfl
      | pending t => exact seqKeeps_same _ _ rfl
      | connecting => exact seqKeeps_same _ _ rfl
      | disconnected => exact seqKeeps_same _ _ rfl
    | connectAccept =>
      cases st with
      | connecting =>
        intro c' out he h
        simp only [feedBody] at he
        cases hx : sendControl (.online token .new) .accept with
        | error e => rw [hx] at he; cases he
        | ok ps =>
          rw [hx] at he; injection he with he; injection he with h1 h2; subst h1 h2
          exact ⟨inv_online_seq Online.new_seqInv,
            sendControl_seq hx (by intro t o hh; injection hh with _ h2; rw [← h2]; exact Online.new_seqInv.ack)⟩
      | online t o => exact seqKeeps_same _ _ rfl
      | pending t => exact seqKeeps_same _ _ rfl
      | unconnected => exact seqKeeps_same _ _ rfl
      | disconnected => exact seqKeeps_same _ _ rfl

theorem feed_seq (env : Env) (c : Conn) (rd : Option Bool → Option Packet) : SeqKeeps c (feed env c rd) := by
  unfold feed
  cases hr : rd c.hint with
  | none => exact seqKeeps_same _ _ rfl
  | some p =>
    simp only
    cases hta : p.tokenAck? with
    | none => exact feedBody_seq env c none p
    | some ta =>
      obtain ⟨token, ack⟩ := ta
      simp only
      split
      · exact seqKeeps_same _ _ rfl
      · obtain ⟨st, snd⟩ := c
        cases st with
        | online t o =>
          simp only
          cases he : o.feedAck ack with
          | error e => exact seqKeeps_error _ _
          | ok o1 =>
            intro c' out hq h
            exact feedBody_seq env ⟨.online t o1, snd⟩ token p c' out hq (inv_online_seq (Online.feedAck_seq he (h t o rfl)))
        | unconnected => exact feedBody_seq env _ token p
        | connecting => exact feedBody_seq env _ token p
        | pending t => exact feedBody_seq env _ token p
        | disconnected => exact feedBody_seq env _ token p

/-- every call that returns keeps the sequence-range invariant and sends only in-range numbers -/
theorem step_seq (env : Env) (c : Conn) (op : Op) : SeqKeeps c (step env c op) := by
  cases op with
  | connect => exact connect_seq env c
  | disconnect r => exact disconnect_seq env c r
  | flush => exact flush_seq env c
  | send d v => exact send_seq env c d v
  | sendConnless d => exact sendConnless_seq env c d
  | tick => exact tick_seq env c
  | feed rd => exact feed_seq env c rd

theorem run_seq : ∀ (sched : List (Env × Op)) (c c' : Conn) (outs : List Out), c.SeqInv →
    run c sched = .ok (c', outs) → c'.SeqInv ∧ ∀ out ∈ outs, ∀ p ∈ out.sent, p.seqOk := by
  intro sched
  induction sched with
  | nil => intro c c' outs h he; simp [run] at he; obtain ⟨rfl, rfl⟩ := he; exact ⟨h, by simp⟩
  | cons eo rest ih =>
    intro c c' outs h he
    obtain ⟨env, op⟩ := eo
    simp only [run] at he
    cases hs : step env c op with
    | error e => rw [hs] at he; cases he
    | ok r =>
      obtain ⟨c1, out⟩ := r
      rw [hs] at he
      simp only at he
      cases hr : run c1 rest with
      | error e => rw [hr] at he; cases he
      | ok r2 =>
        obtain ⟨c2, outs2⟩ := r2
        rw [hr] at he
        injection he with he; injection he with h1 h2; subst h1 h2
        obtain ⟨a, b⟩ := step_seq env c op c1 out hs h
        obtain ⟨a2, b2⟩ := ih c1 c2 outs2 a hr
        refine ⟨a2, ?_⟩
        intro o ho
        rcases List.mem_cons.mp ho with rfl | ho
        · exact b
        · exact b2 o ho

theorem Conn.new_seqInv : Conn.new.SeqInv := by intro t o h; simp [Conn.new] at h

end Tw.Conn6

/-! ## 0.7 -/
namespace Tw.Conn7
open Tw.Conn Tw.Time

def Packet.seqOk : Packet → Prop
  | .connless _ _ _ => True
  | .control ack _ _ => ack < seqMod
  | .chunks ack _ _ _ cs => ack < seqMod ∧ ∀ c ∈ cs, c.seqOk

def Conn.SeqInv (c : Conn) : Prop := ∀ a b o, c.state = .online a b o → o.SeqInv

def SeqKeeps (c : Conn) (r : Res) : Prop :=
  ∀ c' out, r = .ok (c', out) → c.SeqInv → c'.SeqInv ∧ ∀ p ∈ out.sent, p.seqOk

theorem emit_eq {ps ps' : List Packet} (h : emit ps = .ok ps') : ps' = ps := by
  unfold emit at h; split at h
  · cases h
  · split at h
    · injection h with h; exact h.symm
    · cases h

theorem emit_flushed_seq (t : Nat) {fl : List Flushed} (hfl : ∀ f ∈ fl, f.SeqOk) {ps : List Packet}
    (h : emit (fl.map (ofFlushed t)) = .ok ps) : ∀ p ∈ ps, p.seqOk := by
  rw [emit_eq h]
  intro p hp
  obtain ⟨f, hf, rfl⟩ := List.mem_map.mp hp
  exact hfl f hf

theorem sendControlWith_seq {st : State} {ctl : Control} {tok : Nat} {ps : List Packet}
    (h : sendControlWith st ctl tok = .ok ps)
    (hs : ∀ a b o, st = .online a b o → o.ack < seqMod) : ∀ p ∈ ps, p.seqOk := by
  unfold sendControlWith at h
  rw [emit_eq h]
  intro p hp; simp at hp; subst hp
  cases st with
  | online a b o => exact hs a b o rfl
  | _ => exact (by decide : 0 < seqMod)

theorem sendControl_seq {st : State} {ctl : Control} {ps : List Packet} (h : sendControl st ctl = .ok ps)
    (hs : ∀ a b o, st = .online a b o → o.ack < seqMod) : ∀ p ∈ ps, p.seqOk :=
  sendControlWith_seq h hs

theorem inv_online_seq {a b : Nat} {o : Online} {s : Timeout} (h : o.SeqInv) : Conn.SeqInv ⟨.online a b o, s⟩ := by
  intro a' b' o' hs; simp at hs; rw [← hs.2.2]; exact h

theorem inv_not_online_seq {st : State} {s : Timeout} (h : st.isOnline = false) : Conn.SeqInv ⟨st, s⟩ := by
  intro a b o hs; simp at hs; rw [hs] at h; simp [State.isOnline] at h

theorem seqKeeps_same (c : Conn) (out : Out) (ho : out.sent = []) : SeqKeeps c (.ok (c, out)) := by
  intro c' out' he h
  injection he with he; injection he with h1 h2
  subst h1 h2
  exact ⟨h, by rw [ho]; simp⟩

theorem seqKeeps_error (c : Conn) (e : Fail) : SeqKeeps c (.error e) := by intro _ _ h; cases h

theorem noOnline {st : State} (h : st.isOnline = false) : ∀ a b o, st = .online a b o → o.ack < seqMod := by
  intro a b o hs; rw [hs] at h; simp [State.isOnline] at h

theorem tickAction_seq (env : Env) (c c0 : Conn) (hc : c0.SeqInv → c.SeqInv) : SeqKeeps c0 (tickAction env c) := by
  obtain ⟨st, snd⟩ := c
  intro c' out he h0
  have h := hc h0
  cases st with
  | unconnected => simp [tickAction] at he; rw [← he.1, ← he.2]; exact ⟨h, by simp⟩
  | disconnected => simp [tickAction] at he; rw [← he.1, ← he.2]; exact ⟨h, by simp⟩
  | pendingConnect a => simp [tickAction] at he; rw [← he.1, ← he.2]; exact ⟨h, by simp⟩
  | token a =>
    simp only [tickAction] at he
    cases hx : sendControl (.token a) (.token a) with
    | error e => rw [hx] at he; cases he
    | ok ps =>
      rw [hx] at he; injection he with he; injection he with h1 h2; subst h1 h2
      exact ⟨inv_not_online_seq rfl, sendControl_seq hx (noOnline rfl)⟩
  | connecting a b =>
    simp only [tickAction] at he
    cases hx : sendControl (.connecting a b) (.connect a) with
    | error e => rw [hx] at he; cases he
    | ok ps =>
      rw [hx] at he; injection he with he; injection he with h1 h2; subst h1 h2
      exact ⟨inv_not_online_seq rfl, sendControl_seq hx (noOnline rfl)⟩
  | pending a b =>
    simp only [tickAction] at he
    cases hx : sendControl (.pending a b) .accept with
    | error e => rw [hx] at he; cases he
    | ok ps =>
      rw [hx] at he; injection he with he; injection he with h1 h2; subst h1 h2
      exact ⟨inv_not_online_seq rfl, sendControl_seq hx (noOnline rfl)⟩
  | online a b o =>
    have ho := h a b o rfl
    simp only [tickAction] at he
    split at he
    · cases hx : emit (o.flush.2.map (ofFlushed b)) with
      | error e => rw [hx] at he; cases he
      | ok ps =>
        rw [hx] at he; injection he with he; injection he with h1 h2; subst h1 h2
        exact ⟨inv_online_seq (Online.flush_seq ho).1, emit_flushed_seq b (Online.flush_seq ho).2 hx⟩
    · cases hx : sendControl (.online a b o) .keepAlive with
      | error e => rw [hx] at he; cases he
      | ok ps =>
        rw [hx] at he; injection he with he; injection he with h1 h2; subst h1 h2
        exact ⟨inv_online_seq ho,
          sendControl_seq hx (by intro a' b' o' hh; injection hh with _ _ h3; rw [← h3]; exact ho.ack)⟩

theorem connect_seq (env : Env) (c : Conn) : SeqKeeps c (connect env c) := by
  obtain ⟨st, snd⟩ := c
  cases st with
  | unconnected =>
    simp only [connect]
    split
    · exact seqKeeps_error _ _
    · exact tickAction_seq env _ _ (fun _ => inv_not_online_seq rfl)
  | token a => exact seqKeeps_error _ _
  | pendingConnect a => exact seqKeeps_error _ _
  | connecting a b => exact seqKeeps_error _ _
  | pending a b => exact seqKeeps_error _ _
  | online a b o => exact seqKeeps_error _ _
  | disconnected => exact seqKeeps_error _ _

theorem disconnect_seq (env : Env) (c : Conn) (r : Bytes) : SeqKeeps c (disconnect env c r) := by
  obtain ⟨st, snd⟩ := c
  have key : ∀ st' : State, st' = st → SeqKeeps ⟨st, snd⟩
      (if r.any (· == 0) = true then .error (.panic "disconnect: reason must not contain NULs")
       else match sendControl st' (.close r) with
        | .error e => .error e
        | .ok ps => .ok (⟨.disconnected, snd⟩, { sent := ps })) := by
    intro st' hst c' out he h
    split at he
    · cases he
    · cases hx : sendControl st' (.close r) with
      | error e => rw [hx] at he; cases he
      | ok ps =>
        rw [hx] at he; injection he with he; injection he with h1 h2; subst h1 h2
        exact ⟨inv_not_online_seq rfl, sendControl_seq hx (by intro a b o hh; subst hst; exact (h a b o hh).ack)⟩
  cases st with
  | disconnected => exact seqKeeps_error _ _
  | unconnected => exact key _ rfl
  | token a => exact key _ rfl
  | pendingConnect a => exact key _ rfl
  | connecting a b => exact key _ rfl
  | pending a b => exact key _ rfl
  | online a b o => exact key _ rfl

theorem flush_seq (env : Env) (c : Conn) : SeqKeeps c (flush env c) := by
  obtain ⟨st, snd⟩ := c
  cases st with
  | online a b o =>
    intro c' out he h
    have ho := h a b o rfl
    simp only [flush] at he
    cases hx : emit (o.flush.2.map (ofFlushed b)) with
    | error e => rw [hx] at he; cases he
    | ok ps =>
      rw [hx] at he; injection he with he; injection he with h1 h2; subst h1 h2
      exact ⟨inv_online_seq (Online.flush_seq ho).1, emit_flushed_seq b (Online.flush_seq ho).2 hx⟩
  | unconnected => exact seqKeeps_error _ _
  | token a => exact seqKeeps_error _ _
  | pendingConnect a => exact seqKeeps_error _ _
  | connecting a b => exact seqKeeps_error _ _
  | pending a b => exact seqKeeps_error _ _
  | disconnected => exact seqKeeps_error _ _

theorem send_seq (env : Env) (c : Conn) (d : Bytes) (v : Bool) : SeqKeeps c (step env c (.send d v)) := by
  obtain ⟨st, snd⟩ := c
  cases st with
  | online a b o =>
    intro c' out he h
    have ho := h a b o rfl
    simp only [step, send] at he
    cases hr : o.send cfg env.now d v with
    | error e => rw [hr] at he; cases he
    | ok r =>
      obtain ⟨o1, res, fl⟩ := r
      rw [hr] at he
      simp only at he
      cases hx : emit (fl.map (ofFlushed b)) with
      | error e => rw [hx] at he; cases he
      | ok ps =>
        rw [hx] at he; injection he with he; injection he with h1 h2; subst h1 h2
        obtain ⟨x, y⟩ := Online.send_seq hr ho
        exact ⟨inv_online_seq x, emit_flushed_seq b y hx⟩
  | unconnected => exact seqKeeps_error _ _
  | token a => exact seqKeeps_error _ _
  | pendingConnect a => exact seqKeeps_error _ _
  | connecting a b => exact seqKeeps_error _ _
  | pending a b => exact seqKeeps_error _ _
  | disconnected => exact seqKeeps_error _ _

theorem sendConnless_seq (env : Env) (c : Conn) (d : Bytes) : SeqKeeps c (step env c (.sendConnless d)) := by
  obtain ⟨st, snd⟩ := c
  cases st with
  | online a b o =>
    intro c' out he h
    have ho := h a b o rfl
    simp only [step, sendConnless] at he
    by_cases hl : d.length > Tw.Gen.Conn.P7.connlessMax
    · rw [if_pos hl] at he
      injection he with he; injection he with h1 h2; subst h1 h2
      exact ⟨inv_online_seq ho, by simp⟩
    · rw [if_neg hl] at he
      cases hx : emit [Packet.connless b a d] with
      | error e => rw [hx] at he; cases he
      | ok ps =>
        rw [hx] at he; injection he with he; injection he with h1 h2; subst h1 h2
        refine ⟨inv_online_seq ho, ?_⟩
        rw [emit_eq hx]; intro p hp; simp at hp; subst hp; trivial
  | unconnected => exact seqKeeps_error _ _
  | token a => exact seqKeeps_error _ _
  | pendingConnect a => exact seqKeeps_error _ _
  | connecting a b => exact seqKeeps_error _ _
  | pending a b => exact seqKeeps_error _ _
  | disconnected => exact seqKeeps_error _ _

theorem resendConn_seq (env : Env) (c0 : Conn) (a b : Nat) (o : Online) (snd : Timeout) (ho : c0.SeqInv → o.SeqInv) :
    SeqKeeps c0 (resendConn env a b o snd) := by
  intro c' out he h
  simp only [resendConn] at he
  cases hr : o.resend cfg env.now snd with
  | error e => rw [hr] at he; cases he
  | ok r =>
    obtain ⟨o1, s1, fl⟩ := r
    rw [hr] at he
    simp only at he
    cases hx : emit (fl.map (ofFlushed b)) with
    | error e => rw [hx] at he; cases he
    | ok ps =>
      rw [hx] at he; injection he with he; injection he with h1 h2; subst h1 h2
      obtain ⟨x, y⟩ := Online.resend_seq hr (ho h)
      exact ⟨inv_online_seq x, emit_flushed_seq b y hx⟩

theorem tick_seq (env : Env) (c : Conn) : SeqKeeps c (tick env c) := by
  obtain ⟨st, snd⟩ := c
  have rest : SeqKeeps ⟨st, snd⟩ (if snd.triggered env.now = true then tickAction env ⟨st, .inactive⟩ else .ok (⟨st, snd⟩, {})) := by
    split
    · exact tickAction_seq env _ _ (fun h a b o hs => h a b o hs)
    · exact seqKeeps_same _ _ rfl
  cases st with
  | online a b o =>
    simp only [tick]
    split
    · exact resendConn_seq env _ a b o snd (fun h => h a b o rfl)
    · exact rest
  | unconnected => simpa [tick] using rest
  | token a => simpa [tick] using rest
  | pendingConnect a => simpa [tick] using rest
  | connecting a b => simpa [tick] using rest
  | pending a b => simpa [tick] using rest
  | disconnected => simpa [tick] using rest

theorem feedBody_seq (env : Env) (c : Conn) (p : Packet) : SeqKeeps c (feedBody env c p) := by
  obtain ⟨st, snd⟩ := c
  cases p with
  | connless a b d => exact seqKeeps_same _ _ rfl
  | chunks ack tk rr n cs =>
    have key : ∀ (own their : Nat) (o : Online), (Conn.SeqInv ⟨st, snd⟩ → o.SeqInv) →
        SeqKeeps ⟨st, snd⟩ (match o.receive cfg env.now snd rr cs with
          | .error e => .error e
          | .ok (o1, send1, fl, evs) =>
            match emit (fl.map (ofFlushed their)) with
            | .error e => .error e
            | .ok ps => .ok (⟨.online own their o1, send1⟩, { sent := ps, events := evs })) := by
      intro own their o ho c' out he h
      cases hr : o.receive cfg env.now snd rr cs with
      | error e => rw [hr] at he; cases he
      | ok r =>
        obtain ⟨o1, s1, fl, evs⟩ := r
        rw [hr] at he
        simp only at he
        cases hx : emit (fl.map (ofFlushed their)) with
        | error e => rw [hx] at he; cases he
        | ok ps =>
          rw [hx] at he; injection he with he; injection he with h1 h2; subst h1 h2
          obtain ⟨x, y⟩ := Online.receive_seq hr (ho h)
          exact ⟨inv_online_seq x, emit_flushed_seq their y hx⟩
    cases st with
    | online a b o => exact key a b o (fun h => h a b o rfl)
    | pending a b => exact key a b .new (fun _ => Online.new_seqInv)
    | unconnected => exact seqKeeps_same _ _ rfl
    | token a => exact seqKeeps_same _ _ rfl
    | pendingConnect a => exact seqKeeps_same _ _ rfl
    | connecting a b => exact seqKeeps_same _ _ rfl
    | disconnected => exact seqKeeps_same _ _ rfl
  | control ack tk ctl =>
    cases ctl with
    | keepAlive => exact seqKeeps_same _ _ rfl
    | close r =>
      intro c' out he h
      simp only [feedBody] at he
      injection he with he; injection he with h1 h2; subst h1 h2
      exact ⟨inv_not_online_seq rfl, by simp⟩
    | accept =>
      cases st with
      | connecting a b =>
        intro c' out he h
        simp only [feedBody] at he
        injection he with he; injection he with h1 h2; subst h1 h2
        exact ⟨inv_online_seq Online.new_seqInv, by simp⟩
      | online a b o => exact seqKeeps_same _ _ rfl
      | pending a b => exact seqKeeps_same _ _ rfl
      | unconnected => exact seqKeeps_same _ _ rfl
      | token a => exact seqKeeps_same _ _ rfl
      | pendingConnect a => exact seqKeeps_same _ _ rfl
      | disconnected => exact seqKeeps_same _ _ rfl
    | connect their =>
      cases st with
      | pendingConnect a => simp only [feedBody]; exact tickAction_seq env _ _ (fun _ => inv_not_online_seq rfl)
      | online a b o => exact seqKeeps_same _ _ rfl
      | pending a b => exact seqKeeps_same _ _ rfl
      | unconnected => exact seqKeeps_same _ _ rfl
      | token a => exact seqKeeps_same _ _ rfl
      | connecting a b => exact seqKeeps_same _ _ rfl
      | disconnected => exact seqKeeps_same _ _ rfl
    | token their =>
      cases st with
      | unconnected =>
        intro c' out he h
        simp only [feedBody] at he
        cases hd : tokenRandom env.draws with
        | none => rw [hd] at he; cases he
        | some t =>
          rw [hd] at he
          simp only at he
          cases hx : sendControlWith (.pendingConnect t) (.token t) their with
          | error e => rw [hx] at he; cases he
          | ok ps =>
            rw [hx] at he; injection he with he; injection he with h1 h2; subst h1 h2
            exact ⟨inv_not_online_seq rfl, sendControlWith_seq hx (noOnline rfl)⟩
      | pendingConnect a =>
        intro c' out he h
        simp only [feedBody] at he
        cases hx : sendControlWith (.pendingConnect a) (.token a) their with
        | error e => rw [hx] at he; cases he
        | ok ps =>
          rw [hx] at he; injection he with he; injection he with h1 h2; subst h1 h2
          exact ⟨inv_not_online_seq rfl, sendControlWith_seq hx (noOnline rfl)⟩
      | token a => simp only [feedBody]; exact tickAction_seq env _ _ (fun _ => inv_not_online_seq rfl)
      | online a b o => exact seqKeeps_same _ _ rfl
      | pending a b => exact seqKeeps_same _ _ rfl
      | connecting a b => exact seqKeeps_same _ _ rfl
      | disconnected => exact seqKeeps_same _ _ rfl

theorem feed_seq (env : Env) (c : Conn) (rd : Option Packet) : SeqKeeps c (feed env c rd) := by
  have body : ∀ (p : Packet) (ack : Nat), SeqKeeps c
      (match c.state with
        | .online own their o =>
          match o.feedAck ack with
          | .error e => .error e
          | .ok o1 => feedBody env { c with state := .online own their o1 } p
        | _ => feedBody env c p) := by
    intro p ack
    obtain ⟨st, snd⟩ := c
    cases st with
    | online a b o =>
      simp only
      cases he : o.feedAck ack with
      | error e => exact seqKeeps_error _ _
      | ok o1 =>
        intro c' out hq h
        exact feedBody_seq env ⟨.online a b o1, snd⟩ p c' out hq (inv_online_seq (Online.feedAck_seq he (h a b o rfl)))
    | unconnected => exact feedBody_seq env _ p
    | token a => exact feedBody_seq env _ p
    | pendingConnect a => exact feedBody_seq env _ p
    | connecting a b => exact feedBody_seq env _ p
    | pending a b => exact feedBody_seq env _ p
    | disconnected => exact feedBody_seq env _ p
  cases rd with
  | none => exact seqKeeps_same _ _ rfl
  | some p =>
    cases p with
    | connless a b d =>
      simp only [feed]
      split
      · exact seqKeeps_same _ _ rfl
      · split
        · exact seqKeeps_same _ _ rfl
        · exact seqKeeps_same _ _ rfl
    | control ack tk ctl =>
      simp only [feed]
      split
      · exact seqKeeps_same _ _ rfl
      · exact body _ ack
    | chunks ack tk rr n cs =>
      simp only [feed]
      split
      · exact seqKeeps_same _ _ rfl
      · exact body _ ack

theorem step_seq (env : Env) (c : Conn) (op : Op) : SeqKeeps c (step env c op) := by
  cases op with
  | connect => exact connect_seq env c
  | disconnect r => exact disconnect_seq env c r
  | flush => exact flush_seq env c
  | send d v => exact send_seq env c d v
  | sendConnless d => exact sendConnless_seq env c d
  | tick => exact tick_seq env c
  | feed rd => exact feed_seq env c rd

theorem run_seq : ∀ (sched : List (Env × Op)) (c c' : Conn) (outs : List Out), c.SeqInv →
    run c sched = .ok (c', outs) → c'.SeqInv ∧ ∀ out ∈ outs, ∀ p ∈ out.sent, p.seqOk := by
  intro sched
  induction sched with
  | nil => intro c c' outs h he; simp [run] at he; obtain ⟨rfl, rfl⟩ := he; exact ⟨h, by simp⟩
  | cons eo rest ih =>
    intro c c' outs h he
    obtain ⟨env, op⟩ := eo
    simp only [run] at he
    cases hs : step env c op with
    | error e => rw [hs] at he; cases he
    | ok r =>
      obtain ⟨c1, out⟩ := r
      rw [hs] at he
      simp only at he
      cases hr : run c1 rest with
      | error e => rw [hr] at he; cases he
      | ok r2 =>
        obtain ⟨c2, outs2⟩ := r2
        rw [hr] at he
        injection he with he; injection he with h1 h2; subst h1 h2
        obtain ⟨a, b⟩ := step_seq env c op c1 out hs h
        obtain ⟨a2, b2⟩ := ih c1 c2 outs2 a hr
        refine ⟨a2, ?_⟩
        intro o ho
        rcases List.mem_cons.mp ho with rfl | ho
        · exact b
        · exact b2 o ho

theorem Conn.new_seqInv : Conn.new.SeqInv := by intro a b o h; simp [Conn.new] at h

end Tw.Conn7
