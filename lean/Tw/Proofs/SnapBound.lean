/-
C13: a bound on the size of the snapshots the application builds keeps the packed delta inside the
64 KiB buffer of the server glue.
-/
import Tw.Proofs.SnapMgrC
import Mathlib.Data.List.Perm.Subperm

namespace Tw.SnapMgr
open Tw.Snap Tw.SnapXfer

/-! ### sizes of the written delta -/

theorem packInts_length_le (xs : List Int) : (packInts xs).length ≤ 5 * xs.length := by
  induction xs with
  | nil => simp [packInts]
  | cons x r ih =>
    rw [packInts_cons, List.length_append, List.length_cons]
    have := (Tw.Packer.writeInt_length x).2
    omega

theorem writeUpdates_length_le (objSize : Nat → Option Nat) :
    ∀ (m : Items) (u : List Int), writeUpdates objSize m = some u → u.length ≤ 3 * m.length + dataLen m := by
  intro m
  induction m with
  | nil => intro u h; simp [writeUpdates] at h; subst h; simp
  | cons p r ih =>
    obtain ⟨k, d⟩ := p
    intro u h
    simp only [writeUpdates] at h
    cases hr : writeUpdates objSize r with
    | none => simp [hr] at h
    | some rest =>
      have := ih rest hr
      simp only [hr] at h
      have hdl : dataLen ((k, d) :: r) = d.length + dataLen r := by simp [dataLen]
      cases ho : objSize (keyType k) with
      | none =>
        simp only [ho, Option.some.injEq] at h
        subst h
        simp only [List.length_cons, List.length_append, hdl]
        omega
      | some sz =>
        simp only [ho] at h
        split at h
        · cases h
        · injection h with h
          subst h
          simp only [List.length_cons, List.length_append, hdl]
          omega

theorem lens_eq {m1 m2 : Items}
    (h : m1.map (fun p => (p.1, p.2.length)) = m2.map (fun p => (p.1, p.2.length))) :
    m1.length = m2.length ∧ dataLen m1 = dataLen m2 := by
  constructor
  · have := congrArg List.length h
    simpa using this
  · have := congrArg (fun l => (l.map Prod.snd).sum) h
    simpa [dataLen, List.map_map, Function.comp_def] using this

/-- number of integers `Delta::write` emits for the delta from `a` to `b` -/
theorem delta_ints_le {objSize : Nat → Option Nat} {a b : RawSnap} {d : Tw.Snap.Delta} {xs : List Int}
    (ha : a.WF) (hb : b.WF) (hd : createDelta a b = some d) (hw : d.writeInts objSize = some xs) :
    xs.length ≤ 3 + a.items.length + 3 * b.items.length + dataLen b.items := by
  obtain ⟨_, hl⟩ := createDelta_WF ha hb hd
  obtain ⟨h1, h2⟩ := lens_eq hl
  have hdel : d.deleted.length ≤ a.items.length := by
    unfold createDelta at hd
    cases hu : createUpdates a.items b.items with
    | none => simp [hu] at hd
    | some u =>
      simp only [hu, Option.some.injEq] at hd
      subst hd
      simp only [List.length_map]
      exact List.length_filter_le _ _
  unfold Tw.Snap.Delta.writeInts at hw
  cases hu : writeUpdates objSize d.updated with
  | none => simp [hu] at hw
  | some u =>
    simp only [hu, Option.some.injEq] at hw
    subst hw
    have := writeUpdates_length_le objSize d.updated u hu
    simp only [List.length_cons, List.length_append]
    omega

/-- a snapshot with at most `k1` items and `k2` data integers -/
def Small (k1 k2 : Nat) (s : Tw.Snap.Snap) : Prop :=
  s.raw.items.length ≤ k1 ∧ dataLen s.raw.items ≤ k2

/-- the packed delta between two small snapshots fits the buffer -/
theorem packed_fits {objSize : Nat → Option Nat} {k1 k2 : Nat} (hk : 5 * (3 + 4 * k1 + k2) ≤ 65536)
    {a b : Tw.Snap.Snap} (ha : a.raw.WF) (hb : b.raw.WF) (hsa : Small k1 k2 a) (hsb : Small k1 k2 b)
    {d : Tw.Snap.Delta} {xs : List Int} (hd : createDelta a.raw b.raw = some d)
    (hw : d.writeInts objSize = some xs) : (packInts xs).length ≤ writeCapacity := by
  have h1 := delta_ints_le ha hb hd hw
  have h2 := packInts_length_le xs
  rw [writeCapacity_eq]
  have := hsa.1; have := hsb.1; have := hsb.2
  omega

/-! ### sizes of what the builder makes -/

/-- every UUID type the snapshot knows is one of `U` -/
def ExtIn (U : List Int) (s : Tw.Snap.Snap) : Prop := ∀ u t, mfind u s.ext = some t → u ∈ U

theorem ext_length_le {U : List Int} {s : Tw.Snap.Snap} (hs : ExtOk s) (hin : ExtIn U s) :
    s.ext.length ≤ U.length := by
  have hnd : (s.ext.map Prod.fst).Nodup := by
    have := hs.ext_sorted
    unfold Sorted at this
    exact List.Pairwise.imp (fun h => Int.ne_of_lt h) this
  have hsub : s.ext.map Prod.fst ⊆ U := by
    intro x hx
    obtain ⟨p, hp, rfl⟩ := List.mem_map.mp hx
    exact hin p.1 p.2 (mfind_of_mem hs.ext_sorted hp)
  have := (hnd.subperm hsub).length_le
  simpa using this

/-- at most `n` items and `m` data integers beyond the registry -/
def Bounded (n m : Nat) (b : Builder) : Prop :=
  b.snap.raw.items.length ≤ b.snap.ext.length + n ∧
    dataLen b.snap.raw.items ≤ 4 * b.snap.ext.length + m

theorem uuidToData_length (u : Int) : (uuidToData u).length = 4 := by simp [uuidToData]

theorem addItem_bounded {U : List Int} {n m : Nat} {b b' : Builder} {tid : TypeId} {id : Nat}
    {data : List Int} {r : Option BuilderError} (h : Bounded n m b) (hin : ExtIn U b.snap)
    (hu : ∀ u, tid = .uuid u → u ∈ U) (hadd : b.addItem tid id data = some (b', r)) :
    Bounded (n + 1) (m + data.length) b' ∧ ExtIn U b'.snap := by
  obtain ⟨h1, h2⟩ := h
  have keep : Bounded (n + 1) (m + data.length) b ∧ ExtIn U b.snap := ⟨⟨by omega, by omega⟩, hin⟩
  -- adding one item with key `k` to a raw snapshot `raw0` with the registry `ext0`
  have add1 : ∀ (raw0 raw1 : RawSnap) (ext0 : List (Int × Nat)) (k : Int) (n0 m0 : Nat),
      raw0.items.length ≤ ext0.length + n0 → dataLen raw0.items ≤ 4 * ext0.length + m0 →
      raw0.addItem k data = .ok raw1 →
      raw1.items.length ≤ ext0.length + (n0 + 1) ∧ dataLen raw1.items ≤ 4 * ext0.length + (m0 + data.length) := by
    intro raw0 raw1 ext0 k n0 m0 a1 a2 hok
    obtain ⟨hi, hnone⟩ := addItem_ok hok
    rw [hi, length_minsert_of_none hnone, dataLen_minsert_of_none hnone]
    omega
  cases tid with
  | ordinal o =>
    simp only [Builder.addItem] at hadd
    split at hadd
    · cases hadd
    · cases hok : b.snap.raw.addItem (keyOf o id) data with
      | error e =>
        simp only [hok, Option.some.injEq, Prod.mk.injEq] at hadd
        obtain ⟨rfl, _⟩ := hadd
        exact keep
      | ok raw =>
        simp only [hok, Option.some.injEq, Prod.mk.injEq] at hadd
        obtain ⟨rfl, _⟩ := hadd
        exact ⟨add1 _ _ _ _ _ _ h1 h2 hok, hin⟩
  | uuid u =>
    simp only [Builder.addItem] at hadd
    cases hf : mfind u b.snap.ext with
    | some t =>
      simp only [hf] at hadd
      cases hok : b.snap.raw.addItem (keyOf t id) data with
      | error e =>
        simp only [hok, Option.some.injEq, Prod.mk.injEq] at hadd
        obtain ⟨rfl, _⟩ := hadd
        exact keep
      | ok raw =>
        simp only [hok, Option.some.injEq, Prod.mk.injEq] at hadd
        obtain ⟨rfl, _⟩ := hadd
        exact ⟨add1 _ _ _ _ _ _ h1 h2 hok, hin⟩
    | none =>
      simp only [hf] at hadd
      split at hadd
      · cases hadd
      · split at hadd
        · simp only [Option.some.injEq, Prod.mk.injEq] at hadd
          obtain ⟨rfl, _⟩ := hadd
          exact keep
        · cases hok1 : b.snap.raw.addItem (keyOf typeIdEx b.nextTypeId) (uuidToData u) with
          | error e =>
            simp only [hok1, Option.some.injEq, Prod.mk.injEq] at hadd
            obtain ⟨rfl, _⟩ := hadd
            exact keep
          | ok raw1 =>
            simp only [hok1] at hadd
            obtain ⟨hi1, hnone1⟩ := addItem_ok hok1
            have hel : (minsert u b.nextTypeId b.snap.ext).length = b.snap.ext.length + 1 :=
              length_minsert_of_none hf
            have r1 : raw1.items.length ≤ (minsert u b.nextTypeId b.snap.ext).length + n := by
              rw [hi1, length_minsert_of_none hnone1, hel]; omega
            have r2 : dataLen raw1.items ≤ 4 * (minsert u b.nextTypeId b.snap.ext).length + m := by
              rw [hi1, dataLen_minsert_of_none hnone1, hel, uuidToData_length]; omega
            have hin' : ExtIn U ⟨raw1, minsert u b.nextTypeId b.snap.ext⟩ := by
              intro u' t' hu'
              simp only [mfind_minsert] at hu'
              split at hu'
              · rename_i e; rw [e]; exact hu u rfl
              · exact hin u' t' hu'
            cases hok2 : raw1.addItem (keyOf b.nextTypeId id) data with
            | error e =>
              simp only [hok2, Option.some.injEq, Prod.mk.injEq] at hadd
              obtain ⟨rfl, _⟩ := hadd
              exact ⟨⟨by simp only; omega, by simp only; omega⟩, hin'⟩
            | ok raw2 =>
              simp only [hok2, Option.some.injEq, Prod.mk.injEq] at hadd
              obtain ⟨rfl, _⟩ := hadd
              exact ⟨add1 _ _ _ _ _ _ r1 r2 hok2, hin'⟩

theorem recycleAdd_sizes : ∀ (ext : List (Int × Nat)) (raw raw' : RawSnap),
    recycleAdd ext raw = some raw' →
    raw'.items.length = raw.items.length + ext.length ∧
      dataLen raw'.items = dataLen raw.items + 4 * ext.length := by
  intro ext
  induction ext with
  | nil =>
    intro raw raw' h
    simp only [recycleAdd, Option.some.injEq] at h
    subst h; simp
  | cons q r ih =>
    obtain ⟨u, t⟩ := q
    intro raw raw' h
    simp only [recycleAdd] at h
    cases hadd : raw.addItem (keyOf typeIdEx t) (uuidToData u) with
    | error e => simp [hadd] at h
    | ok raw1 =>
      simp only [hadd] at h
      obtain ⟨hi, hnone⟩ := addItem_ok hadd
      obtain ⟨i1, i2⟩ := ih raw1 raw' h
      rw [i1, i2, hi, length_minsert_of_none hnone, dataLen_minsert_of_none hnone, uuidToData_length]
      simp only [List.length_cons]
      omega

theorem recycle_bounded {U : List Int} {b b' : Builder} (hin : ExtIn U b.snap)
    (h : b.snap.recycle = some b') : Bounded 0 0 b' ∧ ExtIn U b'.snap := by
  unfold Snap.recycle at h
  cases hn : recycleNext b.snap.raw.items offsetExt with
  | none => simp [hn] at h
  | some n =>
    simp only [hn] at h
    cases hr : recycleAdd b.snap.ext RawSnap.empty with
    | none => simp [hr] at h
    | some raw =>
      simp only [hr, Option.some.injEq] at h
      subst h
      obtain ⟨i1, i2⟩ := recycleAdd_sizes _ _ _ hr
      have e1 : RawSnap.empty.items.length = 0 := rfl
      have e2 : dataLen RawSnap.empty.items = 0 := rfl
      refine ⟨⟨?_, ?_⟩, hin⟩
      · show raw.items.length ≤ b.snap.ext.length + 0
        omega
      · show dataLen raw.items ≤ 4 * b.snap.ext.length + 0
        omega

/-- number of data integers the application adds -/
def itemsData (items : List Item) : Nat := (items.map (fun it => it.2.2.length)).sum

theorem addItems_bounded {U : List Int} : ∀ (items : List Item) (n m : Nat) (b : Builder) (s : Tw.Snap.Snap),
    Bounded n m b → ExtIn U b.snap → (∀ it, it ∈ items → ∀ u, it.1 = .uuid u → u ∈ U) →
    addItems b items = .ok (.ok s) →
    s.raw.items.length ≤ s.ext.length + (n + items.length) ∧
      dataLen s.raw.items ≤ 4 * s.ext.length + (m + itemsData items) ∧ ExtIn U s := by
  intro items
  induction items with
  | nil =>
    intro n m b s hb hin _ h
    simp only [addItems, Outcome.ok.injEq, Except.ok.injEq] at h
    subst h
    exact ⟨by simpa using hb.1, by simpa [itemsData] using hb.2, hin⟩
  | cons it rest ih =>
    obtain ⟨tid, id, data⟩ := it
    intro n m b s hb hin hu h
    simp only [addItems] at h
    cases hadd : b.addItem tid id data with
    | none => simp [hadd] at h
    | some r =>
      obtain ⟨b', e⟩ := r
      cases e with
      | some e => simp [hadd] at h
      | none =>
        simp only [hadd] at h
        obtain ⟨hb', hin'⟩ := addItem_bounded hb hin (hu (tid, id, data) List.mem_cons_self) hadd
        obtain ⟨r1, r2, r3⟩ := ih (n + 1) (m + data.length) b' s hb' hin'
          (fun it hit => hu it (List.mem_cons_of_mem _ hit)) h
        refine ⟨by simp only [List.length_cons]; omega, ?_, r3⟩
        simp only [itemsData, List.map_cons, List.sum_cons] at r2 ⊢
        omega

/-- What one `new_builder()` … `finish()` makes from at most `N` items with at most `M` data integers
and UUID types among `U` is small. -/
theorem build_small {U : List Int} {N M : Nat} {seed T : Tw.Snap.Snap} {items : List Item}
    (hin : ExtIn U seed) (hu : ∀ it, it ∈ items → ∀ u, it.1 = .uuid u → u ∈ U)
    (hN : items.length ≤ N) (hM : itemsData items ≤ M) (hT : ExtOk T)
    (hb : execBuild.build seed items = .ok (.ok T)) :
    Small (U.length + N) (4 * U.length + M) T ∧ ExtIn U T := by
  simp only [execBuild] at hb
  cases hr : seed.recycle with
  | none => simp [hr] at hb
  | some b1 =>
    simp only [hr] at hb
    have hseed : ∃ b0 : Builder, b0.snap = seed := ⟨⟨seed, 0⟩, rfl⟩
    obtain ⟨b0, hb0⟩ := hseed
    obtain ⟨hbd, hin1⟩ := recycle_bounded (U := U) (b := b0) (by rw [hb0]; exact hin) (by rw [hb0]; exact hr)
    obtain ⟨r1, r2, r3⟩ := addItems_bounded items 0 0 b1 T hbd hin1 hu hb
    have hel := ext_length_le hT r3
    exact ⟨⟨by omega, by omega⟩, r3⟩

/-! ### no panic at all under a size budget -/

/-- the application's budget for one snapshot: UUID types among `U`, at most `N` items with at most
`M` data integers in total -/
structure Budget (U : List Int) (N M : Nat) (items : List Item) : Prop where
  uuids : ∀ it, it ∈ items → ∀ u, it.1 = .uuid u → u ∈ U
  count : items.length ≤ N
  data : itemsData items ≤ M

def EvBudget (U : List Int) (N M : Nat) : EvB Tw.Snap.Snap (List Item) → Prop
  | .sendItems _ items => Budget U N M items
  | _ => True

/-- With a size budget that keeps `5 · (3 + 4·(|U| + N) + 4·|U| + M)` within the 64 KiB buffer, no
history of the executable model panics. -/
theorem runB_never_panics {objSize : Nat → Option Nat} {size : TypeId → Nat → Nat}
    (ht : TableOk objSize size) (ref : Bool) (U : List Int) (N M : Nat)
    (hk : 5 * (3 + 4 * (U.length + N) + (4 * U.length + M)) ≤ 65536)
    (evs : List (EvB Tw.Snap.Snap (List Item))) (hev : ∀ e, e ∈ evs → EvOk size e)
    (hbud : ∀ e, e ∈ evs → EvBudget U N M e) :
    ∃ r, SysB.run (execOps objSize ref) execBuild {} evs = .ok r := by
  let Q : Tw.Snap.Snap → Prop := fun s => Small (U.length + N) (4 * U.length + M) s ∧ ExtIn U s
  have hQ0 : Q Tw.Snap.Snap.empty := by
    refine ⟨⟨by simp [Tw.Snap.Snap.empty, RawSnap.empty], by simp [Tw.Snap.Snap.empty, RawSnap.empty, dataLen]⟩, ?_⟩
    intro u t h; simp [Tw.Snap.Snap.empty, mfind] at h
  have hq : ∀ e, e ∈ evs → EvQ size Q e := by
    intro e he
    cases e with
    | sendItems t items =>
      intro seed T _ hQs hT hb
      obtain ⟨c, hc, hcs⟩ := hT
      have hok : ExtOk T := hcs ▸ (chain_inv_new hc).1.ok
      have hb' := hbud _ he
      exact build_small hQs.2 hb'.uuids hb'.count hb'.data hok hb
    | other e => trivial
  rcases runB_no_panic ht ref hQ0 evs {} (invB_init size Q) hev hq with h | ⟨_, a, b, d, xs, hqa, hqb, hwa, hwb, hd, hw, hbig⟩
  · exact h
  · have := packed_fits (objSize := objSize) hk hwa hwb hqa.1 hqb.1 hd hw
    omega

end Tw.SnapMgr
