import Tw.Proofs.NetC01

/-! The ghost world never blocks an endpoint move: whenever the endpoint's own call returns, the
image of the move in the ghost world returns as well (so a run of the composite world ends only when
a real call fails, a real datagram index does not exist, or a second peer for the address appears). -/
namespace Tw.NetC01
open Tw.Conn Tw.Net Tw.NetSim Tw.Time
open Tw.Conn6 (Env Packet)

theorem ghost_follows_toNet {tl : Bool} {addr : Nat} {w : NW tl} {i : Nat} {d : List Nat} {alt : P6.Alt}
    {net1 : Net} {r : Net.Ret} {o : Out} (hc : Coup addr w)
    (hr : realStep tl addr w (.toNet i d alt) = some (net1, r, o)) :
    (ghostStep tl addr w (.toNet i d alt)).isSome = true := by
  simp only [realStep] at hr
  cases hdg : w.g.a.out[i]? with
  | none => simp [hdg] at hr
  | some dg =>
    simp only [hdg] at hr
    cases hfeed : Net.feed ⟨w.g.now, d⟩ w.net addr (P6.wireRead tl dg.pkt alt) with
    | error e => simp [hfeed] at hr
    | ok v =>
      simp only [hfeed, Option.some.injEq] at hr
      subst hr
      obtain ⟨_, _, _, href⟩ := feed_sim hc.pinv hfeed
      cases hs : slot w.net.peers addr with
      | none => simp [ghostStep, ghostMove, hs]
      | some x =>
        obtain ⟨pid, p⟩ := x
        obtain ⟨hpc, _⟩ := hc.conn pid p hs
        by_cases hu : p.conn.state = .unconnected
        · simp [ghostStep, ghostMove, hs, hu]
        · simp only [refStep, hs, hu, if_false] at href
          cases hcf : Conn6.feed ⟨w.g.now, d⟩ p.conn (P6.wireRead tl dg.pkt alt) with
          | error e => simp [hcf] at href
          | ok cv =>
            obtain ⟨c, o'⟩ := cv
            have hrecv : (proto6 tl).recv w.g.now d w.g.b.conn dg.pkt alt =
                .ok { conn := c, sent := o'.sent, events := o'.events } := by
              show P6.recv tl w.g.now d w.g.b.conn dg.pkt alt = _
              simp only [P6.recv, ← hpc, hcf]
              rfl
            simp only [ghostStep, ghostMove, hs, hu, if_false, NetSim.step, World.get, Side.other,
              hdg, hrecv, Option.isSome_some]

theorem ghost_follows_net {tl : Bool} {addr : Nat} {w : NW tl} {d : List Nat} {op : Op}
    {net1 : Net} {r : Net.Ret} {o : Out} (hc : Coup addr w) (hok : opOk w.net op = true)
    (hr : realStep tl addr w (.net d op) = some (net1, r, o))
    (hcb : (created addr w net1 && w.born) = false) :
    (ghostStep tl addr w (.net d op)).isSome = true := by
  simp only [realStep] at hr
  cases hal : allowed addr op with
  | false => simp [hal] at hr
  | true =>
    simp only [hal, if_true] at hr
    cases hstep : Net.step ⟨w.g.now, d⟩ w.net op with
    | error e => simp [hstep] at hr
    | ok v =>
      simp only [hstep, Option.some.injEq] at hr
      subst hr
      obtain ⟨_, _, hfor⟩ := step_sim hc.pinv hok hstep
      have hst := hfor addr
      unfold StepFor at hst
      cases hp : projOp w.net addr op with
      | none => simp [ghostStep, ghostMove_none hp]
      | some lop =>
        simp only [hp] at hst
        cases op with
        | feed a rd =>
          simp only [projOp] at hp
          have : a ≠ addr := by simpa [allowed] using hal
          simp [this] at hp
        | sendConnless a x =>
          simp only [projOp] at hp
          have : a ≠ addr := by simpa [allowed] using hal
          simp [this] at hp
        | connect a =>
          simp only [projOp] at hp
          by_cases ha : a = addr
          · subst ha
            simp only [if_true, Option.some.injEq] at hp
            subst hp
            have hs : slot w.net.peers a = none := by simpa [opOk] using hok
            simp only [refStep, hs] at hst
            cases hf : freshPid w.net with
            | none => simp [hf] at hst
            | some pid =>
              simp only [hf] at hst
              cases hcn : Conn6.connect ⟨w.g.now, d⟩ Conn6.Conn.new with
              | error e => simp [hcn] at hst
              | ok cv =>
                obtain ⟨c, o'⟩ := cv
                simp only [hcn, Except.ok.injEq, Prod.mk.injEq] at hst
                have hcr : created a w net1 = true := by simp [created, hs, ← hst.1]
                have hborn : w.born = false := by simpa [hcr] using hcb
                have hgc : w.g.b.conn = Conn6.Conn.new := (hc.fresh hborn).2
                have hgm : ghostMove tl a w (.net d (.connect a)) = some (.call .b d .connect) := by
                  simp [ghostMove, projOp, hf]
                have hcall : P6.call w.g.now d w.g.b.conn .connect =
                    .ok { conn := c, sent := o'.sent, events := o'.events } := by
                  simp only [P6.call, hgc, hcn]
                simp only [ghostStep, hgm, ghost_call_b _ _ _ hcall, Option.isSome_some]
          · simp [ha] at hp
        | accept pid =>
          simp only [projOp] at hp
          by_cases ha : addrOf w.net pid = some addr
          · simp only [ha, if_true, Option.some.injEq] at hp
            subst hp
            obtain ⟨p, hs, _⟩ := slot_of_addrOf hc.pinv ha
            obtain ⟨hpc, _⟩ := hc.conn pid p hs
            simp only [refStep, hs, slotModify, peerAccept] at hst
            by_cases hu : p.conn.state = .unconnected
            · simp only [hu, ne_eq, not_true_eq_false, if_false] at hst
              cases hcf : Conn6.feed ⟨w.g.now, d⟩ p.conn (fun _ => some (connectPacket p.token)) with
              | error e => simp [hcf] at hst
              | ok cv =>
                obtain ⟨c, o'⟩ := cv
                obtain ⟨i, alt, dg, hreq, hdg, hwr⟩ := hc.pend pid p hs hu
                have hgm : ghostMove tl addr w (.net d (.accept pid)) = some (.deliver .b i d alt) := by
                  simp [ghostMove, projOp, ha, hreq]
                have hrecv : (proto6 tl).recv w.g.now d w.g.b.conn dg.pkt alt =
                    .ok { conn := c, sent := o'.sent, events := o'.events } := by
                  show P6.recv tl w.g.now d w.g.b.conn dg.pkt alt = _
                  have hcg : Conn6.feed ⟨w.g.now, d⟩ p.conn (P6.wireRead tl dg.pkt alt) =
                      Conn6.feed ⟨w.g.now, d⟩ p.conn (fun _ => some (connectPacket p.token)) :=
                    feed_congr _ _ (by rw [hint_unconnected hu, hwr])
                  simp only [P6.recv, ← hpc, hcg, hcf]
                  rfl
                simp only [ghostStep, hgm, NetSim.step, World.get, Side.other, hdg, hrecv, Option.isSome_some]
            · simp [hu] at hst
          · simp [ha] at hp
        | reject pid reason =>
          simp only [projOp] at hp
          by_cases ha : addrOf w.net pid = some addr
          · simp only [ha, if_true, Option.some.injEq] at hp
            subst hp
            obtain ⟨p, hs, _⟩ := slot_of_addrOf hc.pinv ha
            obtain ⟨hpc, _⟩ := hc.conn pid p hs
            simp only [refStep, hs, slotRemove] at hst
            cases hpcl : peerClose true ⟨w.g.now, d⟩ reason p with
            | error e => simp [hpcl] at hst
            | ok o' =>
              obtain ⟨c, hcd⟩ := peerClose_ok hpcl
              have hgm : ghostMove tl addr w (.net d (.reject pid reason)) =
                  some (.call .b d (.disconnect reason)) := by simp [ghostMove, projOp, ha]
              have hcall : P6.call w.g.now d w.g.b.conn (.disconnect reason) =
                  .ok { conn := c, sent := o'.sent, events := o'.events } := by
                simp only [P6.call, ← hpc, hcd]
              simp only [ghostStep, hgm, ghost_call_b _ _ _ hcall, Option.isSome_some]
          · simp [ha] at hp
        | disconnect pid reason =>
          simp only [projOp] at hp
          by_cases ha : addrOf w.net pid = some addr
          · simp only [ha, if_true, Option.some.injEq] at hp
            subst hp
            obtain ⟨p, hs, _⟩ := slot_of_addrOf hc.pinv ha
            obtain ⟨hpc, _⟩ := hc.conn pid p hs
            simp only [refStep, hs, slotRemove] at hst
            cases hpcl : peerClose false ⟨w.g.now, d⟩ reason p with
            | error e => simp [hpcl] at hst
            | ok o' =>
              obtain ⟨c, hcd⟩ := peerClose_ok hpcl
              have hgm : ghostMove tl addr w (.net d (.disconnect pid reason)) =
                  some (.call .b d (.disconnect reason)) := by simp [ghostMove, projOp, ha]
              have hcall : P6.call w.g.now d w.g.b.conn (.disconnect reason) =
                  .ok { conn := c, sent := o'.sent, events := o'.events } := by
                simp only [P6.call, ← hpc, hcd]
              simp only [ghostStep, hgm, ghost_call_b _ _ _ hcall, Option.isSome_some]
          · simp [ha] at hp
        | ignore pid =>
          simp only [projOp] at hp
          by_cases ha : addrOf w.net pid = some addr
          · simp [ghostStep, ghostMove, projOp, ha]
          · simp [ha] at hp
        | send pid x v =>
          simp only [projOp] at hp
          by_cases ha : addrOf w.net pid = some addr
          · simp only [ha, if_true, Option.some.injEq] at hp
            subst hp
            obtain ⟨p, hs, _⟩ := slot_of_addrOf hc.pinv ha
            obtain ⟨hpc, _⟩ := hc.conn pid p hs
            simp only [refStep, hs, slotModify, peerSend] at hst
            cases hcs : Conn6.send ⟨w.g.now, d⟩ p.conn x v with
            | error e => simp [hcs] at hst
            | ok cv =>
              obtain ⟨c, res, o'⟩ := cv
              have hgm : ghostMove tl addr w (.net d (.send pid x v)) = some (.call .b d (.send x v)) := by
                simp [ghostMove, projOp, ha]
              have hcall : P6.call w.g.now d w.g.b.conn (.send x v) =
                  .ok { conn := c, sent := o'.sent, events := o'.events, accepted := res == .ok } := by
                simp only [P6.call, ← hpc, hcs]
              simp only [ghostStep, hgm, ghost_call_b _ _ _ hcall, Option.isSome_some]
          · simp [ha] at hp
        | flush pid =>
          simp only [projOp] at hp
          by_cases ha : addrOf w.net pid = some addr
          · simp only [ha, if_true, Option.some.injEq] at hp
            subst hp
            obtain ⟨p, hs, _⟩ := slot_of_addrOf hc.pinv ha
            obtain ⟨hpc, _⟩ := hc.conn pid p hs
            simp only [refStep, hs, slotModify, peerFlush] at hst
            cases hcs : Conn6.flush ⟨w.g.now, d⟩ p.conn with
            | error e => simp [hcs] at hst
            | ok cv =>
              obtain ⟨c, o'⟩ := cv
              have hgm : ghostMove tl addr w (.net d (.flush pid)) = some (.call .b d .flush) := by
                simp [ghostMove, projOp, ha]
              have hcall : P6.call w.g.now d w.g.b.conn .flush =
                  .ok { conn := c, sent := o'.sent, events := o'.events } := by
                simp only [P6.call, ← hpc, hcs]
              simp only [ghostStep, hgm, ghost_call_b _ _ _ hcall, Option.isSome_some]
          · simp [ha] at hp
        | tick =>
          cases hs : slot w.net.peers addr with
          | none => simp [ghostStep, ghostMove, projOp, hs]
          | some x =>
            obtain ⟨pid, p⟩ := x
            obtain ⟨hpc, _⟩ := hc.conn pid p hs
            simp only [projOp, Option.some.injEq] at hp
            subst hp
            simp only [refStep, hs] at hst
            cases hct : Conn6.tick ⟨w.g.now, d⟩ p.conn with
            | error e => simp [hct] at hst
            | ok cv =>
              obtain ⟨c, o'⟩ := cv
              have hgm : ghostMove tl addr w (.net d .tick) = some (.call .b d .tick) := by
                simp [ghostMove, projOp, hs]
              have hcall : P6.call w.g.now d w.g.b.conn .tick =
                  .ok { conn := c, sent := o'.sent, events := o'.events } := by
                simp only [P6.call, ← hpc, hct]
              simp only [ghostStep, hgm, ghost_call_b _ _ _ hcall, Option.isSome_some]

/-- why a run of the composite world can end: the endpoint's own call fails (or the datagram index
does not exist / the call is outside the world's alphabet), the address would get a second peer, or
the move is the remote's and the remote's own call or delivery fails — never because of the ghost -/
theorem nwStep_none {tl : Bool} {addr : Nat} {w : NW tl} {m : NMove} (hc : Coup addr w)
    (hok : ∀ d op, m = .net d op → opOk w.net op = true) (h : nwStep addr w m = none) :
    realStep tl addr w m = none ∨
      (∃ net1 r o, realStep tl addr w m = some (net1, r, o) ∧ (created addr w net1 && w.born) = true) ∨
      ((∃ d c, m = .remCall d c) ∨ ∃ i d alt, m = .toRemote i d alt) := by
  unfold nwStep at h
  cases hr : realStep tl addr w m with
  | none => exact Or.inl rfl
  | some v =>
    obtain ⟨net1, r, o⟩ := v
    simp only [hr] at h
    cases hcb : (created addr w net1 && w.born) with
    | true => exact Or.inr (Or.inl ⟨net1, r, o, rfl, hcb⟩)
    | false =>
      simp only [hcb, Bool.false_eq_true, if_false] at h
      cases hg : ghostStep tl addr w m with
      | some g1 => simp [hg] at h
      | none =>
        cases m with
        | remCall d c => exact Or.inr (Or.inr (Or.inl ⟨d, c, rfl⟩))
        | toRemote i d alt => exact Or.inr (Or.inr (Or.inr ⟨i, d, alt, rfl⟩))
        | advance dt => simp [ghostStep, ghostMove, NetSim.step] at hg
        | toNet i d alt => have := ghost_follows_toNet hc hr; simp [hg] at this
        | net d op => have := ghost_follows_net hc (hok d op rfl) hr hcb; simp [hg] at this

end Tw.NetC01
