/-
C13 for the concrete model with builder, free list and the glue's buffer (`Model/SnapMgrC.lean`):
under application-level hypotheses the only panic left on the sending side is the 64 KiB buffer.
-/
import Tw.Model.SnapMgrC
import Tw.Proofs.SnapChain
import Tw.Proofs.SnapMgrSys

namespace Tw.Snap

theorem chain_trans {size : TypeId → Nat → Nat} {a b c : Builder} (h1 : Chain size a b) (h2 : Chain size b c) :
    Chain size a c := by
  induction h2 with
  | refl => exact h1
  | tail _ hs ih => exact Chain.tail ih hs

/-- `s` was made by a builder on a chain from `Builder::new()` -/
def Built (size : TypeId → Nat → Nat) (s : Snap) : Prop :=
  ∃ b, Chain size Builder.new b ∧ b.snap = s

/-- `t` was made by continuing (zero or more times) from the builder that made `s` -/
def Anc (size : TypeId → Nat → Nat) (s t : Snap) : Prop :=
  ∃ a b, Chain size Builder.new a ∧ Chain size a b ∧ a.snap = s ∧ b.snap = t

theorem Anc.built_left {size : TypeId → Nat → Nat} {s t : Snap} (h : Anc size s t) : Built size s := by
  obtain ⟨a, _, h0, _, hs, _⟩ := h; exact ⟨a, h0, hs⟩

theorem Built.anc_self {size : TypeId → Nat → Nat} {s : Snap} (h : Built size s) : Anc size s s := by
  obtain ⟨b, h0, hs⟩ := h; exact ⟨b, b, h0, Chain.refl b, hs, hs⟩

theorem built_empty (size : TypeId → Nat → Nat) : Built size Snap.empty := ⟨Builder.new, Chain.refl _, rfl⟩

theorem chain_inv_new {size : TypeId → Nat → Nat} {b : Builder} (h : Chain size Builder.new b) :
    b.Inv ∧ Sized size b.snap := by
  obtain ⟨h1, h2, _⟩ := chain_inv h Builder.new_inv (sized_new size)
  exact ⟨h1, h2⟩

/-- what the application may add: a valid type, a `u16` id, `i32` data of the size fixed for that `(type, id)` -/
def ItemOk (size : TypeId → Nat → Nat) (it : TypeId × Nat × List Int) : Prop :=
  it.1.Valid ∧ (∀ o, it.1 = .ordinal o → 0 < o ∧ o < offsetExt) ∧ it.2.1 < 65536 ∧
    (∀ x ∈ it.2.2, I32 x) ∧ it.2.2.length = size it.1 it.2.1

theorem addItem_ne_none {b : Builder} (hb : b.Inv) {tid : TypeId} {id : Nat} {data : List Int}
    (ho : ∀ o, tid = .ordinal o → 0 < o ∧ o < offsetExt) : b.addItem tid id data ≠ none := by
  obtain ⟨hnr1, _⟩ := hb.next_range
  cases tid with
  | ordinal o =>
    have := ho o rfl
    simp only [Builder.addItem, this, and_self, not_true_eq_false, if_false]
    cases b.snap.raw.addItem (keyOf o id) data <;> simp
  | uuid u =>
    simp only [Builder.addItem]
    cases mfind u b.snap.ext with
    | some t => simp only; cases b.snap.raw.addItem (keyOf t id) data <;> simp
    | none =>
      simp only [hnr1, not_true_eq_false, if_false]
      split
      · simp
      · cases b.snap.raw.addItem (keyOf typeIdEx b.nextTypeId) (uuidToData u) with
        | error e => simp
        | ok raw1 =>
          simp only
          cases raw1.addItem (keyOf b.nextTypeId id) data <;> simp

end Tw.Snap

namespace Tw.SnapMgr
open Tw.Snap Tw.SnapXfer

/-- the application's calls never panic and extend the chain -/
theorem addItems_ok {size : TypeId → Nat → Nat} : ∀ (items : List Item) (b0 b : Builder),
    Chain size Builder.new b0 → Chain size b0 b → (∀ it, it ∈ items → ItemOk size it) →
    ∃ r, addItems b items = .ok r ∧
      ∀ s, r = .ok s → ∃ c, Chain size b0 c ∧ c.snap = s := by
  intro items
  induction items with
  | nil =>
    intro b0 b _ h1 _
    exact ⟨_, rfl, fun s hs => by injection hs with hs; exact ⟨b, h1, hs⟩⟩
  | cons it rest ih =>
    obtain ⟨tid, id, data⟩ := it
    intro b0 b h0 h1 hok
    have hbi := (chain_inv_new (chain_trans h0 h1)).1
    obtain ⟨hv, ho, hid, hd, hlen⟩ := hok (tid, id, data) List.mem_cons_self
    simp only [addItems]
    cases hadd : b.addItem tid id data with
    | none => exact absurd hadd (addItem_ne_none hbi ho)
    | some r =>
      obtain ⟨b', e⟩ := r
      cases e with
      | some e => exact ⟨_, rfl, fun s hs => by simp at hs⟩
      | none =>
        simp only
        have hstep : Step size b b' := Step.add hv hid hd hlen hadd
        exact ih b0 b' h0 (Chain.tail h1 hstep) (fun it hit => hok it (List.mem_cons_of_mem _ hit))

/-- `new_builder()`, the application's calls, `finish()`: no panic, and the result continues the
chain of the seed -/
theorem build_ok {size : TypeId → Nat → Nat} {seed : Tw.Snap.Snap} {items : List Item} {b0 : Builder}
    (h0 : Chain size Builder.new b0) (hs : b0.snap = seed) (hok : ∀ it, it ∈ items → ItemOk size it) :
    ∃ r, execBuild.build seed items = .ok r ∧
      ∀ s, r = .ok s → ∃ c, Chain size b0 c ∧ c.snap = s := by
  obtain ⟨b1, hr, _⟩ := Builder.recycle_inv (chain_inv_new h0).1
  simp only [execBuild, ← hs, hr]
  exact addItems_ok items b0 b1 h0 (Chain.tail (Chain.refl _) (Step.recycle hr)) hok

/-- the object-size table of the protocol agrees with the sizes the application uses, and knows
nothing about the registry type and the extended type numbers -/
structure TableOk (objSize : Nat → Option Nat) (size : TypeId → Nat → Nat) : Prop where
  registry : objSize typeIdEx = none
  extended : ∀ t, offsetExt ≤ t → objSize t = none
  ordinal : ∀ o n id, 0 < o → o < offsetExt → objSize o = some n → size (.ordinal o) id = n

theorem sizesOk_of_sized {objSize : Nat → Option Nat} {size : TypeId → Nat → Nat} (ht : TableOk objSize size)
    {s : Tw.Snap.Snap} (hs : Sized size s) : SizesOk objSize s.raw.items := by
  intro p hp
  by_cases h0 : keyType p.1 = typeIdEx
  · rw [h0, ht.registry]; rfl
  · by_cases h1 : keyType p.1 < offsetExt
    · have hpos : 0 < keyType p.1 := by rw [typeIdEx_eq] at h0; omega
      cases hobj : objSize (keyType p.1) with
      | none => rfl
      | some n =>
        have := ht.ordinal _ n (keyId p.1) hpos h1 hobj
        simp only [szOk, beq_iff_eq]
        rw [← this, (hs p hp).1 hpos h1]
    · rw [ht.extended _ (by omega)]; rfl

/-- the packed delta of two snapshots (that satisfy `Q`) does not fit the buffer the server glue
reserves -/
def Oversize (objSize : Nat → Option Nat) (Q : Tw.Snap.Snap → Prop := fun _ => True) : Prop :=
  ∃ (a b : Tw.Snap.Snap) (d : Tw.Snap.Delta) (xs : List Int), Q a ∧ Q b ∧ a.raw.WF ∧ b.raw.WF ∧
    createDelta a.raw b.raw = some d ∧
    d.writeInts objSize = some xs ∧ (packInts xs).length > writeCapacity

theorem writeCapacity_eq : writeCapacity = 65536 := rfl

theorem deltaChunks_ok_of_small (tick base crc : Int) (bs : List UInt8) (h : bs.length ≤ 65536) :
    ∃ ms, deltaChunks tick base bs crc = .ok ms := by
  have hn : numParts bs.length ≤ 2147483647 := by
    simp only [numParts, partSize, Tw.Gen.SnapXfer.MAX_SNAPSHOT_PACKSIZE]; omega
  unfold deltaChunks
  simp only [hn, not_true_eq_false, if_false]
  split
  · exact ⟨_, rfl⟩
  · split <;> exact ⟨_, rfl⟩

/-- The glue for one snapshot whose base is an ancestor on the builder chain: it succeeds, or the
packed delta exceeds the buffer. -/
theorem sendSnap_concrete {objSize : Nat → Option Nat} {size : TypeId → Nat → Nat} (ht : TableOk objSize size)
    (st : Storage Tw.Snap.Snap) (tick : Int) (T : Tw.Snap.Snap)
    (ref : Bool) {Q : Tw.Snap.Snap → Prop}
    (hbase : Anc size (st.baseOf (execOps objSize ref) ({ tick := tick, snap := T } :: st.snaps)) T)
    (hQa : Q (st.baseOf (execOps objSize ref) ({ tick := tick, snap := T } :: st.snaps))) (hQT : Q T) :
    (∃ x ms, sendSnap (execOps objSize ref) st tick T
        = .ok ({ st with snaps := { tick := tick, snap := T } :: st.snaps }, x, ms)) ∨
    ((∃ s, sendSnap (execOps objSize ref) st tick T = .panic s) ∧ Oversize objSize Q) := by
  obtain ⟨a, b, h0, h1, ha, hb⟩ := hbase
  obtain ⟨_, d, hd⟩ := chain_create h0 h1
  rw [ha, hb] at hd
  obtain ⟨hai, _⟩ := chain_inv_new h0
  obtain ⟨hbi, hbs⟩ := chain_inv_new (chain_trans h0 h1)
  have hwf := createDelta_WF (ha ▸ hai.ok.raw_wf) (hb ▸ hbi.ok.raw_wf) hd
  have hsz : SizesOk objSize d.updated :=
    sizesOk_of_lens objSize hwf.2 (hb ▸ sizesOk_of_sized ht hbs)
  obtain ⟨xs, hxs, _⟩ := readDelta_writeInts true objSize hwf.1 hsz
  have hcreate : (execOps objSize ref).create
      (st.baseOf (execOps objSize ref) ({ tick := tick, snap := T } :: st.snaps)) T = some d := hd
  by_cases hcond : ((execOps objSize ref).emptyWhenSame &&
      (execOps objSize ref).same (st.baseOf (execOps objSize ref) ({ tick := tick, snap := T } :: st.snaps)) T) = true
  · -- "same as base": nothing is written
    left
    obtain ⟨ms, hms⟩ := deltaChunks_ok_of_small tick (st.deltaTick.getD (-1)) ((execOps objSize ref).crc T)
      [] (by simp)
    exact ⟨{ tick := tick, base := st.deltaTick.getD (-1), bytes := [],
             crc := (execOps objSize ref).crc T }, ms,
      by simp only [sendSnap, Storage.addSnap, hcreate, if_pos hcond, hms]⟩
  by_cases hbig : (packInts xs).length > writeCapacity
  · right
    refine ⟨⟨"with_packer(..).unwrap()", ?_⟩, _, _, d, xs, hQa, hQT, ha ▸ hai.ok.raw_wf,
      hb ▸ hbi.ok.raw_wf, hd, hxs, hbig⟩
    have hw : (execOps objSize ref).write d = none := by simp [execOps, hxs, hbig]
    simp only [sendSnap, Storage.addSnap, hcreate, if_neg hcond, hw]
  · left
    have hw : (execOps objSize ref).write d = some (packInts xs) := by
      simp only [execOps, hxs, hbig, if_false]
    rw [writeCapacity_eq] at hbig
    obtain ⟨ms, hms⟩ := deltaChunks_ok_of_small tick (st.deltaTick.getD (-1)) ((execOps objSize ref).crc T)
      (packInts xs) (by omega)
    exact ⟨{ tick := tick, base := st.deltaTick.getD (-1), bytes := packInts xs,
             crc := (execOps objSize ref).crc T }, ms,
      by simp only [sendSnap, Storage.addSnap, hcreate, if_neg hcond, hw, hms]⟩

/-- every snapshot on the free list was made on the builder chain, and every stored snapshot is an
ancestor of the newest stored one -/
structure InvB (size : TypeId → Nat → Nat) (Q : Tw.Snap.Snap → Prop) (y : SysB Tw.Snap.Snap) : Prop where
  free : ∀ s, s ∈ y.free → Built size s ∧ Q s
  stored : ∀ s n, s ∈ y.sys.sender.snaps → y.sys.sender.snaps.head? = some n →
    Anc size s.snap n.snap ∧ Q s.snap

/-- application-level hypothesis on one event: the items are well-typed and type-sized; ready-made
snapshots are not injected -/
def EvOk (size : TypeId → Nat → Nat) : EvB Tw.Snap.Snap (List Item) → Prop
  | .sendItems _ items => ∀ it, it ∈ items → ItemOk size it
  | .other (.send _ _) => False
  | .other _ => True

/-- the builder keeps `Q` (for this event's items) -/
def EvQ (size : TypeId → Nat → Nat) (Q : Tw.Snap.Snap → Prop) : EvB Tw.Snap.Snap (List Item) → Prop
  | .sendItems _ items => ∀ seed T, Built size seed → Q seed → Built size T →
      execBuild.build seed items = .ok (.ok T) → Q T
  | _ => True

theorem invB_init (size : TypeId → Nat → Nat) (Q : Tw.Snap.Snap → Prop) :
    InvB size Q ({} : SysB Tw.Snap.Snap) where
  free := by intro s hs; cases hs
  stored := by intro s n hs; cases hs

theorem head?_of_prefix {α : Type} {l1 l2 : List α} (h : l1 <+: l2) {a : α} (h1 : l1.head? = some a) :
    l2.head? = some a := by
  obtain ⟨t, rfl⟩ := h
  cases l1 with
  | nil => cases h1
  | cons x r => simpa using h1

theorem setDeltaTick_snaps {S : Type} (st : Storage S) (v : Int) :
    (st.setDeltaTick v).1.snaps <+: st.snaps := by
  unfold Storage.setDeltaTick
  by_cases hneg : v < 0
  · simp only [hneg, if_true]; exact List.prefix_refl _
  · simp only [hneg, if_false]
    have hp : keepFrom st.snaps v <+: st.snaps := List.takeWhile_prefix _
    cases (keepFrom st.snaps v).getLast? with
    | none => exact hp
    | some d => simp only; split <;> exact hp

theorem invB_of_sender {size : TypeId → Nat → Nat} {Q : Tw.Snap.Snap → Prop} {y : SysB Tw.Snap.Snap}
    (hinv : InvB size Q y)
    (sys' : Sys Tw.Snap.Snap) (free' : List Tw.Snap.Snap)
    (hp : sys'.sender.snaps <+: y.sys.sender.snaps)
    (hf : ∀ s, s ∈ free' → s ∈ y.free ∨ ∃ st, st ∈ y.sys.sender.snaps ∧ st.snap = s) :
    InvB size Q { sys := sys', free := free' } where
  free := by
    intro s hs
    rcases hf s hs with h | ⟨st, hst, rfl⟩
    · exact hinv.free s h
    · cases hh : y.sys.sender.snaps.head? with
      | none => cases hl : y.sys.sender.snaps <;> simp_all
      | some n => exact ⟨(hinv.stored st n hst hh).1.built_left, (hinv.stored st n hst hh).2⟩
  stored := by
    intro s n hs hn
    exact hinv.stored s n (hp.subset hs) (head?_of_prefix hp hn)

theorem mem_drainedBy {S : Type} {st : Storage S} {v : Int} {s : S} (h : s ∈ st.drainedBy v) :
    ∃ x, x ∈ st.snaps ∧ x.snap = s := by
  unfold Storage.drainedBy at h
  by_cases hv : v < 0
  · simp [hv] at h
  · simp only [hv, if_false] at h
    obtain ⟨x, hx, rfl⟩ := List.mem_map.mp h
    exact ⟨x, List.mem_of_mem_drop hx, rfl⟩

/-- the seed of `new_builder()` was made on the builder chain -/
theorem seed_built {size : TypeId → Nat → Nat} {Q : Tw.Snap.Snap → Prop} {y : SysB Tw.Snap.Snap}
    (hinv : InvB size Q y) (hQ0 : Q Tw.Snap.Snap.empty) :
    Built size (y.seed execBuild) ∧ Q (y.seed execBuild) := by
  unfold SysB.seed
  cases hh : y.sys.sender.snaps.head? with
  | some n =>
    have hn : n ∈ y.sys.sender.snaps := by
      cases hl : y.sys.sender.snaps with
      | nil => rw [hl] at hh; cases hh
      | cons x r => rw [hl] at hh; simp at hh; subst hh; exact List.mem_cons_self
    exact ⟨(hinv.stored n n hn hh).1.built_left, (hinv.stored n n hn hh).2⟩
  | none =>
    simp only
    cases hl : y.free.getLast? with
    | none => exact ⟨built_empty size, hQ0⟩
    | some s => exact hinv.free s (List.mem_of_getLast? hl)

/-- One event under the application-level hypotheses: it runs and keeps the invariant, or the
glue's buffer overflows. -/
theorem stepB_no_panic {objSize : Nat → Option Nat} {size : TypeId → Nat → Nat} (ht : TableOk objSize size)
    (ref : Bool) {Q : Tw.Snap.Snap → Prop} (hQ0 : Q Tw.Snap.Snap.empty)
    {y : SysB Tw.Snap.Snap} (hinv : InvB size Q y) (e : EvB Tw.Snap.Snap (List Item)) (he : EvOk size e)
    (hq : EvQ size Q e) :
    (∃ y' o, y.step (execOps objSize ref) execBuild e = .ok (y', o) ∧ InvB size Q y') ∨
    ((∃ s, y.step (execOps objSize ref) execBuild e = .panic s) ∧ Oversize objSize Q) := by
  cases e with
  | sendItems tick items =>
    obtain ⟨hseed, hQseed⟩ := seed_built hinv hQ0
    obtain ⟨b0, hb0, hs0⟩ := hseed
    obtain ⟨r, hr, hrc⟩ := build_ok hb0 hs0 he
    have hdrop : ∀ s, s ∈ y.free.dropLast → s ∈ y.free ∨ ∃ st, st ∈ y.sys.sender.snaps ∧ st.snap = s :=
      fun s hs => Or.inl (List.dropLast_subset _ hs)
    cases r with
    | error e =>
      left
      refine ⟨{ y with free := y.free.dropLast }, .builderError e, by simp only [SysB.step, hr], ?_⟩
      exact invB_of_sender hinv y.sys _ (List.prefix_refl _) hdrop
    | ok T =>
      obtain ⟨c0, hc0, hT0⟩ := hrc T rfl
      -- every stored snapshot, the new one and the empty one are ancestors of the new snapshot
      have hbuiltT : Built size T := ⟨c0, chain_trans hb0 hc0, hT0⟩
      have hQT : Q T := hq _ _ ⟨b0, hb0, hs0⟩ hQseed hbuiltT hr
      have hanc : ∀ s, s ∈ y.sys.sender.snaps → Anc size s.snap T := by
        intro s hs
        cases hh : y.sys.sender.snaps.head? with
        | none => cases hl : y.sys.sender.snaps <;> simp_all
        | some n =>
          obtain ⟨a, b, ha0, hab, has, hbn⟩ := (hinv.stored s n hs hh).1
          have hseedn : y.seed execBuild = n.snap := by simp [SysB.seed, hh]
          obtain ⟨r', hr', hrc'⟩ := build_ok (items := items) (chain_trans ha0 hab) (hbn.trans hseedn.symm) he
          rw [hr] at hr'
          injection hr' with hr'
          subst hr'
          obtain ⟨c, hc, hcT⟩ := hrc' T rfl
          exact ⟨a, c, ha0, chain_trans hab hc, has, hcT⟩
      have hbase : Anc size (y.sys.sender.baseOf (execOps objSize ref)
          ({ tick := tick, snap := T } :: y.sys.sender.snaps)) T := by
        unfold Storage.baseOf
        cases y.sys.sender.deltaTick with
        | none => exact ⟨Builder.new, c0, Chain.refl _, chain_trans hb0 hc0, rfl, hT0⟩
        | some t =>
          cases hl : (({ tick := tick, snap := T } : Stored Tw.Snap.Snap) :: y.sys.sender.snaps).getLast? with
          | none => exact ⟨Builder.new, c0, Chain.refl _, chain_trans hb0 hc0, rfl, hT0⟩
          | some d =>
            simp only
            rcases List.mem_cons.mp (List.mem_of_getLast? hl) with rfl | hd
            · exact hbuiltT.anc_self
            · exact hanc d hd
      have hQs : ∀ s, s ∈ y.sys.sender.snaps → Q s.snap := by
        intro s hs
        cases hh : y.sys.sender.snaps.head? with
        | none => cases hl : y.sys.sender.snaps <;> simp_all
        | some n => exact (hinv.stored s n hs hh).2
      have hQbase : Q (y.sys.sender.baseOf (execOps objSize ref)
          ({ tick := tick, snap := T } :: y.sys.sender.snaps)) := by
        unfold Storage.baseOf
        cases y.sys.sender.deltaTick with
        | none => exact hQ0
        | some t =>
          cases hl : (({ tick := tick, snap := T } : Stored Tw.Snap.Snap) :: y.sys.sender.snaps).getLast? with
          | none => exact hQ0
          | some d =>
            simp only
            rcases List.mem_cons.mp (List.mem_of_getLast? hl) with rfl | hd
            · exact hQT
            · exact hQs d hd
      rcases sendSnap_concrete ht y.sys.sender tick T ref hbase hQbase hQT with
        ⟨x, ms, hsend⟩ | ⟨⟨s, hp⟩, hover⟩
      · left
        refine ⟨{ sys := { y.sys with
                    sender := { y.sys.sender with snaps := { tick := tick, snap := T } :: y.sys.sender.snaps },
                    msgs := y.sys.msgs ++ ms, sent := (tick, T) :: y.sys.sent, xfers := x :: y.sys.xfers },
                  free := y.free.dropLast }, .obs .quiet,
          by simp only [SysB.step, hr, Sys.step, hsend], ?_⟩
        constructor
        · intro s hs; exact hinv.free s (List.dropLast_subset _ hs)
        · intro s n hs hn
          simp only [List.head?_cons, Option.some.injEq] at hn
          subst hn
          rcases List.mem_cons.mp hs with rfl | hs'
          · exact ⟨hbuiltT.anc_self, hQT⟩
          · exact ⟨hanc s hs', hQs s hs'⟩
      · right
        exact ⟨⟨s, by simp only [SysB.step, hr, Sys.step, hp]⟩, hover⟩
  | other e =>
    left
    cases e with
    | send t s => exact he.elim
    | deliver i =>
      simp only [SysB.step, Sys.step]
      cases y.sys.msgs[i]? with
      | none => exact ⟨_, _, rfl, invB_of_sender hinv _ _ (List.prefix_refl _) (fun s hs => Or.inl (by simpa using hs))⟩
      | some m => exact ⟨_, _, rfl, invB_of_sender hinv _ _ (List.prefix_refl _) (fun s hs => Or.inl (by simpa using hs))⟩
    | ack =>
      exact ⟨_, _, rfl, invB_of_sender hinv _ _ (List.prefix_refl _) (fun s hs => Or.inl (by simpa using hs))⟩
    | clientReset =>
      exact ⟨_, _, rfl, invB_of_sender hinv _ _ (List.prefix_refl _) (fun s hs => Or.inl (by simpa using hs))⟩
    | forgedAck v =>
      refine ⟨{ sys := { y.sys with sender := (y.sys.sender.setDeltaTick v).1 },
                free := y.free ++ y.sys.sender.drainedBy v }, .obs .quiet, rfl,
        invB_of_sender hinv _ _ (setDeltaTick_snaps _ v) ?_⟩
      intro s hs
      rcases List.mem_append.mp hs with h | h
      · exact Or.inl h
      · exact Or.inr (mem_drainedBy h)
    | deliverAck j =>
      simp only [SysB.step, Sys.step]
      cases y.sys.acks[j]? with
      | none => exact ⟨_, _, rfl, invB_of_sender hinv _ _ (List.prefix_refl _) (fun s hs => Or.inl (by simpa using hs))⟩
      | some v =>
        refine ⟨{ sys := { y.sys with sender := (y.sys.sender.setDeltaTick v).1 },
                  free := y.free ++ y.sys.sender.drainedBy v }, .obs .quiet, rfl,
          invB_of_sender hinv _ _ (setDeltaTick_snaps _ v) ?_⟩
        intro s hs
        rcases List.mem_append.mp hs with h | h
        · exact Or.inl h
        · exact Or.inr (mem_drainedBy h)

/-- **No panic but the buffer.**  Whole histories under the application-level hypotheses. -/
theorem runB_no_panic {objSize : Nat → Option Nat} {size : TypeId → Nat → Nat} (ht : TableOk objSize size)
    (ref : Bool) {Q : Tw.Snap.Snap → Prop} (hQ0 : Q Tw.Snap.Snap.empty) :
    ∀ (evs : List (EvB Tw.Snap.Snap (List Item))) (y : SysB Tw.Snap.Snap), InvB size Q y →
      (∀ e, e ∈ evs → EvOk size e) → (∀ e, e ∈ evs → EvQ size Q e) →
      (∃ r, SysB.run (execOps objSize ref) execBuild y evs = .ok r) ∨
      ((∃ s, SysB.run (execOps objSize ref) execBuild y evs = .panic s) ∧ Oversize objSize Q) := by
  intro evs
  induction evs with
  | nil => intro y _ _ _; exact Or.inl ⟨_, rfl⟩
  | cons e rest ih =>
    intro y hinv hev hqs
    rcases stepB_no_panic ht ref hQ0 hinv e (hev e List.mem_cons_self) (hqs e List.mem_cons_self) with
      ⟨y', o, hs, hinv'⟩ | ⟨⟨s, hp⟩, hover⟩
    · rcases ih y' hinv' (fun e' he' => hev e' (List.mem_cons_of_mem _ he'))
          (fun e' he' => hqs e' (List.mem_cons_of_mem _ he')) with ⟨⟨y'', os⟩, hr⟩ | ⟨⟨s, hp⟩, hover⟩
      · exact Or.inl ⟨(y'', o :: os), by simp only [SysB.run, hs, hr]⟩
      · exact Or.inr ⟨⟨s, by simp only [SysB.run, hs, hp]⟩, hover⟩
    · exact Or.inr ⟨⟨s, by simp only [SysB.run, hp]⟩, hover⟩

/-! ### the laws of the protocol layer for the executable snapshot layer, on builder-made snapshots -/

theorem execOps_lawsOn {objSize : Nat → Option Nat} {size : TypeId → Nat → Nat} (ht : TableOk objSize size)
    (ref : Bool) : LawsOn (execOps objSize ref) (Built size) where
  empty := built_empty size
  apply_create := by
    intro a b d ⟨ba, ha0, has⟩ ⟨bb, hb0, hbs⟩ h
    have hai := (chain_inv_new ha0).1
    have hbi := (chain_inv_new hb0).1
    subst has hbs
    have hd : createDelta ba.snap.raw bb.snap.raw = some d := h
    have hag : SizesAgree ba.snap.raw bb.snap.raw := by
      by_contra hn
      rw [(createDelta_eq_none_iff _ _).mpr hn] at hd
      cases hd
    obtain ⟨d', hd', hap⟩ := applyDelta_createDelta hai.ok.raw_wf hbi.ok.raw_wf hag
    rw [hd] at hd'
    injection hd' with hd'
    subst hd'
    have hrw : ba.snap.readWithDelta d = .ok (bb.snap, []) := by
      unfold Tw.Snap.Snap.readWithDelta
      rw [hap]
      simp only [buildFromRaw_of_extOk hbi.ok, List.append_nil]
    simp [execOps, hrw, resName, Except.map]
  read_write := by
    intro a b d bs ⟨ba, ha0, has⟩ ⟨bb, hb0, hbs⟩ hc hw
    have hai := (chain_inv_new ha0).1
    obtain ⟨hbi, hbsz⟩ := chain_inv_new hb0
    subst has hbs
    have hd : createDelta ba.snap.raw bb.snap.raw = some d := hc
    have hwf := createDelta_WF hai.ok.raw_wf hbi.ok.raw_wf hd
    have hsz : SizesOk objSize d.updated := sizesOk_of_lens objSize hwf.2 (sizesOk_of_sized ht hbsz)
    obtain ⟨xs, hxs, hr⟩ := readDelta_writeInts true objSize hwf.1 hsz
    simp only [execOps, hxs] at hw
    split at hw
    · cases hw
    · injection hw with hw
      subst hw
      simp only [enc, if_true] at hr
      simp [execOps, hr, resName, Except.map]
  write_nonempty := by
    intro a b d bs _ _ _ hw
    simp only [execOps] at hw
    cases hxs : d.writeInts objSize with
    | none => simp [hxs] at hw
    | some xs =>
      simp only [hxs] at hw
      split at hw
      · cases hw
      · injection hw with hw
        subst hw
        unfold Tw.Snap.Delta.writeInts at hxs
        split at hxs
        · cases hxs
        · injection hxs with hxs
          subst hxs
          intro h
          have h1 := congrArg List.length h
          rw [packInts_cons] at h1
          have := (Tw.Packer.writeInt_length ((d.deleted.length : Nat) : Int)).1
          simp only [List.length_append, List.length_nil] at h1
          omega
  same_clear := by
    intro a b ⟨ba, ha0, has⟩ _ h
    have hai := (chain_inv_new ha0).1
    subst has
    have hab : ba.snap = b := by simpa [execOps] using h
    subst hab
    have hrw : ba.snap.readWithDelta Tw.Snap.Delta.empty = .ok (ba.snap, []) := by
      unfold Tw.Snap.Snap.readWithDelta
      have hwf := hai.ok.raw_wf
      have hfind : ∀ p, p ∈ ba.snap.raw.items → mfind p.1 ba.snap.raw.items = some p.2 :=
        fun p hp => mfind_of_mem hwf.1 hp
      have href : RefDelta ba.snap.raw ba.snap.raw Tw.Snap.Delta.empty := by
        refine ⟨?_, sorted_nil, ?_, ?_⟩
        · symm
          simp only [Tw.Snap.Delta.empty, List.map_eq_nil_iff, List.filter_eq_nil_iff]
          intro p hp
          simp [hfind p hp]
        · intro p hp; simp [Tw.Snap.Delta.empty] at hp
        · intro p hp _; exact hfind p hp
      have hag : SizesAgree ba.snap.raw ba.snap.raw := by
        intro p hp
        rw [hfind p hp]
        simp [lenAgree]
      rw [applyDelta_of_refDelta hwf hwf hag href]
      simp only [buildFromRaw_of_extOk hai.ok, List.append_nil]
    simp [execOps, hrw, resName, Except.map]

/-- the builder keeps `Built` when the application's items are acceptable -/
theorem execBuild_keeps {size : TypeId → Nat → Nat} (e : EvB Tw.Snap.Snap (List Item)) (he : EvOk size e) :
    BuildKeeps execBuild (Built size) e := by
  cases e with
  | sendItems t items =>
    intro seed s ⟨b0, h0, hs0⟩ hb
    obtain ⟨r, hr, hrc⟩ := build_ok h0 hs0 he
    rw [hb] at hr
    injection hr with hr
    obtain ⟨c, hc, hcs⟩ := hrc s hr.symm
    exact ⟨c, chain_trans h0 hc, hcs⟩
  | other e =>
    cases e with
    | send t s => exact he.elim
    | deliver i => trivial
    | ack => trivial
    | deliverAck j => trivial
    | forgedAck v => trivial
    | clientReset => trivial

end Tw.SnapMgr
