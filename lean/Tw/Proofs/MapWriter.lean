import Tw.Model.MapWriter
import Tw.Proofs.Map
import Tw.Proofs.DatafileWriter

/-! Map writer side: what the reader's `from_raw` functions return on the words the map writer
emits, and the map-level round trip. -/
namespace Tw.Map
open Tw.Datafile Tw.Gen.MapItems

/-! ### `from_raw` on the words the map writer emits -/

macro "ifs_omega" : tactic =>
  `(tactic| repeat (first | rw [if_neg (by omega)] | rw [if_pos (by omega)]))

theorem getIndex_written (n a b : Nat) (e : String) (h : a + n < b) :
    getIndex (n : Int) a b e = .ok (n + a) := by
  unfold getIndex getIndexImpl
  rw [if_neg (by omega), if_pos (by omega)]
  simp

/-- an optional index after the reader's range check: relative → absolute -/
def absIdx (o : Option Nat) (a : Nat) : Option Nat := o.map (· + a)

theorem getIndexOpt_written (o : Option Nat) (a b : Nat) (e : String)
    (h : ∀ n, o = some n → a + n < b) : getIndexOpt (optIdx o) a b e = .ok (absIdx o a) := by
  cases o with
  | none => simp [getIndexOpt, optIdx, absIdx]
  | some n =>
    have := h n rfl
    unfold getIndexOpt getIndexImpl optIdx
    simp only
    rw [if_neg (by omega), if_neg (by omega), if_pos (by omega)]
    simp [absIdx]

theorem Group.fromRaw_written (g : WGroup) (k s la lb : Nat) (h : la + s + g.numLayers ≤ lb) :
    Group.fromRaw (groupItem k g s).data la lb
      = .ok { offsetX := g.offsetX, offsetY := g.offsetY, parallaxX := g.parallaxX, parallaxY := g.parallaxY,
              layersStart := la + s, layersEnd := la + s + g.numLayers, clipping := g.clipping,
              name := nameGet (nameW g.name) } := by
  obtain ⟨ox, oy, px, py, clip, name, n⟩ := g
  simp only at h
  cases clip with
  | none =>
    simp [groupItem, Group.fromRaw, mandatory, optional, fromSliceRest, MapItemGroupV1, MapItemGroupV2,
      MapItemGroupV3, w, nameW]
    ifs_omega
  | some c =>
    obtain ⟨x, y, ww, hh⟩ := c
    simp [groupItem, Group.fromRaw, mandatory, optional, fromSliceRest, MapItemGroupV1, MapItemGroupV2,
      MapItemGroupV3, w, nameW]
    ifs_omega

theorem Image.fromRaw_written (im : WImage) (k nd : Nat) (hn : im.name < nd)
    (hd : ∀ d, im.data = some d → d < nd) :
    Image.fromRaw (imageItem k im).data 0 nd
      = .ok { width := im.width, height := im.height, name := im.name, data := im.data } := by
  obtain ⟨wd, ht, name, data⟩ := im
  simp only at hn hd
  cases data with
  | none =>
    simp [imageItem, Image.fromRaw, mandatory, fromSliceRest, MapItemImageV1, w, imageData, optIdx]
    rw [getIndex_written name 0 nd _ (by omega)]
    simp
    ifs_omega
  | some d =>
    have := hd d rfl
    simp [imageItem, Image.fromRaw, mandatory, fromSliceRest, MapItemImageV1, w, imageData, optIdx]
    rw [getIndex_written d 0 nd _ (by omega), getIndex_written name 0 nd _ (by omega)]
    simp
    ifs_omega

theorem Info.fromRaw_written (i : WInfo) (nd : Nat)
    (h : ∀ o ∈ [i.author, i.version, i.credits, i.license, i.settings], ∀ n, o = some n → n < nd) :
    Info.fromRaw (infoItem i).data 0 nd
      = .ok { author := i.author, version := i.version, credits := i.credits, license := i.license,
              settings := i.settings } := by
  obtain ⟨a, v, c, l, s⟩ := i
  simp only [List.mem_cons, List.mem_nil_iff, or_false] at h
  have e : ∀ o : Option Nat, absIdx o 0 = o := by intro o; cases o <;> simp [absIdx]
  simp [infoItem, Info.fromRaw, mandatory, fromSliceRest, MapItemInfoV1, MapItemInfoV2, w, infoSettings]
  rw [getIndexOpt_written a 0 nd _ (fun n hn => by have := h a (Or.inl rfl) n hn; omega),
    getIndexOpt_written v 0 nd _ (fun n hn => by have := h v (Or.inr (Or.inl rfl)) n hn; omega),
    getIndexOpt_written c 0 nd _ (fun n hn => by have := h c (Or.inr (Or.inr (Or.inl rfl))) n hn; omega),
    getIndexOpt_written l 0 nd _ (fun n hn => by have := h l (Or.inr (Or.inr (Or.inr (Or.inl rfl)))) n hn; omega),
    getIndexOpt_written s 0 nd _ (fun n hn => by have := h s (Or.inr (Or.inr (Or.inr (Or.inr rfl)))) n hn; omega)]
  simp [e]


theorem Quads.fromRaw_written (q : WQuads) (nd ia ib : Nat) (hd : q.data < nd)
    (hi : ∀ n, q.image = some n → ia + n < ib) :
    Quads.fromRaw (layerRest (.quads q)) 0 nd ia ib
      = .ok { numQuads := q.numQuads, data := q.data, image := absIdx q.image ia,
              name := nameGet (nameW q.name) } := by
  obtain ⟨nq, data, image, name⟩ := q
  simp only at hd hi
  simp [layerRest, Quads.fromRaw, mandatory, optional, fromSliceRest, MapItemLayerV1QuadsV1,
    MapItemLayerV1QuadsV2, w, nameW]
  rw [getIndex_written data 0 nd _ (by omega), getIndexOpt_written image ia ib _ hi]
  simp
  ifs_omega

theorem Sounds.fromRaw_written (x : WSounds) (nd sa sb : Nat) (hd : x.data < nd)
    (hs : ∀ n, x.sound = some n → sa + n < sb) :
    Sounds.fromRaw (layerRest (.sounds x)) 0 nd sa sb false
      = .ok { numSources := x.numSources, data := x.data, sound := absIdx x.sound sa, legacy := false,
              name := nameGet (nameW x.name) } := by
  obtain ⟨ns, data, sound, name⟩ := x
  simp only at hd hs
  simp [layerRest, Sounds.fromRaw, mandatory, soundsV2Gate, fromSliceRest, MapItemLayerV1DdraceSoundsV1,
    MapItemLayerV1DdraceSoundsV2, w, nameW]
  rw [getIndex_written data 0 nd _ (by omega), getIndexOpt_written sound sa sb _ hs]
  simp
  ifs_omega

/-- the tile layer type the reader reports for a written kind -/
def WTileKind.read (k : WTileKind) (color : Nat × Nat × Nat × Nat) (env : Option (Nat × Int))
    (image : Option Nat) (data : Nat) : TilemapType :=
  match k with
  | .normal => .normal color env image data
  | .game => .game data
  | .teleport d => .teleport d data
  | .speedup d => .speedup d data
  | .front d => .front d data
  | .switch d => .switch d data
  | .tune d => .tune d data

def WTileKind.extraData : WTileKind → Option Nat
  | .teleport d | .speedup d | .front d | .switch d | .tune d => some d
  | _ => none

structure WTilemap.Ok (t : WTilemap) (nd ea eb ia ib : Nat) : Prop where
  width : 0 < t.width ∧ t.width ≤ 2147483647
  height : 0 < t.height ∧ t.height ≤ 2147483647
  color : t.color.1 ≤ 255 ∧ t.color.2.1 ≤ 255 ∧ t.color.2.2.1 ≤ 255 ∧ t.color.2.2.2 ≤ 255
  env : ∀ e o, t.colorEnv = some (e, o) → ea + e < eb
  image : ∀ n, t.image = some n → ia + n < ib
  data : t.data < nd
  extra : ∀ d, t.kind.extraData = some d → d < nd

theorem Tilemap.fromRaw_written (t : WTilemap) (nd ea eb ia ib : Nat) (ok : t.Ok nd ea eb ia ib) :
    Tilemap.fromRaw (layerRest (.tilemap t)) 0 nd ea eb ia ib
      = .ok { width := t.width, height := t.height,
              type := t.kind.read t.color (t.colorEnv.map fun p => (p.1 + ea, p.2)) (absIdx t.image ia) t.data,
              name := nameGet (nameW t.name) } := by
  obtain ⟨wd, ht, kind, ⟨cr, cg, cb, ca⟩, env, image, data, name⟩ := t
  obtain ⟨hw, hh, hc, he, hi, hd, hx⟩ := ok
  simp only at hw hh hc he hi hd hx
  have hu8 : ∀ n : Nat, n ≤ 255 → tryU8 (n : Int) = some n := by
    intro n hn; unfold tryU8; rw [if_pos (by omega)]; simp
  have himg := getIndexOpt_written image ia ib "InvalidImageIndex" hi
  have hdat := getIndex_written data 0 nd "InvalidDataIndex" (by omega)
  have hgx : ∀ (d : Nat) (e : String), d < nd → getIndex (d : Int) 0 nd e = .ok (d + 0) :=
    fun d e h => getIndex_written d 0 nd e (by omega)
  cases env with
  | none =>
    cases kind <;>
    (simp [layerRest, Tilemap.fromRaw, mandatory, optional, fromSliceRest, MapItemLayerV1CommonV0,
      MapItemLayerV1TilemapV2, MapItemLayerV1TilemapV3, w, nameW, tilemapColor, hu8, hc, tilemapColorEnv,
      himg, hdat, tilemapType, tilemapDims, asU32, WTileKind.flags, WTileKind.extra, WTileKind.read,
      TILELAYERFLAG_GAME, TILELAYERFLAG_TELEPORT, TILELAYERFLAG_SPEEDUP, TILELAYERFLAG_FRONT,
      TILELAYERFLAG_SWITCH, TILELAYERFLAG_TUNE, extraIndex, extraRace] <;>
     first
      | (ifs_omega; done)
      | (rw [hgx _ _ (hx _ rfl)]; simp; ifs_omega))
  | some p =>
    obtain ⟨e, o⟩ := p
    have henv := getIndex_written e ea eb "InvalidColorEnvelopeIndex" (he e o rfl)
    cases kind <;>
    (simp [layerRest, Tilemap.fromRaw, mandatory, optional, fromSliceRest, MapItemLayerV1CommonV0,
      MapItemLayerV1TilemapV2, MapItemLayerV1TilemapV3, w, nameW, tilemapColor, hu8, hc, tilemapColorEnv,
      himg, hdat, henv, tilemapType, tilemapDims, asU32, WTileKind.flags, WTileKind.extra, WTileKind.read,
      TILELAYERFLAG_GAME, TILELAYERFLAG_TELEPORT, TILELAYERFLAG_SPEEDUP, TILELAYERFLAG_FRONT,
      TILELAYERFLAG_SWITCH, TILELAYERFLAG_TUNE, extraIndex, extraRace] <;>
     first
      | (ifs_omega; done)
      | (rw [hgx _ _ (hx _ rfl)]; simp; ifs_omega)
      | (rw [if_neg (by omega)]; ifs_omega; done)
      | (rw [if_neg (by omega)]; rw [hgx _ _ (hx _ rfl)]; simp; ifs_omega))


/-- what the writer demands of a layer: every index inside its range -/
def WLayer.Ok (l : WLayer) (nd ea eb ia ib sa sb : Nat) : Prop :=
  match l.kind with
  | .tilemap t => t.Ok nd ea eb ia ib
  | .quads q => q.data < nd ∧ ∀ n, q.image = some n → ia + n < ib
  | .sounds s => s.data < nd ∧ ∀ n, s.sound = some n → sa + n < sb

/-- the layer the reader reports for a written layer -/
def WLayer.read (l : WLayer) (ea ia sa : Nat) : Layer :=
  { detail := l.detail
    t := match l.kind with
      | .tilemap t => .tilemap
          { width := t.width, height := t.height,
            type := t.kind.read t.color (t.colorEnv.map fun p => (p.1 + ea, p.2)) (absIdx t.image ia) t.data,
            name := nameGet (nameW t.name) }
      | .quads q => .quads { numQuads := q.numQuads, data := q.data, image := absIdx q.image ia,
                             name := nameGet (nameW q.name) }
      | .sounds s => .sounds { numSources := s.numSources, data := s.data, sound := absIdx s.sound sa,
                               legacy := false, name := nameGet (nameW s.name) } }

theorem Layer.fromRaw_written (l : WLayer) (k nd ea eb ia ib sa sb : Nat)
    (ok : l.Ok nd ea eb ia ib sa sb) :
    Layer.fromRaw (layerItem k l).data 0 nd ea eb ia ib sa sb = .ok (l.read ea ia sa) := by
  obtain ⟨detail, kind⟩ := l
  have hslice : ∀ (ty : Int) (df : Int) (rest : List Int),
      fromSliceRest MapItemLayerV1 ([0, ty, df] ++ rest) = .found [ty, df] rest := by
    intro ty df rest
    simp [fromSliceRest, MapItemLayerV1]
    ifs_omega
  unfold Layer.fromRaw layerItem
  simp only [hslice]
  have hfl : ∀ b : Bool, Nat.land (asU32 (w [layerType kind, if b = true then 1 else 0] 1)) (4294967295 - LAYERFLAGS_ALL) = 0
      ∧ decide (Nat.land (asU32 (w [layerType kind, if b = true then 1 else 0] 1)) LAYERFLAG_DETAIL ≠ 0) = b := by
    intro b; cases b <;> simp [w, asU32, LAYERFLAGS_ALL, LAYERFLAG_DETAIL] <;> decide
  rw [if_neg (by rw [(hfl detail).1]; simp), (hfl detail).2]
  unfold WLayer.Ok at ok
  cases kind with
  | tilemap t =>
    simp only at ok
    simp [layerDispatch, layerType, w, MAP_ITEMTYPE_LAYER_V1_TILEMAP, Tilemap.fromRaw_written t nd ea eb ia ib ok,
      wrapErr, WLayer.read]
  | quads q =>
    simp only at ok
    simp [layerDispatch, layerType, w, MAP_ITEMTYPE_LAYER_V1_TILEMAP, MAP_ITEMTYPE_LAYER_V1_QUADS,
      Quads.fromRaw_written q nd ia ib ok.1 ok.2, wrapErr, WLayer.read]
  | sounds x =>
    simp only at ok
    simp [layerDispatch, layerType, w, MAP_ITEMTYPE_LAYER_V1_TILEMAP, MAP_ITEMTYPE_LAYER_V1_QUADS,
      MAP_ITEMTYPE_LAYER_V1_DDRACE_SOUNDS, MAP_ITEMTYPE_LAYER_V1_DDRACE_SOUNDS_LEGACY,
      Sounds.fromRaw_written x nd sa sb ok.1 ok.2, wrapErr, WLayer.read]

end Tw.Map

namespace Tw.Datafile

/-! ### type ranges and item views of a written file -/

theorem groupTypes_typeId_mem : ∀ (items : List Item) (idx : Nat), ∀ g ∈ groupTypes items idx,
    ∃ it ∈ items, g.typeId = (it.typeId : Int) := by
  intro items
  induction items with
  | nil => intro idx g hg; simp [groupTypes] at hg
  | cons it rest ih =>
    intro idx g hg
    simp only [groupTypes] at hg
    cases hG : groupTypes rest (idx + 1) with
    | nil =>
      rw [hG] at hg
      simp only [List.mem_singleton] at hg
      subst hg; exact ⟨it, List.mem_cons_self .., rfl⟩
    | cons g0 gs =>
      rw [hG] at hg
      simp only at hg
      have hrest : ∀ g' ∈ g0 :: gs, ∃ it' ∈ it :: rest, g'.typeId = (it'.typeId : Int) := by
        intro g' hg'
        obtain ⟨it', h1, h2⟩ := ih (idx + 1) g' (by rw [hG]; exact hg')
        exact ⟨it', List.mem_cons_of_mem _ h1, h2⟩
      split at hg
      · cases hg with
        | head => exact hrest g0 (List.mem_cons_self ..)
        | tail _ hm => exact hrest g (List.mem_cons_of_mem _ hm)
      · cases hg with
        | head => exact ⟨it, List.mem_cons_self .., rfl⟩
        | tail _ hm => exact hrest g hm

theorem itemTypeIndicesIn_none : ∀ (ts : List ItemType) (t : Nat),
    (∀ g ∈ ts, (g.typeId % 65536).toNat ≠ t) → itemTypeIndicesIn ts t = .ok (0, 0) := by
  intro ts
  induction ts with
  | nil => intro t _; rfl
  | cons g ts ih =>
    intro t h
    unfold itemTypeIndicesIn
    rw [if_neg (h g (List.mem_cons_self ..))]
    exact ih t (fun g' hg' => h g' (List.mem_cons_of_mem _ hg'))

/-- the range `item_type_indices` returns: empty `(0, 0)` or `base .. base + n` -/
def rangeOf (base n : Nat) : Nat × Nat := if n = 0 then (0, 0) else (base, base + n)

theorem itemTypeIndices_written (items : List Item) (t : Nat)
    (hsort : items.Pairwise (fun a b => a.typeId ≤ b.typeId)) (h16 : ∀ it ∈ items, it.typeId < 65536) :
    itemTypeIndicesIn (groupTypes items 0) t = .ok (rangeOf (countLt items t) (countEq items t)) := by
  unfold rangeOf
  by_cases h0 : countEq items t = 0
  · rw [if_pos h0]
    apply itemTypeIndicesIn_none
    intro g hg hc
    obtain ⟨it, hit, hty⟩ := groupTypes_typeId_mem items 0 g hg
    have hb := h16 it hit
    have : it.typeId = t := by rw [hty] at hc; omega
    have hmem : it ∈ items.filter (fun it => it.typeId = t) := List.mem_filter.2 ⟨hit, by simpa using this⟩
    have : 0 < countEq items t := List.length_pos_of_mem hmem
    omega
  · rw [if_neg h0]
    have := itemTypeIndicesIn_groupTypes items 0 t hsort h16 (by omega)
    rw [this]; simp

theorem countLt_append (a b : List Item) (t : Nat) : countLt (a ++ b) t = countLt a t + countLt b t := by
  simp [countLt]

theorem countEq_append (a b : List Item) (t : Nat) : countEq (a ++ b) t = countEq a t + countEq b t := by
  simp [countEq]

theorem countLt_const {S : List Item} {T : Nat} (h : ∀ it ∈ S, it.typeId = T) (t : Nat) :
    countLt S t = if T < t then S.length else 0 := by
  unfold countLt
  split
  · rename_i hlt
    rw [List.filter_eq_self.2 (fun it hit => by rw [h it hit]; simpa using hlt)]
  · rename_i hlt
    rw [List.filter_eq_nil_iff.2 (fun it hit => by rw [h it hit]; simpa using hlt)]
    rfl

theorem countEq_const {S : List Item} {T : Nat} (h : ∀ it ∈ S, it.typeId = T) (t : Nat) :
    countEq S t = if T = t then S.length else 0 := by
  unfold countEq
  split
  · rename_i heq
    rw [List.filter_eq_self.2 (fun it hit => by rw [h it hit]; simpa using heq)]
  · rename_i heq
    rw [List.filter_eq_nil_iff.2 (fun it hit => by rw [h it hit]; simpa using heq)]
    rfl

/-- item `k` of the written reader is the `k`-th written item -/
theorem writtenReader_item_view (ver : Nat) (deflate : List UInt8 → List UInt8) (items : List Item)
    (datas : List (List UInt8)) (h16 : ∀ it ∈ items, it.typeId < 65536 ∧ it.id < 65536)
    {k : Nat} (hk : k < items.length) :
    ∃ v, (writtenReader ver deflate items datas).item k = .ok v ∧ v.typeId = items[k].typeId
      ∧ v.id = items[k].id ∧ v.data = items[k].data := by
  obtain ⟨_, _, hitem⟩ := writtenReader_item ver deflate items datas hk
  have hb := h16 items[k] (List.getElem_mem hk)
  have ht := itemHdrR_toNat hb.1 hb.2
  refine ⟨_, hitem, ?_, ?_, rfl⟩
  · simp only [ht]; omega
  · simp only [ht]; omega

end Tw.Datafile

namespace Tw.Map
open Tw.Datafile Tw.Gen.MapItems

/-! ### the item list of a written map -/

theorem enumFrom_length {α : Type} : ∀ (xs : List α) (k : Nat), (enumFrom k xs).length = xs.length
  | [], _ => rfl
  | x :: xs, k => by simp [enumFrom, enumFrom_length xs]

theorem enumFrom_getElem? {α : Type} : ∀ (xs : List α) (k i : Nat),
    (enumFrom k xs)[i]? = xs[i]?.map (fun x => (k + i, x))
  | [], _, _ => by simp [enumFrom]
  | x :: xs, k, 0 => by simp [enumFrom]
  | x :: xs, k, i + 1 => by
    simp only [enumFrom, List.getElem?_cons_succ, enumFrom_getElem? xs (k + 1) i]
    cases xs[i]? <;> simp <;> omega

theorem enumFrom_mem {α : Type} : ∀ (xs : List α) (k : Nat) (p : Nat × α), p ∈ enumFrom k xs →
    k ≤ p.1 ∧ p.1 < k + xs.length ∧ p.2 ∈ xs
  | [], _, _, h => by simp [enumFrom] at h
  | x :: xs, k, p, h => by
    simp only [enumFrom, List.mem_cons] at h
    rcases h with rfl | h
    · simp
    · have := enumFrom_mem xs (k + 1) p h
      exact ⟨by omega, by simp only [List.length_cons]; omega, List.mem_cons_of_mem _ this.2.2⟩

def imageSeg (m : WMap) : List Item := (enumFrom 0 m.images).map (fun p => imageItem p.1 p.2)
def envSeg (m : WMap) : List Item := (List.range m.numEnvelopes).map envelopeItem
def groupSeg (m : WMap) : List Item :=
  (enumFrom 0 (m.groups.zip (groupStarts 0 m.groups))).map (fun p => groupItem p.1 p.2.1 p.2.2)
def layerSeg (m : WMap) : List Item := (enumFrom 0 m.layers).map (fun p => layerItem p.1 p.2)
def soundSeg (m : WMap) : List Item := (List.range m.numSounds).map soundItem

theorem mapItems_eq (m : WMap) :
    mapItems m = [versionItem, infoItem m.info] ++ imageSeg m ++ envSeg m ++ groupSeg m ++ layerSeg m
      ++ soundSeg m := rfl

theorem groupStarts_length : ∀ (gs : List WGroup) (s : Nat), (groupStarts s gs).length = gs.length
  | [], _ => rfl
  | g :: gs, s => by simp [groupStarts, groupStarts_length gs]

theorem imageSeg_length (m : WMap) : (imageSeg m).length = m.images.length := by
  simp [imageSeg, enumFrom_length]
theorem envSeg_length (m : WMap) : (envSeg m).length = m.numEnvelopes := by simp [envSeg]
theorem groupSeg_length (m : WMap) : (groupSeg m).length = m.groups.length := by
  simp [groupSeg, enumFrom_length, groupStarts_length]
theorem layerSeg_length (m : WMap) : (layerSeg m).length = m.layers.length := by
  simp [layerSeg, enumFrom_length]
theorem soundSeg_length (m : WMap) : (soundSeg m).length = m.numSounds := by simp [soundSeg]

theorem imageSeg_type (m : WMap) : ∀ it ∈ imageSeg m, it.typeId = MAP_ITEMTYPE_IMAGE := by
  intro it h; simp only [imageSeg, List.mem_map] at h; obtain ⟨p, _, rfl⟩ := h; rfl
theorem envSeg_type (m : WMap) : ∀ it ∈ envSeg m, it.typeId = MAP_ITEMTYPE_ENVELOPE := by
  intro it h; simp only [envSeg, List.mem_map] at h; obtain ⟨p, _, rfl⟩ := h; rfl
theorem groupSeg_type (m : WMap) : ∀ it ∈ groupSeg m, it.typeId = MAP_ITEMTYPE_GROUP := by
  intro it h; simp only [groupSeg, List.mem_map] at h; obtain ⟨p, _, rfl⟩ := h; rfl
theorem layerSeg_type (m : WMap) : ∀ it ∈ layerSeg m, it.typeId = MAP_ITEMTYPE_LAYER := by
  intro it h; simp only [layerSeg, List.mem_map] at h; obtain ⟨p, _, rfl⟩ := h; rfl
theorem soundSeg_type (m : WMap) : ∀ it ∈ soundSeg m, it.typeId = MAP_ITEMTYPE_DDRACE_SOUND := by
  intro it h; simp only [soundSeg, List.mem_map] at h; obtain ⟨p, _, rfl⟩ := h; rfl

theorem headSeg_type0 : ∀ it ∈ [versionItem], it.typeId = 0 := by
  intro it h; simp at h; subst h; rfl
theorem headSeg_type1 (i : WInfo) : ∀ it ∈ [infoItem i], it.typeId = 1 := by
  intro it h; simp at h; subst h; rfl

/-- `countLt` / `countEq` of the written map's items for any type id -/
theorem mapItems_counts (m : WMap) (t : Nat) :
    countLt (mapItems m) t
      = (if 0 < t then 1 else 0) + (if 1 < t then 1 else 0) + (if 2 < t then m.images.length else 0)
        + (if 3 < t then m.numEnvelopes else 0) + (if 4 < t then m.groups.length else 0)
        + (if 5 < t then m.layers.length else 0) + (if 7 < t then m.numSounds else 0)
    ∧ countEq (mapItems m) t
      = (if 0 = t then 1 else 0) + (if 1 = t then 1 else 0) + (if 2 = t then m.images.length else 0)
        + (if 3 = t then m.numEnvelopes else 0) + (if 4 = t then m.groups.length else 0)
        + (if 5 = t then m.layers.length else 0) + (if 7 = t then m.numSounds else 0) := by
  have e : mapItems m = [versionItem] ++ [infoItem m.info] ++ imageSeg m ++ envSeg m ++ groupSeg m
      ++ layerSeg m ++ soundSeg m := rfl
  rw [e]
  simp only [countLt_append, countEq_append, countLt_const headSeg_type0, countLt_const (headSeg_type1 m.info),
    countLt_const (imageSeg_type m), countLt_const (envSeg_type m), countLt_const (groupSeg_type m),
    countLt_const (layerSeg_type m), countLt_const (soundSeg_type m),
    countEq_const headSeg_type0, countEq_const (headSeg_type1 m.info),
    countEq_const (imageSeg_type m), countEq_const (envSeg_type m), countEq_const (groupSeg_type m),
    countEq_const (layerSeg_type m), countEq_const (soundSeg_type m),
    imageSeg_length, envSeg_length, groupSeg_length, layerSeg_length, soundSeg_length,
    MAP_ITEMTYPE_IMAGE, MAP_ITEMTYPE_ENVELOPE, MAP_ITEMTYPE_GROUP, MAP_ITEMTYPE_LAYER,
    MAP_ITEMTYPE_DDRACE_SOUND, List.length_cons, List.length_nil]
  exact ⟨trivial, trivial⟩


def eBase (m : WMap) : Nat := 2 + m.images.length
def gBase (m : WMap) : Nat := 2 + m.images.length + m.numEnvelopes
def lBase (m : WMap) : Nat := 2 + m.images.length + m.numEnvelopes + m.groups.length
def sBase (m : WMap) : Nat := 2 + m.images.length + m.numEnvelopes + m.groups.length + m.layers.length

theorem mapItems_length (m : WMap) :
    (mapItems m).length = 2 + m.images.length + m.numEnvelopes + m.groups.length + m.layers.length
      + m.numSounds := by
  rw [mapItems_eq]
  simp only [List.length_append, imageSeg_length, envSeg_length, groupSeg_length, layerSeg_length,
    soundSeg_length, List.length_cons, List.length_nil]

theorem getElem?_append_at {α : Type} (a b : List α) (n i : Nat) (h : a.length = n) :
    (a ++ b)[n + i]? = b[i]? := by
  subst h
  rw [List.getElem?_append_right (by omega)]
  congr 1; omega

theorem mapItems_head (m : WMap) :
    (mapItems m)[0]? = some versionItem ∧ (mapItems m)[1]? = some (infoItem m.info) := by
  rw [mapItems_eq]; simp

theorem mapItems_image (m : WMap) {i : Nat} (hi : i < m.images.length) :
    (mapItems m)[2 + i]? = some (imageItem i m.images[i]) := by
  rw [mapItems_eq]
  have hl : 2 + i < ([versionItem, infoItem m.info] ++ imageSeg m).length := by
    simp [imageSeg_length]; omega
  rw [List.getElem?_append_left (by simp only [List.length_append, envSeg_length, groupSeg_length, layerSeg_length] at *; omega),
    List.getElem?_append_left (by simp only [List.length_append, envSeg_length, groupSeg_length] at *; omega),
    List.getElem?_append_left (by simp only [List.length_append, envSeg_length] at *; omega),
    List.getElem?_append_left hl, getElem?_append_at _ _ 2 i rfl]
  simp [imageSeg, enumFrom_getElem?, List.getElem?_eq_getElem hi]

theorem mapItems_layer (m : WMap) {i : Nat} (hi : i < m.layers.length) :
    (mapItems m)[lBase m + i]? = some (layerItem i m.layers[i]) := by
  rw [mapItems_eq]
  have hlen : ([versionItem, infoItem m.info] ++ imageSeg m ++ envSeg m ++ groupSeg m).length = lBase m := by
    simp [imageSeg_length, envSeg_length, groupSeg_length, lBase]; omega
  rw [List.getElem?_append_left (by simp only [List.length_append, hlen, layerSeg_length]; omega),
    getElem?_append_at _ _ (lBase m) i hlen]
  simp [layerSeg, enumFrom_getElem?, List.getElem?_eq_getElem hi]

/-- start layer of group `i`: the layers of the groups before it -/
def startOf (gs : List WGroup) (i : Nat) : Nat := ((gs.take i).map (·.numLayers)).sum

theorem groupStarts_getElem? : ∀ (gs : List WGroup) (s i : Nat), i < gs.length →
    (groupStarts s gs)[i]? = some (s + startOf gs i)
  | [], _, _, h => by simp at h
  | g :: gs, s, 0, _ => by simp [groupStarts, startOf]
  | g :: gs, s, i + 1, h => by
    simp only [groupStarts, List.getElem?_cons_succ]
    rw [groupStarts_getElem? gs (s + g.numLayers) i (by simpa using h)]
    simp [startOf]; omega

theorem mapItems_group (m : WMap) {i : Nat} (hi : i < m.groups.length) :
    (mapItems m)[gBase m + i]? = some (groupItem i m.groups[i] (startOf m.groups i)) := by
  rw [mapItems_eq]
  have hlen : ([versionItem, infoItem m.info] ++ imageSeg m ++ envSeg m).length = gBase m := by
    simp [imageSeg_length, envSeg_length, gBase]; omega
  rw [List.getElem?_append_left (by simp only [List.length_append, hlen, groupSeg_length, layerSeg_length]; omega),
    List.getElem?_append_left (by simp only [List.length_append, hlen, groupSeg_length]; omega),
    getElem?_append_at _ _ (gBase m) i hlen]
  simp only [groupSeg, List.getElem?_map, enumFrom_getElem?]
  have := groupStarts_getElem? m.groups 0 i hi
  simp [List.getElem?_eq_getElem hi, this, List.zip_eq_zipWith, List.getElem?_zipWith]


/-! ### the written map satisfies the datafile writer's preconditions -/

theorem pairwise_append_const {A B : List Item} {T T' : Nat}
    (hA : A.Pairwise (fun a b => a.typeId ≤ b.typeId)) (hmax : ∀ x ∈ A, x.typeId ≤ T)
    (hB : ∀ y ∈ B, y.typeId = T') (hle : T ≤ T') :
    (A ++ B).Pairwise (fun a b => a.typeId ≤ b.typeId) ∧ ∀ x ∈ A ++ B, x.typeId ≤ T' := by
  constructor
  · rw [List.pairwise_append]
    refine ⟨hA, ?_, ?_⟩
    · exact List.pairwise_of_forall_mem_list (fun a ha b hb => by rw [hB a ha, hB b hb]; exact Nat.le_refl _)
    · intro x hx y hy; rw [hB y hy]; exact Nat.le_trans (hmax x hx) hle
  · intro x hx
    rcases List.mem_append.1 hx with h | h
    · exact Nat.le_trans (hmax x h) hle
    · rw [hB x h]; exact Nat.le_refl _

theorem mapItems_sorted (m : WMap) : (mapItems m).Pairwise (fun a b => a.typeId ≤ b.typeId) := by
  have e : mapItems m = [versionItem] ++ [infoItem m.info] ++ imageSeg m ++ envSeg m ++ groupSeg m
      ++ layerSeg m ++ soundSeg m := rfl
  rw [e]
  have h0 : ([versionItem] : List Item).Pairwise (fun a b => a.typeId ≤ b.typeId) := by simp
  have m0 : ∀ x ∈ [versionItem], x.typeId ≤ 0 := fun x hx => by rw [headSeg_type0 x hx]; exact Nat.le_refl _
  obtain ⟨h1, m1⟩ := pairwise_append_const h0 m0 (headSeg_type1 m.info) (by decide : 0 ≤ 1)
  obtain ⟨h2, m2⟩ := pairwise_append_const h1 m1 (imageSeg_type m) (by decide : 1 ≤ MAP_ITEMTYPE_IMAGE)
  obtain ⟨h3, m3⟩ := pairwise_append_const h2 m2 (envSeg_type m) (by decide : MAP_ITEMTYPE_IMAGE ≤ MAP_ITEMTYPE_ENVELOPE)
  obtain ⟨h4, m4⟩ := pairwise_append_const h3 m3 (groupSeg_type m) (by decide : MAP_ITEMTYPE_ENVELOPE ≤ MAP_ITEMTYPE_GROUP)
  obtain ⟨h5, m5⟩ := pairwise_append_const h4 m4 (layerSeg_type m) (by decide : MAP_ITEMTYPE_GROUP ≤ MAP_ITEMTYPE_LAYER)
  exact (pairwise_append_const h5 m5 (soundSeg_type m) (by decide : MAP_ITEMTYPE_LAYER ≤ MAP_ITEMTYPE_DDRACE_SOUND)).1

theorem mapItems_ids (m : WMap)
    (hc : m.images.length ≤ 65536 ∧ m.numEnvelopes ≤ 65536 ∧ m.groups.length ≤ 65536
      ∧ m.layers.length ≤ 65536 ∧ m.numSounds ≤ 65536) :
    ∀ it ∈ mapItems m, it.typeId < 65536 ∧ it.id < 65536 := by
  intro it hit
  rw [mapItems_eq] at hit
  simp only [List.mem_append, List.mem_cons, List.mem_nil_iff, or_false] at hit
  rcases hit with ((((h | h) | h) | h) | h) | h
  · rcases h with rfl | rfl <;> exact ⟨by show (_ : Nat) < 65536; simp [versionItem, infoItem, MAP_ITEMTYPE_VERSION, MAP_ITEMTYPE_INFO], by show (0 : Nat) < 65536; omega⟩
  · simp only [imageSeg, List.mem_map] at h
    obtain ⟨p, hp, rfl⟩ := h
    have := enumFrom_mem _ _ _ hp
    exact ⟨by simp [imageItem, MAP_ITEMTYPE_IMAGE], by simp only [imageItem]; omega⟩
  · simp only [envSeg, List.mem_map, List.mem_range] at h
    obtain ⟨k, hk, rfl⟩ := h
    exact ⟨by simp [envelopeItem, MAP_ITEMTYPE_ENVELOPE], by simp only [envelopeItem]; omega⟩
  · simp only [groupSeg, List.mem_map] at h
    obtain ⟨p, hp, rfl⟩ := h
    have := enumFrom_mem _ _ _ hp
    simp only [List.length_zip, groupStarts_length, Nat.min_self] at this
    exact ⟨by simp [groupItem, MAP_ITEMTYPE_GROUP], by simp only [groupItem]; omega⟩
  · simp only [layerSeg, List.mem_map] at h
    obtain ⟨p, hp, rfl⟩ := h
    have := enumFrom_mem _ _ _ hp
    exact ⟨by simp [layerItem, MAP_ITEMTYPE_LAYER], by simp only [layerItem]; omega⟩
  · simp only [soundSeg, List.mem_map, List.mem_range] at h
    obtain ⟨k, hk, rfl⟩ := h
    exact ⟨by simp [soundItem, MAP_ITEMTYPE_DDRACE_SOUND], by simp only [soundItem]; omega⟩

end Tw.Map

namespace Tw.Map
open Tw.Datafile Tw.Gen.MapItems

/-! ### the map round trip -/

def imgRange (m : WMap) : Nat × Nat := rangeOf 2 m.images.length
def envRange (m : WMap) : Nat × Nat := rangeOf (eBase m) m.numEnvelopes
def grpRange (m : WMap) : Nat × Nat := rangeOf (gBase m) m.groups.length
def layRange (m : WMap) : Nat × Nat := rangeOf (lBase m) m.layers.length
def sndRange (m : WMap) : Nat × Nat := rangeOf (sBase m) m.numSounds

/-- well-formed map for the writer -/
structure WMap.Ok (deflate : List UInt8 → List UInt8) (m : WMap) : Prop where
  counts : m.images.length ≤ 65536 ∧ m.numEnvelopes ≤ 65536 ∧ m.groups.length ≤ 65536
    ∧ m.layers.length ≤ 65536 ∧ m.numSounds ≤ 65536
  info : ∀ o ∈ [m.info.author, m.info.version, m.info.credits, m.info.license, m.info.settings],
    ∀ n, o = some n → n < m.datas.length
  images : ∀ im ∈ m.images, im.name < m.datas.length ∧ ∀ d, im.data = some d → d < m.datas.length
  groupLayers : ∀ i (h : i < m.groups.length), startOf m.groups i + m.groups[i].numLayers ≤ m.layers.length
  layers : ∀ l ∈ m.layers, l.Ok m.datas.length (envRange m).1 (envRange m).2 (imgRange m).1 (imgRange m).2
    (sndRange m).1 (sndRange m).2
  words : ∀ it ∈ mapItems m, ∀ w ∈ it.data, InI32 w
  total : (sizesOf 4 deflate (mapItems m) m.datas).total 4 ≤ 2147483647
  dataLen : ∀ d ∈ m.datas, d.length ≤ 2147483647

theorem WMap.Ok.writable {deflate : List UInt8 → List UInt8} {m : WMap} (ok : m.Ok deflate) :
    Writable 4 deflate (mapItems m) m.datas :=
  { version := Or.inr rfl, ids := mapItems_ids m ok.counts, words := ok.words, sorted := mapItems_sorted m,
    total := ok.total, dataLen := ok.dataLen }

/-- the reader the written map parses to -/
def mapReader (deflate : List UInt8 → List UInt8) (m : WMap) : Reader :=
  writtenReader 4 deflate (mapItems m) m.datas

theorem typeRange_mapReader (deflate : List UInt8 → List UInt8) (m : WMap) (ok : m.Ok deflate) (t : Nat) :
    typeRange (mapReader deflate m) t
      = .ok (rangeOf (countLt (mapItems m) t) (countEq (mapItems m) t)) := by
  unfold typeRange mapReader Reader.itemTypeIndices
  show liftDf (itemTypeIndicesIn (groupTypes (mapItems m) 0) t) = _
  rw [itemTypeIndices_written _ t (mapItems_sorted m) (fun it h => (mapItems_ids m ok.counts it h).1)]
  rfl

theorem ranges_mapReader (deflate : List UInt8 → List UInt8) (m : WMap) (ok : m.Ok deflate) :
    typeRange (mapReader deflate m) MAP_ITEMTYPE_IMAGE = .ok (imgRange m)
      ∧ typeRange (mapReader deflate m) MAP_ITEMTYPE_ENVELOPE = .ok (envRange m)
      ∧ typeRange (mapReader deflate m) MAP_ITEMTYPE_GROUP = .ok (grpRange m)
      ∧ typeRange (mapReader deflate m) MAP_ITEMTYPE_LAYER = .ok (layRange m)
      ∧ typeRange (mapReader deflate m) MAP_ITEMTYPE_DDRACE_SOUND = .ok (sndRange m) := by
  refine ⟨?_, ?_, ?_, ?_, ?_⟩ <;>
  · rw [typeRange_mapReader deflate m ok, (mapItems_counts m _).1, (mapItems_counts m _).2]
    simp [imgRange, envRange, grpRange, layRange, sndRange, eBase, gBase, lBase, sBase, MAP_ITEMTYPE_IMAGE,
      MAP_ITEMTYPE_ENVELOPE, MAP_ITEMTYPE_GROUP, MAP_ITEMTYPE_LAYER, MAP_ITEMTYPE_DDRACE_SOUND]
    try (congr 1 <;> omega)


theorem item_mapReader (deflate : List UInt8 → List UInt8) (m : WMap) (ok : m.Ok deflate)
    {k : Nat} {it : Item} (h : (mapItems m)[k]? = some it) :
    ∃ v, (mapReader deflate m).item k = .ok v ∧ v.typeId = it.typeId ∧ v.id = it.id ∧ v.data = it.data := by
  obtain ⟨hk, he⟩ := List.getElem?_eq_some_iff.1 h
  obtain ⟨v, h1, h2, h3, h4⟩ := writtenReader_item_view 4 deflate (mapItems m) m.datas (mapItems_ids m ok.counts) hk
  rw [he] at h2 h3 h4
  exact ⟨v, h1, h2, h3, h4⟩

theorem numData_mapReader (deflate : List UInt8 → List UInt8) (m : WMap) :
    numData (mapReader deflate m) = .ok m.datas.length := by
  unfold numData Reader.numDataU mapReader writtenReader
  simp only
  rw [if_neg (by omega)]
  simp [liftDf]

theorem group_mapReader (deflate : List UInt8 → List UInt8) (m : WMap) (ok : m.Ok deflate)
    {i : Nat} (hi : i < m.groups.length) :
    group (mapReader deflate m) (gBase m + i)
      = .ok { offsetX := m.groups[i].offsetX, offsetY := m.groups[i].offsetY,
              parallaxX := m.groups[i].parallaxX, parallaxY := m.groups[i].parallaxY,
              layersStart := (layRange m).1 + startOf m.groups i,
              layersEnd := (layRange m).1 + startOf m.groups i + m.groups[i].numLayers,
              clipping := m.groups[i].clipping, name := nameGet (nameW m.groups[i].name) } := by
  obtain ⟨v, hv, ht, _, hd⟩ := item_mapReader deflate m ok (mapItems_group m hi)
  obtain ⟨_, _, _, hl, _⟩ := ranges_mapReader deflate m ok
  have hgl := ok.groupLayers i hi
  have hle : (layRange m).1 + startOf m.groups i + m.groups[i].numLayers ≤ (layRange m).2 := by
    unfold layRange rangeOf
    split
    · rename_i h0; simp only; omega
    · simp only; omega
  unfold group
  rw [hv]
  simp only [liftDf]
  rw [if_neg (by rw [ht]; simp [groupItem]), hl]
  simp only
  rw [hd, Group.fromRaw_written _ _ _ _ _ hle]

theorem layer_mapReader (deflate : List UInt8 → List UInt8) (m : WMap) (ok : m.Ok deflate)
    {i : Nat} (hi : i < m.layers.length) :
    layer (mapReader deflate m) (lBase m + i)
      = .ok (m.layers[i].read (envRange m).1 (imgRange m).1 (sndRange m).1) := by
  obtain ⟨v, hv, ht, _, hd⟩ := item_mapReader deflate m ok (mapItems_layer m hi)
  obtain ⟨hi', he, _, _, hs⟩ := ranges_mapReader deflate m ok
  unfold layer
  rw [hv]
  simp only [liftDf]
  rw [if_neg (by rw [ht]; simp [layerItem]), numData_mapReader, he, hi', hs]
  simp only
  rw [hd, Layer.fromRaw_written _ _ _ _ _ _ _ _ _ (ok.layers _ (List.getElem_mem hi))]

theorem image_mapReader (deflate : List UInt8 → List UInt8) (m : WMap) (ok : m.Ok deflate)
    {i : Nat} (hi : i < m.images.length) :
    image (mapReader deflate m) (2 + i)
      = .ok { width := m.images[i].width, height := m.images[i].height, name := m.images[i].name,
              data := m.images[i].data } := by
  obtain ⟨v, hv, _, _, hd⟩ := item_mapReader deflate m ok (mapItems_image m hi)
  have hok := ok.images _ (List.getElem_mem hi)
  unfold image
  rw [hv]
  simp only [liftDf]
  rw [numData_mapReader]
  simp only
  rw [hd, Image.fromRaw_written _ _ _ hok.1 hok.2]


theorem findItem_mapReader (deflate : List UInt8 → List UInt8) (m : WMap) (ok : m.Ok deflate)
    {t k : Nat} {it : Item} (hr : typeRange (mapReader deflate m) t = .ok (k, k + 1))
    (h : (mapItems m)[k]? = some it) (hid : it.id = 0) :
    ∃ v, (mapReader deflate m).findItem t 0 = .ok (some v) ∧ v.data = it.data := by
  obtain ⟨v, hv, _, hvid, hd⟩ := item_mapReader deflate m ok h
  have hr' := typeRange_inv hr
  unfold Reader.findItem
  rw [hr']
  simp only
  have : k + 1 - k = 1 := by omega
  rw [this]
  unfold findItemFrom
  rw [hv]
  simp only
  rw [if_pos (by rw [hvid, hid])]
  exact ⟨v, rfl, hd⟩

theorem version_mapReader (deflate : List UInt8 → List UInt8) (m : WMap) (ok : m.Ok deflate) :
    version (mapReader deflate m) = .ok 1 := by
  have hr : typeRange (mapReader deflate m) MAP_ITEMTYPE_VERSION = .ok (0, 0 + 1) := by
    rw [typeRange_mapReader deflate m ok, (mapItems_counts m _).1, (mapItems_counts m _).2]
    simp [MAP_ITEMTYPE_VERSION, rangeOf]
  obtain ⟨v, hf, hd⟩ := findItem_mapReader deflate m ok hr (mapItems_head m).1 rfl
  unfold version
  rw [hf]
  simp only [liftDf]
  rw [hd]
  simp [versionItem, fromSliceRest, MapItemCommonV0, w]

theorem info_mapReader (deflate : List UInt8 → List UInt8) (m : WMap) (ok : m.Ok deflate) :
    info (mapReader deflate m)
      = .ok { author := m.info.author, version := m.info.version, credits := m.info.credits,
              license := m.info.license, settings := m.info.settings } := by
  have hr : typeRange (mapReader deflate m) MAP_ITEMTYPE_INFO = .ok (1, 1 + 1) := by
    rw [typeRange_mapReader deflate m ok, (mapItems_counts m _).1, (mapItems_counts m _).2]
    simp [MAP_ITEMTYPE_INFO, rangeOf]
  obtain ⟨v, hf, hd⟩ := findItem_mapReader deflate m ok hr (mapItems_head m).2 rfl
  unfold info
  rw [hf]
  simp only [liftDf]
  rw [numData_mapReader]
  simp only
  rw [hd, Info.fromRaw_written _ _ ok.info]
  rfl

/-- `string(d)` on a block `s ++ [0]` without inner NUL -/
theorem string_of_data {r : Reader} {z : Zlib} {d : Nat} {s : List UInt8}
    (h : Tw.Map.readData r z d = .ok (s ++ [0])) (hs : ∀ b ∈ s, b ≠ 0) : Tw.Map.string r z d = .ok s := by
  unfold Tw.Map.string
  rw [h]
  simp only [List.getLast?_append, List.getLast?_singleton, Option.some_or]
  have : (s ++ [0]).take ((s ++ [0]).length - 1) = s := by simp
  simp only [this]
  rw [if_neg]
  simp only [List.any_eq_true, not_exists, not_and]
  intro b hb; have := hs b hb; simpa using this

/-- `settings(d)` returns the block; iterating it yields exactly the NUL-terminated entries -/
theorem settingsAll_join : ∀ (ss : List (List UInt8)), (∀ s ∈ ss, ∀ b ∈ s, b ≠ 0) →
    ∀ (pre : List UInt8) (fuel : Nat), ss.length + 1 ≤ fuel →
      settingsAll (pre ++ (ss.map (· ++ [0])).flatten) fuel pre.length = some (.ok ss) := by
  intro ss
  induction ss with
  | nil =>
    intro _ pre fuel hf
    cases fuel with
    | zero => omega
    | succ fuel =>
      simp [settingsAll, settingsNext]
  | cons s ss ih =>
    intro hz pre fuel hf
    cases fuel with
    | zero => simp at hf
    | succ fuel =>
      have hs := hz s (List.mem_cons_self ..)
      have hidx : ((s ++ [0]) ++ (ss.map (· ++ [0])).flatten).idxOf? 0 = some s.length := by
        rw [List.idxOf?_eq_some_iff]
        refine ⟨by simp, by simp, ?_⟩
        intro j hj
        have : j < s.length := hj
        simp only [List.append_assoc, List.getElem_append_left this]
        exact hs _ (List.getElem_mem this)
      simp only [settingsAll, settingsNext, List.map_cons, List.flatten_cons, List.drop_left' rfl]
      rw [if_neg (by simp)]
      rw [hidx]
      simp only
      have hpre : pre ++ ((s ++ [0]) ++ (ss.map (· ++ [0])).flatten)
          = (pre ++ (s ++ [0])) ++ (ss.map (· ++ [0])).flatten := by simp
      have hlen : pre.length + s.length + 1 = (pre ++ (s ++ [0])).length := by simp; omega
      rw [hpre, hlen, ih (fun s' h' => hz s' (List.mem_cons_of_mem _ h')) _ fuel (by simp at hf ⊢; omega)]
      simp


/-- **Map round trip.**  The file written from a well-formed map is accepted and the map reader
returns the map: version, info, every image, every group (with its layer range), every layer of
every kind, and every data block. -/
theorem map_roundtrip_reader (deflate : List UInt8 → List UInt8)
    (inflate : Nat → List UInt8 → Option (List UInt8)) (m : WMap) (ok : m.Ok deflate)
    (hz : ∀ x ∈ m.datas, inflate x.length (deflate x) = some x) :
    ∃ r, Reader.new (writeMap deflate m) = .ok r
      ∧ version r = .ok 1 ∧ checkVersion r = .ok ()
      ∧ info r = .ok { author := m.info.author, version := m.info.version, credits := m.info.credits,
                       license := m.info.license, settings := m.info.settings }
      ∧ typeRange r MAP_ITEMTYPE_GROUP = .ok (grpRange m)
      ∧ typeRange r MAP_ITEMTYPE_IMAGE = .ok (imgRange m)
      ∧ (∀ i (hi : i < m.images.length), image r (2 + i)
            = .ok { width := m.images[i].width, height := m.images[i].height, name := m.images[i].name,
                    data := m.images[i].data })
      ∧ (∀ i (hi : i < m.groups.length), group r (gBase m + i)
            = .ok { offsetX := m.groups[i].offsetX, offsetY := m.groups[i].offsetY,
                    parallaxX := m.groups[i].parallaxX, parallaxY := m.groups[i].parallaxY,
                    layersStart := (layRange m).1 + startOf m.groups i,
                    layersEnd := (layRange m).1 + startOf m.groups i + m.groups[i].numLayers,
                    clipping := m.groups[i].clipping, name := nameGet (nameW m.groups[i].name) })
      ∧ (∀ i (hi : i < m.layers.length), layer r (lBase m + i)
            = .ok (m.layers[i].read (envRange m).1 (imgRange m).1 (sndRange m).1))
      ∧ (∀ d (hd : d < m.datas.length), Tw.Map.readData r inflate d = .ok m.datas[d]) := by
  have hnew := new_writeDf 4 deflate (mapItems m) m.datas ok.writable
  obtain ⟨r', hr', _, _, _, hdata⟩ := roundtrip_writtenReader 4 deflate inflate (mapItems m) m.datas ok.writable hz
  have hrr : r' = mapReader deflate m := by
    unfold mapReader; rw [hnew] at hr'; cases hr'; rfl
  subst hrr
  obtain ⟨hi', _, hg, _, _⟩ := ranges_mapReader deflate m ok
  refine ⟨mapReader deflate m, hnew, version_mapReader deflate m ok, ?_, info_mapReader deflate m ok, hg, hi',
    fun i hi => image_mapReader deflate m ok hi, fun i hi => group_mapReader deflate m ok hi,
    fun i hi => layer_mapReader deflate m ok hi, ?_⟩
  · unfold checkVersion; rw [version_mapReader deflate m ok]; rfl
  · intro d hd
    unfold Tw.Map.readData
    rw [hdata d hd]; rfl

end Tw.Map
