import Tw.Model.MapWriter
import Tw.Proofs.Map
import Tw.Proofs.DatafileWriter

/-! Map writer side: what the reader's `from_raw` functions return on the words the map writer
emits, and the map-level round trip. -/
namespace Tw.Map
open Tw.Datafile Tw.Gen.MapItems

/-! ### `from_raw` on the words the map writer emits -/

macro "ifs_omega" : tactic =>
  `(tactic| repeat (first | rw [if_neg (by omega)] | rw [if_pos (by omega)]))

theorem getIndex_written (n a b : Nat) (e : String) (h : a + n < b) :
    getIndex (n : Int) a b e = .ok (n + a) := by
  unfold getIndex getIndexImpl
  rw [if_neg (by omega), if_pos (by omega)]
  simp

/-- an optional index after the reader's range check: relative → absolute -/
def absIdx (o : Option Nat) (a : Nat) : Option Nat := o.map (· + a)

theorem getIndexOpt_written (o : Option Nat) (a b : Nat) (e : String)
    (h : ∀ n, o = some n → a + n < b) : getIndexOpt (optIdx o) a b e = .ok (absIdx o a) := by
  cases o with
  | none => simp [getIndexOpt, optIdx, absIdx]
  | some n =>
    have := h n rfl
    unfold getIndexOpt getIndexImpl optIdx
    simp only
    rw [if_neg (by omega), if_neg (by omega), if_pos (by omega)]
    simp [absIdx]

theorem Group.fromRaw_written (g : WGroup) (k s la lb : Nat) (h : la + s + g.numLayers ≤ lb) :
    Group.fromRaw (groupItem k g s).data la lb
      = .ok { offsetX := g.offsetX, offsetY := g.offsetY, parallaxX := g.parallaxX, parallaxY := g.parallaxY,
              layersStart := la + s, layersEnd := la + s + g.numLayers, clipping := g.clipping,
              name := nameGet (nameW g.name) } := by
  obtain ⟨ox, oy, px, py, clip, name, n⟩ := g
  simp only at h
  cases clip with
  | none =>
    simp [groupItem, Group.fromRaw, mandatory, optional, fromSliceRest, MapItemGroupV1, MapItemGroupV2,
      MapItemGroupV3, w, nameW]
    ifs_omega
  | some c =>
    obtain ⟨x, y, ww, hh⟩ := c
    simp [groupItem, Group.fromRaw, mandatory, optional, fromSliceRest, MapItemGroupV1, MapItemGroupV2,
      MapItemGroupV3, w, nameW]
    ifs_omega

theorem Image.fromRaw_written (im : WImage) (k nd : Nat) (hn : im.name < nd)
    (hd : ∀ d, im.data = some d → d < nd) :
    Image.fromRaw (imageItem k im).data 0 nd
      = .ok { width := im.width, height := im.height, name := im.name, data := im.data } := by
  obtain ⟨wd, ht, name, data⟩ := im
  simp only at hn hd
  cases data with
  | none =>
    simp [imageItem, Image.fromRaw, mandatory, fromSliceRest, MapItemImageV1, w, imageData, optIdx]
    rw [getIndex_written name 0 nd _ (by omega)]
    simp
    ifs_omega
  | some d =>
    have := hd d rfl
    simp [imageItem, Image.fromRaw, mandatory, fromSliceRest, MapItemImageV1, w, imageData, optIdx]
    rw [getIndex_written d 0 nd _ (by omega), getIndex_written name 0 nd _ (by omega)]
    simp
    ifs_omega

theorem Info.fromRaw_written (i : WInfo) (nd : Nat)
    (h : ∀ o ∈ [i.author, i.version, i.credits, i.license, i.settings], ∀ n, o = some n → n < nd) :
    Info.fromRaw (infoItem i).data 0 nd
      = .ok { author := i.author, version := i.version, credits := i.credits, license := i.license,
              settings := i.settings } := by
  obtain ⟨a, v, c, l, s⟩ := i
  simp only [List.mem_cons, List.mem_nil_iff, or_false] at h
  have e : ∀ o : Option Nat, absIdx o 0 = o := by intro o; cases o <;> simp [absIdx]
  simp [infoItem, Info.fromRaw, mandatory, fromSliceRest, MapItemInfoV1, MapItemInfoV2, w, infoSettings]
  rw [getIndexOpt_written a 0 nd _ (fun n hn => by have := h a (Or.inl rfl) n hn; omega),
    getIndexOpt_written v 0 nd _ (fun n hn => by have := h v (Or.inr (Or.inl rfl)) n hn; omega),
    getIndexOpt_written c 0 nd _ (fun n hn => by have := h c (Or.inr (Or.inr (Or.inl rfl))) n hn; omega),
    getIndexOpt_written l 0 nd _ (fun n hn => by have := h l (Or.inr (Or.inr (Or.inr (Or.inl rfl)))) n hn; omega),
    getIndexOpt_written s 0 nd _ (fun n hn => by have := h s (Or.inr (Or.inr (Or.inr (Or.inr rfl)))) n hn; omega)]
  simp [e]


theorem Quads.fromRaw_written (q : WQuads) (nd ia ib : Nat) (hd : q.data < nd)
    (hi : ∀ n, q.image = some n → ia + n < ib) :
    Quads.fromRaw (layerRest (.quads q)) 0 nd ia ib
      = .ok { numQuads := q.numQuads, data := q.data, image := absIdx q.image ia,
              name := nameGet (nameW q.name) } := by
  obtain ⟨nq, data, image, name⟩ := q
  simp only at hd hi
  simp [layerRest, Quads.fromRaw, mandatory, optional, fromSliceRest, MapItemLayerV1QuadsV1,
    MapItemLayerV1QuadsV2, w, nameW]
  rw [getIndex_written data 0 nd _ (by omega), getIndexOpt_written image ia ib _ hi]
  simp
  ifs_omega

theorem Sounds.fromRaw_written (x : WSounds) (nd sa sb : Nat) (hd : x.data < nd)
    (hs : ∀ n, x.sound = some n → sa + n < sb) :
    Sounds.fromRaw (layerRest (.sounds x)) 0 nd sa sb false
      = .ok { numSources := x.numSources, data := x.data, sound := absIdx x.sound sa, legacy := false,
              name := nameGet (nameW x.name) } := by
  obtain ⟨ns, data, sound, name⟩ := x
  simp only at hd hs
  simp [layerRest, Sounds.fromRaw, mandatory, soundsV2Gate, fromSliceRest, MapItemLayerV1DdraceSoundsV1,
    MapItemLayerV1DdraceSoundsV2, w, nameW]
  rw [getIndex_written data 0 nd _ (by omega), getIndexOpt_written sound sa sb _ hs]
  simp
  ifs_omega

/-- the tile layer type the reader reports for a written kind -/
def WTileKind.read (k : WTileKind) (color : Nat × Nat × Nat × Nat) (env : Option (Nat × Int))
    (image : Option Nat) (data : Nat) : TilemapType :=
  match k with
  | .normal => .normal color env image data
  | .game => .game data
  | .teleport d => .teleport d data
  | .speedup d => .speedup d data
  | .front d => .front d data
  | .switch d => .switch d data
  | .tune d => .tune d data

def WTileKind.extraData : WTileKind → Option Nat
  | .teleport d | .speedup d | .front d | .switch d | .tune d => some d
  | _ => none

structure WTilemap.Ok (t : WTilemap) (nd ea eb ia ib : Nat) : Prop where
  width : 0 < t.width ∧ t.width ≤ 2147483647
  height : 0 < t.height ∧ t.height ≤ 2147483647
  color : t.color.1 ≤ 255 ∧ t.color.2.1 ≤ 255 ∧ t.color.2.2.1 ≤ 255 ∧ t.color.2.2.2 ≤ 255
  env : ∀ e o, t.colorEnv = some (e, o) → ea + e < eb
  image : ∀ n, t.image = some n → ia + n < ib
  data : t.data < nd
  extra : ∀ d, t.kind.extraData = some d → d < nd

theorem Tilemap.fromRaw_written (t : WTilemap) (nd ea eb ia ib : Nat) (ok : t.Ok nd ea eb ia ib) :
    Tilemap.fromRaw (layerRest (.tilemap t)) 0 nd ea eb ia ib
      = .ok { width := t.width, height := t.height,
              type := t.kind.read t.color (t.colorEnv.map fun p => (p.1 + ea, p.2)) (absIdx t.image ia) t.data,
              name := nameGet (nameW t.name) } := by
  obtain ⟨wd, ht, kind, ⟨cr, cg, cb, ca⟩, env, image, data, name⟩ := t
  obtain ⟨hw, hh, hc, he, hi, hd, hx⟩ := ok
  simp only at hw hh hc he hi hd hx
  have hu8 : ∀ n : Nat, n ≤ 255 → tryU8 (n : Int) = some n := by
    intro n hn; unfold tryU8; rw [if_pos (by omega)]; simp
  have himg := getIndexOpt_written image ia ib "InvalidImageIndex" hi
  have hdat := getIndex_written data 0 nd "InvalidDataIndex" (by omega)
  have hgx : ∀ (d : Nat) (e : String), d < nd → getIndex (d : Int) 0 nd e = .ok (d + 0) :=
    fun d e h => getIndex_written d 0 nd e (by omega)
  cases env with
  | none =>
    cases kind <;>
    (simp [layerRest, Tilemap.fromRaw, mandatory, optional, fromSliceRest, MapItemLayerV1CommonV0,
      MapItemLayerV1TilemapV2, MapItemLayerV1TilemapV3, w, nameW, tilemapColor, hu8, hc, tilemapColorEnv,
      himg, hdat, tilemapType, tilemapDims, asU32, WTileKind.flags, WTileKind.extra, WTileKind.read,
      TILELAYERFLAG_GAME, TILELAYERFLAG_TELEPORT, TILELAYERFLAG_SPEEDUP, TILELAYERFLAG_FRONT,
      TILELAYERFLAG_SWITCH, TILELAYERFLAG_TUNE, extraIndex, extraRace] <;>
     first
      | (ifs_omega; done)
      | (rw [hgx _ _ (hx _ rfl)]; simp; ifs_omega))
  | some p =>
    obtain ⟨e, o⟩ := p
    have henv := getIndex_written e ea eb "InvalidColorEnvelopeIndex" (he e o rfl)
    cases kind <;>
    (simp [layerRest, Tilemap.fromRaw, mandatory, optional, fromSliceRest, MapItemLayerV1CommonV0,
      MapItemLayerV1TilemapV2, MapItemLayerV1TilemapV3, w, nameW, tilemapColor, hu8, hc, tilemapColorEnv,
      himg, hdat, henv, tilemapType, tilemapDims, asU32, WTileKind.flags, WTileKind.extra, WTileKind.read,
      TILELAYERFLAG_GAME, TILELAYERFLAG_TELEPORT, TILELAYERFLAG_SPEEDUP, TILELAYERFLAG_FRONT,
      TILELAYERFLAG_SWITCH, TILELAYERFLAG_TUNE, extraIndex, extraRace] <;>
     first
      | (ifs_omega; done)
      | (rw [hgx _ _ (hx _ rfl)]; simp; ifs_omega)
      | (rw [if_neg (by omega)]; ifs_omega; done)
      | (rw [if_neg (by omega)]; rw [hgx _ _ (hx _ rfl)]; simp; ifs_omega))


/-- what the writer demands of a layer: every index inside its range -/
def WLayer.Ok (l : WLayer) (nd ea eb ia ib sa sb : Nat) : Prop :=
  match l.kind with
  | .tilemap t => t.Ok nd ea eb ia ib
  | .quads q => q.data < nd ∧ ∀ n, q.image = some n → ia + n < ib
  | .sounds s => s.data < nd ∧ ∀ n, s.sound = some n → sa + n < sb

/-- the layer the reader reports for a written layer -/
def WLayer.read (l : WLayer) (ea ia sa : Nat) : Layer :=
  { detail := l.detail
    t := match l.kind with
      | .tilemap t => .tilemap
          { width := t.width, height := t.height,
            type := t.kind.read t.color (t.colorEnv.map fun p => (p.1 + ea, p.2)) (absIdx t.image ia) t.data,
            name := nameGet (nameW t.name) }
      | .quads q => .quads { numQuads := q.numQuads, data := q.data, image := absIdx q.image ia,
                             name := nameGet (nameW q.name) }
      | .sounds s => .sounds { numSources := s.numSources, data := s.data, sound := absIdx s.sound sa,
                               legacy := false, name := nameGet (nameW s.name) } }

theorem Layer.fromRaw_written (l : WLayer) (k nd ea eb ia ib sa sb : Nat)
    (ok : l.Ok nd ea eb ia ib sa sb) :
    Layer.fromRaw (layerItem k l).data 0 nd ea eb ia ib sa sb = .ok (l.read ea ia sa) := by
  obtain ⟨detail, kind⟩ := l
  have hslice : ∀ (ty : Int) (df : Int) (rest : List Int),
      fromSliceRest MapItemLayerV1 ([0, ty, df] ++ rest) = .found [ty, df] rest := by
    intro ty df rest
    simp [fromSliceRest, MapItemLayerV1]
    ifs_omega
  unfold Layer.fromRaw layerItem
  simp only [hslice]
  have hfl : ∀ b : Bool, Nat.land (asU32 (w [layerType kind, if b = true then 1 else 0] 1)) (4294967295 - LAYERFLAGS_ALL) = 0
      ∧ decide (Nat.land (asU32 (w [layerType kind, if b = true then 1 else 0] 1)) LAYERFLAG_DETAIL ≠ 0) = b := by
    intro b; cases b <;> simp [w, asU32, LAYERFLAGS_ALL, LAYERFLAG_DETAIL] <;> decide
  rw [if_neg (by rw [(hfl detail).1]; simp), (hfl detail).2]
  unfold WLayer.Ok at ok
  cases kind with
  | tilemap t =>
    simp only at ok
    simp [layerDispatch, layerType, w, MAP_ITEMTYPE_LAYER_V1_TILEMAP, Tilemap.fromRaw_written t nd ea eb ia ib ok,
      wrapErr, WLayer.read]
  | quads q =>
    simp only at ok
    simp [layerDispatch, layerType, w, MAP_ITEMTYPE_LAYER_V1_TILEMAP, MAP_ITEMTYPE_LAYER_V1_QUADS,
      Quads.fromRaw_written q nd ia ib ok.1 ok.2, wrapErr, WLayer.read]
  | sounds x =>
    simp only at ok
    simp [layerDispatch, layerType, w, MAP_ITEMTYPE_LAYER_V1_TILEMAP, MAP_ITEMTYPE_LAYER_V1_QUADS,
      MAP_ITEMTYPE_LAYER_V1_DDRACE_SOUNDS, MAP_ITEMTYPE_LAYER_V1_DDRACE_SOUNDS_LEGACY,
      Sounds.fromRaw_written x nd sa sb ok.1 ok.2, wrapErr, WLayer.read]

end Tw.Map
