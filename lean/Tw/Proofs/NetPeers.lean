import Tw.Proofs.NetMap

/-! The per-address simulation: every endpoint operation acts on the slot of each address exactly
as the single-address reference `refStep` does on the projected operation (or not at all), and keeps
the peer-table invariant. -/
namespace Tw.Net
open Tw.Conn Tw.Conn6 Tw.Time

/-! ### outputs restricted to an address -/

theorem filter_tag {β γ : Type} (addr a : Nat) (f : β → γ) (l : List β) :
    (l.map (fun x => (addr, f x))).filter (fun y => decide (y.1 = a)) =
      if addr = a then l.map (fun x => (addr, f x)) else [] := by
  induction l with
  | nil => simp
  | cons x xs ih =>
    simp only [List.map_cons, List.filter_cons, ih]
    by_cases h : addr = a <;> simp [h]

theorem liftOut_for (addr pid a : Nat) (o : Conn6.Out) :
    (liftOut addr pid o).for a = if addr = a then liftOut addr pid o else {} := by
  have h1 := filter_tag addr a (fun p : Packet => p) o.sent
  have h2 := filter_tag addr a (mapEvent addr pid) o.events
  have h3 := filter_tag addr a (NWarn.peer addr pid) o.warns
  simp only [Out.for, liftOut] at *
  rw [h1, h2, h3]
  by_cases h : addr = a <;> simp [h]

theorem empty_for (a : Nat) : ({} : Out).for a = {} := by simp [Out.for]

/-! ### the id allocator -/

theorem newPeerLoop_fresh {fuel : Nat} {ps : Peers} {n pid nx : Nat}
    (h : newPeerLoop fuel ps n = some (pid, nx)) : lookup ps pid = none := by
  induction fuel generalizing n with
  | zero => simp [newPeerLoop] at h
  | succ f ih =>
    simp only [newPeerLoop] at h
    split at h
    · exact ih h
    · rename_i hl; simp at h; rw [← h.1]; exact hl

theorem newPeer_ok {net net1 : Net} {addr pid : Nat} {tok : Bool} (h : newPeer net addr tok = .ok (net1, pid)) :
    freshPid net = some pid ∧ lookup net.peers pid = none ∧
      net1.peers = net.peers ++ [(pid, Peer.new addr tok)] ∧ net1.acceptConnections = net.acceptConnections := by
  unfold newPeer at h
  split at h
  · simp at h
  · rename_i pid' nx hl
    simp only [Except.ok.injEq, Prod.mk.injEq] at h
    obtain ⟨h1, h2⟩ := h
    subst h2 h1
    exact ⟨by simp [freshPid, hl], newPeerLoop_fresh hl, rfl, rfl⟩

theorem newPeer_error {net : Net} {addr : Nat} {tok : Bool} {f : Fail} (h : newPeer net addr tok = .error f) :
    freshPid net = none ∧ f = .hang := by
  unfold newPeer at h
  split at h
  · rename_i hl; simp at h; exact ⟨by simp [freshPid, hl], h.symm⟩
  · simp at h

/-- what an operation that concerns (at most) the address `c` must do to the slot of address `a` -/
def SlotSpec (net net' : Net) (r : Ret) (o : Out) (a : Nat) (concerned : Bool) (ref : RRes) : Prop :=
  if concerned then ref = .ok (slot net'.peers a, r, o.for a)
  else slot net'.peers a = slot net.peers a ∧ o.for a = {}

/-! ### calls on one peer -/

theorem modifyPeer_sim {net net' : Net} {pid : Nat} {f : Peer → Except Fail (Conn × Ret × Conn6.Out)}
    {r : Ret} {o : Out} (hi : PInv net.peers) (h : modifyPeer net pid f = .ok (net', r, o)) :
    ∃ p, lookup net.peers pid = some p ∧ PInv net'.peers ∧
      net'.acceptConnections = net.acceptConnections ∧ net'.nextPeerId = net.nextPeerId ∧
      ∀ a, if p.addr = a then slotModify a (slot net.peers a) f = .ok (slot net'.peers a, r, o.for a)
           else slot net'.peers a = slot net.peers a ∧ o.for a = {} := by
  unfold modifyPeer at h
  split at h
  · simp at h
  · rename_i p hl
    split at h
    · simp at h
    · rename_i c r' o' hf
      simp only [Except.ok.injEq, Prod.mk.injEq] at h
      obtain ⟨h1, h2, h3⟩ := h
      subst h1 h2 h3
      refine ⟨p, hl, pinv_update hi hl rfl, rfl, rfl, ?_⟩
      intro a
      simp only [slot_update hi hl (p' := { p with conn := c }) rfl a, liftOut_for]
      split
      · rename_i hpa
        subst hpa
        simp [slotModify, lookup_slot hi hl, hf]
      · simp

theorem removePeer_sim {net net' : Net} {pid : Nat} {f : Peer → Except Fail Conn6.Out}
    {r : Ret} {o : Out} (hi : PInv net.peers) (h : removePeer net pid f = .ok (net', r, o)) :
    ∃ p, lookup net.peers pid = some p ∧ PInv net'.peers ∧ lookup net'.peers pid = none ∧
      net'.acceptConnections = net.acceptConnections ∧ net'.nextPeerId = net.nextPeerId ∧
      ∀ a, if p.addr = a then slotRemove a (slot net.peers a) f = .ok (slot net'.peers a, r, o.for a)
           else slot net'.peers a = slot net.peers a ∧ o.for a = {} := by
  unfold removePeer at h
  split at h
  · simp at h
  · rename_i p hl
    split at h
    · simp at h
    · rename_i o' hf
      obtain ⟨ps', hrm, hi', hm⟩ := remove_some hi hl
      rw [hrm] at h
      simp only [Except.ok.injEq, Prod.mk.injEq] at h
      obtain ⟨h1, h2, h3⟩ := h
      subst h1 h2 h3
      refine ⟨p, hl, hi', lookup_remove_self hm, rfl, rfl, ?_⟩
      intro a
      simp only [slot_remove hi hi' hl hm a, liftOut_for]
      split
      · rename_i hpa
        subst hpa
        simp [slotRemove, lookup_slot hi hl, hf]
      · simp

/-! ### datagrams -/

theorem removeOnDisconnect_absent {ps ps' : Peers} {pid : Nat} {evs : List Event}
    (h : lookup ps pid = none) (hr : removeOnDisconnect ps pid evs = .ok ps') :
    ps' = ps ∧ slotOnDisconnect none evs = .ok none := by
  induction evs with
  | nil => simp [removeOnDisconnect] at hr; simp [hr, slotOnDisconnect]
  | cons e es ih =>
    cases e with
    | disconnect r => simp [removeOnDisconnect, remove_none h] at hr
    | connless d => simp only [removeOnDisconnect] at hr; simpa [slotOnDisconnect] using ih hr
    | chunk d v => simp only [removeOnDisconnect] at hr; simpa [slotOnDisconnect] using ih hr
    | ready => simp only [removeOnDisconnect] at hr; simpa [slotOnDisconnect] using ih hr

theorem removeOnDisconnect_sim {ps ps' : Peers} {pid : Nat} {p : Peer} {evs : List Event}
    (hi : PInv ps) (h : lookup ps pid = some p) (hr : removeOnDisconnect ps pid evs = .ok ps') :
    PInv ps' ∧ (∀ a, a ≠ p.addr → slot ps' a = slot ps a) ∧
      slotOnDisconnect (some (pid, p)) evs = .ok (slot ps' p.addr) := by
  induction evs with
  | nil =>
    simp [removeOnDisconnect] at hr
    subst hr
    exact ⟨hi, fun _ _ => rfl, by simp [slotOnDisconnect, lookup_slot hi h]⟩
  | cons e es ih =>
    cases e with
    | disconnect r =>
      obtain ⟨ps1, hrm, hi1, hm⟩ := remove_some hi h
      simp only [removeOnDisconnect, hrm] at hr
      obtain ⟨h1, h2⟩ := removeOnDisconnect_absent (lookup_remove_self hm) hr
      subst h1
      refine ⟨hi1, ?_, ?_⟩
      · intro a ha
        rw [slot_remove hi hi1 h hm a]; simp [Ne.symm ha]
      · simp only [slotOnDisconnect, h2]
        rw [slot_remove hi hi1 h hm]; simp
    | connless d => simp only [removeOnDisconnect] at hr; simpa [slotOnDisconnect] using ih hr
    | chunk d v => simp only [removeOnDisconnect] at hr; simpa [slotOnDisconnect] using ih hr
    | ready => simp only [removeOnDisconnect] at hr; simpa [slotOnDisconnect] using ih hr

/-- a datagram for a peer that takes part in its connection -/
theorem feedPeer_sim {env : Env} {net net' : Net} {addr pid : Nat} {p : Peer}
    {rd : Option Bool → Option Packet} {r : Ret} {o : Out} (hi : PInv net.peers)
    (hs : slot net.peers addr = some (pid, p)) (h : feedPeer env net addr pid rd = .ok (net', r, o)) :
    PInv net'.peers ∧ net'.acceptConnections = net.acceptConnections ∧
      (∀ a, a ≠ addr → slot net'.peers a = slot net.peers a ∧ o.for a = {}) ∧
      ∃ c o', Conn6.feed env p.conn rd = .ok (c, o') ∧ r = .unit ∧ o.for addr = liftOut addr pid o' ∧
        slotOnDisconnect (some (pid, { p with conn := c })) o'.events = .ok (slot net'.peers addr) := by
  have hl := slot_lookup hi hs
  have hpa : p.addr = addr := (slot_mem hs).2
  unfold feedPeer at h
  rw [hl] at h
  simp only at h
  split at h
  · simp at h
  · rename_i c o' hf
    split at h
    · simp at h
    · rename_i ps' hrd
      simp only [Except.ok.injEq, Prod.mk.injEq] at h
      obtain ⟨h1, h2, h3⟩ := h
      subst h1 h2 h3
      have hi1 := pinv_update hi hl (p' := { p with conn := c }) rfl
      have hl1 : lookup (update net.peers pid { p with conn := c }) pid = some { p with conn := c } :=
        lookup_update_self hi hl
      obtain ⟨hi2, hoth, hself⟩ := removeOnDisconnect_sim hi1 hl1 hrd
      refine ⟨hi2, rfl, ?_, c, o', hf, rfl, by simp [liftOut_for], ?_⟩
      · intro a ha
        refine ⟨?_, by simp [liftOut_for, Ne.symm ha]⟩
        rw [hoth a (by simpa [hpa] using ha), slot_update hi hl (p' := { p with conn := c }) rfl a]
        simp [hpa, Ne.symm ha]
      · simpa [hpa] using hself

/-- a datagram handled statelessly (unknown address, or peer pending acceptance) -/
theorem feedUnknown_sim {net net' : Net} {addr : Nat} {pending : Bool}
    {rd : Option Bool → Option Packet} {r : Ret} {o : Out} (hi : PInv net.peers)
    (hp : pending = false → slot net.peers addr = none)
    (h : feedUnknown net addr pending rd = .ok (net', r, o)) :
    PInv net'.peers ∧ net'.acceptConnections = net.acceptConnections ∧
      (∀ a, a ≠ addr → slot net'.peers a = slot net.peers a ∧ o.for a = {}) ∧
      refStateless net.acceptConnections addr (slot net.peers addr) pending rd (freshPid net) =
        .ok (slot net'.peers addr, r, o.for addr) := by
  unfold feedUnknown at h
  unfold refStateless
  split at h
  · simp only [Except.ok.injEq, Prod.mk.injEq] at h
    obtain ⟨h1, h2, h3⟩ := h
    subst h1 h2 h3
    rename_i hrd
    refine ⟨hi, rfl, fun a ha => ⟨rfl, by simp [Out.for, Ne.symm ha]⟩, by simp [hrd, Out.for]⟩
  · simp only [Except.ok.injEq, Prod.mk.injEq] at h
    obtain ⟨h1, h2, h3⟩ := h
    subst h1 h2 h3
    rename_i d hrd
    refine ⟨hi, rfl, fun a ha => ⟨rfl, by simp [Out.for, Ne.symm ha]⟩, by simp [hrd, Out.for]⟩
  · rename_i ack token hrd
    simp only [hrd]
    split at h
    · simp only [Except.ok.injEq, Prod.mk.injEq] at h
      obtain ⟨h1, h2, h3⟩ := h
      subst h1 h2 h3
      rename_i hpend
      refine ⟨hi, rfl, fun a ha => ⟨rfl, by simp [Out.for]⟩, by simp [hpend, Out.for]⟩
    · rename_i hpend
      simp only [Bool.not_eq_true] at hpend
      have hnone := hp hpend
      split at h
      · rename_i hacc
        split at h
        · simp at h
        · rename_i net1 pid hnp
          simp only [Except.ok.injEq, Prod.mk.injEq] at h
          obtain ⟨h1, h2, h3⟩ := h
          subst h1 h2 h3
          obtain ⟨hfresh, hlk, hps, hac⟩ := newPeer_ok hnp
          have hi1 : PInv net1.peers := by rw [hps]; exact pinv_push hi hlk (by simpa [Peer.new] using hnone)
          refine ⟨hi1, hac, ?_, ?_⟩
          · intro a ha
            refine ⟨?_, by simp [Out.for, Ne.symm ha]⟩
            rw [hps, slot_append]
            simp [slot, Peer.new, Ne.symm ha]
          · simp only [hpend, hacc, hfresh, hps, slot_append, hnone]
            simp [slot, Peer.new, Out.for]
      · rename_i hacc
        simp only [Except.ok.injEq, Prod.mk.injEq] at h
        obtain ⟨h1, h2, h3⟩ := h
        subst h1 h2 h3
        refine ⟨hi, rfl, fun a ha => ⟨rfl, by simp [Out.for, Ne.symm ha]⟩, by simp [hpend, hacc, Out.for]⟩
  · simp only [Except.ok.injEq, Prod.mk.injEq] at h
    obtain ⟨h1, h2, h3⟩ := h
    subst h1 h2 h3
    rename_i v hrd1 hrd2 hrd3
    refine ⟨hi, rfl, fun a ha => ⟨rfl, by simp [Out.for, Ne.symm ha]⟩, ?_⟩
    rw [hrd3]
    split
    · rename_i heq; simp at heq
    · rename_i d heq; simp at heq; exact absurd heq (hrd1 d)
    · rename_i ack tok heq; simp at heq; exact absurd heq (hrd2 ack tok)
    · simp [Out.for]

theorem feed_sim {env : Env} {net net' : Net} {addr : Nat} {rd : Option Bool → Option Packet}
    {r : Ret} {o : Out} (hi : PInv net.peers) (h : feed env net addr rd = .ok (net', r, o)) :
    PInv net'.peers ∧ net'.acceptConnections = net.acceptConnections ∧
      (∀ a, a ≠ addr → slot net'.peers a = slot net.peers a ∧ o.for a = {}) ∧
      refStep net.acceptConnections addr env (slot net.peers addr) (.dgram rd (freshPid net)) =
        .ok (slot net'.peers addr, r, o.for addr) := by
  unfold feed at h
  rw [pidFromAddr_eq] at h
  cases hs : slot net.peers addr with
  | none =>
    simp only [hs, Option.map_none] at h
    have := feedUnknown_sim hi (fun _ => hs) h
    simpa [refStep, hs] using this
  | some e =>
    obtain ⟨pid, p⟩ := e
    simp only [hs, Option.map_some, slot_lookup hi hs] at h
    split at h
    · rename_i hun
      have := feedUnknown_sim hi (by simp) h
      simpa [refStep, hs, hun] using this
    · rename_i hun
      obtain ⟨h1, h2, h3, c, o', hf, hr, ho, hsd⟩ := feedPeer_sim hi hs h
      refine ⟨h1, h2, h3, ?_⟩
      simp [refStep, hun, hf, hsd, hr, ho]

theorem connect_sim {env : Env} {net net' : Net} {addr : Nat} {r : Ret} {o : Out}
    (hi : PInv net.peers) (hok : slot net.peers addr = none) (h : connect env net addr = .ok (net', r, o)) :
    PInv net'.peers ∧ net'.acceptConnections = net.acceptConnections ∧
      (∀ a, a ≠ addr → slot net'.peers a = slot net.peers a ∧ o.for a = {}) ∧
      refStep net.acceptConnections addr env (slot net.peers addr) (.connect (freshPid net)) =
        .ok (slot net'.peers addr, r, o.for addr) := by
  unfold connect at h
  split at h
  · simp at h
  · rename_i net1 pid hnp
    obtain ⟨hfresh, hlk, hps, hac⟩ := newPeer_ok hnp
    split at h
    · simp at h
    · rename_i c o' hc
      simp only [Except.ok.injEq, Prod.mk.injEq] at h
      obtain ⟨h1, h2, h3⟩ := h
      subst h1 h2 h3
      simp only [hps, update_append_fresh hlk]
      have hi1 : PInv (net.peers ++ [(pid, (⟨c, addr, false⟩ : Peer))]) := pinv_push hi hlk (by simpa using hok)
      refine ⟨hi1, hac, ?_, ?_⟩
      · intro a ha
        refine ⟨?_, by simp [liftOut_for, Ne.symm ha]⟩
        rw [slot_append]; simp [slot, Ne.symm ha]
      · simp [refStep, hok, hfresh, hc, slot_append, slot, liftOut_for]

theorem sendConnless_sim {net net' : Net} {addr : Nat} {d : Bytes} {r : Ret} {o : Out}
    (h : sendConnless net addr d = .ok (net', r, o)) (env : Env) :
    net' = net ∧ (∀ a, a ≠ addr → o.for a = {}) ∧
      refStep net.acceptConnections addr env (slot net.peers addr) (.sendConnless d) =
        .ok (slot net'.peers addr, r, o.for addr) := by
  unfold sendConnless at h
  split at h
  · rename_i hlen
    simp only [Except.ok.injEq, Prod.mk.injEq] at h
    obtain ⟨h1, h2, h3⟩ := h
    subst h1 h2 h3
    exact ⟨rfl, fun a _ => by simp [Out.for], by simp [refStep, hlen, Out.for]⟩
  · rename_i hlen
    split at h
    · simp at h
    · rename_i ps hem
      simp only [Except.ok.injEq, Prod.mk.injEq] at h
      obtain ⟨h1, h2, h3⟩ := h
      subst h1 h2 h3
      have hf := filter_tag addr addr (fun p : Packet => p) ps
      simp only [if_true] at hf
      refine ⟨rfl, fun a ha => ?_, ?_⟩
      · have := filter_tag addr a (fun p : Packet => p) ps
        simp only [Ne.symm ha, if_false] at this
        simp [Out.for, this]
      · simp [refStep, hlen, hem, Out.for, hf]

/-! ### tick -/

theorem tickPeers_sim {env : Env} {ps ps' : Peers} {sent : List (Nat × Packet)}
    (hn : (addrs ps).Nodup) (h : tickPeers env ps = .ok (ps', sent)) :
    pids ps' = pids ps ∧ addrs ps' = addrs ps ∧
      ∀ a, match slot ps a with
        | none => slot ps' a = none ∧ sent.filter (fun y => decide (y.1 = a)) = []
        | some (pid, p) => ∃ c o, Conn6.tick env p.conn = .ok (c, o) ∧
            slot ps' a = some (pid, { p with conn := c }) ∧
            sent.filter (fun y => decide (y.1 = a)) = o.sent.map (a, ·) := by
  induction ps generalizing ps' sent with
  | nil =>
    simp [tickPeers] at h
    obtain ⟨h1, h2⟩ := h
    subst h1 h2
    simp [slot]
  | cons e es ih =>
    simp only [tickPeers] at h
    split at h
    · simp at h
    · rename_i c o hc
      split at h
      · simp at h
      · rename_i es1 sent1 hes
        simp only [Except.ok.injEq, Prod.mk.injEq] at h
        obtain ⟨h1, h2⟩ := h
        subst h1 h2
        simp only [addrs, List.map_cons, List.nodup_cons] at hn
        obtain ⟨ih1, ih2, ih3⟩ := ih hn.2 hes
        refine ⟨by simp [pids] at ih1 ⊢; exact ih1, by simp [addrs] at ih2 ⊢; exact ih2, ?_⟩
        intro a
        have hft := filter_tag e.2.addr a (fun p : Packet => p) o.sent
        simp only [slot, List.filter_append]
        by_cases hea : e.2.addr = a
        · -- the head is `a`'s peer; nobody behind it has this address
          subst hea
          have hnone : slot es e.2.addr = none := by
            rw [slot_none_iff]
            intro x hx hxa
            exact hn.1 (List.mem_map.2 ⟨x, hx, hxa⟩)
          have := ih3 e.2.addr
          simp only [hnone] at this
          rw [if_pos rfl] at hft
          simp only [if_true]
          refine ⟨c, o, hc, rfl, ?_⟩
          rw [this.2, List.append_nil]
          exact hft
        · simp only [hea, if_false] at hft ⊢
          have := ih3 a
          rw [show (List.filter (fun y => decide (y.1 = a)) (List.map (fun x => (e.2.addr, x)) o.sent)) = [] from hft]
          simpa using this

theorem tick_sim {env : Env} {net net' : Net} {r : Ret} {o : Out} (hi : PInv net.peers)
    (h : tick env net = .ok (net', r, o)) :
    PInv net'.peers ∧ net'.acceptConnections = net.acceptConnections ∧
      ∀ a, refStep net.acceptConnections a env (slot net.peers a) .tick = .ok (slot net'.peers a, r, o.for a) := by
  unfold tick at h
  split at h
  · simp at h
  · rename_i ps sent ht
    simp only [Except.ok.injEq, Prod.mk.injEq] at h
    obtain ⟨h1, h2, h3⟩ := h
    subst h1 h2 h3
    obtain ⟨hp, ha, hs⟩ := tickPeers_sim hi.addr ht
    refine ⟨⟨by rw [hp]; exact hi.pid, by rw [ha]; exact hi.addr⟩, rfl, ?_⟩
    intro a
    have := hs a
    cases hsl : slot net.peers a with
    | none =>
      simp only [hsl] at this
      simp [refStep, this.1, Out.for, this.2]
    | some e =>
      obtain ⟨pid, p⟩ := e
      simp only [hsl] at this
      obtain ⟨c, o', hc, hs', hf⟩ := this
      simp [refStep, hc, hs', Out.for, hf]

/-! ### one step, any operation -/

/-- what one endpoint call does, seen from address `a` -/
def StepFor (env : Env) (net net' : Net) (op : Op) (r : Ret) (o : Out) (a : Nat) : Prop :=
  match projOp net a op with
  | some lop => refStep net.acceptConnections a env (slot net.peers a) lop = .ok (slot net'.peers a, r, o.for a)
  | none => slot net'.peers a = slot net.peers a ∧ o.for a = {}

theorem addrOf_eq {net : Net} {pid : Nat} {p : Peer} (h : lookup net.peers pid = some p) (a : Nat) :
    (addrOf net pid = some a) ↔ p.addr = a := by simp [addrOf, h]

theorem step_sim {env : Env} {net net' : Net} {op : Op} {r : Ret} {o : Out} (hi : PInv net.peers)
    (hok : opOk net op = true) (h : step env net op = .ok (net', r, o)) :
    PInv net'.peers ∧ net'.acceptConnections = net.acceptConnections ∧
      ∀ a, StepFor env net net' op r o a := by
  cases op with
  | feed addr rd =>
    obtain ⟨h1, h2, h3, h4⟩ := feed_sim hi h
    refine ⟨h1, h2, fun a => ?_⟩
    by_cases ha : addr = a
    · subst ha; simpa [StepFor, projOp] using h4
    · simpa [StepFor, projOp, ha] using h3 a (Ne.symm ha)
  | connect addr =>
    have hs : slot net.peers addr = none := by simpa [opOk] using hok
    obtain ⟨h1, h2, h3, h4⟩ := connect_sim hi hs h
    refine ⟨h1, h2, fun a => ?_⟩
    by_cases ha : addr = a
    · subst ha; simpa [StepFor, projOp] using h4
    · simpa [StepFor, projOp, ha] using h3 a (Ne.symm ha)
  | accept pid =>
    obtain ⟨p, hl, h1, h2, _, h3⟩ := modifyPeer_sim hi h
    refine ⟨h1, h2, fun a => ?_⟩
    have := h3 a
    by_cases ha : p.addr = a
    · simpa [StepFor, projOp, addrOf_eq hl, ha, refStep] using this
    · simpa [StepFor, projOp, addrOf_eq hl, ha] using this
  | reject pid reason =>
    obtain ⟨p, hl, h1, _, h2, _, h3⟩ := removePeer_sim hi h
    refine ⟨h1, h2, fun a => ?_⟩
    have := h3 a
    by_cases ha : p.addr = a
    · simpa [StepFor, projOp, addrOf_eq hl, ha, refStep] using this
    · simpa [StepFor, projOp, addrOf_eq hl, ha] using this
  | disconnect pid reason =>
    obtain ⟨p, hl, h1, _, h2, _, h3⟩ := removePeer_sim hi h
    refine ⟨h1, h2, fun a => ?_⟩
    have := h3 a
    by_cases ha : p.addr = a
    · simpa [StepFor, projOp, addrOf_eq hl, ha, refStep] using this
    · simpa [StepFor, projOp, addrOf_eq hl, ha] using this
  | ignore pid =>
    have h' : removePeer net pid (fun _ => .ok {}) = .ok (net', r, o) := h
    obtain ⟨p, hl, h1, _, h2, _, h3⟩ := removePeer_sim hi h'
    refine ⟨h1, h2, fun a => ?_⟩
    have := h3 a
    by_cases ha : p.addr = a
    · simpa [StepFor, projOp, addrOf_eq hl, ha, refStep] using this
    · simpa [StepFor, projOp, addrOf_eq hl, ha] using this
  | send pid d v =>
    obtain ⟨p, hl, h1, h2, _, h3⟩ := modifyPeer_sim hi h
    refine ⟨h1, h2, fun a => ?_⟩
    have := h3 a
    by_cases ha : p.addr = a
    · simpa [StepFor, projOp, addrOf_eq hl, ha, refStep] using this
    · simpa [StepFor, projOp, addrOf_eq hl, ha] using this
  | flush pid =>
    obtain ⟨p, hl, h1, h2, _, h3⟩ := modifyPeer_sim hi h
    refine ⟨h1, h2, fun a => ?_⟩
    have := h3 a
    by_cases ha : p.addr = a
    · simpa [StepFor, projOp, addrOf_eq hl, ha, refStep] using this
    · simpa [StepFor, projOp, addrOf_eq hl, ha] using this
  | sendConnless addr d =>
    obtain ⟨h1, h2, h3⟩ := sendConnless_sim h env
    subst h1
    refine ⟨hi, rfl, fun a => ?_⟩
    by_cases ha : addr = a
    · subst ha; simpa [StepFor, projOp] using h3
    · simpa [StepFor, projOp, ha] using h2 a (Ne.symm ha)
  | tick =>
    obtain ⟨h1, h2, h3⟩ := tick_sim hi h
    exact ⟨h1, h2, fun a => by simpa [StepFor, projOp] using h3 a⟩

/-! ### histories -/

theorem run_sim (a : Nat) (h : History) : ∀ (net net' : Net) (tr : List (Ret × Out)),
    PInv net.peers → histOk net h = true → runFor a net h = .ok (net', tr) →
    PInv net'.peers ∧
      refRun net.acceptConnections a (slot net.peers a) (projHist a net h) = .ok (slot net'.peers a, tr) := by
  induction h with
  | nil =>
    intro net net' tr hi _ hr
    simp [runFor] at hr
    obtain ⟨h1, h2⟩ := hr
    subst h1 h2
    exact ⟨hi, by simp [projHist, refRun]⟩
  | cons x xs ih =>
    obtain ⟨env, op⟩ := x
    intro net net' tr hi hok hr
    simp only [runFor] at hr
    simp only [histOk, Bool.and_eq_true] at hok
    cases hst : step env net op with
    | error f => simp [hst] at hr
    | ok v =>
      obtain ⟨net1, r, o⟩ := v
      simp only [hst] at hr hok
      obtain ⟨hi1, hacc, hstep⟩ := step_sim hi hok.1 hst
      cases hrest : runFor a net1 xs with
      | error f => simp [hrest] at hr
      | ok w =>
        obtain ⟨net2, outs⟩ := w
        simp only [hrest, Except.ok.injEq, Prod.mk.injEq] at hr
        obtain ⟨h1, h2⟩ := hr
        subst h1 h2
        obtain ⟨hi2, href⟩ := ih net1 net2 outs hi1 hok.2 hrest
        refine ⟨hi2, ?_⟩
        have hs := hstep a
        rw [hacc] at href
        simp only [projHist, hst]
        unfold StepFor at hs
        cases hp : projOp net a op with
        | none =>
          simp only [hp] at hs
          simp only [refRun, ← hs.1, href, hs.2]
          simp
        | some lop =>
          simp only [hp] at hs
          simp only [refRun, hs, href]
          simp

end Tw.Net
