/-
Helper lemmas for C12 (`Tw/Props/C12.lean`): the part map, the chunker, the single steps of the
receiver on messages of a consistent transfer, and the invariant carried along an arbitrary
admissible message sequence.
-/
import Tw.Model.SnapXfer

namespace Tw.SnapXfer

/-! ### arithmetic -/

theorem partSize_pos : 0 < partSize := by decide

/-- the receiver recovers the base tick from the wire's relative value, for every pair of ticks -/
theorem wrapSub_wrapSub (tick base : Int) (h : inI32 base) : wrapSub tick (wrapSub tick base) = base := by
  unfold wrapSub wrap32 inI32 at *; omega

theorem numParts_le (len : Nat) (h : len ≤ maxParts * partSize) : numParts len ≤ maxParts := by
  simp only [numParts, partSize, maxParts, Tw.Gen.SnapXfer.MAX_SNAPSHOT_PACKSIZE] at *; omega

theorem numParts_cover (len : Nat) : len ≤ partSize * numParts len := by
  simp only [numParts, partSize, Tw.Gen.SnapXfer.MAX_SNAPSHOT_PACKSIZE]; omega

theorem numParts_eq_zero (len : Nat) : numParts len = 0 ↔ len = 0 := by
  simp only [numParts, partSize, Tw.Gen.SnapXfer.MAX_SNAPSHOT_PACKSIZE]; omega

/-! ### the part map (`VecMap`) -/

theorem Parts.getD_insert (ps : Parts) (k : Nat) (d : List UInt8) (i : Nat) :
    (ps.insert k d).getD i none = if i = k then some d else ps.getD i none := by
  unfold Parts.insert
  split
  · rename_i h
    simp only [List.getD_eq_getElem?_getD, List.getElem?_set]
    by_cases hik : i = k
    · subst hik; simp [h]
    · have : ¬ k = i := fun e => hik e.symm
      simp [this, hik]
  · rename_i h
    simp only [List.getD_eq_getElem?_getD, List.getElem?_append, List.length_append,
      List.length_replicate, List.getElem?_replicate]
    by_cases h1 : i < ps.length
    · have : i ≠ k := by omega
      have h4 : i < ps.length + (k - ps.length) := by omega
      simp [h1, this, h4]
    · by_cases hik : i = k
      · subst hik
        have h2 : ¬ i < ps.length + (i - ps.length) := by omega
        have h3 : i - (ps.length + (i - ps.length)) = 0 := by omega
        simp [h2, h3]
      · simp only [hik, if_false]
        have hn : ps[i]? = none := by simp; omega
        by_cases h2 : i < ps.length + (k - ps.length)
        · have h3 : i - ps.length < k - ps.length := by omega
          simp [h1, h2, h3]
        · have h3 : [some d][i - (ps.length + (k - ps.length))]? = none := by
            apply List.getElem?_eq_none; simp; omega
          simp [h2, hn, h3]

theorem Parts.length_insert (ps : Parts) (k : Nat) (d : List UInt8) :
    (ps.insert k d).length = max ps.length (k + 1) := by
  unfold Parts.insert
  split <;> simp <;> omega

theorem Parts.count_le (ps : Parts) : ps.count ≤ ps.length := List.countP_le_length

/-- With at most `n` slots, `VecMap::len() == n` says exactly that slots `0..n` are all occupied. -/
theorem Parts.count_eq_iff (ps : Parts) (n : Nat) (h : ps.length ≤ n) :
    ps.count = n ↔ ∀ i, i < n → ps.contains i = true := by
  constructor
  · intro hc i hi
    have hl : ps.length = n := by have := ps.count_le; omega
    have hall := (List.countP_eq_length (l := ps) (p := Option.isSome)).mp (by unfold Parts.count at hc; omega)
    have hi' : i < ps.length := by omega
    unfold Parts.contains
    rw [List.getD_eq_getElem?_getD, List.getElem?_eq_getElem hi']
    exact hall _ (List.getElem_mem hi')
  · intro hall
    have hl : ps.length = n := by
      by_cases hlt : ps.length < n
      · have := hall ps.length hlt
        unfold Parts.contains at this
        simp [List.getD_eq_getElem?_getD] at this
      · omega
    unfold Parts.count
    rw [← hl]
    apply List.countP_eq_length.mpr
    intro a ha
    obtain ⟨i, hi, rfl⟩ := List.getElem_of_mem ha
    have := hall i (by omega)
    unfold Parts.contains at this
    rw [List.getD_eq_getElem?_getD, List.getElem?_eq_getElem hi] at this
    exact this

/-- A full part map whose slot `i` holds `f i` concatenates to the concatenation of the `f i`. -/
theorem Parts.concat_full (ps : Parts) (n : Nat) (f : Nat → List UInt8) (hl : ps.length = n)
    (hf : ∀ i, i < n → ps.getD i none = some (f i)) :
    ps.concat = ((List.range n).map f).flatten := by
  have : ps = (List.range n).map (fun i => some (f i)) := by
    apply List.ext_getElem?
    intro i
    by_cases hi : i < n
    · have := hf i hi
      rw [List.getD_eq_getElem?_getD, List.getElem?_eq_getElem (by omega)] at this
      simp [hi, List.getElem?_eq_getElem (hl ▸ hi)]
      simpa using this
    · simp [hi]; omega
  unfold Parts.concat
  rw [this, List.filterMap_map]
  congr 1
  induction (List.range n) with
  | nil => rfl
  | cons a l ih => simp

/-! ### the chunker -/

theorem flatten_chunks (data : List UInt8) (n : Nat) :
    ((List.range n).map (chunk data)).flatten = data.take (partSize * n) := by
  induction n with
  | zero => simp
  | succ n ih =>
    rw [List.range_succ, List.map_append, List.flatten_append, ih]
    simp [chunk, Nat.mul_succ, List.take_add]

theorem flatten_all_chunks (data : List UInt8) :
    ((List.range (numParts data.length)).map (chunk data)).flatten = data := by
  rw [flatten_chunks]
  exact List.take_of_length_le (numParts_cover _)

/-! ### single steps of the receiver on a consistent multi-part transfer -/

/-- message `i` of the multi-part form of `delta_chunks(tick, base, data, crc)` -/
def partMsg (tick base crc : Int) (data : List UInt8) (i : Nat) : Msg :=
  Msg.snap tick (wrapSub tick base) (numParts data.length : Nat) (i : Nat) crc (chunk data i)

/-- the `CurrentDelta` the receiver keeps while the transfer is in progress -/
def curOf (tick base crc : Int) (data : List UInt8) : Current :=
  { tick := tick, deltaTick := base, numParts := (numParts data.length : Nat), crc := crc }

/-- Receiver state in the middle of the transfer; `seen i` says whether part `i` has arrived. -/
structure Mid (tick base crc : Int) (data : List UInt8) (seen : Nat → Prop) (r : Receiver) : Prop where
  cur : r.current = some (curOf tick base crc data)
  len : r.parts.length ≤ numParts data.length
  got : ∀ i, seen i → r.parts.getD i none = some (chunk data i)
  free : ∀ i, ¬ seen i → r.parts.getD i none = none

section
variable {tick base crc : Int} {data : List UInt8} {seen : Nat → Prop} {r : Receiver} {k : Nat}

theorem step_mid_dup (hb : inI32 base) (hn : numParts data.length ≤ maxParts)
    (hm : Mid tick base crc data seen r) (hk : k < numParts data.length) (hs : seen k) :
    r.step (partMsg tick base crc data k) = (r, .error .duplicatePart, []) := by
  have hc : r.canReceive tick = true := by simp [Receiver.canReceive, hm.cur, curOf]
  have he : r.enter tick (wrapSub tick base) (numParts data.length : Nat) crc
      = (r, curOf tick base crc data) := by simp [Receiver.enter, hm.cur, curOf]
  have hcon : r.parts.contains k = true := by unfold Parts.contains; rw [hm.got k hs]; rfl
  have h1 : ((numParts data.length : Nat) : Int) ≤ (maxParts : Nat) := by exact_mod_cast hn
  have h2 : ((k : Nat) : Int) < (numParts data.length : Nat) := by exact_mod_cast hk
  simp [Receiver.step, partMsg, Receiver.snap, hc, he, hcon, h1, h2, curOf, wrapSub_wrapSub tick base hb]

theorem Mid.insert (hm : Mid tick base crc data seen r) (hk : k < numParts data.length) :
    Mid tick base crc data (fun i => i = k ∨ seen i)
      { r with parts := r.parts.insert k (chunk data k) } where
  cur := hm.cur
  len := by
    have := hm.len
    simp only [Parts.length_insert]; omega
  got := by
    intro i hi
    simp only [Parts.getD_insert]
    by_cases hik : i = k
    · simp [hik]
    · simp only [hik, if_false]
      exact hm.got i (hi.resolve_left hik)
  free := by
    intro i hi
    simp only [Parts.getD_insert]
    have hik : ¬ i = k := fun e => hi (Or.inl e)
    simp only [hik, if_false]
    exact hm.free i (fun h => hi (Or.inr h))

theorem Mid.count_iff (hm : Mid tick base crc data seen r) :
    r.parts.count = numParts data.length ↔ ∀ i, i < numParts data.length → seen i := by
  rw [Parts.count_eq_iff _ _ hm.len]
  constructor
  · intro h i hi
    have := h i hi
    by_cases hs : seen i
    · exact hs
    · unfold Parts.contains at this; rw [hm.free i hs] at this; simp at this
  · intro h i hi
    unfold Parts.contains; rw [hm.got i (h i hi)]; rfl

theorem Mid.concat_all (hm : Mid tick base crc data seen r)
    (hall : ∀ i, i < numParts data.length → seen i) : r.parts.concat = data := by
  have hl : r.parts.length = numParts data.length := by
    have h1 := (hm.count_iff).mpr hall
    have h2 := r.parts.count_le
    have h3 := hm.len
    omega
  rw [Parts.concat_full r.parts _ (chunk data) hl (fun i hi => hm.got i (hall i hi))]
  exact flatten_all_chunks data

theorem step_mid_new (hb : inI32 base) (hn : numParts data.length ≤ maxParts)
    (hm : Mid tick base crc data seen r) (hk : k < numParts data.length) (hs : ¬ seen k)
    (hinc : ¬ ∀ i, i < numParts data.length → (i = k ∨ seen i)) :
    r.step (partMsg tick base crc data k)
      = ({ r with parts := r.parts.insert k (chunk data k) }, .ok none, []) := by
  have hc : r.canReceive tick = true := by simp [Receiver.canReceive, hm.cur, curOf]
  have he : r.enter tick (wrapSub tick base) (numParts data.length : Nat) crc
      = (r, curOf tick base crc data) := by simp [Receiver.enter, hm.cur, curOf]
  have hcon : r.parts.contains k = false := by unfold Parts.contains; rw [hm.free k hs]; rfl
  have h1 : ((numParts data.length : Nat) : Int) ≤ (maxParts : Nat) := by exact_mod_cast hn
  have h2 : ((k : Nat) : Int) < (numParts data.length : Nat) := by exact_mod_cast hk
  have hcnt : (r.parts.insert k (chunk data k)).count ≠ numParts data.length := by
    intro h
    exact hinc (((hm.insert hk).count_iff).mp h)
  have hcnt' : ¬ (((r.parts.insert k (chunk data k)).count : Nat) : Int) = (numParts data.length : Nat) := by
    exact_mod_cast hcnt
  simp [Receiver.step, partMsg, Receiver.snap, hc, he, hcon, h1, h2, curOf, wrapSub_wrapSub tick base hb, hcnt']

theorem step_mid_last (hb : inI32 base) (hn : numParts data.length ≤ maxParts)
    (hm : Mid tick base crc data seen r) (hk : k < numParts data.length) (hs : ¬ seen k)
    (hall : ∀ i, i < numParts data.length → (i = k ∨ seen i)) :
    r.step (partMsg tick base crc data k)
      = ({ r with parts := r.parts.insert k (chunk data k), current := none, previousTick := some tick },
         .ok (some { deltaTick := base, tick := tick, dataCrc := some (data, crc) }), []) := by
  have hc : r.canReceive tick = true := by simp [Receiver.canReceive, hm.cur, curOf]
  have he : r.enter tick (wrapSub tick base) (numParts data.length : Nat) crc
      = (r, curOf tick base crc data) := by simp [Receiver.enter, hm.cur, curOf]
  have hcon : r.parts.contains k = false := by unfold Parts.contains; rw [hm.free k hs]; rfl
  have h1 : ((numParts data.length : Nat) : Int) ≤ (maxParts : Nat) := by exact_mod_cast hn
  have h2 : ((k : Nat) : Int) < (numParts data.length : Nat) := by exact_mod_cast hk
  have hcnt : (r.parts.insert k (chunk data k)).count = numParts data.length :=
    ((hm.insert hk).count_iff).mpr hall
  have hcat : (r.parts.insert k (chunk data k)).concat = data := (hm.insert hk).concat_all hall
  simp [Receiver.step, partMsg, Receiver.snap, hc, he, hcon, h1, h2, curOf, wrapSub_wrapSub tick base hb, hcnt, hcat]

end

/-! ### vocabulary of the C12 statement -/

/-- `tick` is newer than everything the receiver knows of: it can be received, and no transfer for
`tick` itself is in progress. -/
def Fresh (r : Receiver) (tick : Int) : Prop := ∀ t, r.newest = some t → t < tick

def optMax : Option Int → Int → Option Int
  | none, t => some t
  | some a, t => some (max a t)

/-- the newest tick seen so far: by the receiver before the sequence started, or in one of the
messages `pre` that have arrived since -/
def newestSeen (r : Receiver) (pre : List Msg) : Option Int :=
  pre.foldl (fun a m => optMax a m.tick) r.newest

/-- every message of the transfer occurs in `pre` -/
def SeenAll (msgs pre : List Msg) : Prop := ∀ x, x ∈ msgs → x ∈ pre

/-- Admissible message sequences: each message is one of the transfer's messages `msgs`, or a
message whose tick is older than the newest tick seen so far at the moment it arrives. -/
def Admissible (r : Receiver) (msgs : List Msg) (ms : List Msg) : Prop :=
  ∀ pre m post, ms = pre ++ m :: post →
    m ∈ msgs ∨ ∃ t, newestSeen r pre = some t ∧ m.tick < t

theorem newestSeen_snoc (r : Receiver) (pre : List Msg) (m : Msg) :
    newestSeen r (pre ++ [m]) = optMax (newestSeen r pre) m.tick := by
  simp [newestSeen, List.foldl_append]

theorem after_snoc (r : Receiver) (pre : List Msg) (m : Msg) :
    r.after (pre ++ [m]) = ((r.after pre).step m).1 := by
  induction pre generalizing r with
  | nil => rfl
  | cons a l ih => simp [Receiver.after, ih]

theorem run_snoc (r : Receiver) (pre : List Msg) (m : Msg) :
    r.run (pre ++ [m]) = r.run pre ++ [((r.after pre).step m).2] := by
  induction pre generalizing r with
  | nil => rfl
  | cons a l ih => simp [Receiver.run, Receiver.after, ih]

theorem step_of_not_canReceive (r : Receiver) (m : Msg) (h : r.canReceive m.tick = false) :
    r.step m = (r, .error .oldDelta, []) := by
  cases m <;> simp [Receiver.step, Receiver.snap, Receiver.snapEmpty, Receiver.snapSingle, Msg.tick] at h ⊢ <;>
    simp [h]

/-- Messages of a tick older than the newest tick the receiver knows of are refused with
`OldDelta`, silently, without any change of the receiver state — in every state. -/
theorem older_rejected (r : Receiver) (m : Msg) (t : Int) (hn : r.newest = some t) (h : m.tick < t) :
    r.step m = (r, .error .oldDelta, []) := by
  apply step_of_not_canReceive
  unfold Receiver.newest at hn
  unfold Receiver.canReceive
  cases hcur : r.current with
  | some c => simp [hcur] at hn ⊢; omega
  | none => simp [hcur] at hn ⊢; simp [hn]; omega

/-- after completion everything for the tick (or older) is refused -/
theorem step_done (r : Receiver) (m : Msg) (tick : Int) (hc : r.current = none)
    (hp : r.previousTick = some tick) (h : m.tick ≤ tick) :
    r.step m = (r, .error .oldDelta, []) := by
  apply step_of_not_canReceive
  simp [Receiver.canReceive, hc, hp]; omega

theorem Fresh.canReceive {r : Receiver} {tick : Int} (h : Fresh r tick) : r.canReceive tick = true := by
  unfold Fresh Receiver.newest at h
  unfold Receiver.canReceive
  cases hcur : r.current with
  | some c => have := h c.tick (by simp [hcur]); simp; omega
  | none =>
    cases hp : r.previousTick with
    | none => rfl
    | some p => have := h p (by simp [hcur, hp]); simp; omega

theorem Fresh.dupWarn {r : Receiver} {tick : Int} (h : Fresh r tick) : r.dupWarn tick = [] := by
  unfold Fresh Receiver.newest at h
  unfold Receiver.dupWarn
  cases hcur : r.current with
  | some c => have := h c.tick (by simp [hcur]); simp; omega
  | none => rfl

theorem Fresh.optMax {r : Receiver} {tick : Int} (h : Fresh r tick) : optMax r.newest tick = some tick := by
  unfold Fresh at h
  cases hn : r.newest with
  | none => rfl
  | some t => have := h t hn; simp [Tw.SnapXfer.optMax]; omega

section
variable {tick base crc : Int} {data : List UInt8} {r : Receiver} {k : Nat}

/-- the state right after the first part of a new transfer was accepted, minus that part -/
def startOf (tick base crc : Int) (data : List UInt8) (r : Receiver) : Receiver :=
  { r with current := some (curOf tick base crc data), parts := [] }

theorem startOf_mid : Mid tick base crc data (fun _ => False) (startOf tick base crc data r) where
  cur := rfl
  len := by simp [startOf]
  got := by intro i hi; exact hi.elim
  free := by intro i _; simp [startOf]

theorem step_fresh_part (hb : inI32 base) (hn : numParts data.length ≤ maxParts)
    (hk : k < numParts data.length) (hf : Fresh r tick) :
    r.step (partMsg tick base crc data k) = (startOf tick base crc data r).step (partMsg tick base crc data k) := by
  have hc : r.canReceive tick = true := hf.canReceive
  have hc' : (startOf tick base crc data r).canReceive tick = true := by
    simp [Receiver.canReceive, startOf, curOf]
  have he : r.enter tick (wrapSub tick base) (numParts data.length : Nat) crc
      = (startOf tick base crc data r, curOf tick base crc data) := by
    unfold Fresh Receiver.newest at hf
    unfold Receiver.enter
    cases hcur : r.current with
    | some c =>
      have := hf c.tick (by simp [hcur])
      have hne : ¬ c.tick = tick := by omega
      simp [hne, startOf, curOf, wrapSub_wrapSub tick base hb]
    | none => simp [startOf, curOf, wrapSub_wrapSub tick base hb]
  have he' : (startOf tick base crc data r).enter tick (wrapSub tick base) (numParts data.length : Nat) crc
      = (startOf tick base crc data r, curOf tick base crc data) := by
    simp [Receiver.enter, startOf, curOf]
  have h1 : ((numParts data.length : Nat) : Int) ≤ (maxParts : Nat) := by exact_mod_cast hn
  have h2 : ((k : Nat) : Int) < (numParts data.length : Nat) := by exact_mod_cast hk
  simp [Receiver.step, partMsg, Receiver.snap, hc, hc', he, he', h1, h2]

theorem step_fresh_single (hb : inI32 base) (hf : Fresh r tick) :
    r.step (.single tick (wrapSub tick base) crc data)
      = ({ r with parts := [], current := none, previousTick := some tick },
         .ok (some { deltaTick := base, tick := tick, dataCrc := some (data, crc) }), []) := by
  simp [Receiver.step, Receiver.snapSingle, hf.canReceive, hf.dupWarn, wrapSub_wrapSub tick base hb]

theorem step_fresh_empty (hb : inI32 base) (hf : Fresh r tick) :
    r.step (.empty tick (wrapSub tick base))
      = ({ r with parts := [], current := none, previousTick := some tick },
         .ok (some { deltaTick := base, tick := tick, dataCrc := none }), []) := by
  simp [Receiver.step, Receiver.snapEmpty, hf.canReceive, hf.dupWarn, wrapSub_wrapSub tick base hb]

end

end Tw.SnapXfer
