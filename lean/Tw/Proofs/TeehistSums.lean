import Tw.Proofs.TeehistTicks

/-! Positions and inputs reported by the reference semantics are the exact running sums of the
recorded differences, reduced modulo 2^32 (`Spec.expectedItems`). -/
namespace Tw.Teehistorian
open Tw.Packer Spec

/-! ### Arithmetic -/

theorem wrap32_wrap32_add (a d : Int) : wrap32 (wrap32 a + d) = wrap32 (a + d) := by
  unfold wrap32; omega

theorem wrap32_of_inI32 {v : Int} (h : inI32 v) : wrap32 v = v := by
  unfold inI32 at h; unfold wrap32
  have h1 : (2 : Int) ^ 31 = 2147483648 := by decide
  rw [h1] at h; omega

theorem toI32_inI32 (r : Nat) : inI32 (toI32 r) := by
  unfold inI32 toI32
  have h1 : (2 : Int) ^ 31 = 2147483648 := by decide
  have h2 : (2 : Int) ^ 32 = 4294967296 := by decide
  have h3 : (2 : Nat) ^ 31 = 2147483648 := by decide
  have h4 : (2 : Nat) ^ 32 = 4294967296 := by decide
  rw [h1, h2, h3, h4]
  split <;> omega

theorem readInt_inI32 {inp rest : List UInt8} {v : Int} {ws : List Warning}
    (h : readInt inp = some (v, rest, ws)) : inI32 v := by
  cases inp with
  | nil => simp [readInt] at h
  | cons b0 tl =>
    unfold readInt at h
    simp only at h
    cases ht : readTail 4 (b0.toNat % 64) b0 1 tl [] with
    | none => rw [ht] at h; simp at h
    | some t =>
      obtain ⟨acc, src, len, rest', ws0⟩ := t
      rw [ht] at h
      simp only [Option.some.injEq, Prod.mk.injEq] at h
      rw [← h.1]
      exact toI32_inI32 _

theorem pInt_inI32 {s r : List UInt8} {v : Int} (h : pInt s = .ok v r) : inI32 v := by
  unfold pInt at h
  cases hr : readInt s with
  | none => rw [hr] at h; simp at h
  | some t =>
    obtain ⟨v', rest, ws⟩ := t
    rw [hr] at h
    simp only [PR.ok.injEq] at h
    rw [← h.1]; exact readInt_inI32 hr

theorem pInts_inI32 : ∀ (n : Nat) (s r : List UInt8) (vs : List Int), pInts n s = .ok vs r →
    ∀ v ∈ vs, inI32 v := by
  intro n
  induction n with
  | zero =>
    intro s r vs h
    rw [pure_ok (x := ([] : List Int)) h]
    intro v hv; simp at hv
  | succ n ih =>
    intro s r vs h
    unfold pInts at h
    obtain ⟨v0, r1, h0, h⟩ := andThen_ok h
    obtain ⟨vs', r2, h1, h⟩ := andThen_ok h
    rw [pure_ok h]
    intro v hv
    simp only [List.mem_cons] at hv
    cases hv with
    | inl hv => subst hv; exact pInt_inI32 h0
    | inr hv => exact ih _ _ _ h1 v hv

/-- The absolute values a record carries are `i32`s. -/
def ItemInRange : FItem → Prop
  | .playerNew _ x y => inI32 x ∧ inI32 y
  | .inputNew _ v => ∀ a ∈ v, inI32 a
  | _ => True

theorem parseRest_range {k : Kind} {s r : List UInt8} {it : FItem} (h : parseRest k s = .ok it r) :
    ItemInRange it := by
  have hm := parseRest_matches h
  cases k with
  | playerNew c =>
    obtain ⟨x, _, hx, h⟩ := andThen_ok h
    obtain ⟨y, _, hy, h⟩ := andThen_ok h
    rw [pure_ok h]
    exact ⟨pInt_inI32 hx, pInt_inI32 hy⟩
  | inputNew =>
    obtain ⟨_, _, _, h⟩ := andThen_ok h
    obtain ⟨vs, _, hv, h⟩ := andThen_ok h
    rw [pure_ok h]
    exact pInts_inI32 _ _ _ _ hv
  | _ => cases it <;> simp [itemMatches] at hm <;> simp [ItemInRange]

theorem parseAll_range (hasEx : Bool) : ∀ (f : Nat) (s : List UInt8),
    ∀ r ∈ (parseAll hasEx f s).1, ItemInRange r.item := by
  intro f
  induction f with
  | zero => intro s r h; simp [parseAll] at h
  | succ f ih =>
    intro s
    unfold parseAll
    cases hk : parseKind hasEx s with
    | needMore => simp
    | err e => simp
    | ok k rest =>
      simp only
      cases hr : parseRest k rest with
      | needMore => simp
      | err e => simp
      | ok it rest' =>
        have hrg := parseRest_range hr
        simp only
        split
        · intro r h; simp only [List.mem_singleton] at h; subst h; exact hrg
        · intro r h
          simp only [List.mem_cons] at h
          cases h with
          | inl h => subst h; exact hrg
          | inr h => exact ih rest' r h

/-! ### Tables -/

theorem tGet_tErase {β : Type} (t : List (Nat × β)) (k k' : Nat) :
    tGet (tErase t k) k' = if k' = k then none else tGet t k' := by
  induction t with
  | nil => simp [tErase, tGet]
  | cons p t ih =>
    obtain ⟨a, v⟩ := p
    unfold tErase
    by_cases h : a = k
    · simp only [h, if_true, ih]
      by_cases h' : k' = k
      · simp [h']
      · simp only [h', if_false, tGet]
        have : ¬ k = k' := fun e => h' e.symm
        simp [this]
    · simp only [h, if_false, tGet, ih]
      by_cases h' : k' = k
      · subst h'; simp [h]
      · simp [h']

theorem tGet_tSet {β : Type} (t : List (Nat × β)) (k k' : Nat) (v : β) :
    tGet (tSet t k v) k' = if k' = k then some v else tGet t k' := by
  unfold tSet
  simp only [tGet, tGet_tErase]
  by_cases h : k' = k
  · simp [h]
  · have : ¬ k = k' := fun e => h e.symm
    simp [h, this]

theorem zipAdd_map_wrap : ∀ (v d : List Int), zipAdd (v.map wrap32) d = (addLists v d).map wrap32 := by
  intro v
  induction v with
  | nil => intro d; simp [zipAdd, addLists]
  | cons a v ih =>
    intro d
    cases d with
    | nil => simp [zipAdd, addLists]
    | cons b d => simp [zipAdd, addLists, ih, wrap32_wrap32_add]

theorem map_wrap32_id {v : List Int} (h : ∀ a ∈ v, inI32 a) : v.map wrap32 = v := by
  induction v with
  | nil => rfl
  | cons a v ih =>
    simp only [List.map_cons]
    rw [wrap32_of_inI32 (h a (List.mem_cons_self ..)), ih (fun b hb => h b (List.mem_cons_of_mem _ hb))]

/-! ### The invariant -/

def wrapPos (p : Int × Int) : Int × Int := (wrap32 p.1, wrap32 p.2)

/-- The reader's tables hold the exact sums reduced modulo 2^32. -/
def InvS (rd : Reader) (S : Sums) : Prop :=
  (∀ c, tGet rd.players c = (S.pos c).map wrapPos) ∧
  (∀ c, tGet rd.inputs c = (S.inp c).map (fun v => v.map wrap32))

theorem reported_ticks {its : List Item} (h : its.all isTick = true) (b : List Item) :
    reported (its ++ b) = reported b := by
  unfold reported
  rw [List.filter_append]
  have : its.filter (fun it => !isTick it) = [] := by
    rw [List.filter_eq_nil_iff]
    intro a ha
    rw [List.all_eq_true] at h
    simp [h a ha]
  rw [this]; rfl

theorem pre_emit_isTick {rd rd' : Reader} {k : Kind} {it : Item} (h : rd.pre k = .emit it rd') :
    isTick it = true := by
  unfold Reader.pre at h
  repeat' split at h
  all_goals first
    | (simp at h; done)
    | (simp only [Pre.emit.injEq] at h; rw [← h.1]; rfl)

theorem preAll_allTicks : ∀ (n : Nat) (rd : Reader) (k : Kind), (preAll n rd k).1.all isTick = true := by
  intro n
  induction n with
  | zero => intro rd k; rfl
  | succ n ih =>
    intro rd k
    unfold preAll
    cases hpre : rd.pre k with
    | proceed => rfl
    | err e => rfl
    | emit it rd' =>
      simp only [List.all_cons, pre_emit_isTick hpre, Bool.true_and]
      exact ih _ k

/-- `Reader.pre` does not touch the tables. -/
theorem pre_tables {rd rd' : Reader} {k : Kind} {it : Item} (h : rd.pre k = .emit it rd') :
    rd'.players = rd.players ∧ rd'.inputs = rd.inputs := by
  unfold Reader.pre at h
  repeat' split at h
  all_goals first
    | (simp at h; done)
    | (simp only [Pre.emit.injEq] at h; rw [← h.2]; exact ⟨rfl, rfl⟩)

theorem preAll_tables : ∀ (n : Nat) (rd rd2 : Reader) (k : Kind) (its : List Item),
    preAll n rd k = (its, .ready rd2) → rd2.players = rd.players ∧ rd2.inputs = rd.inputs := by
  intro n
  induction n with
  | zero => intro rd rd2 k its h; simp [preAll] at h
  | succ n ih =>
    intro rd rd2 k its h
    unfold preAll at h
    cases hpre : rd.pre k with
    | proceed =>
      rw [hpre] at h
      simp only [Prod.mk.injEq, PreEnd.ready.injEq] at h
      rw [← h.2]; exact ⟨rfl, rfl⟩
    | err e => rw [hpre] at h; simp at h
    | emit it rd' =>
      rw [hpre] at h
      simp only [Prod.mk.injEq] at h
      have := ih _ rd2 k (preAll n { rd' with nextKind := none } k).1 (by rw [← h.2])
      obtain ⟨h1, h2⟩ := pre_tables hpre
      exact ⟨this.1.trans h1, this.2.trans h2⟩

theorem invS_of_tables {rd rd' : Reader} {S : Sums} (h : InvS rd S)
    (hp : rd'.players = rd.players) (hi : rd'.inputs = rd.inputs) : InvS rd' S := by
  unfold InvS; rw [hp, hi]; exact h

/-- One reported record: the item is the expected one and the invariant is re-established. -/
theorem post_sums {rd rd' : Reader} {S : Sums} {m : FItem} {out : Item}
    (hI : InvS rd S) (hrg : ItemInRange m) (hnts : ∀ dt, m ≠ .tickSkip dt)
    (h : rd.post m = .item out rd') :
    expectedItem S m = some out ∧ InvS rd' (S.step m) := by
  obtain ⟨hP, hN⟩ := hI
  unfold Reader.post at h
  cases m with
  | tickSkip dt => exact absurd rfl (hnts dt)
  | finish => simp at h
  | other o =>
    simp only [Post.item.injEq] at h
    obtain ⟨rfl, rfl⟩ := h
    refine ⟨rfl, ?_⟩
    simp only [FItem.cid]
    split <;> exact ⟨hP, hN⟩
  | playerNew c x y =>
    simp only [FItem.cid] at h
    split at h
    · simp at h
    · split at h
      · simp at h
      · simp only [Post.item.injEq] at h
        obtain ⟨rfl, rfl⟩ := h
        refine ⟨rfl, ?_, hN⟩
        intro c'
        simp only [Sums.step, setAt, tGet_tSet]
        split
        · simp [wrapPos, wrap32_of_inI32 hrg.1, wrap32_of_inI32 hrg.2]
        · exact hP c'
  | playerDiff c dx dy =>
    simp only [FItem.cid] at h
    split at h
    · simp at h
    · rename_i hc
      split at h
      · simp at h
      · rename_i x y hget
        simp only [Post.item.injEq] at h
        obtain ⟨rfl, rfl⟩ := h
        have := hP c.toNat
        rw [hget] at this
        cases hS : S.pos c.toNat with
        | none => rw [hS] at this; simp at this
        | some XY =>
          obtain ⟨X, Y⟩ := XY
          rw [hS] at this
          simp only [Option.map_some, Option.some.injEq, wrapPos, Prod.mk.injEq] at this
          obtain ⟨hx, hy⟩ := this
          refine ⟨?_, ?_, fun c' => by simp only [Sums.step, hS]; exact hN c'⟩
          · simp only [expectedItem, hS, hx, hy, wrap32_wrap32_add]
          · intro c'
            simp only [Sums.step, hS, setAt, tGet_tSet]
            split
            · simp [wrapPos, hx, hy, wrap32_wrap32_add]
            · exact hP c'
  | playerOld c =>
    simp only [FItem.cid] at h
    split at h
    · simp at h
    · split at h
      · simp at h
      · rename_i x y hget
        simp only [Post.item.injEq] at h
        obtain ⟨rfl, rfl⟩ := h
        have := hP c.toNat
        rw [hget] at this
        cases hS : S.pos c.toNat with
        | none => rw [hS] at this; simp at this
        | some XY =>
          obtain ⟨X, Y⟩ := XY
          rw [hS] at this
          simp only [Option.map_some, Option.some.injEq, wrapPos, Prod.mk.injEq] at this
          obtain ⟨hx, hy⟩ := this
          refine ⟨?_, ?_, hN⟩
          · simp only [expectedItem, hS, hx, hy]
          · intro c'
            simp only [Sums.step, setAt, tGet_tErase]
            split
            · simp
            · exact hP c'
  | inputNew c v =>
    simp only [FItem.cid] at h
    split at h
    · simp at h
    · simp only [Post.item.injEq] at h
      obtain ⟨rfl, rfl⟩ := h
      refine ⟨rfl, hP, ?_⟩
      intro c'
      simp only [Sums.step, setAt, tGet_tSet]
      split
      · simp [map_wrap32_id hrg]
      · exact hN c'
  | inputDiff c d =>
    simp only [FItem.cid] at h
    split at h
    · simp at h
    · split at h
      · simp at h
      · rename_i inp hget
        simp only [Post.item.injEq] at h
        obtain ⟨rfl, rfl⟩ := h
        have := hN c.toNat
        rw [hget] at this
        cases hS : S.inp c.toNat with
        | none => rw [hS] at this; simp at this
        | some V =>
          rw [hS] at this
          simp only [Option.map_some, Option.some.injEq] at this
          refine ⟨?_, fun c' => by simp only [Sums.step, hS]; exact hP c', ?_⟩
          · simp only [expectedItem, hS, this, zipAdd_map_wrap]
          · intro c'
            simp only [Sums.step, hS, setAt, tGet_tSet]
            split
            · simp [this, zipAdd_map_wrap]
            · exact hN c'

theorem post_tickSkip_tables {rd rd' : Reader} {dt : Int} {out : Item}
    (h : rd.post (.tickSkip dt) = .item out rd') :
    isTick out = true ∧ rd'.players = rd.players ∧ rd'.inputs = rd.inputs := by
  rw [post_tickSkip] at h
  repeat' split at h
  all_goals first
    | (simp at h; done)
    | (simp only [Post.item.injEq] at h; obtain ⟨rfl, rfl⟩ := h; exact ⟨rfl, rfl, rfl⟩)

theorem interp_sums (cfg : Cfg) : ∀ (rs : List Rec) (t : Tail) (rd : Reader) (S : Sums),
    (∀ r ∈ rs, RecWf r ∧ ItemInRange r.item) → InvS rd S →
    ((reported (interp cfg rd rs t).items).map some <+: expectedItems S (rs.map Rec.item)) ∧
    ((interp cfg rd rs t).final = .finished →
      (reported (interp cfg rd rs t).items).map some = expectedItems S (rs.map Rec.item)) := by
  intro rs
  induction rs with
  | nil =>
    intro t rd S _ _
    have key : ∀ k, reported (preAll 4 rd k).1 = [] := by
      intro k
      have := reported_ticks (preAll_allTicks 4 rd k) []
      simpa [reported] using this
    unfold interp
    cases t with
    | afterFinish => simp [reported]
    | outOfFuel => simp [reported]
    | kindEnd => simp [reported]
    | kindErr e => simp [reported]
    | restEnd k =>
      have hk := key k
      cases hp : preAll 4 rd k with
      | mk its pe => rw [hp] at hk; cases pe <;> simp [hp, hk]
    | restErr k e =>
      have hk := key k
      cases hp : preAll 4 rd k with
      | mk its pe => rw [hp] at hk; cases pe <;> simp [hp, hk]
  | cons r rs ih =>
    intro t rd S hwf hI
    obtain ⟨hr, hrg⟩ := hwf r (List.mem_cons_self ..)
    have hwf' : ∀ r' ∈ rs, RecWf r' ∧ ItemInRange r'.item := fun r' h => hwf r' (List.mem_cons_of_mem _ h)
    have hall := preAll_allTicks 4 rd r.kind
    have hrep : ∀ b, reported ((preAll 4 rd r.kind).1 ++ b) = reported b := reported_ticks hall
    have hrep0 : reported (preAll 4 rd r.kind).1 = [] := by
      have := hrep []; simpa [reported] using this
    unfold interp
    cases hp : preAll 4 rd r.kind with
    | mk its pe =>
      rw [hp] at hrep hrep0
      simp only at hrep hrep0
      cases pe with
      | stuck => simp [hrep0]
      | err e rd2 => simp [hrep0]
      | ready rd2 =>
        simp only
        obtain ⟨ht1, ht2⟩ := preAll_tables 4 rd rd2 r.kind its hp
        have hI2 : InvS rd2 S := invS_of_tables hI ht1 ht2
        have hcls := recwf_class hr
        simp only [List.map_cons]
        cases hm : msgKind r.item with
        | finish =>
          rw [hm] at hcls
          obtain ⟨rd3, hpost⟩ := post_finish rd2
          rw [hcls.2, hpost]
          simp [expectedItems, hrep0]
        | tickSkip dt =>
          rw [hm] at hcls
          obtain ⟨_, _, hi⟩ := hcls
          rw [hi]
          simp only [expectedItems]
          cases hpost : rd2.post (.tickSkip dt) with
          | finished rd3 =>
            exfalso
            rw [post_tickSkip] at hpost
            split at hpost
            · simp at hpost
            · split at hpost <;> simp at hpost
          | err e rd3 => simp [hrep0]
          | item out rd3 =>
            obtain ⟨hto, hp3, hi3⟩ := post_tickSkip_tables hpost
            have := ih t rd3 S hwf' (invS_of_tables hI2 hp3 hi3)
            simp only
            have hrep1 : reported (its ++ out :: (interp cfg rd3 rs t).items) = reported (interp cfg rd3 rs t).items := by
              rw [hrep]; unfold reported; simp [List.filter_cons, hto]
            rw [hrep1]; exact this
        | player c =>
          rw [hm] at hcls
          obtain ⟨_, _, _, hnts, hnf⟩ := hcls
          have hexp : expectedItems S (r.item :: rs.map Rec.item) =
              expectedItem S r.item :: expectedItems (S.step r.item) (rs.map Rec.item) := by
            cases hi : r.item <;> rw [hi] at hm <;> simp [msgKind] at hm <;> rfl
          rw [hexp]
          cases hpost : rd2.post r.item with
          | finished rd3 =>
            exfalso
            unfold Reader.post at hpost
            cases hi : r.item <;> rw [hi] at hpost hm <;> simp [msgKind] at hm <;>
              (simp only [FItem.cid] at hpost; repeat' split at hpost) <;> simp at hpost
          | err e rd3 => simp [hrep0]
          | item out rd3 =>
            obtain ⟨hnt, _, _, _⟩ := post_item_facts hpost hnts
            obtain ⟨hex, hI3⟩ := post_sums hI2 hrg hnts hpost
            have := ih t rd3 _ hwf' hI3
            simp only
            have hrep1 : reported (its ++ out :: (interp cfg rd3 rs t).items) = out :: reported (interp cfg rd3 rs t).items := by
              rw [hrep]; unfold reported; simp [List.filter_cons, hnt]
            rw [hrep1, hex]
            simp only [List.map_cons]
            exact ⟨(List.prefix_cons_inj _).mpr this.1, fun h => by rw [this.2 h]⟩
        | other =>
          rw [hm] at hcls
          obtain ⟨_, _, _, hnts, hnf⟩ := hcls
          have hexp : expectedItems S (r.item :: rs.map Rec.item) =
              expectedItem S r.item :: expectedItems (S.step r.item) (rs.map Rec.item) := by
            cases hi : r.item <;> rw [hi] at hm <;> simp [msgKind] at hm <;> rfl
          rw [hexp]
          cases hpost : rd2.post r.item with
          | finished rd3 =>
            exfalso
            unfold Reader.post at hpost
            cases hi : r.item <;> rw [hi] at hpost hm <;> simp [msgKind] at hm <;>
              (simp only [FItem.cid] at hpost; repeat' split at hpost) <;> simp at hpost
          | err e rd3 => simp [hrep0]
          | item out rd3 =>
            obtain ⟨hnt, _, _, _⟩ := post_item_facts hpost hnts
            obtain ⟨hex, hI3⟩ := post_sums hI2 hrg hnts hpost
            have := ih t rd3 _ hwf' hI3
            simp only
            have hrep1 : reported (its ++ out :: (interp cfg rd3 rs t).items) = out :: reported (interp cfg rd3 rs t).items := by
              rw [hrep]; unfold reported; simp [List.filter_cons, hnt]
            rw [hrep1, hex]
            simp only [List.map_cons]
            exact ⟨(List.prefix_cons_inj _).mpr this.1, fun h => by rw [this.2 h]⟩

end Tw.Teehistorian
