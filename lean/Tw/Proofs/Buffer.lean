import Tw.Model.Buffer

/-! Helper lemmas about the buffer model (`Tw.Model.Buffer`): what each operation does to the
initialised part, the counter and the capacity of a view, under the invariant `init ≤ mem.length`. -/
namespace Tw.Buffer
set_option linter.unusedSimpArgs false
set_option linter.unusedVariables false

/-- list equality by pointwise comparison -/
macro "list_ext" : tactic => `(tactic| (
  apply List.ext_getElem?
  intro k
  simp only [List.getElem?_set, List.getElem?_append, List.getElem?_take, List.getElem?_drop,
    List.getElem?_cons, List.getElem?_replicate, List.length_take, List.length_drop, List.length_append,
    List.length_cons, List.length_nil, List.length_set, List.length_replicate]
  grind))

/-! ### `splice` -/

theorem splice_length (mem : List UInt8) (i : Nat) (bs : List UInt8) (h : i + bs.length ≤ mem.length) :
    (splice mem i bs).length = mem.length := by
  simp [splice]; omega

theorem splice_take (mem : List UInt8) (i : Nat) (bs : List UInt8) (h : i ≤ mem.length) :
    (splice mem i bs).take (i + bs.length) = mem.take i ++ bs := by
  unfold splice; list_ext

theorem splice_take_le (mem : List UInt8) (i k : Nat) (bs : List UInt8) (h : i ≤ mem.length) (hk : k ≤ i) :
    (splice mem i bs).take k = mem.take k := by
  unfold splice; list_ext

theorem splice_nil (mem : List UInt8) (i : Nat) : splice mem i [] = mem := by
  simp [splice]

/-! ### the `extend` loop -/

theorem extendLoop_eq (bs : List UInt8) : ∀ (mem : List UInt8) (init : Nat), init ≤ mem.length →
    View.extendLoop mem init bs =
      (splice mem init (bs.take (mem.length - init)), init + min bs.length (mem.length - init),
        decide (bs.length ≤ mem.length - init)) := by
  induction bs with
  | nil => intro mem init h; simp [View.extendLoop, splice]
  | cons b bs ih =>
    intro mem init h
    unfold View.extendLoop
    by_cases hlt : init < mem.length
    · rw [if_pos hlt, ih (mem.set init b) (init + 1) (by simp; omega)]
      have e : mem.length - init = (mem.length - (init + 1)) + 1 := by omega
      simp only [List.length_set, List.length_cons]
      rw [e, List.take_succ_cons]
      refine Prod.ext ?_ (Prod.ext ?_ ?_)
      · simp only [splice]
        list_ext
      · simp <;> omega
      · simp <;> omega
    · rw [if_neg hlt]
      have e : mem.length - init = 0 := by omega
      simp [e, splice]

namespace View

/-- the invariant of a view: the counter never exceeds the capacity -/
def Wf (v : View) : Prop := v.init ≤ v.mem.length

instance (v : View) : Decidable v.Wf := by unfold Wf; infer_instance

/-- free space (total version of `remaining`, equal to it under `Wf`) -/
def room (v : View) : Nat := v.mem.length - v.init

/-- the initialised bytes (total version of `initialized`) -/
def done (v : View) : List UInt8 := v.mem.take v.init

theorem remaining_eq {v : View} (h : v.Wf) : v.remaining = some v.room := by
  simp [remaining, room, Wf.eq_1 v ▸ h]

theorem initialized_eq {v : View} (h : v.Wf) : v.initialized = some v.done := by
  simp [initialized, done, Wf.eq_1 v ▸ h]

theorem done_length {v : View} (h : v.Wf) : v.done.length = v.init := by
  simp [done, Nat.min_eq_left h]

/-- `extend` in closed form -/
theorem extend_eq {v : View} (h : v.Wf) (bs : List UInt8) :
    v.extend bs =
      ({ mem := splice v.mem v.init (bs.take v.room), init := v.init + min bs.length v.room },
        if bs.length ≤ v.room then .ok else .cap) := by
  unfold extend
  rw [if_pos (show v.init ≤ v.mem.length from h), extendLoop_eq bs v.mem v.init h]
  by_cases hb : bs.length ≤ v.mem.length - v.init <;> simp [hb, room]

theorem extend_wf {v : View} (h : v.Wf) (bs : List UInt8) : (v.extend bs).1.Wf := by
  rw [extend_eq h]
  simp only [Wf, room] at *
  rw [splice_length _ _ _ (by simp; omega)]
  omega

theorem extend_cap {v : View} (h : v.Wf) (bs : List UInt8) :
    (v.extend bs).1.mem.length = v.mem.length := by
  rw [extend_eq h]
  simp only [Wf, room] at *
  rw [splice_length _ _ _ (by simp; omega)]

theorem extend_init {v : View} (h : v.Wf) (bs : List UInt8) :
    (v.extend bs).1.init = v.init + min bs.length v.room := by
  rw [extend_eq h]

theorem extend_done {v : View} (h : v.Wf) (bs : List UInt8) :
    (v.extend bs).1.done = v.done ++ bs.take v.room := by
  rw [extend_eq h]
  simp only [done, Wf, room] at *
  have e : min bs.length (v.mem.length - v.init) = (bs.take (v.mem.length - v.init)).length := by simp; omega
  rw [e, splice_take _ _ _ h]

theorem extend_res {v : View} (h : v.Wf) (bs : List UInt8) :
    (v.extend bs).2 = if bs.length ≤ v.room then .ok else .cap := by
  rw [extend_eq h]

/-! ### `advance`, `poke`, `cap_at`, nested views -/

theorem advance_eq (v : View) (n : Nat) :
    v.advance n = if n ≤ v.room ∧ v.Wf then ({ v with init := v.init + n }, .ok) else (v, .panic) := by
  unfold advance room Wf
  by_cases h : v.init + n ≤ v.mem.length
  · rw [if_pos h, if_pos (by omega)]
  · by_cases h2 : v.init ≤ v.mem.length
    · rw [if_neg h, if_neg (by omega)]
    · rw [if_neg h, if_neg (by omega)]

theorem advance_wf {v : View} (h : v.Wf) (n : Nat) : (v.advance n).1.Wf := by
  rw [advance_eq]; split <;> simp_all [Wf, room] <;> omega

theorem advance_cap (v : View) (n : Nat) : (v.advance n).1.mem.length = v.mem.length := by
  rw [advance_eq]; split <;> rfl

theorem poke_wf {v : View} (h : v.Wf) (bs : List UInt8) : (v.poke bs).Wf := by
  simp only [Wf, poke] at *
  rw [splice_length _ _ _ (by simp; omega)]
  omega

theorem poke_cap {v : View} (h : v.Wf) (bs : List UInt8) : (v.poke bs).mem.length = v.mem.length := by
  simp only [Wf, poke] at *
  rw [splice_length _ _ _ (by simp; omega)]

theorem poke_init (v : View) (bs : List UInt8) : (v.poke bs).init = v.init := rfl

theorem poke_done {v : View} (h : v.Wf) (bs : List UInt8) : (v.poke bs).done = v.done := by
  simp only [done, poke, Wf] at *
  rw [splice_take_le _ _ _ _ h (Nat.le_refl _)]

/-- after the caller stored `bs` (which fits) through `uninitialized_mut`, the bytes right after the
initialised part are `bs` -/
theorem poke_take {v : View} (h : v.Wf) (bs : List UInt8) (hb : bs.length ≤ v.room) :
    (v.poke bs).mem.take (v.init + bs.length) = v.done ++ bs := by
  simp only [done, poke, Wf, room] at *
  rw [List.take_of_length_le hb, splice_take _ _ _ h]

theorem capAt_eq (v : View) (n : Nat) (h0 : v.init = 0) :
    v.capAt n = some { mem := v.mem.take (min n v.mem.length), init := 0 } := by
  simp [capAt, h0]

theorem foldl_min_le (cs : List Nat) (a : Nat) : cs.foldl min a ≤ a := by
  induction cs generalizing a with
  | nil => simp
  | cons x xs ih => simp only [List.foldl_cons]; exact Nat.le_trans (ih _) (Nat.min_le_left _ _)

theorem capAll_eq (caps : List Nat) : ∀ (v : View), v.init = 0 →
    v.capAll caps = some { mem := v.mem.take (caps.foldl min v.mem.length), init := 0 } := by
  induction caps with
  | nil => intro v h0; cases v; simp_all [capAll]
  | cons c cs ih =>
    intro v h0
    simp only [capAll, capAt_eq v c h0, List.foldl_cons]
    rw [ih _ rfl]
    simp only [List.length_take, List.take_take]
    have e3 : min (min c v.mem.length) v.mem.length = min v.mem.length c := by omega
    have hle := foldl_min_le cs (min v.mem.length c)
    rw [e3, Nat.min_eq_left (by omega)]

theorem child_eq {p : View} (h : p.Wf) : p.child = some { mem := p.mem.drop p.init, init := 0 } := by
  simp [child, Wf.eq_1 p ▸ h]

/-- a child view fits into its parent's free space -/
def Fits (c p : View) : Prop := c.mem.length ≤ p.room

theorem writeBack_wf {p c : View} (hp : p.Wf) (hc : c.Wf) (hf : c.Fits p) : (p.writeBack c).Wf := by
  simp only [Wf, writeBack, Fits, room] at *
  rw [splice_length] <;> omega

theorem writeBack_cap {p c : View} (_hp : p.Wf) (hf : c.Fits p) :
    (p.writeBack c).mem.length = p.mem.length := by
  simp only [Wf, writeBack, Fits, room] at *
  rw [splice_length]; omega

/-- releasing a nested view appends exactly its initialised bytes to the parent's -/
theorem writeBack_done {p c : View} (hp : p.Wf) (hc : c.Wf) (hf : c.Fits p) :
    (p.writeBack c).done = p.done ++ c.done := by
  simp only [done, Wf, writeBack, Fits, room, splice] at *
  list_ext

theorem writeBack_room {p c : View} (hp : p.Wf) (hf : c.Fits p) :
    (p.writeBack c).room = p.room - c.init := by
  simp only [room, writeBack_cap hp hf]
  simp only [writeBack]; omega

end View

/-! ### a sequence of writes through one view -/

/-- `b.write(xs₁); b.write(xs₂); …` with the individual results -/
def View.writeAll (v : View) : List (List UInt8) → View × List Res
  | [] => (v, [])
  | xs :: rest =>
    let r := v.extend xs
    let r2 := writeAll r.1 rest
    (r2.1, r.2 :: r2.2)

theorem View.extend_room {v : View} (h : v.Wf) (bs : List UInt8) :
    (v.extend bs).1.room = v.room - bs.length := by
  simp only [View.room, View.extend_cap h, View.extend_init h]
  simp only [View.Wf] at h; omega

theorem View.writeAll_spec (ws : List (List UInt8)) : ∀ {v : View}, v.Wf →
    (v.writeAll ws).1.Wf ∧ (v.writeAll ws).1.mem.length = v.mem.length ∧
    (v.writeAll ws).1.done = v.done ++ ws.flatten.take v.room ∧
    ((∀ r ∈ (v.writeAll ws).2, r = Res.ok) ↔ ws.flatten.length ≤ v.room) := by
  induction ws with
  | nil => intro v h; simp [View.writeAll, h]
  | cons xs rest ih =>
    intro v h
    have h1 := View.extend_wf h xs
    obtain ⟨i1, i2, i3, i4⟩ := ih h1
    simp only [View.writeAll, List.flatten_cons, List.mem_cons, forall_eq_or_imp]
    refine ⟨i1, i2.trans (View.extend_cap h xs), ?_, ?_⟩
    · rw [i3, View.extend_done h, View.extend_room h, List.take_append, List.append_assoc]
    · rw [i4, View.extend_room h, View.extend_res h, List.length_append]
      by_cases hx : xs.length ≤ v.room <;> simp [hx] <;> omega

namespace Store

/-- the invariant of a container -/
def Wf (s : Store) : Prop :=
  s.len ≤ s.buf.length ∧ ((s.kind = .slice ∨ s.kind = .sref) → s.len = 0)

/-- spare capacity -/
def room (s : Store) : Nat := s.buf.length - s.len

/-- a new outermost view can be made unless the caller's counter of a `raw` container is not 0 -/
def canOpen (s : Store) : Prop := ¬(s.kind = .raw ∧ s.len ≠ 0)

instance (s : Store) : Decidable s.canOpen := by unfold canOpen; infer_instance

theorem top_eq {s : Store} (h : s.Wf) (hc : s.canOpen) :
    s.top = some { mem := s.buf.drop s.len, init := 0 } := by
  unfold top
  rw [if_neg hc, if_pos h.1]

theorem top_none {s : Store} (hc : ¬s.canOpen) : s.top = none := by
  unfold top canOpen at *
  rw [if_pos (by simpa using hc)]

/-- whenever `top` yields a view it is the spare capacity with counter 0 -/
theorem top_some {s : Store} {b : View} (hb : s.top = some b) :
    b = { mem := s.buf.drop s.len, init := 0 } := by
  unfold top at hb
  split at hb
  · cases hb
  · split at hb
    · cases hb; rfl
    · cases hb

theorem release_vec {s : Store} {v : View} (hs : s.Wf) (hv : v.Wf) (hf : v.mem.length ≤ s.room)
    (hk : s.kind = .vec ∨ s.kind = .arr ∨ s.kind = .raw) :
    (s.release v).contents = s.contents ++ v.done ∧ (s.release v).len = s.len + v.init ∧
    (s.release v).buf.length = s.buf.length ∧ (s.release v).kind = s.kind := by
  obtain ⟨h1, _⟩ := hs
  simp only [View.Wf, room] at *
  have hl : (splice s.buf s.len v.mem).length = s.buf.length := splice_length _ _ _ (by omega)
  rcases hk with hk | hk | hk <;> simp only [release, contents, hk, View.done, hl, and_true, true_and]
  all_goals (unfold splice; list_ext)

theorem release_slice {s : Store} {v : View} (hs : s.Wf) (hv : v.Wf) (hf : v.mem.length ≤ s.room)
    (hk : s.kind = .slice) :
    (s.release v).contents.take v.init = v.done ∧ (s.release v).contents.length = s.contents.length ∧
    (s.release v).len = 0 ∧ (s.release v).kind = s.kind := by
  obtain ⟨kind, buf, len⟩ := s
  obtain ⟨h1, h2⟩ := hs
  have h0 : len = 0 := h2 (Or.inl hk)
  simp only at hk
  subst hk h0
  simp only [View.Wf, room] at *
  have hl : (splice buf 0 v.mem).length = buf.length := splice_length _ _ _ (by omega)
  simp only [release, contents, View.done, hl, and_true]
  unfold splice; list_ext

theorem release_sref {s : Store} {v : View} (hs : s.Wf) (hv : v.Wf) (hf : v.mem.length ≤ s.room)
    (hk : s.kind = .sref) :
    (s.release v).contents = v.done ∧ (s.release v).len = 0 ∧ (s.release v).kind = s.kind := by
  obtain ⟨kind, buf, len⟩ := s
  obtain ⟨h1, h2⟩ := hs
  have h0 : len = 0 := h2 (Or.inr hk)
  simp only at hk
  subst hk h0
  simp only [View.Wf, room] at *
  simp only [release, contents, View.done, and_true]
  unfold splice; list_ext

theorem release_wf {s : Store} {v : View} (hs : s.Wf) (hv : v.Wf) (hf : v.mem.length ≤ s.room) :
    (s.release v).Wf := by
  obtain ⟨h1, h2⟩ := hs
  simp only [View.Wf, room] at *
  have hl : (splice s.buf s.len v.mem).length = s.buf.length := splice_length _ _ _ (by omega)
  unfold release Wf
  cases hk : s.kind <;> simp_all <;> omega

end Store

/-! ### sessions: the invariant of the stack of live views -/

/-- every live view satisfies its invariant and lies inside the free space of its parent (the
outermost one inside the spare capacity `room` of the container) -/
def stackOk (room : Nat) : List View → Prop
  | [] => True
  | [v] => v.Wf ∧ v.mem.length ≤ room
  | c :: p :: rest => c.Wf ∧ c.Fits p ∧ stackOk room (p :: rest)

theorem stackOk_top_wf {room : Nat} {v : View} {rest : List View} (h : stackOk room (v :: rest)) : v.Wf := by
  cases rest with
  | nil => exact h.1
  | cons p r => exact h.1

/-- replacing the innermost view by one of the same capacity -/
theorem stackOk_update {room : Nat} {v v' : View} {rest : List View} (h : stackOk room (v :: rest))
    (hw : v'.Wf) (hl : v'.mem.length ≤ v.mem.length) : stackOk room (v' :: rest) := by
  cases rest with
  | nil => exact ⟨hw, Nat.le_trans hl h.2⟩
  | cons p r => exact ⟨hw, by simp only [View.Fits] at *; exact Nat.le_trans hl h.2.1, h.2.2⟩

theorem stackOk_pop {room : Nat} {c p : View} {rest : List View} (h : stackOk room (c :: p :: rest)) :
    stackOk room (p.writeBack c :: rest) := by
  obtain ⟨hc, hf, hp⟩ := h
  have hpw := stackOk_top_wf hp
  exact stackOk_update hp (View.writeBack_wf hpw hc hf) (Nat.le_of_eq (View.writeBack_cap hpw hf))

theorem unwindFrom_wf (st : Store) (hs : st.Wf) : ∀ (rest : List View) (c : View),
    stackOk st.room (c :: rest) → (unwindFrom st c rest).Wf
  | [], c, hv => Store.release_wf hs hv.1 hv.2
  | p :: rest, c, hv => unwindFrom_wf st hs rest _ (stackOk_pop hv)

theorem unwindStack_wf (st : Store) (vs : List View) (hs : st.Wf) (hv : stackOk st.room vs) :
    (unwindStack st vs).Wf := by
  cases vs with
  | nil => exact hs
  | cons c rest => exact unwindFrom_wf st hs rest c hv

theorem stackOk_mem {room : Nat} : ∀ {vs : List View}, stackOk room vs → ∀ v ∈ vs, v.Wf
  | [], _, v, hv => by cases hv
  | [w], h, v, hv => by simp at hv; subst hv; exact h.1
  | c :: p :: rest, h, v, hv => by
    rcases List.mem_cons.mp hv with e | hm
    · subst e; exact h.1
    · exact stackOk_mem h.2.2 v hm

namespace Sess

/-- the session invariant: "the counter never exceeds the capacity", for the container and for
every live view, and the views are nested inside each other's free space -/
def Wf (s : Sess) : Prop := s.store.Wf ∧ stackOk s.store.room s.stack

theorem wf_congr {s s' : Sess} (h : s.Wf) (h1 : s'.store = s.store) (h2 : s'.stack = s.stack) : s'.Wf := by
  unfold Wf at *; rw [h1, h2]; exact h

theorem unwind_wf {s : Sess} (h : s.Wf) : s.unwind.Wf :=
  ⟨unwindStack_wf _ _ h.1 h.2, trivial⟩

theorem unwind_stack (s : Sess) : s.unwind.stack = [] := rfl

theorem pop_wf {s : Sess} (h : s.Wf) : s.pop.Wf := by
  obtain ⟨hs, hv⟩ := h
  unfold pop
  match hst : s.stack with
  | [] => exact ⟨hs, by rw [hst] at hv; simpa [hst] using hv⟩
  | [v] =>
    rw [hst] at hv
    exact ⟨Store.release_wf hs hv.1 hv.2, trivial⟩
  | c :: p :: rest =>
    rw [hst] at hv
    exact ⟨hs, stackOk_pop hv⟩

theorem onTop_wf {s : Sess} (h : s.Wf) (f : View → View × Res)
    (hf : ∀ v, v.Wf → (f v).1.Wf ∧ (f v).1.mem.length = v.mem.length) (okR capR : Resp) :
    (s.onTop f okR capR).1.Wf := by
  unfold onTop
  match hst : s.stack with
  | [] => exact h
  | v :: rest =>
    have hv : stackOk s.store.room (v :: rest) := hst ▸ h.2
    have hfv := hf v (stackOk_top_wf hv)
    dsimp only
    generalize f v = r at hfv ⊢
    obtain ⟨v', res⟩ := r
    have key : Sess.Wf { s with stack := v' :: rest } :=
      ⟨h.1, stackOk_update hv hfv.1 (Nat.le_of_eq hfv.2)⟩
    cases res <;> dsimp only <;> first | exact key | exact unwind_wf key

theorem base_wf {s : Sess} (h : s.Wf) {b : View} (hb : s.base = some b) :
    stackOk s.store.room (b :: s.stack) ∧ b.init = 0 := by
  unfold base at hb
  match hst : s.stack with
  | [] =>
    rw [hst] at hb
    simp only at hb
    have := Store.top_some hb
    subst this
    exact ⟨⟨by simp [View.Wf], by simp [Store.room]⟩, rfl⟩
  | p :: rest =>
    rw [hst] at hb
    simp only at hb
    have hv : stackOk s.store.room (p :: rest) := hst ▸ h.2
    rw [View.child_eq (stackOk_top_wf hv)] at hb
    cases hb
    exact ⟨⟨by simp [View.Wf], by simp [View.Fits, View.room], hv⟩, rfl⟩

theorem openView_wf {s : Sess} (h : s.Wf) (caps : List Nat) : (s.openView caps).1.Wf := by
  unfold openView
  match hb : s.base with
  | none => exact unwind_wf h
  | some b =>
    obtain ⟨hok, h0⟩ := base_wf h hb
    simp only
    rw [View.capAll_eq caps b h0]
    simp only
    refine ⟨h.1, ?_⟩
    apply stackOk_update hok
    · simp [View.Wf]
    · simp only [List.length_take]
      have := View.foldl_min_le caps b.mem.length
      omega

theorem readTop_wf {s : Sess} (h : s.Wf) : s.readTop.1.Wf := by
  unfold readTop
  cases hst : s.stack with
  | nil => exact h
  | cons v rest =>
    have hv : stackOk s.store.room (v :: rest) := hst ▸ h.2
    have hvw := stackOk_top_wf hv
    dsimp only
    generalize s.rdr.read (v.mem.length - v.init) = x
    have hp := View.poke_wf hvw x.wrote
    have hpl := View.poke_cap hvw x.wrote
    have key1 : Sess.Wf { s with stack := v.poke x.wrote :: rest, rdr := x.next } :=
      ⟨h.1, stackOk_update hv hp (Nat.le_of_eq hpl)⟩
    cases x.ret with
    | panic => exact unwind_wf key1
    | err => exact pop_wf key1
    | ok k =>
      dsimp only
      have ha := View.advance_wf hp k
      have hal := View.advance_cap (v.poke x.wrote) k
      generalize (v.poke x.wrote).advance k = r at ha hal ⊢
      obtain ⟨v2, res⟩ := r
      have key2 : Sess.Wf { s with stack := v2 :: rest, rdr := x.next } :=
        ⟨h.1, stackOk_update hv ha (Nat.le_of_eq (hal.trans hpl))⟩
      cases res with
      | ok =>
        dsimp only
        cases v2.initialized with
        | some bs => exact pop_wf key2
        | none => exact unwind_wf key2
      | cap => exact unwind_wf key2
      | panic => exact unwind_wf key2

/-- **Invariant**: every operation preserves the session invariant. -/
theorem step_wf {s : Sess} (h : s.Wf) (op : Op) : (s.step op).1.Wf := by
  cases op with
  | write bs => exact onTop_wf h _ (fun v hv => ⟨View.extend_wf hv bs, View.extend_cap hv bs⟩) _ _
  | extendRep b n => exact onTop_wf h _ (fun v hv => ⟨View.extend_wf hv _, View.extend_cap hv _⟩) _ _
  | extendPanic bs =>
    refine onTop_wf h _ (fun v hv => ?_) _ _
    have h1 := View.extend_wf hv bs
    have h2 := View.extend_cap hv bs
    generalize v.extend bs = r at h1 h2 ⊢
    obtain ⟨v', res⟩ := r
    cases res <;> exact ⟨h1, h2⟩
  | advance n fill =>
    exact onTop_wf h _ (fun v hv => ⟨View.advance_wf (View.poke_wf hv _) n,
      (View.advance_cap _ n).trans (View.poke_cap hv _)⟩) _ _
  | remaining =>
    dsimp only [step]
    cases hst : s.stack with
    | nil => exact h
    | cons v rest =>
      dsimp only
      cases v.remaining with
      | some n => exact h
      | none => exact unwind_wf h
  | openV caps =>
    dsimp only [step]
    split
    · exact h
    have := openView_wf h caps
    generalize s.openView caps = r at this ⊢
    obtain ⟨s', b⟩ := r
    cases b <;> exact this
  | init =>
    dsimp only [step]
    cases hst : s.stack with
    | nil => exact h
    | cons v rest =>
      dsimp only
      cases v.initialized with
      | some bs => exact pop_wf h
      | none => exact unwind_wf h
  | drop =>
    dsimp only [step]
    cases hst : s.stack with
    | nil => exact h
    | cons v rest => exact pop_wf h
  | setr r => exact wf_congr h rfl rfl
  | read caps =>
    dsimp only [step]
    split
    · exact h
    have := openView_wf h caps
    generalize s.openView caps = r at this ⊢
    obtain ⟨s', b⟩ := r
    cases b
    · exact this
    · exact readTop_wf this

theorem run_wf (ops : List Op) : ∀ {s : Sess}, s.Wf → (s.run ops).1.Wf := by
  induction ops with
  | nil => intro s h; exact h
  | cons op ops ih =>
    intro s h
    simp only [run]
    exact ih (step_wf h op)

/-- every prefix of a run satisfies the invariant, too (a run is a run of its prefix followed by
the rest) -/
theorem run_append (ops1 ops2 : List Op) (s : Sess) :
    (s.run (ops1 ++ ops2)).1 = ((s.run ops1).1.run ops2).1 := by
  induction ops1 generalizing s with
  | nil => rfl
  | cons op ops ih => simp only [List.cons_append, run]; exact ih _

theorem fresh_wf (st : Store) (h : st.Wf) : (Sess.fresh st).Wf := ⟨h, trivial⟩

end Sess

theorem Store.fresh_wf (k : Kind) (cap : Nat) (old : List UInt8) (junk : UInt8)
    (h : (k = .vec ∨ k = .arr) → old.length ≤ cap) : (Store.fresh k cap old junk).Wf := by
  cases k <;> simp_all [Store.fresh, Store.Wf] <;> omega

end Tw.Buffer
