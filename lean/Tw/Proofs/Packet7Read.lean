import Tw.Model.Packet7
import Tw.Proofs.Packet7Headers

/-! Reader of protocol7.rs (0.7): the decompression step in closed form, absence of panics. -/
namespace Tw.Packet7
open Tw.Packet Tw.PacketBits

theorem lift_ne_panic (x : Except (ReadError × List Warning) ReadOk) (s : String) :
    ReadResult.lift x ≠ .panic s := by
  cases x with
  | ok r => simp [ReadResult.lift]
  | error e => cases e; simp [ReadResult.lift]

theorem lift_ne_diverge (x : Except (ReadError × List Warning) ReadOk) :
    ReadResult.lift x ≠ .diverge := by
  cases x with
  | ok r => simp [ReadResult.lift]
  | error e => cases e; simp [ReadResult.lift]

theorem unpack_flags_lt (b0 b1 b2 : Nat) (tok : Token) (h1 : b1 < 256) :
    (PacketHeader.unpackWarn b0 b1 b2 tok).1.flags < 16 ∧ (PacketHeader.unpackWarn b0 b1 b2 tok).1.ack < 1024 := by
  rw [ph_unpack_eq _ _ _ _ h1]
  simp only
  omega

theorem bufWrite_eq_some {cap : Nat} {acc bs r : List UInt8} (h : bufWrite cap acc bs = some r) :
    r = acc ++ bs ∧ acc.length + bs.length ≤ cap := by
  unfold bufWrite at h
  split at h <;> simp_all

theorem bufWrite_of_le {cap : Nat} {acc bs : List UInt8} (h : acc.length + bs.length ≤ cap) :
    bufWrite cap acc bs = some (acc ++ bs) := by
  unfold bufWrite
  rw [if_pos h]

theorem hdrBytes_length (x : Nat × Nat × Nat) (tok : Token) : (hdrBytes x tok).length = 7 := rfl

theorem bufWrite_nil7 {cap : Nat} (x : Nat × Nat × Nat) (tok : Token) (h : 7 ≤ cap) :
    bufWrite cap [] (hdrBytes x tok) = some (hdrBytes x tok) := by
  rw [bufWrite_of_le (by simpa [hdrBytes_length] using h)]
  rfl

/-- the parsed header of a datagram of at least 7 bytes, as `read`/`decompress` compute it -/
def headerOf (packet : List UInt8) : PacketHeader × List Warning :=
  PacketHeader.unpackWarn (packet.getD 0 0).toNat (packet.getD 1 0).toNat (packet.getD 2 0).toNat
    (tok4 (packet.drop 3))

/-- the header `decompress` writes in front of the decompressed payload -/
def fakeHeader (packet : List UInt8) : List UInt8 :=
  let h := (headerOf packet).1
  hdrBytes ((h.flags &&& (255 - Tw.Gen.Packet7.PACKETFLAG_COMPRESSION)) * 4 + h.ack / 256, h.ack % 256,
    h.numChunks) (tok4 (packet.drop 3))

theorem fakeHeader_length (packet : List UInt8) : (fakeHeader packet).length = 7 := rfl

theorem needsDecompression_length {packet : List UInt8} (hn : needsDecompression packet = true) :
    ¬ packet.length < Tw.Gen.Packet7.HEADER_SIZE := by
  unfold needsDecompression at hn
  intro h
  simp [h] at hn

/-- closed form of `decompress` on its precondition -/
theorem decompress_eq (t : Huffman.Table) (packet : List UInt8) (cap : Nat)
    (hcap : Tw.Gen.Packet7.MAX_PACKETSIZE ≤ cap) (hn : needsDecompression packet = true) :
    decompress t packet cap =
      match Huffman.decompress t (packet.drop 7) (cap - 7) with
      | .ok out => .ok (fakeHeader packet ++ out)
      | .capacity => .capacity
      | .diverge => .diverge := by
  unfold decompress
  have h1 : ¬ cap < Tw.Gen.Packet7.MAX_PACKETSIZE := by omega
  rw [if_neg h1]
  simp only [hn, not_true_eq_false, if_false]
  rw [if_neg (needsDecompression_length hn)]
  have hb := unpack_flags_lt (packet.getD 0 0).toNat (packet.getD 1 0).toNat (packet.getD 2 0).toNat
    (tok4 (packet.drop 3)) (UInt8.toNat_lt _)
  have hf : (PacketHeader.unpackWarn (packet.getD 0 0).toNat (packet.getD 1 0).toNat (packet.getD 2 0).toNat
      (tok4 (packet.drop 3))).1.flags &&& (255 - Tw.Gen.Packet7.PACKETFLAG_COMPRESSION) < 16 :=
    Nat.lt_of_le_of_lt Nat.and_le_left hb.1
  rw [ph_pack_eq ⟨_, _, _, _⟩ hf hb.2]
  have h7 : 7 ≤ cap := by
    have : Tw.Gen.Packet7.MAX_PACKETSIZE = 1400 := by decide
    omega
  simp only [bufWrite_nil7 _ _ h7, hdrBytes_length]
  rfl

theorem needsDecompression_of (bytes : List UInt8)
    (hlen : ¬ bytes.length > Tw.Gen.Packet7.MAX_PACKETSIZE) (hshort : ¬ bytes.length < Tw.Gen.Packet7.HEADER_SIZE)
    (hc : ¬ (headerOf bytes).1.flags &&& Tw.Gen.Packet7.PACKETFLAG_CONNLESS ≠ 0)
    (hz : (headerOf bytes).1.flags &&& Tw.Gen.Packet7.PACKETFLAG_COMPRESSION ≠ 0) :
    needsDecompression bytes = true := by
  unfold needsDecompression
  rw [if_neg hlen, if_neg hshort]
  simp only [ne_eq, Decidable.not_not] at hc
  unfold headerOf at hc hz
  exact decide_eq_true ⟨hc, hz⟩

theorem read_ne_panic (t : Huffman.Table) (bytes : List UInt8) (cap : Nat)
    (hcap : Tw.Gen.Packet7.MAX_PACKETSIZE ≤ cap) (s : String) :
    read t bytes (some cap) ≠ .panic s := by
  unfold read
  have h1 : ¬ cap < Tw.Gen.Packet7.MAX_PACKETSIZE := by omega
  simp only [h1, decide_false, Bool.false_eq_true, if_false]
  split
  · simp
  · rename_i hlen
    split
    · simp
    · rename_i hshort
      split
      · exact lift_ne_panic _ _
      · rename_i hc
        split
        · rename_i hz
          rw [decompress_eq t bytes cap hcap (needsDecompression_of bytes hlen hshort hc hz)]
          cases Huffman.decompress t (bytes.drop 7) (cap - 7) with
          | ok out =>
            simp only
            have : ¬ (fakeHeader bytes ++ out).length < Tw.Gen.Packet7.HEADER_SIZE := by
              simp [fakeHeader_length, Tw.Gen.Packet7.HEADER_SIZE]
            rw [if_neg this]
            exact lift_ne_panic _ _
          | capacity => simp
          | diverge => simp
        · exact lift_ne_panic _ _

/-- `read_panic_on_decompression` under its documented precondition (not a compressed packet) -/
theorem read_nobuf_ne_panic (t : Huffman.Table) (bytes : List UInt8)
    (hn : needsDecompression bytes = false) (s : String) :
    read t bytes none ≠ .panic s := by
  unfold read
  simp only [Bool.false_eq_true, if_false]
  split
  · simp
  · rename_i hlen
    split
    · simp
    · rename_i hshort
      split
      · exact lift_ne_panic _ _
      · rename_i hc
        split
        · rename_i hz
          rw [needsDecompression_of bytes hlen hshort hc hz] at hn
          simp at hn
        · exact lift_ne_panic _ _

/-- the reader diverges only if the Huffman decoder does -/
theorem read_ne_diverge (t : Huffman.Table) (bytes : List UInt8) (buffer : Option Nat)
    (ht : ∀ input cap, Huffman.decompress t input cap ≠ .diverge) :
    read t bytes buffer ≠ .diverge := by
  cases buffer with
  | none =>
    unfold read
    simp only [Bool.false_eq_true, if_false]
    split
    · simp
    · split
      · simp
      · split
        · exact lift_ne_diverge _
        · split
          · simp
          · exact lift_ne_diverge _
  | some cap =>
    by_cases hcap : cap < Tw.Gen.Packet7.MAX_PACKETSIZE
    · unfold read
      simp [hcap]
    · unfold read
      simp only [hcap, decide_false, Bool.false_eq_true, if_false]
      split
      · simp
      · rename_i hlen
        split
        · simp
        · rename_i hshort
          split
          · exact lift_ne_diverge _
          · rename_i hc
            split
            · rename_i hz
              rw [decompress_eq t bytes cap (by omega) (needsDecompression_of bytes hlen hshort hc hz)]
              have := ht (bytes.drop 7) (cap - 7)
              cases hd : Huffman.decompress t (bytes.drop 7) (cap - 7) with
              | ok out =>
                simp only
                split
                · simp
                · exact lift_ne_diverge _
              | capacity => simp
              | diverge => exact absurd hd this
            · exact lift_ne_diverge _

theorem decompressIfNeeded_ne_panic (t : Huffman.Table) (packet : List UInt8) (cap : Nat)
    (hcap : Tw.Gen.Packet7.MAX_PACKETSIZE ≤ cap) (s : String) :
    decompressIfNeeded t packet cap ≠ .panic s := by
  unfold decompressIfNeeded
  have h1 : ¬ cap < Tw.Gen.Packet7.MAX_PACKETSIZE := by omega
  rw [if_neg h1]
  split
  · simp
  · rename_i hn
    simp only [Bool.not_eq_true, Bool.not_eq_false] at hn
    rw [decompress_eq t packet cap hcap hn]
    cases Huffman.decompress t (packet.drop 7) (cap - 7) <;> simp

end Tw.Packet7
