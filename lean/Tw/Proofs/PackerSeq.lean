import Tw.Proofs.PackerFields
namespace Tw.Packer

theorem encodeAll_length (fs : List Field) : (encodeAll fs).length = totalLen fs := by
  induction fs with
  | nil => rfl
  | cons f fs ih => simp [encodeAll, totalLen, Field.encode_length] at ih ⊢; try omega

/-- Packing a list of well-formed fields: success iff everything fits, and then exactly the
concatenated encodings are appended; otherwise `CapacityError` with a prefix written that stays
within the capacity. -/
theorem packAll_spec (fs : List Field) (hwf : ∀ f ∈ fs, f.wf) :
    ∀ (b : Buf), b.data.length ≤ b.cap →
      (totalLen fs ≤ b.remaining → packAll b fs = ({ b with data := b.data ++ encodeAll fs }, .ok)) ∧
      (b.remaining < totalLen fs →
        ∃ k, packAll b fs = ({ b with data := b.data ++ (encodeAll fs).take k }, .capacity) ∧
          b.data.length + ((encodeAll fs).take k).length ≤ b.cap) := by
  induction fs with
  | nil =>
    intro b _
    refine ⟨fun _ => by simp [packAll, encodeAll], fun h => ?_⟩
    simp [totalLen] at h
  | cons f fs ih =>
    intro b hinv
    have hf : f.wf := hwf f (by simp)
    have hfs : ∀ g ∈ fs, g.wf := fun g hg => hwf g (by simp [hg])
    have htl : totalLen (f :: fs) = f.encodedLength + totalLen fs := by simp [totalLen]
    have henc : encodeAll (f :: fs) = f.encode ++ encodeAll fs := by simp [encodeAll]
    by_cases hfit : f.encodedLength ≤ b.remaining
    · have hp := packField_fits b f hf hfit
      have hinv' : ({ b with data := b.data ++ f.encode } : Buf).data.length ≤ b.cap := by
        simp [Field.encode_length, Buf.remaining] at hfit ⊢; omega
      have hrem : ({ b with data := b.data ++ f.encode } : Buf).remaining = b.remaining - f.encodedLength := by
        simp [Buf.remaining, Field.encode_length]; omega
      obtain ⟨ih1, ih2⟩ := ih hfs { b with data := b.data ++ f.encode } hinv'
      constructor
      · intro h
        have := ih1 (by rw [hrem]; omega)
        simp only [packAll, hp, this, henc, List.append_assoc]
      · intro h
        obtain ⟨k, hk, hle⟩ := ih2 (by rw [hrem]; omega)
        refine ⟨f.encode.length + k, ?_, ?_⟩
        · simp only [packAll, hp, hk, henc, List.take_append, List.append_assoc]
          simp [List.take_of_length_le]
        · simp [henc, List.take_append, List.take_of_length_le] at hle ⊢; omega
    · constructor
      · intro h; omega
      · intro _
        obtain ⟨k, hk, hle⟩ := packField_overflow b f hf hinv (by omega)
        refine ⟨min k f.encode.length, ?_, ?_⟩
        · have : (encodeAll (f :: fs)).take (min k f.encode.length) = f.encode.take k := by
            rw [henc, List.take_append_of_le_length (Nat.min_le_right _ _)]
            simp [List.take_eq_take_iff]
          simp only [packAll, hk, this]
        · have : (encodeAll (f :: fs)).take (min k f.encode.length) = f.encode.take k := by
            rw [henc, List.take_append_of_le_length (Nat.min_le_right _ _)]
            simp [List.take_eq_take_iff]
          rw [this]; exact hle

theorem readString_encode (s rest : List UInt8) (h : ∀ b ∈ s, b ≠ 0) :
    readString (s ++ [0] ++ rest) = some (s, rest) := by
  induction s with
  | nil => simp [readString]
  | cons b s ih =>
    have hb : b ≠ 0 := h b (by simp)
    have := ih (fun x hx => h x (by simp [hx]))
    simp only [List.cons_append, readString, hb, if_false]
    simp only [List.append_assoc] at this ⊢
    rw [this]

/-- Reading back one encoded field returns its value, the rest of the input, and no warning. -/
theorem unpackOne_encode (f : Field) (hwf : f.wf) (rest : List UInt8) :
    unpackOne (f.encode ++ rest) f.kind = (some f.value, rest, []) := by
  cases f with
  | int v => simp [Field.encode, Field.kind, Field.value, unpackOne, readInt_writeInt v hwf rest]
  | str s =>
    simp [Field.encode, Field.kind, Field.value, unpackOne]
    have := readString_encode s rest hwf
    simp only [List.append_assoc, List.singleton_append] at this
    rw [this]
  | data d =>
    have hr : inI32 (d.length : Int) := by
      simp [Field.wf] at hwf; unfold inI32; omega
    simp only [Field.encode, Field.kind, Field.value, unpackOne, List.append_assoc,
      readInt_writeInt _ hr (d ++ rest)]
    have h1 : ¬ ((d.length : Int) < 0) := by omega
    simp [h1]
  | raw d => simp [Field.encode, Field.kind, Field.value, unpackOne]

/-- Sequences written by the packer are read back identically, with nothing left and no warning. -/
theorem unpackAll_encodeAll (fs : List Field) (hwf : ∀ f ∈ fs, f.wf) (rest : List UInt8) :
    unpackAll (encodeAll fs ++ rest) (fs.map Field.kind) = (fs.map Field.value, true, rest, []) := by
  induction fs with
  | nil => simp [unpackAll, encodeAll]
  | cons f fs ih =>
    have hf : f.wf := hwf f (by simp)
    have := ih (fun g hg => hwf g (by simp [hg]))
    simp only [encodeAll, List.flatMap_cons, List.append_assoc, List.map_cons, unpackAll,
      unpackOne_encode f hf]
    simp only [encodeAll] at this
    rw [this]
    simp

/-- Reading never runs past what was there: the remaining input is always a suffix. -/
theorem readString_suffix (inp s rest : List UInt8) (h : readString inp = some (s, rest)) :
    ∃ c, inp = c ++ rest := by
  induction inp generalizing s with
  | nil => simp [readString] at h
  | cons b bs ih =>
    simp only [readString] at h
    split at h
    · simp at h; exact ⟨[b], by simp [h.2]⟩
    · cases hr : readString bs with
      | none => simp [hr] at h
      | some p =>
        obtain ⟨s', rest'⟩ := p
        simp [hr] at h
        obtain ⟨c, hc⟩ := ih s' (by rw [hr, h.2])
        exact ⟨b :: c, by simp [hc]⟩

theorem unpackOne_suffix (inp : List UInt8) (k : Kind) :
    ∃ c, inp = c ++ (unpackOne inp k).2.1 := by
  cases k with
  | int =>
    simp only [unpackOne]
    cases h : readInt inp with
    | none => exact ⟨inp, by simp⟩
    | some p =>
      obtain ⟨v, rest, ws⟩ := p
      obtain ⟨c, hc, _⟩ := readInt_inv inp v rest ws h
      exact ⟨c, hc⟩
  | str =>
    simp only [unpackOne]
    cases h : readString inp with
    | none => exact ⟨inp, by simp⟩
    | some p =>
      obtain ⟨s, rest⟩ := p
      exact readString_suffix inp s rest h
  | data =>
    simp only [unpackOne]
    cases h : readInt inp with
    | none => exact ⟨inp, by simp⟩
    | some p =>
      obtain ⟨v, rest, ws⟩ := p
      obtain ⟨c, hc, _⟩ := readInt_inv inp v rest ws h
      simp only
      split
      · exact ⟨inp, by simp⟩
      · split
        · exact ⟨inp, by simp⟩
        · exact ⟨c ++ rest.take v.toNat, by simp [hc]⟩
  | raw len =>
    simp only [unpackOne]
    split
    · exact ⟨inp, by simp⟩
    · exact ⟨inp.take len, by simp⟩
  | rest => exact ⟨inp, by simp [unpackOne]⟩

end Tw.Packer
