import Tw.Proofs.TeehistRun

/-! The record-level reader (`recRun`) equals the reference semantics (`interp`); hence the
buffered reader equals `runWhole` for every read schedule. -/
namespace Tw.Teehistorian
open Tw.Packer

def kindPrevGe (rd : Reader) (k : Kind) : Bool :=
  match k.playerCid with
  | some cid => prevGe rd.prevCid cid
  | none => false

/-- How many synthesised items `Reader.pre` is still going to emit for item id `k`. -/
def phase (rd : Reader) (k : Kind) : Nat :=
  if k ≠ .tickSkip ∧ k ≠ .finish ∧ rd.inTick = false then (if kindPrevGe rd k then 3 else 1)
  else if kindPrevGe rd k then 2
  else if k = .finish ∧ rd.inTick = true then 1
  else 0

theorem pre_start {rd : Reader} {k : Kind} (h1 : k ≠ .tickSkip) (h2 : k ≠ .finish) (h3 : rd.inTick = false) :
    rd.pre k = .emit (.tickStart rd.tick) { rd with nextKind := some k, inTick := true } := by
  unfold Reader.pre; simp [h1, h2, h3]

theorem pre_phase (rd : Reader) (k : Kind) :
    match rd.pre k with
    | .proceed => True
    | .err _ => True
    | .emit _ rd' => phase rd'.norm k < phase rd k := by
  by_cases hs : k ≠ .tickSkip ∧ k ≠ .finish ∧ rd.inTick = false
  · obtain ⟨h1, h2, h3⟩ := hs
    rw [pre_start h1 h2 h3]
    have hg : kindPrevGe ({ rd with nextKind := some k, inTick := true } : Reader).norm k = kindPrevGe rd k := rfl
    simp only [phase, hg, h2, h3]
    simp [Reader.norm]
    cases kindPrevGe rd k <;> simp [h1, h2]
  · unfold Reader.pre
    simp only [hs, if_false]
    cases hc : k.playerCid with
    | some cid =>
      simp only
      by_cases hg : prevGe rd.prevCid cid = true
      · simp only [hg, if_true]
        by_cases ho : rd.tick + 1 > i32Max
        · simp [ho]
        · simp only [ho, if_false]
          have hk1 : k ≠ .tickSkip := by cases k <;> simp [Kind.playerCid] at hc <;> simp
          have hk2 : k ≠ .finish := by cases k <;> simp [Kind.playerCid] at hc <;> simp
          have hin : rd.inTick = true := by
            cases h : rd.inTick with
            | true => rfl
            | false => exact absurd ⟨hk1, hk2, h⟩ hs
          have hn : prevGe none cid = false := rfl
          simp [phase, Reader.norm, kindPrevGe, hc, hg, hk1, hk2, hin, hn]
      · simp [hg]
    | none =>
      simp only
      by_cases hf : k = .finish ∧ rd.inTick = true
      · simp only [hf, and_self, if_true]
        simp [phase, Reader.norm, kindPrevGe, hf, Kind.playerCid]
      · simp [hf]

theorem preAll_phase : ∀ (n : Nat) (rd : Reader) (k : Kind), phase rd k < n →
    (preAll n rd k).2 ≠ .stuck ∧ (preAll n rd k).1.length ≤ phase rd k := by
  intro n
  induction n with
  | zero => intro rd k h; omega
  | succ n ih =>
    intro rd k h
    unfold preAll
    have hp := pre_phase rd k
    cases hpre : rd.pre k with
    | proceed => simp
    | err e => simp
    | emit it rd' =>
      rw [hpre] at hp
      simp only at hp
      have := ih rd'.norm k (by omega)
      simp only [Reader.norm] at this hp ⊢
      refine ⟨this.1, ?_⟩
      simp only [List.length_cons]
      omega

theorem phase_le (rd : Reader) (k : Kind) : phase rd k ≤ 3 := by
  unfold phase; repeat' split
  all_goals omega


/-! ### `recRun` = `interp` -/

def Output.prepend (its : List Item) (o : Output) : Output := { o with items := its ++ o.items }

theorem Output.prepend_nil (o : Output) : o.prepend [] = o := rfl

theorem Output.cons_prepend (it : Item) (its : List Item) (o : Output) :
    (o.prepend its).cons it = o.prepend (it :: its) := rfl

theorem norm_norm (rd : Reader) : rd.norm.norm = rd.norm := rfl

theorem recRun_norm (cfg : Cfg) (F : Nat) (rd : Reader) (v : List Rec × Tail) :
    recRun cfg F rd.norm v = recRun cfg F rd v := by
  cases F with
  | zero => rfl
  | succ F => unfold recRun; rw [recRead_norm]; rfl

theorem preAll_ready_proceed : ∀ (n : Nat) (rd rd2 : Reader) (k : Kind) (its : List Item),
    preAll n rd k = (its, .ready rd2) → rd2.pre k = .proceed := by
  intro n
  induction n with
  | zero => intro rd rd2 k its h; simp [preAll] at h
  | succ n ih =>
    intro rd rd2 k its h
    unfold preAll at h
    cases hpre : rd.pre k with
    | proceed =>
      rw [hpre] at h
      simp only [Prod.mk.injEq, PreEnd.ready.injEq] at h
      rw [← h.2]; exact hpre
    | err e => rw [hpre] at h; simp at h
    | emit it rd' =>
      rw [hpre] at h
      simp only [Prod.mk.injEq] at h
      exact ih _ rd2 k (preAll n { rd' with nextKind := none } k).1 (by rw [← h.2])

/-- Running the record-level reader through the synthesised items of one item id. -/
theorem recRun_pre (cfg : Cfg) : ∀ (n : Nat) (rd : Reader) (k : Kind) (v : List Rec × Tail) (F : Nat),
    viewKind v = .kind k → rd.norm = rd →
    match preAll n rd k with
    | (its, .ready rd2) =>
        recRun cfg (its.length + F) rd v = (recRun cfg F rd2 v).prepend its ∧ rd2.norm = rd2
    | (its, .err e rd2) => recRun cfg (its.length + F + 1) rd v = ⟨its, .err e, rd2.access⟩
    | (_, .stuck) => True := by
  intro n
  induction n with
  | zero => intro rd k v F _ _; simp [preAll]
  | succ n ih =>
    intro rd k v F hv hn
    unfold preAll
    cases hpre : rd.pre k with
    | proceed =>
      simp only [List.length_nil, Nat.zero_add]
      exact ⟨rfl, hn⟩
    | err e =>
      simp only [List.length_nil, Nat.zero_add]
      unfold recRun recRead
      rw [hv, hn]
      simp only [hpre]
    | emit it rd' =>
      simp only
      have hstep : ∀ G, recRun cfg (G + 1) rd v = (recRun cfg G rd'.norm v).cons it := by
        intro G
        rw [recRun_norm]
        conv => lhs; unfold recRun recRead
        rw [hv, hn]
        simp only [hpre]
      have := ih rd'.norm k v F hv (norm_norm rd')
      simp only [Reader.norm] at this hstep ⊢
      cases hp : preAll n { rd' with nextKind := none } k with
      | mk its pe =>
        rw [hp] at this
        cases pe with
        | ready rd2 =>
          simp only at this ⊢
          refine ⟨?_, this.2⟩
          rw [show (it :: its).length + F = (its.length + F) + 1 by simp; omega]
          rw [hstep, this.1]
          rfl
        | err e rd2 =>
          simp only at this ⊢
          rw [show (it :: its).length + F + 1 = (its.length + F + 1) + 1 by simp; omega]
          rw [hstep, this]
          rfl
        | stuck => trivial

theorem post_norm {rd : Reader} {fit : FItem} (hn : rd.norm = rd) :
    ∀ it rd', rd.post fit = .item it rd' → rd'.norm = rd' := by
  intro it rd' h
  have h1 := post_nextKind it rd' h
  have h2 : rd.nextKind = none := by rw [← hn]; rfl
  cases rd'
  simp only [Reader.norm]
  simp only at h1
  simp [h1, h2]

theorem recRun_eq_interp (cfg : Cfg) : ∀ (rs : List Rec) (t : Tail) (rd : Reader) (F : Nat),
    rd.norm = rd → 4 * rs.length + 4 ≤ F → recRun cfg F rd (rs, t) = interp cfg rd rs t := by
  intro rs
  induction rs with
  | nil =>
    intro t rd F hn hF
    obtain ⟨F, rfl⟩ : ∃ G, F = G + 4 := ⟨F - 4, by omega⟩
    cases t with
    | afterFinish => unfold interp; rfl
    | outOfFuel => unfold interp; rfl
    | kindEnd => unfold interp; unfold recRun recRead; simp [viewKind, cidsEnd_norm]
    | kindErr e => unfold interp; unfold recRun recRead; simp [viewKind, cidsEnd_norm]
    | restEnd k =>
      unfold interp
      have hv : viewKind (([], .restEnd k) : List Rec × Tail) = .kind k := rfl
      have hps := preAll_phase 4 rd k (by have := phase_le rd k; omega)
      have hle := phase_le rd k
      cases hp : preAll 4 rd k with
      | mk its pe =>
        rw [hp] at hps
        try rw [hp]
        simp only at hps
        cases pe with
        | stuck => exact absurd rfl hps.1
        | err e rd2 =>
          have := recRun_pre cfg 4 rd k _ (F + 4 - (its.length + 1)) hv hn
          rw [hp] at this
          simp only at this ⊢
          rw [show its.length + (F + 4 - (its.length + 1)) + 1 = F + 4 by omega] at this
          simp only [hp]
          exact this
        | ready rd2 =>
          have := recRun_pre cfg 4 rd k _ (F + 4 - its.length) hv hn
          rw [hp] at this
          simp only at this ⊢
          rw [show its.length + (F + 4 - its.length) = F + 4 by omega] at this
          rw [this.1]
          have hpro := preAll_ready_proceed 4 rd rd2 k its hp
          obtain ⟨G, hG⟩ : ∃ G, F + 4 - its.length = G + 1 := ⟨F + 4 - its.length - 1, by omega⟩
          rw [hG]
          unfold recRun recRead
          rw [hv, this.2]
          simp only [hpro]
          simp [Output.prepend, cidsEnd_norm, hp]
    | restErr k e =>
      unfold interp
      have hv : viewKind (([], .restErr k e) : List Rec × Tail) = .kind k := rfl
      have hps := preAll_phase 4 rd k (by have := phase_le rd k; omega)
      have hle := phase_le rd k
      cases hp : preAll 4 rd k with
      | mk its pe =>
        rw [hp] at hps
        try rw [hp]
        simp only at hps
        cases pe with
        | stuck => exact absurd rfl hps.1
        | err e' rd2 =>
          have := recRun_pre cfg 4 rd k _ (F + 4 - (its.length + 1)) hv hn
          rw [hp] at this
          simp only at this ⊢
          rw [show its.length + (F + 4 - (its.length + 1)) + 1 = F + 4 by omega] at this
          simp only [hp]
          exact this
        | ready rd2 =>
          have := recRun_pre cfg 4 rd k _ (F + 4 - its.length) hv hn
          rw [hp] at this
          simp only at this ⊢
          rw [show its.length + (F + 4 - its.length) = F + 4 by omega] at this
          rw [this.1]
          have hpro := preAll_ready_proceed 4 rd rd2 k its hp
          obtain ⟨G, hG⟩ : ∃ G, F + 4 - its.length = G + 1 := ⟨F + 4 - its.length - 1, by omega⟩
          rw [hG]
          unfold recRun recRead
          rw [hv, this.2]
          simp only [hpro]
          simp [Output.prepend, cidsEnd_norm, hp]
  | cons r rs ih =>
    intro t rd F hn hF
    unfold interp
    have hv : viewKind ((r :: rs, t) : List Rec × Tail) = .kind r.kind := rfl
    have hps := preAll_phase 4 rd r.kind (by have := phase_le rd r.kind; omega)
    have hle := phase_le rd r.kind
    simp only [List.length_cons] at hF
    cases hp : preAll 4 rd r.kind with
    | mk its pe =>
      rw [hp] at hps
      try rw [hp]
      simp only at hps
      cases pe with
      | stuck => exact absurd rfl hps.1
      | err e rd2 =>
        have := recRun_pre cfg 4 rd r.kind (r :: rs, t) (F - (its.length + 1)) hv hn
        rw [hp] at this
        simp only at this ⊢
        rw [show its.length + (F - (its.length + 1)) + 1 = F by omega] at this
        exact this
      | ready rd2 =>
        have := recRun_pre cfg 4 rd r.kind (r :: rs, t) (F - its.length) hv hn
        rw [hp] at this
        simp only at this ⊢
        rw [show its.length + (F - its.length) = F by omega] at this
        rw [this.1]
        have hpro := preAll_ready_proceed 4 rd rd2 r.kind its hp
        obtain ⟨G, hG⟩ : ∃ G, F - its.length = G + 1 := ⟨F - its.length - 1, by omega⟩
        rw [hG]
        conv => lhs; unfold recRun recRead
        rw [hv, this.2]
        simp only [hpro]
        cases hpost : rd2.post r.item with
        | item it rd3 =>
          simp only
          rw [ih t rd3 G (post_norm this.2 it rd3 hpost) (by omega)]
          simp [Output.prepend, Output.cons]
        | finished rd3 => simp [Output.prepend]
        | err e rd3 => simp [Output.prepend]

theorem empty_wf : Buffer.empty.wf := by simp [Buffer.wf, Buffer.len, Buffer.empty]

/-- **Main equivalence.**  For every callback — whatever read sizes it is going to return, whether
or not it reports EOF the way `file.rs` does — the buffered reader (`Reader::new`, then `read` until
the end) produces exactly the reference output for the bytes the callback holds, header framing
included.  The only other possibility is that the callback fails; then the final result is the
callback error and the items read before it are a prefix of the reference items. -/
theorem runCb_vs_reference (env : Env) (c : Cb) :
    runCb env c = reference env c.rem ∨
    ((runCb env c).final = .cbErr ∧ ¬ c.noFail ∧ (runCb env c).items <+: (reference env c.rem).items) := by
  unfold runCb reference
  have hnf0 := parseLoop_noFail (pHeader env.json) (c.measure + 1) Buffer.empty c empty_wf
  have hlog : logical Buffer.empty c = c.rem := by simp [logical, Buffer.empty]
  rcases parseLoop_spec (good_pHeader env.json) (c.measure + 1) Buffer.empty c empty_wf (by omega) with hcb | ⟨hok, herr, hnm⟩
  · right
    rw [hcb]
    exact ⟨by trivial, fun h => (hnf0 h).1 hcb, List.nil_prefix⟩
  · rw [hlog] at hok herr hnm
    cases hp : pHeader env.json c.rem with
    | needMore => left; rw [hnm hp]
    | err e => left; rw [herr e hp]
    | ok hr rest =>
      obtain ⟨b', c', hpl, hl', hw'⟩ := hok hr rest hp
      rw [hpl]
      cases hr with
      | bad e => left; rfl
      | version v =>
        simp only
        cases hcfg : env.cfgOf v with
        | none => left; rfl
        | some cfg =>
          simp only
          have hlen : rest.length ≤ c.rem.length := (good_pHeader env.json).rest_le hp
          have hrec : recRun cfg (readFuel c.rem.length) Reader.empty (viewOf cfg.hasEx Reader.empty (logical b' c')) =
              runWhole cfg rest := by
            rw [hl']
            have hview : viewOf cfg.hasEx Reader.empty rest = recsOf cfg.hasEx rest := rfl
            rw [hview]
            unfold runWhole
            have hl2 := parseAll_length cfg.hasEx (rest.length + 1) rest
            exact recRun_eq_interp cfg (recsOf cfg.hasEx rest).1 (recsOf cfg.hasEx rest).2 Reader.empty
              (readFuel c.rem.length) rfl (by
                show 4 * (parseAll cfg.hasEx (rest.length + 1) rest).1.length + 4 ≤ 4 * c.rem.length + 8
                omega)
          rcases runItems_vs_recRun cfg (readFuel c.rem.length) Reader.empty b' c' hw' with heq | ⟨hf, hn, hpre⟩
          · left; rw [heq, hrec]
          · right
            refine ⟨hf, fun h => hn ((hnf0 h).2 _ _ _ hpl), ?_⟩
            rw [← hrec]; exact hpre

theorem runCb_eq_reference (env : Env) (c : Cb) (hnf : c.noFail) : runCb env c = reference env c.rem := by
  rcases runCb_vs_reference env c with h | ⟨_, hn, _⟩
  · exact h
  · exact absurd hnf hn

/-- `hdr` is a complete header (magic, NUL-terminated text the content parser accepts) of a
supported version, giving the reader configuration `cfg`. -/
def HeaderOk (env : Env) (hdr : List UInt8) (cfg : Cfg) : Prop :=
  ∃ v, pHeader env.json hdr = .ok (.version v) [] ∧ env.cfgOf v = some cfg

theorem reference_of_headerOk {env : Env} {hdr : List UInt8} {cfg : Cfg} (h : HeaderOk env hdr cfg)
    (s : List UInt8) : reference env (hdr ++ s) = runWhole cfg s := by
  obtain ⟨v, hp, hc⟩ := h
  have := ((good_pHeader env.json hdr).1 _ _ hp).2 s
  unfold reference
  rw [this]
  simp only [List.nil_append, hc]

theorem noFail_sizes (total : List UInt8) (ds : List Nat) (strict : Bool) :
    ({ rem := total, ds := ds.map CbEv.size, strictEof := strict } : Cb).noFail := by
  simp [Cb.noFail]

theorem run_eq_runWhole {env : Env} {hdr : List UInt8} {cfg : Cfg} (h : HeaderOk env hdr cfg)
    (s : List UInt8) (ds : List Nat) : run env (hdr ++ s) ds = runWhole cfg s := by
  unfold run
  rw [runCb_eq_reference env _ (noFail_sizes _ _ _)]
  exact reference_of_headerOk h s

theorem noFail_ofChunks (cs : List (List UInt8)) : (Cb.ofChunks cs).noFail := by
  simp [Cb.noFail, Cb.ofChunks]

/-- A callback built from an explicit chunk list hands out exactly those chunks, as long as each
fits into the buffer space it is offered (which the callback contract demands), then EOF. -/
theorem ofChunks_read_fits (ch : List UInt8) (cs : List (List UInt8)) (space : Nat) (h : ch.length ≤ space) :
    (Cb.ofChunks (ch :: cs)).read space = .data ch (Cb.ofChunks cs) := by
  have hn : min ch.length (min space (ch ++ cs.flatten).length) = ch.length := by
    simp only [List.length_append]; omega
  have ht : (ch ++ cs.flatten).take ch.length = ch := by
    rw [List.take_append_of_le_length (Nat.le_refl _), List.take_length]
  have hd : (ch ++ cs.flatten).drop ch.length = cs.flatten := by
    rw [List.drop_append_of_le_length (Nat.le_refl _), List.drop_length, List.nil_append]
  simp only [Cb.ofChunks, Cb.read, List.map_cons, List.flatten_cons, hn, ht, hd]
  simp

theorem ofChunks_read_eof (space : Nat) : (Cb.ofChunks []).read space = .eof := by
  simp [Cb.ofChunks, Cb.read]

end Tw.Teehistorian
