import Tw.Proofs.TeehistRun

/-! The record-level reader (`recRun`) equals the reference semantics (`interp`); hence the
buffered reader equals `runWhole` for every read schedule. -/
namespace Tw.Teehistorian
open Tw.Packer

def kindPrevGe (rd : Reader) (k : Kind) : Bool :=
  match k.playerCid with
  | some cid => prevGe rd.prevCid cid
  | none => false

/-- How many synthesised items `Reader.pre` is still going to emit for item id `k`. -/
def phase (rd : Reader) (k : Kind) : Nat :=
  if k ≠ .tickSkip ∧ k ≠ .finish ∧ rd.inTick = false then (if kindPrevGe rd k then 3 else 1)
  else if kindPrevGe rd k then 2
  else if k = .finish ∧ rd.inTick = true then 1
  else 0

theorem pre_start {rd : Reader} {k : Kind} (h1 : k ≠ .tickSkip) (h2 : k ≠ .finish) (h3 : rd.inTick = false) :
    rd.pre k = .emit (.tickStart rd.tick) { rd with nextKind := some k, inTick := true } := by
  unfold Reader.pre; simp [h1, h2, h3]

theorem pre_phase (rd : Reader) (k : Kind) :
    match rd.pre k with
    | .proceed => True
    | .err _ => True
    | .emit _ rd' => phase rd'.norm k < phase rd k := by
  by_cases hs : k ≠ .tickSkip ∧ k ≠ .finish ∧ rd.inTick = false
  · obtain ⟨h1, h2, h3⟩ := hs
    rw [pre_start h1 h2 h3]
    have hg : kindPrevGe ({ rd with nextKind := some k, inTick := true } : Reader).norm k = kindPrevGe rd k := rfl
    simp only [phase, hg, h2, h3]
    simp [Reader.norm]
    cases kindPrevGe rd k <;> simp [h1, h2]
  · unfold Reader.pre
    simp only [hs, if_false]
    cases hc : k.playerCid with
    | some cid =>
      simp only
      by_cases hg : prevGe rd.prevCid cid = true
      · simp only [hg, if_true]
        by_cases ho : rd.tick + 1 > i32Max
        · simp [ho]
        · simp only [ho, if_false]
          have hk1 : k ≠ .tickSkip := by cases k <;> simp [Kind.playerCid] at hc <;> simp
          have hk2 : k ≠ .finish := by cases k <;> simp [Kind.playerCid] at hc <;> simp
          have hin : rd.inTick = true := by
            cases h : rd.inTick with
            | true => rfl
            | false => exact absurd ⟨hk1, hk2, h⟩ hs
          have hn : prevGe none cid = false := rfl
          simp [phase, Reader.norm, kindPrevGe, hc, hg, hk1, hk2, hin, hn]
      · simp [hg]
    | none =>
      simp only
      by_cases hf : k = .finish ∧ rd.inTick = true
      · simp only [hf, and_self, if_true]
        simp [phase, Reader.norm, kindPrevGe, hf, Kind.playerCid]
      · simp [hf]

theorem preAll_phase : ∀ (n : Nat) (rd : Reader) (k : Kind), phase rd k < n →
    (preAll n rd k).2 ≠ .stuck ∧ (preAll n rd k).1.length ≤ phase rd k := by
  intro n
  induction n with
  | zero => intro rd k h; omega
  | succ n ih =>
    intro rd k h
    unfold preAll
    have hp := pre_phase rd k
    cases hpre : rd.pre k with
    | proceed => simp
    | err e => simp
    | emit it rd' =>
      rw [hpre] at hp
      simp only at hp
      have := ih rd'.norm k (by omega)
      simp only [Reader.norm] at this hp ⊢
      refine ⟨this.1, ?_⟩
      simp only [List.length_cons]
      omega

theorem phase_le (rd : Reader) (k : Kind) : phase rd k ≤ 3 := by
  unfold phase; repeat' split
  all_goals omega


/-! ### `recRun` = `interp` -/

def Output.prepend (its : List Item) (o : Output) : Output := { o with items := its ++ o.items }

theorem Output.prepend_nil (o : Output) : o.prepend [] = o := rfl

theorem Output.cons_prepend (it : Item) (its : List Item) (o : Output) :
    (o.prepend its).cons it = o.prepend (it :: its) := rfl

theorem norm_norm (rd : Reader) : rd.norm.norm = rd.norm := rfl

theorem recRun_norm (cfg : Cfg) (F : Nat) (rd : Reader) (v : List Rec × Tail) :
    recRun cfg F rd.norm v = recRun cfg F rd v := by
  cases F with
  | zero => rfl
  | succ F => unfold recRun; rw [recRead_norm]; rfl

theorem preAll_ready_proceed : ∀ (n : Nat) (rd rd2 : Reader) (k : Kind) (its : List Item),
    preAll n rd k = (its, .ready rd2) → rd2.pre k = .proceed := by
  intro n
  induction n with
  | zero => intro rd rd2 k its h; simp [preAll] at h
  | succ n ih =>
    intro rd rd2 k its h
    unfold preAll at h
    cases hpre : rd.pre k with
    | proceed =>
      rw [hpre] at h
      simp only [Prod.mk.injEq, PreEnd.ready.injEq] at h
      rw [← h.2]; exact hpre
    | err e => rw [hpre] at h; simp at h
    | emit it rd' =>
      rw [hpre] at h
      simp only [Prod.mk.injEq] at h
      exact ih _ rd2 k (preAll n { rd' with nextKind := none } k).1 (by rw [← h.2])

/-- Running the record-level reader through the synthesised items of one item id. -/
theorem recRun_pre (cfg : Cfg) : ∀ (n : Nat) (rd : Reader) (k : Kind) (v : List Rec × Tail) (F : Nat),
    viewKind v = .kind k → rd.norm = rd →
    match preAll n rd k with
    | (its, .ready rd2) =>
        recRun cfg (its.length + F) rd v = (recRun cfg F rd2 v).prepend its ∧ rd2.norm = rd2
    | (its, .err e rd2) => recRun cfg (its.length + F + 1) rd v = ⟨its, .err e, rd2.cidsEnd⟩
    | (_, .stuck) => True := by
  intro n
  induction n with
  | zero => intro rd k v F _ _; simp [preAll]
  | succ n ih =>
    intro rd k v F hv hn
    unfold preAll
    cases hpre : rd.pre k with
    | proceed =>
      simp only [List.length_nil, Nat.zero_add]
      exact ⟨rfl, hn⟩
    | err e =>
      simp only [List.length_nil, Nat.zero_add]
      unfold recRun recRead
      rw [hv, hn]
      simp only [hpre]
    | emit it rd' =>
      simp only
      have hstep : ∀ G, recRun cfg (G + 1) rd v = (recRun cfg G rd'.norm v).cons it := by
        intro G
        rw [recRun_norm]
        conv => lhs; unfold recRun recRead
        rw [hv, hn]
        simp only [hpre]
      have := ih rd'.norm k v F hv (norm_norm rd')
      simp only [Reader.norm] at this hstep ⊢
      cases hp : preAll n { rd' with nextKind := none } k with
      | mk its pe =>
        rw [hp] at this
        cases pe with
        | ready rd2 =>
          simp only at this ⊢
          refine ⟨?_, this.2⟩
          rw [show (it :: its).length + F = (its.length + F) + 1 by simp; omega]
          rw [hstep, this.1]
          rfl
        | err e rd2 =>
          simp only at this ⊢
          rw [show (it :: its).length + F + 1 = (its.length + F + 1) + 1 by simp; omega]
          rw [hstep, this]
          rfl
        | stuck => trivial

theorem post_norm {cfg : Cfg} {rd : Reader} {fit : FItem} (hn : rd.norm = rd) :
    ∀ it rd', rd.post cfg fit = .item it rd' → rd'.norm = rd' := by
  intro it rd' h
  have h1 := post_nextKind it rd' h
  have h2 : rd.nextKind = none := by rw [← hn]; rfl
  cases rd'
  simp only [Reader.norm]
  simp only at h1
  simp [h1, h2]

theorem recRun_eq_interp (cfg : Cfg) : ∀ (rs : List Rec) (t : Tail) (rd : Reader) (F : Nat),
    rd.norm = rd → 4 * rs.length + 4 ≤ F → recRun cfg F rd (rs, t) = interp cfg rd rs t := by
  intro rs
  induction rs with
  | nil =>
    intro t rd F hn hF
    obtain ⟨F, rfl⟩ : ∃ G, F = G + 4 := ⟨F - 4, by omega⟩
    cases t with
    | afterFinish => unfold interp; rfl
    | outOfFuel => unfold interp; rfl
    | kindEnd => unfold interp; unfold recRun recRead; simp [viewKind, cidsEnd_norm]
    | kindErr e => unfold interp; unfold recRun recRead; simp [viewKind, cidsEnd_norm]
    | restEnd k =>
      unfold interp
      have hv : viewKind (([], .restEnd k) : List Rec × Tail) = .kind k := rfl
      have hps := preAll_phase 4 rd k (by have := phase_le rd k; omega)
      have hle := phase_le rd k
      cases hp : preAll 4 rd k with
      | mk its pe =>
        rw [hp] at hps
        try rw [hp]
        simp only at hps
        cases pe with
        | stuck => exact absurd rfl hps.1
        | err e rd2 =>
          have := recRun_pre cfg 4 rd k _ (F + 4 - (its.length + 1)) hv hn
          rw [hp] at this
          simp only at this ⊢
          rw [show its.length + (F + 4 - (its.length + 1)) + 1 = F + 4 by omega] at this
          simp only [hp]
          exact this
        | ready rd2 =>
          have := recRun_pre cfg 4 rd k _ (F + 4 - its.length) hv hn
          rw [hp] at this
          simp only at this ⊢
          rw [show its.length + (F + 4 - its.length) = F + 4 by omega] at this
          rw [this.1]
          have hpro := preAll_ready_proceed 4 rd rd2 k its hp
          obtain ⟨G, hG⟩ : ∃ G, F + 4 - its.length = G + 1 := ⟨F + 4 - its.length - 1, by omega⟩
          rw [hG]
          unfold recRun recRead
          rw [hv, this.2]
          simp only [hpro]
          simp [Output.prepend, cidsEnd_norm, hp]
    | restErr k e =>
      unfold interp
      have hv : viewKind (([], .restErr k e) : List Rec × Tail) = .kind k := rfl
      have hps := preAll_phase 4 rd k (by have := phase_le rd k; omega)
      have hle := phase_le rd k
      cases hp : preAll 4 rd k with
      | mk its pe =>
        rw [hp] at hps
        try rw [hp]
        simp only at hps
        cases pe with
        | stuck => exact absurd rfl hps.1
        | err e' rd2 =>
          have := recRun_pre cfg 4 rd k _ (F + 4 - (its.length + 1)) hv hn
          rw [hp] at this
          simp only at this ⊢
          rw [show its.length + (F + 4 - (its.length + 1)) + 1 = F + 4 by omega] at this
          simp only [hp]
          exact this
        | ready rd2 =>
          have := recRun_pre cfg 4 rd k _ (F + 4 - its.length) hv hn
          rw [hp] at this
          simp only at this ⊢
          rw [show its.length + (F + 4 - its.length) = F + 4 by omega] at this
          rw [this.1]
          have hpro := preAll_ready_proceed 4 rd rd2 k its hp
          obtain ⟨G, hG⟩ : ∃ G, F + 4 - its.length = G + 1 := ⟨F + 4 - its.length - 1, by omega⟩
          rw [hG]
          unfold recRun recRead
          rw [hv, this.2]
          simp only [hpro]
          simp [Output.prepend, cidsEnd_norm, hp]
  | cons r rs ih =>
    intro t rd F hn hF
    unfold interp
    have hv : viewKind ((r :: rs, t) : List Rec × Tail) = .kind r.kind := rfl
    have hps := preAll_phase 4 rd r.kind (by have := phase_le rd r.kind; omega)
    have hle := phase_le rd r.kind
    simp only [List.length_cons] at hF
    cases hp : preAll 4 rd r.kind with
    | mk its pe =>
      rw [hp] at hps
      try rw [hp]
      simp only at hps
      cases pe with
      | stuck => exact absurd rfl hps.1
      | err e rd2 =>
        have := recRun_pre cfg 4 rd r.kind (r :: rs, t) (F - (its.length + 1)) hv hn
        rw [hp] at this
        simp only at this ⊢
        rw [show its.length + (F - (its.length + 1)) + 1 = F by omega] at this
        exact this
      | ready rd2 =>
        have := recRun_pre cfg 4 rd r.kind (r :: rs, t) (F - its.length) hv hn
        rw [hp] at this
        simp only at this ⊢
        rw [show its.length + (F - its.length) = F by omega] at this
        rw [this.1]
        have hpro := preAll_ready_proceed 4 rd rd2 r.kind its hp
        obtain ⟨G, hG⟩ : ∃ G, F - its.length = G + 1 := ⟨F - its.length - 1, by omega⟩
        rw [hG]
        conv => lhs; unfold recRun recRead
        rw [hv, this.2]
        simp only [hpro]
        cases hpost : rd2.post cfg r.item with
        | item it rd3 =>
          simp only
          rw [ih t rd3 G (post_norm this.2 it rd3 hpost) (by omega)]
          simp [Output.prepend, Output.cons]
        | finished rd3 => simp [Output.prepend]
        | err e rd3 => simp [Output.prepend]
        | oom rd3 => simp [Output.prepend]

theorem empty_wf : Buffer.empty.wf := by simp [Buffer.wf, Buffer.len, Buffer.empty]

/-- **Main equivalence.**  For every stream `s` after a header of `hl` bytes and every list `ds`
of read sizes, the buffered reader produces exactly the reference output `runWhole cfg s`. -/
theorem run_eq_runWhole (cfg : Cfg) (hdr s : List UInt8) (ds : List Nat) :
    run cfg hdr.length (hdr ++ s) ds = runWhole cfg s := by
  unfold run
  simp only
  obtain ⟨hok, _, _⟩ := parseLoop_spec (good_pHeader hdr.length)
    (({ rem := hdr ++ s, ds := ds } : Cb).measure + 1) Buffer.empty { rem := hdr ++ s, ds := ds } empty_wf (by omega)
  have hph : pHeader hdr.length (logical Buffer.empty { rem := hdr ++ s, ds := ds }) = .ok () s := by
    simp [pHeader, logical, Buffer.empty]
  obtain ⟨b', c', hpl, hl', hw'⟩ := hok () s hph
  rw [hpl]
  simp only
  rw [runItems_eq_recRun cfg _ _ _ _ hw', hl']
  have hview : viewOf cfg.hasEx Reader.empty s = recsOf cfg.hasEx s := rfl
  rw [hview]
  unfold runWhole
  have hlen := parseAll_length cfg.hasEx (s.length + 1) s
  exact recRun_eq_interp cfg (recsOf cfg.hasEx s).1 (recsOf cfg.hasEx s).2 Reader.empty
    (readFuel (hdr ++ s).length) rfl (by
      show 4 * (parseAll cfg.hasEx (s.length + 1) s).1.length + 4 ≤ 4 * (hdr ++ s).length + 8
      simp only [List.length_append]; omega)

end Tw.Teehistorian
