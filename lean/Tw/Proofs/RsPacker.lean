import Tw.Gen.RsPacker
import Tw.Model.Packer
import Tw.Proofs.RsSem

/-!
Equivalence of the functions translated from `packer/src/lib.rs` (`Tw.Gen.RsPacker`, regenerated
by `tools/rs2lean` on every run) with the hand-written model `Tw.Packer` the C08 theorems are about.

Proof style: unfold the generated definition, split on the (finitely many) control paths, normalise
bit operations to arithmetic (`Tw.Proofs.RsSem`), close with `omega`.  Nothing depends on the
shape of the generated term beyond its meaning.
-/
namespace Tw.RsPacker
open Tw Tw.RsSem Tw.Packer Tw.Gen.RsPacker

/-- `to_bit(b, bit)` for `bit < 8` (the assertion holds) -/
theorem to_bit_eq (b : Bool) (bit : Nat) (h : bit < 8) :
    to_bit b bit = .ok (if b then 2 ^ bit else 0) := by
  unfold to_bit
  have h2 : (2:Nat) ^ bit < 2 ^ 8 := Nat.pow_lt_pow_right (by decide) h
  cases b <;> simp [RsSem.assert, h, shamtU, ushl, bind, Except.bind, pure, Except.pure, Nat.mod_eq_of_lt h2]

/-- `to_bit` panics exactly when the assertion `bit < 8` fails -/
theorem to_bit_panics (b : Bool) (bit : Nat) (h : 8 ≤ bit) : ∃ p, to_bit b bit = .error p := by
  unfold to_bit
  have : ¬ bit < 8 := by omega
  simp [RsSem.assert, this, RsSem.panic, bind, Except.bind]

theorem or128 (b : Nat) (h : b < 128) : 128 ||| b = 128 + b := or_mul_pow 1 b 7 h
theorem or64 (b : Nat) (h : b < 64) : 64 ||| b = 64 + b := or_mul_pow 1 b 6 h
theorem or192 (b : Nat) (h : b < 64) : 192 ||| b = 192 + b := or_mul_pow 3 b 6 h
theorem m63 (x : Nat) : x &&& 63 = x % 64 := and_mask x 6
theorem m127 (x : Nat) : x &&& 127 = x % 128 := and_mask x 7

/-- `(int ^ -sign) as u32` is the model's `foldSign` -/
theorem fold_eq (v : Int) (h : inI32 v) :
    castIU 32 (ixor 32 v (-(if v < 0 then 1 else 0))) = foldSign v := by
  have hi : inI 32 v := by simpa [inI, inI32] using h
  unfold foldSign castIU
  by_cases hv : v < 0
  · simp only [hv, if_true]; rw [ixor_neg_one sw32 v hi]
    simp only [inI32] at h; rw [toU_nonneg sw32] <;> omega
  · simp only [hv, if_false]; rw [show (-(0:Int)) = 0 from rfl, ixor_zero sw32 v hi]
    simp only [inI32] at h; rw [toU_nonneg sw32] <;> omega

end Tw.RsPacker
