import Tw.Gen.RsPacker
import Tw.Model.Packer
import Tw.Proofs.RsSem

/-!
Equivalence of the functions translated from `packer/src/lib.rs` (`Tw.Gen.RsPacker`, regenerated
by `tools/rs2lean` on every run) with the hand-written model `Tw.Packer` the C08 theorems are about.

Proof style: unfold the generated definition, split on the (finitely many) control paths, normalise
bit operations to arithmetic (`Tw.Proofs.RsSem`), close with `omega`.  Nothing depends on the
shape of the generated term beyond its meaning.
-/
namespace Tw.RsPacker
open Tw Tw.RsSem Tw.Packer Tw.Gen.RsPacker

/-- `to_bit(b, bit)` for `bit < 8` (the assertion holds) -/
theorem to_bit_eq (b : Bool) (bit : Nat) (h : bit < 8) :
    to_bit b bit = .ok (if b then 2 ^ bit else 0) := by
  unfold to_bit
  have h2 : (2:Nat) ^ bit < 2 ^ 8 := Nat.pow_lt_pow_right (by decide) h
  cases b <;> simp [RsSem.assert, h, shamtU, ushl, castBoolU, bind, Except.bind, pure, Except.pure, Nat.mod_eq_of_lt h2]

/-- `to_bit` panics exactly when the assertion `bit < 8` fails -/
theorem to_bit_panics (b : Bool) (bit : Nat) (h : 8 ≤ bit) : ∃ p, to_bit b bit = .error p := by
  unfold to_bit
  have : ¬ bit < 8 := by omega
  simp [RsSem.assert, this, RsSem.panic, bind, Except.bind]

theorem or128 (b : Nat) (h : b < 128) : 128 ||| b = 128 + b := or_mul_pow 1 b 7 h
theorem or64 (b : Nat) (h : b < 64) : 64 ||| b = 64 + b := or_mul_pow 1 b 6 h
theorem or192 (b : Nat) (h : b < 64) : 192 ||| b = 192 + b := or_mul_pow 3 b 6 h
theorem m63 (x : Nat) : x &&& 63 = x % 64 := and_mask x 6
theorem m127 (x : Nat) : x &&& 127 = x % 128 := and_mask x 7

/-- `(int ^ -sign) as u32` is the model's `foldSign` -/
theorem fold_eq (v : Int) (h : inI32 v) :
    castIU 32 (ixor 32 v (-(if v < 0 then 1 else 0))) = foldSign v := by
  have hi : inI 32 v := by simpa [inI, inI32] using h
  unfold foldSign castIU
  by_cases hv : v < 0
  · simp only [hv, if_true]; rw [ixor_neg_one sw32 v hi]
    simp only [inI32] at h; rw [toU_nonneg sw32] <;> omega
  · simp only [hv, if_false]; rw [show (-(0:Int)) = 0 from rfl, ixor_zero sw32 v hi]
    simp only [inI32] at h; rw [toU_nonneg sw32] <;> omega


/-! ### `write_int` -/

theorem fuel_cons (k : Nat) : fuel k = () :: List.replicate k () := rfl

/-- loop state of the `while int != 0` loop as Lean's `do` notation orders it: `(buf, int, exited)` -/
abbrev WS := List UInt8 × Nat × Bool

/-- The `while` loop of `write_int`, for *any* loop body `f` that meets the step specification
(`hf0`: exit when `int == 0`; `hf1`: otherwise push one byte and shift by 7): with `m < 128^n` and room
for `n` bytes it appends `writeTail n m` and exits regularly (no fuel panic) whenever `n ≤ fuel`. -/
theorem write_loop (f : Unit → WS → Rs (ForInStep WS))
    (hf0 : ∀ (buf : List UInt8) (e : Bool), f () (buf, 0, e) = .ok (.done (buf, 0, true)))
    (hf1 : ∀ (buf : List UInt8) (m : Nat) (e : Bool), m ≠ 0 → buf.length < 5 →
      f () (buf, m, e) =
        .ok (.yield (buf ++ [UInt8.ofNat ((if m / 128 ≠ 0 then 128 else 0) + m % 128)], m / 128, e))) :
    ∀ (n k : Nat) (buf : List UInt8) (m : Nat), n ≤ k → m < 128 ^ n → buf.length + n ≤ 5 →
      forIn (fuel k) (buf, m, false) f = .ok (buf ++ writeTail n m, 0, true) := by
  intro n
  induction n with
  | zero =>
    intro k buf m _ hm _
    have : m = 0 := by simpa using hm
    subst this
    rw [fuel_cons, List.forIn_cons, hf0]
    simp [writeTail, bind, Except.bind, pure, Except.pure]
  | succ n ih =>
    intro k buf m hk hm hb
    obtain ⟨k', rfl⟩ : ∃ k', k = k' + 1 := ⟨k - 1, by omega⟩
    by_cases h0 : m = 0
    · subst h0
      rw [fuel_cons, List.forIn_cons, hf0]
      simp [writeTail, bind, Except.bind, pure, Except.pure]
    · have hm' : m / 128 < 128 ^ n := by
        rw [Nat.div_lt_iff_lt_mul (by decide : 0 < 128)]
        rw [Nat.pow_succ] at hm; exact hm
      rw [fuel_cons, List.forIn_cons, hf1 buf m false h0 (by omega)]
      simp only [bind, Except.bind]
      show forIn (fuel k') _ f = _
      rw [ih k' _ (m / 128) (by omega) hm' (by simp; omega)]
      simp [writeTail, h0]

end Tw.RsPacker
