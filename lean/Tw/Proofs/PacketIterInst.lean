import Tw.Model.Packet6
import Tw.Model.Packet7
import Tw.Proofs.PacketIter

/-! Both protocols' `read_chunk_header` meet the iterator's requirements. -/
namespace Tw.Packet

theorem codec6_sane : Tw.Packet6.codec.Sane := by
  refine ⟨by decide, by decide, ?_⟩
  intro data h seq ws hr
  simp only [Tw.Packet6.codec] at hr
  unfold Tw.Packet6.readChunkHeader at hr
  split at hr
  · rename_i b0 b1 rest
    dsimp only at hr
    split at hr
    · split at hr
      · simp only [Option.some.injEq, Prod.mk.injEq] at hr
        obtain ⟨_, rfl, _⟩ := hr
        simp [ChunkCodec.hdrLen, Tw.Packet6.codec, Tw.Gen.Packet6.CHUNK_HEADER_SIZE_VITAL]
      · simp at hr
    · simp only [Option.some.injEq, Prod.mk.injEq] at hr
      obtain ⟨_, rfl, _⟩ := hr
      simp [ChunkCodec.hdrLen, Tw.Packet6.codec, Tw.Gen.Packet6.CHUNK_HEADER_SIZE]
  · simp at hr

theorem codec7_sane : Tw.Packet7.codec.Sane := by
  refine ⟨by decide, by decide, ?_⟩
  intro data h seq ws hr
  simp only [Tw.Packet7.codec] at hr
  unfold Tw.Packet7.readChunkHeader at hr
  split at hr
  · rename_i b0 b1 rest
    dsimp only at hr
    split at hr
    · split at hr
      · simp only [Option.some.injEq, Prod.mk.injEq] at hr
        obtain ⟨_, rfl, _⟩ := hr
        simp [ChunkCodec.hdrLen, Tw.Packet7.codec, Tw.Gen.Packet7.CHUNK_HEADER_SIZE_VITAL]
      · simp at hr
    · simp only [Option.some.injEq, Prod.mk.injEq] at hr
      obtain ⟨_, rfl, _⟩ := hr
      simp [ChunkCodec.hdrLen, Tw.Packet7.codec, Tw.Gen.Packet7.CHUNK_HEADER_SIZE]
  · simp at hr

end Tw.Packet
