import Tw.Proofs.SnapRaw

/-! sorted-set lemmas and the reference builder's integers -/
namespace Tw.Snap

/-- `write_to_ints` of a well-formed snapshot = what the reference builder produces when the same
items are inserted in ascending unsigned key order -/
theorem writeInts_eq_reference {s : RawSnap} (h : s.WF) :
    s.writeInts = some (refSnapInts (unsignedOrder s.items)) := by
  rw [writeInts_of_WF h]
  simp only [wireInts, refSnapInts, unsignedOrder_length, unsignedOrder_dataLen]

/-! sorted sets -/

theorem sinsert_mem {k x : Int} {l : List Int} : x ∈ sinsert k l ↔ x = k ∨ x ∈ l := by
  induction l with
  | nil => simp [sinsert]
  | cons a l ih =>
    simp only [sinsert]
    split
    · simp
    · split
      · subst_vars; simp
      · simp [ih]; constructor
        · rintro (h | h | h) <;> simp [h]
        · rintro (h | h | h) <;> simp [h]

theorem sinsert_sorted {k : Int} {l : List Int} (h : SortedSet l) : SortedSet (sinsert k l) := by
  unfold SortedSet at *
  induction l with
  | nil => simp [sinsert]
  | cons a l ih =>
    rw [List.pairwise_cons] at h
    simp only [sinsert]
    split
    · rw [List.pairwise_cons, List.pairwise_cons]
      refine ⟨?_, h⟩
      intro x hx
      simp at hx
      rcases hx with rfl | hx
      · assumption
      · have := h.1 x hx; omega
    · split
      · rw [List.pairwise_cons]; exact h
      · rw [List.pairwise_cons]
        refine ⟨?_, ih h.2⟩
        intro x hx
        rcases sinsert_mem.mp hx with rfl | hx
        · omega
        · exact h.1 x hx

theorem sinsert_length_of_not_mem {k : Int} {l : List Int} (h : k ∉ l) : (sinsert k l).length = l.length + 1 := by
  induction l with
  | nil => simp [sinsert]
  | cons a l ih =>
    simp at h
    simp only [sinsert]
    split
    · simp
    · have : ¬ k = a := h.1
      simp [this, ih h.2]

theorem sortedSet_ext {l1 l2 : List Int} (h1 : SortedSet l1) (h2 : SortedSet l2) (h : ∀ x, x ∈ l1 ↔ x ∈ l2) :
    l1 = l2 := by
  unfold SortedSet at *
  induction l1 generalizing l2 with
  | nil =>
    cases l2 with
    | nil => rfl
    | cons b l2 => have := (h b).mpr (by simp); simp at this
  | cons a l1 ih =>
    cases l2 with
    | nil => have := (h a).mp (by simp); simp at this
    | cons b l2 =>
      rw [List.pairwise_cons] at h1 h2
      have hab : a = b := by
        have ha := (h a).mp (by simp)
        have hb := (h b).mpr (by simp)
        simp at ha hb
        rcases ha with ha | ha
        · exact ha
        · rcases hb with hb | hb
          · exact hb.symm
          · have := h2.1 a ha
            have := h1.1 b hb
            omega
      subst hab
      congr 1
      apply ih h1.2 h2.2
      intro x
      have hx := h x
      simp at hx
      constructor
      · intro hm
        have hne : x ≠ a := by have := h1.1 x hm; omega
        have := hx.mp (Or.inr hm)
        rcases this with e | e
        · exact absurd e hne
        · exact e
      · intro hm
        have hne : x ≠ a := by have := h2.1 x hm; omega
        have := hx.mpr (Or.inr hm)
        rcases this with e | e
        · exact absurd e hne
        · exact e
end Tw.Snap
