import Tw.Proofs.ConnProgressCore
import Tw.Proofs.ConnSafety

/-!
# C02 (c), online-core level: what one side's "resend, then flush" emits and what a run of deliveries
does to the receiving core
-/
namespace Tw.Conn
open Tw.Time

/-! ## flush -/

theorem flush_rr_false (o : Online) : o.flush.1.requestResend = false := by
  unfold Online.flush
  split
  · rename_i h
    simp [Online.canSend] at h
    exact h.2
  · rfl

theorem flush_rr_imp (o : Online) : o.flush.1.requestResend = true → o.requestResend = true := by
  rw [flush_rr_false]; intro h; cases h

theorem flush_emits (o : Online) (h : o.canSend = true) :
    o.flush.2 = [⟨o.ack, o.requestResend, o.packet.numChunks, o.packet.chunks⟩] := by
  unfold Online.flush; simp [h]

theorem flush_silent (o : Online) (h : o.canSend = false) : o.flush.2 = [] ∧ o.flush.1 = o := by
  unfold Online.flush; simp [h]

theorem flush_acks (o : Online) : ∀ f ∈ o.flush.2, f.ack = o.ack := by
  unfold Online.flush
  split
  · simp
  · intro f hf; simp at hf; subst hf; rfl

/-! ## resend -/

theorem resendLoop_frame {cfg : Cfg} (now : Nat) :
    ∀ (todo : List ResendChunk) (o : Online) (send : Timeout) (acc : List Flushed) o' send' fl,
      resendLoop cfg now todo o send acc = .ok (o', send', fl) →
      o'.resendQueue = o.resendQueue ∧ o'.ack = o.ack ∧ (o'.requestResend = true → o.requestResend = true) ∧
      (todo ≠ [] → vitals o'.packet.chunks ≠ []) ∧
      ((∀ f ∈ acc, f.ack = o.ack) → ∀ f ∈ fl, f.ack = o.ack) := by
  intro todo
  induction todo with
  | nil =>
    intro o send acc o' send' fl he
    simp only [resendLoop] at he
    injection he with he; injection he with h1 h2; injection h2 with h2 h3
    subst h1 h3
    exact ⟨rfl, rfl, id, fun h => absurd rfl h, id⟩
  | cons c rest ih =>
    intro o send acc o' send' fl he
    unfold resendLoop at he
    simp only at he
    cases hw : (if o.packet.canFit c.data.length true = true then o else o.flush.1).packet.writeChunk cfg c.data
        (some (c.seq, true)) with
    | error e => rw [hw] at he; cases he
    | ok p =>
      rw [hw] at he
      simp only at he
      have hpc := writeChunk_chunks hw
      obtain ⟨i1, i2, i3, i4, i5⟩ := ih _ _ _ o' send' fl he
      have hv : vitals p.chunks ≠ [] := by
        rw [hpc, vitals_append]; simp [vitals]
      by_cases hf : o.packet.canFit c.data.length true = true
      · simp only [hf, if_true] at i1 i2 i3 i4 i5 hw
        refine ⟨i1, i2, i3, fun _ => ?_, i5⟩
        by_cases hr : rest = []
        · subst hr
          simp only [resendLoop, hf, if_true] at he
          injection he with he; injection he with h1 _
          rw [← h1]; exact hv
        · exact i4 hr
      · simp only [hf, Bool.false_eq_true, if_false] at i1 i2 i3 i4 i5 hw
        refine ⟨by rw [i1]; exact Online.flush_resendQueue o, by rw [i2]; exact Online.flush_ack o,
          fun h => flush_rr_imp o (i3 h), fun _ => ?_, ?_⟩
        · by_cases hr : rest = []
          · subst hr
            simp only [resendLoop, hf, Bool.false_eq_true, if_false] at he
            injection he with he; injection he with h1 _
            rw [← h1]; exact hv
          · exact i4 hr
        · intro hacc f hf'
          have := i5 (by
            intro f hf''
            rcases List.mem_append.mp hf'' with h | h
            · rw [hacc f h]; exact (Online.flush_ack o).symm
            · rw [flush_acks o f h]; exact (Online.flush_ack o).symm) f hf'
          rw [this]; exact Online.flush_ack o

theorem resend_frame {cfg : Cfg} {now : Nat} {o o' : Online} {send send' : Timeout} {fl : List Flushed}
    (he : o.resend cfg now send = .ok (o', send', fl)) :
    o'.ack = o.ack ∧ o'.resendQueue.length = o.resendQueue.length ∧
    (o'.requestResend = true → o.requestResend = true) ∧
    (o.resendQueue = [] → o' = o ∧ fl = []) ∧
    (o.resendQueue ≠ [] → vitals o'.packet.chunks ≠ []) ∧ (∀ f ∈ fl, f.ack = o.ack) := by
  unfold Online.resend at he
  split at he
  · rename_i hemp
    injection he with he; injection he with h1 h2; injection h2 with h2 h3
    subst h1 h3
    have : o.resendQueue = [] := by simpa using hemp
    exact ⟨rfl, rfl, id, fun _ => ⟨rfl, rfl⟩, fun h => absurd this h, by simp⟩
  · rename_i hne
    have hne' : o.resendQueue ≠ [] := by simpa using hne
    obtain ⟨i1, i2, i3, i4, i5⟩ := resendLoop_frame now _ _ _ _ _ _ _ he
    refine ⟨i2, by rw [i1]; simp [Online.resendStart], i3, fun h => absurd h hne', fun _ => i4 ?_, i5 (by simp)⟩
    simp [Online.resendStart, hne']

/-- one side's part of a fair round: resend everything unacknowledged, then flush -/
def sendPhase (cfg : Cfg) (o : Online) : Option (Online × List Flushed) :=
  match o.resend cfg 0 .inactive with
  | .ok (o', _, fl) => some (o'.flush.1, fl ++ o'.flush.2)
  | .error _ => none

theorem vitals_filter_nonvital (cs : List Chunk) : vitals (cs.filter nonvital) = [] := by
  induction cs with
  | nil => rfl
  | cons c cs ih =>
    simp only [List.filter]
    cases hv : c.vital with
    | none => simp [nonvital, hv, vitals, ih]
    | some v => simp [nonvital, hv, ih]

theorem vitals_ne_nil_chunks {cs : List Chunk} (h : vitals cs ≠ []) : cs ≠ [] := by
  intro hc; subst hc; exact h rfl

theorem sendPhase_ok {cfg : Cfg} (hc : cfg.Ok) {o : Online} (hinv : o.Inv cfg) :
    ∃ o2 fls, sendPhase cfg o = some (o2, fls) := by
  obtain ⟨o', send', fl, he, _⟩ := Online.resend_spec hc hinv 0 .inactive
  refine ⟨o'.flush.1, fl ++ o'.flush.2, ?_⟩
  simp [sendPhase, he]

theorem sendPhase_spec {cfg : Cfg} (hc : cfg.Ok) {o o2 : Online} {fls : List Flushed} (hinv : o.Inv cfg)
    (h : sendPhase cfg o = some (o2, fls)) :
    o2.Inv cfg ∧ o2.ack = o.ack ∧ o2.resendQueue.length = o.resendQueue.length ∧ o2.requestResend = false ∧
    o2.packet.chunks = [] ∧ (∀ f ∈ fls, f.ack = o.ack) ∧
    (o.resendQueue ≠ [] → flVitals fls = o.resendQueue.reverse.map (fun c => (c.seq, c.data)) ∧
      ∃ pre last, fls = pre ++ [last] ∧ vitals last.chunks ≠ []) ∧
    (o.resendQueue = [] → flVitals fls = vitals o.packet.chunks) ∧
    ((o.resendQueue ≠ [] ∨ o.packet.numChunks ≠ 0 ∨ o.requestResend = true) → fls ≠ []) := by
  obtain ⟨o', send', fl, he, hinv', _⟩ := Online.resend_spec hc hinv 0 .inactive
  simp only [sendPhase, he, Option.some.injEq, Prod.mk.injEq] at h
  obtain ⟨h1, h2⟩ := h
  subst h1 h2
  obtain ⟨f1, f2, f3, f4, f5, f6⟩ := resend_frame he
  have hnil := Online.flush_packet_nil hinv'
  refine ⟨Online.flush_inv hinv', by rw [Online.flush_ack, f1], by rw [Online.flush_resendQueue, f2],
    flush_rr_false o', hnil, ?_, ?_, ?_, ?_⟩
  · intro f hf
    rcases List.mem_append.mp hf with hf | hf
    · exact f6 f hf
    · rw [flush_acks o' f hf, f1]
  · intro hne
    have hv := resend_vitals (by rw [hinv.nv]; exact vitals_filter_nonvital _) hne he
    rw [hnil] at hv
    refine ⟨by simpa [vitals] using hv, fl, ⟨o'.ack, o'.requestResend, o'.packet.numChunks, o'.packet.chunks⟩, ?_, f5 hne⟩
    have hcs : o'.canSend = true := by
      have := vitals_ne_nil_chunks (f5 hne)
      have hl : o'.packet.chunks.length ≠ 0 := by simpa using this
      simp [Online.canSend, hinv'.pn, hl]
    rw [flush_emits o' hcs]
  · intro hemp
    obtain ⟨e1, e2⟩ := f4 hemp
    rw [e1, e2]
    have := flush_vitals o
    rw [Online.flush_packet_nil hinv] at this
    simpa [vitals] using this
  · intro hcan
    rcases hcan with hne | hp | hr
    · have hcs : o'.canSend = true := by
        have := vitals_ne_nil_chunks (f5 hne)
        have hl : o'.packet.chunks.length ≠ 0 := by simpa using this
        simp [Online.canSend, hinv'.pn, hl]
      rw [flush_emits o' hcs]; simp
    · by_cases hemp : o.resendQueue = []
      · obtain ⟨e1, e2⟩ := f4 hemp
        rw [e1, e2, flush_emits o (by simp [Online.canSend, hp])]; simp
      · have hcs : o'.canSend = true := by
          have := vitals_ne_nil_chunks (f5 hemp)
          have hl : o'.packet.chunks.length ≠ 0 := by simpa using this
          simp [Online.canSend, hinv'.pn, hl]
        rw [flush_emits o' hcs]; simp
    · by_cases hemp : o.resendQueue = []
      · obtain ⟨e1, e2⟩ := f4 hemp
        rw [e1, e2, flush_emits o (by simp [Online.canSend, hr])]; simp
      · have hcs : o'.canSend = true := by
          have := vitals_ne_nil_chunks (f5 hemp)
          have hl : o'.packet.chunks.length ≠ 0 := by simpa using this
          simp [Online.canSend, hinv'.pn, hl]
        rw [flush_emits o' hcs]; simp

/-! ## the eager scan on chunks that are not accepted -/

theorem receiveEager_fst_indep (a : Nat) (r r' : Bool) (cs : List Chunk) :
    (receiveEager a r cs).1 = (receiveEager a r' cs).1 := by
  induction cs generalizing a r r' with
  | nil => rfl
  | cons c cs ih =>
    unfold receiveEager
    cases hv : c.vital with
    | none => exact ih a r r'
    | some v => obtain ⟨s, rf⟩ := v; exact ih _ _ _

theorem receiveEager_no_vitals (a : Nat) (rr : Bool) (cs : List Chunk) (h : vitals cs = []) :
    receiveEager a rr cs = (a, rr) := by
  induction cs with
  | nil => rfl
  | cons c cs ih =>
    unfold receiveEager
    cases hv : c.vital with
    | none => simp only [vitals, hv] at h; exact ih h
    | some v => obtain ⟨s, rf⟩ := v; simp [vitals, hv] at h

theorem receiveEager_rejects (a : Nat) (cs : List Chunk)
    (h : ∀ c ∈ cs, ∀ s r, c.vital = some (s, r) → s ≠ seqNext a) :
    ∀ rr, (receiveEager a rr cs).1 = a ∧ (vitals cs ≠ [] → (receiveEager a rr cs).2 = true) ∧
      (rr = true → (receiveEager a rr cs).2 = true) := by
  induction cs with
  | nil => intro rr; exact ⟨rfl, fun h => absurd rfl h, id⟩
  | cons c cs ih =>
    intro rr
    have ih' := ih (fun c' hc' => h c' (List.mem_cons_of_mem _ hc'))
    unfold receiveEager
    cases hv : c.vital with
    | none =>
      obtain ⟨a1, a2, a3⟩ := ih' rr
      exact ⟨a1, fun hne => a2 (by simpa [vitals, hv] using hne), a3⟩
    | some v =>
      obtain ⟨s, rf⟩ := v
      have hs := h c (by simp) s rf hv
      have h1 : (seqUpdate a s).1 = a := by rw [Tw.NetSim.seqUpdate_fst, if_neg (Ne.symm hs)]
      have h2 : (seqUpdate a s).2 ≠ .current := fun hh => hs ((Tw.NetSim.seqUpdate_snd a s).mp hh).symm
      simp only
      rw [h1]
      have hb : (rr || (seqUpdate a s).2 != SeqOrd.current) = true := by simp [h2]
      rw [hb]
      obtain ⟨a1, _, a3⟩ := ih' true
      exact ⟨a1, fun _ => a3 rfl, fun _ => a3 rfl⟩

/-! ## one delivery, on the receiving core -/

/-- what `step (.deliver ..)` does to the receiving core -/
def recvOnline (cfg : Cfg) (o : Online) (p : Flushed) : Option Online :=
  match o.feedAck p.ack with
  | .error _ => none
  | .ok o1 =>
    match o1.receive cfg 0 .inactive p.requestResend p.chunks with
    | .error _ => none
    | .ok (o2, _, _, _) => some o2

theorem recvOnline_open {cfg : Cfg} {o o2 : Online} {p : Flushed} (h : recvOnline cfg o p = some o2) :
    ∃ o1' : Online,
      ((p.requestResend = false ∨ (o.ackChunks p.ack).resendQueue = []) → o1' = o.ackChunks p.ack) ∧
      o1'.ack = o.ack ∧ o1'.resendQueue.length = (o.ackChunks p.ack).resendQueue.length ∧
      (o1'.requestResend = true → o.requestResend = true) ∧
      o2.ack = (receiveEager o.ack o1'.requestResend p.chunks).1 ∧
      o2.requestResend = (receiveEager o.ack o1'.requestResend p.chunks).2 ∧
      o2.resendQueue = o1'.resendQueue ∧ o2.packet = o1'.packet := by
  unfold recvOnline at h
  cases hfa : o.feedAck p.ack with
  | error e => rw [hfa] at h; cases h
  | ok o1 =>
    rw [hfa] at h
    simp only at h
    have ho1 := Tw.NetSim.feedAck_eq hfa
    obtain ⟨ka, _, kp, _, krr, _, _, _⟩ := Tw.NetSim.ackChunks_fields o p.ack
    rw [← ho1] at ka krr
    cases hrc : o1.receive cfg 0 .inactive p.requestResend p.chunks with
    | error e => rw [hrc] at h; cases h
    | ok r =>
      obtain ⟨o2', s2, fl, evs⟩ := r
      rw [hrc] at h
      injection h with h
      subst h
      unfold Online.receive at hrc
      cases hrr : p.requestResend with
      | false =>
        simp only [hrr, Bool.false_eq_true, if_false] at hrc
        split at hrc
        · cases hrc
        · injection hrc with hrc; injection hrc with e1 _
          subst e1
          refine ⟨o1, fun _ => ho1, ka, by rw [ho1], fun h => by rw [krr] at h; exact h, ?_, ?_, rfl, rfl⟩
          · simp only [ka]
          · simp only [ka]
      | true =>
        simp only [hrr, if_true] at hrc
        cases hrs : o1.resend cfg 0 .inactive with
        | error e => rw [hrs] at hrc; cases hrc
        | ok r2 =>
          obtain ⟨o1', s1', fl1⟩ := r2
          rw [hrs] at hrc
          simp only at hrc
          split at hrc
          · cases hrc
          · injection hrc with hrc; injection hrc with e1 _
            subst e1
            obtain ⟨f1, f2, f3, f4, _, _⟩ := resend_frame hrs
            refine ⟨o1', ?_, by rw [f1, ka], by rw [f2, ho1], fun h => by rw [← krr]; exact f3 h, ?_, ?_, rfl, rfl⟩
            · intro hor
              rcases hor with hor | hor
              · cases hor
              · rw [← ho1] at hor ⊢
                exact (f4 hor).1
            · simp only [f1, ka]
            · simp only [f1, ka]

/-- a run of deliveries, on the receiving core -/
def recvList (cfg : Cfg) : Online → List Flushed → Option Online
  | o, [] => some o
  | o, p :: ps =>
    match recvOnline cfg o p with
    | none => none
    | some o2 => recvList cfg o2 ps

theorem recvList_append {cfg : Cfg} (a b : List Flushed) (o : Online) :
    recvList cfg o (a ++ b) = (recvList cfg o a).bind fun o1 => recvList cfg o1 b := by
  induction a generalizing o with
  | nil => rfl
  | cons p ps ih =>
    simp only [List.cons_append, recvList]
    cases recvOnline cfg o p with
    | none => rfl
    | some o2 => exact ih o2

/-- the ack after a run of deliveries is the eager scan over the concatenation -/
theorem recvList_ack {cfg : Cfg} : ∀ (ps : List Flushed) (o o' : Online), recvList cfg o ps = some o' →
    o'.ack = (receiveEager o.ack false (ps.flatMap (·.chunks))).1 := by
  intro ps
  induction ps with
  | nil => intro o o' h; simp [recvList] at h; subst h; rfl
  | cons p ps ih =>
    intro o o' h
    simp only [recvList] at h
    cases hr : recvOnline cfg o p with
    | none => rw [hr] at h; cases h
    | some o2 =>
      rw [hr] at h
      obtain ⟨o1', _, _, _, _, ha, _, _, _⟩ := recvOnline_open hr
      rw [ih o2 o' h, ha, List.flatMap_cons, receiveEager_append]
      rw [receiveEager_fst_indep _ _ false, receiveEager_fst_indep o.ack _ false]
      exact receiveEager_fst_indep _ _ _ _

/-- an empty resend queue stays empty and the packet is not touched -/
theorem recvList_idle {cfg : Cfg} : ∀ (ps : List Flushed) (o o' : Online), recvList cfg o ps = some o' →
    o.resendQueue = [] → o'.resendQueue = [] ∧ o'.packet = o.packet := by
  intro ps
  induction ps with
  | nil => intro o o' h hq; simp [recvList] at h; subst h; exact ⟨hq, rfl⟩
  | cons p ps ih =>
    intro o o' h hq
    simp only [recvList] at h
    cases hr : recvOnline cfg o p with
    | none => rw [hr] at h; cases h
    | some o2 =>
      rw [hr] at h
      obtain ⟨o1', h1, _, _, _, _, _, h7, h8⟩ := recvOnline_open hr
      obtain ⟨_, _, kp, _, _, kl, _, _⟩ := Tw.NetSim.ackChunks_fields o p.ack
      have hq1 : (o.ackChunks p.ack).resendQueue = [] := by
        rw [hq] at kl; exact List.length_eq_zero_iff.mp (Nat.le_zero.mp (by simpa using kl))
      have := h1 (Or.inr hq1)
      subst this
      obtain ⟨a, b⟩ := ih o2 o' h (by rw [h7]; exact hq1)
      exact ⟨a, by rw [b, h8, kp]⟩

/-- an ack naming the newest unacknowledged chunk, on the first datagram: the queue is emptied, the
packet is not touched -/
theorem recvList_acked {cfg : Cfg} (p : Flushed) (ps : List Flushed) (o o' : Online)
    (h : recvList cfg o (p :: ps) = some o') (c : ResendChunk) (rest : List ResendChunk)
    (hq : o.resendQueue = c :: rest) (hp : p.ack = c.seq) : o'.resendQueue = [] ∧ o'.packet = o.packet := by
  simp only [recvList] at h
  cases hr : recvOnline cfg o p with
  | none => rw [hr] at h; cases h
  | some o2 =>
    rw [hr] at h
    obtain ⟨o1', h1, _, _, _, _, _, h7, h8⟩ := recvOnline_open hr
    obtain ⟨_, _, kp, _, _, _, _, _⟩ := Tw.NetSim.ackChunks_fields o p.ack
    have hq1 : (o.ackChunks p.ack).resendQueue = [] := by rw [hp]; exact ackChunks_all o c rest hq
    have := h1 (Or.inr hq1)
    subst this
    obtain ⟨a, b⟩ := recvList_idle ps o2 o' h (by rw [h7]; exact hq1)
    exact ⟨a, by rw [b, h8, kp]⟩

/-- no vital chunk arrives: a cleared resend request stays cleared -/
theorem recvList_rr_false {cfg : Cfg} : ∀ (ps : List Flushed) (o o' : Online), recvList cfg o ps = some o' →
    o.requestResend = false → (∀ p ∈ ps, vitals p.chunks = []) → o'.requestResend = false := by
  intro ps
  induction ps with
  | nil => intro o o' h hr _; simp [recvList] at h; subst h; exact hr
  | cons p ps ih =>
    intro o o' h hrr hv
    simp only [recvList] at h
    cases hr : recvOnline cfg o p with
    | none => rw [hr] at h; cases h
    | some o2 =>
      rw [hr] at h
      obtain ⟨o1', _, _, _, h4, _, h6, _, _⟩ := recvOnline_open hr
      have h1f : o1'.requestResend = false := by
        cases hh : o1'.requestResend with
        | false => rfl
        | true => rw [h4 hh] at hrr; cases hrr
      refine ih o2 o' h ?_ (fun p' hp' => hv p' (List.mem_cons_of_mem _ hp'))
      rw [h6, receiveEager_no_vitals _ _ _ (hv p (by simp)), h1f]

/-- every vital chunk that arrives is rejected, and the last datagram carries one: the receiver ends
up asking for a resend (and its ack has not moved) -/
theorem recvList_rr_set {cfg : Cfg} : ∀ (ps : List Flushed) (o o' : Online), recvList cfg o ps = some o' →
    (∀ p ∈ ps, ∀ c ∈ p.chunks, ∀ s r, c.vital = some (s, r) → s ≠ seqNext o.ack) →
    o'.ack = o.ack ∧ (∀ pre last, ps = pre ++ [last] → vitals last.chunks ≠ [] → o'.requestResend = true) := by
  intro ps
  induction ps with
  | nil =>
    intro o o' h _
    simp [recvList] at h; subst h
    exact ⟨rfl, fun pre last hps => by simp at hps⟩
  | cons p ps ih =>
    intro o o' h hrej
    simp only [recvList] at h
    cases hr : recvOnline cfg o p with
    | none => rw [hr] at h; cases h
    | some o2 =>
      rw [hr] at h
      obtain ⟨o1', _, _, _, _, h5, h6, _, _⟩ := recvOnline_open hr
      obtain ⟨e1, e2, _⟩ := receiveEager_rejects o.ack p.chunks (hrej p (by simp)) o1'.requestResend
      have hack2 : o2.ack = o.ack := by rw [h5, e1]
      obtain ⟨a, b⟩ := ih o2 o' h (by
        intro p' hp' c hc s r hv
        rw [hack2]; exact hrej p' (List.mem_cons_of_mem _ hp') c hc s r hv)
      refine ⟨by rw [a, hack2], ?_⟩
      intro pre last hps hv
      cases pre with
      | nil =>
        simp only [List.nil_append, List.cons.injEq] at hps
        obtain ⟨hp, hps'⟩ := hps
        subst hp hps'
        simp [recvList] at h
        subst h
        rw [h6]; exact e2 hv
      | cons q pre' =>
        simp only [List.cons_append, List.cons.injEq] at hps
        exact b pre' last hps.2 hv

end Tw.Conn
