import Tw.Proofs.HuffmanRefD
import Tw.Model.HuffmanStream

/-! The compressor in the form of the Rust code (`compress_impl_unsafe`, model `compressStreamInto`)
computes the spec form (`compressInto`) for well-formed tables: same bytes, capacity error exactly
when they do not fit, never a panic. -/
namespace Tw.Huffman

theorem or_shift_eq_add (a x k : Nat) (h : a < 2 ^ k) : a ||| (x * 2 ^ k) = a + x * 2 ^ k := by
  rw [Nat.or_comm, ← Nat.shiftLeft_eq, ← Nat.shiftLeft_add_eq_or_of_lt h, Nat.add_comm]

/-- the whole-byte loop -/
theorem streamWhole_spec (cap bits nb : Nat) (hnb : nb ≤ 24) (fuel : Nat) :
    ∀ (bw : Nat) (out : List UInt8), bw ≤ nb → (nb - bw) / 8 < fuel → out.length ≤ cap →
      (out.length + (nb - bw) / 8 ≤ cap →
        ∃ out', streamWhole cap bits nb fuel bw out = some (some (bw + 8 * ((nb - bw) / 8), out'))
          ∧ out'.length = out.length + (nb - bw) / 8
          ∧ ∀ B, out'.reverse ++ packBits (natBits (nb - (bw + 8 * ((nb - bw) / 8)))
                (bits / 2 ^ (bw + 8 * ((nb - bw) / 8))) ++ B)
              = out.reverse ++ packBits (natBits (nb - bw) (bits / 2 ^ bw) ++ B))
      ∧ (out.length + (nb - bw) / 8 > cap → streamWhole cap bits nb fuel bw out = some none) := by
  induction fuel with
  | zero => intro bw out _ hf; omega
  | succ f ih =>
    intro bw out hbw hf hlen
    by_cases h8 : nb - bw ≥ 8
    · have hk : (nb - bw) / 8 = (nb - (bw + 8)) / 8 + 1 := by omega
      have h32 : ¬ bw ≥ 32 := by omega
      have e : bw + 8 + 8 * ((nb - (bw + 8)) / 8) = bw + 8 * ((nb - bw) / 8) := by omega
      have hle : bw + 8 ≤ nb := by omega
      have hf' : (nb - (bw + 8)) / 8 < f := by omega
      simp only [streamWhole, h8, h32, if_true, if_false]
      by_cases hc' : out.length ≥ cap
      · simp only [hc', if_true]
        exact ⟨fun hc => by omega, fun _ => trivial⟩
      · simp only [hc', if_false]
        have hlen' : (UInt8.ofNat ((bits / 2 ^ bw) % 256) :: out).length ≤ cap := by
          simp only [List.length_cons]; omega
        have hl1 : (UInt8.ofNat ((bits / 2 ^ bw) % 256) :: out).length = out.length + 1 := rfl
        have h8eq : 8 + (nb - (bw + 8)) = nb - bw := by omega
        have hj2 : ∀ x, x = out.length + 1 + (nb - (bw + 8)) / 8 → x = out.length + (nb - bw) / 8 := by
          intro x hx; omega
        have hsplit : natBits (nb - bw) (bits / 2 ^ bw)
            = natBits 8 (bits / 2 ^ bw) ++ natBits (nb - (bw + 8)) (bits / 2 ^ (bw + 8)) := by
          have := natBits_add 8 (nb - (bw + 8)) (bits / 2 ^ bw)
          rw [h8eq, Nat.div_div_eq_div_mul, ← Nat.pow_add] at this
          exact this
        have ih' := ih (bw + 8) (UInt8.ofNat ((bits / 2 ^ bw) % 256) :: out) hle hf' hlen'
        rw [hl1, e] at ih'
        obtain ⟨ih1, ih2⟩ := ih'
        constructor
        · intro hc
          have hc2 : out.length + 1 + (nb - (bw + 8)) / 8 ≤ cap := by omega
          obtain ⟨out', j1, j2, j3⟩ := ih1 hc2
          refine ⟨out', j1, hj2 _ j2, ?_⟩
          intro B
          rw [j3 B]
          rw [hsplit, List.append_assoc, packBits_chunk _ _ (natBits_length 8 _), bitsToNat_natBits]
          simp
        · intro hc
          exact ih2 (by omega)
    · have hk : (nb - bw) / 8 = 0 := by omega
      simp only [streamWhole, h8, if_false, hk, Nat.mul_zero, Nat.add_zero]
      exact ⟨fun _ => ⟨out, rfl, rfl, fun _ => rfl⟩, fun h => by omega⟩
/-- the pending bits of a state -/
def SState.Pending (st : SState) (P : List Bool) : Prop :=
  P.length = st.nob ∧ st.nob < 8 ∧ st.byte = bitsToNat P

theorem streamSym_spec (t : Table) (cap : Nat) (st : SState) (P : List Bool) (s : Nat)
    (hP : st.Pending P) (hl : symLen t s ≤ 24) (hb : symBits t s < 2 ^ symLen t s)
    (hout : st.out.length ≤ cap) :
    (st.out.length + (st.nob + symLen t s) / 8 ≤ cap →
      ∃ st' P', streamSym t cap st s = .ok st' ∧ st'.Pending P'
        ∧ st'.nob = (st.nob + symLen t s) % 8
        ∧ st'.out.length = st.out.length + (st.nob + symLen t s) / 8
        ∧ ∀ B, st'.out.reverse ++ packBits (P' ++ B)
            = st.out.reverse ++ packBits (P ++ codeBits t s ++ B))
    ∧ (st.out.length + (st.nob + symLen t s) / 8 > cap → streamSym t cap st s = .capacity) := by
  obtain ⟨hP1, hP2, hP3⟩ := hP
  have hPlt : bitsToNat P < 2 ^ st.nob := by rw [← hP1]; exact bitsToNat_lt P
  have hcode : codeBits t s = natBits (symLen t s) (symBits t s) := rfl
  have hnob : ¬ st.nob > 8 := by omega
  by_cases hfull : symLen t s ≥ 8 - st.nob
  · -- at least one byte is completed
    simp only [streamSym, hnob, hfull, if_true, if_false]
    -- the first byte
    have hmod : (symBits t s * 2 ^ st.nob) % 256 = (symBits t s % 2 ^ (8 - st.nob)) * 2 ^ st.nob := by
      have : (256 : Nat) = 2 ^ (8 - st.nob) * 2 ^ st.nob := by
        rw [← Nat.pow_add, show 8 - st.nob + st.nob = 8 by omega]
      rw [this, Nat.mul_mod_mul_right]
    have hfirst : st.byte ||| ((symBits t s * 2 ^ st.nob) % 256)
        = bitsToNat (P ++ natBits (8 - st.nob) (symBits t s)) := by
      rw [hmod, hP3, or_shift_eq_add _ _ _ hPlt, bitsToNat_append, bitsToNat_natBits, hP1, Nat.mul_comm]
    have hlen8 : (P ++ natBits (8 - st.nob) (symBits t s)).length = 8 := by
      simp only [List.length_append, natBits_length]; omega
    have hsplit : codeBits t s = natBits (8 - st.nob) (symBits t s)
        ++ natBits (symLen t s - (8 - st.nob)) (symBits t s / 2 ^ (8 - st.nob)) := by
      have := natBits_add (8 - st.nob) (symLen t s - (8 - st.nob)) (symBits t s)
      rw [show 8 - st.nob + (symLen t s - (8 - st.nob)) = symLen t s by omega] at this
      rw [hcode]; exact this
    have hk : (st.nob + symLen t s) / 8 = (symLen t s - (8 - st.nob)) / 8 + 1 := by omega
    by_cases hc' : st.out.length ≥ cap
    · simp only [hc', if_true]
      exact ⟨fun hc => by omega, fun _ => trivial⟩
    · simp only [hc', if_false]
      obtain ⟨bw, hbwdef⟩ : ∃ bw, bw = 8 - st.nob + 8 * ((symLen t s - (8 - st.nob)) / 8) := ⟨_, rfl⟩
      have hbw32 : ¬ bw ≥ 32 := by omega
      have hbwle : bw ≤ symLen t s := by omega
      have hrem8 : symLen t s - bw < 8 := by omega
      have hnobeq : symLen t s - bw = (st.nob + symLen t s) % 8 := by omega
      have hlen1 : ∀ x : Nat, x = st.out.length + 1 + (symLen t s - (8 - st.nob)) / 8 →
          x = st.out.length + (st.nob + symLen t s) / 8 := by intro x hx; omega
      have hc1 : st.out.length + (st.nob + symLen t s) / 8 ≤ cap →
          st.out.length + 1 + (symLen t s - (8 - st.nob)) / 8 ≤ cap := by intro h; omega
      have hc2 : st.out.length + (st.nob + symLen t s) / 8 > cap →
          st.out.length + 1 + (symLen t s - (8 - st.nob)) / 8 > cap := by intro h; omega
      have hremlt : symBits t s / 2 ^ bw < 2 ^ (symLen t s - bw) := by
        have : 2 ^ symLen t s = 2 ^ (symLen t s - bw) * 2 ^ bw := by
          rw [← Nat.pow_add]; congr 1; omega
        rw [this] at hb
        exact Nat.div_lt_of_lt_mul (by rw [Nat.mul_comm]; exact hb)
      have hrem256 : symBits t s / 2 ^ bw < 256 :=
        Nat.lt_of_lt_of_le hremlt (Nat.pow_le_pow_right (by decide) (by omega) : _ ≤ 2 ^ 8)
      have hsw := streamWhole_spec cap (symBits t s) (symLen t s) hl 40 (8 - st.nob)
        (UInt8.ofNat (st.byte ||| ((symBits t s * 2 ^ st.nob) % 256)) :: st.out) (by omega) (by omega)
        (by simp only [List.length_cons]; omega)
      rw [show (UInt8.ofNat (st.byte ||| ((symBits t s * 2 ^ st.nob) % 256)) :: st.out).length
        = st.out.length + 1 from rfl, ← hbwdef] at hsw
      obtain ⟨w1, w2⟩ := hsw
      constructor
      · intro hc
        obtain ⟨out', j1, j2, j3⟩ := w1 (hc1 hc)
        rw [j1]
        simp only [hbw32, if_false]
        refine ⟨_, natBits (symLen t s - bw) (symBits t s / 2 ^ bw), rfl,
          ⟨natBits_length _ _, hrem8, ?_⟩, hnobeq, hlen1 _ j2, ?_⟩
        · show symBits t s / 2 ^ bw % 256 = _
          rw [natBits_of_lt _ _ hremlt, Nat.mod_eq_of_lt hrem256]
        · intro B
          show out'.reverse ++ _ = _
          rw [j3 B, hsplit, hfirst]
          simp only [List.reverse_cons, List.append_assoc, List.cons_append, List.nil_append]
          rw [← List.append_assoc P, packBits_chunk _ _ hlen8]
      · intro hc
        rw [w2 (hc2 hc)]
  · -- the symbol fits into the byte under construction
    have hk : (st.nob + symLen t s) / 8 = 0 := by omega
    have hmodeq : st.nob + symLen t s = (st.nob + symLen t s) % 8 := by omega
    have hlt8 : st.nob + symLen t s < 8 := by omega
    have hlt : symBits t s * 2 ^ st.nob < 256 := by
      have h1 : symBits t s * 2 ^ st.nob < 2 ^ symLen t s * 2 ^ st.nob :=
        Nat.mul_lt_mul_of_pos_right hb (Nat.two_pow_pos _)
      rw [← Nat.pow_add] at h1
      exact Nat.lt_of_lt_of_le h1 (Nat.pow_le_pow_right (by decide) (by omega) : _ ≤ 2 ^ 8)
    simp only [streamSym, hnob, hfull, if_false, hk, Nat.add_zero]
    refine ⟨fun _ => ⟨_, P ++ codeBits t s, rfl, ⟨?_, hlt8, ?_⟩, hmodeq, rfl, fun B => ?_⟩,
      fun h => by omega⟩
    · simp [codeBits_length, hP1]
    · show st.byte ||| (symBits t s * 2 ^ st.nob) % 256 = _
      rw [Nat.mod_eq_of_lt hlt, hP3, or_shift_eq_add _ _ _ hPlt, bitsToNat_append,
        bitsToNat_codeBits t s hb, hP1, Nat.mul_comm]
    · show st.out.reverse ++ _ = _
      simp

theorem streamGo_spec (t : Table) (cap : Nat) (ss : List Nat) :
    ∀ (st : SState) (P : List Bool), st.Pending P → st.out.length ≤ cap →
      (∀ s ∈ ss, symLen t s ≤ 24 ∧ symBits t s < 2 ^ symLen t s) →
      (st.out.length + (st.nob + (ss.flatMap (codeBits t)).length) / 8 ≤ cap →
        ∃ st' P', streamGo t cap st ss = .ok st' ∧ st'.Pending P'
          ∧ st'.nob = (st.nob + (ss.flatMap (codeBits t)).length) % 8
          ∧ st'.out.length = st.out.length + (st.nob + (ss.flatMap (codeBits t)).length) / 8
          ∧ st'.out.reverse ++ packBits P' = st.out.reverse ++ packBits (P ++ ss.flatMap (codeBits t)))
      ∧ (st.out.length + (st.nob + (ss.flatMap (codeBits t)).length) / 8 > cap →
          streamGo t cap st ss = .capacity) := by
  induction ss with
  | nil =>
    intro st P hP hout _
    have hn := hP.2.1
    have e1 : st.nob = (st.nob + 0) % 8 := by omega
    have e2 : st.out.length = st.out.length + (st.nob + 0) / 8 := by omega
    have e3 : ¬ st.out.length + (st.nob + 0) / 8 > cap := by omega
    simp only [streamGo, List.flatMap_nil, List.length_nil, List.append_nil]
    exact ⟨fun _ => ⟨st, P, rfl, hP, e1, e2, rfl⟩, fun h => absurd h e3⟩
  | cons s ss ih =>
    intro st P hP hout hs
    obtain ⟨hl, hb⟩ := hs s (by simp)
    have hlen : ((s :: ss).flatMap (codeBits t)).length
        = symLen t s + (ss.flatMap (codeBits t)).length := by
      simp [codeBits_length]
    rw [hlen]
    generalize (ss.flatMap (codeBits t)).length = R at *
    have hnob := hP.2.1
    -- arithmetic, before the specifications enter the context
    have a1 : ∀ n1 o1 : Nat, n1 = (st.nob + symLen t s) % 8 →
        o1 = st.out.length + (st.nob + symLen t s) / 8 →
        (o1 + (n1 + R) / 8 = st.out.length + (st.nob + (symLen t s + R)) / 8)
          ∧ ((n1 + R) % 8 = (st.nob + (symLen t s + R)) % 8) := by
      intro n1 o1 h1 h2; omega
    have a2 : st.out.length + (st.nob + (symLen t s + R)) / 8 ≤ cap →
        st.out.length + (st.nob + symLen t s) / 8 ≤ cap := by intro h; omega
    have a3 : st.out.length + (st.nob + symLen t s) / 8 > cap →
        st.out.length + (st.nob + (symLen t s + R)) / 8 > cap := by intro h; omega
    obtain ⟨y1, y2⟩ := streamSym_spec t cap st P s hP hl hb hout
    by_cases hc1 : st.out.length + (st.nob + symLen t s) / 8 ≤ cap
    · obtain ⟨st1, P1, e1, hP1, n1, o1, b1⟩ := y1 hc1
      obtain ⟨q1, q2⟩ := a1 _ _ n1 o1
      have hout1 : st1.out.length ≤ cap := by rw [o1]; exact hc1
      obtain ⟨i1, i2⟩ := ih st1 P1 hP1 hout1 (fun s' hs' => hs s' (by simp [hs']))
      simp only [streamGo, e1]
      rw [q1, q2] at i1
      rw [q1] at i2
      constructor
      · intro hc
        obtain ⟨st', P', e2, hP', n2, o2, b2⟩ := i1 hc
        refine ⟨st', P', e2, hP', n2, o2, ?_⟩
        rw [b2, b1]
        simp
      · intro hc
        exact i2 hc
    · have hc1' : st.out.length + (st.nob + symLen t s) / 8 > cap := Nat.lt_of_not_le hc1
      simp only [streamGo, y2 hc1']
      exact ⟨fun h => absurd (a2 h) hc1, fun _ => trivial⟩

theorem compressStreamInto_eq (t : Table) (h : WellFormed t) (bug : Bool) (xs : List UInt8)
    (cap : Nat) :
    compressStreamInto t bug xs cap =
      if (compress t bug xs).length ≤ cap then .ok (compress t bug xs) else .capacity := by
  have hs : ∀ s ∈ xs.map (·.toNat) ++ [EOF], symLen t s ≤ 24 ∧ symBits t s < 2 ^ symLen t s := by
    intro s hs
    have hlt : s < NUM_SYMBOLS := by
      simp only [List.mem_append, List.mem_map, List.mem_singleton] at hs
      rcases hs with ⟨x, _, rfl⟩ | rfl
      · have := x.toNat_lt; simp [NUM_SYMBOLS]; omega
      · decide
    exact ⟨(h.leaf hlt).2.1, (h.leaf hlt).2.2.1⟩
  have hP0 : SState.Pending { out := [], byte := 0, nob := 0 } [] := ⟨rfl, by decide, rfl⟩
  obtain ⟨g1, g2⟩ := streamGo_spec t cap _ _ [] hP0 (Nat.zero_le _) hs
  simp only [List.length_nil, Nat.zero_add, List.reverse_nil, List.nil_append] at g1 g2
  have hlenF : (compress t false xs).length = ((streamBits t xs).length + 7) / 8 := by
    simp [compress, packBits_length]
  have hlenT : (compress t true xs).length = (streamBits t xs).length / 8 + 1 := by
    rw [compress_length_true, compressedLenBug, streamBits_length]
  have hS : streamBits t xs = (xs.map (·.toNat) ++ [EOF]).flatMap (codeBits t) := rfl
  rw [← hS] at g1 g2
  simp only [compressStreamInto]
  by_cases hc : (streamBits t xs).length / 8 ≤ cap
  · obtain ⟨st', P', e, hP', n, o, b⟩ := g1 hc
    rw [e]
    simp only
    obtain ⟨p1, p2, p3⟩ := hP'
    by_cases hn : st'.nob > 0
    · -- a partial last byte
      have hcmp : compress t bug xs = packBits (streamBits t xs) := by
        simp only [compress]
        rw [if_neg (by omega)]
        simp
      have hlen : (compress t bug xs).length = (streamBits t xs).length / 8 + 1 := by
        rw [hcmp, packBits_length]; omega
      simp only [hn, true_or, if_true, hlen]
      by_cases hcap : st'.out.length ≥ cap
      · rw [if_pos hcap, if_neg (by omega)]
      · rw [if_neg hcap, if_pos (by omega), hcmp, ← b, packBits_small P' (by omega) (by omega), p3]
        simp
    · have hn0 : st'.nob = 0 := by omega
      have hP'nil : P' = [] := List.length_eq_zero_iff.mp (by omega)
      subst hP'nil
      replace b : st'.out.reverse = packBits (streamBits t xs) := by
        simpa [packBits, packGo] using b
      have hbyte : st'.byte = 0 := by rw [p3]; rfl
      cases bug with
      | true =>
        simp only [hn, false_or, if_true, hlenT]
        have hcmp : compress t true xs = packBits (streamBits t xs) ++ [0] := by
          simp only [compress, true_and]
          rw [if_pos (by omega)]
        by_cases hcap : st'.out.length ≥ cap
        · rw [if_pos hcap, if_neg (by omega)]
        · rw [if_neg hcap, if_pos (by omega), hcmp, ← b, hbyte]
          simp
      | false =>
        have hcmp : compress t false xs = packBits (streamBits t xs) := by simp [compress]
        simp only [hn, Bool.false_eq_true, or_self, if_false, hlenF]
        rw [if_pos (by omega), hcmp, ← b]
  · rw [g2 (by omega)]
    simp only
    have : ¬ (compress t bug xs).length ≤ cap := by
      cases bug with
      | true => rw [hlenT]; omega
      | false => rw [hlenF]; omega
    rw [if_neg this]

end Tw.Huffman
