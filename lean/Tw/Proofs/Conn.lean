import Tw.Model.Conn

/-!
# Lemmas about the shared online core (`Tw/Model/Conn.lean`)

The packet invariant behind C04 (`Online.Inv`), its preservation by `queue`/`send`/`flush`/`resend`/
`receive`, and the facts about what those operations emit.
-/
namespace Tw.Conn
open Tw.Time

/-! ## Constants (these are also the ties to the regenerated `Tw.Gen.Conn`) -/

theorem seqMod_eq : seqMod = 1024 := rfl
theorem maxPayload_eq : maxPayload = 1390 := rfl
theorem maxPacketSize_eq : maxPacketSize = 1400 := rfl
theorem arrayCap_eq : arrayCap = 2048 := rfl
theorem maxNumChunks_eq : maxNumChunks = 255 := rfl

theorem chunkHeaderSize_le (v : Bool) : chunkHeaderSize v ≤ 3 := by
  cases v <;> decide

theorem chunkHeaderSize_true : chunkHeaderSize true = 3 := rfl
theorem chunkHeaderSize_false : chunkHeaderSize false = 2 := rfl

/-! ## chunk lists -/

theorem chunksSize_append (a b : List Chunk) : chunksSize (a ++ b) = chunksSize a + chunksSize b := by
  induction a with
  | nil => simp [chunksSize]
  | cons c cs ih => simp [chunksSize, ih]; omega

theorem chunksSize_filter_le (f : Chunk → Bool) (l : List Chunk) : chunksSize (l.filter f) ≤ chunksSize l := by
  induction l with
  | nil => simp [chunksSize]
  | cons c cs ih =>
    by_cases h : f c <;> simp [List.filter, h, chunksSize] <;> omega

theorem chunksSize_singleton (c : Chunk) : chunksSize [c] = c.size := by simp [chunksSize]

/-! ## configuration -/

/-- what `send` accepts, `write_chunk` can pack -/
def Cfg.Ok (cfg : Cfg) : Prop := ∀ n, cfg.accepts n = true → n < cfg.chunkLim

theorem Cfg.accepts_le (cfg : Cfg) {n : Nat} (h : cfg.accepts n = true) : n ≤ maxPayload := by
  simp [Cfg.accepts] at h; omega

/-! ## the packet invariant -/

def nonvital (c : Chunk) : Bool := c.vital.isNone

structure Online.Inv (cfg : Cfg) (o : Online) : Prop where
  pn : o.packet.numChunks = o.packet.chunks.length
  pnv : o.packetNonvital.numChunks = o.packetNonvital.chunks.length
  nv : o.packetNonvital.chunks = o.packet.chunks.filter nonvital
  cnt : o.packet.chunks.length ≤ maxNumChunks
  size : o.packet.size ≤ maxPayload + 3
  data : ∀ c ∈ o.packet.chunks, cfg.accepts c.data.length = true
  rq : ∀ c ∈ o.resendQueue, cfg.accepts c.data.length = true

theorem Online.new_inv (cfg : Cfg) : Online.new.Inv cfg := by
  constructor <;> simp [Online.new, PacketContents.empty, PacketContents.size, chunksSize]

/-- a flushed packet as C04 wants it -/
structure Flushed.Valid (cfg : Cfg) (f : Flushed) : Prop where
  num : f.numChunks = f.chunks.length
  cnt : f.chunks.length ≤ maxNumChunks
  size : chunksSize f.chunks ≤ maxPayload + 3
  data : ∀ c ∈ f.chunks, cfg.accepts c.data.length = true
  nonempty : f.numChunks ≠ 0 ∨ f.requestResend = true

/-! ### flush -/

theorem Online.flush_inv {cfg : Cfg} {o : Online} (h : o.Inv cfg) : o.flush.1.Inv cfg := by
  unfold Online.flush
  split
  · exact h
  · constructor <;> simp [PacketContents.empty, PacketContents.size, chunksSize]
    exact h.rq

theorem Online.flush_valid {cfg : Cfg} {o : Online} (h : o.Inv cfg) : ∀ f ∈ o.flush.2, f.Valid cfg := by
  unfold Online.flush
  split
  · simp
  · rename_i hcs
    intro f hf
    simp at hf
    subst hf
    refine ⟨h.pn, h.cnt, h.size, h.data, ?_⟩
    simp [Online.canSend] at hcs
    by_cases h0 : o.packet.numChunks = 0
    · exact Or.inr (hcs h0)
    · exact Or.inl h0

/-- after a flush the packet is empty (a flush that "has nothing to send" had an empty packet) -/
theorem Online.flush_packet_nil {cfg : Cfg} {o : Online} (h : o.Inv cfg) : o.flush.1.packet.chunks = [] := by
  unfold Online.flush
  split
  · rename_i hc
    simp [Online.canSend] at hc
    have := h.pn
    rw [hc.1] at this
    exact List.length_eq_zero_iff.mp this.symm
  · simp [PacketContents.empty]

theorem Online.flush_packetNonvital_nil {cfg : Cfg} {o : Online} (h : o.Inv cfg) :
    o.flush.1.packetNonvital.chunks = [] := by
  have h1 := (Online.flush_inv h).nv
  rw [Online.flush_packet_nil h] at h1
  simpa using h1

theorem Online.flush_resendQueue (o : Online) : o.flush.1.resendQueue = o.resendQueue := by
  unfold Online.flush; split <;> rfl

theorem Online.flush_ack (o : Online) : o.flush.1.ack = o.ack := by
  unfold Online.flush; split <;> rfl

theorem Online.flush_sequence (o : Online) : o.flush.1.sequence = o.sequence := by
  unfold Online.flush; split <;> rfl

/-! ### write_chunk -/

/-- `write_chunk` succeeds when the chunk is acceptable and either fits or goes into an empty packet -/
theorem PacketContents.writeChunk_ok {cfg : Cfg} (hc : cfg.Ok) (p : PacketContents) (data : Bytes)
    (vital : Option (Nat × Bool)) (hacc : cfg.accepts data.length = true)
    (hn : p.numChunks = p.chunks.length)
    (hfit : p.canFit data.length vital.isSome = true ∨ p.chunks = []) :
    p.writeChunk cfg data vital = .ok ⟨p.numChunks + 1, p.chunks ++ [⟨vital, data⟩]⟩ := by
  have h1 := hc _ hacc
  have h2 := cfg.accepts_le hacc
  have h3 := chunkHeaderSize_le vital.isSome
  unfold PacketContents.writeChunk
  rw [if_neg (by omega)]
  rcases hfit with hfit | hfit
  · simp [PacketContents.canFit] at hfit
    rw [if_neg (by rw [arrayCap_eq]; rw [maxPayload_eq] at hfit; omega)]
    rw [if_neg (by omega)]
  · have : p.size = 0 := by simp [PacketContents.size, hfit, chunksSize]
    rw [if_neg (by rw [arrayCap_eq, this]; rw [maxPayload_eq] at h2; omega)]
    rw [if_neg (by rw [hn, hfit, maxNumChunks_eq]; simp)]

/-! ### queue / send -/

theorem canFit_iff (p : PacketContents) (len : Nat) (v : Bool) :
    p.canFit len v = true ↔ p.numChunks < maxNumChunks ∧ p.size + chunkHeaderSize v + len ≤ maxPayload := by
  unfold PacketContents.canFit
  rw [Bool.and_eq_true, decide_eq_true_eq, decide_eq_true_eq]

theorem canFit_mono {p q : PacketContents} {len : Nat} {v : Bool} (hn : q.numChunks ≤ p.numChunks)
    (hs : q.size ≤ p.size) (h : p.canFit len v = true) : q.canFit len v = true := by
  rw [canFit_iff] at h ⊢
  omega

/-- the state `queue` produces -/
def Online.queued (now : Nat) (o : Online) (data : Bytes) (vital : Bool) : Online :=
  if vital then
    { o with
      sequence := seqNext o.sequence
      resendQueue := ⟨Timeout.after now resendUs, seqNext o.sequence, data⟩ :: o.resendQueue
      packet := ⟨o.packet.numChunks + 1, o.packet.chunks ++ [⟨some (seqNext o.sequence, false), data⟩]⟩ }
  else
    { o with
      packet := ⟨o.packet.numChunks + 1, o.packet.chunks ++ [⟨none, data⟩]⟩
      packetNonvital := ⟨o.packetNonvital.numChunks + 1, o.packetNonvital.chunks ++ [⟨none, data⟩]⟩ }

theorem Online.queue_ok {cfg : Cfg} (hc : cfg.Ok) {o : Online} (h : o.Inv cfg) (now : Nat) (data : Bytes)
    (vital : Bool) (hacc : cfg.accepts data.length = true)
    (hfit : o.packet.canFit data.length vital = true ∨ o.packet.chunks = []) :
    o.queue cfg now data vital = .ok (o.queued now data vital) := by
  have h2 := cfg.accepts_le hacc
  unfold Online.queue Online.queued
  cases vital with
  | true =>
    simp only [if_true]
    rw [if_neg (by rw [arrayCap_eq]; rw [maxPayload_eq] at h2; omega)]
    rw [PacketContents.writeChunk_ok hc _ _ _ hacc h.pn (by simpa using hfit)]
  | false =>
    simp only [Bool.false_eq_true, if_false]
    have hfit' : o.packetNonvital.canFit data.length false = true ∨ o.packetNonvital.chunks = [] := by
      rcases hfit with hfit | hfit
      · left
        refine canFit_mono ?_ ?_ hfit
        · rw [h.pn, h.pnv, h.nv]; exact List.length_filter_le _ _
        · simp only [PacketContents.size]; rw [h.nv]; exact chunksSize_filter_le _ _
      · right; rw [h.nv, hfit]; rfl
    rw [PacketContents.writeChunk_ok hc _ _ _ hacc h.pnv (by simpa using hfit')]
    simp only
    rw [PacketContents.writeChunk_ok hc _ _ _ hacc h.pn (by simpa using hfit)]

theorem append_size_ok {p : PacketContents} {len : Nat} {v : Bool} {c : Chunk}
    (hfit : p.canFit len v = true ∨ p.chunks = []) (hn : p.numChunks = p.chunks.length)
    (hl : len ≤ maxPayload) (hc : c.size = chunkHeaderSize v + len) :
    chunksSize (p.chunks ++ [c]) ≤ maxPayload + 3 ∧ p.chunks.length + 1 ≤ maxNumChunks := by
  have h3 := chunkHeaderSize_le v
  rw [chunksSize_append, chunksSize_singleton, hc]
  rcases hfit with hfit | hfit
  · unfold PacketContents.canFit PacketContents.size at hfit
    rw [Bool.and_eq_true, decide_eq_true_eq, decide_eq_true_eq] at hfit
    omega
  · simp [hfit, chunksSize, maxNumChunks_eq]; omega

theorem Online.queued_inv {cfg : Cfg} {o : Online} (h : o.Inv cfg) (now : Nat) (data : Bytes)
    (vital : Bool) (hacc : cfg.accepts data.length = true)
    (hfit : o.packet.canFit data.length vital = true ∨ o.packet.chunks = []) :
    (o.queued now data vital).Inv cfg := by
  have h2 := cfg.accepts_le hacc
  cases vital with
  | true =>
    have hsz := append_size_ok (c := ⟨some (seqNext o.sequence, false), data⟩) hfit h.pn h2 (by simp [Chunk.size])
    unfold Online.queued
    simp only [if_true]
    refine ⟨by simp [h.pn], h.pnv, ?_, by simpa using hsz.2, hsz.1, ?_, ?_⟩
    · simp [List.filter_append, List.filter, nonvital, h.nv]
    · intro c hcm
      simp at hcm
      rcases hcm with hcm | hcm
      · exact h.data c hcm
      · subst hcm; exact hacc
    · intro c hcm
      simp at hcm
      rcases hcm with hcm | hcm
      · subst hcm; exact hacc
      · exact h.rq c hcm
  | false =>
    have hsz := append_size_ok (c := ⟨none, data⟩) hfit h.pn h2 (by simp [Chunk.size])
    unfold Online.queued
    simp only [Bool.false_eq_true, if_false]
    refine ⟨by simp [h.pn], by simp [h.pnv], ?_, by simpa using hsz.2, hsz.1, ?_, h.rq⟩
    · simp [List.filter_append, List.filter, nonvital, h.nv]
    · intro c hcm
      simp at hcm
      rcases hcm with hcm | hcm
      · exact h.data c hcm
      · subst hcm; exact hacc

/-- `send` never fails on a state satisfying the invariant; a refused payload leaves the state
untouched and sends nothing; an accepted one is queued verbatim (after a flush if it did not fit) -/
theorem Online.send_spec {cfg : Cfg} (hc : cfg.Ok) {o : Online} (h : o.Inv cfg) (now : Nat) (data : Bytes)
    (vital : Bool) :
    (cfg.accepts data.length = false ∧ o.send cfg now data vital = .ok (o, .tooLongData, [])) ∨
    (cfg.accepts data.length = true ∧
      o.send cfg now data vital =
        .ok ((if o.packet.canFit data.length vital then o else o.flush.1).queued now data vital, .ok,
             if o.packet.canFit data.length vital then [] else o.flush.2)) := by
  unfold Online.send
  cases hacc : cfg.accepts data.length with
  | false => left; simp
  | true =>
    right
    refine ⟨rfl, ?_⟩
    simp only [Bool.not_true, Bool.false_eq_true, if_false]
    cases hf : o.packet.canFit data.length vital with
    | true =>
      simp only [Bool.not_true, Bool.false_eq_true, if_false, if_true]
      rw [Online.queue_ok hc h now data vital hacc (Or.inl hf)]
    | false =>
      simp only [Bool.not_false, if_true, Bool.false_eq_true, if_false]
      rw [Online.queue_ok hc (Online.flush_inv h) now data vital hacc (Or.inr (Online.flush_packet_nil h))]

theorem Online.send_inv {cfg : Cfg} (hc : cfg.Ok) {o : Online} (h : o.Inv cfg) (now : Nat) (data : Bytes)
    (vital : Bool) {o' : Online} {r : SendRes} {fl : List Flushed}
    (hs : o.send cfg now data vital = .ok (o', r, fl)) : o'.Inv cfg ∧ ∀ f ∈ fl, f.Valid cfg := by
  rcases Online.send_spec hc h now data vital with ⟨_, he⟩ | ⟨hacc, he⟩
  · rw [he] at hs
    injection hs with hs
    injection hs with h1 h2
    injection h2 with h2 h3
    subst h1 h3
    exact ⟨h, by simp⟩
  · rw [he] at hs
    injection hs with hs
    injection hs with h1 h2
    injection h2 with h2 h3
    subst h1 h3
    cases hf : o.packet.canFit data.length vital with
    | true =>
      simp only [if_true]
      exact ⟨Online.queued_inv h now data vital hacc (Or.inl hf), by simp⟩
    | false =>
      simp only [Bool.false_eq_true, if_false]
      exact ⟨Online.queued_inv (Online.flush_inv h) now data vital hacc (Or.inr (Online.flush_packet_nil h)),
        Online.flush_valid h⟩

theorem Online.send_ne_error {cfg : Cfg} (hc : cfg.Ok) {o : Online} (h : o.Inv cfg) (now : Nat) (data : Bytes)
    (vital : Bool) (e : Fail) : o.send cfg now data vital ≠ .error e := by
  rcases Online.send_spec hc h now data vital with ⟨_, he⟩ | ⟨_, he⟩ <;> rw [he] <;> simp

/-! ### resend -/

theorem Online.Inv.appendVital {cfg : Cfg} {o : Online} (h : o.Inv cfg) (v : Nat × Bool) (data : Bytes)
    (hacc : cfg.accepts data.length = true)
    (hfit : o.packet.canFit data.length true = true ∨ o.packet.chunks = []) :
    Online.Inv cfg { o with packet := ⟨o.packet.numChunks + 1, o.packet.chunks ++ [⟨some v, data⟩]⟩ } := by
  have h2 := cfg.accepts_le hacc
  have hsz := append_size_ok (c := ⟨some v, data⟩) hfit h.pn h2 (by simp [Chunk.size])
  refine ⟨by simp [h.pn], h.pnv, ?_, by simpa using hsz.2, hsz.1, ?_, h.rq⟩
  · simp [List.filter_append, List.filter, nonvital, h.nv]
  · intro c hcm
    simp at hcm
    rcases hcm with hcm | hcm
    · exact h.data c hcm
    · subst hcm; exact hacc

/-- the (repaired) resend loop never fails, keeps the invariant and emits only valid packets -/
theorem resendLoop_spec {cfg : Cfg} (hc : cfg.Ok) (now : Nat) :
    ∀ (todo : List ResendChunk) (o : Online) (send : Timeout) (acc : List Flushed),
      o.Inv cfg → (∀ c ∈ todo, cfg.accepts c.data.length = true) → (∀ f ∈ acc, f.Valid cfg) →
      ∃ o' send' fl, resendLoop cfg now todo o send acc = .ok (o', send', fl) ∧ o'.Inv cfg ∧
        (∀ f ∈ fl, f.Valid cfg) ∧ o'.resendQueue = o.resendQueue ∧ o'.ack = o.ack ∧
        o'.sequence = o.sequence ∧ (send.isActive = true → send'.isActive = true) := by
  intro todo
  induction todo with
  | nil =>
    intro o send acc h _ hacc
    exact ⟨o, send, acc, rfl, h, hacc, rfl, rfl, rfl, id⟩
  | cons c rest ih =>
    intro o send acc h htodo hacc
    have hcacc := htodo c (by simp)
    unfold resendLoop
    simp only
    -- the state the chunk is written into
    have key : ∃ o1 : Online, o1 = (if o.packet.canFit c.data.length true = true then o else o.flush.1) ∧
        o1.Inv cfg ∧ (o1.packet.canFit c.data.length true = true ∨ o1.packet.chunks = []) ∧
        o1.resendQueue = o.resendQueue ∧ o1.ack = o.ack ∧ o1.sequence = o.sequence := by
      by_cases hf : o.packet.canFit c.data.length true = true
      · exact ⟨o, by simp [hf], h, Or.inl hf, rfl, rfl, rfl⟩
      · exact ⟨o.flush.1, by simp [hf], Online.flush_inv h, Or.inr (Online.flush_packet_nil h),
          Online.flush_resendQueue o, Online.flush_ack o, Online.flush_sequence o⟩
    obtain ⟨o1, ho1, hinv1, hfit1, hrq1, hack1, hseq1⟩ := key
    rw [← ho1]
    rw [PacketContents.writeChunk_ok hc _ _ _ hcacc hinv1.pn (by simpa using hfit1)]
    simp only
    have hacc' : ∀ f ∈ (if o.packet.canFit c.data.length true = true then acc else acc ++ o.flush.2), f.Valid cfg := by
      split
      · exact hacc
      · intro f hf
        rcases List.mem_append.mp hf with hf | hf
        · exact hacc f hf
        · exact Online.flush_valid h f hf
    obtain ⟨o', send', fl, he, hinv', hfl, hrq', hack', hseq', hsend'⟩ :=
      ih _ (if o.packet.canFit c.data.length true = true then send else Timeout.after now sendUs) _
        (hinv1.appendVital (c.seq, true) c.data hcacc hfit1)
        (fun c' hc' => htodo c' (by simp [hc'])) hacc'
    refine ⟨o', send', fl, he, hinv', hfl, by rw [hrq']; exact hrq1, by rw [hack']; exact hack1,
      by rw [hseq']; exact hseq1, ?_⟩
    intro hs
    apply hsend'
    split
    · exact hs
    · rfl

theorem Online.resend_spec {cfg : Cfg} (hc : cfg.Ok) {o : Online} (h : o.Inv cfg) (now : Nat) (send : Timeout) :
    ∃ o' send' fl, o.resend cfg now send = .ok (o', send', fl) ∧ o'.Inv cfg ∧ (∀ f ∈ fl, f.Valid cfg) ∧
      o'.ack = o.ack ∧ o'.sequence = o.sequence ∧ o'.resendQueue.length = o.resendQueue.length ∧
      (send.isActive = true → send'.isActive = true) := by
  unfold Online.resend
  split
  · exact ⟨o, send, [], rfl, h, by simp, rfl, rfl, rfl, id⟩
  · have hinv1 : (o.resendStart now).Inv cfg := by
      unfold Online.resendStart
      have hall : ∀ c ∈ o.packetNonvital.chunks, nonvital c = true := by
        intro c hcm; rw [h.nv] at hcm; exact (List.mem_filter.mp hcm).2
      refine ⟨h.pnv, h.pnv, ?_, ?_, ?_, ?_, ?_⟩
      · exact (List.filter_eq_self.mpr hall).symm
      · have := h.cnt
        have h1 : o.packetNonvital.chunks.length ≤ o.packet.chunks.length := by
          rw [h.nv]; exact List.length_filter_le _ _
        simp only; omega
      · have := h.size
        have h1 : o.packetNonvital.size ≤ o.packet.size := by
          simp only [PacketContents.size]; rw [h.nv]; exact chunksSize_filter_le _ _
        simp only; omega
      · intro c hcm
        simp only at hcm
        rw [h.nv] at hcm
        exact h.data c (List.mem_filter.mp hcm).1
      · intro c hcm
        simp only [List.mem_map] at hcm
        obtain ⟨c0, hc0, rfl⟩ := hcm
        exact h.rq c0 hc0
    obtain ⟨o', send', fl, he, hinv', hfl, hrq', hack', hseq', hsend'⟩ :=
      resendLoop_spec hc now _ _ send [] hinv1
        (by
          intro c hcm
          exact hinv1.rq c (List.mem_reverse.mp hcm))
        (by simp)
    exact ⟨o', send', fl, he, hinv', hfl, hack', hseq', by rw [hrq']; simp [Online.resendStart], hsend'⟩

/-! ### ack_chunks / receive -/

theorem Online.ackChunks_inv {cfg : Cfg} {o : Online} (h : o.Inv cfg) (ack : Nat) : (o.ackChunks ack).Inv cfg := by
  unfold Online.ackChunks
  split
  · exact ⟨h.pn, h.pnv, h.nv, h.cnt, h.size, h.data, fun c hc => h.rq c (List.mem_of_mem_take hc)⟩
  · exact h

theorem Online.feedAck_spec {cfg : Cfg} {o : Online} (h : o.Inv cfg) {ack : Nat} (ha : ack < seqMod) :
    o.feedAck ack = .ok (o.ackChunks ack) ∧ (o.ackChunks ack).Inv cfg := by
  unfold Online.feedAck
  rw [if_neg (by omega)]
  exact ⟨rfl, Online.ackChunks_inv h ack⟩

/-- `receive` never fails on a packet whose sequence numbers are in range (which the reader
guarantees), keeps the invariant, emits only valid packets -/
theorem Online.receive_spec {cfg : Cfg} (hc : cfg.Ok) {o : Online} (h : o.Inv cfg) (now : Nat) (send : Timeout)
    (rr : Bool) (chunks : List Chunk) (hseq : chunksSeqOk chunks = true) :
    ∃ o' send' fl evs, o.receive cfg now send rr chunks = .ok (o', send', fl, evs) ∧ o'.Inv cfg ∧
      (∀ f ∈ fl, f.Valid cfg) ∧ (send.isActive = true → send'.isActive = true) := by
  unfold Online.receive
  cases rr with
  | false =>
    simp only [Bool.false_eq_true, if_false, hseq, Bool.not_true]
    exact ⟨_, _, _, _, rfl, ⟨h.pn, h.pnv, h.nv, h.cnt, h.size, h.data, h.rq⟩, by simp, id⟩
  | true =>
    obtain ⟨o2, send2, fl, he, hinv, hfl, _, _, _, hs⟩ := Online.resend_spec hc h now send
    simp only [if_true, he, hseq, Bool.not_true, Bool.false_eq_true, if_false]
    exact ⟨_, _, _, _, rfl, ⟨hinv.pn, hinv.pnv, hinv.nv, hinv.cnt, hinv.size, hinv.data, hinv.rq⟩, hfl, hs⟩

end Tw.Conn

/-! ## C02: no call hangs; the send timer stays armed -/
namespace Tw.Conn
open Tw.Time

/-- the result is a value or a panic — never `Fail.hang` -/
def NoHang {α : Type} (r : Except Fail α) : Prop := r ≠ .error .hang

theorem writeChunk_nohang (cfg : Cfg) (p : PacketContents) (d : Bytes) (v : Option (Nat × Bool)) :
    NoHang (p.writeChunk cfg d v) := by
  unfold NoHang PacketContents.writeChunk
  repeat' split
  all_goals simp

theorem queue_nohang (cfg : Cfg) (now : Nat) (o : Online) (d : Bytes) (v : Bool) : NoHang (o.queue cfg now d v) := by
  have h1 := writeChunk_nohang cfg o.packet d
  have h2 := writeChunk_nohang cfg o.packetNonvital d
  unfold NoHang at *
  unfold Online.queue
  cases v with
  | true =>
    simp only [if_true]
    split
    · simp
    · cases h : o.packet.writeChunk cfg d (some (seqNext o.sequence, false)) with
      | error e => simp only; intro he; injection he with he; subst he; exact h1 _ h
      | ok p => simp
  | false =>
    simp only [Bool.false_eq_true, if_false]
    cases h : o.packetNonvital.writeChunk cfg d none with
    | error e => simp only; intro he; injection he with he; subst he; exact h2 _ h
    | ok pn =>
      simp only
      cases h' : o.packet.writeChunk cfg d none with
      | error e => simp only; intro he; injection he with he; subst he; exact h1 _ h'
      | ok p => simp

theorem send_nohang (cfg : Cfg) (now : Nat) (o : Online) (d : Bytes) (v : Bool) : NoHang (o.send cfg now d v) := by
  unfold NoHang Online.send
  split
  · simp
  · simp only
    cases h : (if (!o.packet.canFit d.length v) = true then o.flush else (o, [])).1.queue cfg now d v with
    | error e =>
      simp only
      have := queue_nohang cfg now (if (!o.packet.canFit d.length v) = true then o.flush else (o, [])).1 d v
      unfold NoHang at this
      intro he; injection he with he; subst he; exact this h
    | ok o2 => simp

/-- the repaired resend loop cannot hang, and keeps an armed send timer armed -/
theorem resendLoop_nohang (cfg : Cfg) (now : Nat) :
    ∀ (todo : List ResendChunk) (o : Online) (send : Timeout) (acc : List Flushed),
      NoHang (resendLoop cfg now todo o send acc) ∧
      ∀ o' send' fl, resendLoop cfg now todo o send acc = .ok (o', send', fl) →
        send.isActive = true → send'.isActive = true := by
  intro todo
  induction todo with
  | nil =>
    intro o send acc
    refine ⟨by simp [NoHang, resendLoop], ?_⟩
    intro o' send' fl h hs
    simp only [resendLoop] at h
    injection h with h; injection h with h1 h2; injection h2 with h2 h3
    rw [← h2]; exact hs
  | cons c rest ih =>
    intro o send acc
    unfold resendLoop
    simp only
    split
    · rename_i e he
      refine ⟨?_, by intro _ _ _ h; cases h⟩
      have := writeChunk_nohang cfg (if o.packet.canFit c.data.length true = true then o else o.flush.1).packet
        c.data (some (c.seq, true))
      unfold NoHang at this ⊢
      intro h; injection h with h; subst h; exact this he
    · rename_i p hp
      obtain ⟨h1, h2⟩ := ih { (if o.packet.canFit c.data.length true = true then o else o.flush.1) with packet := p }
        (if o.packet.canFit c.data.length true = true then send else Timeout.after now sendUs)
        (if o.packet.canFit c.data.length true = true then acc else acc ++ o.flush.2)
      refine ⟨h1, ?_⟩
      intro o' send' fl h hs
      apply h2 o' send' fl h
      split
      · exact hs
      · rfl

theorem resend_nohang (cfg : Cfg) (now : Nat) (o : Online) (send : Timeout) :
    NoHang (o.resend cfg now send) ∧
    ∀ o' send' fl, o.resend cfg now send = .ok (o', send', fl) → send.isActive = true → send'.isActive = true := by
  unfold Online.resend
  split
  · refine ⟨by simp [NoHang], ?_⟩
    intro o' send' fl h hs
    injection h with h; injection h with h1 h2; injection h2 with h2 h3
    rw [← h2]; exact hs
  · exact resendLoop_nohang cfg now _ _ send []

theorem receive_nohang (cfg : Cfg) (now : Nat) (o : Online) (send : Timeout) (rr : Bool) (cs : List Chunk) :
    NoHang (o.receive cfg now send rr cs) ∧
    ∀ o' send' fl evs, o.receive cfg now send rr cs = .ok (o', send', fl, evs) →
      send.isActive = true → send'.isActive = true := by
  obtain ⟨h1, h2⟩ := resend_nohang cfg now o send
  unfold NoHang at h1
  unfold Online.receive NoHang
  cases rr with
  | false =>
    simp only [Bool.false_eq_true, if_false]
    split
    · simp
    · refine ⟨by simp, ?_⟩
      intro o' send' fl evs h hs
      injection h with h; injection h with _ h; injection h with h _
      rw [← h]; exact hs
  | true =>
    simp only [if_true]
    cases hr : o.resend cfg now send with
    | error e =>
      simp only
      refine ⟨?_, by intro _ _ _ _ h; cases h⟩
      intro h; injection h with h; subst h; exact h1 hr
    | ok r =>
      obtain ⟨o2, send2, fl2⟩ := r
      simp only
      split
      · simp
      · refine ⟨by simp, ?_⟩
        intro o' send' fl evs h hs
        injection h with h; injection h with _ h; injection h with h _
        rw [← h]; exact h2 o2 send2 fl2 hr hs

theorem feedAck_nohang (o : Online) (ack : Nat) : NoHang (o.feedAck ack) := by
  unfold NoHang Online.feedAck; split <;> simp

end Tw.Conn

/-! ## the acceptance rule -/
namespace Tw.Conn

theorem seqNext_val (a : Nat) : seqNext a = (a + 1) % 1024 := rfl

theorem seqCompare_current_iff (a b : Nat) : seqCompare a b = .current ↔ a = b := by
  unfold seqCompare
  simp only
  constructor
  · intro h
    by_cases h1 : a < b
    · simp [h1] at h; split at h <;> cases h
    · by_cases h2 : b < a
      · simp [h1, h2] at h; split at h <;> cases h
      · omega
  · intro h; subst h; simp

/-- `Sequence::update` accepts exactly the successor -/
theorem seqUpdate_accept_fst (a s : Nat) : (seqUpdate a s).1 = if seqNext a = s then s else a := by
  unfold seqUpdate
  simp only
  by_cases h : seqNext a = s
  · simp [h, (seqCompare_current_iff _ _).mpr]
  · have : seqCompare (seqNext a) s ≠ .current := fun hc => h ((seqCompare_current_iff _ _).mp hc)
    simp [h, this]

theorem seqUpdate_accept_snd (a s : Nat) : (seqUpdate a s).2 = .current ↔ seqNext a = s := by
  unfold seqUpdate
  simp only
  exact seqCompare_current_iff _ _

end Tw.Conn
