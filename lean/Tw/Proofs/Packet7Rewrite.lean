import Tw.Model.Packet7
import Tw.Proofs.Packet7Write

/-! What the 0.7 reader accepts is `Valid`, hence can be written again and is read back unchanged. -/
namespace Tw.Packet7
open Tw.Packet Tw.PacketBits

theorem take_nulPos_nonzero (l : List UInt8) : ∀ b ∈ l.take (nulPos l), b ≠ 0 := by
  induction l with
  | nil => simp [nulPos]
  | cons b bs ih =>
    simp only [nulPos]
    split
    · simp
    · rename_i hb
      intro x hx
      simp only [List.take_succ_cons, List.mem_cons] at hx
      rcases hx with rfl | hx
      · exact hb
      · exact ih x hx

theorem responseToken_ok (pl : List UInt8) (rt : Token) (h : responseToken pl = .ok rt) : rt ≠ tokenNone := by
  unfold responseToken at h
  split at h
  · simp at h
  · split at h
    · simp at h
    · rename_i hne
      simp only [Except.ok.injEq] at h
      subst h
      exact hne

theorem controlValue_valid (h : PacketHeader) (payload : List UInt8) (src : Src) (off total : Nat) (c : Control)
    (loc : Option Loc) (hr : controlValue h payload src off total = .ok (c, loc)) : ValidControl c := by
  unfold controlValue at hr
  split at hr
  · simp at hr
  · rename_i c0 pl
    dsimp only at hr
    split at hr
    · simp only [Except.ok.injEq, Prod.mk.injEq] at hr; obtain ⟨rfl, _⟩ := hr; trivial
    · split at hr
      · split at hr
        · rename_i rt hrt
          simp only [Except.ok.injEq, Prod.mk.injEq] at hr; obtain ⟨rfl, _⟩ := hr
          exact responseToken_ok pl rt hrt
        · simp at hr
      · split at hr
        · simp only [Except.ok.injEq, Prod.mk.injEq] at hr; obtain ⟨rfl, _⟩ := hr; trivial
        · split at hr
          · simp only [Except.ok.injEq, Prod.mk.injEq] at hr
            obtain ⟨rfl, _⟩ := hr
            refine ⟨?_, ?_⟩
            · simp only [List.length_take]; omega
            · intro b hb
              have hsub : List.take (min (nulPos pl) Tw.Gen.Packet7.CTRLMSG_CLOSE_REASON_LENGTH) pl =
                  List.take (min (nulPos pl) Tw.Gen.Packet7.CTRLMSG_CLOSE_REASON_LENGTH) (List.take (nulPos pl) pl) := by
                rw [List.take_take]
                congr 1
                omega
              rw [hsub] at hb
              exact take_nulPos_nonzero pl b (List.mem_of_mem_take hb)
          · split at hr
            · split at hr
              · simp at hr
              · split at hr
                · rename_i rt hrt
                  simp only [Except.ok.injEq, Prod.mk.injEq] at hr; obtain ⟨rfl, _⟩ := hr
                  exact responseToken_ok pl rt hrt
                · simp at hr
            · simp at hr

theorem valid_control (ack : Nat) (tok : Token) (c : Control) (ha : ack < 1024) (hv : ValidControl c) :
    Valid (.connected ack tok (.control c)) := by
  cases c <;> simp only [Valid] <;> first | exact ha | exact ⟨ha, hv⟩

theorem readBody_valid (h : PacketHeader) (ha : h.ack < 1024) (hn : h.numChunks < 256) (wh : List Warning)
    (payload : List UInt8) (src : Src) (scratch : List UInt8) (total : Nat) (r : ReadOk)
    (hr : readBody h wh payload src scratch total = .ok r) : Valid r.pkt := by
  unfold readBody readControl at hr
  split at hr
  · simp at hr
  · rename_i hlen
    split at hr
    · split at hr
      · simp at hr
      · rename_i ws c loc hrc
        simp only [Except.ok.injEq] at hr
        subst hr
        simp only [Prod.mk.injEq] at hrc
        exact valid_control _ _ _ ha (controlValue_valid _ _ _ _ _ _ _ hrc.2)
    · simp only [Except.ok.injEq] at hr
      subst hr
      exact ⟨ha, hn, by omega⟩

theorem readConnless_valid (bytes : List UInt8) (wh : List Warning) (r : ReadOk)
    (hlen : bytes.length ≤ Tw.Gen.Packet7.MAX_PACKETSIZE)
    (hr : readConnless bytes wh = .ok r) : Valid r.pkt := by
  have hM : Tw.Gen.Packet7.MAX_PACKETSIZE = 1400 := by decide
  have hC : Tw.Gen.Packet7.CONNLESS_WRITE_LIMIT = 1391 := by decide
  have hP : Tw.Gen.Packet7.HEADER_SIZE_CONNLESS = 9 := by decide
  unfold readConnless at hr
  split at hr
  · simp at hr
  · dsimp only at hr
    split at hr
    · simp at hr
    · simp only [Except.ok.injEq] at hr
      subst hr
      simp only [Valid, List.length_drop]
      omega

theorem lift_eq_ok {x : Except (ReadError × List Warning) ReadOk} {r : ReadOk} (h : ReadResult.lift x = .ok r) :
    x = .ok r := by
  cases x with
  | ok r' => simpa [ReadResult.lift] using h
  | error e => cases e; simp [ReadResult.lift] at h

/-- the three ways `read` can succeed -/
theorem read_ok_cases (t : Huffman.Table) (bytes : List UInt8) (buffer : Option Nat)
    (r : ReadOk) (hr : read t bytes buffer = .ok r) :
    bytes.length ≤ Tw.Gen.Packet7.MAX_PACKETSIZE ∧ Tw.Gen.Packet7.HEADER_SIZE ≤ bytes.length ∧
      (readConnless bytes (headerOf bytes).2 = .ok r ∨
       readBody (headerOf bytes).1 (headerOf bytes).2 (bytes.drop Tw.Gen.Packet7.HEADER_SIZE) .input []
         bytes.length = .ok r ∨
       ∃ cap s, buffer = some cap ∧ Tw.Gen.Packet7.MAX_PACKETSIZE ≤ cap ∧ decompress t bytes cap = .ok s ∧
         Tw.Gen.Packet7.HEADER_SIZE ≤ s.length ∧
         readBody (headerOf bytes).1 (headerOf bytes).2 (s.drop Tw.Gen.Packet7.HEADER_SIZE) .scratch s
           bytes.length = .ok r) := by
  cases buffer with
  | none =>
    unfold read at hr
    simp only [Bool.false_eq_true, if_false] at hr
    split at hr
    · simp at hr
    · rename_i hlen
      split at hr
      · simp at hr
      · rename_i hshort
        refine ⟨by omega, by omega, ?_⟩
        split at hr
        · exact Or.inl (lift_eq_ok hr)
        · split at hr
          · simp at hr
          · exact Or.inr (Or.inl (lift_eq_ok hr))
  | some cap =>
    by_cases hcap : cap < Tw.Gen.Packet7.MAX_PACKETSIZE
    · unfold read at hr
      simp [hcap] at hr
    · unfold read at hr
      simp only [hcap, decide_false, Bool.false_eq_true, if_false] at hr
      split at hr
      · simp at hr
      · rename_i hlen
        split at hr
        · simp at hr
        · rename_i hshort
          refine ⟨by omega, by omega, ?_⟩
          split at hr
          · exact Or.inl (lift_eq_ok hr)
          · split at hr
            · split at hr
              · rename_i s hd
                split at hr
                · simp at hr
                · rename_i hs3
                  exact Or.inr (Or.inr ⟨cap, s, rfl, by omega, hd, by omega, lift_eq_ok hr⟩)
              · simp at hr
              · simp at hr
              · simp at hr
            · exact Or.inr (Or.inl (lift_eq_ok hr))

/-- everything the 0.7 reader accepts is a `Valid` packet value -/
theorem read_valid (t : Huffman.Table) (bytes : List UInt8) (buffer : Option Nat)
    (r : ReadOk) (hr : read t bytes buffer = .ok r) : Valid r.pkt := by
  obtain ⟨hlen, _, hcase⟩ := read_ok_cases t bytes buffer r hr
  have hbb := unpack_flags_lt (bytes.getD 0 0).toNat (bytes.getD 1 0).toNat (bytes.getD 2 0).toNat
    (tok4 (bytes.drop 3)) (UInt8.toNat_lt _)
  have hnc : (headerOf bytes).1.numChunks < 256 := by
    unfold headerOf
    rw [ph_unpack_eq _ _ _ _ (UInt8.toNat_lt _)]
    exact UInt8.toNat_lt _
  rcases hcase with h | h | ⟨cap, s, _, _, _, _, h⟩
  · exact readConnless_valid _ _ r hlen h
  · exact readBody_valid _ hbb.2 hnc _ _ _ _ _ r h
  · exact readBody_valid _ hbb.2 hnc _ _ _ _ _ r h

/-- **re-writability (0.7)**: whatever `Packet::read` accepts can be written out again, and the
written bytes are read back as the same value. -/
theorem read_rewritable (t : Huffman.Table) (hrt : HuffmanRoundTrip t) (bytes : List UInt8)
    (buffer : Option Nat) (r : ReadOk) (hr : read t bytes buffer = .ok r)
    (cap scap : Nat) (hcap : Tw.Gen.Packet7.MAX_PACKETSIZE ≤ cap) (hs : Tw.Gen.Packet7.MAX_PACKETSIZE ≤ scap) :
    ∃ bs, write t r.pkt cap = .ok bs ∧ bs.length ≤ Tw.Gen.Packet7.MAX_PACKETSIZE ∧
      ∃ r', read t bs (some scap) = .ok r' ∧ r'.pkt = r.pkt ∧ r'.warns = expectedWarnings r.pkt :=
  write_read_roundtrip t hrt r.pkt (read_valid t bytes buffer r hr) cap scap hcap hs

end Tw.Packet7
