import Tw.Model.PacketCommon

/-! The chunk iterator: it stays inside the payload, every call either ends or strictly shortens the
remaining data (so `drain`'s fuel suffices), and the chunks it returns are located where it says. -/
namespace Tw.Packet

/-- what the iterator lemmas need to know about a protocol's `read_chunk_header` -/
structure ChunkCodec.Sane (c : ChunkCodec) : Prop where
  hs : 0 < c.headerSize
  hv : 0 < c.headerSizeVital
  hlen : ∀ data h seq ws, c.readHeader data = some (h, seq, ws) → c.hdrLen seq.isSome ≤ data.length

/-- the iterator state describes a suffix of `payload` -/
structure Iter.Inv (payload : List UInt8) (it : Iter) : Prop where
  hi : it.initialLen = payload.length
  hle : it.data.length ≤ payload.length
  hd : it.data = payload.drop (payload.length - it.data.length)

theorem Iter.inv_new (payload : List UInt8) (nc : Nat) : (Iter.new payload nc).Inv payload :=
  ⟨rfl, Nat.le_refl _, by simp [Iter.new]⟩

/-- a chunk is where it claims to be -/
def Chunk.Located (payload : List UInt8) (ch : Chunk) : Prop :=
  ch.off + ch.data.length ≤ payload.length ∧ (payload.drop ch.off).take ch.data.length = ch.data

theorem hdrLen_pos (c : ChunkCodec) (hc : c.Sane) (v : Bool) : 0 < c.hdrLen v := by
  unfold ChunkCodec.hdrLen
  cases v
  · exact hc.hs
  · exact hc.hv

/-- a call of `next_warn` that returns `None` leaves a state inside the payload -/
theorem Iter.next_none (c : ChunkCodec) (payload : List UInt8) (it : Iter) (hinv : it.Inv payload)
    (ws : List Warning) (it' : Iter) (h : it.next c = (none, ws, it')) :
    it'.Inv payload ∧ it'.data = [] := by
  obtain ⟨hi, hle, hd⟩ := hinv
  unfold Iter.next at h
  split at h
  · rename_i hdat
    split at h
    · simp only [Prod.mk.injEq, true_and] at h
      obtain ⟨_, rfl⟩ := h
      exact ⟨⟨hi, hle, hd⟩, hdat⟩
    · simp only [Prod.mk.injEq, true_and] at h
      obtain ⟨_, rfl⟩ := h
      exact ⟨⟨hi, hle, hd⟩, hdat⟩
  · split at h
    · simp only [Prod.mk.injEq, true_and] at h
      obtain ⟨_, rfl⟩ := h
      exact ⟨⟨hi, by simp, by simp⟩, rfl⟩
    · dsimp only at h
      split at h
      · simp only [Prod.mk.injEq, true_and] at h
        obtain ⟨_, rfl⟩ := h
        exact ⟨⟨hi, by simp, by simp⟩, rfl⟩
      · simp at h

/-- a call of `next_warn` that returns a chunk: the chunk is located inside the payload, the remaining
data is the payload after the chunk and strictly shorter than before -/
theorem Iter.next_some (c : ChunkCodec) (hc : c.Sane) (payload : List UInt8) (it : Iter)
    (hinv : it.Inv payload) (ch : Chunk) (ws : List Warning) (it' : Iter)
    (hn : it.next c = (some ch, ws, it')) :
    it'.Inv payload ∧ it'.data.length < it.data.length ∧ ch.Located payload ∧
      it'.data = payload.drop (ch.off + ch.data.length) ∧ it'.checked = it.checked ∧
      it'.numRemaining = it.numRemaining - 1 := by
  obtain ⟨hi, hle, hd⟩ := hinv
  unfold Iter.next at hn
  split at hn
  · split at hn <;> simp at hn
  · rename_i b bs hdat
    split at hn
    · simp at hn
    · rename_i h seq ws' hrh
      have hl := hc.hlen it.data h seq ws' hrh
      have hpos := hdrLen_pos c hc seq.isSome
      dsimp only at hn
      split at hn
      · simp at hn
      · rename_i hsz
        simp only [Prod.mk.injEq, Option.some.injEq] at hn
        obtain ⟨rfl, _, rfl⟩ := hn
        simp only [List.length_drop] at hsz
        have hdd : List.drop h.size (List.drop (c.hdrLen seq.isSome) it.data) =
            payload.drop (payload.length - it.data.length + c.hdrLen seq.isSome + h.size) := by
          rw [hd, List.drop_drop, List.drop_drop]
          simp only [List.length_drop]
          congr 1
          omega
        have hlen' : (List.drop h.size (List.drop (c.hdrLen seq.isSome) it.data)).length =
            it.data.length - c.hdrLen seq.isSome - h.size := by
          simp only [List.length_drop]
        have htake : (List.take h.size (List.drop (c.hdrLen seq.isSome) it.data)).length = h.size := by
          simp only [List.length_take, List.length_drop]; omega
        refine ⟨⟨hi, ?_, ?_⟩, ?_, ⟨?_, ?_⟩, ?_, rfl, rfl⟩
        · show (List.drop h.size (List.drop (c.hdrLen seq.isSome) it.data)).length ≤ payload.length
          rw [hlen']; omega
        · show List.drop h.size (List.drop (c.hdrLen seq.isSome) it.data) = _
          rw [hdd]
          simp only [List.length_drop]
          congr 1
          omega
        · show (List.drop h.size (List.drop (c.hdrLen seq.isSome) it.data)).length < it.data.length
          rw [hlen']; omega
        · show it.pos + c.hdrLen seq.isSome + (List.take h.size (List.drop (c.hdrLen seq.isSome) it.data)).length ≤ _
          simp only [Iter.pos, hi, htake]; omega
        · show List.take (List.take h.size (List.drop (c.hdrLen seq.isSome) it.data)).length
            (List.drop (it.pos + c.hdrLen seq.isSome) payload) = List.take h.size (List.drop (c.hdrLen seq.isSome) it.data)
          simp only [Iter.pos, hi, htake]
          rw [hd, List.drop_drop]
          simp only [List.length_drop]
          congr 2
          omega
        · show List.drop h.size (List.drop (c.hdrLen seq.isSome) it.data) =
            List.drop (it.pos + c.hdrLen seq.isSome + (List.take h.size (List.drop (c.hdrLen seq.isSome) it.data)).length) payload
          simp only [Iter.pos, hi, htake]
          rw [hdd]

/-- all chunks of a drain are located in the payload; the fuel `data.length + 1` never runs out -/
theorem Iter.drainFuel_spec (c : ChunkCodec) (hc : c.Sane) (payload : List UInt8) :
    ∀ (fuel : Nat) (it : Iter), it.Inv payload → it.data.length < fuel →
      (∀ ch ∈ (Iter.drainFuel c fuel it).1, ch.Located payload) ∧
      (Iter.drainFuel c fuel it).2.2.2 = false ∧
      (Iter.drainFuel c fuel it).2.2.1.data = [] := by
  intro fuel
  induction fuel with
  | zero => intro it _ h; omega
  | succ n ih =>
    intro it hinv hlt
    unfold Iter.drainFuel
    match hnx : it.next c with
    | (none, ws, it') =>
      simp only
      exact ⟨by simp, trivial, (Iter.next_none c payload it hinv ws it' hnx).2⟩
    | (some ch, ws, it') =>
      simp only
      obtain ⟨hinv', hshort, hloc, _⟩ := Iter.next_some c hc payload it hinv ch ws it' hnx
      obtain ⟨h1, h2, h3⟩ := ih it' hinv' (by omega)
      refine ⟨?_, h2, h3⟩
      intro x hx
      simp only [List.mem_cons] at hx
      rcases hx with rfl | hx
      · exact hloc
      · exact h1 x hx

theorem Iter.drain_spec (c : ChunkCodec) (hc : c.Sane) (payload : List UInt8) (nc : Nat) :
    (∀ ch ∈ ((Iter.new payload nc).drain c).1, ch.Located payload) ∧
    ((Iter.new payload nc).drain c).2.2.2 = false :=
  let h := Iter.drainFuel_spec c hc payload _ (Iter.new payload nc) (Iter.inv_new payload nc) (Nat.lt_succ_self _)
  ⟨h.1, h.2.1⟩

end Tw.Packet
