import Tw.Proofs.ConnSafety

/-!
# C01: the safety invariant on the protocol-independent view of two endpoints

An endpoint is seen as `AEnd`: its online core (`some Online.new` while it has not been online yet,
`none` once it is disconnected), the acks and chunks of every datagram it sent (with the stamps) and
its four logs.  `DirInv cfg x y` is the invariant of the direction in which `x` submits vital chunks
and `y` is handed them; `AInv` is both directions.  The theorems `AInv.*` say that every kind of
thing an endpoint can do (emit control datagrams / die, flush / resend / send, process an ack,
process a chunk packet) preserves it; `Tw.Proofs.ConnSafety6/7` show that every call of the 0.6 / 0.7
connection is a composition of these.
-/
namespace Tw.NetSim
open Tw.Conn Tw.Time

/-- a datagram of the history: the ack and the chunks it mentions, stamped -/
structure AEnt where
  ack : Nat
  chunks : List Chunk
  nStamp : Nat
  dStamp : Nat

def AEnt.fl (e : AEnt) : Flushed := ⟨e.ack, false, 0, e.chunks⟩

structure AEnd where
  st : Option Online
  out : List AEnt
  sub : List Bytes
  nv : List Bytes
  del : List Bytes
  nvDel : List Bytes

/-- the entries for chunk packets emitted now -/
def astamp (x : AEnd) (fl : List Flushed) : List AEnt :=
  fl.map fun f => ⟨f.ack, f.chunks, x.sub.length, x.del.length⟩

/-- direction `x → y`: `x` submits, `y` is handed -/
structure DirInv (cfg : Cfg) (x y : AEnd) : Prop where
  pre : y.del = x.sub.take y.del.length
  dle : y.del.length ≤ x.sub.length
  win : x.sub.length ≤ y.del.length + 512
  nvd : ∀ d ∈ y.nvDel, d ∈ x.nv
  snd : ∀ o, x.st = some o → SendOk cfg o x.sub x.nv y.del.length
  rcv : ∀ o, y.st = some o → o.ack = y.del.length % 1024
  net : ∀ e ∈ x.out, e.nStamp ≤ x.sub.length ∧ FlOk x.sub e.nStamp e.fl ∧ NvOk x.nv e.chunks
  acks : ∀ e ∈ y.out, e.ack = e.dStamp % 1024 ∧ e.dStamp ≤ y.del.length

def AInv (cfg : Cfg) (x y : AEnd) : Prop := DirInv cfg x y ∧ DirInv cfg y x

theorem AInv.symm {cfg : Cfg} {x y : AEnd} (h : AInv cfg x y) : AInv cfg y x := ⟨h.2, h.1⟩

def AEnd.init : AEnd := ⟨some .new, [], [], [], [], []⟩

theorem AInv.init (cfg : Cfg) : AInv cfg .init .init := by
  have : DirInv cfg .init .init := by
    refine ⟨rfl, Nat.le_refl _, by simp [AEnd.init], by simp [AEnd.init], ?_, ?_, by simp [AEnd.init], by simp [AEnd.init]⟩
    · intro o ho; simp [AEnd.init] at ho; subst ho; exact SendOk.new cfg
    · intro o ho; simp [AEnd.init] at ho; subst ho; rfl
  exact ⟨this, this⟩

/-! ## frames -/

/-- `x` acts without being handed anything: the direction in which it receives -/
theorem DirInv.frame_recv {cfg : Cfg} {x y x' : AEnd} (h : DirInv cfg y x) (news : List AEnt)
    (hdel : x'.del = x.del) (hnvd : x'.nvDel = x.nvDel)
    (hst : ∀ o', x'.st = some o' → ∃ o, x.st = some o ∧ o'.ack = o.ack)
    (hout : x'.out = x.out ++ news)
    (hnews : ∀ e ∈ news, e.dStamp = x.del.length ∧ ∃ o, x.st = some o ∧ e.ack = o.ack) :
    DirInv cfg y x' := by
  refine ⟨by rw [hdel]; exact h.pre, by rw [hdel]; exact h.dle, by rw [hdel]; exact h.win,
    by rw [hnvd]; exact h.nvd, by rw [hdel]; exact h.snd, ?_, h.net, ?_⟩
  · intro o' ho'
    obtain ⟨o, ho, ha⟩ := hst o' ho'
    rw [ha, hdel]; exact h.rcv o ho
  · rw [hout, hdel]
    intro e he
    rcases List.mem_append.mp he with he | he
    · exact h.acks e he
    · obtain ⟨e1, o, ho, ea⟩ := hnews e he
      rw [ea, e1]
      exact ⟨h.rcv o ho, Nat.le_refl _⟩

/-- `x` acts: the direction in which it sends -/
theorem DirInv.frame_send {cfg : Cfg} {x y x' : AEnd} (h : DirInv cfg x y) (ext extnv : List Bytes)
    (news : List AEnt) (hsub : x'.sub = x.sub ++ ext) (hnv : x'.nv = x.nv ++ extnv)
    (hwin : (x.sub ++ ext).length ≤ y.del.length + 512)
    (hst : ∀ o', x'.st = some o' → SendOk cfg o' (x.sub ++ ext) (x.nv ++ extnv) y.del.length)
    (hout : x'.out = x.out ++ news)
    (hnews : ∀ e ∈ news, e.nStamp = x.sub.length ∧ FlOk x.sub x.sub.length e.fl ∧ NvOk x.nv e.chunks) :
    DirInv cfg x' y := by
  refine ⟨?_, ?_, by rw [hsub]; exact hwin, ?_, by rw [hsub, hnv]; exact hst, h.rcv, ?_, h.acks⟩
  · rw [hsub, List.take_append_of_le_length h.dle]; exact h.pre
  · rw [hsub]; have := h.dle; simp; omega
  · rw [hnv]; intro d hd; exact List.mem_append_left _ (h.nvd d hd)
  · rw [hout, hsub, hnv]
    intro e he
    rcases List.mem_append.mp he with he | he
    · obtain ⟨a, b, c⟩ := h.net e he
      exact ⟨by simp; omega, b.mono _, c.mono _⟩
    · obtain ⟨a, b, c⟩ := hnews e he
      rw [a]
      exact ⟨by simp, b.mono _, c.mono _⟩

/-! ## what an endpoint can do -/

/-- control datagrams (no chunks, the current ack), a handshake step that does not touch the online
core, or the end of the connection -/
theorem AInv.quiet {cfg : Cfg} {x y x' : AEnd} (h : AInv cfg x y) (news : List AEnt)
    (hst : x'.st = x.st ∨ x'.st = none) (hout : x'.out = x.out ++ news)
    (hsub : x'.sub = x.sub) (hnv : x'.nv = x.nv) (hdel : x'.del = x.del) (hnvd : x'.nvDel = x.nvDel)
    (hnews : ∀ e ∈ news, e.chunks = [] ∧ e.nStamp = x.sub.length ∧ e.dStamp = x.del.length ∧
      ∃ o, x.st = some o ∧ e.ack = o.ack) :
    AInv cfg x' y := by
  obtain ⟨hxy, hyx⟩ := h
  constructor
  · refine hxy.frame_send [] [] news (by simpa using hsub) (by simpa using hnv) (by simpa using hxy.win) ?_ hout ?_
    · intro o' ho'
      rcases hst with hst | hst
      · rw [hst] at ho'; simpa using hxy.snd o' ho'
      · rw [hst] at ho'; cases ho'
    · intro e he
      obtain ⟨a, b, _, _⟩ := hnews e he
      refine ⟨b, ?_, ?_⟩
      · intro c hc; simp [AEnt.fl, a] at hc
      · intro c hc; simp [a] at hc
  · refine hyx.frame_recv news hdel hnvd ?_ hout ?_
    · intro o' ho'
      rcases hst with hst | hst
      · rw [hst] at ho'; exact ⟨o', ho', rfl⟩
      · rw [hst] at ho'; cases ho'
    · intro e he
      obtain ⟨_, _, c, d⟩ := hnews e he
      exact ⟨c, d⟩

/-- flush / resend / send: the online core changes on its sending side only, chunk packets go out,
possibly one chunk is submitted -/
theorem AInv.act_send {cfg : Cfg} {x y x' : AEnd} (h : AInv cfg x y) {o o' : Online} (hx : x.st = some o)
    (ext extnv : List Bytes) (fl : List Flushed)
    (hst : x'.st = some o') (hout : x'.out = x.out ++ astamp x fl)
    (hsub : x'.sub = x.sub ++ ext) (hnv : x'.nv = x.nv ++ extnv) (hdel : x'.del = x.del) (hnvd : x'.nvDel = x.nvDel)
    (hok : SendOk cfg o' (x.sub ++ ext) (x.nv ++ extnv) y.del.length)
    (hfl : FlsOk x.sub x.nv o.ack fl) (hack : o'.ack = o.ack) :
    AInv cfg x' y := by
  obtain ⟨hxy, hyx⟩ := h
  constructor
  · refine hxy.frame_send ext extnv (astamp x fl) hsub hnv ?_ ?_ hout ?_
    · have := hok.qwin; have := hok.qlen; omega
    · intro o'' ho''
      rw [hst] at ho''; injection ho'' with ho''; subst ho''; exact hok
    · intro e he
      simp only [astamp, List.mem_map] at he
      obtain ⟨f, hf, rfl⟩ := he
      exact ⟨rfl, (hfl f hf).1, (hfl f hf).2.1⟩
  · refine hyx.frame_recv (astamp x fl) hdel hnvd ?_ hout ?_
    · intro o'' ho''
      rw [hst] at ho''; injection ho'' with ho''; subst ho''
      exact ⟨o, hx, hack⟩
    · intro e he
      simp only [astamp, List.mem_map] at he
      obtain ⟨f, hf, rfl⟩ := he
      exact ⟨rfl, o, hx, (hfl f hf).2.2⟩

/-- the ack of a datagram of the peer's history is processed (H2, ack part) -/
theorem AInv.act_ack {cfg : Cfg} {x y x' : AEnd} (h : AInv cfg x y) {e : AEnt} (he : e ∈ y.out)
    {o o1 : Online} (hx : x.st = some o) (hfa : o.feedAck e.ack = .ok o1)
    (h2 : x.sub.length < unwrap e.dStamp e.ack + 1024)
    (hst : x'.st = some o1) (hout : x'.out = x.out)
    (hsub : x'.sub = x.sub) (hnv : x'.nv = x.nv) (hdel : x'.del = x.del) (hnvd : x'.nvDel = x.nvDel) :
    AInv cfg x' y := by
  have hxy := h.1
  obtain ⟨ea, ed⟩ := hxy.acks e he
  have hu : unwrap e.dStamp e.ack = e.dStamp := unwrap_eq (Nat.le_refl _) (by omega) ea
  rw [hu] at h2
  have ho1 := feedAck_eq hfa
  rw [ea] at ho1
  obtain ⟨sok, sack⟩ := (hxy.snd o hx).ack hxy.dle ed h2
  rw [← ho1] at sok sack
  exact h.act_send hx [] [] [] hst (by simpa [astamp] using hout) (by simpa using hsub) (by simpa using hnv) hdel hnvd
    (by simpa using sok) (by intro f hf; simp at hf) sack

/-- a chunk packet of the peer's history is processed after its ack (H2, sequence part): the
application is handed the next chunks of the peer, in order -/
theorem AInv.act_recv {cfg : Cfg} (hc : cfg.Ok) {x y x' : AEnd} (h : AInv cfg x y) {e : AEnt} (he : e ∈ y.out)
    {o o2 : Online} {now : Nat} {send send2 : Timeout} {rr : Bool} {fl : List Flushed} {evs : List Event}
    (hx : x.st = some o) (hr : o.receive cfg now send rr e.chunks = .ok (o2, send2, fl, evs))
    (h2 : ∀ c ∈ e.chunks, ∀ s r, c.vital = some (s, r) → x.del.length + 1 < unwrap e.nStamp s + 1024)
    (hst : x'.st = some o2) (hout : x'.out = x.out ++ astamp x fl)
    (hsub : x'.sub = x.sub) (hnv : x'.nv = x.nv)
    (hdel : x'.del = x.del ++ vitalPayloads evs) (hnvd : x'.nvDel = x.nvDel ++ nonvitalPayloads evs) :
    AInv cfg x' y := by
  obtain ⟨hxy, hyx⟩ := h
  have hs := hxy.snd o hx
  obtain ⟨s2ok, flok, rr0, hack2, hevs⟩ := hs.receive hc hr
  obtain ⟨en1, en2, en3⟩ := hyx.net e he
  have hoack := hyx.rcv o hx
  have hcs : ∀ c ∈ e.chunks, ∀ seq r, c.vital = some (seq, r) →
      ∃ k, k < e.nStamp ∧ e.nStamp ≤ k + 767 ∧ x.del.length < k + 1024 ∧ IsChunk y.sub k seq c.data := by
    intro c hcm seq r hv
    obtain ⟨k, k1, k2, k3⟩ := en2 c hcm seq r hv
    have := h2 c hcm seq r hv
    rw [unwrap_eq (q := k + 1) (by omega) (by omega) k3.2] at this
    exact ⟨k, k1, k2, by omega, k3⟩
  obtain ⟨m, m1, m2, m3⟩ := receive_tight y.sub e.nStamp x.del.length (Nat.le_trans en1 hyx.win) e.chunks
    x.del.length rr0 (Nat.le_refl _) (Or.inl rfl) hyx.dle hcs
  rw [← hoack] at m2 m3
  rw [← hevs] at m2
  have hlen : (vitalPayloads evs).length = m := by
    rw [m2, List.length_take, List.length_drop]; omega
  constructor
  · -- x as sender: only the resend inside `receive`
    refine hxy.frame_send [] [] (astamp x fl) (by simpa using hsub) (by simpa using hnv) (by simpa using hxy.win) ?_ hout ?_
    · intro o'' ho''
      rw [hst] at ho''; injection ho'' with ho''; subst ho''; simpa using s2ok
    · intro e' he'
      simp only [astamp, List.mem_map] at he'
      obtain ⟨f, hf, rfl⟩ := he'
      exact ⟨rfl, (flok f hf).1, (flok f hf).2.1⟩
  · -- x as receiver
    refine ⟨?_, ?_, ?_, ?_, ?_, ?_, hyx.net, ?_⟩
    · rw [hdel, List.length_append, hlen, m2, List.take_add, ← hyx.pre]
    · rw [hdel, List.length_append, hlen]; exact m1
    · rw [hdel, List.length_append, hlen]; have := hyx.win; omega
    · rw [hnvd]
      intro d hd
      rcases List.mem_append.mp hd with hd | hd
      · exact hyx.nvd d hd
      · rw [hevs] at hd
        obtain ⟨c, hcm, hv, rfl⟩ := nonvital_mem _ _ d hd
        exact en3 c hcm hv
    · intro oy hoy
      rw [hdel, List.length_append, hlen]
      exact (hyx.snd oy hoy).mono (by omega)
    · intro o'' ho''
      rw [hst] at ho''; injection ho'' with ho''; subst ho''
      rw [hdel, List.length_append, hlen, hack2]; exact m3
    · rw [hout, hdel, List.length_append, hlen]
      intro e' he'
      rcases List.mem_append.mp he' with he' | he'
      · obtain ⟨a, b⟩ := hyx.acks e' he'
        exact ⟨a, by omega⟩
      · simp only [astamp, List.mem_map] at he'
        obtain ⟨f, hf, rfl⟩ := he'
        simp only
        exact ⟨by rw [(flok f hf).2.2]; exact hoack, by omega⟩

/-- what C01 says, read off the invariant -/
theorem AInv.safe {cfg : Cfg} {x y : AEnd} (h : AInv cfg x y) :
    y.del <+: x.sub ∧ x.del <+: y.sub ∧ (∀ d ∈ y.nvDel, d ∈ x.nv) ∧ (∀ d ∈ x.nvDel, d ∈ y.nv) := by
  refine ⟨?_, ?_, h.1.nvd, h.2.nvd⟩
  · rw [h.1.pre]; exact List.take_prefix _ _
  · rw [h.2.pre]; exact List.take_prefix _ _

end Tw.NetSim
