import Tw.Proofs.ConnProgressA

/-!
# Timer bounds of the online core

`RqDue now o`: every unacknowledged chunk's retransmission timer is armed and due at the latest one
retransmission interval after `now`; `SendDue now s`: the send / keep-alive timer is armed and due at
the latest one send interval after `now`.  Both are preserved by every operation executed at time
`now` and by the passage of time.
-/
namespace Tw.Conn
open Tw.Time

def TimerDue (now dur : Nat) (t : Timeout) : Prop := ∃ x, t = .active x ∧ x ≤ now + dur

def RqDue (now : Nat) (o : Online) : Prop := ∀ r ∈ o.resendQueue, TimerDue now resendUs r.nextSend

def SendDue (now : Nat) (s : Timeout) : Prop := TimerDue now sendUs s

theorem TimerDue.mono {now now' dur : Nat} {t : Timeout} (h : TimerDue now dur t) (hn : now ≤ now') :
    TimerDue now' dur t := by
  obtain ⟨x, hx, hle⟩ := h
  exact ⟨x, hx, by omega⟩

theorem timerDue_after (now dur : Nat) : TimerDue now dur (Timeout.after now dur) := ⟨_, rfl, Nat.le_refl _⟩

theorem TimerDue.triggered {now dur now' : Nat} {t : Timeout} (h : TimerDue now dur t) (hn : now + dur ≤ now') :
    t.triggered now' = true := by
  obtain ⟨x, hx, hle⟩ := h
  subst hx
  simp [Timeout.triggered]; omega

theorem RqDue.mono {now now' : Nat} {o : Online} (h : RqDue now o) (hn : now ≤ now') : RqDue now' o :=
  fun r hr => (h r hr).mono hn

theorem RqDue.new (now : Nat) : RqDue now .new := by intro r hr; simp [Online.new] at hr

theorem RqDue.of_rq {now : Nat} {o o' : Online} (h : RqDue now o) (hq : ∀ r ∈ o'.resendQueue, r ∈ o.resendQueue) :
    RqDue now o' := fun r hr => h r (hq r hr)

theorem RqDue.flush {now : Nat} {o : Online} (h : RqDue now o) : RqDue now o.flush.1 :=
  h.of_rq (by rw [Online.flush_resendQueue]; exact fun r hr => hr)

theorem RqDue.ackChunks {now : Nat} {o : Online} (h : RqDue now o) (a : Nat) : RqDue now (o.ackChunks a) := by
  obtain ⟨_, _, _, _, _, _, i, hq⟩ := Tw.NetSim.ackChunks_fields o a
  exact h.of_rq (by rw [hq]; exact fun r hr => List.mem_of_mem_take hr)

theorem queue_rq {cfg : Cfg} {now : Nat} {o o2 : Online} {d : Bytes} {v : Bool} (h : o.queue cfg now d v = .ok o2) :
    o2.resendQueue = o.resendQueue ∨
      ∃ s, o2.resendQueue = ⟨Timeout.after now resendUs, s, d⟩ :: o.resendQueue := by
  unfold Online.queue at h
  cases v with
  | true =>
    simp only [if_true] at h
    split at h
    · cases h
    · split at h
      · cases h
      · injection h with h; subst h; exact Or.inr ⟨_, rfl⟩
  | false =>
    simp only [Bool.false_eq_true, if_false] at h
    split at h
    · cases h
    · split at h
      · cases h
      · injection h with h; subst h; exact Or.inl rfl

theorem RqDue.send {cfg : Cfg} {now : Nat} {o o' : Online} {d : Bytes} {v : Bool} {r : SendRes} {fl : List Flushed}
    (h : RqDue now o) (he : o.send cfg now d v = .ok (o', r, fl)) : RqDue now o' := by
  unfold Online.send at he
  split at he
  · injection he with he; injection he with e1 _; subst e1; exact h
  · have key : ∀ o1 : Online, RqDue now o1 → ∀ flx : List Flushed,
        (match o1.queue cfg now d v with
          | .error e => .error e
          | .ok o2 => .ok (o2, SendRes.ok, flx)) = Except.ok (o', r, fl) → RqDue now o' := by
      intro o1 h1 flx hk
      split at hk
      · cases hk
      · rename_i o2 hq
        injection hk with hk; injection hk with e1 _; subst e1
        rcases queue_rq hq with hq' | ⟨s, hq'⟩
        · exact h1.of_rq (by rw [hq']; exact fun r hr => hr)
        · intro r hr
          rw [hq'] at hr
          rcases List.mem_cons.mp hr with rfl | hr
          · exact timerDue_after _ _
          · exact h1 r hr
    by_cases hf : o.packet.canFit d.length v = true
    · simp only [hf, Bool.not_true, Bool.false_eq_true, if_false] at he
      exact key o h [] he
    · simp only [hf, Bool.not_false, if_true] at he
      exact key o.flush.1 h.flush o.flush.2 he

/-- the send timer after a resend: unchanged, or restarted now -/
theorem resendLoop_send {cfg : Cfg} (now : Nat) :
    ∀ (todo : List ResendChunk) (o : Online) (send : Timeout) (acc : List Flushed) o' send' fl,
      resendLoop cfg now todo o send acc = .ok (o', send', fl) →
      send' = send ∨ send' = Timeout.after now sendUs := by
  intro todo
  induction todo with
  | nil =>
    intro o send acc o' send' fl he
    simp only [resendLoop] at he
    injection he with he; injection he with _ h2; injection h2 with h2 _
    exact Or.inl h2.symm
  | cons c rest ih =>
    intro o send acc o' send' fl he
    unfold resendLoop at he
    simp only at he
    split at he
    · cases he
    · rcases ih _ _ _ _ _ _ he with h | h
      · by_cases hf : o.packet.canFit c.data.length true = true
        · simp only [hf, if_true] at h; exact Or.inl h
        · simp only [hf, Bool.false_eq_true, if_false] at h; exact Or.inr h
      · exact Or.inr h

theorem resend_timers {cfg : Cfg} {now : Nat} {o o' : Online} {send send' : Timeout} {fl : List Flushed}
    (he : o.resend cfg now send = .ok (o', send', fl)) :
    (o.resendQueue = [] ∨ ∀ r ∈ o'.resendQueue, r.nextSend = Timeout.after now resendUs) ∧
    (send' = send ∨ send' = Timeout.after now sendUs) := by
  unfold Online.resend at he
  split at he
  · rename_i hemp
    injection he with he; injection he with h1 h2; injection h2 with h2 _
    exact ⟨Or.inl (by simpa using hemp), Or.inl h2.symm⟩
  · obtain ⟨i1, _, _, _, _⟩ := resendLoop_frame now _ _ _ _ _ _ _ he
    refine ⟨Or.inr ?_, resendLoop_send now _ _ _ _ _ _ _ he⟩
    intro r hr
    rw [i1] at hr
    simp only [Online.resendStart, List.mem_map] at hr
    obtain ⟨r0, _, rfl⟩ := hr
    rfl

theorem RqDue.resend {cfg : Cfg} {now : Nat} {o o' : Online} {send send' : Timeout} {fl : List Flushed}
    (h : RqDue now o) (he : o.resend cfg now send = .ok (o', send', fl)) : RqDue now o' := by
  obtain ⟨f1, f2, _, f4, _, _⟩ := resend_frame he
  rcases (resend_timers he).1 with hemp | hall
  · rw [(f4 hemp).1]; exact h
  · intro r hr; rw [hall r hr]; exact timerDue_after _ _

theorem SendDue.resend {cfg : Cfg} {now : Nat} {o o' : Online} {send send' : Timeout} {fl : List Flushed}
    (h : SendDue now send) (he : o.resend cfg now send = .ok (o', send', fl)) : SendDue now send' := by
  rcases (resend_timers he).2 with h' | h'
  · rw [h']; exact h
  · rw [h']; exact timerDue_after _ _

theorem receive_timers {cfg : Cfg} {now : Nat} {o o2 : Online} {send send2 : Timeout} {rr : Bool} {cs : List Chunk}
    {fl : List Flushed} {evs : List Event} (he : o.receive cfg now send rr cs = .ok (o2, send2, fl, evs))
    (hq : RqDue now o) (hs : SendDue now send) : RqDue now o2 ∧ SendDue now send2 := by
  unfold Online.receive at he
  cases rr with
  | false =>
    simp only [Bool.false_eq_true, if_false] at he
    split at he
    · cases he
    · injection he with he; injection he with e1 e2; injection e2 with e2 _
      subst e1 e2
      exact ⟨hq.of_rq (fun r hr => hr), hs⟩
  | true =>
    simp only [if_true] at he
    cases hrs : o.resend cfg now send with
    | error e => rw [hrs] at he; cases he
    | ok r2 =>
      obtain ⟨o1', s1', fl1⟩ := r2
      rw [hrs] at he
      simp only at he
      split at he
      · cases he
      · injection he with he; injection he with e1 e2; injection e2 with e2 _
        subst e1 e2
        exact ⟨(hq.resend hrs).of_rq (fun r hr => hr), hs.resend hrs⟩

end Tw.Conn
