import Tw.Proofs.DemoHl
import Tw.Proofs.HuffmanTable
import Tw.Proofs.SnapAccepted

/-! The typed-level statement of C15 over whole histories (`C15_full`): the Huffman hypothesis
discharged by C07, the delta step without size hypotheses, the objects of a built snapshot, the
induction over the history. -/
namespace Tw.DemoHl
open Tw.Demo Tw.Snap

/-- `HuffmanRoundTrip` holds: C07 `decompress_compress` for the built-in, kernel-checked table -/
theorem huffmanRoundTrip : HuffmanRoundTrip :=
  fun xs cap h => Tw.Huffman.decompress_compress _ Tw.Huffman.wellFormed_table false xs cap h

theorem sizesOk_of_writeUpdates (objSize : Nat → Option Nat) : ∀ (m : Items) (xs : List Int),
    writeUpdates objSize m = some xs → SizesOk objSize m := by
  intro m
  induction m with
  | nil => intro xs _ p hp; simp at hp
  | cons q r ih =>
    obtain ⟨k, d⟩ := q
    intro xs h
    simp only [writeUpdates] at h
    cases hr : writeUpdates objSize r with
    | none => simp [hr] at h
    | some rest =>
      simp only [hr] at h
      intro p hp
      rcases List.mem_cons.mp hp with rfl | hp'
      · cases ho : objSize (keyType k) with
        | none => simp [szOk]
        | some sz =>
          simp only [ho] at h
          by_cases hsz : sz ≠ d.length
          · simp [hsz] at h
          · simp only [szOk]; simp at hsz; simp [hsz]
      · exact ih rest hr p hp'

/-- An accepted delta `write_snap`, read back — no hypothesis on sizes: that the call was accepted
(did not panic in `Delta::create` / `Delta::write`) already implies that the sizes agree. -/
theorem delta_step' (objSize : Nat → Option Nat) (w w' : DemoWriter) (hinv : w.Inv)
    (tick : Int) (ht : Tw.Packer.inI32 tick) (items : List Item) (hv : ∀ it ∈ items, it.valid)
    (hk : w.isKeyframe tick = false) (h : w.writeSnap objSize tick items = (w', .ok)) :
    ∃ enc, w'.inner.file = w.inner.file ++ enc ∧ 2 ≤ enc.length ∧
      ∀ (v : Version) (rest : Bytes), v.num ≥ 5 →
        ∃ r1, DemoReader.nextChunk objSize
            { raw := { data := enc ++ rest, version := v, currentTick := w.inner.prevTick }, snap := w.snap } =
              (r1, .chunk (.tick tick), []) ∧
          DemoReader.nextChunk objSize r1 =
            match snapItems w'.snap with
            | some its => ({ raw := { data := rest, version := v, currentTick := w'.inner.prevTick },
                             snap := w'.snap }, .chunk (.snapshot its), [])
            | none => (r1, .error .panic, []) := by
  have hH := huffmanRoundTrip
  obtain ⟨_, b, b', bs, inner1, hadd, hpay, hfit, hwt, hwd, hnb, hw'⟩ := writeSnap_ok_inv objSize w w' tick items h
  simp only [hk, Bool.false_eq_true, if_false] at hpay hwt hwd
  have hb := addItems_inv items hv w.builder b hinv.binv hadd
  have hsnap : w'.snap = b.snap := by rw [hw']
  -- the delta exists and was written: sizes agree
  unfold snapPayload at hpay
  simp only [Bool.false_eq_true, if_false] at hpay
  cases hd : createDelta w.snap.raw b.snap.raw with
  | none => simp [hd] at hpay
  | some d =>
    simp only [hd] at hpay
    cases hwi : d.writeInts objSize with
    | none => simp [hwi] at hpay
    | some xs =>
      simp only [hwi] at hpay
      have hbs : bs = Tw.Snap.packInts xs := by
        split at hpay
        · cases hpay
        · cases hpay; rfl
      have hag : SizesAgree w.snap.raw b.snap.raw := by
        apply Decidable.byContradiction
        intro hn
        have := (createDelta_eq_none_iff w.snap.raw b.snap.raw).mpr hn
        rw [hd] at this
        cases this
      obtain ⟨d2, hd2, hap⟩ := applyDelta_createDelta hinv.sok.raw_wf hb.ok.raw_wf hag
      rw [hd] at hd2
      injection hd2 with hd2
      subst hd2
      obtain ⟨hwf, _⟩ := createDelta_WF hinv.sok.raw_wf hb.ok.raw_wf hd
      have hok : SizesOk objSize d.updated := by
        unfold Delta.writeInts at hwi
        cases hu : writeUpdates objSize d.updated with
        | none => simp [hu] at hwi
        | some u => exact sizesOk_of_writeUpdates objSize _ u hu
      obtain ⟨xs2, hw2, hrd⟩ := readDelta_writeInts true objSize hwf hok
      rw [hwi] at hw2
      injection hw2 with hw2
      subst hw2
      have hrd' : readDelta objSize (.bytes bs) = .ok (d, []) := by
        rw [hbs]; simpa [enc] using hrd
      have hrw : w.snap.readWithDelta d = .ok (b.snap, []) := by
        unfold Snap.readWithDelta
        rw [hap]
        simp only [buildFromRaw_of_extOk hb.ok, List.append_nil]
      obtain ⟨e1, hf1, hl1, hr1⟩ := writeChunk_ok hH w.inner inner1 (.tick tick false) ht hwt
      obtain ⟨e2, hf2, hl2, hr2⟩ := writeChunk_ok hH inner1 w'.inner (.delta bs) trivial hwd
      refine ⟨e1 ++ e2, by rw [hf2, hf1, List.append_assoc], by rw [List.length_append]; omega, ?_⟩
      intro v rest hv5
      have h1 := hr1 v (e2 ++ rest) hv5
      have h2 := hr2 v rest hv5
      refine ⟨{ raw := { data := e2 ++ rest, version := v, currentTick := inner1.prevTick }, snap := w.snap }, ?_, ?_⟩
      · simp only [DemoReader.nextChunk, List.append_assoc, h1, Chunk.padded, List.map_nil]
      · simp only [DemoReader.nextChunk, h2, Chunk.padded, hrd', hrw, hsnap, List.map_nil, List.append_nil]
        cases snapItems b.snap <;> rfl

end Tw.DemoHl
