import Tw.Proofs.ConnProgressV

/-!
# C02 (c): four rounds of the fair suffix that delivers *every* datagram

`RoundT`: a round in which side `b` is handed what was left over from the previous round (`La`: the
answers `a` emitted while it processed deliveries) followed by `a`'s tick datagrams, and side `a` is
handed `b`'s tick datagrams followed by the answers `b` emitted in this round.  Every tick phase emits
at least one datagram (flush or keep-alive), so the acks always travel.  `four_roundsT`: from a state
without leftovers four such rounds end quiescent: 1 everything handed over, 2 both resend queues
empty, 3 both packets empty and nothing left over, 4 no resend requested.
-/
namespace Tw.Conn
open Tw.Time

theorem resend_seqs {cfg : Cfg} {now : Nat} {o o' : Online} {send send' : Timeout} {fl : List Flushed}
    (he : o.resend cfg now send = .ok (o', send', fl)) :
    o'.resendQueue.map (·.seq) = o.resendQueue.map (·.seq) ∧ (o.resendQueue = [] → fl = []) := by
  unfold Online.resend at he
  split at he
  · injection he with he; injection he with h1 h2; injection h2 with _ h3
    subst h1
    exact ⟨rfl, fun _ => h3.symm⟩
  · rename_i hne
    obtain ⟨i1, _, _, _, _⟩ := resendLoop_frame now _ _ _ _ _ _ _ he
    refine ⟨?_, fun h => absurd (by simpa using h) hne⟩
    rw [i1]
    simp [Online.resendStart, ResendChunk.restart, Function.comp_def]

theorem RecvRel.rq {cfg : Cfg} {o o2 : Online} {p : Flushed} (h : RecvRel cfg o p o2) :
    (∃ i, o2.resendQueue.map (·.seq) = ((o.resendQueue.map (·.seq)).take i)) ∧
    (o.resendQueue = [] → o2.resendQueue = []) := by
  obtain ⟨now, send, send2, o1, fl, evs, hfa, hrc⟩ := h
  have ho1 := Tw.NetSim.feedAck_eq hfa
  obtain ⟨_, _, _, _, _, _, i, hq⟩ := Tw.NetSim.ackChunks_fields o p.ack
  rw [← ho1] at hq
  have key : o2.resendQueue.map (·.seq) = o1.resendQueue.map (·.seq) := by
    unfold Online.receive at hrc
    cases hrr : p.requestResend with
    | false =>
      simp only [hrr, Bool.false_eq_true, if_false] at hrc
      split at hrc
      · cases hrc
      · injection hrc with hrc; injection hrc with e1 _; subst e1; rfl
    | true =>
      simp only [hrr, if_true] at hrc
      cases hrs : o1.resend cfg now send with
      | error e => rw [hrs] at hrc; cases hrc
      | ok r2 =>
        obtain ⟨o1', s1', fl1⟩ := r2
        rw [hrs] at hrc
        simp only at hrc
        split at hrc
        · cases hrc
        · injection hrc with hrc; injection hrc with e1 _; subst e1
          exact (resend_seqs hrs).1
  have hseq : o2.resendQueue.map (·.seq) = (o.resendQueue.map (·.seq)).take i := by
    rw [key, hq, List.map_take]
  refine ⟨⟨i, hseq⟩, ?_⟩
  intro hemp
  rw [hemp] at hseq
  simpa using hseq

theorem RecvListRel.acked_later {cfg : Cfg} : ∀ (pre : List Flushed) {o o' : Online} {p : Flushed} {post : List Flushed}
    {sq : Nat} {tl : List Nat}, RecvListRel cfg o (pre ++ p :: post) o' →
    o.resendQueue.map (·.seq) = sq :: tl → p.ack = sq → o'.resendQueue = [] := by
  intro pre
  induction pre with
  | nil =>
    intro o o' p post sq tl h hq hp
    cases hqc : o.resendQueue with
    | nil => rw [hqc] at hq; cases hq
    | cons c rest =>
      rw [hqc] at hq
      simp only [List.map_cons, List.cons.injEq] at hq
      exact (h.acked c rest hqc (by rw [hp, hq.1])).1
  | cons q pre ih =>
    intro o o' p post sq tl h hq hp
    cases h with
    | @cons _ o1 _ _ _ hr hrest =>
      obtain ⟨⟨i, hi⟩, _⟩ := hr.rq
      rw [hq] at hi
      cases i with
      | zero =>
        have : o1.resendQueue = [] := by simpa using hi
        exact (hrest.idle this).1
      | succ i =>
        simp only [List.take_succ_cons] at hi
        exact ih hrest hi hp

/-- a round of the fair suffix that delivers every datagram, on the two cores (`true` = side a) -/
structure RoundT (cfg : Cfg) (v : View) (La : List Flushed) (vb v' : View) (La' : List Flushed) : Prop where
  inv0 : VInv cfg v
  invb : VInv cfg vb
  inv' : VInv cfg v'
  subb : vb.sub = v.sub
  delb : vb.del = v.del
  sub' : v'.sub = v.sub
  body : ∃ (Ta Tb Rb : List Flushed) (midB midA : Online) (dmB dmA : Nat),
    PhaseSpec cfg (v.ep true) (vb.ep true) Ta ∧ Ta ≠ [] ∧
    PhaseSpec cfg (v.ep false) (vb.ep false) Tb ∧ Tb ≠ [] ∧
    RecvListRel cfg (vb.ep false) La midB ∧ RecvListRel cfg midB Ta (v'.ep false) ∧
    midB.ack = dmB % 1024 ∧ (v.del false).length ≤ dmB ∧ dmB ≤ (v'.del false).length ∧
    RecvListRel cfg (vb.ep true) Tb midA ∧ RecvListRel cfg midA Rb (v'.ep true) ∧
    midA.ack = dmA % 1024 ∧ (v.del true).length ≤ dmA ∧ dmA ≤ (v'.del true).length ∧
    ((vb.ep false).resendQueue = [] → Rb = []) ∧ ((vb.ep true).resendQueue = [] → La' = [])

variable {cfg : Cfg} {v vb v' : View} {La La' : List Flushed}

/-- the tick datagrams of `x` are the chunks `a … n-1` in order -/
theorem consecutive_of_phase {o o2 : Online} {fls : List Flushed} {sub : List Bytes} (hsp : PhaseSpec cfg o o2 fls)
    (hq : Tw.NetSim.QueueOk sub o.resendQueue) (hne : o.resendQueue ≠ []) :
    Consecutive sub (sub.length - o.resendQueue.length) (fls.flatMap (·.chunks)) o.resendQueue.length := by
  obtain ⟨hv, _⟩ := hsp.ne hne
  have hqv := queue_vitals sub _ (queueOk_shape' hq)
  have hql := queueOk_len' hq
  exact consecutive_of_vitals _ _ _ _ (by rw [vitals_flatMap', hv, hqv]) (by omega)

/-- round 1 (and every later round): everything submitted has been handed over -/
theorem RoundT.u1 (R : RoundT cfg v La vb v' La') (x : Bool) : VStage1 v' x := by
  obtain ⟨Ta, Tb, Rb, midB, midA, dmB, dmA, pa, _, pb, _, rb1, rb2, mb1, mb2, mb3, ra1, ra2, ma1, ma2, ma3, _, _⟩ := R.body
  unfold VStage1
  rw [R.sub']
  cases x with
  | true =>
    -- b is handed the leftovers, then a's tick datagrams
    simp only [Bool.not_true]
    have hack' := R.inv'.ack true
    have hdle' : (v'.del false).length ≤ (v.sub true).length := by
      have := R.inv'.dle true; rw [R.sub'] at this; exact this
    have hqwin := R.inv0.qwin true
    have hqlen := R.inv0.qlen true
    have hdle := R.inv0.dle true
    have hql := queueOk_len' (R.inv0.q true)
    simp only [Bool.not_true] at hack' hqwin hdle
    by_cases hq : (v.ep true).resendQueue = []
    · rw [hq] at hqwin; simp at hqwin; omega
    · have hcons := consecutive_of_phase pa (R.inv0.q true) hq
      have hra := rb2.ack
      rw [mb1] at hra
      have := (receive_from_behind (v.sub true) _ _ _ hcons dmB false (by omega) (by omega) (by omega)).1
      rw [this, hack'] at hra
      omega
  | false =>
    -- a is handed b's tick datagrams, then b's answers
    simp only [Bool.not_false]
    have hackb : (vb.ep true).ack = (v.del true).length % 1024 := by
      have := R.invb.ack false; rw [R.delb] at this; simpa using this
    have hdle' : (v'.del true).length ≤ (v.sub false).length := by
      have := R.inv'.dle false; rw [R.sub'] at this; simpa using this
    have hqwin := R.inv0.qwin false
    have hqlen := R.inv0.qlen false
    have hdle := R.inv0.dle false
    have hql := queueOk_len' (R.inv0.q false)
    simp only [Bool.not_false] at hqwin hdle
    by_cases hq : (v.ep false).resendQueue = []
    · rw [hq] at hqwin; simp at hqwin; omega
    · have hcons := consecutive_of_phase pb (R.inv0.q false) hq
      have hra := ra1.ack
      rw [hackb] at hra
      have := (receive_from_behind (v.sub false) _ _ _ hcons (v.del true).length false (by omega) (by omega) (by omega)).1
      rw [this, ma1] at hra
      omega

def VU2 (v : View) : Prop := ∀ x, VStage1 v x ∧ (v.ep x).resendQueue = []
def VU3 (v : View) (La : List Flushed) : Prop :=
  (∀ x, VStage1 v x ∧ (v.ep x).resendQueue = [] ∧ (v.ep x).packet.chunks = []) ∧ La = []

/-- round 2: every side is handed a tick datagram carrying the full ack: both queues are emptied -/
theorem RoundT.u2 (R : RoundT cfg v La vb v' La') (h1 : ∀ x, VStage1 v x) : VU2 v' := by
  obtain ⟨Ta, Tb, Rb, midB, midA, dmB, dmA, pa, hTa, pb, hTb, rb1, rb2, _, _, _, ra1, ra2, _, _, _, _, _⟩ := R.body
  intro x
  refine ⟨R.u1 x, ?_⟩
  -- the queue of `x` after its ticks: the same chunks; its newest has sequence n mod 1024
  have hhead : ∀ (y : Bool) (o2 : Online) (fls : List Flushed), PhaseSpec cfg (v.ep y) o2 fls → vb.ep y = o2 →
      (vb.ep y).resendQueue = [] ∨ ∃ tl, (vb.ep y).resendQueue.map (·.seq) = ((v.sub y).length % 1024) :: tl := by
    intro y o2 fls _ _
    cases hqc : (vb.ep y).resendQueue with
    | nil => exact Or.inl rfl
    | cons c rest =>
      right
      have hqs := queueOk_shape' (R.invb.q y) 0 c (by rw [hqc]; rfl)
      rw [R.subb] at hqs
      exact ⟨rest.map (·.seq), by simp [hqs.2.2]⟩
  cases x with
  | true =>
    rcases hhead true _ Ta pa rfl with h | ⟨tl, h⟩
    · exact ((ra1.append ra2).idle h).1
    · cases hTb' : Tb with
      | nil => exact absurd hTb' hTb
      | cons p ps =>
        have hp : p.ack = (v.sub true).length % 1024 := by
          rw [pb.acks p (by rw [hTb']; simp)]
          have := R.inv0.ack true
          have h1t := h1 true
          unfold VStage1 at h1t
          simp only [Bool.not_true] at this h1t
          rw [this, h1t]
        have hall := ra1.append ra2
        rw [hTb'] at hall
        exact RecvListRel.acked_later [] hall h hp
  | false =>
    rcases hhead false _ Tb pb rfl with h | ⟨tl, h⟩
    · exact ((rb1.append rb2).idle h).1
    · cases hTa' : Ta with
      | nil => exact absurd hTa' hTa
      | cons p ps =>
        have hp : p.ack = (v.sub false).length % 1024 := by
          rw [pa.acks p (by rw [hTa']; simp)]
          have := R.inv0.ack false
          have h1f := h1 false
          unfold VStage1 at h1f
          simp only [Bool.not_false] at this h1f
          rw [this, h1f]
        have hall := rb1.append rb2
        rw [hTa'] at hall
        exact RecvListRel.acked_later La hall h hp

/-- round 3: the packets are flushed and, with empty queues, nobody answers a delivery any more -/
theorem RoundT.u3 (R : RoundT cfg v La vb v' La') (h2 : VU2 v) : VU3 v' La' := by
  obtain ⟨Ta, Tb, Rb, midB, midA, dmB, dmA, pa, _, pb, _, rb1, rb2, _, _, _, ra1, ra2, _, _, _, _, hLa⟩ := R.body
  have hqa : (vb.ep true).resendQueue = [] := by
    have := pa.rqlen; rw [(h2 true).2] at this; exact List.length_eq_zero_iff.mp this
  have hqb : (vb.ep false).resendQueue = [] := by
    have := pb.rqlen; rw [(h2 false).2] at this; exact List.length_eq_zero_iff.mp this
  refine ⟨?_, hLa hqa⟩
  intro x
  cases x with
  | true =>
    obtain ⟨a, b⟩ := (ra1.append ra2).idle hqa
    exact ⟨R.u1 true, a, by rw [b]; exact pa.pk⟩
  | false =>
    obtain ⟨a, b⟩ := (rb1.append rb2).idle hqb
    exact ⟨R.u1 false, a, by rw [b]; exact pb.pk⟩

/-- round 4: no vital chunk travels any more; the resend requests flushed by the ticks stay cleared -/
theorem RoundT.u4 (R : RoundT cfg v La vb v' La') (h3 : VU3 v La) : v'.quiescent := by
  obtain ⟨Ta, Tb, Rb, midB, midA, dmB, dmA, pa, _, pb, _, rb1, rb2, _, _, _, ra1, ra2, _, _, _, hRb, hLa⟩ := R.body
  obtain ⟨h3v, hLa0⟩ := h3
  have hqa : (vb.ep true).resendQueue = [] := by
    have := pa.rqlen; rw [(h3v true).2.1] at this; exact List.length_eq_zero_iff.mp this
  have hqb : (vb.ep false).resendQueue = [] := by
    have := pb.rqlen; rw [(h3v false).2.1] at this; exact List.length_eq_zero_iff.mp this
  have hTa : ∀ p ∈ Ta, vitals p.chunks = [] := by
    have := pa.emp (h3v true).2.1
    rw [(h3v true).2.2] at this
    exact flVitals_nil' (by simpa [vitals] using this)
  have hTb : ∀ p ∈ Tb, vitals p.chunks = [] := by
    have := pb.emp (h3v false).2.1
    rw [(h3v false).2.2] at this
    exact flVitals_nil' (by simpa [vitals] using this)
  have hRb0 := hRb hqb
  subst hLa0 hRb0
  have u3 := R.u3 (fun x => ⟨(h3v x).1, (h3v x).2.1⟩)
  intro x
  have hpre := R.inv'.pre x
  have h1 := R.u1 x
  unfold VStage1 at h1
  refine ⟨by rw [hpre, h1, List.take_length], (u3.1 x).2.1, (u3.1 x).2.2, ?_⟩
  cases x with
  | true => exact (ra1.append ra2).rr_false pa.rr (by intro p hp; simp at hp; exact hTb p hp)
  | false => exact (rb1.append rb2).rr_false pb.rr (by intro p hp; simp at hp; exact hTa p hp)

/-- **four rounds of the fair suffix end quiescent** -/
theorem four_roundsT {v0 b1 v1 b2 v2 b3 v3 b4 v4 : View} {L0 L1 L2 L3 L4 : List Flushed}
    (R1 : RoundT cfg v0 L0 b1 v1 L1) (R2 : RoundT cfg v1 L1 b2 v2 L2) (R3 : RoundT cfg v2 L2 b3 v3 L3)
    (R4 : RoundT cfg v3 L3 b4 v4 L4) : v4.quiescent :=
  R4.u4 (R3.u3 (R2.u2 (fun x => R1.u1 x)))

end Tw.Conn
