import Tw.Proofs.ConnTokens6

/-!
# 0.6: who can have sent a chunk packet

`K6`: an endpoint that is unconnected, connecting or pending has never sent a chunk packet; an
acceptor (online without having sent a `Connect`) has received one, so its peer has sent one.
Consequence (`no_online_acceptor_while_connecting6`): while one side is still connecting, the other
side is not online.
-/
namespace Tw.NetSim.P6
open Tw.Conn Tw.Conn6 Tw.Time Tw.NetSim

def isChunks : Packet → Bool
  | .chunks _ _ _ _ _ => true
  | _ => false

/-- the new state is online, or no chunk packet was sent -/
def CK (st' : State) (sent : List Packet) : Prop :=
  (∃ t o, st' = .online t o) ∨ ∀ p ∈ sent, isChunks p = false

theorem CK.nil (st' : State) : CK st' [] := Or.inr (by simp)
theorem CK.on {t : Option Nat} {o : Online} (sent : List Packet) : CK (.online t o) sent := Or.inl ⟨t, o, rfl⟩

theorem CK.ctl {st st' : State} {ctl : Control} {ps : List Packet} (h : sendControl st ctl = .ok ps) : CK st' ps := by
  have := sendControl_eq h; subst this
  exact Or.inr (by intro p hp; simp at hp; subst hp; rfl)

theorem tickAction_ck {env : Env} {c c' : Conn} {out : Out} (ht : tickAction env c = .ok (c', out)) :
    CK c'.state out.sent ∧ (∀ t, c.state = .pending t → c'.state = .pending t) := by
  obtain ⟨st, snd⟩ := c
  cases st <;> simp only [tickAction] at ht
  case unconnected =>
    injection ht with ht; injection ht with h1 h2; subst h1 h2
    exact ⟨CK.nil _, by simp⟩
  case disconnected =>
    injection ht with ht; injection ht with h1 h2; subst h1 h2
    exact ⟨CK.nil _, by simp⟩
  case connecting =>
    split at ht
    · cases ht
    · rename_i ps hsc
      injection ht with ht; injection ht with h1 h2; subst h1 h2
      exact ⟨CK.ctl hsc, by simp⟩
  case pending t =>
    split at ht
    · cases ht
    · rename_i ps hsc
      injection ht with ht; injection ht with h1 h2; subst h1 h2
      exact ⟨CK.ctl hsc, by intro t' h; exact h⟩
  case online t o =>
    split at ht
    · split at ht
      · cases ht
      · injection ht with ht; injection ht with h1 h2; subst h1 h2
        exact ⟨CK.on _, by simp⟩
    · split at ht
      · cases ht
      · injection ht with ht; injection ht with h1 h2; subst h1 h2
        exact ⟨CK.on _, by simp⟩

theorem ck_call6 (now : Nat) (draws : List Nat) (c : Conn) (cl : Call) (r : Ret Conn Packet)
    (hr : P6.call now draws c cl = .ok r) :
    CK r.conn.state r.sent ∧ (∀ t, c.state = .pending t → ∀ t' o, r.conn.state ≠ .online t' o) := by
  obtain ⟨st, snd⟩ := c
  cases cl with
  | connect =>
    simp only [P6.call] at hr
    split at hr
    · cases hr
    · rename_i c1 out hcon
      injection hr with hr; subst hr
      unfold connect at hcon
      cases st with
      | unconnected =>
        simp only at hcon
        exact ⟨(tickAction_ck hcon).1, by simp⟩
      | _ => simp at hcon
  | send d v =>
    simp only [P6.call] at hr
    split at hr
    · cases hr
    · rename_i c1 res out hsend
      injection hr with hr; subst hr
      unfold Conn6.send at hsend
      cases st with
      | online t o =>
        simp only at hsend
        split at hsend
        · cases hsend
        · split at hsend
          · cases hsend
          · injection hsend with hsend; injection hsend with e1 e2; injection e2 with e2 e3
            subst e1 e3
            exact ⟨CK.on _, by simp⟩
      | _ => simp at hsend
  | sendConnless d =>
    simp only [P6.call] at hr
    split at hr
    · cases hr
    · rename_i c1 res out hsend
      injection hr with hr; subst hr
      unfold Conn6.sendConnless at hsend
      cases st with
      | online t o =>
        simp only at hsend
        split at hsend
        · injection hsend with hsend; injection hsend with e1 e2; injection e2 with e2 e3
          subst e1 e3
          exact ⟨CK.on _, by simp⟩
        · split at hsend
          · cases hsend
          · injection hsend with hsend; injection hsend with e1 e2; injection e2 with e2 e3
            subst e1 e3
            exact ⟨CK.on _, by simp⟩
      | _ => simp at hsend
  | flush =>
    simp only [P6.call] at hr
    split at hr
    · cases hr
    · rename_i c1 out hfl
      injection hr with hr; subst hr
      unfold Conn6.flush at hfl
      cases st with
      | online t o =>
        simp only at hfl
        split at hfl
        · cases hfl
        · injection hfl with hfl; injection hfl with e1 e2; subst e1 e2
          exact ⟨CK.on _, by simp⟩
      | _ => simp at hfl
  | tick =>
    simp only [P6.call] at hr
    split at hr
    · cases hr
    · rename_i c1 out htick
      injection hr with hr; subst hr
      unfold Conn6.tick at htick
      cases st with
      | online t o =>
        simp only at htick
        split at htick
        · unfold resendConn at htick
          split at htick
          · cases htick
          · split at htick
            · cases htick
            · injection htick with htick; injection htick with e1 e2; subst e1 e2
              exact ⟨CK.on _, by simp⟩
        · split at htick
          · exact ⟨(tickAction_ck htick).1, by simp⟩
          · injection htick with htick; injection htick with e1 e2; subst e1 e2
            exact ⟨CK.on _, by simp⟩
      | pending t0 =>
        simp only [Bool.false_eq_true, if_false] at htick
        split at htick
        · have := (tickAction_ck htick).2 t0 rfl
          refine ⟨(tickAction_ck htick).1, ?_⟩
          intro t _ t' o h; rw [this] at h; cases h
        · injection htick with htick; injection htick with e1 e2; subst e1 e2
          exact ⟨CK.nil _, by intro t _ t' o h; cases h⟩
      | _ =>
        simp only [Bool.false_eq_true, if_false] at htick
        split at htick
        · exact ⟨(tickAction_ck htick).1, by simp⟩
        · injection htick with htick; injection htick with e1 e2; subst e1 e2
          exact ⟨CK.nil _, by simp⟩
  | disconnect reason =>
    simp only [P6.call] at hr
    split at hr
    · cases hr
    · rename_i c1 out hdis
      injection hr with hr; subst hr
      unfold Conn6.disconnect at hdis
      split at hdis
      · cases hdis
      · split at hdis
        · cases hdis
        · split at hdis
          · cases hdis
          · rename_i ps hsc
            injection hdis with hdis; injection hdis with e1 e2; subst e1 e2
            exact ⟨CK.ctl hsc, by intro t _ t' o h; cases h⟩

/-! ## deliveries -/

variable {tl : Bool}

theorem strip_chunks (p : Packet) : isChunks (strip p) = isChunks p := by
  cases p with
  | control a t c => cases c <;> rfl
  | _ => rfl

theorem wireRead_chunks {p q : Packet} {alt : Alt} {hint : Option Bool} (h : wireRead tl p alt hint = some q) :
    isChunks q = isChunks p := by
  unfold wireRead at h
  simp only at h
  have hs : isChunks (if tl = true then strip p else p) = isChunks p := by
    cases tl <;> simp [strip_chunks]
  generalize (if tl = true then strip p else p) = p' at h hs
  cases p' with
  | connless d => simp only at h; injection h with h; rw [← h]; exact hs
  | chunks ack tk rr n cs =>
    simp only at h
    split at h
    · injection h with h; rw [← h]; exact hs
    · cases h
  | control ack tk ctl =>
    cases ctl with
    | close r =>
      simp only at h
      split at h
      · injection h with h; rw [← h]; exact hs
      · cases alt with
        | exact => simp only at h; injection h with h; rw [← h]; exact hs
        | error => cases h
        | close tok' r' =>
          simp only at h; injection h with h; rw [← h, ← hs]; rfl
    | keepAlive => simp only at h; split at h; (injection h with h; rw [← h]; exact hs); cases h
    | connect => simp only at h; split at h; (injection h with h; rw [← h]; exact hs); cases h
    | connectAccept => simp only at h; split at h; (injection h with h; rw [← h]; exact hs); cases h
    | accept => simp only at h; split at h; (injection h with h; rw [← h]; exact hs); cases h

theorem feedBody_ck {env : Env} {c c1 : Conn} {token : Option Nat} {q : Packet} {out : Out}
    (hf : feedBody env c token q = .ok (c1, out)) :
    CK c1.state out.sent ∧ (∀ t, c.state = .pending t → ∀ t' o, c1.state = .online t' o → isChunks q = true) := by
  obtain ⟨st, snd⟩ := c
  have hnoop : ∀ (evs : List Event), feedBody env ⟨st, snd⟩ token q = .ok (⟨st, snd⟩, { events := evs }) →
      CK c1.state out.sent ∧ (∀ t, st = .pending t → ∀ t' o, c1.state = .online t' o → isChunks q = true) := by
    intro evs hk
    rw [hk] at hf
    injection hf with hf; injection hf with e1 e2; subst e1 e2
    exact ⟨CK.nil _, by intro t h t' o h'; rw [h] at h'; cases h'⟩
  cases q with
  | connless d => exact hnoop [.connless d] (by simp [feedBody])
  | chunks ack tk rr n cs =>
    refine ⟨?_, fun _ _ _ _ _ => rfl⟩
    have hrecv : ∀ (t : Option Nat) (o : Online),
        (match o.receive Conn6.cfg env.now snd rr cs with
          | .error e => .error e
          | .ok (o1, send1, fl, evs) =>
            match emit (fl.map (ofFlushed t)) with
            | .error e => .error e
            | .ok ps => .ok (⟨.online t o1, send1⟩, { sent := ps, events := evs })) = Except.ok (c1, out) →
        CK c1.state out.sent := by
      intro t o hk
      split at hk
      · cases hk
      · split at hk
        · cases hk
        · injection hk with hk; injection hk with e1 e2; subst e1 e2
          exact CK.on _
    cases st with
    | online t o => simp only [feedBody] at hf; exact hrecv t o hf
    | pending t => simp only [feedBody] at hf; exact hrecv t .new hf
    | unconnected => exact (hnoop [] (by simp [feedBody])).1
    | connecting => exact (hnoop [] (by simp [feedBody])).1
    | disconnected => exact (hnoop [] (by simp [feedBody])).1
  | control ack tk ctl =>
    cases ctl with
    | keepAlive => exact hnoop [] (by simp [feedBody])
    | accept => exact hnoop [] (by simp [feedBody])
    | close reason =>
      simp only [feedBody] at hf
      injection hf with hf; injection hf with e1 e2; subst e1 e2
      exact ⟨CK.nil _, by intro t _ t' o h; cases h⟩
    | connect =>
      cases st with
      | unconnected =>
        simp only [feedBody] at hf
        cases token with
        | none => simp only at hf; exact ⟨(tickAction_ck hf).1, by simp⟩
        | some t0 =>
          simp only at hf
          split at hf
          · split at hf
            · cases hf
            · exact ⟨(tickAction_ck hf).1, by simp⟩
          · injection hf with hf; injection hf with e1 e2; subst e1 e2
            exact ⟨CK.nil _, by simp⟩
      | online t o => exact hnoop [] (by simp [feedBody])
      | pending t => exact hnoop [] (by simp [feedBody])
      | connecting => exact hnoop [] (by simp [feedBody])
      | disconnected => exact hnoop [] (by simp [feedBody])
    | connectAccept =>
      cases st with
      | connecting =>
        simp only [feedBody] at hf
        split at hf
        · cases hf
        · injection hf with hf; injection hf with e1 e2; subst e1 e2
          exact ⟨CK.on _, by simp⟩
      | online t o => exact hnoop [] (by simp [feedBody])
      | pending t => exact hnoop [] (by simp [feedBody])
      | unconnected => exact hnoop [] (by simp [feedBody])
      | disconnected => exact hnoop [] (by simp [feedBody])

theorem ck_recv6 (now : Nat) (draws : List Nat) (c : Conn) (p : Packet) (alt : Alt) (r : Ret Conn Packet)
    (hr : P6.recv tl now draws c p alt = .ok r) :
    CK r.conn.state r.sent ∧
      (∀ t, c.state = .pending t → ∀ t' o, r.conn.state = .online t' o → isChunks p = true) := by
  unfold P6.recv at hr
  split at hr
  · cases hr
  · rename_i c1 out hf
    injection hr with hr; subst hr
    simp only
    have hquiet : ∀ (o : Out), o.sent = [] → (Except.ok (c, o) : Res) = Except.ok (c1, out) →
        CK c1.state out.sent ∧ (∀ t, c.state = .pending t → ∀ t' o, c1.state = .online t' o → isChunks p = true) := by
      intro o ho hk
      injection hk with hk; injection hk with e1 e2; subst e1 e2
      exact ⟨by rw [ho]; exact CK.nil _, by intro t h t' o' h'; rw [h] at h'; cases h'⟩
    unfold feed at hf
    cases hq : wireRead tl p alt c.hint with
    | none => simp only [hq] at hf; exact hquiet _ rfl hf
    | some q =>
      have hk := wireRead_chunks hq
      simp only [hq] at hf
      cases hta : q.tokenAck? with
      | none =>
        simp only [hta] at hf
        rw [← hk]; exact feedBody_ck hf
      | some ta =>
        obtain ⟨token, ack⟩ := ta
        simp only [hta] at hf
        split at hf
        · exact hquiet _ rfl hf
        · rw [← hk]
          cases hst : c.state with
          | online t o =>
            simp only [hst] at hf
            split at hf
            · cases hf
            · exact ⟨(feedBody_ck hf).1, by intro t h; cases h⟩
          | unconnected => simp only [hst] at hf; rw [← hst]; exact feedBody_ck hf
          | connecting => simp only [hst] at hf; rw [← hst]; exact feedBody_ck hf
          | pending t => simp only [hst] at hf; rw [← hst]; exact feedBody_ck hf
          | disconnected => simp only [hst] at hf; rw [← hst]; exact feedBody_ck hf

/-! ## the world invariant -/

def hasChunks (e : End (Pr tl)) : Prop := ∃ dg ∈ e.out, isChunks dg.pkt = true

theorem hasChunks_book (e : End (Pr tl)) (r : Ret Conn Packet) (sub : List (Bytes × Bool)) :
    hasChunks (e.book r sub) ↔ hasChunks e ∨ ∃ p ∈ r.sent, isChunks p = true := by
  simp only [hasChunks, End.book, List.mem_append, List.mem_map]
  constructor
  · rintro ⟨dg, hdg | ⟨p, hp, rfl⟩, h⟩
    · exact Or.inl ⟨dg, hdg, h⟩
    · exact Or.inr ⟨p, hp, h⟩
  · rintro (⟨dg, hdg, h⟩ | ⟨p, hp, h⟩)
    · exact ⟨dg, Or.inl hdg, h⟩
    · exact ⟨_, Or.inr ⟨p, hp, rfl⟩, h⟩

structure K (tl : Bool) (e peer : End (Pr tl)) : Prop where
  early : hasChunks e → (∃ t o, e.conn.state = .online t o) ∨ e.conn.state = .disconnected
  acc : ∀ t o, e.conn.state = .online t o → ¬ hasConnect e → hasChunks peer

theorem K.peer_mono {e peer peer' : End (Pr tl)} (h : K tl e peer) (hout : ∀ dg ∈ peer.out, dg ∈ peer'.out) :
    K tl e peer' :=
  ⟨h.early, fun t o hs hc => by obtain ⟨dg, hdg, hk⟩ := h.acc t o hs hc; exact ⟨dg, hout dg hdg, hk⟩⟩

theorem K.act {e peer : End (Pr tl)} (hg : G tl e peer) (h : K tl e peer) {r : Ret Conn Packet} {rx : Option Packet}
    (tr : Trans e.conn.state r.conn.state r.sent rx) (ck : CK r.conn.state r.sent)
    (hp : ∀ t, e.conn.state = .pending t → ∀ t' o, r.conn.state = .online t' o → hasChunks peer)
    (sub : List (Bytes × Bool)) : K tl (e.book r sub) peer := by
  have hst' : (e.book r sub).conn.state = r.conn.state := rfl
  refine ⟨?_, ?_⟩
  · intro hc
    rw [hst']
    rcases (hasChunks_book e r sub).1 hc with hce | ⟨p, hps, hpc⟩
    · have hold := h.early hce
      cases hs : r.conn.state with
      | online t o => exact Or.inl ⟨t, o, rfl⟩
      | disconnected => exact Or.inr rfl
      | connecting =>
        rcases tr.t3 hs with h1 | ⟨h1, _⟩ <;> rcases hold with ⟨t, o, h2⟩ | h2 <;> rw [h1] at h2 <;> cases h2
      | pending t =>
        rcases tr.t4 t hs with h1 | ⟨h1, _⟩ <;> rcases hold with ⟨t, o, h2⟩ | h2 <;> rw [h1] at h2 <;> cases h2
      | unconnected =>
        have h1 := tr.t6 hs
        rcases hold with ⟨t, o, h2⟩ | h2 <;> rw [h1] at h2 <;> cases h2
    · rcases ck with hon | hno
      · exact Or.inl hon
      · rw [hno p hps] at hpc; cases hpc
  · intro t o hs hnc
    rw [hst'] at hs
    have hnc0 : ¬ hasConnect e := fun hc => hnc ((hasConnect_book e r sub).2 (Or.inl hc))
    rcases tr.t5 t o hs with ⟨o0, h0⟩ | h0 | ⟨h0, _⟩
    · exact h.acc t o0 h0 hnc0
    · exact hp t h0 t o hs
    · exact absurd (hg.cng h0).1 hnc0

def K6 (tl : Bool) (w : World (Pr tl)) : Prop := Agree6 tl w ∧ K tl w.a w.b ∧ K tl w.b w.a

theorem k6_init (tl : Bool) : K6 tl (World.init (Pr tl)) := by
  refine ⟨agree6_init tl, ⟨?_, ?_⟩, ⟨?_, ?_⟩⟩
  · rintro ⟨dg, hdg, _⟩; simp [World.init] at hdg
  · intro t o h; cases h
  · rintro ⟨dg, hdg, _⟩; simp [World.init] at hdg
  · intro t o h; cases h

theorem k6_step {w w' : World (Pr tl)} (h : K6 tl w) (m : Move (Pr tl)) (he : step w m = some w') :
    K6 tl w' := by
  refine ⟨agree6_step h.1 m he, ?_⟩
  cases m with
  | advance dt =>
    simp only [step] at he
    injection he with he; subst he; exact h.2
  | call s draws c =>
    simp only [step] at he
    cases hr : (Pr tl).call w.now draws (w.get s).conn c with
    | error e => rw [hr] at he; cases he
    | ok r =>
      rw [hr] at he
      injection he with he
      subst he
      have tr := trans_call6 w.now draws (w.get s).conn c r hr
      obtain ⟨ck, hpd⟩ := ck_call6 w.now draws (w.get s).conn c r hr
      cases s with
      | a =>
        exact ⟨h.2.1.act h.1.1 tr ck (fun t ht t' o ho => absurd ho (hpd t ht t' o)) _,
          h.2.2.peer_mono (book_out_mono _ _ _)⟩
      | b =>
        exact ⟨h.2.1.peer_mono (book_out_mono _ _ _),
          h.2.2.act h.1.2 tr ck (fun t ht t' o ho => absurd ho (hpd t ht t' o)) _⟩
  | deliver to i draws alt =>
    simp only [step] at he
    cases hdg : (w.get to.other).out[i]? with
    | none => rw [hdg] at he; cases he
    | some dg =>
      rw [hdg] at he
      simp only at he
      cases hr : (Pr tl).recv w.now draws (w.get to).conn dg.pkt alt with
      | error e => rw [hr] at he; cases he
      | ok r =>
        rw [hr] at he
        injection he with he
        subst he
        have hm := List.mem_of_getElem? hdg
        obtain ⟨rx, tr, _⟩ := trans_recv6 w.now draws (w.get to).conn dg.pkt alt r hr
        obtain ⟨ck, hpd⟩ := ck_recv6 w.now draws (w.get to).conn dg.pkt alt r hr
        have hp : ∀ t, (w.get to).conn.state = .pending t → ∀ t' o, r.conn.state = .online t' o →
            hasChunks (w.get to.other) := fun t ht t' o ho => ⟨dg, hm, hpd t ht t' o ho⟩
        cases to with
        | a => exact ⟨h.2.1.act h.1.1 tr ck hp _, h.2.2.peer_mono (book_out_mono _ _ _)⟩
        | b => exact ⟨h.2.1.peer_mono (book_out_mono _ _ _), h.2.2.act h.1.2 tr ck hp _⟩

theorem k6_run : ∀ (ms : List (Move (Pr tl))) (w w' : World (Pr tl)), K6 tl w → NetSim.run w ms = some w' →
    K6 tl w' := by
  intro ms
  induction ms with
  | nil => intro w w' h he; simp [NetSim.run] at he; subst he; exact h
  | cons m ms ih =>
    intro w w' h he
    simp only [NetSim.run] at he
    cases hst : step w m with
    | none => rw [hst] at he; cases he
    | some w1 => rw [hst] at he; exact ih w1 w' (k6_step h m hst) he

/-- **no acceptor is online while its peer is still connecting (0.6)**: in every reachable world, if
one side is connecting, the other side (which has not itself called `connect`) is not online — a
0.6 acceptor goes online with the first chunk packet, and a connecting side has not sent one -/
theorem no_online_acceptor_while_connecting6 (tl : Bool) (sched : List (Move (proto6 tl))) (w : World (proto6 tl))
    (hrun : NetSim.run (World.init (proto6 tl)) sched = some w) (s : Side)
    (h1 : (w.get s).conn.state = .connecting) (h2 : ¬ hasConnect (w.get s.other)) (t : Option Nat) (o : Online) :
    (w.get s.other).conn.state ≠ .online t o := by
  intro h3
  have hk := k6_run sched _ w (k6_init tl) hrun
  have key : ∀ e peer : End (Pr tl), K tl e peer → K tl peer e → e.conn.state = .connecting →
      ¬ hasConnect peer → peer.conn.state = .online t o → False := by
    intro e peer k1 k2 hc hnc hon
    rcases k1.early (k2.acc t o hon hnc) with ⟨t', o', h⟩ | h <;> rw [hc] at h <;> cases h
  cases s with
  | a => exact key _ _ hk.2.1 hk.2.2 h1 h2 h3
  | b => exact key _ _ hk.2.2 hk.2.1 h1 h2 h3

end Tw.NetSim.P6
