import Tw.Model.NetRef

/-! Lemmas about the peer table as a vector (`lookup`, `update`, `remove` = swap-remove, `slot`),
all by membership: under `PInv` an entry is determined by its key and by its address. -/
namespace Tw.Net
open Tw.Conn

/-! ### lookup / slot by membership -/

theorem lookup_mem {ps : Peers} {pid : Nat} {p : Peer} (h : lookup ps pid = some p) : (pid, p) ∈ ps := by
  induction ps with
  | nil => simp [lookup] at h
  | cons e es ih =>
    simp only [lookup] at h
    split at h
    · rename_i he; cases e; simp_all
    · exact List.mem_cons_of_mem _ (ih h)

theorem lookup_none_iff {ps : Peers} {pid : Nat} : lookup ps pid = none ↔ ∀ e ∈ ps, e.1 ≠ pid := by
  induction ps with
  | nil => simp [lookup]
  | cons e es ih =>
    simp only [lookup]
    split <;> simp_all

theorem mem_lookup {ps : Peers} {pid : Nat} {p : Peer} (hn : (pids ps).Nodup) (h : (pid, p) ∈ ps) :
    lookup ps pid = some p := by
  induction ps with
  | nil => simp at h
  | cons e es ih =>
    simp only [pids, List.map_cons, List.nodup_cons] at hn
    simp only [lookup]
    rcases List.mem_cons.1 h with h | h
    · subst h; simp
    · split
      · rename_i he
        exact absurd (List.mem_map.2 ⟨(pid, p), h, he.symm⟩) hn.1
      · exact ih hn.2 h

theorem slot_mem {ps : Peers} {a : Nat} {e : Nat × Peer} (h : slot ps a = some e) : e ∈ ps ∧ e.2.addr = a := by
  induction ps with
  | nil => simp [slot] at h
  | cons x xs ih =>
    simp only [slot] at h
    split at h
    · simp_all
    · exact ⟨List.mem_cons_of_mem _ (ih h).1, (ih h).2⟩

theorem slot_none_iff {ps : Peers} {a : Nat} : slot ps a = none ↔ ∀ e ∈ ps, e.2.addr ≠ a := by
  induction ps with
  | nil => simp [slot]
  | cons e es ih =>
    simp only [slot]
    split <;> simp_all

theorem mem_slot {ps : Peers} {a : Nat} {e : Nat × Peer} (hn : (addrs ps).Nodup) (h : e ∈ ps)
    (ha : e.2.addr = a) : slot ps a = some e := by
  induction ps with
  | nil => simp at h
  | cons x xs ih =>
    simp only [addrs, List.map_cons, List.nodup_cons] at hn
    simp only [slot]
    rcases List.mem_cons.1 h with h | h
    · subst h; simp [ha]
    · split
      · rename_i hx
        exact absurd (List.mem_map.2 ⟨e, h, by simp [hx, ha]⟩) hn.1
      · exact ih hn.2 h

theorem pidFromAddr_eq (ps : Peers) (a : Nat) : pidFromAddr ps a = (slot ps a).map (·.1) := by
  induction ps with
  | nil => rfl
  | cons e es ih => simp only [pidFromAddr, slot]; split <;> simp_all

/-- a list whose image under `f` has no duplicates: `f` is injective on it -/
theorem inj_of_nodup_map {α β : Type} {f : α → β} {l : List α} (hn : (l.map f).Nodup) {x y : α}
    (hx : x ∈ l) (hy : y ∈ l) (h : f x = f y) : x = y := by
  induction l with
  | nil => simp at hx
  | cons z zs ih =>
    simp only [List.map_cons, List.nodup_cons] at hn
    rcases List.mem_cons.1 hx with hxz | hx
    · rcases List.mem_cons.1 hy with hyz | hy
      · rw [hxz, hyz]
      · exact absurd (List.mem_map.2 ⟨y, hy, by rw [← h, hxz]⟩) hn.1
    · rcases List.mem_cons.1 hy with hyz | hy
      · exact absurd (List.mem_map.2 ⟨x, hx, by rw [h, hyz]⟩) hn.1
      · exact ih hn.2 hx hy

/-- two entries with the same key are the same entry -/
theorem pid_inj {ps : Peers} (hn : (pids ps).Nodup) {x y : Nat × Peer} (hx : x ∈ ps) (hy : y ∈ ps)
    (h : x.1 = y.1) : x = y := inj_of_nodup_map hn hx hy h

/-- two entries with the same address are the same entry -/
theorem addr_inj {ps : Peers} (hn : (addrs ps).Nodup) {x y : Nat × Peer} (hx : x ∈ ps) (hy : y ∈ ps)
    (h : x.2.addr = y.2.addr) : x = y := inj_of_nodup_map hn hx hy h

/-- under the invariant, the peer found by address is the peer found by its id -/
theorem slot_lookup {ps : Peers} (hi : PInv ps) {a pid : Nat} {p : Peer} (h : slot ps a = some (pid, p)) :
    lookup ps pid = some p := mem_lookup hi.pid (slot_mem h).1

theorem lookup_slot {ps : Peers} (hi : PInv ps) {pid : Nat} {p : Peer} (h : lookup ps pid = some p) :
    slot ps p.addr = some (pid, p) := mem_slot hi.addr (lookup_mem h) rfl

/-- `slot` only depends on which entries with that address are present -/
theorem slot_congr {ps ps' : Peers} {a : Nat} (_hn : (addrs ps).Nodup) (hn' : (addrs ps').Nodup)
    (h : ∀ e : Nat × Peer, e.2.addr = a → (e ∈ ps' ↔ e ∈ ps)) : slot ps' a = slot ps a := by
  cases hs : slot ps a with
  | none =>
    rw [slot_none_iff] at hs ⊢
    intro e he hea
    exact hs e ((h e hea).1 he) hea
  | some e =>
    have := slot_mem hs
    exact mem_slot hn' ((h e this.2).2 this.1) this.2

theorem lookup_congr {ps ps' : Peers} {pid : Nat} (_hn : (pids ps).Nodup) (hn' : (pids ps').Nodup)
    (h : ∀ e : Nat × Peer, e.1 = pid → (e ∈ ps' ↔ e ∈ ps)) : lookup ps' pid = lookup ps pid := by
  cases hs : lookup ps pid with
  | none =>
    rw [lookup_none_iff] at hs ⊢
    intro e he hea
    exact hs e ((h e hea).1 he) hea
  | some p =>
    have := lookup_mem hs
    exact mem_lookup hn' ((h (pid, p) rfl).2 this)

/-! ### update -/

theorem pids_update (ps : Peers) (pid : Nat) (p : Peer) : pids (update ps pid p) = pids ps := by
  induction ps with
  | nil => rfl
  | cons e es ih =>
    simp only [update]
    split
    · simp [pids]
    · simp only [pids, List.map_cons] at ih ⊢; rw [ih]

theorem addrs_update {ps : Peers} {pid : Nat} {p p' : Peer} (h : lookup ps pid = some p)
    (ha : p'.addr = p.addr) : addrs (update ps pid p') = addrs ps := by
  induction ps with
  | nil => rfl
  | cons e es ih =>
    simp only [update, lookup] at h ⊢
    split
    · rename_i he; simp [he] at h; simp [addrs, ha, h]
    · rename_i he; simp [he] at h
      simp only [addrs, List.map_cons] at ih ⊢; rw [ih h]

theorem mem_update {ps : Peers} {pid : Nat} {p p' : Peer} (hn : (pids ps).Nodup)
    (h : lookup ps pid = some p) (x : Nat × Peer) :
    x ∈ update ps pid p' ↔ (x = (pid, p') ∨ (x ∈ ps ∧ x.1 ≠ pid)) := by
  induction ps with
  | nil => simp [lookup] at h
  | cons e es ih =>
    simp only [pids, List.map_cons, List.nodup_cons] at hn
    simp only [update, lookup] at h ⊢
    split
    · rename_i he
      have hes : ∀ y ∈ es, y.1 ≠ pid := by
        intro y hy hyp
        exact hn.1 (List.mem_map.2 ⟨y, hy, by simp [hyp, he]⟩)
      simp only [List.mem_cons]
      constructor
      · rintro (hx | hx)
        · left; simp [hx, he]
        · right; exact ⟨Or.inr hx, hes x hx⟩
      · rintro (hx | ⟨hx | hx, hne⟩)
        · left; simp [hx, he]
        · exact absurd (by simp [hx, he]) hne
        · right; exact hx
    · rename_i he
      simp [he] at h
      simp only [List.mem_cons, ih hn.2 h]
      constructor
      · rintro (hx | hx | ⟨hx, hne⟩)
        · right; exact ⟨Or.inl hx, by simp [hx, he]⟩
        · left; exact hx
        · right; exact ⟨Or.inr hx, hne⟩
      · rintro (hx | ⟨hx | hx, hne⟩)
        · right; left; exact hx
        · left; exact hx
        · right; right; exact ⟨hx, hne⟩

theorem pinv_update {ps : Peers} {pid : Nat} {p p' : Peer} (hi : PInv ps) (h : lookup ps pid = some p)
    (ha : p'.addr = p.addr) : PInv (update ps pid p') :=
  ⟨by rw [pids_update]; exact hi.pid, by rw [addrs_update h ha]; exact hi.addr⟩

theorem lookup_update_self {ps : Peers} {pid : Nat} {p p' : Peer} (hi : PInv ps)
    (h : lookup ps pid = some p) : lookup (update ps pid p') pid = some p' :=
  mem_lookup (by rw [pids_update]; exact hi.pid) ((mem_update hi.pid h _).2 (Or.inl rfl))

theorem slot_update {ps : Peers} {pid : Nat} {p p' : Peer} (hi : PInv ps) (h : lookup ps pid = some p)
    (ha : p'.addr = p.addr) (a : Nat) :
    slot (update ps pid p') a = if p.addr = a then some (pid, p') else slot ps a := by
  have hi' := pinv_update hi h ha
  split
  · rename_i hpa
    exact mem_slot hi'.addr ((mem_update hi.pid h _).2 (Or.inl rfl)) (by simp [ha, hpa])
  · rename_i hpa
    apply slot_congr hi.addr hi'.addr
    intro e hea
    rw [mem_update hi.pid h]
    constructor
    · rintro (he | he)
      · subst he; exact absurd (by simpa [ha] using hea) hpa
      · exact he.1
    · intro he
      right
      refine ⟨he, fun hep => hpa ?_⟩
      have := pid_inj hi.pid he (lookup_mem h) hep
      subst this; exact hea

/-! ### remove (`swap_remove` of the first match) -/

theorem swapRemove_concat {α : Type} (l₁ : List α) (x : α) (m : List α) (y : α) :
    swapRemove (l₁ ++ x :: (m ++ [y])) l₁.length = l₁ ++ y :: m := by
  have h1 : (l₁ ++ x :: (m ++ [y])).getLast? = some y := by
    have : l₁ ++ x :: (m ++ [y]) = (l₁ ++ x :: m) ++ [y] := by simp
    rw [this, List.getLast?_append]; simp
  simp only [swapRemove, h1]
  have h2 : (l₁ ++ x :: (m ++ [y])).set l₁.length y = (l₁ ++ y :: m) ++ [y] := by
    simp
  rw [h2, List.dropLast_concat]

theorem swapRemove_last {α : Type} (l₁ : List α) (x : α) :
    swapRemove (l₁ ++ [x]) l₁.length = l₁ := by
  have h1 : (l₁ ++ [x]).getLast? = some x := by simp
  simp only [swapRemove, h1]
  have h2 : (l₁ ++ [x]).set l₁.length x = l₁ ++ [x] := by simp
  rw [h2, List.dropLast_concat]

theorem swapRemove_perm {α : Type} (l₁ : List α) (x : α) (l₂ : List α) :
    (swapRemove (l₁ ++ x :: l₂) l₁.length).Perm (l₁ ++ l₂) := by
  rcases List.eq_nil_or_concat l₂ with rfl | ⟨m, y, rfl⟩
  · simp [swapRemove_last]
  · rw [List.concat_eq_append, swapRemove_concat]
    exact List.Perm.append_left _ (List.perm_append_singleton y m).symm

theorem indexOf_split {ps : Peers} {pid i : Nat} (h : indexOf ps pid = some i) :
    ∃ l₁ e l₂, ps = l₁ ++ e :: l₂ ∧ l₁.length = i ∧ e.1 = pid ∧ ∀ x ∈ l₁, x.1 ≠ pid := by
  induction ps generalizing i with
  | nil => simp [indexOf] at h
  | cons e es ih =>
    simp only [indexOf] at h
    split at h
    · rename_i he
      simp at h
      exact ⟨[], e, es, by simp, by simp [h], he, by simp⟩
    · rename_i he
      cases hj : indexOf es pid with
      | none => simp [hj] at h
      | some j =>
        simp [hj] at h
        obtain ⟨l₁, x, l₂, h1, h2, h3, h4⟩ := ih hj
        refine ⟨e :: l₁, x, l₂, by simp [h1], by simp [h2, h], h3, ?_⟩
        intro y hy
        rcases List.mem_cons.1 hy with rfl | hy
        · exact he
        · exact h4 y hy

theorem indexOf_none {ps : Peers} {pid : Nat} (h : lookup ps pid = none) : indexOf ps pid = none := by
  induction ps with
  | nil => rfl
  | cons e es ih =>
    simp only [lookup] at h
    split at h
    · simp at h
    · rename_i he; simp [indexOf, he, ih h]

theorem indexOf_some {ps : Peers} {pid : Nat} {p : Peer} (h : lookup ps pid = some p) :
    ∃ i, indexOf ps pid = some i := by
  induction ps with
  | nil => simp [lookup] at h
  | cons e es ih =>
    simp only [lookup] at h
    split at h
    · rename_i he; exact ⟨0, by simp [indexOf, he]⟩
    · rename_i he
      obtain ⟨i, hi⟩ := ih h
      exact ⟨i + 1, by simp [indexOf, he, hi]⟩

theorem remove_none {ps : Peers} {pid : Nat} (h : lookup ps pid = none) :
    remove ps pid = .error (.panic "invalid pid") := by
  simp [remove, indexOf_none h]

/-- removing a present key: the result has exactly the other entries, and the invariant is kept -/
theorem remove_some {ps : Peers} {pid : Nat} {p : Peer} (hi : PInv ps) (h : lookup ps pid = some p) :
    ∃ ps', remove ps pid = .ok ps' ∧ PInv ps' ∧ ∀ x, x ∈ ps' ↔ (x ∈ ps ∧ x.1 ≠ pid) := by
  obtain ⟨i, hidx⟩ := indexOf_some h
  obtain ⟨l₁, e, l₂, h1, h2, h3, h4⟩ := indexOf_split hidx
  subst h1 h2
  have hperm := swapRemove_perm l₁ e l₂
  refine ⟨swapRemove (l₁ ++ e :: l₂) l₁.length, by simp [remove, hidx], ?_, ?_⟩
  · constructor
    · have : (pids (l₁ ++ l₂)).Nodup := by
        have := hi.pid
        simp only [pids, List.map_append, List.map_cons] at this ⊢
        exact this.sublist (List.Sublist.append_left (List.sublist_cons_self _ _) _)
      exact ((hperm.map (fun x : Nat × Peer => x.1)).nodup_iff).2 this
    · have : (addrs (l₁ ++ l₂)).Nodup := by
        have := hi.addr
        simp only [addrs, List.map_append, List.map_cons] at this ⊢
        exact this.sublist (List.Sublist.append_left (List.sublist_cons_self _ _) _)
      exact ((hperm.map (fun x : Nat × Peer => x.2.addr)).nodup_iff).2 this
  · intro x
    rw [hperm.mem_iff]
    have hl₂ : ∀ y ∈ l₂, y.1 ≠ pid := by
      intro y hy hyp
      have hn := hi.pid
      simp only [pids, List.map_append, List.map_cons] at hn
      have := (List.nodup_append.1 hn).2.1
      simp only [List.nodup_cons] at this
      exact this.1 (List.mem_map.2 ⟨y, hy, by simp [hyp, h3]⟩)
    simp only [List.mem_append, List.mem_cons]
    constructor
    · rintro (hx | hx)
      · exact ⟨Or.inl hx, h4 x hx⟩
      · exact ⟨Or.inr (Or.inr hx), hl₂ x hx⟩
    · rintro ⟨hx | hx | hx, hne⟩
      · exact Or.inl hx
      · exact absurd (by simp [hx, h3]) hne
      · exact Or.inr hx

theorem lookup_remove_self {ps ps' : Peers} {pid : Nat}
    (hm : ∀ x, x ∈ ps' ↔ (x ∈ ps ∧ x.1 ≠ pid)) : lookup ps' pid = none :=
  lookup_none_iff.2 fun e he => ((hm e).1 he).2

theorem lookup_remove_other {ps ps' : Peers} {pid q : Nat} (hi : PInv ps) (hi' : PInv ps')
    (hm : ∀ x, x ∈ ps' ↔ (x ∈ ps ∧ x.1 ≠ pid)) (hq : q ≠ pid) : lookup ps' q = lookup ps q := by
  apply lookup_congr hi.pid hi'.pid
  intro e he
  rw [hm]
  exact ⟨fun h => h.1, fun h => ⟨h, by simpa [he] using hq⟩⟩

theorem slot_remove {ps ps' : Peers} {pid : Nat} {p : Peer} (hi : PInv ps) (hi' : PInv ps')
    (h : lookup ps pid = some p) (hm : ∀ x, x ∈ ps' ↔ (x ∈ ps ∧ x.1 ≠ pid)) (a : Nat) :
    slot ps' a = if p.addr = a then none else slot ps a := by
  split
  · rename_i hpa
    rw [slot_none_iff]
    intro e he hea
    have := (hm e).1 he
    have heq := addr_inj hi.addr this.1 (lookup_mem h) (by simp [hea, hpa])
    exact this.2 (by simp [heq])
  · rename_i hpa
    apply slot_congr hi.addr hi'.addr
    intro e hea
    rw [hm]
    refine ⟨fun h => h.1, fun he => ⟨he, fun hep => hpa ?_⟩⟩
    have := pid_inj hi.pid he (lookup_mem h) hep
    subst this; exact hea

/-! ### push -/

theorem lookup_append (ps qs : Peers) (pid : Nat) :
    lookup (ps ++ qs) pid = (lookup ps pid).or (lookup qs pid) := by
  induction ps with
  | nil => simp [lookup]
  | cons e es ih => simp only [List.cons_append, lookup]; split <;> simp_all

theorem slot_append (ps qs : Peers) (a : Nat) : slot (ps ++ qs) a = (slot ps a).or (slot qs a) := by
  induction ps with
  | nil => simp [slot]
  | cons e es ih => simp only [List.cons_append, slot]; split <;> simp_all

theorem pinv_push {ps : Peers} {pid : Nat} {p : Peer} (hi : PInv ps) (hp : lookup ps pid = none)
    (ha : slot ps p.addr = none) : PInv (ps ++ [(pid, p)]) := by
  constructor
  · simp only [pids, List.map_append, List.map_cons, List.map_nil]
    rw [List.nodup_append]
    refine ⟨hi.pid, by simp, ?_⟩
    intro x hx y hy
    simp only [List.mem_singleton] at hy
    subst hy
    rcases List.mem_map.1 hx with ⟨e, he, rfl⟩
    exact (lookup_none_iff.1 hp) e he
  · simp only [addrs, List.map_append, List.map_cons, List.map_nil]
    rw [List.nodup_append]
    refine ⟨hi.addr, by simp, ?_⟩
    intro x hx y hy
    simp only [List.mem_singleton] at hy
    subst hy
    rcases List.mem_map.1 hx with ⟨e, he, rfl⟩
    exact (slot_none_iff.1 ha) e he

theorem update_append_fresh {ps : Peers} {pid : Nat} {p p' : Peer} (hp : lookup ps pid = none) :
    update (ps ++ [(pid, p)]) pid p' = ps ++ [(pid, p')] := by
  induction ps with
  | nil => simp [update]
  | cons e es ih =>
    simp only [lookup] at hp
    split at hp
    · simp at hp
    · rename_i he
      simp only [List.cons_append, update, he, if_false, ih hp]

end Tw.Net
