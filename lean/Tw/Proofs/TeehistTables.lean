import Tw.Proofs.TeehistSums

/-! C17: the tables the reader exposes after the last call (`player_pos`, `input`) hold the exact
running sums of the recorded differences, reduced modulo 2^32. -/
namespace Tw.Teehistorian
open Tw.Teehistorian.Spec

/-- The accessor tables hold the exact sums reduced modulo 2^32. -/
def InvA (a : Access) (S : Sums) : Prop :=
  (∀ c, a.playerPos c = (S.pos c).map wrapPos) ∧
  (∀ c, a.input c = (S.inp c).map (fun v => v.map wrap32))

theorem invA_of_invS {rd : Reader} {S : Sums} (h : InvS rd S) : InvA rd.access S := h

theorem post_finish_eq {rd rd' : Reader} (h : rd.post .finish = .finished rd') : rd' = rd := by
  simp [Reader.post, FItem.cid] at h
  exact h.symm

theorem interp_tables (cfg : Cfg) : ∀ (rs : List Rec) (t : Tail) (rd : Reader) (S : Sums),
    (∀ r ∈ rs, RecWf r ∧ ItemInRange r.item) → InvS rd S →
    (interp cfg rd rs t).final = .finished →
    InvA (interp cfg rd rs t).access (sumsAfter S (rs.map Rec.item)) := by
  intro rs
  induction rs with
  | nil =>
    intro t rd S _ _ hfin
    exfalso
    unfold interp at hfin
    cases t <;> simp at hfin <;> (split at hfin <;> simp at hfin)
  | cons r rs ih =>
    intro t rd S hwf hI hfin
    obtain ⟨hr, hrg⟩ := hwf r (List.mem_cons_self ..)
    have hwf' : ∀ r' ∈ rs, RecWf r' ∧ ItemInRange r'.item := fun r' h => hwf r' (List.mem_cons_of_mem _ h)
    unfold interp at hfin ⊢
    cases hp : preAll 4 rd r.kind with
    | mk its pe =>
      rw [hp] at hfin
      cases pe with
      | stuck => simp at hfin
      | err e rd2 => simp at hfin
      | ready rd2 =>
        simp only at hfin ⊢
        obtain ⟨ht1, ht2⟩ := preAll_tables 4 rd rd2 r.kind its hp
        have hI2 : InvS rd2 S := invS_of_tables hI ht1 ht2
        have hcls := recwf_class hr
        simp only [List.map_cons]
        cases hm : msgKind r.item with
        | finish =>
          rw [hm] at hcls
          rw [hcls.2] at hfin ⊢
          cases hpost : rd2.post .finish with
          | item out rd3 => obtain ⟨rd', h'⟩ := post_finish rd2; rw [h'] at hpost; simp at hpost
          | err e rd3 => rw [hpost] at hfin; simp at hfin
          | finished rd3 =>
            simp only [sumsAfter]
            rw [post_finish_eq hpost]
            exact invA_of_invS hI2
        | tickSkip dt =>
          rw [hm] at hcls
          obtain ⟨_, _, hi⟩ := hcls
          rw [hi] at hfin ⊢
          have hs : sumsAfter S (FItem.tickSkip dt :: rs.map Rec.item) = sumsAfter S (rs.map Rec.item) := rfl
          rw [hs]
          cases hpost : rd2.post (.tickSkip dt) with
          | finished rd3 =>
            exfalso
            rw [post_tickSkip] at hpost
            split at hpost
            · simp at hpost
            · split at hpost <;> simp at hpost
          | err e rd3 => rw [hpost] at hfin; simp at hfin
          | item out rd3 =>
            rw [hpost] at hfin
            simp only at hfin ⊢
            obtain ⟨_, hp3, hi3⟩ := post_tickSkip_tables hpost
            exact ih t rd3 S hwf' (invS_of_tables hI2 hp3 hi3) hfin
        | player c =>
          rw [hm] at hcls
          obtain ⟨_, _, _, hnts, hnf⟩ := hcls
          have hs : sumsAfter S (r.item :: rs.map Rec.item) = sumsAfter (S.step r.item) (rs.map Rec.item) := by
            cases hi : r.item <;> rw [hi] at hm <;> simp [msgKind] at hm <;> rfl
          rw [hs]
          cases hpost : rd2.post r.item with
          | finished rd3 =>
            exfalso
            unfold Reader.post at hpost
            cases hi : r.item <;> rw [hi] at hpost hm <;> simp [msgKind] at hm <;>
              (simp only [FItem.cid] at hpost; repeat' split at hpost) <;> simp at hpost
          | err e rd3 => rw [hpost] at hfin; simp at hfin
          | item out rd3 =>
            rw [hpost] at hfin
            simp only at hfin ⊢
            obtain ⟨_, hI3⟩ := post_sums hI2 hrg hnts hpost
            exact ih t rd3 _ hwf' hI3 hfin
        | other =>
          rw [hm] at hcls
          obtain ⟨_, _, _, hnts, hnf⟩ := hcls
          have hs : sumsAfter S (r.item :: rs.map Rec.item) = sumsAfter (S.step r.item) (rs.map Rec.item) := by
            cases hi : r.item <;> rw [hi] at hm <;> simp [msgKind] at hm <;> rfl
          rw [hs]
          cases hpost : rd2.post r.item with
          | finished rd3 =>
            exfalso
            unfold Reader.post at hpost
            cases hi : r.item <;> rw [hi] at hpost hm <;> simp [msgKind] at hm <;>
              (simp only [FItem.cid] at hpost; repeat' split at hpost) <;> simp at hpost
          | err e rd3 => rw [hpost] at hfin; simp at hfin
          | item out rd3 =>
            rw [hpost] at hfin
            simp only at hfin ⊢
            obtain ⟨_, hI3⟩ := post_sums hI2 hrg hnts hpost
            exact ih t rd3 _ hwf' hI3 hfin

end Tw.Teehistorian
