import Tw.Model.Packet6
import Tw.Model.Packet7
import Tw.Proofs.HuffmanDec

/-! The decoder-parametrised reader functions agree with the model's (`rfl`), and evaluating them with the
fast Huffman decoder — what the drivers `Tw/Drv/Packet6.lean`, `Packet7.lean` do — gives the model's result. -/

namespace Tw.Packet6
theorem decompressWith_decompress (t : Huffman.Table) (packet : List UInt8) (cap : Nat) :
    decompressWith (Huffman.decompress t) packet cap = decompress t packet cap := rfl
theorem decompressIfNeededWith_decompress (t : Huffman.Table) (packet : List UInt8) (cap : Nat) :
    decompressIfNeededWith (Huffman.decompress t) packet cap = decompressIfNeeded t packet cap := rfl
theorem readWith_decompress (t : Huffman.Table) (bytes : List UInt8) (hint : Option Bool) (buffer : Option Nat) :
    readWith (Huffman.decompress t) bytes hint buffer = read t bytes hint buffer := rfl
theorem fast_eq (t : Huffman.Table) : Huffman.decompressFast t = Huffman.decompress t := by
  funext input cap; exact Huffman.decompressFast_eq t input cap
theorem readWith_fast (t : Huffman.Table) (bytes : List UInt8) (hint : Option Bool) (buffer : Option Nat) :
    readWith (Huffman.decompressFast t) bytes hint buffer = read t bytes hint buffer := by
  rw [fast_eq]; rfl
theorem decompressIfNeededWith_fast (t : Huffman.Table) (packet : List UInt8) (cap : Nat) :
    decompressIfNeededWith (Huffman.decompressFast t) packet cap = decompressIfNeeded t packet cap := by
  rw [fast_eq]; rfl
end Tw.Packet6
namespace Tw.Packet7
theorem fast_eq (t : Huffman.Table) : Huffman.decompressFast t = Huffman.decompress t := by
  funext input cap; exact Huffman.decompressFast_eq t input cap
theorem readWith_fast (t : Huffman.Table) (bytes : List UInt8) (buffer : Option Nat) :
    readWith (Huffman.decompressFast t) bytes buffer = read t bytes buffer := by
  rw [fast_eq]; rfl
theorem decompressIfNeededWith_fast (t : Huffman.Table) (packet : List UInt8) (cap : Nat) :
    decompressIfNeededWith (Huffman.decompressFast t) packet cap = decompressIfNeeded t packet cap := by
  rw [fast_eq]; rfl
end Tw.Packet7
