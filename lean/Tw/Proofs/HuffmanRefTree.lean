import Tw.Proofs.HuffmanFreqLeaf
import Tw.Model.HuffmanRefTree

/-! The C++ reference's `ConstructTree` (`int` frequencies) against `Huffman::from_frequencies`
(`u32`, `saturating_add`): the same tree whenever the C++ arithmetic cannot overflow
(`Σ f + 1 < 2^31`), different trees for the D16b witness (an entry ≥ 2^31). -/
namespace Tw.Huffman

/-! ### the merge loop: the `int` version simulates the `u32` version below 2^31 -/

def toFI (x : Freq) : FreqI := ⟨(x.frequency : Int), x.nodeIdx⟩

theorem insertDescI_map (x : Freq) (l : List Freq) :
    insertDescI (toFI x) (l.map toFI) = (insertDesc x l).map toFI := by
  induction l with
  | nil => rfl
  | cons y ys ih =>
    simp only [List.map_cons, insertDescI, insertDesc, toFI, ge_iff_le, Int.ofNat_le]
    split
    · simp only [List.map_cons, toFI]; congr 1
    · rfl

theorem foldl_insertI_map (l : List Freq) : ∀ acc : List Freq,
    (l.map toFI).foldl (fun acc x => insertDescI x acc) (acc.map toFI)
      = (l.foldl (fun acc x => insertDesc x acc) acc).map toFI := by
  induction l with
  | nil => intro acc; rfl
  | cons x l ih =>
    intro acc
    simp only [List.map_cons, List.foldl_cons, insertDescI_map]
    exact ih _

theorem sortDescI_map (l : List Freq) : sortDescI (l.map toFI) = (sortDesc l).map toFI := by
  have := foldl_insertI_map l []
  simpa [sortDescI, sortDesc] using this

def freqSum (l : List Freq) : Nat := (l.map (·.frequency)).sum

theorem addI32_small (a b : Nat) (h : a + b < 2147483648) : addI32 (a : Int) (b : Int) = ((a + b : Nat) : Int) := by
  have h1 : ((a : Int) + (b : Int)) % 4294967296 = ((a + b : Nat) : Int) := by
    rw [← Int.natCast_add]
    exact Int.emod_eq_of_lt (Int.natCast_nonneg _) (by omega)
  simp only [addI32, h1, Int.toNat_natCast, toI32]
  have h2 : (a + b) % 4294967296 = a + b := Nat.mod_eq_of_lt (by omega)
  rw [h2, if_pos h]

theorem buildTreeI_map (fuel : Nat) : ∀ (fs : List Freq) (nodes : Table),
    freqSum fs < 2147483648 → buildTreeI fuel (fs.map toFI) nodes = buildTree fuel fs nodes := by
  induction fuel with
  | zero => intro fs nodes _; rfl
  | succ f ih =>
    intro fs nodes hsum
    simp only [freqSum] at hsum
    rw [buildTreeI, buildTree]
    simp only [List.length_map]
    split
    · rfl
    · rw [sortDescI_map, ← List.map_reverse]
      have hperm := sortDesc_perm fs
      have hs : freqSum (sortDesc fs).reverse = freqSum fs := by
        simp only [freqSum]
        rw [List.map_reverse, List.sum_reverse]
        exact (hperm.map (·.frequency)).sum_nat
      revert hs
      generalize (sortDesc fs).reverse = L
      intro hs
      match L, hs with
      | [], _ => rfl
      | [_], _ => rfl
      | f1 :: f2 :: rest, hs =>
        simp only [List.map_cons, freqSum, List.sum_cons] at hs ⊢
        have hrest : (rest.map (·.frequency)).sum = freqSum rest := rfl
        have h12 : f1.frequency + f2.frequency < 2147483648 := by omega
        have hu : ¬ f1.frequency + f2.frequency > U32_MAX := by simp only [U32_MAX]; omega
        simp only [toFI, addI32_small _ _ h12, hu, if_false]
        have := ih (rest.reverse ++ [⟨f1.frequency + f2.frequency, nodes.size⟩])
          (nodes.push (f1.nodeIdx, f2.nodeIdx)) (by
            simp only [freqSum, List.map_append, List.map_reverse, List.sum_append, List.sum_reverse,
              List.map_cons, List.map_nil, List.sum_cons, List.sum_nil]
            omega)
        simp only [List.map_append, List.map_reverse, List.map_cons, List.map_nil, toFI] at this
        exact this

theorem toI32_small (x : Nat) (h : x < 2147483648) : toI32 x = (x : Int) := by
  have : x % 4294967296 = x := Nat.mod_eq_of_lt (by omega)
  simp only [toI32, this, if_pos h]

/-! ### `Setbits_r` writes root paths -/

theorem getD_set_ne (T : Array (Nat × Nat)) (j i : Nat) (v dflt : Nat × Nat) (h : j ≠ i) :
    (T.set! j v).getD i dflt = T.getD i dflt := by
  simp only [Array.set!_eq_setIfInBounds, Array.getD_eq_getD_getElem?,
    Array.getElem?_setIfInBounds_ne h]

theorem getD_set_eq (T : Array (Nat × Nat)) (n : Nat) (v dflt : Nat × Nat) (h : n < T.size) :
    (T.set! n v).getD n dflt = v := by
  simp [Array.set!_eq_setIfInBounds, Array.getD_eq_getD_getElem?, h]

/-- the `(m_Bits, m_NumBits)` of symbol `s` is the code of a path from the root to `s` -/
def ValidC (N : Table) (C : Array (Nat × Nat)) (s : Nat) : Prop :=
  ∃ k b, C.getD s (0, 0) = (b, k) ∧ b < 2 ^ k ∧ go N ROOT_IDX (natBits k b) = some s

theorem refSetbits_props (N : Table) (hsize : N.size = 513) (hin : InnerBelow N) (g : Nat) :
    ∀ (C : Array (Nat × Nat)) (n bits d : Nat), n < g → n < 513 → C.size = 257 →
      PathTo N n bits d →
      (refSetbits N g C n bits d).size = 257
        ∧ (∀ s, ValidC N C s → ValidC N (refSetbits N g C n bits d) s)
        ∧ (∀ s, s < NUM_SYMBOLS → Reach N n s → ValidC N (refSetbits N g C n bits d) s) := by
  induction g with
  | zero => intro C n bits d h; omega
  | succ g ih =>
    intro C n bits d hng hn hC hpath
    simp only [refSetbits]
    by_cases hleaf : n < NUM_SYMBOLS
    · simp only [hleaf, if_true]
      have hnC : n < C.size := by rw [hC]; simp only [NUM_SYMBOLS] at hleaf; exact hleaf
      have hnew : ValidC N (C.set! n (bits, d)) n :=
        ⟨d, bits, getD_set_eq C n _ _ hnC, hpath.1, hpath.2⟩
      refine ⟨by rw [Array.set!_eq_setIfInBounds, Array.size_setIfInBounds]; exact hC, ?_, ?_⟩
      · intro s hv
        by_cases hs : s = n
        · subst hs; exact hnew
        · obtain ⟨k, b, v1, v2⟩ := hv
          exact ⟨k, b, by rw [getD_set_ne _ _ _ _ _ (Ne.symm hs)]; exact v1, v2⟩
      · intro s _ hr
        cases hr with
        | refl => exact hnew
        | left _ _ hn' _ => omega
        | right _ _ hn' _ => omega
    · simp only [hleaf, if_false]
      have hge : n ≥ NUM_SYMBOLS := by omega
      have hch := hin n hge (by rw [hsize]; exact hn)
      obtain ⟨a1, a2, a3⟩ := ih C (node N n).2 (bits + 2 ^ d) (d + 1) (by omega) (by omega) hC
        (pathTo_right N n bits d hpath hge)
      obtain ⟨b1, b2, b3⟩ := ih _ (node N n).1 bits (d + 1) (by omega) (by omega) a1
        (pathTo_left N n bits d hpath hge)
      refine ⟨b1, fun s hv => b2 s (a2 s hv), ?_⟩
      intro s hs hr
      cases hr with
      | refl => omega
      | left _ _ _ hl => exact b3 s hs hl
      | right _ _ _ hrr => exact b2 s (a3 s hs hrr)

/-! ### the reference's tree is the Rust's tree when the `int` arithmetic cannot overflow -/

theorem zipIdx_toI32 (f : List Nat) (hf : ∀ x ∈ f, x < 2147483648) : ∀ n : Nat,
    (f.zipIdx n).map (fun (p : Nat × Nat) => (⟨toI32 p.1, p.2⟩ : FreqI))
      = ((f.zipIdx n).map fun (p : Nat × Nat) => (⟨p.1, p.2⟩ : Freq)).map toFI := by
  induction f with
  | nil => intro n; rfl
  | cons x xs ih =>
    intro n
    simp only [List.zipIdx_cons, List.map_cons]
    rw [ih (fun y hy => hf y (by simp [hy])) (n + 1)]
    simp only [toFI, toI32_small x (hf x (by simp))]

theorem le_sum_of_mem (l : List Nat) (x : Nat) (h : x ∈ l) : x ≤ l.sum := by
  induction l with
  | nil => cases h
  | cons y ys ih =>
    simp only [List.mem_cons] at h
    simp only [List.sum_cons]
    rcases h with rfl | h
    · omega
    · have := ih h; omega

theorem refConstruct_nodes (f : List Nat) (hsum : f.sum + 1 < 2147483648) :
    (refConstruct f).nodes = rustForest f := by
  have hf : ∀ x ∈ f, x < 2147483648 := fun x hx => by have := le_sum_of_mem f x hx; omega
  simp only [refConstruct]
  generalize hfs0 : List.map _ f.zipIdx = fsI
  have hfsI : fsI = (f.zipIdx.map fun (p : Nat × Nat) => (⟨p.1, p.2⟩ : Freq)).map toFI := by
    rw [← zipIdx_toI32 f hf 0, ← hfs0]
  have hall : fsI ++ [(⟨1, EOF⟩ : FreqI)]
      = ((f.zipIdx.map fun (p : Nat × Nat) => (⟨p.1, p.2⟩ : Freq)) ++ [(⟨1, EOF⟩ : Freq)]).map toFI := by
    rw [hfsI, List.map_append]; rfl
  rw [hall, List.length_map]
  apply buildTreeI_map
  simp only [freqSum, List.map_append, List.map_map, List.sum_append, List.map_cons, List.map_nil,
    List.sum_cons, List.sum_nil]
  have : (List.map ((fun x => x.frequency) ∘ fun (p : Nat × Nat) => (⟨p.1, p.2⟩ : Freq)) f.zipIdx) = f := by
    have := List.zipIdx_map_fst 0 f
    simpa [Function.comp_def] using this
  rw [this]
  omega

theorem natBits_inj (k k' b b' : Nat) (hb : b < 2 ^ k) (hb' : b' < 2 ^ k')
    (h : natBits k b = natBits k' b') : k = k' ∧ b = b' := by
  have hk : k = k' := by
    have := congrArg List.length h
    simpa using this
  subst hk
  have := congrArg bitsToNat h
  rw [bitsToNat_natBits, bitsToNat_natBits, Nat.mod_eq_of_lt hb, Nat.mod_eq_of_lt hb'] at this
  exact ⟨rfl, this⟩

/-- **`from_frequencies` builds the reference's tree** whenever the reference's `int` arithmetic is
defined for the vector (`Σ f + 1 < 2^31`; the shipped frequencies satisfy it) and `from_frequencies`
returns. -/
theorem fromFrequencies_eq_refConstruct (f : List Nat) (t : Table) (h : fromFrequencies f = .ok t)
    (hsum : f.sum + 1 < 2147483648) : (refConstruct f).toTable = t := by
  obtain ⟨hlen, hdfs⟩ := fromFrequencies_ok_forest f t h
  -- the forest and its invariants
  have hidx : (f.zipIdx.map fun (p : Nat × Nat) => (⟨p.1, p.2⟩ : Freq)).map (·.nodeIdx)
      = List.range' 0 256 := by
    rw [List.map_map, ← hlen, ← List.zipIdx_map_snd 0 f]
    rfl
  obtain ⟨hT1, hT2, hT3, hT4⟩ : (rustForest f).size = 513 ∧ InnerBelow (rustForest f)
      ∧ Covered (rustForest f) ∧ UniqueParent (rustForest f) := forest_of_idx _ hidx
  obtain ⟨hsame, hvalid⟩ := dfs_valid (rustForest f) t hT1 hT2 hT3 hdfs
  have hnodes := refConstruct_nodes f hsum
  -- the reference's labelling of the same forest
  have hcodes : (refConstruct f).codes = refSetbits (rustForest f) NUM_NODES
      (Array.replicate NUM_SYMBOLS (0, 4294967295)) ((rustForest f).size - 1) 0 0 := by
    rw [← hnodes]; rfl
  obtain ⟨c1, _, c3⟩ := refSetbits_props (rustForest f) hT1 hT2 NUM_NODES
    (Array.replicate NUM_SYMBOLS (0, 4294967295)) ((rustForest f).size - 1) 0 0
    (by rw [hT1]; decide) (by rw [hT1]; decide) (by simp [NUM_SYMBOLS])
    (by rw [hT1]; exact ⟨by decide, rfl⟩)
  rw [← hcodes] at c1 c3
  have hsz : t.size = 513 := by rw [hsame.1, hT1]
  apply Array.ext
  · simp [RefTree.toTable, hnodes, hT1, hsz]
  · intro i hi1 hi2
    have hi : i < 513 := by rw [hsz] at hi2; exact hi2
    have hti : t[i] = node t i := by
      simp only [node]; exact Array.getElem_eq_getD _
    rw [hti]
    simp only [RefTree.toTable, List.getElem_toArray, List.getElem_map, List.getElem_range]
    by_cases hleaf : i < NUM_SYMBOLS
    · simp only [hleaf, if_true]
      obtain ⟨_, k, b, e, _, _, bk, w⟩ := hvalid i hleaf
      obtain ⟨k', b', e', bk', g'⟩ := c3 i hleaf
        (by rw [hT1]; exact reach_root (rustForest f) hT1 hT2 hT3 512 i (by omega) hi)
      have gw := walk_go (rustForest f) _ _ _ (by decide) w
      have := go_unique (rustForest f) hT1 hT2 hT4 512 i _ _ (by omega) gw g'
      obtain ⟨rfl, rfl⟩ := natBits_inj k k' b b' bk bk' this
      rw [e', e]
      rfl
    · simp only [hleaf, if_false]
      rw [hnodes, hsame.2 i (by omega)]

end Tw.Huffman
