import Tw.Proofs.HuffmanFreqLeaf
import Tw.Model.HuffmanRefTree

/-! The C++ reference's `ConstructTree` (`int` frequencies) against `Huffman::from_frequencies`
(`u32`, `saturating_add`): the same tree whenever the C++ arithmetic cannot overflow
(`Σ f + 1 < 2^31`), different trees for the D16b witness (an entry ≥ 2^31). -/
namespace Tw.Huffman

/-! ### the merge loop: the `int` version simulates the `u32` version below 2^31 -/

def toFI (x : Freq) : FreqI := ⟨(x.frequency : Int), x.nodeIdx⟩

theorem insertDescI_map (x : Freq) (l : List Freq) :
    insertDescI (toFI x) (l.map toFI) = (insertDesc x l).map toFI := by
  induction l with
  | nil => rfl
  | cons y ys ih =>
    simp only [List.map_cons, insertDescI, insertDesc, toFI, ge_iff_le, Int.ofNat_le]
    split
    · simp only [List.map_cons, toFI]; congr 1
    · rfl

theorem foldl_insertI_map (l : List Freq) : ∀ acc : List Freq,
    (l.map toFI).foldl (fun acc x => insertDescI x acc) (acc.map toFI)
      = (l.foldl (fun acc x => insertDesc x acc) acc).map toFI := by
  induction l with
  | nil => intro acc; rfl
  | cons x l ih =>
    intro acc
    simp only [List.map_cons, List.foldl_cons, insertDescI_map]
    exact ih _

theorem sortDescI_map (l : List Freq) : sortDescI (l.map toFI) = (sortDesc l).map toFI := by
  have := foldl_insertI_map l []
  simpa [sortDescI, sortDesc] using this

def freqSum (l : List Freq) : Nat := (l.map (·.frequency)).sum

theorem addI32_small (a b : Nat) (h : a + b < 2147483648) : addI32 (a : Int) (b : Int) = ((a + b : Nat) : Int) := by
  have h1 : ((a : Int) + (b : Int)) % 4294967296 = ((a + b : Nat) : Int) := by
    rw [← Int.natCast_add]
    exact Int.emod_eq_of_lt (Int.natCast_nonneg _) (by omega)
  simp only [addI32, h1, Int.toNat_natCast, toI32]
  have h2 : (a + b) % 4294967296 = a + b := Nat.mod_eq_of_lt (by omega)
  rw [h2, if_pos h]

theorem buildTreeI_map (fuel : Nat) : ∀ (fs : List Freq) (nodes : Table),
    freqSum fs < 2147483648 → buildTreeI fuel (fs.map toFI) nodes = buildTree fuel fs nodes := by
  induction fuel with
  | zero => intro fs nodes _; rfl
  | succ f ih =>
    intro fs nodes hsum
    simp only [freqSum] at hsum
    rw [buildTreeI, buildTree]
    simp only [List.length_map]
    split
    · rfl
    · rw [sortDescI_map, ← List.map_reverse]
      have hperm := sortDesc_perm fs
      have hs : freqSum (sortDesc fs).reverse = freqSum fs := by
        simp only [freqSum]
        rw [List.map_reverse, List.sum_reverse]
        exact (hperm.map (·.frequency)).sum_nat
      revert hs
      generalize (sortDesc fs).reverse = L
      intro hs
      match L, hs with
      | [], _ => rfl
      | [_], _ => rfl
      | f1 :: f2 :: rest, hs =>
        simp only [List.map_cons, freqSum, List.sum_cons] at hs ⊢
        have hrest : (rest.map (·.frequency)).sum = freqSum rest := rfl
        have h12 : f1.frequency + f2.frequency < 2147483648 := by omega
        have hu : ¬ f1.frequency + f2.frequency > U32_MAX := by simp only [U32_MAX]; omega
        simp only [toFI, addI32_small _ _ h12, hu, if_false]
        have := ih (rest.reverse ++ [⟨f1.frequency + f2.frequency, nodes.size⟩])
          (nodes.push (f1.nodeIdx, f2.nodeIdx)) (by
            simp only [freqSum, List.map_append, List.map_reverse, List.sum_append, List.sum_reverse,
              List.map_cons, List.map_nil, List.sum_cons, List.sum_nil]
            omega)
        simp only [List.map_append, List.map_reverse, List.map_cons, List.map_nil, toFI] at this
        exact this

theorem toI32_small (x : Nat) (h : x < 2147483648) : toI32 x = (x : Int) := by
  have : x % 4294967296 = x := Nat.mod_eq_of_lt (by omega)
  simp only [toI32, this, if_pos h]

/-! ### `Setbits_r` writes root paths -/

theorem getD_set_ne (T : Array (Nat × Nat)) (j i : Nat) (v dflt : Nat × Nat) (h : j ≠ i) :
    (T.set! j v).getD i dflt = T.getD i dflt := by
  simp only [Array.set!_eq_setIfInBounds, Array.getD_eq_getD_getElem?,
    Array.getElem?_setIfInBounds_ne h]

theorem getD_set_eq (T : Array (Nat × Nat)) (n : Nat) (v dflt : Nat × Nat) (h : n < T.size) :
    (T.set! n v).getD n dflt = v := by
  simp [Array.set!_eq_setIfInBounds, Array.getD_eq_getD_getElem?, h]

/-- the `(m_Bits, m_NumBits)` of symbol `s` is the code of a path from the root to `s` -/
def ValidC (N : Table) (C : Array (Nat × Nat)) (s : Nat) : Prop :=
  ∃ k b, C.getD s (0, 0) = (b, k) ∧ b < 2 ^ k ∧ go N ROOT_IDX (natBits k b) = some s

theorem refSetbits_props (N : Table) (hsize : N.size = 513) (hin : InnerBelow N) (g : Nat) :
    ∀ (C : Array (Nat × Nat)) (n bits d : Nat), n < g → n < 513 → C.size = 257 →
      PathTo N n bits d →
      (refSetbits N g C n bits d).size = 257
        ∧ (∀ s, ValidC N C s → ValidC N (refSetbits N g C n bits d) s)
        ∧ (∀ s, s < NUM_SYMBOLS → Reach N n s → ValidC N (refSetbits N g C n bits d) s) := by
  induction g with
  | zero => intro C n bits d h; omega
  | succ g ih =>
    intro C n bits d hng hn hC hpath
    simp only [refSetbits]
    by_cases hleaf : n < NUM_SYMBOLS
    · simp only [hleaf, if_true]
      have hnC : n < C.size := by rw [hC]; simp only [NUM_SYMBOLS] at hleaf; exact hleaf
      have hnew : ValidC N (C.set! n (bits, d)) n :=
        ⟨d, bits, getD_set_eq C n _ _ hnC, hpath.1, hpath.2⟩
      refine ⟨by rw [Array.set!_eq_setIfInBounds, Array.size_setIfInBounds]; exact hC, ?_, ?_⟩
      · intro s hv
        by_cases hs : s = n
        · subst hs; exact hnew
        · obtain ⟨k, b, v1, v2⟩ := hv
          exact ⟨k, b, by rw [getD_set_ne _ _ _ _ _ (Ne.symm hs)]; exact v1, v2⟩
      · intro s _ hr
        cases hr with
        | refl => exact hnew
        | left _ _ hn' _ => omega
        | right _ _ hn' _ => omega
    · simp only [hleaf, if_false]
      have hge : n ≥ NUM_SYMBOLS := by omega
      have hch := hin n hge (by rw [hsize]; exact hn)
      obtain ⟨a1, a2, a3⟩ := ih C (node N n).2 (bits + 2 ^ d) (d + 1) (by omega) (by omega) hC
        (pathTo_right N n bits d hpath hge)
      obtain ⟨b1, b2, b3⟩ := ih _ (node N n).1 bits (d + 1) (by omega) (by omega) a1
        (pathTo_left N n bits d hpath hge)
      refine ⟨b1, fun s hv => b2 s (a2 s hv), ?_⟩
      intro s hs hr
      cases hr with
      | refl => omega
      | left _ _ _ hl => exact b3 s hs hl
      | right _ _ _ hrr => exact b2 s (a3 s hs hrr)

/-! ### the reference's tree is the Rust's tree when the `int` arithmetic cannot overflow -/

theorem zipIdx_toI32 (f : List Nat) (hf : ∀ x ∈ f, x < 2147483648) : ∀ n : Nat,
    (f.zipIdx n).map (fun (p : Nat × Nat) => (⟨toI32 p.1, p.2⟩ : FreqI))
      = ((f.zipIdx n).map fun (p : Nat × Nat) => (⟨p.1, p.2⟩ : Freq)).map toFI := by
  induction f with
  | nil => intro n; rfl
  | cons x xs ih =>
    intro n
    simp only [List.zipIdx_cons, List.map_cons]
    rw [ih (fun y hy => hf y (by simp [hy])) (n + 1)]
    simp only [toFI, toI32_small x (hf x (by simp))]

theorem le_sum_of_mem (l : List Nat) (x : Nat) (h : x ∈ l) : x ≤ l.sum := by
  induction l with
  | nil => cases h
  | cons y ys ih =>
    simp only [List.mem_cons] at h
    simp only [List.sum_cons]
    rcases h with rfl | h
    · omega
    · have := ih h; omega

theorem refConstruct_nodes (f : List Nat) (hsum : f.sum + 1 < 2147483648) :
    (refConstruct f).nodes = rustForest f := by
  have hf : ∀ x ∈ f, x < 2147483648 := fun x hx => by have := le_sum_of_mem f x hx; omega
  simp only [refConstruct]
  generalize hfs0 : List.map _ f.zipIdx = fsI
  have hfsI : fsI = (f.zipIdx.map fun (p : Nat × Nat) => (⟨p.1, p.2⟩ : Freq)).map toFI := by
    rw [← zipIdx_toI32 f hf 0, ← hfs0]
  have hall : fsI ++ [(⟨1, EOF⟩ : FreqI)]
      = ((f.zipIdx.map fun (p : Nat × Nat) => (⟨p.1, p.2⟩ : Freq)) ++ [(⟨1, EOF⟩ : Freq)]).map toFI := by
    rw [hfsI, List.map_append]; rfl
  rw [hall, List.length_map]
  apply buildTreeI_map
  simp only [freqSum, List.map_append, List.map_map, List.sum_append, List.map_cons, List.map_nil,
    List.sum_cons, List.sum_nil]
  have : (List.map ((fun x => x.frequency) ∘ fun (p : Nat × Nat) => (⟨p.1, p.2⟩ : Freq)) f.zipIdx) = f := by
    have := List.zipIdx_map_fst 0 f
    simp [Function.comp_def]
  rw [this]
  omega

theorem natBits_inj (k k' b b' : Nat) (hb : b < 2 ^ k) (hb' : b' < 2 ^ k')
    (h : natBits k b = natBits k' b') : k = k' ∧ b = b' := by
  have hk : k = k' := by
    have := congrArg List.length h
    simpa using this
  subst hk
  have := congrArg bitsToNat h
  rw [bitsToNat_natBits, bitsToNat_natBits, Nat.mod_eq_of_lt hb, Nat.mod_eq_of_lt hb'] at this
  exact ⟨rfl, this⟩

/-- **`from_frequencies` builds the reference's tree** whenever the reference's `int` arithmetic is
defined for the vector (`Σ f + 1 < 2^31`; the shipped frequencies satisfy it) and `from_frequencies`
returns. -/
theorem fromFrequencies_eq_refConstruct (f : List Nat) (t : Table) (h : fromFrequencies f = .ok t)
    (hsum : f.sum + 1 < 2147483648) : (refConstruct f).toTable = t := by
  obtain ⟨hlen, hdfs⟩ := fromFrequencies_ok_forest f t h
  -- the forest and its invariants
  have hidx : (f.zipIdx.map fun (p : Nat × Nat) => (⟨p.1, p.2⟩ : Freq)).map (·.nodeIdx)
      = List.range' 0 256 := by
    rw [List.map_map, ← hlen, ← List.zipIdx_map_snd 0 f]
    rfl
  obtain ⟨hT1, hT2, hT3, hT4⟩ : (rustForest f).size = 513 ∧ InnerBelow (rustForest f)
      ∧ Covered (rustForest f) ∧ UniqueParent (rustForest f) := forest_of_idx _ hidx
  obtain ⟨hsame, hvalid⟩ := dfs_valid (rustForest f) t hT1 hT2 hT3 hdfs
  have hnodes := refConstruct_nodes f hsum
  -- the reference's labelling of the same forest
  have hcodes : (refConstruct f).codes = refSetbits (rustForest f) NUM_NODES
      (Array.replicate NUM_SYMBOLS (0, 4294967295)) ((rustForest f).size - 1) 0 0 := by
    rw [← hnodes]; rfl
  obtain ⟨c1, _, c3⟩ := refSetbits_props (rustForest f) hT1 hT2 NUM_NODES
    (Array.replicate NUM_SYMBOLS (0, 4294967295)) ((rustForest f).size - 1) 0 0
    (by rw [hT1]; decide) (by rw [hT1]; decide) (by simp [NUM_SYMBOLS])
    (by rw [hT1]; exact ⟨by decide, rfl⟩)
  rw [← hcodes] at c1 c3
  have hsz : t.size = 513 := by rw [hsame.1, hT1]
  apply Array.ext
  · simp [RefTree.toTable, hnodes, hT1, hsz]
  · intro i hi1 hi2
    have hi : i < 513 := by rw [hsz] at hi2; exact hi2
    have hti : t[i] = node t i := by
      simp only [node]; exact Array.getElem_eq_getD _
    rw [hti]
    simp only [RefTree.toTable, List.getElem_toArray, List.getElem_map, List.getElem_range]
    by_cases hleaf : i < NUM_SYMBOLS
    · simp only [hleaf, if_true]
      obtain ⟨_, k, b, e, _, _, bk, w⟩ := hvalid i hleaf
      obtain ⟨k', b', e', bk', g'⟩ := c3 i hleaf
        (by rw [hT1]; exact reach_root (rustForest f) hT1 hT2 hT3 512 i (by omega) hi)
      have gw := walk_go (rustForest f) _ _ _ (by decide) w
      have := go_unique (rustForest f) hT1 hT2 hT4 512 i _ _ (by omega) gw g'
      obtain ⟨rfl, rfl⟩ := natBits_inj k k' b b' bk bk' this
      rw [e', e]
      rfl
    · simp only [hleaf, if_false]
      rw [hnodes, hsame.2 i (by omega)]

/-! ### D16b in the model: an entry ≥ 2^31 gives a different tree -/

theorem toTable_node_inner (r : RefTree) (i : Nat) (hi : i < r.nodes.size) (h : ¬ i < NUM_SYMBOLS) :
    node r.toTable i = node r.nodes i := by
  simp [node, RefTree.toTable, Array.getD_eq_getD_getElem?, hi, h]

theorem toTable_size (r : RefTree) : r.toTable.size = r.nodes.size := by
  simp [RefTree.toTable]

theorem buildTree_preserve (fuel : Nat) : ∀ (fs : List Freq) (nodes : Table) (i : Nat),
    i < nodes.size → node (buildTree fuel fs nodes) i = node nodes i := by
  induction fuel with
  | zero => intro fs nodes i _; rfl
  | succ f ih =>
    intro fs nodes i hi
    rw [buildTree]
    split
    · rfl
    · split
      · next f1 f2 rest _ =>
        rw [ih _ _ i (by simp only [Array.size_push]; omega), node_push]
        have : i ≠ nodes.size := by omega
        simp only [this, if_false]
      · rfl

theorem buildTreeI_preserve (fuel : Nat) : ∀ (fs : List FreqI) (nodes : Table) (i : Nat),
    i < nodes.size → node (buildTreeI fuel fs nodes) i = node nodes i := by
  induction fuel with
  | zero => intro fs nodes i _; rfl
  | succ f ih =>
    intro fs nodes i hi
    rw [buildTreeI]
    split
    · rfl
    · split
      · next f1 f2 rest _ =>
        rw [ih _ _ i (by simp only [Array.size_push]; omega), node_push]
        have : i ≠ nodes.size := by omega
        simp only [this, if_false]
      · rfl

theorem buildTreeI_step (f : Nat) (fs : List FreqI) (nodes : Table) (f1 f2 : FreqI)
    (restRev : List FreqI) (hlen : ¬ fs.length ≤ 1)
    (hrev : (sortDescI fs).reverse = f1 :: f2 :: restRev) :
    buildTreeI (f + 1) fs nodes =
      buildTreeI f (restRev.reverse ++ [⟨addI32 f1.frequency f2.frequency, nodes.size⟩])
        (nodes.push (f1.nodeIdx, f2.nodeIdx)) := by
  rw [buildTreeI]
  simp only [hlen, if_false, hrev]

/-- the node created by the first merge -/
theorem buildTree_first (fuel : Nat) (fs : List Freq) (nodes : Table) (a b : Freq)
    (hlen : ¬ fs.length ≤ 1) (h2 : (sortDesc fs).reverse.take 2 = [a, b]) :
    node (buildTree (fuel + 1) fs nodes) nodes.size = (a.nodeIdx, b.nodeIdx) := by
  have hrev : (sortDesc fs).reverse = a :: b :: (sortDesc fs).reverse.drop 2 := by
    have := List.take_append_drop 2 (sortDesc fs).reverse
    rw [h2] at this
    exact this.symm
  rw [buildTree_step fuel fs nodes a b _ hlen hrev,
    buildTree_preserve _ _ _ nodes.size (by simp), node_push]
  simp

theorem buildTreeI_first (fuel : Nat) (fs : List FreqI) (nodes : Table) (a b : FreqI)
    (hlen : ¬ fs.length ≤ 1) (h2 : (sortDescI fs).reverse.take 2 = [a, b]) :
    node (buildTreeI (fuel + 1) fs nodes) nodes.size = (a.nodeIdx, b.nodeIdx) := by
  have hrev : (sortDescI fs).reverse = a :: b :: (sortDescI fs).reverse.drop 2 := by
    have := List.take_append_drop 2 (sortDescI fs).reverse
    rw [h2] at this
    exact this.symm
  rw [buildTreeI_step fuel fs nodes a b _ hlen hrev,
    buildTreeI_preserve _ _ _ nodes.size (by simp), node_push]
  simp

/-- the D16b witness: symbol 0 has frequency `2^32 - 1` (−1 for the C++), every other byte 2 -/
def d16bFreqs : List Nat := 4294967295 :: List.replicate 255 2

/-! the two sorts, symbolically (the kernel needs minutes to evaluate a 257-element sort) -/

theorem insertDesc_ge (x : Freq) (acc : List Freq) (h : ∀ y ∈ acc, y.frequency ≥ x.frequency) :
    insertDesc x acc = acc ++ [x] := by
  induction acc with
  | nil => rfl
  | cons y ys ih =>
    have hy := h y (by simp)
    simp only [insertDesc, hy, if_true, List.cons_append]
    rw [ih (fun z hz => h z (by simp [hz]))]

theorem foldl_insert_const (c : Nat) (l : List Freq) (hl : ∀ x ∈ l, x.frequency = c) :
    ∀ acc : List Freq, (∀ y ∈ acc, y.frequency ≥ c) →
      l.foldl (fun acc x => insertDesc x acc) acc = acc ++ l := by
  induction l with
  | nil => intro acc _; simp
  | cons x l ih =>
    intro acc hacc
    have hx := hl x (by simp)
    simp only [List.foldl_cons]
    rw [insertDesc_ge x acc (fun y hy => by rw [hx]; exact hacc y hy),
      ih (fun z hz => hl z (by simp [hz])) _ (by
        intro y hy
        simp only [List.mem_append, List.mem_singleton] at hy
        rcases hy with hy | rfl
        · exact hacc y hy
        · omega)]
    simp

theorem insertDescI_mid (x y : FreqI) (A : List FreqI) (hA : ∀ a ∈ A, a.frequency ≥ x.frequency)
    (hy : ¬ y.frequency ≥ x.frequency) : insertDescI x (A ++ [y]) = A ++ [x, y] := by
  induction A with
  | nil => simp [insertDescI, hy]
  | cons a A ih =>
    have ha := hA a (by simp)
    simp only [List.cons_append, insertDescI, ha, if_true]
    rw [ih (fun z hz => hA z (by simp [hz]))]

theorem foldl_insertI_const (c : Int) (y : FreqI) (hy : ¬ y.frequency ≥ c) (l : List FreqI)
    (hl : ∀ x ∈ l, x.frequency = c) :
    ∀ A : List FreqI, (∀ a ∈ A, a.frequency ≥ c) →
      l.foldl (fun acc x => insertDescI x acc) (A ++ [y]) = A ++ l ++ [y] := by
  induction l with
  | nil => intro A _; simp
  | cons x l ih =>
    intro A hA
    have hx := hl x (by simp)
    simp only [List.foldl_cons]
    rw [insertDescI_mid x y A (fun a ha => by rw [hx]; exact hA a ha) (by rw [hx]; exact hy)]
    have := ih (fun z hz => hl z (by simp [hz])) (A ++ [x]) (by
      intro a ha
      simp only [List.mem_append, List.mem_singleton] at ha
      rcases ha with ha | rfl
      · exact hA a ha
      · omega)
    simp only [List.append_assoc, List.cons_append, List.nil_append] at this ⊢
    exact this

def d16bTwos : List Nat := List.range' 1 255

theorem d16b_rust_list : (d16bFreqs.zipIdx.map fun (p : Nat × Nat) => (⟨p.1, p.2⟩ : Freq))
    = ⟨4294967295, 0⟩ :: d16bTwos.map (fun i => (⟨2, i⟩ : Freq)) := by decide +kernel

theorem d16b_ref_list : (d16bFreqs.zipIdx.map fun (p : Nat × Nat) => (⟨toI32 p.1, p.2⟩ : FreqI))
    = ⟨-1, 0⟩ :: d16bTwos.map (fun i => (⟨2, i⟩ : FreqI)) := by decide +kernel

theorem d16bTwos_split : d16bTwos = List.range' 1 254 ++ [255] := by
  show List.range' 1 (254 + 1) = _
  rw [List.range'_concat]

theorem d16b_rust_sorted :
    (sortDesc ((d16bFreqs.zipIdx.map fun (p : Nat × Nat) => (⟨p.1, p.2⟩ : Freq))
      ++ [(⟨1, EOF⟩ : Freq)])).reverse.take 2 = [⟨1, EOF⟩, ⟨2, 255⟩] := by
  rw [d16b_rust_list]
  have hs : sortDesc (⟨4294967295, 0⟩ :: d16bTwos.map (fun i => (⟨2, i⟩ : Freq)) ++ [(⟨1, EOF⟩ : Freq)])
      = ⟨4294967295, 0⟩ :: d16bTwos.map (fun i => (⟨2, i⟩ : Freq)) ++ [(⟨1, EOF⟩ : Freq)] := by
    simp only [sortDesc, List.cons_append, List.foldl_cons, List.foldl_append, List.foldl_nil, insertDesc]
    rw [foldl_insert_const 2 _ (by intro x hx; simp only [List.mem_map] at hx; obtain ⟨i, _, rfl⟩ := hx; rfl)
      [⟨4294967295, 0⟩] (by intro y hy; simp only [List.mem_singleton] at hy; subst hy; decide)]
    rw [insertDesc_ge]
    · simp
    · intro y hy
      simp only [List.cons_append, List.nil_append, List.mem_cons, List.mem_map] at hy
      rcases hy with rfl | ⟨i, _, rfl⟩
      · decide
      · show (2 : Nat) ≥ 1; decide
  rw [hs, d16bTwos_split]
  simp

theorem d16b_ref_sorted :
    (sortDescI ((d16bFreqs.zipIdx.map fun (p : Nat × Nat) => (⟨toI32 p.1, p.2⟩ : FreqI))
      ++ [(⟨1, EOF⟩ : FreqI)])).reverse.take 2 = [⟨-1, 0⟩, ⟨1, EOF⟩] := by
  rw [d16b_ref_list]
  have hs : sortDescI (⟨-1, 0⟩ :: d16bTwos.map (fun i => (⟨2, i⟩ : FreqI)) ++ [(⟨1, EOF⟩ : FreqI)])
      = d16bTwos.map (fun i => (⟨2, i⟩ : FreqI)) ++ [⟨1, EOF⟩, ⟨-1, 0⟩] := by
    simp only [sortDescI, List.cons_append, List.foldl_cons, List.foldl_append, List.foldl_nil, insertDescI]
    have := foldl_insertI_const 2 ⟨-1, 0⟩ (by decide) (d16bTwos.map (fun i => (⟨2, i⟩ : FreqI)))
      (by intro x hx; simp only [List.mem_map] at hx; obtain ⟨i, _, rfl⟩ := hx; rfl) [] (by simp)
    simp only [List.nil_append] at this
    rw [this]
    exact insertDescI_mid ⟨1, EOF⟩ ⟨-1, 0⟩ _
      (by intro a ha; simp only [List.mem_map] at ha; obtain ⟨i, _, rfl⟩ := ha; show (2 : Int) ≥ 1; decide) (by decide)
  rw [hs]
  simp

/-- the first merge: the Rust joins EOF with byte 255 (its two rarest), the C++ joins byte 0 (−1) with
EOF -/
theorem d16b_first_merge :
    node (rustForest d16bFreqs) 257 = (256, 255)
      ∧ node (refConstruct d16bFreqs).nodes 257 = (0, 256) := by
  constructor
  · have hl : ((d16bFreqs.zipIdx.map fun (p : Nat × Nat) => (⟨p.1, p.2⟩ : Freq))
        ++ [(⟨1, EOF⟩ : Freq)]).length = 256 + 1 := by
      simp only [List.length_append, List.length_map, List.length_zipIdx, d16bFreqs, List.length_cons,
        List.length_replicate, List.length_nil]
    have := buildTree_first 256 _ (Array.replicate NUM_SYMBOLS ((65535, 65535) : Nat × Nat)) _ _
      (by rw [hl]; decide) d16b_rust_sorted
    have hsz0 : (Array.replicate NUM_SYMBOLS ((65535, 65535) : Nat × Nat)).size = 257 :=
      Array.size_replicate ..
    rw [hsz0] at this
    simp only [rustForest, hl]
    exact this
  · simp only [refConstruct]
    generalize hfs0 : List.map _ d16bFreqs.zipIdx = fsI
    have hfsI : fsI = d16bFreqs.zipIdx.map fun (p : Nat × Nat) => (⟨toI32 p.1, p.2⟩ : FreqI) := by
      rw [← hfs0]
    subst hfsI
    have hl : ((d16bFreqs.zipIdx.map fun (p : Nat × Nat) => (⟨toI32 p.1, p.2⟩ : FreqI))
        ++ [(⟨1, EOF⟩ : FreqI)]).length = 256 + 1 := by
      simp only [List.length_append, List.length_map, List.length_zipIdx, d16bFreqs, List.length_cons,
        List.length_replicate, List.length_nil]
    have := buildTreeI_first 256 _ (Array.replicate NUM_SYMBOLS ((65535, 65535) : Nat × Nat)) _ _
      (by rw [hl]; decide) d16b_ref_sorted
    have hsz0 : (Array.replicate NUM_SYMBOLS ((65535, 65535) : Nat × Nat)).size = 257 :=
      Array.size_replicate ..
    rw [hsz0] at this
    rw [hl]
    exact this

/-- **D16b witness**: whatever table `from_frequencies` returns for this vector, it is not the
reference's tree. -/
theorem d16b_witness (t : Table) (h : fromFrequencies d16bFreqs = .ok t) :
    (refConstruct d16bFreqs).toTable ≠ t := by
  intro heq
  obtain ⟨_, hdfs⟩ := fromFrequencies_ok_forest d16bFreqs t h
  obtain ⟨hs1, hs2⟩ := dfs_inner _ _ _ _ _ _ hdfs
  have hsz : t.size = NUM_NODES := (fromFrequencies_inner d16bFreqs t h).1
  have hrs : (refConstruct d16bFreqs).nodes.size = 513 := by
    have := congrArg Array.size heq
    rw [toTable_size, hsz] at this
    exact this
  have h257 : node (refConstruct d16bFreqs).toTable 257 = node (refConstruct d16bFreqs).nodes 257 :=
    toTable_node_inner _ 257 (by rw [hrs]; decide) (by decide)
  rw [heq, hs2 257 (by decide), d16b_first_merge.1, d16b_first_merge.2] at h257
  cases h257

end Tw.Huffman
