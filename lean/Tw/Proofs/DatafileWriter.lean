import Tw.Proofs.Datafile

/-! Writer side of the datafile model: bytes ↔ words, and the header `writeDf` produces is the
header `Header.read` / `check_size_and_swaplen` accept. -/
namespace Tw.Datafile

/-! ### writer/reader round trip: bytes ↔ words -/

def InI32 (v : Int) : Prop := -2147483648 ≤ v ∧ v ≤ 2147483647

theorem u8_toNat_ofNat_mod (n : Nat) : (UInt8.ofNat (n % 256)).toNat = n % 256 := by
  rw [UInt8.toNat_ofNat']; omega

theorem i32OfBytes_bytesOfI32 {v : Int} (h : InI32 v) :
    ∃ a b c d, bytesOfI32 v = [a, b, c, d] ∧ i32OfBytes a b c d = v := by
  unfold InI32 at h
  refine ⟨_, _, _, _, rfl, ?_⟩
  unfold i32OfBytes
  simp only [u8_toNat_ofNat_mod]
  have hn : ((v % 4294967296).toNat : Int) = v % 4294967296 := by omega
  split
  · rename_i hlt; omega
  · rename_i hlt; omega

theorem bytesOfI32_length (v : Int) : (bytesOfI32 v).length = 4 := rfl

theorem bytesOfWords_length : ∀ ws : List Int, (bytesOfWords ws).length = 4 * ws.length
  | [] => rfl
  | w :: ws => by simp [bytesOfWords, bytesOfWords_length ws, bytesOfI32_length]; omega

theorem wordsOfBytes_bytesOfWords_append :
    ∀ (ws : List Int) (rest : List UInt8), (∀ w ∈ ws, InI32 w) →
      wordsOfBytes (bytesOfWords ws ++ rest) = ws ++ wordsOfBytes rest
  | [], rest, _ => by simp [bytesOfWords]
  | w :: ws, rest, h => by
    obtain ⟨a, b, c, d, hb, hv⟩ := i32OfBytes_bytesOfI32 (h w (List.mem_cons_self ..))
    simp only [bytesOfWords, hb, List.cons_append, List.nil_append, wordsOfBytes, hv]
    rw [wordsOfBytes_bytesOfWords_append ws rest (fun w' hw' => h w' (List.mem_cons_of_mem _ hw'))]

theorem wordsOfBytes_bytesOfWords (ws : List Int) (h : ∀ w ∈ ws, InI32 w) :
    wordsOfBytes (bytesOfWords ws) = ws := by
  have := wordsOfBytes_bytesOfWords_append ws [] h
  simpa [wordsOfBytes] using this

theorem readExact_append (a rest : List UInt8) : readExact a.length (a ++ rest) = some (a, rest) := by
  unfold readExact
  rw [if_neg (by simp)]
  simp


/-! ### the header the writer produces is the header the reader accepts -/

/-- the pieces `writeDf` lays out, as numbers -/
structure Sizes where
  nTypes : Nat
  nItems : Nat
  nData : Nat
  sizeItems : Nat
  sizeData : Nat

def Sizes.total (z : Sizes) (ver : Nat) : Nat :=
  36 + 12 * z.nTypes + 4 * z.nItems + 4 * z.nData + (if ver = 3 then 0 else 4 * z.nData)
    + z.sizeItems + z.sizeData

/-- the eight header words `writeDf` emits -/
def Sizes.headerWords (z : Sizes) (ver : Nat) : List Int :=
  [(ver : Int), ((z.total ver - 16 : Nat) : Int), ((z.total ver - 16 - z.sizeData : Nat) : Int),
   (z.nTypes : Int), (z.nItems : Int), (z.nData : Int), (z.sizeItems : Int), (z.sizeData : Int)]

def sizesOf (ver : Nat) (deflate : List UInt8 → List UInt8) (items : List Item)
    (datas : List (List UInt8)) : Sizes :=
  { nTypes := (groupTypes items 0 []).length, nItems := items.length, nData := datas.length,
    sizeItems := sumNat (items.map (fun it => 8 + 4 * it.data.length)),
    sizeData := sumNat ((if ver = 3 then datas else datas.map deflate).map List.length) }

theorem writeDf_eq_header_append (ver : Nat) (deflate : List UInt8 → List UInt8) (items : List Item)
    (datas : List (List UInt8)) :
    ∃ tail, writeDf ver deflate items datas
      = (magicData ++ bytesOfWords ((sizesOf ver deflate items datas).headerWords ver)) ++ tail := by
  unfold writeDf
  simp only [List.append_assoc]
  exact ⟨_, rfl⟩

theorem sumNat_items_mod4 (items : List Item) :
    sumNat (items.map (fun it => 8 + 4 * it.data.length)) % 4 = 0 := by
  induction items with
  | nil => rfl
  | cons it items ih => simp only [List.map_cons, sumNat]; omega

/-- **The writer's header is accepted.**  For versions 3 and 4 and any item/data set whose file
stays below 2 GiB, `Header::read` on the written file succeeds with the counts and sizes of what
was written, and `check_size_and_swaplen` accepts the `size`/`swaplen` fields as the *non-crude*
variant with `expected_size` = the writer's total. -/
theorem writer_header_accepted (ver : Nat) (hv : ver = 3 ∨ ver = 4)
    (deflate : List UInt8 → List UInt8) (items : List Item) (datas : List (List UInt8))
    (hmax : (sizesOf ver deflate items datas).total ver ≤ 2147483647) :
    ∃ h, Header.read (writeDf ver deflate items datas) = .ok h
      ∧ h.version = ver ∧ h.numItems = items.length ∧ h.numData = datas.length
      ∧ h.numItemTypes = (groupTypes items 0 []).length
      ∧ h.checkSizeAndSwaplen
          = .ok { expectedSize := ((sizesOf ver deflate items datas).total ver : Nat), crude := false } := by
  obtain ⟨tail, hfile⟩ := writeDf_eq_header_append ver deflate items datas
  generalize hz : sizesOf ver deflate items datas = z at *
  have hsi4 : z.sizeItems % 4 = 0 := by rw [← hz]; exact sumNat_items_mod4 items
  have hlen : (magicData ++ bytesOfWords (z.headerWords ver)).length = headerSize := by
    simp [magicData, bytesOfWords_length, Sizes.headerWords, headerSize]
  have htot36 : 36 + z.sizeData ≤ z.total ver := by unfold Sizes.total; omega
  have hin : ∀ w ∈ z.headerWords ver, InI32 w := by
    intro w hw
    have h1 : z.total ver = 36 + 12 * z.nTypes + 4 * z.nItems + 4 * z.nData
        + (if ver = 3 then 0 else 4 * z.nData) + z.sizeItems + z.sizeData := rfl
    simp only [Sizes.headerWords, List.mem_cons, List.mem_nil_iff, or_false] at hw
    unfold InI32
    rcases hw with rfl | rfl | rfl | rfl | rfl | rfl | rfl | rfl <;> (split at h1 <;> omega)
  -- the struct `Header::read` fills
  have hbuf : Header.ofBuf (magicData ++ bytesOfWords (z.headerWords ver))
      = { magic := magicData, version := ver, size := ((z.total ver - 16 : Nat) : Int),
          swaplen := ((z.total ver - 16 - z.sizeData : Nat) : Int), numItemTypes := z.nTypes,
          numItems := z.nItems, numData := z.nData, sizeItems := z.sizeItems, sizeData := z.sizeData } := by
    unfold Header.ofBuf
    have hd : (magicData ++ bytesOfWords (z.headerWords ver)).drop 4 = bytesOfWords (z.headerWords ver) :=
      List.drop_left' (by rfl)
    have ht : (magicData ++ bytesOfWords (z.headerWords ver)).take 4 = magicData :=
      List.take_left' (by rfl)
    simp only [hd, ht, wordsOfBytes_bytesOfWords _ hin]
    rfl
  have htake : (writeDf ver deflate items datas).take headerSize
      = magicData ++ bytesOfWords (z.headerWords ver) := by
    rw [hfile]; exact List.take_left' hlen
  have hnt : z.nTypes = (groupTypes items 0 []).length := by rw [← hz]; rfl
  have hni : z.nItems = items.length := by rw [← hz]; rfl
  have hnd : z.nData = datas.length := by rw [← hz]; rfl
  refine ⟨{ magic := magicData, version := (ver : Int), size := ((z.total ver - 16 : Nat) : Int),
            swaplen := ((z.total ver - 16 - z.sizeData : Nat) : Int), numItemTypes := z.nTypes,
            numItems := z.nItems, numData := z.nData, sizeItems := z.sizeItems, sizeData := z.sizeData },
    ?_, rfl, by simp only [hni], by simp only [hnd], by simp only [hnt], ?_⟩
  · unfold Header.read
    simp only [htake, hlen, Nat.sub_self, List.replicate_zero, List.append_nil, hbuf]
    rw [if_neg (by simp [headerSize])]
    have hcv : Header.checkVersion
        { magic := magicData, version := (ver : Int), size := ((z.total ver - 16 : Nat) : Int),
          swaplen := ((z.total ver - 16 - z.sizeData : Nat) : Int), numItemTypes := z.nTypes,
          numItems := z.nItems, numData := z.nData, sizeItems := z.sizeItems, sizeData := z.sizeData } = none := by
      unfold Header.checkVersion
      simp only
      rw [if_neg (by simp), if_neg (by rcases hv with rfl | rfl <;> simp)]
    rw [hcv]
    simp only
    rw [if_neg (by simp)]
    have hcr : Header.checkRest
        { magic := magicData, version := (ver : Int), size := ((z.total ver - 16 : Nat) : Int),
          swaplen := ((z.total ver - 16 - z.sizeData : Nat) : Int), numItemTypes := z.nTypes,
          numItems := z.nItems, numData := z.nData, sizeItems := z.sizeItems, sizeData := z.sizeData } = true := by
      rw [Header.checkRest_iff]
      simp only
      omega
    rw [hcr]
    rfl
  · -- `check_size_and_swaplen`
    have h1 : z.total ver = 36 + 12 * z.nTypes + 4 * z.nItems + 4 * z.nData
        + (if ver = 3 then 0 else 4 * z.nData) + z.sizeItems + z.sizeData := rfl
    have htotal : Header.total
        { magic := magicData, version := (ver : Int), size := ((z.total ver - 16 : Nat) : Int),
          swaplen := ((z.total ver - 16 - z.sizeData : Nat) : Int), numItemTypes := z.nTypes,
          numItems := z.nItems, numData := z.nData, sizeItems := z.sizeItems, sizeData := z.sizeData }
        = (z.total ver : Nat) := by
      unfold Header.total
      simp only
      rcases hv with rfl | rfl <;> simp at h1 ⊢ <;> omega
    unfold Header.checkSizeAndSwaplen Header.totalSize
    simp only
    rw [if_neg (by omega)]
    unfold Header.total at htotal
    simp only at htotal
    rw [htotal, if_pos (by omega)]
    simp only
    rw [Header.sizeField_ok _ _ false (by simp) (by simp only; omega) (by omega),
      Header.sizeField_ok _ _ true (by simp) (by simp only; omega) (by omega),
      Header.swaplenField_ok _ _ false (by simp) (by simp) (by simp only; omega) (by omega),
      Header.swaplenField_ok _ _ true (by simp) (by simp) (by simp only; omega) (by omega)]
    simp only [Bool.false_eq_true, if_false, if_true]
    rw [if_neg (by omega), if_neg (by omega)]
    congr 2
    simp only [decide_eq_false_iff_not, ne_eq, Decidable.not_not]
    omega

end Tw.Datafile
