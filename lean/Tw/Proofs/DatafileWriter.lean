import Tw.Proofs.Datafile

/-! Writer side of the datafile model: bytes ↔ words, and the header `writeDf` produces is the
header `Header.read` / `check_size_and_swaplen` accept. -/
namespace Tw.Datafile

/-! ### writer/reader round trip: bytes ↔ words -/

def InI32 (v : Int) : Prop := -2147483648 ≤ v ∧ v ≤ 2147483647

theorem u8_toNat_ofNat_mod (n : Nat) : (UInt8.ofNat (n % 256)).toNat = n % 256 := by
  rw [UInt8.toNat_ofNat']; omega

theorem i32OfBytes_bytesOfI32 {v : Int} (h : InI32 v) :
    ∃ a b c d, bytesOfI32 v = [a, b, c, d] ∧ i32OfBytes a b c d = v := by
  unfold InI32 at h
  refine ⟨_, _, _, _, rfl, ?_⟩
  unfold i32OfBytes
  simp only [u8_toNat_ofNat_mod]
  have hn : ((v % 4294967296).toNat : Int) = v % 4294967296 := by omega
  split
  · rename_i hlt; omega
  · rename_i hlt; omega

theorem bytesOfI32_length (v : Int) : (bytesOfI32 v).length = 4 := rfl

theorem bytesOfWords_length : ∀ ws : List Int, (bytesOfWords ws).length = 4 * ws.length
  | [] => rfl
  | w :: ws => by simp [bytesOfWords, bytesOfWords_length ws, bytesOfI32_length]; omega

theorem wordsOfBytes_bytesOfWords_append :
    ∀ (ws : List Int) (rest : List UInt8), (∀ w ∈ ws, InI32 w) →
      wordsOfBytes (bytesOfWords ws ++ rest) = ws ++ wordsOfBytes rest
  | [], rest, _ => by simp [bytesOfWords]
  | w :: ws, rest, h => by
    obtain ⟨a, b, c, d, hb, hv⟩ := i32OfBytes_bytesOfI32 (h w (List.mem_cons_self ..))
    simp only [bytesOfWords, hb, List.cons_append, List.nil_append, wordsOfBytes, hv]
    rw [wordsOfBytes_bytesOfWords_append ws rest (fun w' hw' => h w' (List.mem_cons_of_mem _ hw'))]

theorem wordsOfBytes_bytesOfWords (ws : List Int) (h : ∀ w ∈ ws, InI32 w) :
    wordsOfBytes (bytesOfWords ws) = ws := by
  have := wordsOfBytes_bytesOfWords_append ws [] h
  simpa [wordsOfBytes] using this

theorem readExact_append (a rest : List UInt8) : readExact a.length (a ++ rest) = some (a, rest) := by
  unfold readExact
  rw [if_neg (by simp)]
  simp


/-! ### the header the writer produces is the header the reader accepts -/

/-- the pieces `writeDf` lays out, as numbers -/
structure Sizes where
  nTypes : Nat
  nItems : Nat
  nData : Nat
  sizeItems : Nat
  sizeData : Nat

def Sizes.total (z : Sizes) (ver : Nat) : Nat :=
  36 + 12 * z.nTypes + 4 * z.nItems + 4 * z.nData + (if ver = 3 then 0 else 4 * z.nData)
    + z.sizeItems + z.sizeData

/-- the eight header words `writeDf` emits -/
def Sizes.headerWords (z : Sizes) (ver : Nat) : List Int :=
  [(ver : Int), ((z.total ver - 16 : Nat) : Int), ((z.total ver - 16 - z.sizeData : Nat) : Int),
   (z.nTypes : Int), (z.nItems : Int), (z.nData : Int), (z.sizeItems : Int), (z.sizeData : Int)]

def sizesOf (ver : Nat) (deflate : List UInt8 → List UInt8) (items : List Item)
    (datas : List (List UInt8)) : Sizes :=
  { nTypes := (groupTypes items 0).length, nItems := items.length, nData := datas.length,
    sizeItems := sumNat (items.map (fun it => 8 + 4 * it.data.length)),
    sizeData := sumNat ((if ver = 3 then datas else datas.map deflate).map List.length) }

theorem writeDf_eq_header_append (ver : Nat) (deflate : List UInt8 → List UInt8) (items : List Item)
    (datas : List (List UInt8)) :
    ∃ tail, writeDf ver deflate items datas
      = (magicData ++ bytesOfWords ((sizesOf ver deflate items datas).headerWords ver)) ++ tail := by
  unfold writeDf
  simp only [List.append_assoc]
  exact ⟨_, rfl⟩

theorem sumNat_items_mod4 (items : List Item) :
    sumNat (items.map (fun it => 8 + 4 * it.data.length)) % 4 = 0 := by
  induction items with
  | nil => rfl
  | cons it items ih => simp only [List.map_cons, sumNat]; omega

/-- the header struct the writer's first 36 bytes decode to -/
def writtenHeader (z : Sizes) (ver : Nat) : Header :=
  { magic := magicData, version := (ver : Int), size := ((z.total ver - 16 : Nat) : Int),
    swaplen := ((z.total ver - 16 - z.sizeData : Nat) : Int), numItemTypes := z.nTypes,
    numItems := z.nItems, numData := z.nData, sizeItems := z.sizeItems, sizeData := z.sizeData }

/-- **The writer's header is accepted.**  For versions 3 and 4 and any item/data set whose file
stays below 2 GiB, `Header::read` on the written file succeeds with the counts and sizes of what
was written, and `check_size_and_swaplen` accepts the `size`/`swaplen` fields as the *non-crude*
variant with `expected_size` = the writer's total. -/
theorem writer_header_explicit (ver : Nat) (hv : ver = 3 ∨ ver = 4)
    (deflate : List UInt8 → List UInt8) (items : List Item) (datas : List (List UInt8))
    (hmax : (sizesOf ver deflate items datas).total ver ≤ 2147483647) :
    Header.read (writeDf ver deflate items datas)
        = .ok (writtenHeader (sizesOf ver deflate items datas) ver)
      ∧ (writtenHeader (sizesOf ver deflate items datas) ver).checkSizeAndSwaplen
          = .ok { expectedSize := ((sizesOf ver deflate items datas).total ver : Nat), crude := false } := by
  obtain ⟨tail, hfile⟩ := writeDf_eq_header_append ver deflate items datas
  generalize hz : sizesOf ver deflate items datas = z at *
  have hsi4 : z.sizeItems % 4 = 0 := by rw [← hz]; exact sumNat_items_mod4 items
  have hlen : (magicData ++ bytesOfWords (z.headerWords ver)).length = headerSize := by
    simp [magicData, bytesOfWords_length, Sizes.headerWords, headerSize]
  have htot36 : 36 + z.sizeData ≤ z.total ver := by unfold Sizes.total; omega
  have hin : ∀ w ∈ z.headerWords ver, InI32 w := by
    intro w hw
    have h1 : z.total ver = 36 + 12 * z.nTypes + 4 * z.nItems + 4 * z.nData
        + (if ver = 3 then 0 else 4 * z.nData) + z.sizeItems + z.sizeData := rfl
    simp only [Sizes.headerWords, List.mem_cons, List.mem_nil_iff, or_false] at hw
    unfold InI32
    rcases hw with rfl | rfl | rfl | rfl | rfl | rfl | rfl | rfl <;> (split at h1 <;> omega)
  -- the struct `Header::read` fills
  have hbuf : Header.ofBuf (magicData ++ bytesOfWords (z.headerWords ver))
      = { magic := magicData, version := ver, size := ((z.total ver - 16 : Nat) : Int),
          swaplen := ((z.total ver - 16 - z.sizeData : Nat) : Int), numItemTypes := z.nTypes,
          numItems := z.nItems, numData := z.nData, sizeItems := z.sizeItems, sizeData := z.sizeData } := by
    unfold Header.ofBuf
    have hd : (magicData ++ bytesOfWords (z.headerWords ver)).drop 4 = bytesOfWords (z.headerWords ver) :=
      List.drop_left' (by rfl)
    have ht : (magicData ++ bytesOfWords (z.headerWords ver)).take 4 = magicData :=
      List.take_left' (by rfl)
    simp only [hd, ht, wordsOfBytes_bytesOfWords _ hin]
    rfl
  have htake : (writeDf ver deflate items datas).take headerSize
      = magicData ++ bytesOfWords (z.headerWords ver) := by
    rw [hfile]; exact List.take_left' hlen
  have hnt : z.nTypes = (groupTypes items 0).length := by rw [← hz]; rfl
  have hni : z.nItems = items.length := by rw [← hz]; rfl
  have hnd : z.nData = datas.length := by rw [← hz]; rfl
  unfold writtenHeader
  refine ⟨?_, ?_⟩
  · unfold Header.read
    simp only [htake, hlen, Nat.sub_self, List.replicate_zero, List.append_nil, hbuf]
    rw [if_neg (by simp [headerSize])]
    have hcv : Header.checkVersion
        { magic := magicData, version := (ver : Int), size := ((z.total ver - 16 : Nat) : Int),
          swaplen := ((z.total ver - 16 - z.sizeData : Nat) : Int), numItemTypes := z.nTypes,
          numItems := z.nItems, numData := z.nData, sizeItems := z.sizeItems, sizeData := z.sizeData } = none := by
      unfold Header.checkVersion
      simp only
      rw [if_neg (by simp), if_neg (by rcases hv with rfl | rfl <;> simp)]
    rw [hcv]
    simp only
    rw [if_neg (by simp)]
    have hcr : Header.checkRest
        { magic := magicData, version := (ver : Int), size := ((z.total ver - 16 : Nat) : Int),
          swaplen := ((z.total ver - 16 - z.sizeData : Nat) : Int), numItemTypes := z.nTypes,
          numItems := z.nItems, numData := z.nData, sizeItems := z.sizeItems, sizeData := z.sizeData } = true := by
      rw [Header.checkRest_iff]
      simp only
      omega
    rw [hcr]
    rfl
  · -- `check_size_and_swaplen`
    have h1 : z.total ver = 36 + 12 * z.nTypes + 4 * z.nItems + 4 * z.nData
        + (if ver = 3 then 0 else 4 * z.nData) + z.sizeItems + z.sizeData := rfl
    have htotal : Header.total
        { magic := magicData, version := (ver : Int), size := ((z.total ver - 16 : Nat) : Int),
          swaplen := ((z.total ver - 16 - z.sizeData : Nat) : Int), numItemTypes := z.nTypes,
          numItems := z.nItems, numData := z.nData, sizeItems := z.sizeItems, sizeData := z.sizeData }
        = (z.total ver : Nat) := by
      unfold Header.total
      simp only
      rcases hv with rfl | rfl <;> simp at h1 ⊢ <;> omega
    unfold Header.checkSizeAndSwaplen Header.totalSize
    simp only
    rw [if_neg (by omega)]
    unfold Header.total at htotal
    simp only at htotal
    rw [htotal, if_pos (by omega)]
    simp only
    rw [Header.sizeField_ok _ _ false (by simp) (by simp only; omega) (by omega),
      Header.sizeField_ok _ _ true (by simp) (by simp only; omega) (by omega),
      Header.swaplenField_ok _ _ false (by simp) (by simp) (by simp only; omega) (by omega),
      Header.swaplenField_ok _ _ true (by simp) (by simp) (by simp only; omega) (by omega)]
    simp only [Bool.false_eq_true, if_false, if_true]
    rw [if_neg (by omega), if_neg (by omega)]
    congr 2
    simp only [decide_eq_false_iff_not, ne_eq, Decidable.not_not]
    omega



/-- **The writer's header is accepted** (existential form). -/
theorem writer_header_accepted (ver : Nat) (hv : ver = 3 ∨ ver = 4)
    (deflate : List UInt8 → List UInt8) (items : List Item) (datas : List (List UInt8))
    (hmax : (sizesOf ver deflate items datas).total ver ≤ 2147483647) :
    ∃ h, Header.read (writeDf ver deflate items datas) = .ok h
      ∧ h.version = ver ∧ h.numItems = items.length ∧ h.numData = datas.length
      ∧ h.numItemTypes = (groupTypes items 0).length
      ∧ h.checkSizeAndSwaplen
          = .ok { expectedSize := ((sizesOf ver deflate items datas).total ver : Nat), crude := false } :=
  ⟨_, (writer_header_explicit ver hv deflate items datas hmax).1, rfl, rfl, rfl, rfl,
    (writer_header_explicit ver hv deflate items datas hmax).2⟩

/-! ### running sums, offsets, windows of a concatenation -/

theorem offsetsFrom_length : ∀ (ls : List Nat) (o : Nat), (offsetsFrom o ls).length = ls.length
  | [], _ => rfl
  | l :: ls, o => by simp [offsetsFrom, offsetsFrom_length ls]

theorem offsetsFrom_getElem? : ∀ (ls : List Nat) (o i : Nat), i < ls.length →
    (offsetsFrom o ls)[i]? = some (o + sumNat (ls.take i))
  | [], _, _, h => by simp at h
  | l :: ls, o, 0, _ => by simp [offsetsFrom, sumNat]
  | l :: ls, o, i + 1, h => by
    simp only [offsetsFrom, List.getElem?_cons_succ, List.take_succ_cons, sumNat]
    rw [offsetsFrom_getElem? ls (o + l) i (by simpa using h)]
    congr 1; omega

theorem sumNat_take_succ : ∀ (ls : List Nat) (i : Nat) (h : i < ls.length),
    sumNat (ls.take (i + 1)) = sumNat (ls.take i) + ls[i]
  | [], _, h => by simp at h
  | l :: ls, 0, _ => by simp [sumNat]
  | l :: ls, i + 1, h => by
    simp only [List.take_succ_cons, sumNat, List.getElem_cons_succ]
    rw [sumNat_take_succ ls i (by simpa using h)]; omega

theorem sumNat_take_le : ∀ (ls : List Nat) (i : Nat), sumNat (ls.take i) ≤ sumNat ls
  | [], _ => by simp [sumNat]
  | l :: ls, 0 => by simp [sumNat]
  | l :: ls, i + 1 => by
    simp only [List.take_succ_cons, sumNat]; have := sumNat_take_le ls i; omega

theorem sumNat_take_all (ls : List Nat) : sumNat (ls.take ls.length) = sumNat ls := by
  rw [List.take_length]

theorem sumNat_take_mono (ls : List Nat) {i j : Nat} (h : i ≤ j) :
    sumNat (ls.take i) ≤ sumNat (ls.take j) := by
  have : ls.take i = (ls.take j).take i := by rw [List.take_take]; congr 1; omega
  rw [this]; exact sumNat_take_le _ _

theorem concatBytes_eq_flatten : ∀ L : List (List UInt8), concatBytes L = L.flatten
  | [] => rfl
  | l :: L => by simp [concatBytes, concatBytes_eq_flatten L]

/-- the `k`-th piece of a concatenation starts at the sum of the lengths before it -/
theorem flatten_drop_sum {α : Type} : ∀ (L : List (List α)) (k : Nat) (h : k < L.length),
    L.flatten.drop (sumNat ((L.take k).map List.length)) = L[k] ++ (L.drop (k + 1)).flatten
  | [], _, h => by simp at h
  | l :: L, 0, _ => by simp [sumNat]
  | l :: L, k + 1, h => by
    simp only [List.take_succ_cons, List.map_cons, sumNat, List.flatten_cons, List.getElem_cons_succ,
      List.drop_succ_cons]
    rw [← List.drop_drop, List.drop_left' rfl]
    exact flatten_drop_sum L k (by simpa using h)

theorem sumNat_map_length_flatten {α : Type} : ∀ (L : List (List α)),
    L.flatten.length = sumNat (L.map List.length)
  | [] => rfl
  | l :: L => by simp [sumNat, sumNat_map_length_flatten L]



/-! ### the four blocks of `check` succeed on tables described by functions -/

theorem checkItems_ok_of (r : Reader) (N : Nat) (off : Nat → Nat) (hd sz : Nat → Int)
    (hsi : 0 ≤ r.sizeItems)
    (hoff : ∀ k, k < N → r.itemOffsets[k]? = some (off k : Int))
    (hhdr : ∀ k, k < N → r.itemHeader k = .ok (hd k, sz k))
    (hsz : ∀ k, k < N → 0 ≤ sz k ∧ (sz k).toNat % 4 = 0)
    (hnext : ∀ k, k < N → off (k + 1) = off k + 8 + (sz k).toNat)
    (hle : ∀ k, k ≤ N → off k ≤ off N)
    (hend : off N = r.sizeItems.toNat) :
    ∀ n i, i + n = N → checkItems r n i (off i) = .ok () := by
  intro n
  induction n with
  | zero =>
    intro i hi
    have : i = N := by omega
    subst this
    unfold checkItems
    rw [asUsize_nonneg hsi, if_neg (by omega)]
  | succ n ih =>
    intro i hi
    have hiN : i < N := by omega
    unfold checkItems
    rw [hoff i hiN]
    simp only
    have h0 : (0 : Int) ≤ (off i : Int) := by omega
    rw [if_neg (by omega), asUsize_nonneg h0, asUsize_nonneg hsi]
    have hl := hle (i + 1) (by omega)
    have hn := hnext i hiN
    obtain ⟨hs0, hs4⟩ := hsz i hiN
    rw [if_neg (by omega), if_neg (by omega), hhdr i hiN]
    simp only
    rw [if_neg (by omega), asUsize_nonneg hs0, if_neg (by omega), if_neg (by omega)]
    rw [← hn]
    exact ih (i + 1) (by omega)

theorem checkData_ok_of (r : Reader) (N : Nat) (soff : Nat → Nat)
    (hoff : ∀ k, k < N → r.dataOffsets[k]? = some (soff k : Int))
    (huds : ∀ k, k < N → udsCheck r k = none)
    (hmono : ∀ k, k + 1 < N → soff k ≤ soff (k + 1))
    (hbound : ∀ k, k < N → (soff k : Int) ≤ r.sizeData) :
    ∀ n i (prev : Int), i + n = N → (i < N → prev ≤ soff i) → checkData r n i prev = .ok () := by
  intro n
  induction n with
  | zero => intro i prev _ _; unfold checkData; rfl
  | succ n ih =>
    intro i prev hi hp
    have hiN : i < N := by omega
    unfold checkData
    rw [huds i hiN]
    simp only
    rw [hoff i hiN]
    simp only
    have := hbound i hiN
    have := hp hiN
    rw [if_neg (by omega), if_neg (by omega)]
    exact ih (i + 1) _ (by omega) (fun h => by have := hmono i h; omega)

theorem checkTypeItems_ok_of (r : Reader) (typeId : Int) (hd sz : Nat → Int) :
    ∀ n a, (∀ k, a ≤ k → k < a + n → r.itemHeader k = .ok (hd k, sz k)
        ∧ headerTypeId (hd k) = typeId % 65536) →
      checkTypeItems r typeId n a = .ok () := by
  intro n
  induction n with
  | zero => intro a _; unfold checkTypeItems; rfl
  | succ n ih =>
    intro a h
    obtain ⟨h1, h2⟩ := h a (by omega) (by omega)
    unfold checkTypeItems
    rw [h1]
    simp only
    unfold headerTypeId at h2
    rw [if_neg (by omega)]
    exact ih (a + 1) (fun k hk1 hk2 => h k (by omega) (by omega))

theorem checkTypeIds_ok_of (r : Reader) (hd sz : Nat → Int) :
    ∀ ts : List ItemType, (∀ t ∈ ts, 0 ≤ t.start ∧ 0 ≤ t.num ∧ t.start + t.num ≤ 2147483647
        ∧ ∀ k, t.start.toNat ≤ k → k < t.start.toNat + t.num.toNat →
            r.itemHeader k = .ok (hd k, sz k) ∧ headerTypeId (hd k) = t.typeId % 65536) →
      checkTypeIds r ts = .ok () := by
  intro ts
  induction ts with
  | nil => intro _; unfold checkTypeIds; rfl
  | cons t ts ih =>
    intro h
    obtain ⟨h1, h2, h3, h4⟩ := h t (List.mem_cons_self ..)
    unfold checkTypeIds
    rw [addI32_some (by omega) (by omega)]
    simp only
    rw [asUsize_nonneg (by omega : 0 ≤ t.start + t.num), asUsize_nonneg h1]
    have : (t.start + t.num).toNat - t.start.toNat = t.num.toNat := by omega
    rw [this, checkTypeItems_ok_of r t.typeId hd sz _ _ h4]
    exact ih (fun t' ht' => h t' (List.mem_cons_of_mem _ ht'))


/-! ### the type table the writer builds -/

theorem groupTypes_head (it : Item) (rest : List Item) (idx : Nat) :
    ∃ g gs, groupTypes (it :: rest) idx = g :: gs ∧ g.typeId = it.typeId ∧ g.start = idx := by
  simp only [groupTypes]
  split
  · split
    · rename_i h; exact ⟨_, _, rfl, h, rfl⟩
    · exact ⟨_, _, rfl, rfl, rfl⟩
  · exact ⟨_, _, rfl, rfl, rfl⟩

/-- one step of the first block of `check` -/
theorem checkTypes_cons_ok_iff (N : Int) (t : ItemType) (ts : List ItemType) (e : Int)
    (prev : Option Int) (seen : List Int) (he0 : 0 ≤ e) (heN : e ≤ N) (hN : N ≤ 2147483647) :
    checkTypes N (t :: ts) e prev seen = .ok () ↔
      (0 ≤ t.typeId ∧ t.typeId < 65536) ∧ notAbovePrev prev t.typeId = false ∧ t.start = e
        ∧ 0 ≤ t.num ∧ t.num ≤ N - e ∧ seen.contains t.typeId = false
        ∧ checkTypes N ts (e + t.num) (some t.typeId) (seen ++ [t.typeId]) = .ok () := by
  constructor
  · intro h
    unfold checkTypes at h
    split at h; · cases h
    rename_i h1
    split at h; · cases h
    rename_i h2
    split at h; · cases h
    rename_i h3
    split at h; · cases h
    rename_i h4
    have h3 : t.start = e := by simpa using h3
    rw [h3, subI32_some (by omega) (by omega)] at h
    simp only at h
    split at h; · cases h
    rename_i h5
    rw [addI32_some (by omega) (by omega)] at h
    simp only at h
    split at h; · cases h
    rename_i h6
    exact ⟨by simpa using h1, by simpa using h2, h3, by omega, by omega, by simpa using h6, h⟩
  · rintro ⟨h1, h2, h3, h4, h5, h6, h7⟩
    unfold checkTypes
    rw [if_neg (by simp; omega), h2]
    simp only [Bool.false_eq_true, if_false]
    rw [if_neg (by simp [h3]), if_neg (by omega), h3, subI32_some (by omega) (by omega)]
    simp only
    rw [if_neg (by omega), addI32_some (by omega) (by omega)]
    simp only
    rw [h6]
    simpa using h7


theorem contains_false_of_lt {seen : List Int} {v : Int} (h : ∀ s ∈ seen, s < v) :
    seen.contains v = false := by
  apply Bool.eq_false_iff.2
  intro hc
  have := List.contains_iff_mem.1 hc
  have := h v this
  omega

theorem notAbovePrev_false {prev : Option Int} {v : Int} (h : ∀ p, prev = some p → p < v) :
    notAbovePrev prev v = false := by
  unfold notAbovePrev
  split
  · rename_i p; have := h p rfl; simp; omega
  · rfl

/-- the first block of `check` accepts the writer's type table -/
theorem checkTypes_groupTypes (N : Nat) (hN : N ≤ 2147483647) :
    ∀ (items : List Item) (idx : Nat) (prev : Option Int) (seen : List Int),
      items.Pairwise (fun a b => a.typeId ≤ b.typeId) → (∀ it ∈ items, it.typeId < 65536) →
      N = idx + items.length →
      (∀ p, prev = some p → ∀ it ∈ items, p < (it.typeId : Int)) →
      (∀ s ∈ seen, ∀ it ∈ items, s < (it.typeId : Int)) →
      checkTypes (N : Int) (groupTypes items idx) (idx : Int) prev seen = .ok () := by
  intro items
  induction items with
  | nil =>
    intro idx prev seen _ _ hlen _ _
    simp only [groupTypes, checkTypes]
    rw [if_neg (by simp at hlen; omega)]
  | cons it rest ih =>
    intro idx prev seen hsort h16 hlen hprev hseen
    have hlen' : N = (idx + 1) + rest.length := by simp at hlen; omega
    have hsort' := (List.pairwise_cons.1 hsort).2
    have hhead := (List.pairwise_cons.1 hsort).1
    have h16' : ∀ it' ∈ rest, it'.typeId < 65536 := fun it' h => h16 it' (List.mem_cons_of_mem _ h)
    have htid := h16 it (List.mem_cons_self ..)
    have hnp : notAbovePrev prev (it.typeId : Int) = false :=
      notAbovePrev_false (fun p hp => hprev p hp it (List.mem_cons_self ..))
    have hsc : seen.contains (it.typeId : Int) = false :=
      contains_false_of_lt (fun s hs => hseen s hs it (List.mem_cons_self ..))
    simp only [groupTypes]
    cases hG : groupTypes rest (idx + 1) with
    | nil =>
      have hrest : rest = [] := by
        cases rest with
        | nil => rfl
        | cons r0 rest' =>
          obtain ⟨g, gs, hg, _⟩ := groupTypes_head r0 rest' (idx + 1)
          rw [hg] at hG; cases hG
      subst hrest
      simp only
      rw [checkTypes_cons_ok_iff _ _ _ _ _ _ (by omega) (by omega) (by omega)]
      refine ⟨⟨by simp, by simp; omega⟩, hnp, rfl, by simp, by simp at hlen ⊢; omega, hsc, ?_⟩
      simp only [checkTypes]
      rw [if_neg (by simp at hlen ⊢; omega)]
    | cons g gs =>
      obtain ⟨r0, rest', hr⟩ : ∃ r0 rest', rest = r0 :: rest' := by
        cases rest with
        | nil => simp [groupTypes] at hG
        | cons r0 rest' => exact ⟨r0, rest', rfl⟩
      obtain ⟨g', gs', hg', hgt, hgs⟩ := groupTypes_head r0 rest' (idx + 1)
      rw [← hr, hG] at hg'
      cases hg'
      simp only
      by_cases hsame : g.typeId = (it.typeId : Int)
      · rw [if_pos hsame]
        have := ih (idx + 1) prev seen hsort' h16' hlen'
          (fun p hp it' h' => hprev p hp it' (List.mem_cons_of_mem _ h'))
          (fun s hs it' h' => hseen s hs it' (List.mem_cons_of_mem _ h'))
        rw [hG] at this
        have hcast : ((idx + 1 : Nat) : Int) = (idx : Int) + 1 := by omega
        rw [hcast, checkTypes_cons_ok_iff _ _ _ _ _ _ (by omega) (by omega) (by omega)] at this
        obtain ⟨a1, a2, a3, a4, a5, a6, a7⟩ := this
        rw [checkTypes_cons_ok_iff _ _ _ _ _ _ (by omega) (by omega) (by omega)]
        refine ⟨a1, a2, rfl, by simp only; omega, by simp only; omega, a6, ?_⟩
        simp only
        have : (idx : Int) + (g.num + 1) = (idx : Int) + 1 + g.num := by omega
        rw [this]; exact a7
      · rw [if_neg hsame]
        have hlt0 : it.typeId < r0.typeId := by
          have h1 := hhead r0 (by rw [hr]; exact List.mem_cons_self ..)
          have : (r0.typeId : Int) ≠ (it.typeId : Int) := by rw [← hgt]; exact hsame
          omega
        have hlt : ∀ it' ∈ rest, (it.typeId : Int) < (it'.typeId : Int) := by
          intro it' h'
          rw [hr] at h' hsort'
          cases h' with
          | head => omega
          | tail _ hm => have := (List.pairwise_cons.1 hsort').1 it' hm; omega
        have := ih (idx + 1) (some (it.typeId : Int)) (seen ++ [(it.typeId : Int)]) hsort' h16' hlen'
          (fun p hp it' h' => by cases hp; exact hlt it' h')
          (fun s hs it' h' => by
            rcases List.mem_append.1 hs with h1 | h1
            · exact hseen s h1 it' (List.mem_cons_of_mem _ h')
            · simp at h1; subst h1; exact hlt it' h')
        rw [hG] at this
        rw [checkTypes_cons_ok_iff _ _ _ _ _ _ (by omega) (by omega) (by omega)]
        refine ⟨⟨by simp, by simp; omega⟩, hnp, rfl, by simp, by simp only; omega, hsc, ?_⟩
        simp only
        have hcast : ((idx + 1 : Nat) : Int) = (idx : Int) + 1 := by omega
        rw [← hcast]; exact this


/-- every entry of the writer's type table covers a run of items of its type -/
def Covers (items : List Item) (idx : Nat) (t : ItemType) : Prop :=
  ∃ a n : Nat, t.start = ((idx + a : Nat) : Int) ∧ t.num = (n : Int) ∧ a + n ≤ items.length
    ∧ ∀ j, j < n → ∃ it, items[a + j]? = some it ∧ (it.typeId : Int) = t.typeId

theorem covers_shift {it : Item} {rest : List Item} {idx : Nat} {t : ItemType}
    (h : Covers rest (idx + 1) t) : Covers (it :: rest) idx t := by
  obtain ⟨a, n, h1, h2, h3, h4⟩ := h
  refine ⟨a + 1, n, by rw [h1]; congr 1; omega, h2, by simp; omega, ?_⟩
  intro j hj
  obtain ⟨it', hi, ht⟩ := h4 j hj
  refine ⟨it', ?_, ht⟩
  have : a + 1 + j = (a + j) + 1 := by omega
  rw [this, List.getElem?_cons_succ]; exact hi

theorem groupTypes_covers : ∀ (items : List Item) (idx : Nat), ∀ t ∈ groupTypes items idx, Covers items idx t := by
  intro items
  induction items with
  | nil => intro idx t ht; simp [groupTypes] at ht
  | cons it rest ih =>
    intro idx t ht
    simp only [groupTypes] at ht
    have single : Covers (it :: rest) idx { typeId := it.typeId, start := idx, num := 1 } :=
      ⟨0, 1, rfl, rfl, by simp, fun j hj => by
        have : j = 0 := by omega
        subst this
        exact ⟨it, rfl, rfl⟩⟩
    cases hG : groupTypes rest (idx + 1) with
    | nil =>
      rw [hG] at ht
      simp only [List.mem_singleton] at ht
      subst ht; exact single
    | cons g gs =>
      rw [hG] at ht
      simp only at ht
      have hgmem : ∀ t' ∈ g :: gs, Covers rest (idx + 1) t' := fun t' h' => ih (idx + 1) t' (by rw [hG]; exact h')
      split at ht
      · rename_i hsame
        cases ht with
        | head =>
          obtain ⟨a, n, h1, h2, h3, h4⟩ := hgmem g (List.mem_cons_self ..)
          obtain ⟨r0, rest', hr⟩ : ∃ r0 rest', rest = r0 :: rest' := by
            cases rest with
            | nil => simp [groupTypes] at hG
            | cons r0 rest' => exact ⟨r0, rest', rfl⟩
          obtain ⟨g', gs', hg', _, hgs⟩ := groupTypes_head r0 rest' (idx + 1)
          rw [← hr, hG] at hg'
          cases hg'
          have ha : a = 0 := by rw [hgs] at h1; omega
          subst ha
          refine ⟨0, n + 1, rfl, by simp only; omega, by simp; omega, ?_⟩
          intro j hj
          cases j with
          | zero => exact ⟨it, rfl, hsame.symm⟩
          | succ j =>
            obtain ⟨it', hi, hty⟩ := h4 j (by omega)
            refine ⟨it', ?_, hty⟩
            simp only [Nat.zero_add] at hi ⊢
            rw [List.getElem?_cons_succ]; exact hi
        | tail _ hm => exact covers_shift (hgmem t (List.mem_cons_of_mem _ hm))
      · cases ht with
        | head => exact single
        | tail _ hm => exact covers_shift (hgmem t hm)



/-! ### words that do not fit an `i32` wrap around; the item area as words -/

/-- what reading back a written word yields: the value modulo 2^32 as an `i32` -/
def wrapI32 (v : Int) : Int :=
  if v % 4294967296 < 2147483648 then v % 4294967296 else v % 4294967296 - 4294967296

theorem wrapI32_of_in {v : Int} (h : InI32 v) : wrapI32 v = v := by
  unfold InI32 at h; unfold wrapI32; split <;> omega

theorem i32OfBytes_bytesOfI32_wrap (v : Int) :
    ∃ a b c d, bytesOfI32 v = [a, b, c, d] ∧ i32OfBytes a b c d = wrapI32 v := by
  refine ⟨_, _, _, _, rfl, ?_⟩
  unfold i32OfBytes wrapI32
  simp only [u8_toNat_ofNat_mod]
  have hn : ((v % 4294967296).toNat : Int) = v % 4294967296 := by omega
  split <;> split <;> omega

theorem wordsOfBytes_bytesOfWords_wrap_append :
    ∀ (ws : List Int) (rest : List UInt8),
      wordsOfBytes (bytesOfWords ws ++ rest) = ws.map wrapI32 ++ wordsOfBytes rest
  | [], rest => by simp [bytesOfWords]
  | w :: ws, rest => by
    obtain ⟨a, b, c, d, hb, hv⟩ := i32OfBytes_bytesOfI32_wrap w
    simp only [bytesOfWords, hb, List.cons_append, List.nil_append, wordsOfBytes, hv, List.map_cons]
    rw [wordsOfBytes_bytesOfWords_wrap_append ws rest]

theorem wordsOfBytes_bytesOfWords_wrap (ws : List Int) :
    wordsOfBytes (bytesOfWords ws) = ws.map wrapI32 := by
  have := wordsOfBytes_bytesOfWords_wrap_append ws []
  simpa [wordsOfBytes] using this

theorem bytesOfWords_append : ∀ (a b : List Int), bytesOfWords (a ++ b) = bytesOfWords a ++ bytesOfWords b
  | [], b => rfl
  | x :: a, b => by simp [bytesOfWords, bytesOfWords_append a b]

/-- the words of one item as written -/
def itemWords (it : Item) : List Int :=
  ((it.typeId * 65536 + it.id : Nat) : Int) :: ((4 * it.data.length : Nat) : Int) :: it.data

theorem itemBytes_eq (it : Item) : itemBytes it = bytesOfWords (itemWords it) := by
  simp [itemBytes, itemWords, bytesOfWords, List.append_assoc]

theorem concatBytes_items (items : List Item) :
    concatBytes (items.map itemBytes) = bytesOfWords (items.flatMap itemWords) := by
  induction items with
  | nil => rfl
  | cons it items ih =>
    simp only [List.map_cons, concatBytes, List.flatMap_cons, bytesOfWords_append, ih, itemBytes_eq]

/-- the words of one item as read back -/
def itemWordsR (it : Item) : List Int :=
  wrapI32 ((it.typeId * 65536 + it.id : Nat) : Int) :: ((4 * it.data.length : Nat) : Int) :: it.data

theorem map_wrapI32_of_in : ∀ (ws : List Int), (∀ w ∈ ws, InI32 w) → ws.map wrapI32 = ws
  | [], _ => rfl
  | w :: ws, h => by
    simp only [List.map_cons]
    rw [wrapI32_of_in (h w (List.mem_cons_self ..)),
      map_wrapI32_of_in ws (fun w' h' => h w' (List.mem_cons_of_mem _ h'))]

theorem itemWords_wrap {it : Item} (hd : ∀ w ∈ it.data, InI32 w) (hl : 4 * it.data.length ≤ 2147483647) :
    (itemWords it).map wrapI32 = itemWordsR it := by
  simp only [itemWords, itemWordsR, List.map_cons]
  rw [wrapI32_of_in (v := ((4 * it.data.length : Nat) : Int)) (by unfold InI32; omega),
    map_wrapI32_of_in _ hd]




/-! ### reading items and data out of a laid-out reader -/

/-- `item_header(k)` / `item(k)` when the item area holds `hdr, size, data` at word `o` -/
theorem item_of_layout {r : Reader} {k o : Nat} {hdr : Int} {data rest : List Int}
    (ho : r.itemOffsets[k]? = some ((4 * o : Nat) : Int))
    (hd : r.itemsRaw.drop o = hdr :: ((4 * data.length : Nat) : Int) :: (data ++ rest)) :
    r.itemHeader k = .ok (hdr, ((4 * data.length : Nat) : Int))
      ∧ r.item k = .ok { typeId := (hdr % 4294967296).toNat / 65536,
                         id := (hdr % 4294967296).toNat % 65536,
                         off := o + 2, len := data.length, data := data } := by
  have hlen : o + 2 + data.length ≤ r.itemsRaw.length := by
    have := congrArg List.length hd
    simp only [List.length_drop, List.length_cons, List.length_append] at this
    omega
  have hw : ((4 * o : Nat) : Int).toNat / 4 = o := by omega
  have hw4 : ((4 * o : Nat) : Int).toNat % 4 = 0 := by omega
  have hs : ((4 * data.length : Nat) : Int).toNat / 4 = data.length := by omega
  have hs4 : ((4 * data.length : Nat) : Int).toNat % 4 = 0 := by omega
  have hhdr : r.itemHeader k = .ok (hdr, ((4 * data.length : Nat) : Int)) := by
    unfold Reader.itemHeader
    rw [ho]
    simp only
    rw [if_neg (by omega), if_neg (by omega), hw, if_neg (by omega), hd]
  refine ⟨hhdr, ?_⟩
  unfold Reader.item
  rw [hhdr]
  simp only
  rw [ho]
  simp only
  rw [if_neg (by omega), if_neg (by omega), hw, if_neg (by omega), if_neg (by omega),
    if_neg (by omega), if_neg (by omega), hs, if_neg (by omega)]
  have hdd : r.itemsRaw.drop (o + 2) = data ++ rest := by
    have := congrArg (List.drop 2) hd
    simpa [List.drop_drop, Nat.add_comm] using this
  rw [hdd]
  congr 2
  exact List.take_left' rfl

/-- `read_data(i)` when the offsets are the running sums of the stored blocks and the data
section is their concatenation -/
theorem readData_of_layout {r : Reader} (stored : List (List UInt8))
    (inflate : Nat → List UInt8 → Option (List UInt8))
    (hoffs : r.dataOffsets = (offsetsFrom 0 (stored.map List.length)).map (fun (n : Nat) => (n : Int)))
    (hreg : r.dataRegion = stored.flatten)
    (hsd : r.sizeData = ((sumNat (stored.map List.length) : Nat) : Int))
    (hmax : r.sizeData ≤ 2147483647)
    {i : Nat} (hi : i < stored.length) :
    r.readData inflate i =
      match r.uncompSizes with
      | some uds =>
        match uds[i]? with
        | none => .panic "read_data: uncomp_data_sizes[index]"
        | some u =>
          match inflate (asUsize u) stored[i] with
          | none => .err .compressionError
          | some out =>
            if out.length > asUsize u then .panic "zlib wrote past the destination buffer"
            else if out.length = asUsize u then .ok out
            else .err .compressionWrongSize
      | none => .ok stored[i] := by
  have hlen : r.dataOffsets.length = stored.length := by
    rw [hoffs]; simp [offsetsFrom_length]
  have hget : ∀ j, j < stored.length →
      r.dataOffsets[j]? = some ((sumNat ((stored.map List.length).take j) : Nat) : Int) := by
    intro j hj
    rw [hoffs, List.getElem?_map, offsetsFrom_getElem? _ _ _ (by simpa using hj)]
    simp
  have hsucc := sumNat_take_succ (stored.map List.length) i (by simpa using hi)
  simp only [List.getElem_map] at hsucc
  have hle := sumNat_take_le (stored.map List.length) (i + 1)
  have hsize : r.dataSizeFile i = .ok stored[i].length := by
    unfold Reader.dataSizeFile
    rw [hget i hi]
    simp only
    rw [if_neg (by omega)]
    by_cases hlast : i < r.dataOffsets.length - 1
    · rw [if_pos hlast, hget (i + 1) (by omega)]
      simp only
      rw [asUsize_nonneg (by omega), asUsize_nonneg (by omega), if_pos (by omega)]
      congr 1; omega
    · rw [if_neg hlast]
      simp only
      have hall : sumNat ((stored.map List.length).take (i + 1)) = sumNat (stored.map List.length) := by
        have : i + 1 = (stored.map List.length).length := by simp; omega
        rw [this, List.take_length]
      rw [hsd, asUsize_nonneg (by omega), asUsize_nonneg (by omega), if_pos (by omega)]
      congr 1; omega
  have hraw : (r.dataRegion.drop (sumNat ((stored.map List.length).take i))).take stored[i].length
      = stored[i] := by
    rw [hreg, ← List.map_take, flatten_drop_sum stored i hi]
    exact List.take_left' rfl
  unfold Reader.readData
  rw [hsize]
  simp only
  rw [hget i hi]
  simp only
  have hmod : (((sumNat ((stored.map List.length).take i) : Nat) : Int) % 4294967296).toNat
      = sumNat ((stored.map List.length).take i) := by
    rw [hsd] at hmax; omega
  rw [hmod, hraw]
  simp only [ne_eq, not_true_eq_false, if_false]
  rfl


/-! ### the reader the written file parses to -/

def storedOf (ver : Nat) (deflate : List UInt8 → List UInt8) (datas : List (List UInt8)) :
    List (List UInt8) := if ver = 3 then datas else datas.map deflate

def itemByteSize (it : Item) : Nat := 8 + 4 * it.data.length

/-- the tables `Reader::new` obtains from `writeDf ver deflate items datas` -/
def writtenReader (ver : Nat) (deflate : List UInt8 → List UInt8) (items : List Item)
    (datas : List (List UInt8)) : Reader :=
  { version := if ver = 3 then .v3 else .v4
    numItemTypes := ((groupTypes items 0).length : Nat)
    numItems := (items.length : Nat)
    numData := (datas.length : Nat)
    sizeItems := (sumNat (items.map itemByteSize) : Nat)
    sizeData := (sumNat ((storedOf ver deflate datas).map List.length) : Nat)
    itemTypes := groupTypes items 0
    itemOffsets := (offsetsFrom 0 (items.map itemByteSize)).map (fun (n : Nat) => (n : Int))
    dataOffsets := (offsetsFrom 0 ((storedOf ver deflate datas).map List.length)).map (fun (n : Nat) => (n : Int))
    uncompSizes := if ver = 3 then none else some (datas.map (fun d => ((d.length : Nat) : Int)))
    itemsRaw := (items.map itemWordsR).flatten
    dataRegion := (storedOf ver deflate datas).flatten }

theorem sumNat_take_map_mul4 {α : Type} (f g : α → Nat) (h : ∀ x, f x = 4 * g x) :
    ∀ (l : List α) (k : Nat), sumNat ((l.map f).take k) = 4 * sumNat ((l.map g).take k)
  | [], k => by simp [sumNat]
  | x :: l, 0 => by simp [sumNat]
  | x :: l, k + 1 => by
    simp only [List.map_cons, List.take_succ_cons, sumNat, h x, sumNat_take_map_mul4 f g h l k]; omega

/-- the header word of an item as read back -/
def itemHdrR (it : Item) : Int := wrapI32 ((it.typeId * 65536 + it.id : Nat) : Int)

theorem itemHdrR_toNat {it : Item} (h1 : it.typeId < 65536) (h2 : it.id < 65536) :
    (itemHdrR it % 4294967296).toNat = it.typeId * 65536 + it.id := by
  unfold itemHdrR wrapI32
  split <;> omega

/-- item `k` of the written reader -/
theorem writtenReader_item (ver : Nat) (deflate : List UInt8 → List UInt8) (items : List Item)
    (datas : List (List UInt8)) {k : Nat} (hk : k < items.length) :
    let r := writtenReader ver deflate items datas
    r.itemOffsets[k]? = some ((sumNat ((items.map itemByteSize).take k) : Nat) : Int)
      ∧ r.itemHeader k = .ok (itemHdrR items[k], ((4 * items[k].data.length : Nat) : Int))
      ∧ r.item k = .ok { typeId := (itemHdrR items[k] % 4294967296).toNat / 65536,
                         id := (itemHdrR items[k] % 4294967296).toNat % 65536,
                         off := sumNat (((items.map itemWordsR).take k).map List.length) + 2,
                         len := items[k].data.length, data := items[k].data } := by
  intro r
  have hoff : r.itemOffsets[k]? = some ((sumNat ((items.map itemByteSize).take k) : Nat) : Int) := by
    show ((offsetsFrom 0 (items.map itemByteSize)).map (fun (n : Nat) => (n : Int)))[k]? = _
    rw [List.getElem?_map, offsetsFrom_getElem? _ _ _ (by simpa using hk)]
    simp
  have hmul : sumNat ((items.map itemByteSize).take k)
      = 4 * sumNat (((items.map itemWordsR).take k).map List.length) := by
    have e1 : ((items.map itemWordsR).take k).map List.length
        = (items.map (List.length ∘ itemWordsR)).take k := by
      rw [← List.map_take, List.map_map, List.map_take]
    rw [e1]
    exact sumNat_take_map_mul4 itemByteSize (List.length ∘ itemWordsR)
      (fun it => by simp [itemByteSize, itemWordsR]; omega) items k
  have hdrop : r.itemsRaw.drop (sumNat (((items.map itemWordsR).take k).map List.length))
      = itemHdrR items[k] :: ((4 * items[k].data.length : Nat) : Int)
          :: (items[k].data ++ ((items.map itemWordsR).drop (k + 1)).flatten) := by
    show ((items.map itemWordsR).flatten).drop _ = _
    rw [flatten_drop_sum _ k (by simpa using hk)]
    simp [itemWordsR, itemHdrR]
  rw [hmul] at hoff
  obtain ⟨h1, h2⟩ := item_of_layout hoff hdrop
  rw [← hmul] at hoff
  exact ⟨hoff, h1, h2⟩


theorem headerTypeId_itemHdrR {it : Item} (h1 : it.typeId < 65536) (h2 : it.id < 65536) :
    headerTypeId (itemHdrR it) = (it.typeId : Int) := by
  have := itemHdrR_toNat h1 h2
  unfold headerTypeId
  have h0 : 0 ≤ itemHdrR it % 4294967296 := by omega
  omega

/-- `check` accepts the tables of the written reader -/
theorem writtenReader_check (ver : Nat) (deflate : List UInt8 → List UInt8) (items : List Item)
    (datas : List (List UInt8))
    (h16 : ∀ it ∈ items, it.typeId < 65536 ∧ it.id < 65536)
    (hsort : items.Pairwise (fun a b => a.typeId ≤ b.typeId))
    (hN : items.length ≤ 2147483647) :
    (writtenReader ver deflate items datas).check = .ok () := by
  let hd : Nat → Int := fun k => itemHdrR (items.getD k default)
  let sz : Nat → Int := fun k => ((4 * (items.getD k default).data.length : Nat) : Int)
  have hget : ∀ k (hk : k < items.length), items.getD k default = items[k] := by
    intro k hk; simp [List.getD, List.getElem?_eq_getElem hk]
  have hitem : ∀ k, k < items.length →
      (writtenReader ver deflate items datas).itemHeader k = .ok (hd k, sz k) := by
    intro k hk
    have := (writtenReader_item ver deflate items datas hk).2.1
    simp only [hd, sz, hget k hk]; exact this
  unfold Reader.check
  -- first block
  have b1 : checkTypes (writtenReader ver deflate items datas).numItems
      (writtenReader ver deflate items datas).itemTypes 0 none [] = .ok () := by
    have := checkTypes_groupTypes items.length hN items 0 none [] hsort (fun it h => (h16 it h).1)
      (by simp) (fun p hp => by cases hp) (fun s hs => by cases hs)
    simpa [writtenReader] using this
  rw [b1]
  simp only
  -- second block
  have b2 : checkItems (writtenReader ver deflate items datas)
      (asUsize (writtenReader ver deflate items datas).numItems) 0 0 = .ok () := by
    have hnum : asUsize (writtenReader ver deflate items datas).numItems = items.length := by
      show asUsize ((items.length : Nat) : Int) = items.length
      rw [asUsize_nonneg (by omega)]; omega
    rw [hnum]
    have := checkItems_ok_of (writtenReader ver deflate items datas) items.length
      (fun k => sumNat ((items.map itemByteSize).take k)) hd sz
      (by simp [writtenReader])
      (fun k hk => (writtenReader_item ver deflate items datas hk).1)
      hitem
      (fun k hk => by simp only [sz]; omega)
      (fun k hk => by
        have := sumNat_take_succ (items.map itemByteSize) k (by simpa using hk)
        simp only [List.getElem_map, itemByteSize] at this
        simp only [sz, hget k hk]
        rw [this]; omega)
      (fun k hk => sumNat_take_mono _ hk)
      (by
        have : items.length = (items.map itemByteSize).length := by simp
        rw [this, List.take_length]; simp [writtenReader])
      items.length 0 (by omega)
    simpa [sumNat] using this
  rw [b2]
  simp only
  -- third block
  have hslen : (storedOf ver deflate datas).length = datas.length := by
    unfold storedOf; split <;> simp
  have b3 : checkData (writtenReader ver deflate items datas)
      (asUsize (writtenReader ver deflate items datas).numData) 0 0 = .ok () := by
    have hnum : asUsize (writtenReader ver deflate items datas).numData = datas.length := by
      show asUsize ((datas.length : Nat) : Int) = datas.length
      rw [asUsize_nonneg (by omega)]; omega
    rw [hnum]
    exact checkData_ok_of (writtenReader ver deflate items datas) datas.length
      (fun k => sumNat (((storedOf ver deflate datas).map List.length).take k))
      (fun k hk => by
        show ((offsetsFrom 0 ((storedOf ver deflate datas).map List.length)).map
          (fun (n : Nat) => (n : Int)))[k]? = _
        rw [List.getElem?_map, offsetsFrom_getElem? _ _ _ (by simpa [hslen] using hk)]
        simp)
      (fun k hk => by
        unfold udsCheck
        show (match (if ver = 3 then none else some (datas.map (fun d => ((d.length : Nat) : Int)))) with
          | some uds => _ | none => _) = none
        split
        · rename_i uds hu
          split at hu
          · cases hu
          · cases hu
            rw [List.getElem?_map, List.getElem?_eq_getElem hk]
            simp only [Option.map_some]
            rw [if_neg (by omega)]
        · rfl)
      (fun k _ => sumNat_take_mono _ (by omega))
      (fun k _ => by
        show ((sumNat (((storedOf ver deflate datas).map List.length).take k) : Nat) : Int)
          ≤ ((sumNat ((storedOf ver deflate datas).map List.length) : Nat) : Int)
        have := sumNat_take_le ((storedOf ver deflate datas).map List.length) k
        omega)
      datas.length 0 0 (by omega) (fun _ => by simp [sumNat])
  rw [b3]
  simp only
  -- fourth block
  refine checkTypeIds_ok_of (writtenReader ver deflate items datas) hd sz _ ?_
  intro t ht
  obtain ⟨a, n, h1, h2, h3, h4⟩ := groupTypes_covers items 0 t ht
  refine ⟨by omega, by omega, by omega, ?_⟩
  intro k hk1 hk2
  have hkN : k < items.length := by omega
  refine ⟨hitem k hkN, ?_⟩
  obtain ⟨it, hit, hty⟩ := h4 (k - a) (by omega)
  have hka : a + (k - a) = k := by omega
  rw [hka, List.getElem?_eq_getElem hkN] at hit
  cases hit
  simp only [hd, hget k hkN]
  have hb := h16 items[k] (List.getElem_mem hkN)
  rw [headerTypeId_itemHdrR hb.1 hb.2, ← hty]
  omega




/-! ### `Reader::new` on the written file -/

def typeWords (types : List ItemType) : List Int := types.flatMap (fun t => [t.typeId, t.start, t.num])

theorem writeDf_layout (ver : Nat) (deflate : List UInt8 → List UInt8) (items : List Item)
    (datas : List (List UInt8)) :
    writeDf ver deflate items datas =
      (magicData ++ bytesOfWords ((sizesOf ver deflate items datas).headerWords ver)) ++
      (bytesOfWords (typeWords (groupTypes items 0)) ++
      (bytesOfWords ((offsetsFrom 0 (items.map itemByteSize)).map (fun (n : Nat) => (n : Int))) ++
      (bytesOfWords ((offsetsFrom 0 ((storedOf ver deflate datas).map List.length)).map
          (fun (n : Nat) => (n : Int))) ++
      ((if ver = 3 then [] else bytesOfWords (datas.map (fun d => ((d.length : Nat) : Int)))) ++
      (bytesOfWords (items.flatMap itemWords) ++ (storedOf ver deflate datas).flatten))))) := by
  unfold writeDf
  simp only [List.append_assoc]
  rw [concatBytes_items, concatBytes_eq_flatten]
  rfl

theorem typesOfWords_typeWords : ∀ (ts : List ItemType), typesOfWords (typeWords ts) = ts
  | [] => rfl
  | t :: ts => by
    simp only [typeWords, List.flatMap_cons, List.cons_append, List.nil_append, typesOfWords]
    congr 1
    exact typesOfWords_typeWords ts

theorem typeWords_length (ts : List ItemType) : (typeWords ts).length = 3 * ts.length := by
  induction ts with
  | nil => rfl
  | cons t ts ih => simp only [typeWords, List.flatMap_cons, List.length_append, List.length_cons,
      List.length_nil] at ih ⊢; omega

theorem readExact_of_length {n : Nat} {a rest : List UInt8} (h : a.length = n) :
    readExact n (a ++ rest) = some (a, rest) := by
  subst h; exact readExact_append a rest


theorem offsetsFrom_le : ∀ (ls : List Nat) (o x : Nat), x ∈ offsetsFrom o ls → x ≤ o + sumNat ls
  | [], _, _, h => by simp [offsetsFrom] at h
  | l :: ls, o, x, h => by
    simp only [offsetsFrom, List.mem_cons] at h
    simp only [sumNat]
    rcases h with rfl | h
    · omega
    · have := offsetsFrom_le ls (o + l) x h; omega

theorem flatMap_itemWords_length (items : List Item) :
    4 * (items.flatMap itemWords).length = sumNat (items.map itemByteSize) := by
  induction items with
  | nil => rfl
  | cons it items ih =>
    simp only [List.flatMap_cons, List.length_append, List.map_cons, sumNat, itemByteSize, itemWords,
      List.length_cons] at ih ⊢
    omega

theorem itemByteSize_le_sum {items : List Item} {it : Item} (h : it ∈ items) :
    itemByteSize it ≤ sumNat (items.map itemByteSize) := by
  induction items with
  | nil => cases h
  | cons x items ih =>
    simp only [List.map_cons, sumNat]
    cases h with
    | head => omega
    | tail _ hm => have := ih hm; omega

theorem flatMap_itemWords_wrap (items : List Item)
    (hw : ∀ it ∈ items, ∀ w ∈ it.data, InI32 w)
    (hs : sumNat (items.map itemByteSize) ≤ 2147483647) :
    (items.flatMap itemWords).map wrapI32 = (items.map itemWordsR).flatten := by
  induction items with
  | nil => rfl
  | cons it items ih =>
    have h1 : itemByteSize it ≤ 2147483647 := by
      have := itemByteSize_le_sum (items := it :: items) (List.mem_cons_self ..); omega
    simp only [List.map_cons, sumNat] at hs
    simp only [List.flatMap_cons, List.map_append, List.map_cons, List.flatten_cons]
    rw [itemWords_wrap (hw it (List.mem_cons_self ..)) (by unfold itemByteSize at h1; omega),
      ih (fun it' h' => hw it' (List.mem_cons_of_mem _ h')) (by omega)]

/-- what the writer accepts: the preconditions of the round trip -/
structure Writable (ver : Nat) (deflate : List UInt8 → List UInt8) (items : List Item)
    (datas : List (List UInt8)) : Prop where
  version : ver = 3 ∨ ver = 4
  ids : ∀ it ∈ items, it.typeId < 65536 ∧ it.id < 65536
  words : ∀ it ∈ items, ∀ w ∈ it.data, InI32 w
  sorted : items.Pairwise (fun a b => a.typeId ≤ b.typeId)
  total : (sizesOf ver deflate items datas).total ver ≤ 2147483647
  dataLen : ∀ d ∈ datas, d.length ≤ 2147483647

theorem storedOf_length (ver : Nat) (deflate : List UInt8 → List UInt8) (datas : List (List UInt8)) :
    (storedOf ver deflate datas).length = datas.length := by
  unfold storedOf; split <;> simp


/-- **`Reader::new` on a written file yields exactly the writer's tables.** -/
theorem new_writeDf (ver : Nat) (deflate : List UInt8 → List UInt8) (items : List Item)
    (datas : List (List UInt8)) (wr : Writable ver deflate items datas) :
    Reader.new (writeDf ver deflate items datas) = .ok (writtenReader ver deflate items datas) := by
  obtain ⟨hread, hcheck⟩ := writer_header_explicit ver wr.version deflate items datas wr.total
  have hz : (sizesOf ver deflate items datas).total ver
      = 36 + 12 * (groupTypes items 0).length + 4 * items.length + 4 * datas.length
        + (if ver = 3 then 0 else 4 * datas.length) + sumNat (items.map itemByteSize)
        + sumNat ((storedOf ver deflate datas).map List.length) := rfl
  have htot := wr.total
  rw [hz] at htot
  have hN : items.length ≤ 2147483647 := by omega
  have hsi : sumNat (items.map itemByteSize) ≤ 2147483647 := by omega
  have hsd : sumNat ((storedOf ver deflate datas).map List.length) ≤ 2147483647 := by omega
  have hslen := storedOf_length ver deflate datas
  -- every table word fits an i32
  have hck := checkTypes_groupTypes items.length hN items 0 none [] wr.sorted (fun it h => (wr.ids it h).1)
    (by simp) (fun p hp => by cases hp) (fun s hs => by cases hs)
  have htok := checkTypes_ok (items.length : Int) _ _ _ _ (by simp) hck
  have hTin : ∀ w ∈ typeWords (groupTypes items 0), InI32 w := by
    intro w hw
    simp only [typeWords, List.mem_flatMap] at hw
    obtain ⟨t, ht, hw⟩ := hw
    obtain ⟨a1, a2, a3, a4, a5⟩ := htok t ht
    simp only [List.mem_cons, List.mem_nil_iff, or_false] at hw
    unfold InI32
    rcases hw with rfl | rfl | rfl <;> omega
  have hIOin : ∀ w ∈ (offsetsFrom 0 (items.map itemByteSize)).map (fun (n : Nat) => (n : Int)), InI32 w := by
    intro w hw
    simp only [List.mem_map] at hw
    obtain ⟨x, hx, rfl⟩ := hw
    have := offsetsFrom_le _ _ _ hx
    unfold InI32; omega
  have hDOin : ∀ w ∈ (offsetsFrom 0 ((storedOf ver deflate datas).map List.length)).map
      (fun (n : Nat) => (n : Int)), InI32 w := by
    intro w hw
    simp only [List.mem_map] at hw
    obtain ⟨x, hx, rfl⟩ := hw
    have := offsetsFrom_le _ _ _ hx
    unfold InI32; omega
  have hSZin : ∀ w ∈ datas.map (fun d => ((d.length : Nat) : Int)), InI32 w := by
    intro w hw
    simp only [List.mem_map] at hw
    obtain ⟨d, hd, rfl⟩ := hw
    have := wr.dataLen d hd
    unfold InI32; omega
  -- lengths of the parts
  have lT : (bytesOfWords (typeWords (groupTypes items 0))).length
      = 12 * asUsize (((groupTypes items 0).length : Nat) : Int) := by
    rw [bytesOfWords_length, typeWords_length, asUsize_nonneg (by omega)]; omega
  have lIO : (bytesOfWords ((offsetsFrom 0 (items.map itemByteSize)).map (fun (n : Nat) => (n : Int)))).length
      = 4 * asUsize ((items.length : Nat) : Int) := by
    rw [bytesOfWords_length, List.length_map, offsetsFrom_length, List.length_map,
      asUsize_nonneg (by omega)]; omega
  have lDO : (bytesOfWords ((offsetsFrom 0 ((storedOf ver deflate datas).map List.length)).map
      (fun (n : Nat) => (n : Int)))).length = 4 * asUsize ((datas.length : Nat) : Int) := by
    rw [bytesOfWords_length, List.length_map, offsetsFrom_length, List.length_map, hslen,
      asUsize_nonneg (by omega)]; omega
  have lSZ : (bytesOfWords (datas.map (fun d => ((d.length : Nat) : Int)))).length
      = 4 * asUsize ((datas.length : Nat) : Int) := by
    rw [bytesOfWords_length, List.length_map, asUsize_nonneg (by omega)]; omega
  have lIT : (bytesOfWords (items.flatMap itemWords)).length
      = 4 * (asUsize ((sumNat (items.map itemByteSize) : Nat) : Int) / 4) := by
    rw [bytesOfWords_length, asUsize_nonneg (by omega)]
    have := flatMap_itemWords_length items
    omega
  have lST : ((storedOf ver deflate datas).flatten).length
      = sumNat ((storedOf ver deflate datas).map List.length) := sumNat_map_length_flatten _
  have lH : (magicData ++ bytesOfWords ((sizesOf ver deflate items datas).headerWords ver)).length
      = headerSize := by
    simp [magicData, bytesOfWords_length, Sizes.headerWords, headerSize]
  have hmod4 := sumNat_items_mod4 items
  have key : ∀ R : Reader, R = writtenReader ver deflate items datas →
      (match R.check with
        | .ok () => Outcome.ok R
        | .err e => Outcome.err e
        | .panic s => Outcome.panic s) = .ok (writtenReader ver deflate items datas) := by
    intro R hR
    subst hR
    rw [writtenReader_check ver deflate items datas wr.ids wr.sorted hN]
  have hfilelen : ¬ ((magicData ++ bytesOfWords ((sizesOf ver deflate items datas).headerWords ver) ++
      (bytesOfWords (typeWords (groupTypes items 0)) ++
        (bytesOfWords ((offsetsFrom 0 (items.map itemByteSize)).map (fun (n : Nat) => (n : Int))) ++
          (bytesOfWords ((offsetsFrom 0 ((storedOf ver deflate datas).map List.length)).map
              (fun (n : Nat) => (n : Int))) ++
            ((if ver = 3 then [] else bytesOfWords (datas.map (fun d => ((d.length : Nat) : Int)))) ++
              (bytesOfWords (items.flatMap itemWords) ++ (storedOf ver deflate datas).flatten)))))).length
      < (((sizesOf ver deflate items datas).total ver : Nat) : Int).toNat) := by
    simp only [List.length_append, lH, lT, lIO, lDO, lIT, lST]
    rw [hz]
    have e1 : asUsize (((groupTypes items 0).length : Nat) : Int) = (groupTypes items 0).length := by
      rw [asUsize_nonneg (by omega)]; omega
    have e2 : asUsize ((items.length : Nat) : Int) = items.length := by
      rw [asUsize_nonneg (by omega)]; omega
    have e3 : asUsize ((datas.length : Nat) : Int) = datas.length := by
      rw [asUsize_nonneg (by omega)]; omega
    have e4 : asUsize ((sumNat (items.map itemByteSize) : Nat) : Int) = sumNat (items.map itemByteSize) := by
      rw [asUsize_nonneg (by omega)]; omega
    rw [e1, e2, e3, e4]
    have hmod4' : sumNat (items.map itemByteSize) % 4 = 0 := hmod4
    split
    · simp only [List.length_nil, headerSize]; omega
    · rw [lSZ, e3]; simp only [headerSize]; omega
  have hal : ¬ asUsize ((sumNat (items.map itemByteSize) : Nat) : Int) % 4 ≠ 0 := by
    have hm : sumNat (items.map itemByteSize) % 4 = 0 := hmod4
    rw [asUsize_nonneg (by omega)]; omega
  -- run `Reader::new`
  unfold Reader.new
  rw [hread]
  simp only
  rw [hcheck]
  simp only
  rw [writeDf_layout]
  rw [List.drop_left' lH]
  have pv : (writtenHeader (sizesOf ver deflate items datas) ver).version = (ver : Int) := rfl
  have pnt : (writtenHeader (sizesOf ver deflate items datas) ver).numItemTypes
      = (((groupTypes items 0).length : Nat) : Int) := rfl
  have pni : (writtenHeader (sizesOf ver deflate items datas) ver).numItems = ((items.length : Nat) : Int) := rfl
  have pnd : (writtenHeader (sizesOf ver deflate items datas) ver).numData = ((datas.length : Nat) : Int) := rfl
  have psi : (writtenHeader (sizesOf ver deflate items datas) ver).sizeItems
      = ((sumNat (items.map itemByteSize) : Nat) : Int) := rfl
  have psd : (writtenHeader (sizesOf ver deflate items datas) ver).sizeData
      = ((sumNat ((storedOf ver deflate datas).map List.length) : Nat) : Int) := rfl
  rw [pv, pnt, pni, pnd, psi, psd]
  rw [if_neg (by rcases wr.version with h | h <;> subst h <;> simp)]
  rw [readExact_of_length lT]
  simp only
  rw [readExact_of_length lIO]
  simp only
  rw [readExact_of_length lDO]
  simp only
  rcases wr.version with h | h
  · subst h
    have hu : readUds (if ((3 : Nat) : Int) = 3 then Version.v3 else if false = true then Version.v4crude
        else Version.v4).hasCompressedData (4 * asUsize ((datas.length : Nat) : Int))
        ((if 3 = 3 then [] else bytesOfWords (datas.map (fun d => ((d.length : Nat) : Int)))) ++
          (bytesOfWords (items.flatMap itemWords) ++ (storedOf 3 deflate datas).flatten))
        = some (none, bytesOfWords (items.flatMap itemWords) ++ (storedOf 3 deflate datas).flatten) := by
      simp [readUds, Version.hasCompressedData]
    rw [hu]
    simp only
    rw [if_neg hal]
    rw [readExact_of_length lIT]
    simp only
    rw [if_neg (by first | exact hfilelen | simpa using hfilelen)]
    refine key _ ?_
    unfold writtenReader
    simp only [Reader.mk.injEq]
    refine ⟨by simp, trivial, trivial, trivial, trivial, trivial, ?_, ?_, ?_, by simp, ?_, trivial⟩
    · rw [wordsOfBytes_bytesOfWords _ hTin, typesOfWords_typeWords]
    · rw [wordsOfBytes_bytesOfWords _ hIOin]
    · rw [wordsOfBytes_bytesOfWords _ hDOin]
    · rw [wordsOfBytes_bytesOfWords_wrap, flatMap_itemWords_wrap items wr.words hsi]
  · subst h
    have hu : readUds (if ((4 : Nat) : Int) = 3 then Version.v3 else if false = true then Version.v4crude
        else Version.v4).hasCompressedData (4 * asUsize ((datas.length : Nat) : Int))
        ((if 4 = 3 then [] else bytesOfWords (datas.map (fun d => ((d.length : Nat) : Int)))) ++
          (bytesOfWords (items.flatMap itemWords) ++ (storedOf 4 deflate datas).flatten))
        = some (some (bytesOfWords (datas.map (fun d => ((d.length : Nat) : Int)))),
            bytesOfWords (items.flatMap itemWords) ++ (storedOf 4 deflate datas).flatten) := by
      have : (if ((4 : Nat) : Int) = 3 then Version.v3 else if false = true then Version.v4crude
        else Version.v4).hasCompressedData = true := by simp [Version.hasCompressedData]
      rw [this]
      simp only [readUds, if_true]
      rw [if_neg (by decide), readExact_of_length lSZ]
    rw [hu]
    simp only
    rw [if_neg hal]
    rw [readExact_of_length lIT]
    simp only
    rw [if_neg (by first | exact hfilelen | simpa using hfilelen)]
    refine key _ ?_
    unfold writtenReader
    simp only [Reader.mk.injEq]
    refine ⟨by simp, trivial, trivial, trivial, trivial, trivial, ?_, ?_, ?_, ?_, ?_, trivial⟩
    · rw [wordsOfBytes_bytesOfWords _ hTin, typesOfWords_typeWords]
    · rw [wordsOfBytes_bytesOfWords _ hIOin]
    · rw [wordsOfBytes_bytesOfWords _ hDOin]
    · simp only [Option.map_some]
      rw [wordsOfBytes_bytesOfWords _ hSZin]; simp
    · rw [wordsOfBytes_bytesOfWords_wrap, flatMap_itemWords_wrap items wr.words hsi]


/-- **Round trip.**  A file written from a well-formed item list and arbitrary data blocks is
accepted and returns exactly the items and the data that were stored. -/
theorem roundtrip_writtenReader (ver : Nat) (deflate : List UInt8 → List UInt8)
    (inflate : Nat → List UInt8 → Option (List UInt8)) (items : List Item) (datas : List (List UInt8))
    (wr : Writable ver deflate items datas)
    (hzl : ∀ x ∈ datas, inflate x.length (deflate x) = some x) :
    ∃ r, Reader.new (writeDf ver deflate items datas) = .ok r
      ∧ r.numItems = items.length ∧ r.numData = datas.length
      ∧ (∀ k (hk : k < items.length), ∃ v, r.item k = .ok v ∧ v.typeId = items[k].typeId
            ∧ v.id = items[k].id ∧ v.data = items[k].data)
      ∧ (∀ i (hi : i < datas.length), r.readData inflate i = .ok datas[i]) := by
  refine ⟨writtenReader ver deflate items datas, new_writeDf ver deflate items datas wr, rfl, rfl, ?_, ?_⟩
  · intro k hk
    obtain ⟨_, _, hitem⟩ := writtenReader_item ver deflate items datas hk
    have hb := wr.ids items[k] (List.getElem_mem hk)
    have ht := itemHdrR_toNat hb.1 hb.2
    refine ⟨_, hitem, ?_, ?_, rfl⟩
    · simp only [ht]; omega
    · simp only [ht]; omega
  · intro i hi
    have hslen := storedOf_length ver deflate datas
    have htot := wr.total
    have hzt : (sizesOf ver deflate items datas).total ver
        = 36 + 12 * (groupTypes items 0).length + 4 * items.length + 4 * datas.length
          + (if ver = 3 then 0 else 4 * datas.length) + sumNat (items.map itemByteSize)
          + sumNat ((storedOf ver deflate datas).map List.length) := rfl
    rw [hzt] at htot
    have hrd := readData_of_layout (r := writtenReader ver deflate items datas)
      (storedOf ver deflate datas) inflate rfl rfl rfl
      (by show ((sumNat ((storedOf ver deflate datas).map List.length) : Nat) : Int) ≤ 2147483647; omega)
      (i := i) (by omega)
    rw [hrd]
    rcases wr.version with h | h
    · subst h
      have hu : (writtenReader 3 deflate items datas).uncompSizes = none := rfl
      rw [hu]
      simp [storedOf]
    · subst h
      have hu : (writtenReader 4 deflate items datas).uncompSizes
          = some (datas.map (fun d => ((d.length : Nat) : Int))) := rfl
      rw [hu]
      simp only
      rw [List.getElem?_map, List.getElem?_eq_getElem hi]
      simp only [Option.map_some]
      have hst : (storedOf 4 deflate datas)[i]'(by omega) = deflate datas[i] := by
        simp [storedOf]
      rw [hst, asUsize_nonneg (by omega)]
      have : ((datas[i].length : Nat) : Int).toNat = datas[i].length := by omega
      rw [this, hzl datas[i] (List.getElem_mem hi)]
      simp



/-- well-formed item list for the writer: 16-bit type ids and ids, 32-bit data words, equal type
ids adjacent and ascending (the order `Reader::check` demands of the type table) -/
def ItemsWellFormed (items : List Item) : Prop :=
  (∀ it ∈ items, it.typeId < 65536 ∧ it.id < 65536 ∧ ∀ w ∈ it.data, InI32 w)
    ∧ items.Pairwise (fun a b => a.typeId ≤ b.typeId)


end Tw.Datafile

namespace Tw.Datafile

/-! ### the range `item_type_indices` returns on a written file -/

def countLt (items : List Item) (t : Nat) : Nat := (items.filter (fun it => it.typeId < t)).length
def countEq (items : List Item) (t : Nat) : Nat := (items.filter (fun it => it.typeId = t)).length

theorem itemTypeIndicesIn_groupTypes :
    ∀ (items : List Item) (idx t : Nat),
      items.Pairwise (fun a b => a.typeId ≤ b.typeId) → (∀ it ∈ items, it.typeId < 65536) →
      0 < countEq items t →
      itemTypeIndicesIn (groupTypes items idx) t
        = .ok (idx + countLt items t, idx + countLt items t + countEq items t) := by
  intro items
  induction items with
  | nil => intro idx t _ _ h; simp [countEq] at h
  | cons it rest ih =>
    intro idx t hsort h16 hpos
    have hsort' := (List.pairwise_cons.1 hsort).2
    have hhead := (List.pairwise_cons.1 hsort).1
    have h16' : ∀ it' ∈ rest, it'.typeId < 65536 := fun it' h => h16 it' (List.mem_cons_of_mem _ h)
    have hit := h16 it (List.mem_cons_self ..)
    -- all items of `rest` are ≥ it.typeId
    have hmod : ∀ v : Nat, v < 65536 → (((v : Nat) : Int) % 65536).toNat = v := by intro v hv; omega
    by_cases hty : it.typeId = t
    · -- the head group is the group of `t`
      subst hty
      have hlt : countLt (it :: rest) it.typeId = 0 := by
        simp only [countLt, List.filter_cons, Nat.lt_irrefl, decide_false]
        have : rest.filter (fun it' => decide (it'.typeId < it.typeId)) = [] := by
          rw [List.filter_eq_nil_iff]; intro a ha; have := hhead a ha; simp; omega
        simp [this]
      have hce : countEq (it :: rest) it.typeId = countEq rest it.typeId + 1 := by
        simp [countEq, List.filter_cons]
      have hlt' : countLt rest it.typeId = 0 := by
        simp only [countLt]
        have : rest.filter (fun it' => decide (it'.typeId < it.typeId)) = [] := by
          rw [List.filter_eq_nil_iff]; intro a ha; have := hhead a ha; simp; omega
        simp [this]
      rw [hlt, hce]
      simp only [groupTypes]
      cases hG : groupTypes rest (idx + 1) with
      | nil =>
        have hrest : rest = [] := by
          cases rest with
          | nil => rfl
          | cons r0 rest' =>
            obtain ⟨g, gs, hg, _⟩ := groupTypes_head r0 rest' (idx + 1)
            rw [hg] at hG; cases hG
        subst hrest
        simp only [itemTypeIndicesIn, hmod _ hit, if_true, countEq, List.filter_nil, List.length_nil]
        rw [if_neg (by omega), if_neg (by omega)]
        congr 2 <;> omega
      | cons g gs =>
        obtain ⟨r0, rest', hr⟩ : ∃ r0 rest', rest = r0 :: rest' := by
          cases rest with
          | nil => simp [groupTypes] at hG
          | cons r0 rest' => exact ⟨r0, rest', rfl⟩
        obtain ⟨g', gs', hg', hgt, hgs⟩ := groupTypes_head r0 rest' (idx + 1)
        rw [← hr, hG] at hg'
        cases hg'
        by_cases hsame : g.typeId = (it.typeId : Int)
        · simp only []
          rw [if_pos hsame]
          -- the head group of `rest` is the group of `t` there
          have hr0 : r0.typeId = it.typeId := by omega
          have hpos' : 0 < countEq rest it.typeId := by
            rw [hr]; simp [countEq, List.filter_cons, hr0]
          have := ih (idx + 1) it.typeId hsort' h16' hpos'
          rw [hG, hlt'] at this
          simp only [itemTypeIndicesIn, hsame, hmod _ hit, if_true] at this ⊢
          split at this
          · cases this
          · split at this
            · cases this
            · rename_i h1 h2
              simp only [Outcome.ok.injEq, Prod.mk.injEq] at this
              rw [if_neg (by omega), if_neg (by omega)]
              congr 2 <;> omega
        · simp only []
          rw [if_neg hsame]
          have hr0 : r0.typeId ≠ it.typeId := by
            intro h; apply hsame; rw [hgt, h]
          have hzero : countEq rest it.typeId = 0 := by
            simp only [countEq]
            have : rest.filter (fun it' => decide (it'.typeId = it.typeId)) = [] := by
              rw [List.filter_eq_nil_iff]
              intro a ha
              rw [hr] at ha hsort'
              have h1 := hhead r0 (by rw [hr]; exact List.mem_cons_self ..)
              cases ha with
              | head => simp; omega
              | tail _ hm => have := (List.pairwise_cons.1 hsort').1 a hm; simp; omega
            simp [this]
          rw [hzero]
          simp only [itemTypeIndicesIn, hmod _ hit, if_true]
          rw [if_neg (by omega), if_neg (by omega)]
          congr 2 <;> omega
    · -- `t` occurs only in `rest`
      have hpos' : 0 < countEq rest t := by
        simpa [countEq, List.filter_cons, hty] using hpos
      have hce : countEq (it :: rest) t = countEq rest t := by
        simp [countEq, List.filter_cons, hty]
      -- some item of type t is in rest, so it.typeId < t
      have hlt_t : it.typeId < t := by
        have : ∃ a ∈ rest, a.typeId = t := by
          simp only [countEq] at hpos'
          obtain ⟨a, ha⟩ := List.exists_mem_of_length_pos hpos'
          have := List.mem_filter.1 ha
          exact ⟨a, this.1, by simpa using this.2⟩
        obtain ⟨a, ha, hat⟩ := this
        have := hhead a ha
        omega
      have hcl : countLt (it :: rest) t = countLt rest t + 1 := by
        simp [countLt, List.filter_cons, hlt_t]
      have hih := ih (idx + 1) t hsort' h16' hpos'
      rw [hce, hcl]
      have hskip : ((it.typeId : Int) % 65536).toNat ≠ t := by rw [hmod _ hit]; exact hty
      simp only [groupTypes]
      cases hG : groupTypes rest (idx + 1) with
      | nil => rw [hG] at hih; simp [itemTypeIndicesIn] at hih; omega
      | cons g gs =>
        rw [hG] at hih
        by_cases hsame : g.typeId = (it.typeId : Int)
        · simp only []
          rw [if_pos hsame]
          have hskipg : (g.typeId % 65536).toNat ≠ t := by rw [hsame]; exact hskip
          simp only [itemTypeIndicesIn, if_neg hskipg] at hih ⊢
          rw [hih]; congr 2 <;> omega
        · simp only []
          rw [if_neg hsame]
          simp only [itemTypeIndicesIn, if_neg hskip]
          simp only [itemTypeIndicesIn] at hih
          rw [hih]; congr 2 <;> omega

end Tw.Datafile
