import Tw.Model.NetSim
import Tw.Proofs.Conn

/-!
# C01: lemmas about the shared online core used by the safety invariant

Sequence arithmetic, lazy = eager, what a receiver accepts (ghost absolute indices), the sender-side
bookkeeping (`PacketOk`, `FlOk`, `QueueOk`), what `flush` / `resend` / `ack_chunks` do to it.
-/
namespace Tw.NetSim
open Tw.Conn Tw.Time

/-! ## sequence arithmetic -/

theorem seqNext_eq (a : Nat) : seqNext a = (a + 1) % 1024 := rfl

theorem seqCompare_current (a b : Nat) : seqCompare a b = .current ↔ a = b := by
  unfold seqCompare
  simp only
  constructor
  · intro h
    by_cases h1 : a < b
    · simp [h1] at h; split at h <;> cases h
    · by_cases h2 : b < a
      · simp [h1, h2] at h; split at h <;> cases h
      · omega
  · intro h; subst h; simp

/-- `Sequence::update` accepts exactly the successor -/
theorem seqUpdate_fst (a s : Nat) : (seqUpdate a s).1 = if seqNext a = s then s else a := by
  unfold seqUpdate
  simp only
  by_cases h : seqNext a = s
  · simp [h, (seqCompare_current _ _).mpr]
  · have : seqCompare (seqNext a) s ≠ .current := fun hc => h ((seqCompare_current _ _).mp hc)
    simp [h, this]

theorem seqUpdate_snd (a s : Nat) : (seqUpdate a s).2 = .current ↔ seqNext a = s := by
  unfold seqUpdate
  simp only
  exact seqCompare_current _ _

/-! ## lazy = eager -/

/-- the eager scan, instrumented to emit the chunk whenever it accepts one (and every non-vital one) -/
def eagerTrace : Nat → Bool → List Chunk → (Nat × Bool) × List Event
  | ack, rr, [] => ((ack, rr), [])
  | ack, rr, c :: cs =>
    match c.vital with
    | none =>
      let r := eagerTrace ack rr cs
      (r.1, .chunk c.data false :: r.2)
    | some (s, _) =>
      let (a, ord) := seqUpdate ack s
      let r := eagerTrace a (rr || ord != .current) cs
      (r.1, if ord = .current then .chunk c.data true :: r.2 else r.2)

/-- erasing the instrumentation gives the eager scan of the code … -/
theorem eagerTrace_fst (ack : Nat) (rr : Bool) (cs : List Chunk) : (eagerTrace ack rr cs).1 = receiveEager ack rr cs := by
  induction cs generalizing ack rr with
  | nil => rfl
  | cons c cs ih =>
    unfold eagerTrace receiveEager
    cases hv : c.vital with
    | none => simp only; exact ih ack rr
    | some v => obtain ⟨s, r⟩ := v; simp only; exact ih _ _

/-- … and what it emits is exactly what the lazy iterator yields, for every packet, starting ack
and resend flag -/
theorem eagerTrace_snd (ack : Nat) (rr : Bool) (cs : List Chunk) : (eagerTrace ack rr cs).2 = receiveLazy ack cs := by
  induction cs generalizing ack rr with
  | nil => rfl
  | cons c cs ih =>
    unfold eagerTrace receiveLazy
    cases hv : c.vital with
    | none => simp only; rw [ih ack rr]
    | some v =>
      obtain ⟨s, r⟩ := v
      simp only
      by_cases h : (seqUpdate ack s).2 = .current
      · have h1 : (seqUpdate ack s).1 = seqNext ack ∨ True := Or.inr trivial
        simp only [h, if_true]
        rw [ih]
      · simp only [h, if_false]
        rw [ih]
        have : (seqUpdate ack s).1 = ack := by
          rw [seqUpdate_fst]
          have := mt (seqUpdate_snd ack s).mpr h
          simp [this]
        rw [this]

/-! ## what a receiver accepts -/

/-- chunk `(seq, data)` is the `k`-th vital chunk the sender submitted -/
def IsChunk (sub : List Bytes) (k : Nat) (seq : Nat) (data : Bytes) : Prop :=
  sub[k]? = some data ∧ seq = (k + 1) % 1024

theorem IsChunk.append {sub : List Bytes} {k seq : Nat} {data : Bytes} (h : IsChunk sub k seq data) (ext : List Bytes) :
    IsChunk (sub ++ ext) k seq data := by
  refine ⟨?_, h.2⟩
  have hk : k < sub.length := by
    have := h.1
    exact (List.getElem?_eq_some_iff.mp this).1
  rw [List.getElem?_append_left hk]; exact h.1

/-- every vital chunk of the packet is some chunk `k < n` of the sender, less than 1024 behind `n` -/
def ChunksKnown (sub : List Bytes) (n : Nat) (cs : List Chunk) : Prop :=
  ∀ c ∈ cs, ∀ seq r, c.vital = some (seq, r) → ∃ k, k < n ∧ n < k + 1024 ∧ IsChunk sub k seq c.data

/-- **the acceptance lemma**: a receiver that has been handed the first `d` chunks and processes a
packet of known chunks is handed exactly the next `m` chunks, and its ack becomes `d + m` -/
theorem receive_known (sub : List Bytes) (n : Nat) (hn : n = sub.length) :
    ∀ (cs : List Chunk) (d : Nat) (rr : Bool), d ≤ n → n ≤ d + 512 → ChunksKnown sub n cs →
      ∃ m, d + m ≤ n ∧ vitalPayloads (receiveLazy (d % 1024) cs) = (sub.drop d).take m ∧
        (receiveEager (d % 1024) rr cs).1 = (d + m) % 1024 := by
  intro cs
  induction cs with
  | nil => intro d rr hd _ _; exact ⟨0, by omega, by simp [receiveLazy, vitalPayloads], by simp [receiveEager]⟩
  | cons c cs ih =>
    intro d rr hd hw hk
    have hk' : ChunksKnown sub n cs := fun c' hc' => hk c' (List.mem_cons_of_mem _ hc')
    unfold receiveLazy receiveEager
    cases hv : c.vital with
    | none =>
      obtain ⟨m, h1, h2, h3⟩ := ih d rr hd hw hk'
      exact ⟨m, h1, by simpa [vitalPayloads] using h2, by simpa using h3⟩
    | some v =>
      obtain ⟨seq, r⟩ := v
      obtain ⟨k, hkn, hkw, hch⟩ := hk c (by simp) seq r hv
      simp only
      by_cases hacc : seqNext (d % 1024) = seq
      · -- accepted: then k = d
        have hkd : k = d := by
          have := hch.2
          rw [seqNext_eq] at hacc
          omega
        subst hkd
        have h1 : (seqUpdate (k % 1024) seq).2 = .current := (seqUpdate_snd _ _).mpr hacc
        have h2 : (seqUpdate (k % 1024) seq).1 = (k + 1) % 1024 := by
          rw [seqUpdate_fst, if_pos hacc, hch.2]
        obtain ⟨m, hm1, hm2, hm3⟩ := ih (k + 1) (rr || (seqUpdate (k % 1024) seq).2 != .current) (by omega) (by omega) hk'
        refine ⟨m + 1, by omega, ?_, ?_⟩
        · simp only [h1, if_true, vitalPayloads]
          rw [h2, hm2]
          have hks : k < sub.length := by omega
          rw [List.drop_eq_getElem_cons hks, List.take_succ_cons]
          have := hch.1
          rw [List.getElem?_eq_getElem hks] at this
          injection this with this
          rw [this]
        · rw [h2, hm3]; congr 1; omega
      · have h1 : (seqUpdate (d % 1024) seq).2 ≠ .current := fun h => hacc ((seqUpdate_snd _ _).mp h)
        have h2 : (seqUpdate (d % 1024) seq).1 = d % 1024 := by rw [seqUpdate_fst, if_neg hacc]
        obtain ⟨m, hm1, hm2, hm3⟩ := ih d (rr || (seqUpdate (d % 1024) seq).2 != .current) hd hw hk'
        refine ⟨m, hm1, ?_, ?_⟩
        · simp only [h1, if_false]; exact hm2
        · rw [h2]; exact hm3

/-- non-vital events are non-vital chunks of the packet -/
theorem nonvital_mem (ack : Nat) (cs : List Chunk) :
    ∀ d ∈ nonvitalPayloads (receiveLazy ack cs), ∃ c ∈ cs, c.vital = none ∧ c.data = d := by
  induction cs generalizing ack with
  | nil => intro d hd; simp [receiveLazy, nonvitalPayloads] at hd
  | cons c cs ih =>
    intro d hd
    unfold receiveLazy at hd
    cases hv : c.vital with
    | none =>
      simp only [hv, nonvitalPayloads] at hd
      rcases List.mem_cons.mp hd with rfl | hd
      · exact ⟨c, by simp, hv, rfl⟩
      · obtain ⟨c', hc', h1, h2⟩ := ih ack d hd
        exact ⟨c', List.mem_cons_of_mem _ hc', h1, h2⟩
    | some v =>
      obtain ⟨s, r⟩ := v
      simp only [hv] at hd
      split at hd
      · simp only [nonvitalPayloads] at hd
        obtain ⟨c', hc', h1, h2⟩ := ih _ d hd
        exact ⟨c', List.mem_cons_of_mem _ hc', h1, h2⟩
      · obtain ⟨c', hc', h1, h2⟩ := ih _ d hd
        exact ⟨c', List.mem_cons_of_mem _ hc', h1, h2⟩

/-! ## chunk bookkeeping on the sender side -/

/-- every vital chunk queued in the packet is a known chunk; the later it sits in the packet, the
more submissions may have happened since it was placed -/
def PacketOk (sub : List Bytes) (n : Nat) (cs : List Chunk) : Prop :=
  ∀ j c seq r, cs[j]? = some c → c.vital = some (seq, r) →
    ∃ k, k < n ∧ n + j + 1 ≤ k + 512 + cs.length ∧ IsChunk sub k seq c.data

/-- a datagram on the wire: every vital chunk is a known chunk, at most 767 behind the stamp -/
def FlOk (sub : List Bytes) (n : Nat) (f : Flushed) : Prop :=
  ∀ c ∈ f.chunks, ∀ seq r, c.vital = some (seq, r) → ∃ k, k < n ∧ n ≤ k + 767 ∧ IsChunk sub k seq c.data

def NvOk (nv : List Bytes) (cs : List Chunk) : Prop := ∀ c ∈ cs, c.vital = none → c.data ∈ nv

theorem singleton_getElem? {α : Type} {x c : α} {i : Nat} (h : [x][i]? = some c) : i = 0 ∧ c = x := by
  cases i with
  | zero => simp at h; exact ⟨rfl, h.symm⟩
  | succ i => simp at h

theorem PacketOk.nil (sub : List Bytes) (n : Nat) : PacketOk sub n [] := by
  intro j c seq r h; simp at h

theorem PacketOk.toFl {sub : List Bytes} {n : Nat} {cs : List Chunk} (h : PacketOk sub n cs) (hl : cs.length ≤ 255)
    (ack : Nat) (rr : Bool) (num : Nat) : FlOk sub n ⟨ack, rr, num, cs⟩ := by
  intro c hc seq r hv
  obtain ⟨j, hj⟩ := List.getElem?_of_mem hc
  obtain ⟨k, h1, h2, h3⟩ := h j c seq r hj hv
  exact ⟨k, h1, by omega, h3⟩

theorem PacketOk.appendNonvital {sub : List Bytes} {n : Nat} {cs : List Chunk} (h : PacketOk sub n cs) (data : Bytes) :
    PacketOk sub n (cs ++ [⟨none, data⟩]) := by
  intro j c seq r hj hv
  by_cases hlt : j < cs.length
  · rw [List.getElem?_append_left hlt] at hj
    obtain ⟨k, h1, h2, h3⟩ := h j c seq r hj hv
    exact ⟨k, h1, by simp; omega, h3⟩
  · rw [List.getElem?_append_right (by omega)] at hj
    obtain ⟨hj0, hjc⟩ := singleton_getElem? hj
    subst hjc
    simp at hv

/-- appending a vital chunk that is at most 512 behind -/
theorem PacketOk.appendVital {sub : List Bytes} {n : Nat} {cs : List Chunk} (h : PacketOk sub n cs)
    (k seq : Nat) (r : Bool) (data : Bytes) (hk : k < n) (hw : n ≤ k + 512) (hc : IsChunk sub k seq data) :
    PacketOk sub n (cs ++ [⟨some (seq, r), data⟩]) := by
  intro j c seq' r' hj hv
  by_cases hlt : j < cs.length
  · rw [List.getElem?_append_left hlt] at hj
    obtain ⟨k', h1, h2, h3⟩ := h j c seq' r' hj hv
    exact ⟨k', h1, by simp; omega, h3⟩
  · rw [List.getElem?_append_right (by omega)] at hj
    obtain ⟨hj0, hjc⟩ := singleton_getElem? hj
    subst hjc
    simp at hv
    obtain ⟨rfl, rfl⟩ := hv
    exact ⟨k, hk, by simp; omega, hc⟩

/-- one more submission: the bounds shift by one, which the new last position pays for -/
theorem PacketOk.submit {sub : List Bytes} {cs : List Chunk} (h : PacketOk sub sub.length cs) (data : Bytes) (r : Bool) :
    PacketOk (sub ++ [data]) (sub.length + 1) (cs ++ [⟨some ((sub.length + 1) % 1024, r), data⟩]) := by
  intro j c seq' r' hj hv
  by_cases hlt : j < cs.length
  · rw [List.getElem?_append_left hlt] at hj
    obtain ⟨k', h1, h2, h3⟩ := h j c seq' r' hj hv
    exact ⟨k', by omega, by simp; omega, h3.append _⟩
  · rw [List.getElem?_append_right (by omega)] at hj
    obtain ⟨hj0, hjc⟩ := singleton_getElem? hj
    subst hjc
    simp at hv
    obtain ⟨rfl, rfl⟩ := hv
    refine ⟨sub.length, by omega, by simp; omega, ?_, rfl⟩
    simp

theorem PacketOk.mono {sub : List Bytes} {n : Nat} {cs : List Chunk} (h : PacketOk sub n cs) (ext : List Bytes) :
    PacketOk (sub ++ ext) n cs := by
  intro j c seq r hj hv
  obtain ⟨k, h1, h2, h3⟩ := h j c seq r hj hv
  exact ⟨k, h1, h2, h3.append _⟩

theorem FlOk.mono {sub : List Bytes} {n : Nat} {f : Flushed} (h : FlOk sub n f) (ext : List Bytes) :
    FlOk (sub ++ ext) n f := by
  intro c hc seq r hv
  obtain ⟨k, h1, h2, h3⟩ := h c hc seq r hv
  exact ⟨k, h1, h2, h3.append _⟩

theorem NvOk.mono {nv : List Bytes} {cs : List Chunk} (h : NvOk nv cs) (ext : List Bytes) : NvOk (nv ++ ext) cs := by
  intro c hc hv; exact List.mem_append_left _ (h c hc hv)

/-- all non-vital chunks of the packet: `PacketOk` holds vacuously -/
theorem PacketOk.ofNonvital (sub : List Bytes) (n : Nat) (cs : List Chunk) (h : ∀ c ∈ cs, c.vital = none) :
    PacketOk sub n cs := by
  intro j c seq r hj hv
  have := h c (List.mem_of_getElem? hj)
  rw [this] at hv; cases hv

/-! ## the resend loop only emits known chunks -/

theorem resendLoop_known {cfg : Cfg} (hc : cfg.Ok) (sub nv : List Bytes) (n : Nat) (now : Nat) :
    ∀ (todo : List ResendChunk) (o : Online) (send : Timeout) (acc : List Flushed),
      o.Inv cfg → PacketOk sub n o.packet.chunks → NvOk nv o.packet.chunks →
      (∀ c ∈ todo, cfg.accepts c.data.length = true ∧ ∃ k, k < n ∧ n ≤ k + 512 ∧ IsChunk sub k c.seq c.data) →
      (∀ f ∈ acc, FlOk sub n f ∧ NvOk nv f.chunks ∧ f.ack = o.ack) →
      ∀ o' send' fl, resendLoop cfg now todo o send acc = .ok (o', send', fl) →
        PacketOk sub n o'.packet.chunks ∧ NvOk nv o'.packet.chunks ∧
        (∀ f ∈ fl, FlOk sub n f ∧ NvOk nv f.chunks ∧ f.ack = o.ack) := by
  intro todo
  induction todo with
  | nil =>
    intro o send acc _ hp hnv _ hacc o' send' fl he
    simp only [resendLoop] at he
    injection he with he; injection he with h1 h2; injection h2 with h2 h3
    subst h1 h3
    exact ⟨hp, hnv, hacc⟩
  | cons c rest ih =>
    intro o send acc hinv hp hnv htodo hacc o' send' fl he
    obtain ⟨hcacc, k, hk1, hk2, hk3⟩ := htodo c (by simp)
    unfold resendLoop at he
    simp only at he
    have key : ∃ o1 : Online, o1 = (if o.packet.canFit c.data.length true = true then o else o.flush.1) ∧
        o1.Inv cfg ∧ PacketOk sub n o1.packet.chunks ∧ NvOk nv o1.packet.chunks ∧ o1.ack = o.ack ∧
        (o1.packet.canFit c.data.length true = true ∨ o1.packet.chunks = []) := by
      by_cases hf : o.packet.canFit c.data.length true = true
      · exact ⟨o, by simp [hf], hinv, hp, hnv, rfl, Or.inl hf⟩
      · refine ⟨o.flush.1, by simp [hf], Online.flush_inv hinv, ?_, ?_, Online.flush_ack o,
          Or.inr (Online.flush_packet_nil hinv)⟩
        · rw [Online.flush_packet_nil hinv]; exact PacketOk.nil _ _
        · rw [Online.flush_packet_nil hinv]; intro c hc; simp at hc
    obtain ⟨o1, ho1, hinv1, hp1, hnv1, hack1, hfit1⟩ := key
    rw [← ho1] at he
    rw [PacketContents.writeChunk_ok hc _ _ _ hcacc hinv1.pn (by simpa using hfit1)] at he
    simp only at he
    have hacc' : ∀ f ∈ (if o.packet.canFit c.data.length true = true then acc else acc ++ o.flush.2),
        FlOk sub n f ∧ NvOk nv f.chunks ∧ f.ack = o1.ack := by
      rw [hack1]
      split
      · exact hacc
      · intro f hf
        rcases List.mem_append.mp hf with hf | hf
        · exact hacc f hf
        · unfold Online.flush at hf
          split at hf
          · simp at hf
          · simp at hf
            subst hf
            exact ⟨hp.toFl (by have := hinv.cnt; rw [maxNumChunks_eq] at this; exact this) _ _ _, hnv, rfl⟩
    have := ih _ _ _ (hinv1.appendVital (c.seq, true) c.data hcacc hfit1)
      (hp1.appendVital k c.seq true c.data hk1 hk2 hk3)
      (by
        intro c' hc' hv
        simp only at hc'
        rcases List.mem_append.mp hc' with hc' | hc'
        · exact hnv1 c' hc' hv
        · simp at hc'; subst hc'; simp at hv)
      (fun c' hc' => htodo c' (by simp [hc'])) hacc' o' send' fl he
    obtain ⟨h1, h2, h3⟩ := this
    exact ⟨h1, h2, fun f hf => by rw [← hack1]; exact h3 f hf⟩

/-! ## the resend queue -/

/-- the queue (newest first) holds the last `q.length` submitted chunks -/
def QueueOk (sub : List Bytes) (q : List ResendChunk) : Prop :=
  ∀ i c, q[i]? = some c → i < sub.length ∧ IsChunk sub (sub.length - 1 - i) c.seq c.data

theorem QueueOk.take {sub : List Bytes} {q : List ResendChunk} (h : QueueOk sub q) (i : Nat) : QueueOk sub (q.take i) := by
  intro j c hj
  rw [List.getElem?_take] at hj
  split at hj
  · exact h j c hj
  · cases hj

theorem QueueOk.restart {sub : List Bytes} {q : List ResendChunk} (h : QueueOk sub q) (now : Nat) :
    QueueOk sub (q.map (ResendChunk.restart now)) := by
  intro j c hj
  rw [List.getElem?_map] at hj
  cases hq : q[j]? with
  | none => rw [hq] at hj; cases hj
  | some c0 =>
    rw [hq] at hj
    simp at hj
    subst hj
    exact h j c0 hq

theorem QueueOk.push {sub : List Bytes} {q : List ResendChunk} (h : QueueOk sub q) (t : Timeout) (data : Bytes) :
    QueueOk (sub ++ [data]) (⟨t, (sub.length + 1) % 1024, data⟩ :: q) := by
  intro j c hj
  cases j with
  | zero =>
    simp at hj
    subst hj
    refine ⟨by simp, ?_, ?_⟩
    · simp
    · simp
  | succ j =>
    simp at hj
    obtain ⟨h1, h2⟩ := h j c hj
    refine ⟨by simp; omega, ?_⟩
    have : (sub ++ [data]).length - 1 - (j + 1) = sub.length - 1 - j := by simp; omega
    rw [this]
    exact h2.append _

theorem QueueOk.todo {sub : List Bytes} {q : List ResendChunk} (h : QueueOk sub q) (hl : q.length ≤ 512) :
    ∀ c ∈ q, ∃ k, k < sub.length ∧ sub.length ≤ k + 512 ∧ IsChunk sub k c.seq c.data := by
  intro c hc
  obtain ⟨i, hi⟩ := List.getElem?_of_mem hc
  obtain ⟨h1, h2⟩ := h i c hi
  have hil : i < q.length := (List.getElem?_eq_some_iff.mp hi).1
  exact ⟨sub.length - 1 - i, by omega, by omega, h2⟩

theorem findIdx?_some {α : Type} (p : α → Bool) : ∀ (l : List α) (i : Nat), l.findIdx? p = some i →
    ∃ c, l[i]? = some c ∧ p c = true := by
  intro l
  induction l with
  | nil => intro i h; simp at h
  | cons x xs ih =>
    intro i h
    rw [List.findIdx?_cons] at h
    by_cases hp : p x = true
    · simp [hp] at h; subst h; exact ⟨x, by simp, hp⟩
    · simp [hp] at h
      obtain ⟨j, hj, rfl⟩ := h
      obtain ⟨c, hc1, hc2⟩ := ih j hj
      exact ⟨c, by simpa using hc1, hc2⟩

/-- processing an ack that says "I have been handed `dS` chunks" (`dS` at most 1023 behind the
sender's counter) never drops a chunk the receiver has not been handed -/
theorem ackChunks_window {sub : List Bytes} {o : Online} (hq : QueueOk sub o.resendQueue)
    (hl : o.resendQueue.length ≤ 512) (dS d : Nat) (hd1 : dS ≤ d) (hd2 : d ≤ sub.length)
    (hwin : sub.length < dS + 1024) (hqw : sub.length ≤ d + o.resendQueue.length) :
    sub.length ≤ d + (o.ackChunks (dS % 1024)).resendQueue.length := by
  unfold Online.ackChunks
  cases hf : o.resendQueue.findIdx? (fun c => c.seq == dS % 1024) with
  | none => exact hqw
  | some i =>
    simp only
    obtain ⟨c, hc1, hc2⟩ := findIdx?_some _ _ _ hf
    obtain ⟨h1, h2⟩ := hq i c hc1
    have hil : i < o.resendQueue.length := (List.getElem?_eq_some_iff.mp hc1).1
    have hseq : c.seq = dS % 1024 := by simpa using hc2
    have := h2.2
    rw [List.length_take]
    have : sub.length - i = dS := by omega
    omega

theorem flush_fl {cfg : Cfg} {o : Online} (hinv : o.Inv cfg) {sub nv : List Bytes} {n : Nat}
    (hpk : PacketOk sub n o.packet.chunks) (hnv : NvOk nv o.packet.chunks) :
    ∀ f ∈ o.flush.2, FlOk sub n f ∧ NvOk nv f.chunks ∧ f.ack = o.ack := by
  intro f hf
  unfold Online.flush at hf
  split at hf
  · simp at hf
  · simp at hf
    subst hf
    exact ⟨hpk.toFl (by have := hinv.cnt; rw [maxNumChunks_eq] at this; exact this) _ _ _, hnv, rfl⟩


theorem resend_facts {cfg : Cfg} (hc : cfg.Ok) {o : Online} (hinv : o.Inv cfg) {sub nv : List Bytes}
    (hq : QueueOk sub o.resendQueue) (hl : o.resendQueue.length ≤ 512)
    (hpk : PacketOk sub sub.length o.packet.chunks)
    (hnv : NvOk nv o.packet.chunks) (now : Nat) (send : Timeout) {o' : Online} {send' : Timeout} {fl : List Flushed}
    (he : o.resend cfg now send = .ok (o', send', fl)) :
    o'.Inv cfg ∧ o'.sequence = o.sequence ∧ o'.ack = o.ack ∧ o'.resendQueue.length = o.resendQueue.length ∧
    QueueOk sub o'.resendQueue ∧ PacketOk sub sub.length o'.packet.chunks ∧ NvOk nv o'.packet.chunks ∧
    (∀ f ∈ fl, FlOk sub sub.length f ∧ NvOk nv f.chunks ∧ f.ack = o.ack) := by
  obtain ⟨o2, s2, fl2, he2, hinv2, _, hack2, hseq2, hlen2, _⟩ := Online.resend_spec hc hinv now send
  rw [he] at he2
  injection he2 with he2; injection he2 with h1 h2; injection h2 with h2 h3
  subst h1 h2 h3
  refine ⟨hinv2, hseq2, hack2, hlen2, ?_⟩
  unfold Online.resend at he
  split at he
  · injection he with he; injection he with h1 h2; injection h2 with h2 h3
    subst h1 h3
    exact ⟨hq, hpk, hnv, by simp⟩
  · -- the loop on the restarted state
    have hinv1 : (o.resendStart now).Inv cfg := by
      unfold Online.resendStart
      have hall : ∀ c ∈ o.packetNonvital.chunks, nonvital c = true := by
        intro c hcm; rw [hinv.nv] at hcm; exact (List.mem_filter.mp hcm).2
      refine ⟨hinv.pnv, hinv.pnv, (List.filter_eq_self.mpr hall).symm, ?_, ?_, ?_, ?_⟩
      · have := hinv.cnt
        have h1 : o.packetNonvital.chunks.length ≤ o.packet.chunks.length := by
          rw [hinv.nv]; exact List.length_filter_le _ _
        simp only; omega
      · have := hinv.size
        have h1 : o.packetNonvital.size ≤ o.packet.size := by
          simp only [PacketContents.size]; rw [hinv.nv]; exact chunksSize_filter_le _ _
        simp only; omega
      · intro c hcm
        simp only at hcm
        rw [hinv.nv] at hcm
        exact hinv.data c (List.mem_filter.mp hcm).1
      · intro c hcm
        simp only [List.mem_map] at hcm
        obtain ⟨c0, hc0, rfl⟩ := hcm
        exact hinv.rq c0 hc0
    have hq1 : QueueOk sub (o.resendStart now).resendQueue := hq.restart now
    have hl1 : (o.resendStart now).resendQueue.length ≤ 512 := by simp [Online.resendStart]; exact hl
    have hnvall : ∀ c ∈ (o.resendStart now).packet.chunks, c.vital = none := by
      intro c hcm
      simp only [Online.resendStart] at hcm
      rw [hinv.nv] at hcm
      have := (List.mem_filter.mp hcm).2
      simpa [nonvital] using this
    have hnv1 : NvOk nv (o.resendStart now).packet.chunks := by
      intro c hcm hv
      simp only [Online.resendStart] at hcm
      rw [hinv.nv] at hcm
      exact hnv c (List.mem_filter.mp hcm).1 hv
    obtain ⟨h1, h2, h3⟩ := resendLoop_known hc sub nv sub.length now _ _ send [] hinv1
      (PacketOk.ofNonvital _ _ _ hnvall) hnv1
      (by
        intro c hcm
        have hcm' := List.mem_reverse.mp hcm
        exact ⟨hinv1.rq c hcm', hq1.todo hl1 c hcm'⟩)
      (by simp) o' send' fl he
    obtain ⟨o3, s3, fl3, he3, _, _, hrq3, _⟩ := resendLoop_spec hc now (o.resendStart now).resendQueue.reverse
      (o.resendStart now) send [] hinv1 (fun c hcm => hinv1.rq c (List.mem_reverse.mp hcm)) (by simp)
    rw [he] at he3
    injection he3 with he3; injection he3 with e1 e2
    subst e1
    refine ⟨by rw [hrq3]; exact hq1, h1, h2, ?_⟩
    intro f hf
    obtain ⟨a, b, c⟩ := h3 f hf
    exact ⟨a, b, by rw [c]; rfl⟩


theorem ackChunks_fields (o : Online) (a : Nat) :
    (o.ackChunks a).ack = o.ack ∧ (o.ackChunks a).sequence = o.sequence ∧ (o.ackChunks a).packet = o.packet ∧
    (o.ackChunks a).packetNonvital = o.packetNonvital ∧ (o.ackChunks a).requestResend = o.requestResend ∧
    (o.ackChunks a).resendQueue.length ≤ o.resendQueue.length ∧
    ∃ i, (o.ackChunks a).resendQueue = o.resendQueue.take i := by
  unfold Online.ackChunks
  split
  · refine ⟨rfl, rfl, rfl, rfl, rfl, ?_, _, rfl⟩
    simp only [List.length_take]; omega
  · exact ⟨rfl, rfl, rfl, rfl, rfl, Nat.le_refl _, o.resendQueue.length, by simp⟩


/-! ## the tight delay window

`unwrap c s` decodes a 10-bit counter value against the sender's absolute counter at send time; on a
value at most 1023 behind it is exact. -/

theorem unwrap_eq {c q s : Nat} (h1 : q ≤ c) (h2 : c < q + 1024) (hs : s = q % 1024) : unwrap c s = q := by
  unfold unwrap
  rw [seqMod_eq]
  subst hs
  omega

/-- **the acceptance lemma, tight form**: the packet was stamped `N` (every vital chunk is one of the
sender's chunks `k` with `k < N ≤ k + 767`), the sender is at most 512 ahead of the receiver
(`N ≤ D + 512`), and no chunk is 1024 or more behind the sequence number `D + 1` the receiver
waited for when the packet arrived.  Scanning from any `d` reached inside this packet hands over
exactly the next `m` chunks. -/
theorem receive_tight (sub : List Bytes) (N D : Nat) (hN : N ≤ D + 512) :
    ∀ (cs : List Chunk) (d : Nat) (rr : Bool), D ≤ d → (d = D ∨ d ≤ N) → d ≤ sub.length →
      (∀ c ∈ cs, ∀ seq r, c.vital = some (seq, r) →
        ∃ k, k < N ∧ N ≤ k + 767 ∧ D < k + 1024 ∧ IsChunk sub k seq c.data) →
      ∃ m, d + m ≤ sub.length ∧ vitalPayloads (receiveLazy (d % 1024) cs) = (sub.drop d).take m ∧
        (receiveEager (d % 1024) rr cs).1 = (d + m) % 1024 := by
  intro cs
  induction cs with
  | nil => intro d rr _ _ hd _; exact ⟨0, by omega, by simp [receiveLazy, vitalPayloads], by simp [receiveEager]⟩
  | cons c cs ih =>
    intro d rr hDd hdN hd hk
    have hk' : ∀ c' ∈ cs, ∀ seq r, c'.vital = some (seq, r) →
        ∃ k, k < N ∧ N ≤ k + 767 ∧ D < k + 1024 ∧ IsChunk sub k seq c'.data :=
      fun c' hc' => hk c' (List.mem_cons_of_mem _ hc')
    unfold receiveLazy receiveEager
    cases hv : c.vital with
    | none =>
      obtain ⟨m, h1, h2, h3⟩ := ih d rr hDd hdN hd hk'
      exact ⟨m, h1, by simpa [vitalPayloads] using h2, by simpa using h3⟩
    | some v =>
      obtain ⟨seq, r⟩ := v
      obtain ⟨k, hkn, hkw, hkD, hch⟩ := hk c (by simp) seq r hv
      simp only
      by_cases hacc : seqNext (d % 1024) = seq
      · have hkd : k = d := by
          have := hch.2
          rw [seqNext_eq] at hacc
          omega
        subst hkd
        have hks : k < sub.length := (List.getElem?_eq_some_iff.mp hch.1).1
        have h1 : (seqUpdate (k % 1024) seq).2 = .current := (seqUpdate_snd _ _).mpr hacc
        have h2 : (seqUpdate (k % 1024) seq).1 = (k + 1) % 1024 := by
          rw [seqUpdate_fst, if_pos hacc, hch.2]
        obtain ⟨m, hm1, hm2, hm3⟩ := ih (k + 1) (rr || (seqUpdate (k % 1024) seq).2 != .current) (by omega)
          (Or.inr (by omega)) (by omega) hk'
        refine ⟨m + 1, by omega, ?_, ?_⟩
        · simp only [h1, if_true, vitalPayloads]
          rw [h2, hm2]
          rw [List.drop_eq_getElem_cons hks, List.take_succ_cons]
          have := hch.1
          rw [List.getElem?_eq_getElem hks] at this
          injection this with this
          rw [this]
        · rw [h2, hm3]; congr 1; omega
      · have h1 : (seqUpdate (d % 1024) seq).2 ≠ .current := fun h => hacc ((seqUpdate_snd _ _).mp h)
        have h2 : (seqUpdate (d % 1024) seq).1 = d % 1024 := by rw [seqUpdate_fst, if_neg hacc]
        obtain ⟨m, hm1, hm2, hm3⟩ := ih d (rr || (seqUpdate (d % 1024) seq).2 != .current) hDd hdN hd hk'
        refine ⟨m, hm1, ?_, ?_⟩
        · simp only [h1, if_false]; exact hm2
        · rw [h2]; exact hm3

/-! ## the sender side of one endpoint, as one predicate -/

/-- what the invariant says about an online state as the *sender* of the vital chunks `sub` (and
non-vital chunks `nv`), of which the peer has been handed the first `d` -/
structure SendOk (cfg : Cfg) (o : Online) (sub nv : List Bytes) (d : Nat) : Prop where
  inv : o.Inv cfg
  seq : o.sequence = sub.length % 1024
  qlen : o.resendQueue.length ≤ 512
  qwin : sub.length ≤ d + o.resendQueue.length
  q : QueueOk sub o.resendQueue
  pk : PacketOk sub sub.length o.packet.chunks
  pknv : NvOk nv o.packet.chunks

/-- what the invariant says about freshly emitted chunk packets -/
def FlsOk (sub nv : List Bytes) (ack : Nat) (fl : List Flushed) : Prop :=
  ∀ f ∈ fl, FlOk sub sub.length f ∧ NvOk nv f.chunks ∧ f.ack = ack

theorem SendOk.new (cfg : Cfg) : SendOk cfg .new [] [] 0 := by
  refine ⟨Online.new_inv cfg, rfl, by simp [Online.new], by simp [Online.new], ?_, PacketOk.nil _ _, ?_⟩
  · intro i c h; simp [Online.new] at h
  · intro c hc; simp [Online.new, PacketContents.empty] at hc

theorem SendOk.mono {cfg : Cfg} {o : Online} {sub nv : List Bytes} {d d' : Nat} (h : SendOk cfg o sub nv d)
    (hd : d ≤ d') : SendOk cfg o sub nv d' :=
  ⟨h.inv, h.seq, h.qlen, by have := h.qwin; omega, h.q, h.pk, h.pknv⟩

/-- the receive-side fields are not looked at -/
theorem SendOk.setAck {cfg : Cfg} {o : Online} {sub nv : List Bytes} {d : Nat} (h : SendOk cfg o sub nv d)
    (a : Nat) (rr : Bool) : SendOk cfg { o with ack := a, requestResend := rr } sub nv d :=
  ⟨⟨h.inv.pn, h.inv.pnv, h.inv.nv, h.inv.cnt, h.inv.size, h.inv.data, h.inv.rq⟩, h.seq, h.qlen, h.qwin, h.q, h.pk, h.pknv⟩

theorem SendOk.flush {cfg : Cfg} {o : Online} {sub nv : List Bytes} {d : Nat} (h : SendOk cfg o sub nv d) :
    SendOk cfg o.flush.1 sub nv d ∧ FlsOk sub nv o.ack o.flush.2 ∧ o.flush.1.ack = o.ack := by
  refine ⟨⟨Online.flush_inv h.inv, by rw [Online.flush_sequence]; exact h.seq,
    by rw [Online.flush_resendQueue]; exact h.qlen, by rw [Online.flush_resendQueue]; exact h.qwin,
    by rw [Online.flush_resendQueue]; exact h.q, ?_, ?_⟩, flush_fl h.inv h.pk h.pknv, Online.flush_ack o⟩
  · rw [Online.flush_packet_nil h.inv]; exact PacketOk.nil _ _
  · rw [Online.flush_packet_nil h.inv]; intro c hc; simp at hc

theorem SendOk.resend {cfg : Cfg} (hc : cfg.Ok) {o : Online} {sub nv : List Bytes} {d : Nat}
    (h : SendOk cfg o sub nv d) {now : Nat} {send : Timeout} {o' : Online} {send' : Timeout} {fl : List Flushed}
    (he : o.resend cfg now send = .ok (o', send', fl)) :
    SendOk cfg o' sub nv d ∧ FlsOk sub nv o.ack fl ∧ o'.ack = o.ack := by
  obtain ⟨f1, f2, f3, f4, f5, f6, f7, f8⟩ := resend_facts hc h.inv h.q h.qlen h.pk h.pknv now send he
  exact ⟨⟨f1, by rw [f2]; exact h.seq, by rw [f4]; exact h.qlen, by rw [f4]; exact h.qwin, f5, f6, f7⟩, f8, f3⟩

/-- `send`: a refused payload changes nothing; an accepted one is queued (after a flush if it did not
fit).  A vital chunk needs H1. -/
theorem SendOk.send {cfg : Cfg} (hc : cfg.Ok) {o : Online} {sub nv : List Bytes} {d : Nat}
    (h : SendOk cfg o sub nv d) {now : Nat} {data : Bytes} {vital : Bool}
    {o' : Online} {r : SendRes} {fl : List Flushed}
    (he : o.send cfg now data vital = .ok (o', r, fl)) :
    (r = .tooLongData ∧ o' = o ∧ fl = []) ∨
    (r = .ok ∧ FlsOk sub nv o.ack fl ∧ o'.ack = o.ack ∧
      (vital = false → SendOk cfg o' sub (nv ++ [data]) d) ∧
      (vital = true → o.resendQueue.length < 512 → SendOk cfg o' (sub ++ [data]) nv d)) := by
  rcases Online.send_spec hc h.inv now data vital with ⟨_, hs⟩ | ⟨hacc, hs⟩
  · rw [hs] at he
    injection he with he; injection he with e1 e2; injection e2 with e2 e3
    exact Or.inl ⟨e2.symm, e1.symm, e3.symm⟩
  · rw [hs] at he
    injection he with he; injection he with e1 e2; injection e2 with e2 e3
    right
    refine ⟨e2.symm, ?_⟩
    have key : ∃ (ob : Online) (fl0 : List Flushed),
        ob = (if o.packet.canFit data.length vital = true then o else o.flush.1) ∧
        fl0 = (if o.packet.canFit data.length vital = true then [] else o.flush.2) ∧
        SendOk cfg ob sub nv d ∧ ob.ack = o.ack ∧ ob.sequence = o.sequence ∧ ob.resendQueue = o.resendQueue ∧
        FlsOk sub nv o.ack fl0 ∧ (ob.packet.canFit data.length vital = true ∨ ob.packet.chunks = []) := by
      by_cases hf : o.packet.canFit data.length vital = true
      · exact ⟨o, [], by simp [hf], by simp [hf], h, rfl, rfl, rfl, by intro f hf; simp at hf, Or.inl hf⟩
      · obtain ⟨a, b, c⟩ := h.flush
        exact ⟨o.flush.1, o.flush.2, by simp [hf], by simp [hf], a, c, Online.flush_sequence _,
          Online.flush_resendQueue _, b, Or.inr (Online.flush_packet_nil h.inv)⟩
    obtain ⟨ob, fl0, hob, hfl0, bok, back, bseq, bq, bfl, hfit⟩ := key
    rw [← hob] at e1
    rw [← hfl0] at e3
    subst e1 e3
    have qinv := Online.queued_inv bok.inv now data vital hacc hfit
    refine ⟨bfl, ?_, ?_, ?_⟩
    · cases vital <;> simp [Online.queued, back]
    · intro hv
      subst hv
      refine ⟨qinv, ?_, ?_, ?_, ?_, ?_, ?_⟩
      · simp [Online.queued]; exact bok.seq
      · simp [Online.queued]; exact bok.qlen
      · simp [Online.queued]; exact bok.qwin
      · simp [Online.queued]; exact bok.q
      · simp [Online.queued]; exact bok.pk.appendNonvital data
      · simp only [Online.queued, Bool.false_eq_true, if_false]
        intro c hcm hv
        rcases List.mem_append.mp hcm with hcm | hcm
        · exact List.mem_append_left _ (bok.pknv c hcm hv)
        · simp at hcm; subst hcm; simp
    · intro hv hq512
      subst hv
      have hseq' : seqNext ob.sequence = (sub.length + 1) % 1024 := by
        rw [bok.seq, seqNext_eq]; omega
      refine ⟨qinv, ?_, ?_, ?_, ?_, ?_, ?_⟩
      · simp [Online.queued, hseq']
      · simp [Online.queued, bq]; omega
      · simp [Online.queued, bq]; have := h.qwin; omega
      · simp only [Online.queued, if_true, hseq']
        exact bok.q.push _ data
      · simp only [Online.queued, if_true, hseq', List.length_append, List.length_singleton]
        exact bok.pk.submit data false
      · simp only [Online.queued, if_true]
        intro c hcm hv
        rcases List.mem_append.mp hcm with hcm | hcm
        · exact bok.pknv c hcm hv
        · simp at hcm; subst hcm; simp at hv

/-- processing an ack `dS mod 1024` that is at most 1023 behind the own counter -/
theorem SendOk.ack {cfg : Cfg} {o : Online} {sub nv : List Bytes} {d : Nat} (h : SendOk cfg o sub nv d)
    (hd : d ≤ sub.length) {dS : Nat} (h1 : dS ≤ d) (hwin : sub.length < dS + 1024) :
    SendOk cfg (o.ackChunks (dS % 1024)) sub nv d ∧ (o.ackChunks (dS % 1024)).ack = o.ack := by
  obtain ⟨ka, ks, kp, kpn, krr, kql, ki, kq⟩ := ackChunks_fields o (dS % 1024)
  refine ⟨⟨Online.ackChunks_inv h.inv _, by rw [ks]; exact h.seq, Nat.le_trans kql h.qlen,
    ackChunks_window h.q h.qlen dS d h1 hd hwin h.qwin, by rw [kq]; exact h.q.take ki,
    by rw [kp]; exact h.pk, by rw [kp]; exact h.pknv⟩, ka⟩

theorem feedAck_eq {o o1 : Online} {a : Nat} (h : o.feedAck a = .ok o1) : o1 = o.ackChunks a := by
  unfold Online.feedAck at h
  split at h
  · cases h
  · injection h with h; exact h.symm

/-- `receive` opened: the optional resend, then the two scans from the same ack -/
theorem SendOk.receive {cfg : Cfg} (hc : cfg.Ok) {o : Online} {sub nv : List Bytes} {d : Nat}
    (h : SendOk cfg o sub nv d) {now : Nat} {send : Timeout} {rr : Bool} {cs : List Chunk}
    {o2 : Online} {send2 : Timeout} {fl : List Flushed} {evs : List Event}
    (he : o.receive cfg now send rr cs = .ok (o2, send2, fl, evs)) :
    SendOk cfg o2 sub nv d ∧ FlsOk sub nv o.ack fl ∧
      ∃ rr0, o2.ack = (receiveEager o.ack rr0 cs).1 ∧ evs = receiveLazy o.ack cs := by
  unfold Online.receive at he
  cases hrr : rr with
  | false =>
    simp only [hrr, Bool.false_eq_true, if_false] at he
    split at he
    · cases he
    · injection he with he; injection he with e1 e2; injection e2 with e2 e3; injection e3 with e3 e4
      subst e1 e3
      exact ⟨h.setAck _ _, by intro f hf; simp at hf, o.requestResend, rfl, e4.symm⟩
  | true =>
    simp only [hrr, if_true] at he
    cases hrs : o.resend cfg now send with
    | error e => rw [hrs] at he; cases he
    | ok r2 =>
      obtain ⟨o1', s1', fl1⟩ := r2
      rw [hrs] at he
      simp only at he
      split at he
      · cases he
      · injection he with he; injection he with e1 e2; injection e2 with e2 e3; injection e3 with e3 e4
        subst e1 e3
        obtain ⟨a, b, c⟩ := h.resend hc hrs
        exact ⟨a.setAck _ _, b, o1'.requestResend, by simp only [c], by rw [← c]; exact e4.symm⟩

end Tw.NetSim
