import Tw.Model.Packet6
import Tw.Proofs.Packet6Headers

/-! Reader of protocol.rs (0.6): the decompression step in closed form, absence of panics. -/
namespace Tw.Packet6
open Tw.Packet Tw.PacketBits

theorem lift_ne_panic (x : Except (ReadError × List Warning) ReadOk) (s : String) :
    ReadResult.lift x ≠ .panic s := by
  cases x with
  | ok r => simp [ReadResult.lift]
  | error e => cases e; simp [ReadResult.lift]

theorem lift_ne_diverge (x : Except (ReadError × List Warning) ReadOk) :
    ReadResult.lift x ≠ .diverge := by
  cases x with
  | ok r => simp [ReadResult.lift]
  | error e => cases e; simp [ReadResult.lift]

theorem unpack_flags_lt (b0 b1 b2 : Nat) (h1 : b1 < 256) :
    (PacketHeader.unpackWarn b0 b1 b2).1.flags < 16 ∧ (PacketHeader.unpackWarn b0 b1 b2).1.ack < 1024 := by
  rw [ph_unpack_eq _ _ _ h1]
  simp only
  omega

theorem bufWrite_eq_some {cap : Nat} {acc bs r : List UInt8} (h : bufWrite cap acc bs = some r) :
    r = acc ++ bs ∧ acc.length + bs.length ≤ cap := by
  unfold bufWrite at h
  split at h <;> simp_all

theorem bufWrite_of_le {cap : Nat} {acc bs : List UInt8} (h : acc.length + bs.length ≤ cap) :
    bufWrite cap acc bs = some (acc ++ bs) := by
  unfold bufWrite
  rw [if_pos h]

theorem ofNat3_length (x : Nat × Nat × Nat) : (ofNat3 x).length = 3 := rfl

theorem bufWrite_nil3 {cap : Nat} (x : Nat × Nat × Nat) (h : 3 ≤ cap) :
    bufWrite cap [] (ofNat3 x) = some (ofNat3 x) := by
  rw [bufWrite_of_le (by simpa [ofNat3_length] using h)]
  rfl

/-- the header `decompress` writes in front of the decompressed payload: the packet's header with
the compression flag cleared -/
def fakeHeader (b0 b1 b2 : UInt8) : List UInt8 :=
  let h := (PacketHeader.unpackWarn b0.toNat b1.toNat b2.toNat).1
  ofNat3 ((h.flags &&& (255 - Tw.Gen.Packet6.PACKETFLAG_COMPRESSION)) * 16 + h.ack / 256, h.ack % 256, h.numChunks)

theorem fakeHeader_length (b0 b1 b2 : UInt8) : (fakeHeader b0 b1 b2).length = 3 := rfl

/-- closed form of `decompress` on its precondition -/
theorem decompress_eq (t : Huffman.Table) (b0 b1 b2 : UInt8) (payload : List UInt8) (cap : Nat)
    (hcap : Tw.Gen.Packet6.MAX_PACKETSIZE ≤ cap)
    (hn : needsDecompression (b0 :: b1 :: b2 :: payload) = true) :
    decompress t (b0 :: b1 :: b2 :: payload) cap =
      match Huffman.decompress t payload (cap - 3) with
      | .ok out => .ok (fakeHeader b0 b1 b2 ++ out)
      | .capacity => .capacity
      | .diverge => .diverge := by
  unfold decompress
  have h1 : ¬ cap < Tw.Gen.Packet6.MAX_PACKETSIZE := by omega
  rw [if_neg h1]
  simp only [hn, not_true_eq_false, if_false]
  have hb := unpack_flags_lt b0.toNat b1.toNat b2.toNat (UInt8.toNat_lt b1)
  have hf : (PacketHeader.unpackWarn b0.toNat b1.toNat b2.toNat).1.flags &&& (255 - Tw.Gen.Packet6.PACKETFLAG_COMPRESSION) < 16 :=
    Nat.lt_of_le_of_lt Nat.and_le_left hb.1
  rw [ph_pack_eq ⟨_, _, _⟩ hf hb.2]
  have h3 : 3 ≤ cap := by
    have : Tw.Gen.Packet6.MAX_PACKETSIZE = 1400 := by decide
    omega
  simp only [bufWrite_nil3 _ h3, ofNat3_length]
  rfl

theorem needsDecompression_of (b0 b1 b2 : UInt8) (payload : List UInt8)
    (hlen : ¬ (b0 :: b1 :: b2 :: payload).length > Tw.Gen.Packet6.MAX_PACKETSIZE)
    (hc : ¬ (PacketHeader.unpackWarn b0.toNat b1.toNat b2.toNat).1.flags &&& Tw.Gen.Packet6.PACKETFLAG_CONNLESS ≠ 0)
    (hz : (PacketHeader.unpackWarn b0.toNat b1.toNat b2.toNat).1.flags &&& Tw.Gen.Packet6.PACKETFLAG_COMPRESSION ≠ 0) :
    needsDecompression (b0 :: b1 :: b2 :: payload) = true := by
  unfold needsDecompression
  rw [if_neg hlen]
  simp only [ne_eq, Decidable.not_not] at hc
  simp [hc, hz]

theorem read_ne_panic (t : Huffman.Table) (bytes : List UInt8) (hint : Option Bool) (cap : Nat)
    (hcap : Tw.Gen.Packet6.MAX_PACKETSIZE ≤ cap) (s : String) :
    read t bytes hint (some cap) ≠ .panic s := by
  unfold read
  have h1 : ¬ cap < Tw.Gen.Packet6.MAX_PACKETSIZE := by omega
  simp only [h1, decide_false, Bool.false_eq_true, if_false]
  split
  · simp
  · rename_i hlen
    split
    · rename_i b0 b1 b2 payload0
      split
      · exact lift_ne_panic _ _
      · rename_i hc
        split
        · rename_i hz
          rw [decompress_eq t b0 b1 b2 payload0 cap hcap (needsDecompression_of b0 b1 b2 payload0 hlen hc hz)]
          cases Huffman.decompress t payload0 (cap - 3) with
          | ok out =>
            simp only
            have : ¬ (fakeHeader b0 b1 b2 ++ out).length < Tw.Gen.Packet6.HEADER_SIZE := by
              simp [fakeHeader_length, Tw.Gen.Packet6.HEADER_SIZE]
            rw [if_neg this]
            exact lift_ne_panic _ _
          | capacity => simp
          | diverge => simp
        · exact lift_ne_panic _ _
    · simp

/-- `read_panic_on_decompression` under its documented precondition (not a compressed packet) -/
theorem read_nobuf_ne_panic (t : Huffman.Table) (bytes : List UInt8) (hint : Option Bool)
    (hn : needsDecompression bytes = false) (s : String) :
    read t bytes hint none ≠ .panic s := by
  unfold read
  simp only [Bool.false_eq_true, if_false]
  split
  · simp
  · rename_i hlen
    split
    · rename_i b0 b1 b2 payload0
      split
      · exact lift_ne_panic _ _
      · rename_i hc
        split
        · rename_i hz
          rw [needsDecompression_of b0 b1 b2 payload0 hlen hc hz] at hn
          simp at hn
        · exact lift_ne_panic _ _
    · simp

/-- the reader diverges only if the Huffman decoder does -/
theorem read_ne_diverge (t : Huffman.Table) (bytes : List UInt8) (hint : Option Bool) (buffer : Option Nat)
    (ht : ∀ input cap, Huffman.decompress t input cap ≠ .diverge) :
    read t bytes hint buffer ≠ .diverge := by
  cases buffer with
  | none =>
    unfold read
    simp only [Bool.false_eq_true, if_false]
    split
    · simp
    · split
      · split
        · exact lift_ne_diverge _
        · split
          · simp
          · exact lift_ne_diverge _
      · simp
  | some cap =>
    by_cases hcap : cap < Tw.Gen.Packet6.MAX_PACKETSIZE
    · unfold read
      simp [hcap]
    · unfold read
      simp only [hcap, decide_false, Bool.false_eq_true, if_false]
      split
      · simp
      · rename_i hlen
        split
        · rename_i b0 b1 b2 payload0
          split
          · exact lift_ne_diverge _
          · rename_i hc
            split
            · rename_i hz
              rw [decompress_eq t b0 b1 b2 payload0 cap (by omega)
                (needsDecompression_of b0 b1 b2 payload0 hlen hc hz)]
              have := ht payload0 (cap - 3)
              cases hd : Huffman.decompress t payload0 (cap - 3) with
              | ok out =>
                simp only
                split
                · simp
                · exact lift_ne_diverge _
              | capacity => simp
              | diverge => exact absurd hd this
            · exact lift_ne_diverge _
        · simp

theorem decompressIfNeeded_ne_panic (t : Huffman.Table) (packet : List UInt8) (cap : Nat)
    (hcap : Tw.Gen.Packet6.MAX_PACKETSIZE ≤ cap) (s : String) :
    decompressIfNeeded t packet cap ≠ .panic s := by
  unfold decompressIfNeeded
  have h1 : ¬ cap < Tw.Gen.Packet6.MAX_PACKETSIZE := by omega
  rw [if_neg h1]
  split
  · simp
  · rename_i hn
    simp only [Bool.not_eq_true, Bool.not_eq_false] at hn
    match packet, hn with
    | [], hn => simp [needsDecompression] at hn
    | [_], hn => simp [needsDecompression] at hn
    | [_, _], hn => simp [needsDecompression] at hn
    | b0 :: b1 :: b2 :: payload, hn =>
      rw [decompress_eq t b0 b1 b2 payload cap hcap hn]
      cases Huffman.decompress t payload (cap - 3) <;> simp

end Tw.Packet6
