import Tw.Model.ServerBrowse
import Tw.Proofs.ServerBrowseMerge

/-! **Hypothetical repair of D10.**  `mergeRepaired` is `merge` with the one statement the code lacks
(`self.received |= other.received` after the swap). Nothing here describes the code that exists;
it shows that with this statement the full merge property (`C18_merge_full`, any order, any
repetition) holds, i.e. that the missing mask update is the only obstacle. -/
namespace Tw.ServerBrowse
open Tw.Gen.Browse

/-- `merge` + `self.received |= other.received` (NOT the code under test) -/
def mergeRepaired (self other : PartialInfo) : PartialInfo × Option MergeError :=
  if self.info.token ≠ other.info.token then (self, some .differingTokens)
  else if self.info.infoVersion ≠ other.info.infoVersion then (self, some .differingVersions)
  else if self.info.infoVersion ≠ .v664 ∧ self.info.infoVersion ≠ .v6Ex then (self, some .notMultipartVersion)
  else if self.received &&& other.received = other.received then (self, none)
  else if self.received &&& other.received ≠ 0 then (self, some .overlappingInfos)
  else
    let (a, b) := if self.info.infoVersion = .v6Ex ∧ self.received &&& 1 = 0 then (other, self) else (self, other)
    ({ info := { a.info with clients := a.info.clients ++ b.info.clients }, received := a.received ||| b.received }, none)

def mergeAllRepaired (acc : PartialInfo) (ps : List PartialInfo) : PartialInfo :=
  ps.foldl (fun s p => (mergeRepaired s p).1) acc

theorem mergeRepaired_extend {s o : PartialInfo} (htok : s.info.token = o.info.token)
    (hver : s.info.infoVersion = o.info.infoVersion)
    (hmulti : s.info.infoVersion = .v664 ∨ s.info.infoVersion = .v6Ex)
    (hnew : s.received &&& o.received ≠ o.received) (hdisj : s.received &&& o.received = 0) :
    mergeRepaired s o =
      (if s.info.infoVersion = .v6Ex ∧ s.received &&& 1 = 0
        then { info := o.info.withClients (o.info.clients ++ s.info.clients), received := o.received ||| s.received }
        else { info := s.info.withClients (s.info.clients ++ o.info.clients), received := s.received ||| o.received }, none) := by
  unfold mergeRepaired
  have h3 : ¬ (s.info.infoVersion ≠ .v664 ∧ s.info.infoVersion ≠ .v6Ex) := by
    rcases hmulti with h | h <;> simp [h]
  rw [if_neg (fun h => h htok), if_neg (fun h => h hver), if_neg h3, if_neg hnew, if_neg (fun h => h hdisj)]
  by_cases hc : s.info.infoVersion = .v6Ex ∧ s.received &&& 1 = 0
  · simp only [hc, and_self, if_true]; rfl
  · simp only [hc, if_false]; rfl

theorem mergeRepaired_known {s o : PartialInfo} (htok : s.info.token = o.info.token)
    (hver : s.info.infoVersion = o.info.infoVersion)
    (hmulti : s.info.infoVersion = .v664 ∨ s.info.infoVersion = .v6Ex)
    (hold : s.received &&& o.received = o.received) :
    mergeRepaired s o = (s, none) := by
  unfold mergeRepaired
  have h3 : ¬ (s.info.infoVersion ≠ .v664 ∧ s.info.infoVersion ≠ .v6Ex) := by
    rcases hmulti with h | h <;> simp [h]
  rw [if_neg (fun h => h htok), if_neg (fun h => h hver), if_neg h3, if_pos hold]

/-! ### unions of masks -/

def orAll (l : List Nat) : Nat := l.foldr (· ||| ·) 0

theorem orAll_testBit (l : List Nat) (i : Nat) : (orAll l).testBit i = l.any (·.testBit i) := by
  induction l with
  | nil => simp [orAll]
  | cons a l ih =>
    have : orAll (a :: l) = a ||| orAll l := rfl
    rw [this, Nat.testBit_or, ih]; simp

theorem orAll_absorb {l : List Nat} {m : Nat} (h : m ∈ l) : orAll l &&& m = m := by
  apply Nat.eq_of_testBit_eq
  intro i
  rw [Nat.testBit_and, orAll_testBit]
  cases hm : m.testBit i with
  | false => simp
  | true =>
    simp only [Bool.and_true, List.any_eq_true]
    exact ⟨m, h, hm⟩

theorem and_eq_zero_testBit {x m : Nat} (h : x &&& m = 0) (i : Nat) : (x.testBit i && m.testBit i) = false := by
  rw [← Nat.testBit_and, h]; simp

theorem orAll_disjoint {l : List Nat} {m : Nat} (h : ∀ x ∈ l, x &&& m = 0) : orAll l &&& m = 0 := by
  apply Nat.eq_of_testBit_eq
  intro i
  rw [Nat.testBit_and, orAll_testBit, Nat.zero_testBit]
  cases hm : m.testBit i with
  | false => simp
  | true =>
    simp only [Bool.and_true]
    rw [Bool.eq_false_iff]
    intro hany
    obtain ⟨x, hx, hxi⟩ := List.any_eq_true.1 hany
    have := and_eq_zero_testBit (h x hx) i
    simp [hxi, hm] at this

theorem orAll_append_singleton (l : List Nat) (m : Nat) : orAll (l ++ [m]) = orAll l ||| m := by
  apply Nat.eq_of_testBit_eq
  intro i
  simp [Nat.testBit_or, orAll_testBit, List.any_append]

theorem orAll_bit0 {l : List Nat} {x : Nat} (hx : x ∈ l) (h : x &&& 1 ≠ 0) : orAll l &&& 1 ≠ 0 := by
  intro e
  have h1 := and_eq_zero_testBit e 0
  have hx0 : x.testBit 0 = true := by
    rw [Nat.and_one_is_mod] at h
    simp only [Nat.testBit_zero, decide_eq_true_eq]
    omega
  have : l.any (·.testBit 0) = true := List.any_eq_true.2 ⟨x, hx, hx0⟩
  rw [orAll_testBit, this] at h1
  simp at h1

/-! ### facts about the parts of a family -/

namespace Family

/-- the header an accumulator holds after the parts `seen` -/
def hdrOf (f : Family) (seen : List Nat) : ServerInfo :=
  if f.ex = true ∧ 0 ∉ seen then moreHdr f.hdr.token else f.hdr

def mask (f : Family) (i : Nat) : Nat := (f.part i).received

theorem part_info (f : Family) (hwf : f.WellFormed) (i : Nat) (hi : i < f.size) :
    (f.part i).info = (f.hdrOf [i]).withClients (f.chunk i) := by
  unfold part hdrOf
  cases hex : f.ex with
  | false => simp
  | true =>
    have hno := ((hwf.2.2.2.2.1 hex).1 i hi).1
    simp only [if_true, exPart]
    by_cases h0 : i = 0
    · have : f.no i = 0 := hno.2 h0
      subst h0
      simp [this]
    · have : ¬ f.no i = 0 := fun e => h0 (hno.1 e)
      simp [this, Ne.symm h0]

theorem hdrOf_token (f : Family) (seen : List Nat) : (f.hdrOf seen).token = f.hdr.token := by
  unfold hdrOf; split <;> rfl

theorem hdrOf_version (f : Family) (hwf : f.WellFormed) (seen : List Nat) :
    (f.hdrOf seen).infoVersion = f.hdr.infoVersion := by
  unfold hdrOf
  split
  · rename_i h
    have := hwf.2.1
    rw [this]; simp [h.1, moreHdr]
  · rfl

theorem hdr_multi (f : Family) (hwf : f.WellFormed) : f.hdr.infoVersion = .v664 ∨ f.hdr.infoVersion = .v6Ex := by
  have := hwf.2.1
  cases hex : f.ex <;> simp [hex] at this <;> simp [this]

theorem mask_disjoint (f : Family) (hwf : f.WellFormed) {i j : Nat} (hi : i < f.size) (hj : j < f.size) (hne : i ≠ j) :
    f.mask i &&& f.mask j = 0 := by
  unfold mask part
  cases hex : f.ex with
  | false =>
    simp only [Bool.false_eq_true, if_false]
    apply rangeMask_disjoint
    rcases Nat.lt_or_gt_of_ne hne with h | h
    · exact Or.inl (f.offset_mono h)
    · exact Or.inr (f.offset_mono h)
  | true =>
    simp only [if_true, exPart_received]
    apply two_pow_and_ne
    intro e
    exact hne ((hwf.2.2.2.2.1 hex).2 i hi j hj e)

theorem mask_zero (f : Family) {i : Nat} (h : f.mask i = 0) : f.chunk i = [] := by
  unfold mask part at h
  cases hex : f.ex with
  | false =>
    simp only [hex, Bool.false_eq_true, if_false] at h
    by_cases hl : 0 < (f.chunk i).length
    · exact absurd h (rangeMask_ne_zero hl)
    · exact List.length_eq_zero_iff.1 (by omega)
  | true =>
    simp only [hex, if_true, exPart_received] at h
    exact absurd h (Nat.pos_iff_ne_zero.1 (Nat.two_pow_pos _))

theorem mask_bit0 (f : Family) (hwf : f.WellFormed) (hex : f.ex = true) {i : Nat} (hi : i < f.size) :
    f.mask i &&& 1 = 0 ↔ i ≠ 0 := by
  unfold mask part
  simp only [hex, if_true, exPart_received]
  have hno := ((hwf.2.2.2.2.1 hex).1 i hi).1
  constructor
  · intro h e
    have : f.no i = 0 := hno.2 e
    rw [this] at h; simp at h
  · intro h
    exact two_pow_and_one (fun e => h (hno.1 e))

/-- no part that carries clients is missing ⇔ every part has been seen (given a first part, and for
an extended info the main packet) -/
theorem missing_iff_covers (f : Family) (hwf : f.WellFormed) (seen : List Nat) (hne : seen ≠ [])
    (hr : ∀ i ∈ seen, i < f.size) (hmain : f.ex = true → 0 ∈ seen) :
    (∀ i < f.size, i ∉ seen → f.chunk i = []) ↔ f.Covers seen := by
  constructor
  · intro h i hi
    apply Classical.byContradiction
    intro hni
    have he := h i hi hni
    rcases hwf.2.2.2.1 i hi with h1 | ⟨h0, h2⟩
    · exact h1 he
    · rcases h2 with h2 | h2
      · exact hni (h0 ▸ hmain h2)
      · cases seen with
        | nil => exact hne rfl
        | cons a l =>
          have := hr a List.mem_cons_self
          have : a = i := by omega
          exact hni (this ▸ List.mem_cons_self)
  · intro h i hi hni
    exact absurd (h i hi) hni

/-- invariant of the repaired accumulator: `seen` = the distinct parts merged so far -/
structure RInv (f : Family) (seen : List Nat) (s : PartialInfo) : Prop where
  nodup : seen.Nodup
  range : ∀ i ∈ seen, i < f.size
  nonempty : seen ≠ []
  mask : s.received = orAll (seen.map f.mask)
  info : ∃ cs, cs.Perm (seen.flatMap f.chunk) ∧ s.info = (f.hdrOf seen).withClients cs

theorem rinv_start (f : Family) (hwf : f.WellFormed) (i : Nat) (hi : i < f.size) : RInv f [i] (f.part i) where
  nodup := by simp
  range := by simp [hi]
  nonempty := by simp
  mask := by simp [orAll, Family.mask]
  info := ⟨f.chunk i, by simp, f.part_info hwf i hi⟩

theorem rinv_step (f : Family) (hwf : f.WellFormed) (seen : List Nat) (s : PartialInfo) (q : Nat) (hq : q < f.size)
    (hinv : RInv f seen s) :
    ∃ seen', RInv f seen' (mergeRepaired s (f.part q)).1 ∧ ∀ i, i ∈ seen' ↔ i ∈ seen ∨ i = q := by
  obtain ⟨hnd, hr, hne, hmask, cs, hperm, hinfo⟩ := hinv
  have htok : s.info.token = (f.part q).info.token := by
    rw [hinfo, f.part_info hwf q hq]; simp [hdrOf_token]
  have hver : s.info.infoVersion = (f.part q).info.infoVersion := by
    rw [hinfo, f.part_info hwf q hq]; simp [hdrOf_version f hwf]
  have hsv : s.info.infoVersion = f.hdr.infoVersion := by rw [hinfo]; simp [hdrOf_version f hwf]
  have hmulti : s.info.infoVersion = .v664 ∨ s.info.infoVersion = .v6Ex := by rw [hsv]; exact f.hdr_multi hwf
  by_cases hmem : q ∈ seen
  · -- a repetition: recognised through the accumulated mask
    refine ⟨seen, ?_, fun i => ⟨Or.inl, fun h => h.elim id (fun e => e ▸ hmem)⟩⟩
    have : s.received &&& (f.part q).received = (f.part q).received := by
      rw [hmask]; exact orAll_absorb (List.mem_map_of_mem (f := f.mask) hmem)
    rw [mergeRepaired_known htok hver hmulti this]
    exact ⟨hnd, hr, hne, hmask, cs, hperm, hinfo⟩
  · have hdisj : s.received &&& (f.part q).received = 0 := by
      rw [hmask]
      apply orAll_disjoint
      intro x hx
      obtain ⟨j, hj, rfl⟩ := List.mem_map.1 hx
      exact f.mask_disjoint hwf (hr j hj) hq (fun e => hmem (e ▸ hj))
    have hnd' : (seen ++ [q]).Nodup := by
      rw [List.nodup_append]
      exact ⟨hnd, by simp, by intro a ha b hb; simp at hb; subst hb; exact fun e => hmem (e ▸ ha)⟩
    have hr' : ∀ i ∈ seen ++ [q], i < f.size := by
      intro i hi
      rcases List.mem_append.1 hi with h | h
      · exact hr i h
      · simp at h; exact h ▸ hq
    have hmem' : ∀ i, i ∈ seen ++ [q] ↔ i ∈ seen ∨ i = q := by intro i; simp
    refine ⟨seen ++ [q], ?_, hmem'⟩
    by_cases hz : f.mask q = 0
    · -- a legacy part without clients: nothing to add
      have hc := f.mask_zero hz
      have hex : f.ex = false := by
        cases hex : f.ex with
        | false => rfl
        | true =>
          have : f.mask q ≠ 0 := by
            unfold Family.mask part; simp only [hex, if_true, exPart_received]
            exact Nat.pos_iff_ne_zero.1 (Nat.two_pow_pos _)
          exact absurd hz this
      have : s.received &&& (f.part q).received = (f.part q).received := by
        show s.received &&& f.mask q = f.mask q
        rw [hz]; simp
      rw [mergeRepaired_known htok hver hmulti this]
      refine ⟨hnd', hr', by simp, ?_, cs, ?_, ?_⟩
      · rw [hmask, List.map_append, List.map_singleton, orAll_append_singleton, hz]; simp
      · rw [List.flatMap_append]; simpa [hc] using hperm
      · rw [hinfo]; simp [hdrOf, hex]
    · have hnew : s.received &&& (f.part q).received ≠ (f.part q).received := by
        rw [hdisj]; exact fun e => hz e.symm
      rw [mergeRepaired_extend htok hver hmulti hnew hdisj]
      by_cases hsw : s.info.infoVersion = .v6Ex ∧ s.received &&& 1 = 0
      · -- extended info, main packet not yet seen: the new part becomes the accumulator
        simp only [hsw, and_self, if_true]
        have hex : f.ex = true := by
          cases hex : f.ex with
          | true => rfl
          | false =>
            have := hwf.2.1
            rw [hex] at this
            rw [hsv] at hsw
            simp [this] at hsw
        have h0 : 0 ∉ seen := by
          intro h0
          have hb : f.mask 0 &&& 1 ≠ 0 := fun e => ((f.mask_bit0 hwf hex (hr 0 h0)).1 e) rfl
          have := orAll_bit0 (List.mem_map_of_mem (f := f.mask) h0) hb
          rw [← hmask] at this
          exact this hsw.2
        refine ⟨hnd', hr', by simp, ?_, f.chunk q ++ cs, ?_, ?_⟩
        · show f.mask q ||| s.received = _
          rw [hmask, List.map_append, List.map_singleton, orAll_append_singleton, Nat.or_comm]
        · rw [List.flatMap_append]
          simp only [List.flatMap_cons, List.flatMap_nil, List.append_nil]
          exact List.perm_append_comm.trans (hperm.append_right _)
        · rw [f.part_info hwf q hq, hinfo]
          simp only [withClients_clients, withClients_withClients]
          congr 1
          unfold hdrOf
          by_cases hq0 : q = 0
          · simp [hex, hq0]
          · have : 0 ∉ seen ++ [q] := by simp [h0, Ne.symm hq0]
            simp [hex, this, Ne.symm hq0]
      · simp only [hsw, if_false]
        refine ⟨hnd', hr', by simp, ?_, cs ++ f.chunk q, ?_, ?_⟩
        · show s.received ||| f.mask q = _
          rw [hmask, List.map_append, List.map_singleton, orAll_append_singleton]
        · rw [List.flatMap_append]; simpa using hperm.append_right (f.chunk q)
        · rw [hinfo, f.part_info hwf q hq]
          simp only [withClients_clients, withClients_withClients]
          congr 1
          unfold hdrOf
          cases hex : f.ex with
          | false => simp
          | true =>
            -- the main packet has been seen, otherwise the swap would have happened
            have h0 : 0 ∈ seen := by
              apply Classical.byContradiction
              intro h0
              apply hsw
              refine ⟨by rw [hsv, hwf.2.1]; simp [hex], ?_⟩
              rw [hmask]
              apply orAll_disjoint
              intro x hx
              obtain ⟨j, hj, rfl⟩ := List.mem_map.1 hx
              exact (f.mask_bit0 hwf hex (hr j hj)).2 (fun e => h0 (e ▸ hj))
            simp [h0]

theorem rinv_fold (f : Family) (hwf : f.WellFormed) (rest : List Nat) :
    ∀ (seen : List Nat) (s : PartialInfo), RInv f seen s → (∀ i ∈ rest, i < f.size) →
      ∃ seen', RInv f seen' (mergeAllRepaired s (rest.map f.part)) ∧ ∀ i, i ∈ seen' ↔ i ∈ seen ∨ i ∈ rest := by
  induction rest with
  | nil => intro seen s h _; exact ⟨seen, h, by simp⟩
  | cons q rest ih =>
    intro seen s hinv hr
    obtain ⟨seen1, h1, hm1⟩ := f.rinv_step hwf seen s q (hr q List.mem_cons_self) hinv
    obtain ⟨seen2, h2, hm2⟩ := ih seen1 _ h1 (fun i hi => hr i (List.mem_cons_of_mem _ hi))
    refine ⟨seen2, h2, ?_⟩
    intro i
    rw [hm2, hm1]
    simp only [List.mem_cons]
    constructor
    · rintro ((h | h) | h)
      · exact Or.inl h
      · exact Or.inr (Or.inl h)
      · exact Or.inr (Or.inr h)
    · rintro (h | h | h)
      · exact Or.inl (Or.inl h)
      · exact Or.inl (Or.inr h)
      · exact Or.inr h

/-- `get_info` after folding the repaired merge over the parts `seq` -/
def resultRepaired (f : Family) : List Nat → Option ServerInfo
  | [] => none
  | i :: rest => (getInfo (mergeAllRepaired (f.part i) (rest.map f.part))).2

/-- With the mask update, the full property holds: any order, any repetition. -/
theorem resultRepaired_spec (f : Family) (hwf : f.WellFormed) (hreq : GET_INFO_REQUIRES_MAIN = true) (seq : List Nat)
    (hne : seq ≠ []) (hr : ∀ i ∈ seq, i < f.size) :
    f.resultRepaired seq = if f.Covers seq then some f.completeInfo else none := by
  cases seq with
  | nil => exact absurd rfl hne
  | cons i0 rest =>
    obtain ⟨seen, hinv, hmem⟩ := f.rinv_fold hwf rest [i0] (f.part i0)
      (f.rinv_start hwf i0 (hr i0 List.mem_cons_self)) (fun i hi => hr i (List.mem_cons_of_mem _ hi))
    have hmem' : ∀ i, i ∈ seen ↔ i ∈ i0 :: rest := by intro i; rw [hmem]; simp
    have hcov : f.Covers seen ↔ f.Covers (i0 :: rest) :=
      ⟨fun h i hi => (hmem' i).1 (h i hi), fun h i hi => (hmem' i).2 (h i hi)⟩
    obtain ⟨hnd, hrange, hnes, hmask, cs, hperm, hinfo⟩ := hinv
    show (getInfo (mergeAllRepaired (f.part i0) (rest.map f.part))).2 = _
    have hpos := hwf.1
    by_cases hmain : f.ex = true ∧ 0 ∉ seen
    · -- extended info without its main packet: never complete
      have hnc : ¬ f.Covers (i0 :: rest) := fun h => hmain.2 ((hcov.2 h) 0 hpos)
      rw [if_neg hnc, getInfo_result]
      have hv : (mergeAllRepaired (f.part i0) (rest.map f.part)).info.infoVersion = .v6Ex := by
        rw [hinfo]; simp [hdrOf_version f hwf, hwf.2.1, hmain.1]
      have hb : (mergeAllRepaired (f.part i0) (rest.map f.part)).received &&& 1 = 0 := by
        rw [hmask]
        apply orAll_disjoint
        intro x hx
        obtain ⟨j, hj, rfl⟩ := List.mem_map.1 hx
        exact (f.mask_bit0 hwf hmain.1 (hrange j hj)).2 (fun e => hmain.2 (e ▸ hj))
      rw [if_pos ⟨hreq, hv, hb⟩]
    · have hh : f.hdrOf seen = f.hdr := by unfold hdrOf; rw [if_neg hmain]
      have h0 : f.ex = true → 0 ∈ seen := by
        intro hex
        apply Classical.byContradiction
        intro h0; exact hmain ⟨hex, h0⟩
      have := f.finish hwf seen hnd hrange _ ?_ cs hperm (by rw [hinfo, hh])
        (f.missing_iff_covers hwf seen hnes hrange h0)
      · rw [this]
        by_cases hc : f.Covers seen
        · rw [if_pos hc, if_pos (hcov.1 hc)]
        · rw [if_neg hc, if_neg (fun h => hc (hcov.2 h))]
      · rintro ⟨_, hv, hb⟩
        cases hex : f.ex with
        | false =>
          rw [hinfo, hh] at hv
          have := hwf.2.1
          rw [hex] at this
          simp [this] at hv
        | true =>
          have h0' := h0 hex
          have hb0 : f.mask 0 &&& 1 ≠ 0 := fun e => ((f.mask_bit0 hwf hex (hrange 0 h0')).1 e) rfl
          have := orAll_bit0 (List.mem_map_of_mem (f := f.mask) h0') hb0
          rw [← hmask] at this
          exact this hb

end Family

end Tw.ServerBrowse
